(** C20 -- Aggregate: combining with + / += equals feeding all values into one Aggregate.
    Exact arithmetic over Q; all equalities on rationals are [Qeq] (==). *)
From Coq Require Import ZArith NArith QArith Qminmax Qfield List Lia Lqa Setoid Morphisms.
From TLXV Require Import C20.Agg.
Import ListNotations.
Open Scope Q_scope.

(* ------------------------------------------------------------------ equality of aggregates up to == *)
Definition agg_eq (a b : agg) : Prop :=
  count a = count b /\ mean a == mean b /\ nvar a == nvar b /\ amin a == amin b /\ amax a == amax b.

Lemma agg_eq_refl : forall a, agg_eq a a.
Proof. intros a. repeat split; reflexivity. Qed.
Lemma agg_eq_sym : forall a b, agg_eq a b -> agg_eq b a.
Proof. intros a b (H1 & H2 & H3 & H4 & H5). repeat split; symmetry; assumption. Qed.
Lemma agg_eq_trans : forall a b c, agg_eq a b -> agg_eq b c -> agg_eq a c.
Proof.
  intros a b c (H1 & H2 & H3 & H4 & H5) (G1 & G2 & G3 & G4 & G5).
  repeat split; etransitivity; eassumption.
Qed.

(* ------------------------------------------------------------------ the textbook quantities *)
Fixpoint sumQ (l : list Q) : Q := match l with [] => 0 | x :: r => x + sumQ r end.
Fixpoint sumsq (l : list Q) : Q := match l with [] => 0 | x :: r => x * x + sumsq r end.
Definition lmin (hi : Q) (l : list Q) : Q := fold_right Qmin hi l.
Definition lmax (lo : Q) (l : list Q) : Q := fold_right Qmax lo l.
Definition len (l : list Q) : N := N.of_nat (length l).
(** sum of squared deviations from m *)
Fixpoint sqdev (m : Q) (l : list Q) : Q := match l with [] => 0 | x :: r => (x - m) * (x - m) + sqdev m r end.

Lemma sumQ_app : forall a b, sumQ (a ++ b) == sumQ a + sumQ b.
Proof. induction a as [| x a IH]; intros b; cbn [sumQ app]; [ring | rewrite IH; ring]. Qed.
Lemma sumsq_app : forall a b, sumsq (a ++ b) == sumsq a + sumsq b.
Proof. induction a as [| x a IH]; intros b; cbn [sumsq app]; [ring | rewrite IH; ring]. Qed.

Lemma qn_add : forall a b, qn (a + b) == qn a + qn b.
Proof. intros a b. unfold qn. rewrite N2Z.inj_add, inject_Z_plus. reflexivity. Qed.
Lemma qn_mul : forall a b, qn (a * b) == qn a * qn b.
Proof. intros a b. unfold qn. rewrite N2Z.inj_mul, inject_Z_mult. reflexivity. Qed.
Lemma qn_nonneg : forall a, 0 <= qn a.
Proof. intros a. unfold qn. change 0 with (inject_Z 0). rewrite <- Zle_Qle. lia. Qed.
Lemma qn_pos : forall a, a <> 0%N -> 0 < qn a.
Proof. intros a H. unfold qn. change 0 with (inject_Z 0). rewrite <- Zlt_Qlt. lia. Qed.
Lemma qn_1 : qn 1 == 1.
Proof. reflexivity. Qed.

Lemma len_app : forall a b, len (a ++ b) = (len a + len b)%N.
Proof. intros a b. unfold len. rewrite app_length. lia. Qed.
Lemma len_0 : forall l, len l = 0%N -> l = [].
Proof. intros [| x l] H; [reflexivity | unfold len in H; cbn in H; lia]. Qed.
Lemma len_nil_iff : forall l, len l <> 0%N <-> l <> [].
Proof.
  intros l. split; intros H E.
  - subst l. now apply H.
  - apply H. now apply len_0.
Qed.

(* ------------------------------------------------------------------ min / max *)
Lemma lmin_le_hi : forall hi l, lmin hi l <= hi.
Proof.
  induction l as [| x l IH]; cbn [lmin fold_right]; [apply Qle_refl |].
  eapply Qle_trans; [apply Q.le_min_r | exact IH].
Qed.
Lemma lmax_ge_lo : forall lo l, lo <= lmax lo l.
Proof.
  induction l as [| x l IH]; cbn [lmax fold_right]; [apply Qle_refl |].
  eapply Qle_trans; [exact IH | apply Q.le_max_r].
Qed.

Lemma lmin_app : forall hi a b, Qmin (lmin hi a) (lmin hi b) == lmin hi (a ++ b).
Proof.
  induction a as [| x a IH]; intros b; cbn [lmin fold_right app].
  - apply Q.min_r. apply lmin_le_hi.
  - fold (lmin hi a). fold (lmin hi (a ++ b)). rewrite <- IH. symmetry. apply Q.min_assoc.
Qed.
Lemma lmax_app : forall lo a b, Qmax (lmax lo a) (lmax lo b) == lmax lo (a ++ b).
Proof.
  induction a as [| x a IH]; intros b; cbn [lmax fold_right app].
  - apply Q.max_r. apply lmax_ge_lo.
  - fold (lmax lo a). fold (lmax lo (a ++ b)). rewrite <- IH. symmetry. apply Q.max_assoc.
Qed.
Lemma lmin_snoc : forall hi a v, Qmin (lmin hi a) v == lmin hi (a ++ [v]).
Proof.
  intros hi a v. rewrite <- lmin_app. assert (HA := lmin_le_hi hi a). set (A := lmin hi a) in *.
  cbn [lmin fold_right]. symmetry.
  rewrite Q.min_assoc, (Q.min_comm A v), <- Q.min_assoc, (Q.min_l A hi) by exact HA. reflexivity.
Qed.
Lemma lmax_snoc : forall lo a v, Qmax (lmax lo a) v == lmax lo (a ++ [v]).
Proof.
  intros lo a v. rewrite <- lmax_app. assert (HA := lmax_ge_lo lo a). set (A := lmax lo a) in *.
  cbn [lmax fold_right]. symmetry.
  rewrite Q.max_assoc, (Q.max_comm A v), <- Q.max_assoc, (Q.max_l A lo) by exact HA. reflexivity.
Qed.

(* ------------------------------------------------------------------ the invariant *)
Section WithSentinels.
Variables hi lo : Q.

(** [a] is an aggregate of exactly the values [l] *)
Definition Inv (a : agg) (l : list Q) : Prop :=
  count a = len l /\
  mean a * qn (len l) == sumQ l /\
  nvar a == sumsq l - mean a * mean a * qn (len l) /\
  (l = [] -> mean a == 0) /\
  amin a == lmin hi l /\ amax a == lmax lo l.

Lemma Inv_empty : Inv (empty hi lo) [].
Proof. unfold Inv, empty; cbn. repeat split; try reflexivity; intros; reflexivity. Qed.

Lemma Inv_agg_eq : forall a b l, Inv a l -> agg_eq b a -> Inv b l.
Proof.
  intros a b l (H1 & H2 & H3 & H4 & H5 & H6) (E1 & E2 & E3 & E4 & E5).
  unfold Inv. rewrite E1, E2, E3, E4, E5. repeat split; assumption.
Qed.

Lemma Inv_unique : forall a b l, Inv a l -> Inv b l -> agg_eq a b.
Proof.
  intros a b l (H1 & H2 & H3 & H4 & H5 & H6) (G1 & G2 & G3 & G4 & G5 & G6).
  assert (Em : mean a == mean b).
  { destruct l as [| x l]; [rewrite H4, G4 by reflexivity; reflexivity |].
    apply Qmult_inj_r with (qn (len (x :: l))).
    - intros E. assert (P := qn_pos (len (x :: l))). rewrite E in P. apply (Qlt_irrefl 0), P.
      unfold len; cbn; lia.
    - rewrite H2, G2. reflexivity. }
  unfold agg_eq. repeat split.
  - congruence.
  - exact Em.
  - rewrite H3, G3, Em. reflexivity.
  - rewrite H5, G5. reflexivity.
  - rewrite H6, G6. reflexivity.
Qed.

(** Welford step *)
Lemma Inv_add : forall a l v, Inv a l -> Inv (add a v) (l ++ [v]).
Proof.
  intros a l v (H1 & H2 & H3 & H4 & H5 & H6).
  assert (Hn : qn (len (l ++ [v])) == qn (len l) + 1).
  { rewrite len_app, qn_add. reflexivity. }
  assert (Hc : qn (count a + 1) == qn (len l) + 1).
  { rewrite H1, qn_add. reflexivity. }
  assert (Hnz : ~ qn (len l) + 1 == 0).
  { assert (P := qn_nonneg (len l)). lra. }
  unfold Inv, add. cbn [count mean nvar amin amax].
  split; [rewrite H1, len_app; reflexivity |].
  split.
  { rewrite Hn, Hc, sumQ_app. cbn [sumQ]. rewrite <- H2. field. exact Hnz. }
  split.
  { rewrite Hn, Hc, sumsq_app, H3. cbn [sumsq]. field. exact Hnz. }
  split; [intros E; destruct l; discriminate |].
  split; [rewrite H5; apply lmin_snoc | rewrite H6; apply lmax_snoc].
Qed.

Lemma qn_len_nz : forall l, l <> [] -> ~ qn (len l) == 0.
Proof.
  intros l H E. assert (P := qn_pos (len l)). rewrite E in P. apply (Qlt_irrefl 0), P.
  now apply len_nil_iff.
Qed.

(** operator+ *)
Lemma Inv_plus : forall a b xs ys, Inv a xs -> Inv b ys -> Inv (plus a b) (xs ++ ys).
Proof.
  intros a b xs ys (H1 & H2 & H3 & H4 & H5 & H6) (G1 & G2 & G3 & G4 & G5 & G6).
  unfold Inv, plus, combine_means, combine_variance. cbn [count mean nvar amin amax].
  destruct (N.eqb_spec (count a) 0) as [Ea | Ea].
  { (* left operand empty *)
    rewrite H1 in Ea. apply len_0 in Ea. subst xs. cbn [app].
    split; [rewrite H1, G1; reflexivity |].
    split; [exact G2 |]. split; [exact G3 |]. split; [exact G4 |].
    split.
    - rewrite H5, G5. change (lmin hi []) with hi. apply Q.min_r. apply lmin_le_hi.
    - rewrite H6, G6. change (lmax lo []) with lo. apply Q.max_r. apply lmax_ge_lo. }
  destruct (N.eqb_spec (count b) 0) as [Eb | Eb].
  { rewrite G1 in Eb. apply len_0 in Eb. subst ys. rewrite app_nil_r.
    split; [rewrite H1, G1; change (len []) with 0%N; apply N.add_0_r |].
    split; [exact H2 |]. split; [exact H3 |]. split; [exact H4 |].
    split.
    - rewrite H5, G5. change (lmin hi []) with hi. apply Q.min_l. apply lmin_le_hi.
    - rewrite H6, G6. change (lmax lo []) with lo. apply Q.max_l. apply lmax_ge_lo. }
  rewrite H1 in Ea. rewrite G1 in Eb.
  assert (Px := qn_pos _ Ea). assert (Py := qn_pos _ Eb).
  assert (Hnz : ~ qn (len xs) + qn (len ys) == 0) by lra.
  assert (Hn : qn (len (xs ++ ys)) == qn (len xs) + qn (len ys)) by (rewrite len_app; apply qn_add).
  split; [rewrite H1, G1, len_app; reflexivity |].
  split.
  { rewrite Hn, H1, G1, qn_add, sumQ_app, <- H2, <- G2. field. exact Hnz. }
  split.
  { rewrite Hn, H1, G1, qn_add, sumsq_app, H3, G3. field. exact Hnz. }
  split.
  { intros E. apply app_eq_nil in E. destruct E as [E _]. subst xs. exfalso. now apply Ea. }
  split; [rewrite H5, G5; apply lmin_app | rewrite H6, G6; apply lmax_app].
Qed.

(** operator+= (repaired statement order) computes the same record as operator+ *)
Lemma plus_assign_eq_plus : forall a b, plus_assign a b = plus a b.
Proof. intros [c m v mn mx] b. reflexivity. Qed.

Lemma Inv_plus_assign : forall a b xs ys, Inv a xs -> Inv b ys -> Inv (plus_assign a b) (xs ++ ys).
Proof. intros. rewrite plus_assign_eq_plus. now apply Inv_plus. Qed.

Lemma norm_eq : forall a, agg_eq (norm a) a.
Proof. intros a. unfold agg_eq, norm; cbn. repeat split; apply Qred_correct. Qed.

(** feeding a list of values one by one *)
Lemma feed_snoc : forall l v a, feed (l ++ [v]) a = add (feed l a) v.
Proof. intros l v a. unfold feed. rewrite fold_left_app. reflexivity. Qed.

Lemma Inv_feed : forall l, Inv (feed l (empty hi lo)) l.
Proof.
  induction l as [| v l IH] using rev_ind; [apply Inv_empty |].
  rewrite feed_snoc. now apply Inv_add.
Qed.

(* ------------------------------------------------------------------ histories *)
Lemma Forall2_nth_Inv : forall s g i, Forall2 Inv s g -> Inv (nth i s (empty hi lo)) (nth i g []).
Proof.
  intros s g i H. revert i. induction H as [| a l s g Ha H IH]; intros [| i]; cbn [nth];
    try apply Inv_empty; [exact Ha | apply IH].
Qed.

Lemma Forall2_upd : forall s g i a l, Forall2 Inv s g -> Inv a l -> Forall2 Inv (upd s i a) (upd g i l).
Proof.
  intros s g i a l H Ha. revert i. induction H as [| a0 l0 s g Ha0 H IH]; intros i; cbn [upd]; [constructor |].
  destruct i as [| i]; constructor; auto.
Qed.

(** the initializing constructor with the fields of c copies of v *)
Lemma sumQ_repeat : forall v n, sumQ (repeat v n) == v * qn (N.of_nat n).
Proof.
  intros v. induction n as [| n IH]; cbn [repeat sumQ]; [change (qn (N.of_nat 0)) with 0; ring |].
  rewrite IH. replace (N.of_nat (S n)) with (N.of_nat n + 1)%N by lia. rewrite qn_add. change (qn 1) with 1. ring.
Qed.
Lemma sumsq_repeat : forall v n, sumsq (repeat v n) == v * v * qn (N.of_nat n).
Proof.
  intros v. induction n as [| n IH]; cbn [repeat sumsq]; [change (qn (N.of_nat 0)) with 0; ring |].
  rewrite IH. replace (N.of_nat (S n)) with (N.of_nat n + 1)%N by lia. rewrite qn_add. change (qn 1) with 1. ring.
Qed.
Lemma lmin_repeat : forall v n, v <= hi -> lmin hi (repeat v (S n)) == v.
Proof.
  intros v n Hv. induction n as [| n IH]; cbn [repeat lmin fold_right] in *.
  - now apply Q.min_l.
  - rewrite IH. apply Q.min_l. apply Qle_refl.
Qed.
Lemma lmax_repeat : forall v n, lo <= v -> lmax lo (repeat v (S n)) == v.
Proof.
  intros v n Hv. induction n as [| n IH]; cbn [repeat lmax fold_right] in *.
  - now apply Q.max_l.
  - rewrite IH. apply Q.max_l. apply Qle_refl.
Qed.

(** a history is well-formed when every constructed Aggregate stands for at least one value of the type's range *)
Definition op_ok (o : op) : Prop :=
  match o with OConst _ c v => c <> 0%N /\ lo <= v /\ v <= hi | _ => True end.

Lemma Inv_const : forall c v, c <> 0%N -> lo <= v -> v <= hi -> Inv (mkAgg c v 0 v v) (repeat v (N.to_nat c)).
Proof.
  intros c v Hc Hlo Hhi. unfold Inv. cbn [count mean nvar amin amax].
  assert (Hl : len (repeat v (N.to_nat c)) = c) by (unfold len; rewrite repeat_length; lia).
  destruct (N.to_nat c) as [| m] eqn:Em; [lia |].
  rewrite Hl. split; [reflexivity |]. rewrite <- Hl. unfold len. rewrite repeat_length.
  split; [rewrite sumQ_repeat; reflexivity |].
  split; [rewrite sumsq_repeat; ring |].
  split; [intros E; discriminate E |].
  split; [symmetry; now apply lmin_repeat | symmetry; now apply lmax_repeat].
Qed.

Lemma step_Inv : forall s g o, op_ok o -> Forall2 Inv s g -> Forall2 Inv (step hi lo s o) (gstep g o).
Proof.
  intros s g o Hok H. destruct o as [i v | i j k | i j | i | i c v]; cbn [step gstep]; apply Forall2_upd; try exact H.
  - eapply Inv_agg_eq; [| apply norm_eq]. apply Inv_add. now apply Forall2_nth_Inv.
  - eapply Inv_agg_eq; [| apply norm_eq]. apply Inv_plus; now apply Forall2_nth_Inv.
  - eapply Inv_agg_eq; [| apply norm_eq]. apply Inv_plus_assign; now apply Forall2_nth_Inv.
  - apply Inv_empty.
  - eapply Inv_agg_eq; [| apply norm_eq]. destruct Hok as (Hc & Hlo & Hhi). now apply Inv_const.
Qed.

Lemma run_Inv : forall n ops, Forall op_ok ops -> Forall2 Inv (run hi lo n ops) (ghost n ops).
Proof.
  intros n ops Hok. unfold run, ghost.
  assert (H0 : Forall2 Inv (repeat (empty hi lo) n) (repeat [] n)).
  { induction n; cbn [repeat]; constructor; [apply Inv_empty | assumption]. }
  revert H0. generalize (repeat (empty hi lo) n) (repeat (@nil Q) n).
  induction Hok as [| o ops Ho Hops IH]; intros s g H; cbn [fold_left]; [exact H |].
  apply IH. now apply step_Inv.
Qed.

(** MAIN THEOREM.  After any history of add / + / += / reset over any number of Aggregate variables,
    every variable equals (count; mean, nvar, min, max up to ==) the Aggregate obtained by feeding
    all the values it stands for into one empty Aggregate. *)
Theorem combine_eq_feed_all : forall n ops i, Forall op_ok ops ->
  agg_eq (nth i (run hi lo n ops) (empty hi lo)) (feed (nth i (ghost n ops) []) (empty hi lo)).
Proof.
  intros n ops i Hok. eapply Inv_unique; [| apply Inv_feed].
  apply Forall2_nth_Inv. now apply run_Inv.
Qed.

(** the two-operand statements, for all pairs of value lists including empty ones *)
Theorem plus_eq_concat : forall xs ys,
  agg_eq (plus (feed xs (empty hi lo)) (feed ys (empty hi lo))) (feed (xs ++ ys) (empty hi lo)).
Proof. intros xs ys. eapply Inv_unique; [apply Inv_plus; apply Inv_feed | apply Inv_feed]. Qed.

Theorem plus_assign_eq_concat : forall xs ys,
  agg_eq (plus_assign (feed xs (empty hi lo)) (feed ys (empty hi lo))) (feed (xs ++ ys) (empty hi lo)).
Proof. intros xs ys. rewrite plus_assign_eq_plus. apply plus_eq_concat. Qed.

(** derived accessor: variance(ddof) agrees as well *)
Lemma variance_agg_eq : forall a b d, agg_eq a b -> variance a d == variance b d.
Proof.
  intros a b d (E1 & E2 & E3 & E4 & E5). unfold variance. rewrite E1.
  destruct (count b <=? 1)%N; [reflexivity | rewrite E3; reflexivity].
Qed.

(** what the fed aggregate contains: count, mean = sum / n, nvar = sum of squared deviations *)
Lemma sqdev_expand : forall m l, sqdev m l == sumsq l - (2 # 1) * m * sumQ l + qn (len l) * m * m.
Proof.
  intros m. induction l as [| x l IH]; cbn [sqdev sumsq sumQ]; [change (len []) with 0%N; change (qn 0) with 0; ring |].
  rewrite IH. replace (len (x :: l)) with (len l + 1)%N by (unfold len; cbn [length]; lia).
  rewrite qn_add. change (qn 1) with 1. ring.
Qed.

Theorem feed_meaning : forall l, l <> [] ->
  let a := feed l (empty hi lo) in
  count a = len l /\ mean a == sumQ l / qn (len l) /\ nvar a == sqdev (mean a) l.
Proof.
  intros l Hl a. destruct (Inv_feed l) as (H1 & H2 & H3 & _). fold a in H1, H2, H3.
  assert (Hnz := qn_len_nz l Hl).
  split; [exact H1 |]. split.
  - rewrite <- H2. field. exact Hnz.
  - rewrite sqdev_expand, H3, <- H2. ring.
Qed.

End WithSentinels.

(* ------------------------------------------------------------------ the shipped code is refuted *)
(** operator+= as shipped: {1,2,3} += {10,20} does not have the variance of {1,2,3,10,20} *)
Lemma plus_assign_shipped_refuted :
  let e := empty 1000 (-1000) in
  let a := feed [1; 2; 3] e in let b := feed [10; 20] e in
  ~ nvar (plus_assign_shipped a b) == nvar (feed [1; 2; 3; 10; 20] e) /\
  nvar (plus_assign a b) == nvar (feed [1; 2; 3; 10; 20] e).
Proof. cbv zeta. split; [intros H |]; vm_compute in *; [discriminate | reflexivity]. Qed.

(** combine_variance as shipped: two empty operands give 0/0 *)
Lemma combine_variance_shipped_refuted :
  let e := empty 1000 (-1000) in
  combine_variance_shipped e e = None /\ combine_variance e e == 0.
Proof. cbv zeta. split; vm_compute; reflexivity. Qed.

(** count_ * other.count_ in size_t: two operands of 2^32 values each lose the between-group term *)
Lemma combine_variance_wrapping_refuted :
  let a := mkAgg (2 ^ 32) 0 0 0 0 in let b := mkAgg (2 ^ 32) 1 0 1 1 in
  combine_variance_wrapping a b == 0 /\ combine_variance a b == (2 ^ 31)%Z # 1.
Proof. cbv zeta. split; vm_compute; reflexivity. Qed.

(** the hypotheses of the main theorem are satisfiable by a non-trivial history *)
Example combine_example :
  let ops := [OAdd 0 1; OAdd 0 2; OAdd 0 3; OAdd 1 10; OAdd 1 20; OPlus 2 0 1; OPlusAssign 0 1] in
  nth 2 (ghost 3 ops) [] = [1; 2; 3; 10; 20] /\
  nth 0 (ghost 3 ops) [] = [1; 2; 3; 10; 20] /\
  Qred (variance (nth 0 (run 1000 (-1000) 3 ops) (empty 1000 (-1000))) 1) = 637 # 10.
Proof. cbv zeta. repeat split; vm_compute; reflexivity. Qed.

(** ... and by a history that constructs Aggregates of 3 and of 2^32 values *)
Example const_example :
  let ops := [OConst 0 3 2; OConst 1 (2 ^ 32) 1; OPlus 2 0 1] in
  Forall (op_ok 1000 (-1000)) ops /\
  count (nth 2 (run 1000 (-1000) 3 ops) (empty 1000 (-1000))) = (2 ^ 32 + 3)%N.
Proof.
  cbv zeta. split; [| vm_compute; reflexivity].
  repeat constructor; cbn; try discriminate; try (intro H; discriminate H).
Qed.
