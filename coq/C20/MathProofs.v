(** C20 -- general proofs (any width, both signednesses unless stated) about the model of tlx/math. *)
From Coq Require Import ZArith List Bool Lia.
From TLXV Require Import C20.Math C20.MathSpec.
Import ListNotations.
Open Scope Z_scope.

(* ------------------------------------------------------------------ types, ranges, wrap *)
Definition wf (t : ty) : Prop := 0 < width t.

Lemma pow2_double : forall w, 0 < w -> 2 ^ w = 2 * 2 ^ (w - 1).
Proof. intros w H. replace w with (Z.succ (w - 1)) at 1 by lia. rewrite Z.pow_succ_r by lia. reflexivity. Qed.

Lemma pow2_pos : forall w, 0 <= w -> 0 < 2 ^ w.
Proof. intros. apply Z.pow_pos_nonneg; lia. Qed.

Lemma inrange_iff : forall t v, inrange t v = true <-> tmin t <= v <= tmax t.
Proof. intros. unfold inrange. rewrite andb_true_iff, !Z.leb_le. tauto. Qed.

Lemma tmin_nonpos : forall t, wf t -> tmin t <= 0.
Proof. intros t H. unfold tmin. destruct (signed t); [| lia]. assert (0 < 2 ^ (width t - 1)) by (apply pow2_pos; unfold wf in H; lia). lia. Qed.

Lemma tmax_lt_pow : forall t, wf t -> tmax t < 2 ^ width t.
Proof.
  intros t H. unfold tmax. destruct (signed t); [| lia].
  rewrite (pow2_double (width t) H). assert (0 < 2 ^ (width t - 1)) by (apply pow2_pos; unfold wf in H; lia). lia.
Qed.

Lemma wrapT_id : forall t v, wf t -> inrange t v = true -> wrapT t v = v.
Proof.
  intros t v Hw H. apply inrange_iff in H. unfold wrapT, tmin, tmax in *.
  assert (E := pow2_double (width t) Hw).
  assert (0 < 2 ^ (width t - 1)) by (apply pow2_pos; unfold wf in Hw; lia).
  destruct (signed t).
  - rewrite Z.mod_small by lia. lia.
  - apply Z.mod_small. lia.
Qed.

Lemma wrapT_inrange : forall t v, wf t -> inrange t (wrapT t v) = true.
Proof.
  intros t v Hw. apply inrange_iff. unfold wrapT, tmin, tmax.
  assert (E := pow2_double (width t) Hw).
  assert (0 < 2 ^ (width t - 1)) by (apply pow2_pos; unfold wf in Hw; lia).
  destruct (signed t).
  - assert (B := Z.mod_pos_bound (v + 2 ^ (width t - 1)) (2 ^ width t)). lia.
  - assert (B := Z.mod_pos_bound v (2 ^ width t)). lia.
Qed.

Lemma pattern_wrapT : forall t v, wf t -> pattern t (wrapT t v) = v mod 2 ^ width t.
Proof.
  intros t v Hw. unfold pattern, wrapT. destruct (signed t).
  - rewrite Zminus_mod_idemp_l. f_equal. lia.
  - apply Z.mod_mod. assert (0 < 2 ^ width t) by (apply pow2_pos; unfold wf in Hw; lia). lia.
Qed.

Lemma pattern_nonneg : forall t v, wf t -> 0 <= v -> inrange t v = true -> pattern t v = v.
Proof.
  intros t v Hw Hv H. apply inrange_iff in H. unfold pattern. apply Z.mod_small.
  assert (B := tmax_lt_pow t Hw). lia.
Qed.

Lemma inrange_le : forall t i j, wf t -> 0 <= j <= i -> inrange t i = true -> inrange t j = true.
Proof.
  intros t i j Hw Hj H. apply inrange_iff in H. apply inrange_iff. assert (B := tmin_nonpos t Hw). lia.
Qed.

(** a non-negative in-range value is in range of the promoted type *)
Lemma inrange_prom : forall t v, wf t -> 0 <= v -> inrange t v = true -> inrange (prom t) v = true.
Proof.
  intros t v Hw Hv H. unfold prom. destruct (Z.ltb_spec (width t) 32) as [Hlt | Hge]; [| exact H].
  apply inrange_iff in H. apply inrange_iff. assert (B := tmax_lt_pow t Hw).
  assert (2 ^ width t <= 2 ^ 31) by (apply Z.pow_le_mono_r; lia).
  unfold tmin, tmax. cbn [signed width i32]. change (2 ^ (32 - 1)) with (2 ^ 31). lia.
Qed.

Lemma wf_prom : forall t, wf t -> wf (prom t).
Proof. intros t H. unfold prom. destruct (width t <? 32); [unfold wf; cbn; lia | exact H]. Qed.

Lemma tmax_prom : forall t, wf t -> tmax t <= tmax (prom t).
Proof.
  intros t Hw. unfold prom. destruct (Z.ltb_spec (width t) 32) as [Hlt | Hge]; [| lia].
  assert (B := tmax_lt_pow t Hw). assert (2 ^ width t <= 2 ^ 31) by (apply Z.pow_le_mono_r; lia).
  unfold tmax at 2. cbn [signed width i32]. change (2 ^ (32 - 1)) with (2 ^ 31). lia.
Qed.

(* ------------------------------------------------------------------ sgn, abs_diff *)
Theorem sgn_correct : forall v, sgn v = Z.sgn v.
Proof. intros [| p | p]; reflexivity. Qed.

Theorem abs_diff_correct : forall t a b, wf t ->
  inrange t (Z.abs (a - b)) = true ->          (* |a - b| is representable in T *)
  abs_diff t a b = Z.abs (a - b).
Proof.
  intros t a b Hw H. unfold abs_diff.
  destruct (Z.ltb_spec b a).
  - rewrite Z.abs_eq in H |- * by lia. now apply wrapT_id.
  - replace (Z.abs (a - b)) with (b - a) in * by lia. now apply wrapT_id.
Qed.

(* ------------------------------------------------------------------ div_ceil, round_up *)
Lemma quot_rem_nonneg : forall n k, 0 <= n -> 0 < k -> Z.quot n k = n / k /\ Z.rem n k = n mod k.
Proof. intros. split; [apply Z.quot_div_nonneg | apply Z.rem_mod_nonneg]; lia. Qed.

Definition ceil_div (n k : Z) : Z := n / k + b2z (0 <? n mod k).

Lemma ceil_div_spec : forall n k, 0 <= n -> 0 < k -> is_ceil_div n k (ceil_div n k) /\ 0 <= ceil_div n k <= n.
Proof.
  intros n k Hn Hk. unfold is_ceil_div, ceil_div.
  assert (E := Z.div_mod n k ltac:(lia)). assert (B := Z.mod_pos_bound n k Hk).
  assert (0 <= n / k) by (apply Z.div_pos; lia).
  destruct (Z.ltb_spec 0 (n mod k)); cbn [b2z]; nia.
Qed.

Theorem div_ceil_correct : forall t n k, wf t ->
  inrange t n = true -> inrange t k = true -> 0 <= n -> 0 < k ->
  is_ceil_div n k (div_ceil t n k).
Proof.
  intros t n k Hw Hrn Hrk Hn Hk. unfold div_ceil.
  destruct (quot_rem_nonneg n k Hn Hk) as [-> ->]. fold (ceil_div n k).
  destruct (ceil_div_spec n k Hn Hk) as [Hc Hb].
  rewrite wrapT_id; [exact Hc | now apply wf_prom |].
  apply (inrange_le (prom t) n); [now apply wf_prom | lia | now apply inrange_prom].
Qed.

Theorem round_up_correct : forall t n k, wf t ->
  inrange t n = true -> inrange t k = true -> 0 <= n -> 0 < k ->
  inrange (prom t) (ceil_div n k * k) = true ->            (* the rounded value is representable *)
  let r := round_up t n k in
  n <= r < n + k /\ (k | r).
Proof.
  intros t n k Hw Hrn Hrk Hn Hk Hfit r. subst r. unfold round_up.
  assert (Hd : div_ceil t n k = ceil_div n k).
  { unfold div_ceil. destruct (quot_rem_nonneg n k Hn Hk) as [-> ->]. fold (ceil_div n k).
    destruct (ceil_div_spec n k Hn Hk) as [Hc Hb].
    apply wrapT_id; [now apply wf_prom |].
    apply (inrange_le (prom t) n); [now apply wf_prom | lia | now apply inrange_prom]. }
  rewrite Hd, wrapT_id by (try apply wf_prom; assumption).
  destruct (ceil_div_spec n k Hn Hk) as [Hc Hb]. unfold is_ceil_div in Hc.
  split; [exact Hc | exists (ceil_div n k); reflexivity].
Qed.

(** the shipped formulas wrap around although the result is representable *)
Lemma div_ceil_shipped_refuted :
  div_ceil_shipped u32 4294967295 2 = 0 /\ div_ceil u32 4294967295 2 = 2147483648.
Proof. split; vm_compute; reflexivity. Qed.
Lemma round_up_shipped_refuted :
  round_up_shipped u32 4294967294 3 = 0 /\ round_up u32 4294967294 3 = 4294967295.
Proof. split; vm_compute; reflexivity. Qed.
Lemma round_down_shipped_refuted :
  round_down_to_power_of_two_shipped u32 2147483649 = Some 0 /\
  round_down_to_power_of_two_template u32 2147483649 = Some 2147483648 /\
  round_down_to_power_of_two_shipped u64 (2 ^ 63) = Some 0 /\
  round_down_to_power_of_two_template u64 (2 ^ 63) = Some (2 ^ 63).
Proof. repeat split; vm_compute; reflexivity. Qed.

(* ------------------------------------------------------------------ is_power_of_two *)
Lemma land_pred_pow2 : forall x, 0 < x -> (Z.land x (x - 1) = 0 <-> x = 2 ^ Z.log2 x).
Proof.
  intros x Hx. set (k := Z.log2 x). assert (Hk : 0 <= k) by apply Z.log2_nonneg.
  destruct (Z.log2_spec x Hx) as [Hlo Hhi]. fold k in Hlo, Hhi. split.
  - intros Hl. destruct (Z.eq_dec x (2 ^ k)) as [E | E]; [exact E | exfalso].
    assert (Hk1 : Z.log2 (x - 1) = k) by (apply Z.log2_unique; lia).
    assert (B1 : Z.testbit x k = true) by (apply Z.bit_log2; lia).
    assert (B2 : Z.testbit (x - 1) k = true) by (rewrite <- Hk1; apply Z.bit_log2; lia).
    assert (B : Z.testbit (Z.land x (x - 1)) k = true) by (rewrite Z.land_spec, B1, B2; reflexivity).
    rewrite Hl, Z.bits_0 in B. discriminate.
  - intros E. rewrite E. replace (2 ^ k - 1) with (Z.ones k) by (rewrite Z.ones_equiv; lia).
    rewrite Z.land_ones by exact Hk. apply Z.mod_same. assert (0 < 2 ^ k) by (apply pow2_pos; lia). lia.
Qed.

Theorem is_power_of_two_correct : forall t x, wf t -> inrange t x = true ->
  is_power_of_two_template t x = is_pow2b x.
Proof.
  intros t x Hw Hr. unfold is_power_of_two_template, is_pow2b.
  destruct (Z.leb_spec x 0) as [Hle | Hgt].
  - destruct (Z.ltb_spec 0 x); [lia | reflexivity].
  - destruct (Z.ltb_spec 0 x); [| lia]. cbn [andb].
    rewrite wrapT_id.
    + destruct (Z.eqb_spec (Z.land x (x - 1)) 0) as [E | E]; destruct (Z.eqb_spec x (2 ^ Z.log2 x)) as [F | F];
        try reflexivity; exfalso.
      * apply F. now apply land_pred_pow2.
      * apply E. now apply land_pred_pow2.
    + now apply wf_prom.
    + apply (inrange_le (prom t) x); [now apply wf_prom | lia | apply inrange_prom; [assumption | lia | assumption]].
Qed.

(* ------------------------------------------------------------------ integer_log2 *)
Lemma shiftr_le : forall i sh, 0 <= i -> 0 <= sh -> 0 <= Z.shiftr i sh <= i.
Proof.
  intros i sh Hi Hs. rewrite Z.shiftr_div_pow2 by exact Hs. assert (0 < 2 ^ sh) by (apply pow2_pos; lia).
  split; [apply Z.div_pos; lia | apply Z.div_le_upper_bound; nia].
Qed.

Lemma l2_loop_ok : forall t sh, wf t -> 1 <= sh ->
  forall fuel i p, 0 <= i < 2 ^ Z.of_nat fuel -> inrange t i = true ->
  exists i' p', l2_loop (S fuel) t (2 ^ sh) sh i p = Some (i', p') /\ 0 <= i' < 2 ^ sh /\ i' <= i /\
                p' + Z.log2 i' = p + Z.log2 i /\ (0 < i -> 0 < i').
Proof.
  intros t sh Hw Hsh. assert (P : 0 < 2 ^ sh) by (apply pow2_pos; lia).
  induction fuel as [| f IH]; intros i p Hi Hr.
  - cbn in Hi. assert (i = 0) by lia. subst i. cbn [l2_loop].
    destruct (Z.leb_spec (2 ^ sh) 0); [lia |]. exists 0, p. repeat split; lia.
  - cbn [l2_loop]. destruct (Z.leb_spec (2 ^ sh) i) as [Hge | Hlt].
    + destruct (shiftr_le i sh ltac:(lia) ltac:(lia)) as [S0 S1].
      rewrite wrapT_id by (first [assumption | apply (inrange_le t i); [assumption | lia | assumption]]).
      assert (Spos : 0 < Z.shiftr i sh).
      { rewrite Z.shiftr_div_pow2 by lia. apply Z.div_str_pos. lia. }
      assert (Slt : Z.shiftr i sh < 2 ^ Z.of_nat f).
      { rewrite Z.shiftr_div_pow2 by lia. apply Z.div_lt_upper_bound; [lia |].
        rewrite Nat2Z.inj_succ, Z.pow_succ_r in Hi by lia.
        assert (2 <= 2 ^ sh) by (change 2 with (2 ^ 1) at 1; apply Z.pow_le_mono_r; lia). nia. }
      destruct (IH (Z.shiftr i sh) (p + sh)) as (i' & p' & E & B & L & G & Q); [lia | |].
      { apply (inrange_le t i); [assumption | lia | assumption]. }
      exists i', p'. split; [exact E |]. split; [exact B |]. split; [lia |]. split; [| intros _; apply Q; lia].
      rewrite G, Z.log2_shiftr by lia. assert (sh <= Z.log2 i) by (apply Z.log2_le_pow2; lia). lia.
    + exists i, p. repeat split; try lia.
Qed.

Lemma l2_loop1_S : forall f t i p,
  l2_loop1 (S f) t i p = let i' := wrapT t (Z.shiftr i 1) in if i' =? 0 then Some p else l2_loop1 f t i' (p + 1).
Proof. reflexivity. Qed.

Lemma l2_loop1_ok : forall t, wf t ->
  forall fuel i p, 0 <= i < 2 ^ Z.of_nat fuel -> inrange t i = true ->
  l2_loop1 (S fuel) t i p = Some (p + Z.log2 i).
Proof.
  intros t Hw. induction fuel as [| f IH]; intros i p Hi Hr.
  - cbn in Hi. assert (i = 0) by lia. subst i. cbn [l2_loop1]. rewrite wrapT_id by assumption.
    cbn. f_equal. lia.
  - rewrite l2_loop1_S. cbv zeta. destruct (shiftr_le i 1 ltac:(lia) ltac:(lia)) as [S0 S1].
    rewrite wrapT_id by (first [assumption | apply (inrange_le t i); [assumption | lia | assumption]]).
    rewrite Z.shiftr_div_pow2 in * by lia. change (2 ^ 1) with 2 in *.
    destruct (Z.eqb_spec (i / 2) 0) as [E | E].
    + assert (i < 2) by (destruct (Z.lt_ge_cases i 2); [assumption | exfalso; assert (1 <= i / 2) by (apply Z.div_le_lower_bound; lia); lia]).
      assert (i = 0 \/ i = 1) as [-> | ->] by lia; cbn; f_equal; lia.
    + assert (2 <= i) by (destruct (Z.lt_ge_cases i 2) as [L | L]; [rewrite Z.div_small in E by lia; lia | lia]).
      assert (Hlt : i / 2 < 2 ^ Z.of_nat f).
      { apply Z.div_lt_upper_bound; [lia |]. rewrite Nat2Z.inj_succ, Z.pow_succ_r in Hi by lia. lia. }
      rewrite IH; [| lia | apply (inrange_le t i); [assumption | lia | assumption]].
      f_equal. replace (i / 2) with (Z.shiftr i 1) by (rewrite Z.shiftr_div_pow2 by lia; reflexivity).
      rewrite Z.log2_shiftr by lia.
      assert (1 <= Z.log2 i) by (apply Z.log2_le_pow2; cbn; lia). lia.
Qed.

Theorem integer_log2_floor_template_correct : forall t x, wf t -> inrange t x = true -> 0 <= x ->
  integer_log2_floor_template t x = Some (Z.log2 x).
Proof.
  intros t x Hw Hr Hx. unfold integer_log2_floor_template.
  set (fu := Z.to_nat (width t)).
  assert (Hfu : 2 ^ Z.of_nat fu = 2 ^ width t) by (unfold fu; rewrite Z2Nat.id by (unfold wf in Hw; lia); reflexivity).
  assert (Hb : 0 <= x < 2 ^ Z.of_nat fu).
  { split; [exact Hx |]. apply inrange_iff in Hr. assert (B := tmax_lt_pow t Hw). lia. }
  change 65536 with (2 ^ 16). change 256 with (2 ^ 8).
  destruct (l2_loop_ok t 16 Hw ltac:(lia) fu x 0 Hb Hr) as (i1 & p1 & E1 & B1 & L1 & G1 & Q1). rewrite E1.
  assert (Hr1 : inrange t i1 = true) by (apply (inrange_le t x); [assumption | lia | assumption]).
  destruct (l2_loop_ok t 8 Hw ltac:(lia) fu i1 p1 ltac:(lia) Hr1) as (i2 & p2 & E2 & B2 & L2 & G2 & Q2).
  rewrite E2. rewrite l2_loop1_ok; [f_equal; lia | assumption | lia |].
  apply (inrange_le t i1); [assumption | lia | assumption].
Qed.

Theorem integer_log2_floor_intrinsic_correct : forall t x, wf t -> inrange t x = true -> 0 <= x ->
  integer_log2_floor_intrinsic t x = Z.log2 x.
Proof.
  intros t x Hw Hr Hx. unfold integer_log2_floor_intrinsic, builtin_clz.
  rewrite pattern_nonneg by assumption. destruct (Z.eqb_spec x 0) as [-> | _]; [reflexivity | lia].
Qed.

Theorem integer_log2_ceil_correct : forall t x, wf t -> inrange t x = true -> 0 <= x ->
  integer_log2_ceil t x = Z.log2_up x /\ integer_log2_ceil_fallback t x = Some (Z.log2_up x).
Proof.
  intros t x Hw Hr Hx. unfold integer_log2_ceil, integer_log2_ceil_fallback.
  destruct (Z.leb_spec x 1) as [Hle | Hgt].
  - rewrite Z.log2_up_eqn0 by exact Hle. split; reflexivity.
  - assert (Hr1 : inrange t (x - 1) = true) by (apply (inrange_le t x); [assumption | lia | assumption]).
    rewrite wrapT_id by assumption.
    rewrite integer_log2_floor_intrinsic_correct, integer_log2_floor_template_correct by (try assumption; lia).
    rewrite Z.log2_up_eqn by exact Hgt. unfold Z.succ, Z.pred. split; reflexivity.
Qed.

(** the meaning of Z.log2 / Z.log2_up used above (standard library): for 0 < x,
    2^(log2 x) <= x < 2^(log2 x + 1); for 1 < x, 2^(log2_up x - 1) < x <= 2^(log2_up x). *)
Lemma log2_meaning : forall x, 0 < x -> 2 ^ Z.log2 x <= x < 2 ^ (Z.log2 x + 1).
Proof. intros x H. exact (Z.log2_spec x H). Qed.
Lemma log2_up_meaning : forall x, 1 < x -> 2 ^ (Z.log2_up x - 1) < x <= 2 ^ Z.log2_up x.
Proof. intros x H. exact (Z.log2_up_spec x H). Qed.
