(** C20 -- general proofs, part 3: rol / ror (any unsigned type whose width is a power of two),
    the bit-smearing loop and round_up / round_down_to_power_of_two (any type whose width is a power of two). *)
From Coq Require Import ZArith List Bool Lia.
From TLXV Require Import C20.Math C20.MathSpec C20.MathProofs.
Import ListNotations.
Open Scope Z_scope.

(* ------------------------------------------------------------------ bit lemmas *)
Lemma bits_above : forall x b m, 0 <= x < 2 ^ b -> 0 <= b <= m -> Z.testbit x m = false.
Proof.
  intros x b m Hx Hm. apply Z.testbit_false; [lia |]. rewrite Z.div_small; [reflexivity |].
  split; [lia |]. apply Z.lt_le_trans with (2 ^ b); [lia | apply Z.pow_le_mono_r; lia].
Qed.

Lemma lor_disjoint_add : forall a b s, 0 <= s -> 0 <= b < 2 ^ s -> Z.lor (a * 2 ^ s) b = a * 2 ^ s + b.
Proof.
  intros a b s Hs Hb.
  assert (L : Z.land (a * 2 ^ s) b = 0); [| rewrite (Z.add_nocarry_lxor _ _ L), (Z.lxor_lor _ _ L); reflexivity].
  apply Z.bits_inj'. intros m Hm.
  rewrite Z.land_spec, Z.bits_0. destruct (Z.lt_ge_cases m s).
  - rewrite <- Z.shiftl_mul_pow2 by lia. rewrite Z.shiftl_spec_low by lia. reflexivity.
  - rewrite (bits_above b s m) by lia. apply andb_false_r.
Qed.

(* ------------------------------------------------------------------ rol / ror *)
Section Rotate.
Variable t : ty.
Variable k : Z.
Hypothesis Hk : 0 <= k.
Hypothesis Hwk : width t = 2 ^ k.
Hypothesis Hu : signed t = false.

Let w := width t.

Lemma w_pos : 0 < w.
Proof. unfold w. rewrite Hwk. apply pow2_pos. exact Hk. Qed.

Lemma land_mask : forall i, Z.land i (w - 1) = i mod w.
Proof.
  intros i. unfold w. rewrite Hwk. replace (2 ^ k - 1) with (Z.ones k) by (rewrite Z.ones_equiv; lia).
  apply Z.land_ones. exact Hk.
Qed.

Lemma wrap_u : forall v, wrapT t v = v mod 2 ^ w.
Proof. intros v. unfold wrapT. rewrite Hu. reflexivity. Qed.

Theorem rol_generic_correct : forall x i, 0 <= x < 2 ^ w ->
  rol_generic t x i = rol_spec w x (i mod w).
Proof.
  intros x i Hx. assert (Pw := w_pos). unfold rol_generic. fold w. rewrite !land_mask, wrap_u.
  set (s := i mod w). assert (Hs : 0 <= s < w) by (apply Z.mod_pos_bound; lia).
  unfold rol_spec. destruct (Z.eq_dec s 0) as [E | E].
  - rewrite E, Z.sub_0_r, Z.mod_same, Z.shiftl_0_r, Z.shiftr_0_r, Z.pow_0_r by lia.
    rewrite !Z.mod_small, Z.div_small by lia. rewrite Z.lor_diag. lia.
  - rewrite (Z.mod_small (w - s)) by lia.
    rewrite Z.shiftl_mul_pow2, Z.shiftr_div_pow2 by lia.
    assert (Ew : 2 ^ w = 2 ^ (w - s) * 2 ^ s) by (rewrite <- Z.pow_add_r by lia; f_equal; lia).
    assert (P1 : 0 < 2 ^ (w - s)) by (apply pow2_pos; lia). assert (P2 : 0 < 2 ^ s) by (apply pow2_pos; lia).
    rewrite Ew at 1. rewrite Z.mul_mod_distr_r by lia.
    apply lor_disjoint_add; [lia |]. split; [apply Z.div_pos; lia |].
    apply Z.div_lt_upper_bound; [lia |]. rewrite <- Ew. lia.
Qed.

Theorem ror_generic_correct : forall x i, 0 <= x < 2 ^ w ->
  ror_generic t x i = ror_spec w x (i mod w).
Proof.
  intros x i Hx. assert (Pw := w_pos). unfold ror_generic. fold w. rewrite !land_mask, wrap_u.
  set (s := i mod w). assert (Hs : 0 <= s < w) by (apply Z.mod_pos_bound; lia).
  unfold ror_spec. destruct (Z.eq_dec s 0) as [E | E].
  - rewrite E, Z.sub_0_r, Z.mod_same, Z.shiftl_0_r, Z.shiftr_0_r, Z.pow_0_r by lia.
    rewrite Z.mod_small, Z.div_1_r, Z.mod_1_r by lia. rewrite Z.lor_diag. lia.
  - rewrite (Z.mod_small (w - s)) by lia.
    rewrite Z.shiftl_mul_pow2, Z.shiftr_div_pow2 by lia.
    assert (Ew : 2 ^ w = 2 ^ s * 2 ^ (w - s)) by (rewrite <- Z.pow_add_r by lia; f_equal; lia).
    assert (P1 : 0 < 2 ^ (w - s)) by (apply pow2_pos; lia). assert (P2 : 0 < 2 ^ s) by (apply pow2_pos; lia).
    rewrite Ew at 1. rewrite Z.mul_mod_distr_r by lia.
    rewrite Z.lor_comm, lor_disjoint_add; [lia | lia |]. split; [apply Z.div_pos; lia |].
    apply Z.div_lt_upper_bound; [lia |]. rewrite <- Ew. lia.
Qed.

(** the portable fall-back agrees with the specification of the rotate instruction *)
Corollary rol_generic_eq_intrinsic : forall x i, 0 <= x < 2 ^ w -> rol_generic t x i = rol_intrinsic t x i.
Proof. intros. unfold rol_intrinsic. now apply rol_generic_correct. Qed.
Corollary ror_generic_eq_intrinsic : forall x i, 0 <= x < 2 ^ w -> ror_generic t x i = ror_intrinsic t x i.
Proof. intros. unfold ror_intrinsic. now apply ror_generic_correct. Qed.
End Rotate.

(** rol_spec / ror_spec really are rotations: bit j moves to position (j + s) mod w, resp. (j - s) mod w *)
Theorem rol_spec_bits : forall w x s j, 0 <= s < w -> 0 <= x < 2 ^ w -> 0 <= j < w ->
  Z.testbit (rol_spec w x s) ((j + s) mod w) = Z.testbit x j.
Proof.
  intros w x s j Hs Hx Hj. unfold rol_spec.
  assert (P1 : 0 < 2 ^ (w - s)) by (apply pow2_pos; lia). assert (P2 : 0 < 2 ^ s) by (apply pow2_pos; lia).
  assert (Ew : 2 ^ w = 2 ^ (w - s) * 2 ^ s) by (rewrite <- Z.pow_add_r by lia; f_equal; lia).
  rewrite <- lor_disjoint_add.
  2: lia.
  2: { split; [apply Z.div_pos; lia |]. apply Z.div_lt_upper_bound; [lia |]. rewrite <- Ew. lia. }
  rewrite Z.lor_spec, <- Z.shiftl_mul_pow2, <- Z.shiftr_div_pow2 by lia.
  destruct (Z.lt_ge_cases (j + s) w) as [Hlt | Hge].
  - rewrite (Z.mod_small (j + s) w) by lia. rewrite Z.shiftl_spec by lia. replace (j + s - s) with j by lia.
    rewrite Z.mod_pow2_bits_low by lia. rewrite Z.shiftr_spec by lia.
    rewrite (bits_above x w (j + s + (w - s))) by lia. apply orb_false_r.
  - replace ((j + s) mod w) with (j + s - w) by (apply Z.mod_unique with 1; lia).
    rewrite Z.shiftl_spec_low by lia. rewrite Z.shiftr_spec by lia.
    replace (j + s - w + (w - s)) with j by lia. reflexivity.
Qed.

Lemma ror_spec_as_rol : forall w x s, 0 < s < w -> ror_spec w x s = rol_spec w x (w - s).
Proof. intros w x s Hs. unfold ror_spec, rol_spec. replace (w - (w - s)) with s by lia. ring. Qed.

Theorem ror_spec_bits : forall w x s j, 0 <= s < w -> 0 <= x < 2 ^ w -> 0 <= j < w ->
  Z.testbit (ror_spec w x s) ((j - s) mod w) = Z.testbit x j.
Proof.
  intros w x s j Hs Hx Hj. destruct (Z.eq_dec s 0) as [-> | Hne].
  - unfold ror_spec. rewrite !Z.sub_0_r, Z.pow_0_r, Z.div_1_r, Z.mod_1_r, (Z.mod_small j w) by lia. f_equal. lia.
  - rewrite ror_spec_as_rol by lia. rewrite <- (rol_spec_bits w x (w - s) j) by lia. f_equal.
    replace (j + (w - s)) with (j - s + 1 * w) by lia. symmetry. apply Z.mod_add. lia.
Qed.

(* ------------------------------------------------------------------ the smear loop *)
Section Smear.
Variable t : ty.
Variable J : Z.
Hypothesis HJ : 0 <= J.
Hypothesis HwJ : width t = 2 ^ J.

Lemma wft : wf t.
Proof. unfold wf. rewrite HwJ. apply pow2_pos. exact HJ. Qed.

Lemma log2_lor_lt : forall a c b, 0 <= a < 2 ^ b -> 0 <= c < 2 ^ b -> 0 <= b -> 0 <= Z.lor a c < 2 ^ b.
Proof.
  intros a c b Ha Hc Hb. assert (N : 0 <= Z.lor a c) by (apply Z.lor_nonneg; lia). split; [exact N |].
  destruct (Z.eq_dec (Z.lor a c) 0) as [E | E]; [rewrite E; apply pow2_pos; lia |].
  assert (Hb0 : 0 < b).
  { destruct (Z.eq_dec b 0) as [-> | Hne]; [| lia]. exfalso. change (2 ^ 0) with 1 in *.
    assert (a = 0) by lia. assert (c = 0) by lia. subst. cbn in E. lia. }
  assert (Hl : forall y, 0 <= y < 2 ^ b -> Z.log2 y < b).
  { intros y Hy. destruct (Z.eq_dec y 0) as [-> | Hy0]; [cbn; lia | apply Z.log2_lt_pow2; lia]. }
  apply Z.log2_lt_pow2; [lia |]. rewrite Z.log2_lor by lia.
  apply Z.max_lub_lt; apply Hl; assumption.
Qed.

(** tmax t + 1 is a power of two *)
Lemma tmax_pow : exists b, 0 <= b /\ tmax t = 2 ^ b - 1.
Proof.
  assert (W := wft). unfold wf in W. unfold tmax. destruct (signed t).
  - exists (width t - 1). split; [lia | reflexivity].
  - exists (width t). split; [lia | reflexivity].
Qed.

Lemma smear_step_range : forall n s, 0 <= n <= tmax t -> 0 <= s -> 0 <= Z.lor n (Z.shiftr n s) <= tmax t.
Proof.
  intros n s Hn Hs. destruct tmax_pow as [b [Hb Eb]]. rewrite Eb in *.
  destruct (shiftr_le n s ltac:(lia) Hs) as [S0 S1].
  assert (H := log2_lor_lt n (Z.shiftr n s) b ltac:(lia) ltac:(lia) Hb). lia.
Qed.

(** result of smearing from level j: bit i is set iff some bit i + 2^j * e (e < 2^(J-j)) of n is *)
Lemma smear_ok : forall d j n fuel, Z.of_nat d = J - j -> 0 <= j -> (d < fuel)%nat -> 0 <= n <= tmax t ->
  exists m, smear fuel t (2 ^ j) n = Some m /\ 0 <= m <= tmax t /\
    forall i, 0 <= i -> (Z.testbit m i = true <-> exists e, 0 <= e < 2 ^ (J - j) /\ Z.testbit n (i + 2 ^ j * e) = true).
Proof.
  assert (W := wft).
  induction d as [| d IH]; intros j n fuel Hd Hj Hf Hn; (destruct fuel as [| fuel]; [lia |]); cbn [smear].
  - assert (j = J) by lia. subst j. rewrite HwJ, Z.eqb_refl. exists n. split; [reflexivity |]. split; [exact Hn |].
    intros i Hi. replace (J - J) with 0 by lia. split.
    + intros B. exists 0. split; [cbn; lia |]. rewrite Z.mul_0_r, Z.add_0_r. exact B.
    + intros [e [He B]]. cbn in He. assert (e = 0) by lia. subst e. rewrite Z.mul_0_r, Z.add_0_r in B. exact B.
  - assert (Hlt : j < J) by lia.
    assert (Hne : 2 ^ j <> width t).
    { rewrite HwJ. intros E. apply Z.pow_inj_r in E; lia. }
    destruct (Z.eqb_spec (2 ^ j) (width t)); [contradiction |].
    assert (Pj : 0 < 2 ^ j) by (apply pow2_pos; lia).
    assert (Rg := smear_step_range n (2 ^ j) Hn ltac:(lia)).
    rewrite wrapT_id by (try exact W; apply inrange_iff; assert (T := tmin_nonpos t W); lia).
    rewrite Z.shiftl_mul_pow2 by lia. change (2 ^ 1) with 2. replace (2 ^ j * 2) with (2 ^ (j + 1)) by (rewrite Z.pow_add_r by lia; reflexivity).
    destruct (IH (j + 1) (Z.lor n (Z.shiftr n (2 ^ j))) fuel ltac:(lia) ltac:(lia) ltac:(lia) Rg) as (m & Em & Rm & Bm).
    exists m. split; [exact Em |]. split; [exact Rm |].
    intros i Hi. rewrite Bm by exact Hi.
    assert (E2 : 2 ^ (J - j) = 2 * 2 ^ (J - (j + 1))).
    { replace (J - j) with (Z.succ (J - (j + 1))) by lia. rewrite Z.pow_succ_r by lia. reflexivity. }
    assert (E3 : 2 ^ (j + 1) = 2 * 2 ^ j) by (rewrite Z.pow_add_r by lia; change (2 ^ 1) with 2; lia).
    assert (Pe : 0 < 2 ^ (J - (j + 1))) by (apply pow2_pos; lia).
    split.
    + intros [e [He B]]. rewrite Z.lor_spec, Z.shiftr_spec in B by nia.
      apply orb_true_iff in B. destruct B as [B | B].
      * exists (2 * e). split; [lia |]. rewrite <- B. f_equal. rewrite E3. ring.
      * exists (2 * e + 1). split; [lia |]. rewrite <- B. f_equal. rewrite E3. ring.
    + intros [e [He B]]. exists (e / 2).
      assert (Ee := Z.div_mod e 2 ltac:(lia)). assert (Me := Z.mod_pos_bound e 2 ltac:(lia)).
      split; [split; [apply Z.div_pos; lia | apply Z.div_lt_upper_bound; lia] |].
      rewrite Z.lor_spec, Z.shiftr_spec by (assert (0 <= e / 2) by (apply Z.div_pos; lia); nia).
      apply orb_true_iff. assert (e mod 2 = 0 \/ e mod 2 = 1) as [M | M] by lia.
      * left. rewrite <- B. f_equal. rewrite E3. lia.
      * right. rewrite <- B. f_equal. rewrite E3. lia.
Qed.

(** smearing a non-negative value fills all bits below its highest set bit *)
Lemma smear_all : forall n, 0 <= n <= tmax t ->
  smear (smear_fuel t) t 1 n = Some (if n =? 0 then 0 else 2 ^ (Z.log2 n + 1) - 1).
Proof.
  intros n Hn. assert (W := wft). assert (W' := W). unfold wf in W'.
  assert (PJ : J < 2 ^ J) by (apply Z.pow_gt_lin_r; lia).
  destruct (smear_ok (Z.to_nat J) 0 n (smear_fuel t)) as (m & Em & Rm & Bm); try lia.
  { unfold smear_fuel. rewrite HwJ. lia. }
  change (2 ^ 0) with 1 in Em. rewrite Em. f_equal.
  assert (Bn : n < 2 ^ width t) by (assert (B := tmax_lt_pow t W); lia).
  apply Z.bits_inj'. intros i Hi.
  destruct (Z.eqb_spec n 0) as [-> | Hn0].
  - rewrite Z.bits_0. destruct (Z.testbit m i) eqn:B; [| reflexivity].
    apply Bm in B; [| exact Hi]. destruct B as [e [_ B]]. rewrite Z.bits_0 in B. discriminate.
  - assert (Hpos : 0 < n) by lia. set (L := Z.log2 n). assert (HL : 0 <= L) by apply Z.log2_nonneg.
    assert (HLw : L < width t) by (apply Z.log2_lt_pow2; lia).
    replace (2 ^ (L + 1) - 1) with (Z.ones (L + 1)) by (rewrite Z.ones_equiv; lia).
    destruct (Z.le_gt_cases i L) as [Hle | Hgt].
    + rewrite Z.ones_spec_low by lia. apply Bm; [exact Hi |]. exists (L - i).
      replace (J - 0) with J by lia. rewrite <- HwJ. split; [lia |].
      change (2 ^ 0) with 1. replace (i + 1 * (L - i)) with L by lia. apply Z.bit_log2. exact Hpos.
    + rewrite Z.ones_spec_high by lia. destruct (Z.testbit m i) eqn:B; [| reflexivity].
      apply Bm in B; [| exact Hi]. destruct B as [e [He B]]. change (2 ^ 0) with 1 in B.
      rewrite Z.bits_above_log2 in B by (fold L; lia). discriminate.
Qed.

(* ------------------------------------------------------------------ round_up / round_down_to_power_of_two *)
Theorem round_up_to_power_of_two_correct : forall x, 1 <= x -> inrange t x = true ->
  2 ^ Z.log2_up x <= tmax t ->                       (* the next power of two is representable *)
  round_up_to_power_of_two_template t x = Some (2 ^ Z.log2_up x).
Proof.
  intros x Hx Hr Hfit. assert (W := wft). apply inrange_iff in Hr.
  unfold round_up_to_power_of_two_template.
  rewrite wrapT_id by (try exact W; apply inrange_iff; assert (T := tmin_nonpos t W); lia).
  rewrite smear_all by lia. f_equal.
  destruct (Z.eqb_spec (x - 1) 0) as [E | E].
  - assert (x = 1) by lia. subst x. cbn. apply wrapT_id; [exact W |]. apply inrange_iff. cbn in Hfit.
    assert (T := tmin_nonpos t W). lia.
  - rewrite Z.log2_up_eqn in * by lia. unfold Z.succ, Z.pred in *.
    replace (2 ^ (Z.log2 (x - 1) + 1) - 1 + 1) with (2 ^ (Z.log2 (x - 1) + 1)) by lia.
    apply wrapT_id; [exact W |]. apply inrange_iff. assert (T := tmin_nonpos t W).
    assert (0 < 2 ^ (Z.log2 (x - 1) + 1)) by (apply pow2_pos; assert (0 <= Z.log2 (x - 1)) by apply Z.log2_nonneg; lia). lia.
Qed.

Theorem round_down_to_power_of_two_correct : forall x, 0 <= x -> inrange t x = true ->
  round_down_to_power_of_two_template t x = Some (if x =? 0 then 0 else 2 ^ Z.log2 x).
Proof.
  intros x Hx Hr. assert (W := wft). apply inrange_iff in Hr.
  unfold round_down_to_power_of_two_template. rewrite smear_all by lia. f_equal.
  destruct (Z.eqb_spec x 0) as [-> | Hne].
  - cbn. apply wrapT_id; [exact W |]. apply inrange_iff. assert (T := tmin_nonpos t W). lia.
  - set (L := Z.log2 x). assert (HL : 0 <= L) by apply Z.log2_nonneg.
    assert (P : 0 < 2 ^ L) by (apply pow2_pos; lia).
    assert (E : 2 ^ (L + 1) = 2 * 2 ^ L) by (rewrite Z.pow_add_r by lia; change (2 ^ 1) with 2; lia).
    rewrite Z.shiftr_div_pow2 by lia. change (2 ^ 1) with 2.
    replace ((2 ^ (L + 1) - 1) / 2) with (2 ^ L - 1) by (apply Z.div_unique with 1; lia).
    replace (2 ^ (L + 1) - 1 - (2 ^ L - 1)) with (2 ^ L) by lia.
    apply wrapT_id; [exact W |]. apply inrange_iff. assert (T := tmin_nonpos t W).
    destruct (Z.log2_spec x ltac:(lia)) as [L1 _]. fold L in L1. lia.
Qed.
End Smear.
