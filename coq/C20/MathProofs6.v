(** C20 -- general proofs, part 6: div_ceil / round_up with operands of two different integer types
    (usual arithmetic conversions), and the byte-range popcount(const void*, size_t). *)
From Coq Require Import ZArith List Bool Lia.
From TLXV Require Import C20.Math C20.MathSpec C20.MathProofs C20.MathProofs4 C20.MathProofs5 C20.Final.
Import ListNotations.
Open Scope Z_scope.

(* ------------------------------------------------------------------ mixed operand types *)
Lemma common_type_ok : forall t1 t2, supported t1 -> supported t2 ->
  let R := common_type t1 t2 in wf R /\ tmax t1 <= tmax R /\ tmax t2 <= tmax R.
Proof.
  intros t1 t2 H1 H2. unfold supported in *. cbn [In] in *.
  destruct H1 as [<- | [<- | [<- | [<- | [<- | [<- | [<- | [<- | []]]]]]]]];
  destruct H2 as [<- | [<- | [<- | [<- | [<- | [<- | [<- | [<- | []]]]]]]]];
  (repeat split; vm_compute; try reflexivity; intro H; discriminate H).
Qed.

Lemma same_type_common : forall t, common_type t t = prom t.
Proof.
  intros t. unfold common_type. rewrite Z.eqb_refl, andb_diag. destruct (prom t); reflexivity.
Qed.

Theorem div_ceil_round_up_mixed_correct : forall tn tk n k, supported tn -> supported tk ->
  inrange tn n = true -> inrange tk k = true -> 0 <= n -> 0 < k ->
  let R := common_type tn tk in
  n <= div_ceil_mixed tn tk n k * k < n + k /\
  (inrange R (ceil_div n k * k) = true ->
     n <= round_up_mixed tn tk n k < n + k /\ (k | round_up_mixed tn tk n k)).
Proof.
  intros tn tk n k Hsn Hsk Hn Hk H0 H1 R.
  destruct (common_type_ok tn tk Hsn Hsk) as (WR & Tn & Tk). fold R in WR, Tn, Tk.
  apply inrange_iff in Hn, Hk. assert (Tm := tmin_nonpos R WR).
  assert (En : wrapT R n = n) by (apply wrapT_id; [exact WR | apply inrange_iff; lia]).
  assert (Ek : wrapT R k = k) by (apply wrapT_id; [exact WR | apply inrange_iff; lia]).
  destruct (ceil_div_spec n k H0 H1) as [Hc Hb]. unfold is_ceil_div in Hc.
  assert (Ed : div_ceil_mixed tn tk n k = ceil_div n k).
  { unfold div_ceil_mixed. fold R. rewrite En, Ek.
    destruct (quot_rem_nonneg n k H0 H1) as [-> ->]. fold (ceil_div n k).
    apply wrapT_id; [exact WR | apply inrange_iff; lia]. }
  split; [rewrite Ed; exact Hc |].
  intros Hfit. unfold round_up_mixed. fold R. rewrite Ed, Ek, wrapT_id by assumption.
  split; [exact Hc | exists (ceil_div n k); reflexivity].
Qed.

(* ------------------------------------------------------------------ byte-range popcount *)
Definition bitsum (l : list Z) : Z := fold_right Z.add 0 (map popcount_spec l).

Lemma bitsum_app : forall a b, bitsum (a ++ b) = bitsum a + bitsum b.
Proof. unfold bitsum. induction a as [| x a IH]; intros b; cbn [app map fold_right]; [lia | rewrite IH; lia]. Qed.

Lemma word_popcount : forall t n l, signed t = false -> 2 ^ width t = 256 ^ Z.of_nat n ->
  Forall byte l -> length l = n -> popcount_intrinsic t (of_bytes l) = bitsum l.
Proof.
  intros t n l Hu Hw Hl Hn. unfold popcount_intrinsic, pattern. rewrite Hw, <- Hn.
  rewrite Z.mod_small by (now apply of_bytes_bound). now apply popcount_of_bytes.
Qed.

Lemma Forall_firstn_skipn : forall (P : Z -> Prop) k l, Forall P l -> Forall P (firstn k l) /\ Forall P (skipn k l).
Proof.
  intros P k l H. rewrite <- (firstn_skipn k l) in H. apply Forall_app in H. exact H.
Qed.

Lemma pr_words_ok : forall fuel l total, Forall byte l -> (length l < fuel)%nat ->
  exists l1 t1, pr_words fuel l total = Some (l1, t1) /\ Forall byte l1 /\ (length l1 < 8)%nat /\
                t1 + bitsum l1 = total + bitsum l.
Proof.
  induction fuel as [| f IH]; intros l total Hl Hf; [lia |]. cbn [pr_words].
  destruct (Z.leb_spec 8 (Z.of_nat (length l))) as [Hge | Hlt].
  - destruct (Forall_firstn_skipn byte 8 l Hl) as [F1 F2].
    assert (L1 : length (firstn 8 l) = 8%nat) by (apply firstn_length_le; lia).
    assert (L2 : length (skipn 8 l) = (length l - 8)%nat) by apply skipn_length.
    destruct (IH (skipn 8 l) (total + popcount_intrinsic u64 (of_bytes (firstn 8 l))) F2 ltac:(lia))
      as (l1 & t1 & E & B & Len & S).
    exists l1, t1. split; [exact E |]. split; [exact B |]. split; [exact Len |].
    rewrite S, (word_popcount u64 8 _ eq_refl eq_refl F1 L1).
    rewrite <- (firstn_skipn 8 l) at 3. rewrite bitsum_app. lia.
  - exists l, total. repeat split; try assumption; lia.
Qed.

Lemma fold_bytes_ok : forall l acc, Forall byte l ->
  fold_left (fun a b => a + popcount_intrinsic i32 b) l acc = acc + bitsum l.
Proof.
  induction l as [| b r IH]; intros acc H; cbn [fold_left]; [unfold bitsum; cbn; lia |].
  inversion H as [| ? ? Hb Hr]; subst. rewrite IH by exact Hr.
  unfold bitsum. cbn [map fold_right]. unfold popcount_intrinsic, pattern. cbn [width i32].
  rewrite Z.mod_small by (unfold byte in Hb; change (2 ^ 32) with 4294967296; lia). lia.
Qed.

(** the byte-range popcount returns the number of one bits of the bytes, for every length *)
Theorem popcount_range_correct : forall l, Forall byte l ->
  popcount_range l = Some (bitsum l) /\ bitsum l = popcount_spec (of_bytes l).
Proof.
  intros l Hl. split; [| symmetry; now apply popcount_of_bytes].
  unfold popcount_range.
  destruct (pr_words_ok (S (length l)) l 0 Hl ltac:(lia)) as (l1 & t1 & E & B & Len & S). rewrite E.
  f_equal. destruct (Z.leb_spec 4 (Z.of_nat (length l1))) as [Hge | Hlt].
  - destruct (Forall_firstn_skipn byte 4 l1 B) as [F1 F2].
    assert (L1 : length (firstn 4 l1) = 4%nat) by (apply firstn_length_le; lia).
    rewrite fold_bytes_ok by exact F2. rewrite (word_popcount u32 4 _ eq_refl eq_refl F1 L1).
    assert (X : bitsum l1 = bitsum (firstn 4 l1) + bitsum (skipn 4 l1)) by (rewrite <- bitsum_app, firstn_skipn; reflexivity).
    lia.
  - rewrite fold_bytes_ok by exact B. lia.
Qed.

(* ------------------------------------------------------------------ div_ceil / round_up for negative n as well *)
(** C++ truncating division: n / k + (n % k > 0) is the ceiling of n / k for every n (also negative) and k > 0 *)
Definition ceil_quot (n k : Z) : Z := Z.quot n k + b2z (0 <? Z.rem n k).

Lemma ceil_quot_spec : forall n k, 0 < k -> is_ceil_div n k (ceil_quot n k) /\ (0 <= n -> 0 <= ceil_quot n k <= n) /\ (n <= 0 -> n <= ceil_quot n k <= 0).
Proof.
  intros n k Hk. unfold is_ceil_div, ceil_quot.
  assert (E := Z.quot_rem' n k).
  destruct (Z.lt_ge_cases n 0) as [Hn | Hn].
  - assert (B := Z.rem_bound_pos_neg n k Hk ltac:(lia)).
    destruct (Z.ltb_spec 0 (Z.rem n k)); [lia |]. cbn [b2z].
    assert (Q := Z.mul_quot_ge n k ltac:(lia) ltac:(lia)).
    nia.
  - assert (B := Z.rem_bound_pos_pos n k Hk Hn).
    assert (0 <= Z.quot n k) by (apply Z.quot_pos; lia).
    destruct (Z.ltb_spec 0 (Z.rem n k)); cbn [b2z]; nia.
Qed.

Lemma inrange_prom_any : forall t v, wf t -> inrange t v = true -> inrange (prom t) v = true.
Proof.
  intros t v Hw H. unfold prom. destruct (Z.ltb_spec (width t) 32) as [Hlt | Hge]; [| exact H].
  apply inrange_iff in H. apply inrange_iff. assert (B := tmax_lt_pow t Hw). unfold wf in Hw.
  assert (P : 2 ^ width t <= 2 ^ 31) by (apply Z.pow_le_mono_r; lia).
  assert (Q : 0 < 2 ^ (width t - 1)) by (apply Z.pow_pos_nonneg; lia).
  assert (E := pow2_double (width t) Hw).
  assert (Tm : - 2 ^ 31 <= tmin t) by (unfold tmin; destruct (signed t); lia).
  assert (Ti : tmin i32 = - 2 ^ 31) by reflexivity. assert (Ta : tmax i32 = 2 ^ 31 - 1) by reflexivity.
  rewrite Ti, Ta. lia.
Qed.

Theorem div_ceil_round_up_any_sign : forall t n k, wf t ->
  inrange t n = true -> inrange t k = true -> 0 < k ->
  n <= div_ceil t n k * k < n + k /\
  (inrange (prom t) (ceil_quot n k * k) = true ->
     n <= round_up t n k < n + k /\ (k | round_up t n k)).
Proof.
  intros t n k Hw Hn Hk H1.
  destruct (ceil_quot_spec n k H1) as (Hc & Hb1 & Hb2). unfold is_ceil_div in Hc.
  assert (Ed : div_ceil t n k = ceil_quot n k).
  { unfold div_ceil. fold (ceil_quot n k). apply wrapT_id; [now apply wf_prom |].
    assert (Hp := inrange_prom_any t n Hw Hn). apply inrange_iff in Hp. apply inrange_iff.
    assert (T := tmin_nonpos (prom t) (wf_prom t Hw)).
    assert (0 <= tmax (prom t)) by (assert (X := tmax_prom t Hw); apply inrange_iff in Hk; lia). lia. }
  split; [rewrite Ed; exact Hc |].
  intros Hfit. unfold round_up. rewrite Ed, wrapT_id by (try apply wf_prom; assumption).
  split; [exact Hc | exists (ceil_quot n k); reflexivity].
Qed.

Theorem div_ceil_round_up_any_sign_final : forall t n k, supported t ->
  inrange t n = true -> inrange t k = true -> 0 < k ->
  n <= div_ceil t n k * k < n + k /\
  (inrange (prom t) (ceil_quot n k * k) = true ->
     n <= round_up t n k < n + k /\ (k | round_up t n k)).
Proof. intros t n k Hs. apply div_ceil_round_up_any_sign. now apply supported_wf. Qed.
