(** C20 -- exhaustive sweep of the u16 instantiations (see MathSweeps.v) *)
From Coq Require Import ZArith List Bool Lia.
From TLXV Require Import C20.Math C20.MathSpec C20.MathSweeps.
Import ListNotations.
Open Scope Z_scope.
Lemma sweep_u16 : forall x, inrange u16 x = true -> chk_all u16 x = true.
Proof. apply sweep_lift; [cbn; lia | vm_compute; reflexivity]. Qed.
Lemma sweep_popcount16 : forall x, inrange u16 x = true -> popcount_generic16 x = popcount_spec x.
Proof.
  intros x Hx. apply Z.eqb_eq.
  apply (sweep_lift u16 (fun x => popcount_generic16 x =? popcount_spec x)); [cbn; lia | vm_compute; reflexivity | exact Hx].
Qed.
Lemma sweep_bswap16 : forall x, inrange u16 x = true -> bswap16_generic x = bswap_spec 2 x.
Proof.
  intros x Hx. apply Z.eqb_eq.
  apply (sweep_lift u16 (fun x => bswap16_generic x =? bswap_spec 2 x)); [cbn; lia | vm_compute; reflexivity | exact Hx].
Qed.

