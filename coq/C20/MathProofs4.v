(** C20 -- general proofs, part 4: bswap32_generic / bswap64_generic reverse the bytes of every 32 / 64-bit
    word.  Method: the expressions are OR-linear (f (x | y) = f x | f y); a word is the OR of its bytes in
    place; each byte position is swept exhaustively (256 values) by vm_compute. *)
From Coq Require Import ZArith List Bool Lia.
From TLXV Require Import C20.Math C20.MathSpec C20.MathProofs C20.MathProofs3.
Import ListNotations.
Open Scope Z_scope.

Definition orlin (f : Z -> Z) : Prop := forall x y, f (Z.lor x y) = Z.lor (f x) (f y).

Lemma orlin_id : orlin (fun x => x).
Proof. intros x y. reflexivity. Qed.
Lemma orlin_shiftr : forall f k, orlin f -> orlin (fun x => Z.shiftr (f x) k).
Proof. intros f k H x y. rewrite H. apply Z.shiftr_lor. Qed.
Lemma orlin_shiftl : forall f k, orlin f -> orlin (fun x => Z.shiftl (f x) k).
Proof. intros f k H x y. rewrite H. apply Z.shiftl_lor. Qed.
Lemma orlin_land : forall f m, orlin f -> orlin (fun x => Z.land (f x) m).
Proof. intros f m H x y. rewrite H. apply Z.land_lor_distr_l. Qed.
Lemma orlin_lor : forall f g, orlin f -> orlin g -> orlin (fun x => Z.lor (f x) (g x)).
Proof.
  intros f g Hf Hg x y. rewrite Hf, Hg. apply Z.bits_inj'. intros m Hm. rewrite !Z.lor_spec.
  destruct (Z.testbit (f x) m), (Z.testbit (f y) m), (Z.testbit (g x) m), (Z.testbit (g y) m); reflexivity.
Qed.

Lemma wrapT_u_land : forall w v, 0 <= w -> wrapT (mkTy w false) v = Z.land v (Z.ones w).
Proof. intros w v Hw. unfold wrapT. cbn [signed width]. symmetry. apply Z.land_ones. exact Hw. Qed.

Lemma orlin_wrap_u : forall f w, 0 <= w -> orlin f -> orlin (fun x => wrapT (mkTy w false) (f x)).
Proof. intros f w Hw H x y. rewrite !wrapT_u_land by exact Hw. rewrite H. apply Z.land_lor_distr_l. Qed.

Ltac orlin_tac :=
  repeat first [ apply orlin_id
               | apply orlin_lor
               | apply orlin_land
               | apply orlin_shiftr
               | apply orlin_shiftl
               | apply orlin_wrap_u; [lia |] ].

Lemma bswap32_orlin : orlin bswap32_generic.
Proof. unfold bswap32_generic, u32. cbv zeta beta. orlin_tac. Qed.

Lemma bswap64_orlin : orlin bswap64_generic.
Proof. unfold bswap64_generic, u64. cbv zeta beta. orlin_tac. Qed.

(** a word as the OR of its bytes *)
Lemma add_as_lor : forall a b s, 0 <= s -> 0 <= b < 2 ^ s -> a * 2 ^ s + b = Z.lor (a * 2 ^ s) b.
Proof. intros. symmetry. now apply lor_disjoint_add. Qed.

Definition byte (b : Z) : Prop := 0 <= b < 256.

(** per-byte sweeps *)
Definition bytes256 : list Z := zrange 0 256.
Lemma byte_In : forall b, byte b -> In b bytes256.
Proof. intros b H. apply zrange_In. unfold byte in H. cbn. lia. Qed.

Lemma byte_sweep : forall (f g : Z -> Z), forallb (fun b => f b =? g b) bytes256 = true -> forall b, byte b -> f b = g b.
Proof. intros f g H b Hb. rewrite forallb_forall in H. apply Z.eqb_eq. apply H. now apply byte_In. Qed.

Lemma bswap32_byte0 : forall b, byte b -> bswap32_generic b = b * 2 ^ 24.
Proof. apply byte_sweep. vm_compute. reflexivity. Qed.
Lemma bswap32_byte1 : forall b, byte b -> bswap32_generic (b * 2 ^ 8) = b * 2 ^ 16.
Proof. apply (byte_sweep (fun b => bswap32_generic (b * 2 ^ 8)) (fun b => b * 2 ^ 16)). vm_compute. reflexivity. Qed.
Lemma bswap32_byte2 : forall b, byte b -> bswap32_generic (b * 2 ^ 16) = b * 2 ^ 8.
Proof. apply (byte_sweep (fun b => bswap32_generic (b * 2 ^ 16)) (fun b => b * 2 ^ 8)). vm_compute. reflexivity. Qed.
Lemma bswap32_byte3 : forall b, byte b -> bswap32_generic (b * 2 ^ 24) = b.
Proof. apply (byte_sweep (fun b => bswap32_generic (b * 2 ^ 24)) (fun b => b)). vm_compute. reflexivity. Qed.

Lemma lor_step : forall A b s X, 0 <= s -> 0 <= b < 2 ^ s -> X = A * 2 ^ s -> Z.lor X b = X + b.
Proof. intros A b s X Hs Hb ->. now apply lor_disjoint_add. Qed.

Lemma lor4 : forall c0 c1 c2 c3, byte c0 -> byte c1 -> byte c2 -> byte c3 ->
  Z.lor (Z.lor (Z.lor (c3 * 2 ^ 24) (c2 * 2 ^ 16)) (c1 * 2 ^ 8)) c0 = c0 + c1 * 2 ^ 8 + c2 * 2 ^ 16 + c3 * 2 ^ 24.
Proof.
  intros c0 c1 c2 c3 H0 H1 H2 H3. unfold byte in *.
  rewrite (lor_step c3 (c2 * 2 ^ 16) 24) by lia.
  rewrite (lor_step (c3 * 2 ^ 8 + c2) (c1 * 2 ^ 8) 16) by lia.
  rewrite (lor_step (c3 * 2 ^ 16 + c2 * 2 ^ 8 + c1) c0 8) by lia.
  lia.
Qed.

Lemma lor_rev4 : forall a b c d, Z.lor (Z.lor (Z.lor a b) c) d = Z.lor (Z.lor (Z.lor d c) b) a.
Proof.
  intros. apply Z.bits_inj'. intros m Hm. rewrite !Z.lor_spec.
  destruct (Z.testbit a m), (Z.testbit b m), (Z.testbit c m), (Z.testbit d m); reflexivity.
Qed.

Theorem bswap32_generic_correct : forall b0 b1 b2 b3, byte b0 -> byte b1 -> byte b2 -> byte b3 ->
  bswap32_generic (b0 + b1 * 2 ^ 8 + b2 * 2 ^ 16 + b3 * 2 ^ 24) = b3 + b2 * 2 ^ 8 + b1 * 2 ^ 16 + b0 * 2 ^ 24.
Proof.
  intros b0 b1 b2 b3 H0 H1 H2 H3.
  rewrite <- (lor4 b0 b1 b2 b3) by assumption.
  rewrite !bswap32_orlin, (bswap32_byte3 b3), (bswap32_byte2 b2), (bswap32_byte1 b1), (bswap32_byte0 b0) by assumption.
  rewrite lor_rev4. now apply lor4.
Qed.

(** every 32-bit word is of that form *)
Lemma word32_bytes : forall x, 0 <= x < 2 ^ 32 ->
  exists b0 b1 b2 b3, byte b0 /\ byte b1 /\ byte b2 /\ byte b3 /\ x = b0 + b1 * 2 ^ 8 + b2 * 2 ^ 16 + b3 * 2 ^ 24.
Proof.
  intros x Hx. exists (x mod 256), (x / 256 mod 256), (x / 65536 mod 256), (x / 16777216).
  unfold byte. change (2 ^ 32) with 4294967296 in Hx. change (2 ^ 8) with 256. change (2 ^ 16) with 65536. change (2 ^ 24) with 16777216.
  assert (E1 := Z.div_mod x 256 ltac:(lia)). assert (M1 := Z.mod_pos_bound x 256 ltac:(lia)).
  assert (E2 := Z.div_mod (x / 256) 256 ltac:(lia)). assert (M2 := Z.mod_pos_bound (x / 256) 256 ltac:(lia)).
  assert (E3 := Z.div_mod (x / 65536) 256 ltac:(lia)). assert (M3 := Z.mod_pos_bound (x / 65536) 256 ltac:(lia)).
  assert (D2 : x / 256 / 256 = x / 65536) by (rewrite Z.div_div by lia; reflexivity).
  assert (D3 : x / 65536 / 256 = x / 16777216) by (rewrite Z.div_div by lia; reflexivity).
  rewrite D2 in E2. rewrite D3 in E3.
  assert (0 <= x / 16777216 < 256) by (split; [apply Z.div_pos; lia | apply Z.div_lt_upper_bound; lia]).
  repeat split; lia.
Qed.

(* ------------------------------------------------------------------ 64 bit *)
Lemma bswap64_byte0 : forall b, byte b -> bswap64_generic b = b * 2 ^ 56.
Proof. apply byte_sweep. vm_compute. reflexivity. Qed.
Lemma bswap64_byte1 : forall b, byte b -> bswap64_generic (b * 2 ^ 8) = b * 2 ^ 48.
Proof. apply (byte_sweep (fun b => bswap64_generic (b * 2 ^ 8)) (fun b => b * 2 ^ 48)). vm_compute. reflexivity. Qed.
Lemma bswap64_byte2 : forall b, byte b -> bswap64_generic (b * 2 ^ 16) = b * 2 ^ 40.
Proof. apply (byte_sweep (fun b => bswap64_generic (b * 2 ^ 16)) (fun b => b * 2 ^ 40)). vm_compute. reflexivity. Qed.
Lemma bswap64_byte3 : forall b, byte b -> bswap64_generic (b * 2 ^ 24) = b * 2 ^ 32.
Proof. apply (byte_sweep (fun b => bswap64_generic (b * 2 ^ 24)) (fun b => b * 2 ^ 32)). vm_compute. reflexivity. Qed.
Lemma bswap64_byte4 : forall b, byte b -> bswap64_generic (b * 2 ^ 32) = b * 2 ^ 24.
Proof. apply (byte_sweep (fun b => bswap64_generic (b * 2 ^ 32)) (fun b => b * 2 ^ 24)). vm_compute. reflexivity. Qed.
Lemma bswap64_byte5 : forall b, byte b -> bswap64_generic (b * 2 ^ 40) = b * 2 ^ 16.
Proof. apply (byte_sweep (fun b => bswap64_generic (b * 2 ^ 40)) (fun b => b * 2 ^ 16)). vm_compute. reflexivity. Qed.
Lemma bswap64_byte6 : forall b, byte b -> bswap64_generic (b * 2 ^ 48) = b * 2 ^ 8.
Proof. apply (byte_sweep (fun b => bswap64_generic (b * 2 ^ 48)) (fun b => b * 2 ^ 8)). vm_compute. reflexivity. Qed.
Lemma bswap64_byte7 : forall b, byte b -> bswap64_generic (b * 2 ^ 56) = b.
Proof. apply (byte_sweep (fun b => bswap64_generic (b * 2 ^ 56)) (fun b => b)). vm_compute. reflexivity. Qed.

Lemma lor8 : forall c0 c1 c2 c3 c4 c5 c6 c7,
  byte c0 -> byte c1 -> byte c2 -> byte c3 -> byte c4 -> byte c5 -> byte c6 -> byte c7 ->
  Z.lor (Z.lor (Z.lor (Z.lor (Z.lor (Z.lor (Z.lor (c7 * 2 ^ 56) (c6 * 2 ^ 48)) (c5 * 2 ^ 40)) (c4 * 2 ^ 32))
        (c3 * 2 ^ 24)) (c2 * 2 ^ 16)) (c1 * 2 ^ 8)) c0
  = c0 + c1 * 2 ^ 8 + c2 * 2 ^ 16 + c3 * 2 ^ 24 + c4 * 2 ^ 32 + c5 * 2 ^ 40 + c6 * 2 ^ 48 + c7 * 2 ^ 56.
Proof.
  intros c0 c1 c2 c3 c4 c5 c6 c7 H0 H1 H2 H3 H4 H5 H6 H7. unfold byte in *.
  rewrite (lor_step c7 (c6 * 2 ^ 48) 56) by lia.
  rewrite (lor_step (c7 * 2 ^ 8 + c6) (c5 * 2 ^ 40) 48) by lia.
  rewrite (lor_step (c7 * 2 ^ 16 + c6 * 2 ^ 8 + c5) (c4 * 2 ^ 32) 40) by lia.
  rewrite (lor_step (c7 * 2 ^ 24 + c6 * 2 ^ 16 + c5 * 2 ^ 8 + c4) (c3 * 2 ^ 24) 32) by lia.
  rewrite (lor_step (c7 * 2 ^ 32 + c6 * 2 ^ 24 + c5 * 2 ^ 16 + c4 * 2 ^ 8 + c3) (c2 * 2 ^ 16) 24) by lia.
  rewrite (lor_step (c7 * 2 ^ 40 + c6 * 2 ^ 32 + c5 * 2 ^ 24 + c4 * 2 ^ 16 + c3 * 2 ^ 8 + c2) (c1 * 2 ^ 8) 16) by lia.
  rewrite (lor_step (c7 * 2 ^ 48 + c6 * 2 ^ 40 + c5 * 2 ^ 32 + c4 * 2 ^ 24 + c3 * 2 ^ 16 + c2 * 2 ^ 8 + c1) c0 8) by lia.
  lia.
Qed.

Lemma lor_rev8 : forall a b c d e f g h,
  Z.lor (Z.lor (Z.lor (Z.lor (Z.lor (Z.lor (Z.lor a b) c) d) e) f) g) h =
  Z.lor (Z.lor (Z.lor (Z.lor (Z.lor (Z.lor (Z.lor h g) f) e) d) c) b) a.
Proof.
  intros. rewrite (lor_rev4 (Z.lor (Z.lor (Z.lor (Z.lor a b) c) d) e) f g h).
  rewrite (lor_rev4 (Z.lor a b) c d e). rewrite (Z.lor_comm a b).
  rewrite !Z.lor_assoc. reflexivity.
Qed.

Theorem bswap64_generic_correct : forall b0 b1 b2 b3 b4 b5 b6 b7,
  byte b0 -> byte b1 -> byte b2 -> byte b3 -> byte b4 -> byte b5 -> byte b6 -> byte b7 ->
  bswap64_generic (b0 + b1 * 2 ^ 8 + b2 * 2 ^ 16 + b3 * 2 ^ 24 + b4 * 2 ^ 32 + b5 * 2 ^ 40 + b6 * 2 ^ 48 + b7 * 2 ^ 56)
  = b7 + b6 * 2 ^ 8 + b5 * 2 ^ 16 + b4 * 2 ^ 24 + b3 * 2 ^ 32 + b2 * 2 ^ 40 + b1 * 2 ^ 48 + b0 * 2 ^ 56.
Proof.
  intros b0 b1 b2 b3 b4 b5 b6 b7 H0 H1 H2 H3 H4 H5 H6 H7.
  rewrite <- (lor8 b0 b1 b2 b3 b4 b5 b6 b7) by assumption.
  rewrite !bswap64_orlin, (bswap64_byte7 b7), (bswap64_byte6 b6), (bswap64_byte5 b5), (bswap64_byte4 b4),
    (bswap64_byte3 b3), (bswap64_byte2 b2), (bswap64_byte1 b1), (bswap64_byte0 b0) by assumption.
  rewrite lor_rev8. now apply lor8.
Qed.

(** the list-based definition bswap_spec (used for the intrinsics) is the same byte reversal *)
Lemma digit_step : forall b r, byte b -> (b + r * 256) mod 256 = b /\ (b + r * 256) / 256 = r.
Proof.
  intros b r Hb. unfold byte in Hb. split.
  - symmetry. apply Z.mod_unique with r; lia.
  - symmetry. apply Z.div_unique with b; lia.
Qed.

Lemma bswap_spec4_bytes : forall b0 b1 b2 b3, byte b0 -> byte b1 -> byte b2 -> byte b3 ->
  bswap_spec 4 (b0 + b1 * 2 ^ 8 + b2 * 2 ^ 16 + b3 * 2 ^ 24) = b3 + b2 * 2 ^ 8 + b1 * 2 ^ 16 + b0 * 2 ^ 24.
Proof.
  intros b0 b1 b2 b3 H0 H1 H2 H3. unfold bswap_spec. cbn [to_bytes].
  replace (b0 + b1 * 2 ^ 8 + b2 * 2 ^ 16 + b3 * 2 ^ 24) with (b0 + (b1 + (b2 + (b3 + 0 * 256) * 256) * 256) * 256) by lia.
  repeat match goal with
  | |- context [(?b + ?r * 256) mod 256] => rewrite (proj1 (digit_step b r ltac:(assumption)))
  | |- context [(?b + ?r * 256) / 256] => rewrite (proj2 (digit_step b r ltac:(assumption)))
  end.
  cbn [rev app of_bytes]. lia.
Qed.

Lemma bswap_spec8_bytes : forall b0 b1 b2 b3 b4 b5 b6 b7,
  byte b0 -> byte b1 -> byte b2 -> byte b3 -> byte b4 -> byte b5 -> byte b6 -> byte b7 ->
  bswap_spec 8 (b0 + b1 * 2 ^ 8 + b2 * 2 ^ 16 + b3 * 2 ^ 24 + b4 * 2 ^ 32 + b5 * 2 ^ 40 + b6 * 2 ^ 48 + b7 * 2 ^ 56)
  = b7 + b6 * 2 ^ 8 + b5 * 2 ^ 16 + b4 * 2 ^ 24 + b3 * 2 ^ 32 + b2 * 2 ^ 40 + b1 * 2 ^ 48 + b0 * 2 ^ 56.
Proof.
  intros b0 b1 b2 b3 b4 b5 b6 b7 H0 H1 H2 H3 H4 H5 H6 H7. unfold bswap_spec. cbn [to_bytes].
  replace (b0 + b1 * 2 ^ 8 + b2 * 2 ^ 16 + b3 * 2 ^ 24 + b4 * 2 ^ 32 + b5 * 2 ^ 40 + b6 * 2 ^ 48 + b7 * 2 ^ 56)
    with (b0 + (b1 + (b2 + (b3 + (b4 + (b5 + (b6 + (b7 + 0 * 256) * 256) * 256) * 256) * 256) * 256) * 256) * 256) by lia.
  repeat match goal with
  | |- context [(?b + ?r * 256) mod 256] => rewrite (proj1 (digit_step b r ltac:(assumption)))
  | |- context [(?b + ?r * 256) / 256] => rewrite (proj2 (digit_step b r ltac:(assumption)))
  end.
  cbn [rev app of_bytes]. lia.
Qed.
