(** C20 -- dispatch table used by the extracted driver (ocaml/C20_driver.ml): evaluates one model
    function on one input.  [RNA] marks inputs on which the C++ code has undefined behaviour
    (signed overflow, infinite loop) or which lie outside the documented domain; the C++ harness
    decides the same predicate independently and does not call the function there. *)
From Coq Require Import ZArith List Bool.
From TLXV Require Import C20.Math.
Open Scope Z_scope.

Inductive result := RVal (v : Z) | RNA | RLoop.

Definition of_opt (o : option Z) : result := match o with Some v => RVal v | None => RLoop end.

Inductive fn1 :=
| FClzT | FClz | FCtzT | FCtz | FFfsT | FFfs
| FPop8 | FPop16 | FPop32 | FPop64 | FPop
| FLog2FloorT | FLog2Floor | FLog2Ceil
| FIsPow2T
| FRupT | FRdownT
| FBswap16G | FBswap32G | FBswap64G | FBswapSpec
| FSgn.

Inductive fn2 :=
| FRolG | FRol | FRorG | FRor
| FDivCeil | FRoundUp | FAbsDiff.

(** wide signed types: arithmetic overflow is undefined behaviour *)
Definition wide_signed (t : ty) : bool := signed t && (32 <=? width t).

Definition rup_defined (t : ty) (n : Z) : bool :=
  negb (wide_signed t) || ((tmin t <? n) && (n <=? 2 ^ (width t - 2))).

Definition eval1 (f : fn1) (t : ty) (x : Z) : result :=
  if negb (inrange t x) then RNA else
  match f with
  | FClzT => of_opt (clz_template t x)
  | FClz => RVal (clz_intrinsic t x)
  | FCtzT => of_opt (ctz_template t x)
  | FCtz => RVal (ctz_intrinsic t x)
  | FFfsT => of_opt (ffs_template t x)
  | FFfs => RVal (ffs_intrinsic t x)
  | FPop8 => RVal (popcount_generic8 x)
  | FPop16 => RVal (popcount_generic16 x)
  | FPop32 => RVal (popcount_generic32 x)
  | FPop64 => RVal (popcount_generic64 x)
  | FPop => RVal (popcount_intrinsic t x)
  | FLog2FloorT => if x <? 0 then RNA else of_opt (integer_log2_floor_template t x)
  | FLog2Floor => RVal (integer_log2_floor_intrinsic t x)
  | FLog2Ceil => RVal (integer_log2_ceil t x)
  | FIsPow2T => RVal (b2z (is_power_of_two_template t x))
  | FRupT => if rup_defined t x then of_opt (round_up_to_power_of_two_template t x) else RNA
  | FRdownT => of_opt (round_down_to_power_of_two_template t x)
  | FBswap16G => RVal (bswap16_generic x)
  | FBswap32G => RVal (bswap32_generic x)
  | FBswap64G => RVal (bswap64_generic x)
  | FBswapSpec => RVal (bswap_spec (Z.to_nat (width t / 8)) x)
  | FSgn => RVal (sgn x)
  end.

Definition fits (t : ty) (v : Z) : bool := inrange t v.

Definition eval2 (f : fn2) (t : ty) (a b : Z) : result :=
  match f with
  | FRolG => if inrange t a && inrange i32 b then RVal (rol_generic t a b) else RNA
  | FRol => if inrange t a && inrange i32 b then RVal (rol_intrinsic t a b) else RNA
  | FRorG => if inrange t a && inrange i32 b then RVal (ror_generic t a b) else RNA
  | FRor => if inrange t a && inrange i32 b then RVal (ror_intrinsic t a b) else RNA
  | FDivCeil =>
      if inrange t a && inrange t b && (1 <=? b) then RVal (div_ceil t a b) else RNA
  | FRoundUp =>
      if inrange t a && inrange t b && (1 <=? b) then
        let exact := (Z.quot a b + b2z (0 <? Z.rem a b)) * b in
        if wide_signed (prom t) && negb (fits (prom t) exact) then RNA else RVal (round_up t a b)
      else RNA
  | FAbsDiff =>
      if inrange t a && inrange t b then
        if wide_signed t && negb (fits t (Z.abs (a - b))) then RNA else RVal (abs_diff t a b)
      else RNA
  end.

(** two operands of different types (div_ceil / round_up only) *)
Definition eval2m (f : fn2) (tn tk : ty) (a b : Z) : result :=
  if inrange tn a && inrange tk b && (1 <=? b) then
    let R := common_type tn tk in
    match f with
    | FDivCeil => RVal (div_ceil_mixed tn tk a b)
    | FRoundUp =>
        let a' := wrapT R a in let b' := wrapT R b in
        let exact := (Z.quot a' b' + b2z (0 <? Z.rem a' b')) * b' in
        if signed R && negb (inrange R exact) then RNA else RVal (round_up_mixed tn tk a b)
    | _ => RNA
    end
  else RNA.

Definition eval_range (l : list Z) : result :=
  if forallb (fun b => (0 <=? b) && (b <? 256)) l then of_opt (popcount_range l) else RNA.
