(** C20 -- executable model of tlx/math/*.hpp integer helpers.

    Values of a C++ integer type are modelled by their mathematical value in Z; a type is a pair
    (width, signedness).  Storing into a variable of type [t] is [wrapT t] (two's complement wrap,
    what g++/clang do for the implementation-defined narrowing conversions and what unsigned
    arithmetic is defined to do).  Arithmetic on operands narrower than int happens in int
    ("integer promotion", [prom]); the models therefore compute exactly in Z and wrap where the
    C++ code stores or where the arithmetic type itself wraps (32/64-bit).  [>>] on a signed value
    is the arithmetic shift ([Z.shiftr], floor), [&], [|] act on the infinite two's complement
    representation ([Z.land], [Z.lor]) -- both coincide with the C++ operators on in-range values.

    Loops are modelled with explicit fuel and an error result [None]; every theorem excludes
    [None] on the documented domain.  Signed overflow (undefined behaviour in C++) is modelled as
    wrap-around but no theorem makes a claim for inputs on which it occurs.

    Definitions named [..._shipped] are the code as found in tlx 704fd0b where it differs from
    the repaired code (fixes/C20/*.patch); they are refuted by concrete witnesses in MathProofs.v. *)
From Coq Require Import ZArith List Bool.
Import ListNotations.
Open Scope Z_scope.

(* ------------------------------------------------------------------ integer types *)
Record ty := mkTy { width : Z; signed : bool }.

Definition u8 := mkTy 8 false.   Definition i8 := mkTy 8 true.
Definition u16 := mkTy 16 false. Definition i16 := mkTy 16 true.
Definition u32 := mkTy 32 false. Definition i32 := mkTy 32 true.
Definition u64 := mkTy 64 false. Definition i64 := mkTy 64 true.

Definition tmin (t : ty) : Z := if signed t then - 2 ^ (width t - 1) else 0.
Definition tmax (t : ty) : Z := if signed t then 2 ^ (width t - 1) - 1 else 2 ^ width t - 1.
Definition inrange (t : ty) (v : Z) : bool := (tmin t <=? v) && (v <=? tmax t).

(** conversion of an arbitrary integer to type [t] (modular) *)
Definition wrapT (t : ty) (v : Z) : Z :=
  if signed t then (v + 2 ^ (width t - 1)) mod 2 ^ width t - 2 ^ (width t - 1)
  else v mod 2 ^ width t.

(** integer promotion: types narrower than int compute in int *)
Definition prom (t : ty) : ty := if width t <? 32 then i32 else t.

(** static_cast to the unsigned type of the same width = the bit pattern *)
Definition pattern (t : ty) (v : Z) : Z := v mod 2 ^ width t.

Definition b2z (b : bool) : Z := if b then 1 else 0.

(* ------------------------------------------------------------------ clz.hpp *)
(** [static_cast<Integral>(1) << (8 * sizeof(x) - 1)] : computed in the promoted type *)
Definition topmask (t : ty) : Z := wrapT (prom t) (Z.shiftl 1 (width t - 1)).

(** while ((x & topmask) == 0) x <<= 1, ++r; *)
Fixpoint clz_loop (fuel : nat) (t : ty) (x r : Z) : option Z :=
  match fuel with
  | O => None
  | S f => if Z.land x (topmask t) =? 0
           then clz_loop f t (wrapT t (Z.shiftl x 1)) (r + 1)
           else Some r
  end.

Definition clz_template (t : ty) (x : Z) : option Z :=
  if x =? 0 then Some (width t) else clz_loop (S (Z.to_nat (width t))) t x 0.

(** specification of the compiler intrinsic [__builtin_clz*] on a non-zero w-bit pattern *)
Definition builtin_clz (w p : Z) : Z := w - 1 - Z.log2 p.

(** clz<unsigned T>(x) = x == 0 ? w : __builtin_clz(x);  clz<signed T>(x) = clz((unsigned T) x) *)
Definition clz_intrinsic (t : ty) (x : Z) : Z :=
  let p := pattern t x in if p =? 0 then width t else builtin_clz (width t) p.

(* ------------------------------------------------------------------ ctz.hpp / ffs.hpp *)
(** while ((x & 1) == 0) x >>= 1, ++r; *)
Fixpoint ctz_loop (fuel : nat) (t : ty) (x r : Z) : option Z :=
  match fuel with
  | O => None
  | S f => if Z.land x 1 =? 0
           then ctz_loop f t (wrapT t (Z.shiftr x 1)) (r + 1)
           else Some r
  end.

Definition ctz_template (t : ty) (x : Z) : option Z :=
  if x =? 0 then Some (width t) else ctz_loop (S (Z.to_nat (width t))) t x 0.

Definition ffs_template (t : ty) (x : Z) : option Z :=
  if x =? 0 then Some 0 else ctz_loop (S (Z.to_nat (width t))) t x 1.

(** mathematical definition: 2-adic valuation of a positive number *)
Fixpoint pctz (p : positive) : Z :=
  match p with xO q => 1 + pctz q | _ => 0 end.

(** specification of [__builtin_ctz*] (non-zero pattern) and [__builtin_ffs*] *)
Definition builtin_ctz (p : Z) : Z := match p with Zpos q => pctz q | _ => 0 end.
Definition ctz_intrinsic (t : ty) (x : Z) : Z :=
  let p := pattern t x in if p =? 0 then width t else builtin_ctz p.
Definition ffs_intrinsic (t : ty) (x : Z) : Z :=
  let p := pattern t x in if p =? 0 then 0 else builtin_ctz p + 1.

(* ------------------------------------------------------------------ popcount.hpp *)
(** mathematical definition: number of one digits of the binary expansion *)
Fixpoint ppop (p : positive) : Z :=
  match p with xH => 1 | xO q => ppop q | xI q => 1 + ppop q end.
Definition popcount_spec (p : Z) : Z := match p with Zpos q => ppop q | _ => 0 end.
(** popcount(T x) = __builtin_popcount*((unsigned T) x) *)
Definition popcount_intrinsic (t : ty) (x : Z) : Z := popcount_spec (pattern t x).

Definition popcount_generic8 (x : Z) : Z :=
  let x := wrapT u8 (x - Z.land (Z.shiftr x 1) 0x55) in
  let x := wrapT u8 (Z.land x 0x33 + Z.land (Z.shiftr x 2) 0x33) in
  wrapT u8 (Z.land (x + Z.shiftr x 4) 0x0F).

Definition popcount_generic16 (x : Z) : Z :=
  let x := wrapT u16 (x - Z.land (Z.shiftr x 1) 0x5555) in
  let x := wrapT u16 (Z.land x 0x3333 + Z.land (Z.shiftr x 2) 0x3333) in
  Z.shiftr (wrapT u16 (Z.land (x + Z.shiftr x 4) 0x0F0F * 0x0101)) 8.

Definition popcount_generic32 (x : Z) : Z :=
  let x := wrapT u32 (x - Z.land (Z.shiftr x 1) 0x55555555) in
  let x := wrapT u32 (Z.land x 0x33333333 + Z.land (Z.shiftr x 2) 0x33333333) in
  Z.shiftr (wrapT u32 (Z.land (wrapT u32 (x + Z.shiftr x 4)) 0x0F0F0F0F * 0x01010101)) 24.

Definition popcount_generic64 (x : Z) : Z :=
  let x := wrapT u64 (x - Z.land (Z.shiftr x 1) 0x5555555555555555) in
  let x := wrapT u64 (Z.land x 0x3333333333333333 + Z.land (Z.shiftr x 2) 0x3333333333333333) in
  Z.shiftr (wrapT u64 (Z.land (wrapT u64 (x + Z.shiftr x 4)) 0x0F0F0F0F0F0F0F0F * 0x0101010101010101)) 56.

(* ------------------------------------------------------------------ integer_log2.hpp *)
(** while (i >= bound) i >>= sh, p += sh; *)
Fixpoint l2_loop (fuel : nat) (t : ty) (bound sh i p : Z) : option (Z * Z) :=
  match fuel with
  | O => None
  | S f => if bound <=? i then l2_loop f t bound sh (wrapT t (Z.shiftr i sh)) (p + sh)
           else Some (i, p)
  end.

(** while (i >>= 1) ++p; *)
Fixpoint l2_loop1 (fuel : nat) (t : ty) (i p : Z) : option Z :=
  match fuel with
  | O => None
  | S f => let i' := wrapT t (Z.shiftr i 1) in
           if i' =? 0 then Some p else l2_loop1 f t i' (p + 1)
  end.

Definition integer_log2_floor_template (t : ty) (i : Z) : option Z :=
  let fuel := S (Z.to_nat (width t)) in
  match l2_loop fuel t 65536 16 i 0 with
  | None => None
  | Some (i1, p1) =>
    match l2_loop fuel t 256 8 i1 p1 with
    | None => None
    | Some (i2, p2) => l2_loop1 fuel t i2 p2
    end
  end.

(** gcc/clang overloads: i == 0 ? 0 : w - 1 - __builtin_clz(i) *)
Definition integer_log2_floor_intrinsic (t : ty) (i : Z) : Z :=
  if i =? 0 then 0 else width t - 1 - builtin_clz (width t) (pattern t i).

(** i <= 1 ? 0 : integer_log2_floor(i - 1) + 1   (with either floor implementation) *)
Definition integer_log2_ceil (t : ty) (i : Z) : Z :=
  if i <=? 1 then 0 else integer_log2_floor_intrinsic t (wrapT t (i - 1)) + 1.
Definition integer_log2_ceil_fallback (t : ty) (i : Z) : option Z :=
  if i <=? 1 then Some 0
  else match integer_log2_floor_template t (wrapT t (i - 1)) with
       | Some r => Some (r + 1) | None => None end.

(* ------------------------------------------------------------------ is_power_of_two.hpp *)
Definition is_power_of_two_template (t : ty) (i : Z) : bool :=
  if i <=? 0 then false else Z.land i (wrapT (prom t) (i - 1)) =? 0.

(* ------------------------------------------------------------------ round_to_power_of_two.hpp *)
(** for (size_t k = 1; k != 8 * sizeof(n); k <<= 1) n |= n >> k; *)
Fixpoint smear (fuel : nat) (t : ty) (k n : Z) : option Z :=
  match fuel with
  | O => None
  | S f => if k =? width t then Some n
           else smear f t (Z.shiftl k 1) (wrapT t (Z.lor n (Z.shiftr n k)))
  end.

Definition smear_fuel (t : ty) : nat := S (Z.to_nat (width t)).

(** --n; smear; ++n; *)
Definition round_up_to_power_of_two_template (t : ty) (n : Z) : option Z :=
  match smear (smear_fuel t) t 1 (wrapT t (n - 1)) with
  | Some m => Some (wrapT t (m + 1))
  | None => None
  end.

(** repaired code (fixes/C20/01): smear; return n - (n >> 1); *)
Definition round_down_to_power_of_two_template (t : ty) (n : Z) : option Z :=
  match smear (smear_fuel t) t 1 n with
  | Some m => Some (wrapT t (m - Z.shiftr m 1))
  | None => None
  end.

(** shipped code: round_up_to_power_of_two(i + 1) >> 1 *)
Definition round_down_to_power_of_two_shipped (t : ty) (n : Z) : option Z :=
  match round_up_to_power_of_two_template t (wrapT t (n + 1)) with
  | Some m => Some (Z.shiftr m 1)
  | None => None
  end.

(* ------------------------------------------------------------------ bswap.hpp *)
Definition bswap16_generic (x : Z) : Z :=
  wrapT u16 (Z.lor (Z.land (Z.shiftr x 8) 0x00FF) (Z.land (Z.shiftl x 8) 0xFF00)).

Definition bswap32_generic (x : Z) : Z :=
  let shl k := wrapT u32 (Z.shiftl x k) in
  wrapT u32
    (Z.lor (Z.lor (Z.lor (Z.land (Z.shiftr x 24) 0x000000FF) (Z.land (shl 24) 0xFF000000))
                  (Z.land (Z.shiftr x 8) 0x0000FF00))
           (Z.land (shl 8) 0x00FF0000)).

Definition bswap64_generic (x : Z) : Z :=
  let shl k := wrapT u64 (Z.shiftl x k) in
  Z.lor (Z.lor (Z.lor (Z.lor (Z.lor (Z.lor (Z.lor
    (Z.land (Z.shiftr x 56) 0x00000000000000FF)
    (Z.land (Z.shiftr x 40) 0x000000000000FF00))
    (Z.land (Z.shiftr x 24) 0x0000000000FF0000))
    (Z.land (Z.shiftr x 8) 0x00000000FF000000))
    (Z.land (shl 8) 0x000000FF00000000))
    (Z.land (shl 24) 0x0000FF0000000000))
    (Z.land (shl 40) 0x00FF000000000000))
    (Z.land (shl 56) 0xFF00000000000000).

(** mathematical definition: the little-endian base-256 digits reversed *)
Fixpoint to_bytes (n : nat) (x : Z) : list Z :=
  match n with O => [] | S m => (x mod 256) :: to_bytes m (x / 256) end.
Fixpoint of_bytes (l : list Z) : Z :=
  match l with [] => 0 | b :: r => b + 256 * of_bytes r end.
Definition bswap_spec (nbytes : nat) (x : Z) : Z := of_bytes (rev (to_bytes nbytes x)).

(* ------------------------------------------------------------------ rol.hpp / ror.hpp *)
(** (x << (i & (w-1))) | (x >> ((w - (i & (w-1))) & (w-1)))  on uint32_t / uint64_t, i an int *)
Definition rol_generic (t : ty) (x i : Z) : Z :=
  let w := width t in
  Z.lor (wrapT t (Z.shiftl x (Z.land i (w - 1))))
        (Z.shiftr x (Z.land (w - Z.land i (w - 1)) (w - 1))).
Definition ror_generic (t : ty) (x i : Z) : Z :=
  let w := width t in
  Z.lor (Z.shiftr x (Z.land i (w - 1)))
        (wrapT t (Z.shiftl x (Z.land (w - Z.land i (w - 1)) (w - 1)))).

(** mathematical definition of rotating a w-bit word by s positions, 0 <= s < w;
    also the specification of the x86 rol/ror instructions with the count taken modulo w *)
Definition rol_spec (w x s : Z) : Z := (x mod 2 ^ (w - s)) * 2 ^ s + x / 2 ^ (w - s).
Definition ror_spec (w x s : Z) : Z := x / 2 ^ s + (x mod 2 ^ s) * 2 ^ (w - s).
Definition rol_intrinsic (t : ty) (x i : Z) : Z := rol_spec (width t) x (i mod width t).
Definition ror_intrinsic (t : ty) (x i : Z) : Z := ror_spec (width t) x (i mod width t).

(* ------------------------------------------------------------------ div_ceil.hpp / round_up.hpp *)
(** result type decltype(n + k) for two operands of type t = prom t.  C++ / and % truncate. *)
(** repaired code (fixes/C20/02, 03): n / k + (n % k > 0) *)
Definition div_ceil (t : ty) (n k : Z) : Z :=
  wrapT (prom t) (Z.quot n k + b2z (0 <? Z.rem n k)).
Definition round_up (t : ty) (n k : Z) : Z :=
  wrapT (prom t) (div_ceil t n k * k).

(** shipped code: (n + k - 1) / k *)
Definition div_ceil_shipped (t : ty) (n k : Z) : Z :=
  let T := prom t in wrapT T (Z.quot (wrapT T (wrapT T (n + k) - 1)) k).
Definition round_up_shipped (t : ty) (n k : Z) : Z :=
  wrapT (prom t) (div_ceil_shipped t n k * k).

(* ------------------------------------------------------------------ abs_diff.hpp / sgn.hpp *)
(** a > b ? a - b : b - a, converted to T *)
Definition abs_diff (t : ty) (a b : Z) : Z := wrapT t (if b <? a then a - b else b - a).

(** (T(0) < val) - (val < T(0)) *)
Definition sgn (v : Z) : Z := b2z (0 <? v) - b2z (v <? 0).

(* ------------------------------------------------------------------ mixed operand types, byte-range popcount *)
(** usual arithmetic conversions of two integer operand types (LP64: int = 32, long = long long = 64 bit):
    promote both; equal width -> unsigned if either is unsigned; otherwise the wider type *)
Definition common_type (t1 t2 : ty) : ty :=
  let p1 := prom t1 in let p2 := prom t2 in
  if width p1 =? width p2 then mkTy (width p1) (signed p1 && signed p2)
  else if width p2 <? width p1 then p1 else p2.

(** div_ceil<IntegralN, IntegralK>(n, k) -> decltype(n + k): both operands are converted to the common type first *)
Definition div_ceil_mixed (tn tk : ty) (n k : Z) : Z :=
  let R := common_type tn tk in
  let n' := wrapT R n in let k' := wrapT R k in
  wrapT R (Z.quot n' k' + b2z (0 <? Z.rem n' k')).
Definition round_up_mixed (tn tk : ty) (n k : Z) : Z :=
  let R := common_type tn tk in
  wrapT R (div_ceil_mixed tn tk n k * wrapT R k).

(** popcount(const void* data, size_t size) (repaired loads, fixes/C20/06): 8 bytes at a time through the
    unsigned long overload, then at most one 4-byte word through the unsigned overload, then single bytes
    (uint8_t promotes to the int overload); little-endian words = of_bytes *)
Fixpoint pr_words (fuel : nat) (l : list Z) (total : Z) : option (list Z * Z) :=
  match fuel with
  | O => None
  | S f => if 8 <=? Z.of_nat (length l)
           then pr_words f (skipn 8 l) (total + popcount_intrinsic u64 (of_bytes (firstn 8 l)))
           else Some (l, total)
  end.
Definition popcount_range (l : list Z) : option Z :=
  match pr_words (S (length l)) l 0 with
  | None => None
  | Some (l1, t1) =>
    let l2 := if 4 <=? Z.of_nat (length l1) then skipn 4 l1 else l1 in
    let t2 := if 4 <=? Z.of_nat (length l1) then t1 + popcount_intrinsic u32 (of_bytes (firstn 4 l1)) else t1 in
    Some (fold_left (fun acc b => acc + popcount_intrinsic i32 b) l2 t2)
  end.
