(** C20 -- exhaustive sweeps (vm_compute over every value) of the 8- and 16-bit instantiations, both
    signednesses.  The bound is the type: every theorem is for all values of u8 / i8 / u16 / i16. *)
From Coq Require Import ZArith List Bool Lia.
From TLXV Require Import C20.Math C20.MathSpec.
Import ListNotations.
Open Scope Z_scope.

Definition opt_eqb (o : option Z) (v : Z) : bool :=
  match o with Some r => r =? v | None => false end.

Lemma opt_eqb_true : forall o v, opt_eqb o v = true -> o = Some v.
Proof. intros [r |] v H; cbn in H; [apply Z.eqb_eq in H; now subst | discriminate]. Qed.

(** all one-argument template checks on one value *)
Definition chk_clz (t : ty) (x : Z) := opt_eqb (clz_template t x) (clz_spec (width t) (pattern t x)).
Definition chk_ctz (t : ty) (x : Z) := opt_eqb (ctz_template t x) (ctz_spec (width t) (pattern t x)).
Definition chk_ffs (t : ty) (x : Z) := opt_eqb (ffs_template t x) (ffs_spec (pattern t x)).
Definition chk_log2 (t : ty) (x : Z) := (x <? 0) || opt_eqb (integer_log2_floor_template t x) (Z.log2 x).
Definition chk_log2c (t : ty) (x : Z) := (x <? 0) || opt_eqb (integer_log2_ceil_fallback t x) (Z.log2_up x).
Definition chk_pow2 (t : ty) (x : Z) := Bool.eqb (is_power_of_two_template t x) (is_pow2b x).
Definition chk_rup (t : ty) (x : Z) :=
  if (1 <=? x) && (2 ^ Z.log2_up x <=? tmax t)
  then opt_eqb (round_up_to_power_of_two_template t x) (2 ^ Z.log2_up x) else true.
Definition chk_rdown (t : ty) (x : Z) :=
  if 0 <=? x then opt_eqb (round_down_to_power_of_two_template t x) (if x =? 0 then 0 else 2 ^ Z.log2 x) else true.

Definition chk_all (t : ty) (x : Z) : bool :=
  chk_clz t x && chk_ctz t x && chk_ffs t x && chk_log2 t x && chk_log2c t x && chk_pow2 t x && chk_rup t x && chk_rdown t x.

Lemma sweep_lift : forall t (f : Z -> bool), 0 <= width t ->
  forallb f (all_values t) = true -> forall x, inrange t x = true -> f x = true.
Proof.
  intros t f Hw H x Hx. rewrite forallb_forall in H. apply H. now apply all_values_In.
Qed.

Lemma sweep_u8 : forall x, inrange u8 x = true -> chk_all u8 x = true.
Proof. apply sweep_lift; [cbn; lia | vm_compute; reflexivity]. Qed.
Lemma sweep_i8 : forall x, inrange i8 x = true -> chk_all i8 x = true.
Proof. apply sweep_lift; [cbn; lia | vm_compute; reflexivity]. Qed.

(** fixed-width functions *)
Lemma sweep_popcount8 : forall x, inrange u8 x = true -> popcount_generic8 x = popcount_spec x.
Proof.
  intros x Hx. apply Z.eqb_eq.
  apply (sweep_lift u8 (fun x => popcount_generic8 x =? popcount_spec x)); [cbn; lia | vm_compute; reflexivity | exact Hx].
Qed.
