(** C20 -- the statements exported to Properties_C20.v, assembled from the general proofs
    (MathProofs*.v), the sweeps (MathSweeps*.v) and the Aggregate development (AggProofs.v). *)
From Coq Require Import ZArith QArith List Bool Lia.
From TLXV Require Import C20.Math C20.MathSpec C20.MathProofs C20.MathProofs2 C20.MathProofs3 C20.MathProofs4 C20.MathProofs5
  C20.MathSweeps C20.MathSweeps_u16 C20.Agg C20.AggProofs.
Import ListNotations.
Open Scope Z_scope.

(** the integer types the helpers are instantiated with *)
Definition supported (t : ty) : Prop := In t [u8; i8; u16; i16; u32; i32; u64; i64].

Lemma supported_pow2 : forall t, supported t -> exists J, 0 <= J /\ width t = 2 ^ J.
Proof.
  intros t H. unfold supported in H. cbn [In] in H.
  destruct H as [<- | [<- | [<- | [<- | [<- | [<- | [<- | [<- | []]]]]]]]];
    [exists 3 | exists 3 | exists 4 | exists 4 | exists 5 | exists 5 | exists 6 | exists 6]; split; (lia || reflexivity).
Qed.

Lemma supported_wf : forall t, supported t -> wf t.
Proof.
  intros t H. destruct (supported_pow2 t H) as [J [HJ E]]. unfold wf. rewrite E. apply pow2_pos. exact HJ.
Qed.

Theorem clz_ctz_ffs_final : forall t x, supported t -> inrange t x = true ->
  let w := width t in let p := pattern t x in
  clz_template t x = Some (clz_spec w p) /\ clz_intrinsic t x = clz_spec w p /\
  ctz_template t x = Some (ctz_spec w p) /\ ctz_intrinsic t x = ctz_spec w p /\
  ffs_template t x = Some (ffs_spec p) /\ ffs_intrinsic t x = ffs_spec p.
Proof.
  intros t x Hs Hr w p. assert (W := supported_wf t Hs). subst w p. repeat split.
  - now apply clz_template_correct.
  - now apply ctz_template_correct.
  - now apply ffs_template_correct.
Qed.

Theorem clz_ctz_spec_meaning_final : forall w p, 0 < w -> 0 <= p < 2 ^ w ->
  (let c := clz_spec w p in 0 <= c <= w /\ p < 2 ^ (w - c) /\ (c < w -> 2 ^ (w - c - 1) <= p)) /\
  (p = 0 -> ctz_spec w p = w /\ ffs_spec p = 0) /\
  (0 < p -> let c := ctz_spec w p in
            0 <= c /\ (2 ^ c | p) /\ ~ (2 ^ (c + 1) | p) /\ ffs_spec p = c + 1).
Proof.
  intros w p Hw Hp. split; [now apply clz_spec_meaning |]. split.
  - intros ->. split; reflexivity.
  - intros Hpos. destruct (ctz_spec_meaning w p Hpos) as (A & B & C). cbv zeta. repeat split; try assumption.
    unfold ffs_spec, ctz_spec. destruct (Z.eqb_spec p 0); [lia | reflexivity].
Qed.

Theorem popcount_intrinsic_meaning_final : forall t x,
  popcount_intrinsic t x = popcount_spec (pattern t x) /\
  forall p n, (Pos.size_nat p <= n)%nat -> popcount_spec (Zpos p) = count_bits n (Zpos p).
Proof. intros t x. split; [reflexivity | intros p n H; cbn [popcount_spec]; now apply ppop_count_bits]. Qed.

Theorem integer_log2_final : forall t x, supported t -> inrange t x = true -> 0 <= x ->
  integer_log2_floor_template t x = Some (Z.log2 x) /\
  integer_log2_floor_intrinsic t x = Z.log2 x /\
  integer_log2_ceil t x = Z.log2_up x /\
  integer_log2_ceil_fallback t x = Some (Z.log2_up x) /\
  (0 < x -> 2 ^ Z.log2 x <= x < 2 ^ (Z.log2 x + 1)) /\
  (1 < x -> 2 ^ (Z.log2_up x - 1) < x <= 2 ^ Z.log2_up x).
Proof.
  intros t x Hs Hr Hx. assert (W := supported_wf t Hs).
  destruct (integer_log2_ceil_correct t x W Hr Hx) as [C1 C2].
  split; [now apply integer_log2_floor_template_correct |].
  split; [now apply integer_log2_floor_intrinsic_correct |].
  split; [exact C1 |]. split; [exact C2 |]. split; [apply log2_meaning | apply log2_up_meaning].
Qed.

Theorem is_power_of_two_final : forall t x, supported t -> inrange t x = true ->
  (is_power_of_two_template t x = true <-> exists k, 0 <= k /\ x = 2 ^ k).
Proof.
  intros t x Hs Hr. rewrite (is_power_of_two_correct t x (supported_wf t Hs) Hr). apply is_pow2b_spec.
Qed.

Theorem round_to_power_of_two_final : forall t x, supported t -> inrange t x = true ->
  (1 <= x -> 2 ^ Z.log2_up x <= tmax t ->
     round_up_to_power_of_two_template t x = Some (2 ^ Z.log2_up x)) /\
  (0 <= x -> round_down_to_power_of_two_template t x = Some (if x =? 0 then 0 else 2 ^ Z.log2 x)).
Proof.
  intros t x Hs Hr. destruct (supported_pow2 t Hs) as [J [HJ E]]. split.
  - intros H1 H2. now apply (round_up_to_power_of_two_correct t J HJ E).
  - intros H0. now apply (round_down_to_power_of_two_correct t J HJ E).
Qed.

Theorem rol_ror_final : forall t x i, t = u32 \/ t = u64 -> 0 <= x < 2 ^ width t ->
  let w := width t in let s := i mod w in
  rol_generic t x i = rol_spec w x s /\ rol_intrinsic t x i = rol_spec w x s /\
  ror_generic t x i = ror_spec w x s /\ ror_intrinsic t x i = ror_spec w x s /\
  (forall j, 0 <= j < w -> Z.testbit (rol_spec w x s) ((j + s) mod w) = Z.testbit x j) /\
  (forall j, 0 <= j < w -> Z.testbit (ror_spec w x s) ((j - s) mod w) = Z.testbit x j).
Proof.
  intros t x i Ht Hx w s.
  assert (Hk : exists k, 0 <= k /\ width t = 2 ^ k /\ signed t = false).
  { destruct Ht as [-> | ->]; [exists 5 | exists 6]; repeat split; lia. }
  destruct Hk as [k [Hk [Ew Hu]]].
  assert (Pw : 0 < w) by (subst w; rewrite Ew; apply pow2_pos; exact Hk).
  assert (Hs : 0 <= s < w) by (apply Z.mod_pos_bound; exact Pw).
  split; [now apply (rol_generic_correct t k Hk Ew Hu) |]. split; [reflexivity |].
  split; [now apply (ror_generic_correct t k Hk Ew Hu) |]. split; [reflexivity |].
  split; intros j Hj; [now apply rol_spec_bits | now apply ror_spec_bits].
Qed.

Theorem div_ceil_round_up_final : forall t n k, supported t ->
  inrange t n = true -> inrange t k = true -> 0 <= n -> 0 < k ->
  n <= div_ceil t n k * k < n + k /\
  (inrange (prom t) (ceil_div n k * k) = true ->
     n <= round_up t n k < n + k /\ (k | round_up t n k)).
Proof.
  intros t n k Hs Hn Hk H0 H1. assert (W := supported_wf t Hs). split.
  - exact (div_ceil_correct t n k W Hn Hk H0 H1).
  - intros Hfit. exact (round_up_correct t n k W Hn Hk H0 H1 Hfit).
Qed.

Theorem abs_diff_sgn_final : forall t a b, supported t ->
  (inrange t (Z.abs (a - b)) = true -> abs_diff t a b = Z.abs (a - b)) /\ sgn a = Z.sgn a.
Proof.
  intros t a b Hs. split; [intros H; now apply abs_diff_correct; [apply supported_wf |] | apply sgn_correct].
Qed.

(** bswap: the generic expressions and the list-based definition (= specification of the intrinsics) both
    reverse the bytes, for every 16-, 32- and 64-bit word *)
Theorem bswap_final :
  (forall x, inrange u16 x = true -> bswap16_generic x = bswap_spec 2 x) /\
  (forall b0 b1 b2 b3, byte b0 -> byte b1 -> byte b2 -> byte b3 ->
     let x := b0 + b1 * 2 ^ 8 + b2 * 2 ^ 16 + b3 * 2 ^ 24 in
     let r := b3 + b2 * 2 ^ 8 + b1 * 2 ^ 16 + b0 * 2 ^ 24 in
     bswap32_generic x = r /\ bswap_spec 4 x = r) /\
  (forall x, 0 <= x < 2 ^ 32 ->
     exists b0 b1 b2 b3, byte b0 /\ byte b1 /\ byte b2 /\ byte b3 /\ x = b0 + b1 * 2 ^ 8 + b2 * 2 ^ 16 + b3 * 2 ^ 24) /\
  (forall b0 b1 b2 b3 b4 b5 b6 b7,
     byte b0 -> byte b1 -> byte b2 -> byte b3 -> byte b4 -> byte b5 -> byte b6 -> byte b7 ->
     let x := b0 + b1 * 2 ^ 8 + b2 * 2 ^ 16 + b3 * 2 ^ 24 + b4 * 2 ^ 32 + b5 * 2 ^ 40 + b6 * 2 ^ 48 + b7 * 2 ^ 56 in
     let r := b7 + b6 * 2 ^ 8 + b5 * 2 ^ 16 + b4 * 2 ^ 24 + b3 * 2 ^ 32 + b2 * 2 ^ 40 + b1 * 2 ^ 48 + b0 * 2 ^ 56 in
     bswap64_generic x = r /\ bswap_spec 8 x = r).
Proof.
  split; [exact sweep_bswap16 |]. split.
  { intros b0 b1 b2 b3 H0 H1 H2 H3 x r. subst x r. split; [now apply bswap32_generic_correct | now apply bswap_spec4_bytes]. }
  split; [exact word32_bytes |].
  intros b0 b1 b2 b3 b4 b5 b6 b7 H0 H1 H2 H3 H4 H5 H6 H7 x r. subst x r.
  split; [now apply bswap64_generic_correct | now apply bswap_spec8_bytes].
Qed.

(** popcount: the SWAR fall-backs count the one digits of every 8/16/32/64-bit value; the intrinsic overloads are
    specified by the same count; popcount_spec is the number of set bits. *)
Theorem popcount_final :
  (forall x, inrange u8 x = true -> popcount_generic8 x = popcount_spec x) /\
  (forall x, inrange u16 x = true -> popcount_generic16 x = popcount_spec x) /\
  (forall x, 0 <= x < 2 ^ 32 -> popcount_generic32 x = popcount_spec x) /\
  (forall x, 0 <= x < 2 ^ 64 -> popcount_generic64 x = popcount_spec x) /\
  (forall t x, popcount_intrinsic t x = popcount_spec (pattern t x)) /\
  (forall p n, (Pos.size_nat p <= n)%nat -> popcount_spec (Zpos p) = count_bits n (Zpos p)).
Proof.
  split; [exact sweep_popcount8 |]. split; [exact sweep_popcount16 |].
  split; [exact popcount_generic32_correct |]. split; [exact popcount_generic64_correct |].
  split; [reflexivity |]. intros p n H. cbn [popcount_spec]. now apply ppop_count_bits.
Qed.

Example integer_hypotheses_satisfiable :
  supported u32 /\ inrange u32 2147483649 = true /\
  round_down_to_power_of_two_template u32 2147483649 = Some 2147483648 /\
  inrange u32 4294967295 = true /\ div_ceil u32 4294967295 2 = 2147483648 /\
  inrange (prom u32) (ceil_div 4294967294 3 * 3) = true /\ round_up u32 4294967294 3 = 4294967295 /\
  supported i8 /\ inrange i8 (-128) = true /\ clz_template i8 (-128) = Some 0 /\ ctz_template i8 (-128) = Some 7.
Proof. unfold supported. cbn [In]. repeat split; try (vm_compute; reflexivity); tauto. Qed.
