(** C20 -- executable model of tlx::Aggregate<Type> (tlx/math/aggregate.hpp) in exact rational
    arithmetic (Q).  Floating-point rounding is outside the model (the correspondence run compares
    the real class over double with this model within a relative tolerance).

    [hi] / [lo] are the initial values of min_ / max_ (numeric_limits<Type>::max() / lowest()).
    count_ is modelled as an unbounded N: the sum count_ + other.count_ is assumed not to wrap (fewer than 2^64
    values in total); the product of the counts is taken in Q, as the repaired code multiplies them as doubles.

    [combine_variance] and [plus_assign] are the repaired code (fixes/C20/04, 05); the shipped
    variants are kept as [combine_variance_shipped] / [plus_assign_shipped]. *)
From Coq Require Import ZArith NArith QArith Qminmax List.
Import ListNotations.
Open Scope Q_scope.

Record agg := mkAgg { count : N; mean : Q; nvar : Q; amin : Q; amax : Q }.

Definition empty (hi lo : Q) : agg := mkAgg 0 0 0 hi lo.

(** size_t -> double *)
Definition qn (n : N) : Q := inject_Z (Z.of_N n).

(** add(value): count_++; min_/max_; delta = value - mean_; mean_ += delta / count_;
    nvar_ += delta * (value - mean_) *)
Definition add (a : agg) (v : Q) : agg :=
  let c := (count a + 1)%N in
  let mn := Qmin (amin a) v in
  let mx := Qmax (amax a) v in
  let delta := v - mean a in
  let m := mean a + delta / qn c in
  mkAgg c m (nvar a + delta * (v - m)) mn mx.

Definition combine_means (a b : agg) : Q :=
  if (count a =? 0)%N then mean b
  else if (count b =? 0)%N then mean a
  else (mean a * qn (count a) + mean b * qn (count b)) / qn (count a + count b).

(** repaired: zero counts handled as in combine_means (fixes/C20/05); the counts are multiplied as doubles
    (fixes/C20/07), i.e. the product is taken in Q, not in size_t *)
Definition combine_variance (a b : agg) : Q :=
  if (count a =? 0)%N then nvar b
  else if (count b =? 0)%N then nvar a
  else let delta := mean a - mean b in
       nvar a + nvar b + (delta * delta) * (qn (count a) * qn (count b)) / qn (count a + count b).

(** shipped: no guard; 0.0 / 0.0 = NaN is modelled as None *)
Definition combine_variance_shipped (a b : agg) : option Q :=
  if (count a + count b =? 0)%N then None
  else let delta := mean a - mean b in
       Some (nvar a + nvar b + (delta * delta) * qn (count a * count b) / qn (count a + count b)).

(** shipped: count_ * other.count_ was multiplied in size_t, i.e. modulo 2^64 *)
Definition combine_variance_wrapping (a b : agg) : Q :=
  if (count a =? 0)%N then nvar b
  else if (count b =? 0)%N then nvar a
  else let delta := mean a - mean b in
       nvar a + nvar b + (delta * delta) * qn ((count a * count b) mod 2 ^ 64) / qn (count a + count b).

(** operator+ *)
Definition plus (a b : agg) : agg :=
  mkAgg (count a + count b) (combine_means a b) (combine_variance a b)
        (Qmin (amin a) (amin b)) (Qmax (amax a) (amax b)).

Definition set_count (a : agg) (c : N) := mkAgg c (mean a) (nvar a) (amin a) (amax a).
Definition set_mean (a : agg) (m : Q) := mkAgg (count a) m (nvar a) (amin a) (amax a).
Definition set_nvar (a : agg) (v : Q) := mkAgg (count a) (mean a) v (amin a) (amax a).
Definition set_min (a : agg) (v : Q) := mkAgg (count a) (mean a) (nvar a) v (amax a).
Definition set_max (a : agg) (v : Q) := mkAgg (count a) (mean a) (nvar a) (amin a) v.

(** operator+= in the repaired statement order: nvar_, mean_, min_, max_, count_ *)
Definition plus_assign (a b : agg) : agg :=
  let a := set_nvar a (combine_variance a b) in
  let a := set_mean a (combine_means a b) in
  let a := set_min a (Qmin (amin a) (amin b)) in
  let a := set_max a (Qmax (amax a) (amax b)) in
  set_count a (count a + count b).

(** operator+= in the shipped statement order: mean_, min_, max_, nvar_, count_ *)
Definition plus_assign_shipped (a b : agg) : agg :=
  let a := set_mean a (combine_means a b) in
  let a := set_min a (Qmin (amin a) (amin b)) in
  let a := set_max a (Qmax (amax a) (amax b)) in
  let a := set_nvar a (combine_variance a b) in
  set_count a (count a + count b).

(** variance(ddof) *)
Definition variance (a : agg) (ddof : N) : Q :=
  if (count a <=? 1)%N then 0 else nvar a / qn (count a - ddof).

Definition feed (l : list Q) (a : agg) : agg := fold_left add l a.

(* ------------------------------------------------------------------ histories over variables *)
(** The correspondence harness and the main theorem work on histories over a few Aggregate
    variables (all starting empty). *)
Inductive op :=
| OAdd (i : nat) (v : Q)          (* x_i.add(v) *)
| OPlus (i j k : nat)             (* x_i = x_j + x_k *)
| OPlusAssign (i j : nat)         (* x_i += x_j *)
| OReset (i : nat)                (* x_i = Aggregate() *)
| OConst (i : nat) (c : N) (v : Q). (* x_i = Aggregate(c, v, 0.0, v, v): the initializing constructor with the fields of
                                      c copies of the value v (what deserialisation of such an Aggregate produces) *)

Fixpoint upd {A} (l : list A) (i : nat) (x : A) : list A :=
  match l, i with
  | [], _ => []
  | _ :: r, O => x :: r
  | y :: r, S j => y :: upd r j x
  end.

(** redundant normalisation of the representation of the rationals (numerically the identity,
    see AggProofs.norm_eq); keeps the extracted model fast *)
Definition norm (a : agg) : agg :=
  mkAgg (count a) (Qred (mean a)) (Qred (nvar a)) (Qred (amin a)) (Qred (amax a)).

Definition step (hi lo : Q) (s : list agg) (o : op) : list agg :=
  let e := empty hi lo in
  match o with
  | OAdd i v => upd s i (norm (add (nth i s e) v))
  | OPlus i j k => upd s i (norm (plus (nth j s e) (nth k s e)))
  | OPlusAssign i j => upd s i (norm (plus_assign (nth i s e) (nth j s e)))
  | OReset i => upd s i e
  | OConst i c v => upd s i (norm (mkAgg c v 0 v v))
  end.

Definition run (hi lo : Q) (nvars : nat) (ops : list op) : list agg :=
  fold_left (step hi lo) ops (repeat (empty hi lo) nvars).

(** the values each variable has been fed with, directly or through combination *)
Definition gstep (g : list (list Q)) (o : op) : list (list Q) :=
  match o with
  | OAdd i v => upd g i (nth i g [] ++ [v])
  | OPlus i j k => upd g i (nth j g [] ++ nth k g [])
  | OPlusAssign i j => upd g i (nth i g [] ++ nth j g [])
  | OReset i => upd g i []
  | OConst i c v => upd g i (repeat v (N.to_nat c))
  end.
Definition ghost (nvars : nat) (ops : list op) : list (list Q) :=
  fold_left gstep ops (repeat [] nvars).

(** numeric_limits<double>::max(); lowest() = - max() *)
Definition dbl_max : Q := inject_Z ((2 ^ 53 - 1) * 2 ^ 971).

(** what the harness observes of one variable: count(), mean(), variance(1), variance(0), min(), max() *)
Definition observe (a : agg) : N * (Q * (Q * (Q * (Q * Q)))) :=
  (count a, (Qred (mean a), (Qred (variance a 1), (Qred (variance a 0), (Qred (amin a), Qred (amax a)))))).

(** numeric_limits<float>::max() *)
Definition flt_max : Q := inject_Z ((2 ^ 24 - 1) * 2 ^ 104).
