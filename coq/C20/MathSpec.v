(** C20 -- mathematical definitions the helpers are compared with (independent of the model code). *)
From Coq Require Import ZArith List Bool Lia.
From TLXV Require Import C20.Math.
Import ListNotations.
Open Scope Z_scope.

(** number of leading zero bits of the w-bit pattern p (0 <= p < 2^w) *)
Definition clz_spec (w p : Z) : Z := if p =? 0 then w else w - 1 - Z.log2 p.
(** number of trailing zero bits (2-adic valuation), w for p = 0 *)
Definition ctz_spec (w p : Z) : Z := if p =? 0 then w else builtin_ctz p.
(** index + 1 of the lowest set bit, 0 for p = 0 *)
Definition ffs_spec (p : Z) : Z := if p =? 0 then 0 else builtin_ctz p + 1.

(** x is a power of two: decidable form and its meaning *)
Definition is_pow2b (x : Z) : bool := (0 <? x) && (x =? 2 ^ Z.log2 x).

Lemma is_pow2b_spec : forall x, is_pow2b x = true <-> exists k, 0 <= k /\ x = 2 ^ k.
Proof.
  intros x. unfold is_pow2b. rewrite andb_true_iff, Z.ltb_lt, Z.eqb_eq. split.
  - intros [Hp He]. exists (Z.log2 x). split; [apply Z.log2_nonneg | exact He].
  - intros [k [Hk ->]]. split; [apply Z.pow_pos_nonneg; lia |]. now rewrite Z.log2_pow2.
Qed.

(** the meaning of pctz: p = 2^(pctz p) * odd *)
Lemma pctz_spec : forall p, exists q, Zpos p = 2 ^ pctz p * (2 * q + 1) /\ 0 <= q.
Proof.
  induction p as [p IH | p IH |].
  - exists (Zpos p). cbn [pctz]. rewrite Z.pow_0_r. split; [rewrite Pos2Z.inj_xI; lia | lia].
  - destruct IH as [q [E Hq]]. exists q. cbn [pctz]. split; [| exact Hq].
    assert (Hn : 0 <= pctz p) by (clear; induction p; cbn [pctz]; lia).
    replace (1 + pctz p) with (Z.succ (pctz p)) by lia. rewrite Z.pow_succ_r by exact Hn.
    rewrite Pos2Z.inj_xO, E. ring.
  - exists 0. cbn. split; lia.
Qed.

Lemma pctz_nonneg : forall p, 0 <= pctz p.
Proof. induction p; cbn [pctz]; lia. Qed.

(** the meaning of ppop: number of indices with a set bit *)
Fixpoint count_bits (n : nat) (x : Z) : Z :=
  match n with O => 0 | S m => b2z (Z.odd x) + count_bits m (x / 2) end.

Lemma ppop_count_bits : forall p n, (Pos.size_nat p <= n)%nat -> ppop p = count_bits n (Zpos p).
Proof.
  induction p as [p IH | p IH |]; intros n Hn; (destruct n as [| n]; [cbn in Hn; lia |]); cbn [Pos.size_nat] in Hn.
  - cbn [ppop count_bits]. rewrite Pos2Z.inj_xI, (Z.add_comm (2 * Z.pos p) 1), Z.odd_add_mul_2. cbn [Z.odd b2z].
    replace ((1 + 2 * Z.pos p) / 2) with (Z.pos p) by (apply Z.div_unique with 1; lia).
    rewrite (IH n) by lia. reflexivity.
  - cbn [ppop count_bits]. rewrite Pos2Z.inj_xO.
    replace (Z.odd (2 * Z.pos p)) with false by (symmetry; rewrite <- Z.negb_even, Z.even_mul; reflexivity).
    replace (2 * Z.pos p / 2) with (Z.pos p) by (apply Z.div_unique with 0; lia).
    rewrite (IH n) by lia. cbn [b2z]. lia.
  - cbn [ppop count_bits Z.odd b2z]. replace (1 / 2) with 0 by reflexivity.
    assert (H0 : forall m, count_bits m 0 = 0) by (induction m; cbn [count_bits]; [reflexivity | rewrite Zdiv_0_l; cbn; exact IHm]).
    rewrite H0. reflexivity.
Qed.

(** ceiling of n / k characterised without division *)
Definition is_ceil_div (n k q : Z) : Prop := n <= q * k < n + k.

(** all integers lo, lo+1, ..., lo + n - 1 *)
Fixpoint zrange (lo : Z) (n : nat) : list Z :=
  match n with O => [] | S m => lo :: zrange (lo + 1) m end.

Lemma zrange_In : forall n lo x, lo <= x < lo + Z.of_nat n -> In x (zrange lo n).
Proof.
  induction n as [| n IH]; intros lo x H; [lia |].
  cbn [zrange]. destruct (Z.eq_dec lo x) as [-> | Hne]; [now left | right]. apply IH. lia.
Qed.

Definition all_values (t : ty) : list Z := zrange (tmin t) (Z.to_nat (2 ^ width t)).

Lemma all_values_In : forall t x, 0 <= width t -> inrange t x = true -> In x (all_values t).
Proof.
  intros t x Hw H. unfold inrange in H. apply andb_true_iff in H. destruct H as [H1 H2].
  apply Z.leb_le in H1, H2. apply zrange_In. rewrite Z2Nat.id by (apply Z.pow_nonneg; lia).
  unfold tmin, tmax in *. destruct (signed t).
  - assert (2 ^ width t = 2 * 2 ^ (width t - 1)).
    { destruct (Z.eq_dec (width t) 0) as [E | E].
      - exfalso. rewrite E in *. cbn in *. lia.
      - replace (width t) with (Z.succ (width t - 1)) at 1 by lia. rewrite Z.pow_succ_r by lia. reflexivity. }
    lia.
  - lia.
Qed.
