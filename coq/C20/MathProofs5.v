(** C20 -- general proofs, part 5: the SWAR popcount_generic32 / popcount_generic64 count the one bits of every
    32 / 64-bit value.  Method: a word is the base-256 number of its bytes; each SWAR stage acts on every byte
    separately (shift-and-mask never mixes bytes because the mask clears the bits shifted in; the additions never
    carry across a byte), so after three stages every byte holds the popcount of the input byte (a fact about one
    byte, swept over its 256 values); the final multiplication adds the bytes up in the top byte. *)
From Coq Require Import ZArith List Bool Lia.
From TLXV Require Import C20.Math C20.MathSpec C20.MathProofs C20.MathProofs3 C20.MathProofs4.
Import ListNotations.
Open Scope Z_scope.

(* ------------------------------------------------------------------ bytes and base-256 numbers *)
Lemma of_bytes_nonneg : forall l, Forall (fun b => 0 <= b) l -> 0 <= of_bytes l.
Proof. induction 1 as [| b r Hb Hr IH]; cbn [of_bytes]; lia. Qed.

Lemma bytes_nonneg : forall l, Forall byte l -> Forall (fun b => 0 <= b) l.
Proof. intros l H. eapply Forall_impl; [| exact H]. unfold byte. cbn. intros; lia. Qed.

Lemma of_bytes_bound : forall l, Forall byte l -> 0 <= of_bytes l < 256 ^ Z.of_nat (length l).
Proof.
  induction 1 as [| b r Hb Hr IH]; cbn [of_bytes length]; [cbn; lia |].
  rewrite Nat2Z.inj_succ, Z.pow_succ_r by lia. unfold byte in Hb. lia.
Qed.

Lemma of_to_bytes : forall n x, 0 <= x < 256 ^ Z.of_nat n -> of_bytes (to_bytes n x) = x /\ Forall byte (to_bytes n x) /\ length (to_bytes n x) = n.
Proof.
  induction n as [| n IH]; intros x Hx; cbn [to_bytes of_bytes length].
  - cbn in Hx. repeat split; [lia | constructor].
  - rewrite Nat2Z.inj_succ, Z.pow_succ_r in Hx by lia.
    assert (E := Z.div_mod x 256 ltac:(lia)). assert (M := Z.mod_pos_bound x 256 ltac:(lia)).
    destruct (IH (x / 256)) as (E1 & F1 & L1).
    { split; [apply Z.div_pos; lia | apply Z.div_lt_upper_bound; lia]. }
    rewrite E1, L1. repeat split; [lia | constructor; [exact M | exact F1]].
Qed.

Lemma testbit_split : forall a A m, byte a -> 0 <= m ->
  Z.testbit (a + 256 * A) m = if m <? 8 then Z.testbit a m else Z.testbit A (m - 8).
Proof.
  intros a A m Ha Hm. unfold byte in Ha. replace (a + 256 * A) with (A * 2 ^ 8 + a) by (change (2 ^ 8) with 256; lia).
  rewrite <- lor_disjoint_add by (change (2 ^ 8) with 256; lia).
  rewrite Z.lor_spec, <- Z.shiftl_mul_pow2, Z.shiftl_spec by lia.
  destruct (Z.ltb_spec m 8).
  - rewrite Z.testbit_neg_r by lia. reflexivity.
  - rewrite (bits_above a 8 m) by (change (2 ^ 8) with 256; lia). apply orb_false_r.
Qed.

Lemma land_byte : forall a m, byte a -> byte (Z.land a m).
Proof.
  intros a m Ha. unfold byte in *.
  assert (E : Z.land a m = Z.land a m mod 2 ^ 8).
  { rewrite <- Z.land_ones by lia. rewrite <- Z.land_assoc, (Z.land_comm m), Z.land_assoc, Z.land_ones by lia.
    rewrite (Z.mod_small a) by (change (2 ^ 8) with 256; lia). reflexivity. }
  rewrite E. change (2 ^ 8) with 256. apply Z.mod_pos_bound. lia.
Qed.

Lemma land_split : forall a0 A m0 M, byte a0 -> byte m0 ->
  Z.land (a0 + 256 * A) (m0 + 256 * M) = Z.land a0 m0 + 256 * Z.land A M.
Proof.
  intros a0 A m0 M Ha Hm. apply Z.bits_inj'. intros i Hi.
  rewrite Z.land_spec, !testbit_split by (try apply land_byte; assumption).
  destruct (i <? 8); rewrite Z.land_spec; reflexivity.
Qed.

Lemma land_low : forall a r m j, 0 <= j -> 0 <= a < 2 ^ j -> 0 <= m < 2 ^ j ->
  Z.land (a + 2 ^ j * r) m = Z.land a m.
Proof.
  intros a r m j Hj Ha Hm.
  assert (Em : m = Z.land m (Z.ones j)) by (rewrite Z.land_ones, Z.mod_small by lia; reflexivity).
  rewrite Em at 1. rewrite (Z.land_comm m), Z.land_assoc, Z.land_ones by lia.
  rewrite (Z.mul_comm (2 ^ j)), Z.mod_add, Z.mod_small by lia. reflexivity.
Qed.

Lemma shiftr_split : forall b R k, byte b -> 0 <= R -> 0 <= k <= 8 ->
  Z.shiftr (b + 256 * R) k = (Z.shiftr b k + 2 ^ (8 - k) * (R mod 2 ^ k)) + 256 * Z.shiftr R k.
Proof.
  intros b R k Hb HR Hk. rewrite !Z.shiftr_div_pow2 by lia.
  assert (P : 0 < 2 ^ k) by (apply pow2_pos; lia). assert (Q : 0 < 2 ^ (8 - k)) by (apply pow2_pos; lia).
  assert (E256 : 256 = 2 ^ (8 - k) * 2 ^ k) by (rewrite <- Z.pow_add_r by lia; replace (8 - k + k) with 8 by lia; reflexivity).
  assert (ER := Z.div_mod R (2 ^ k) ltac:(lia)).
  replace (b + 256 * R) with (b + (2 ^ (8 - k) * (R mod 2 ^ k) + 256 * (R / 2 ^ k)) * 2 ^ k).
  2: { rewrite ER at 3. rewrite E256. ring. }
  rewrite Z.div_add by lia. ring.
Qed.

(* ------------------------------------------------------------------ shift-and-mask acts byte-wise *)
Lemma of_bytes_repeat_cons : forall m n, of_bytes (repeat m (S n)) = m + 256 * of_bytes (repeat m n).
Proof. reflexivity. Qed.

Lemma shift_mask_bytes : forall k m, 0 <= k <= 8 -> 0 <= m < 2 ^ (8 - k) ->
  forall l, Forall byte l ->
  Z.land (Z.shiftr (of_bytes l) k) (of_bytes (repeat m (length l))) =
  of_bytes (map (fun b => Z.land (Z.shiftr b k) m) l).
Proof.
  intros k m Hk Hm. assert (P : 0 < 2 ^ k) by (apply pow2_pos; lia). assert (Q : 0 < 2 ^ (8 - k)) by (apply pow2_pos; lia).
  assert (E256 : 256 = 2 ^ (8 - k) * 2 ^ k) by (rewrite <- Z.pow_add_r by lia; replace (8 - k + k) with 8 by lia; reflexivity).
  assert (Hmb : byte m).
  { unfold byte. assert (2 ^ (8 - k) <= 2 ^ 8) by (apply Z.pow_le_mono_r; lia). change (2 ^ 8) with 256 in *. lia. }
  induction 1 as [| b r Hb Hr IH]; [cbn [length repeat of_bytes map]; rewrite Z.shiftr_0_l; reflexivity |].
  cbn [length map of_bytes]. rewrite of_bytes_repeat_cons.
  assert (HR : 0 <= of_bytes r) by (apply of_bytes_nonneg, bytes_nonneg; exact Hr).
  rewrite shiftr_split by assumption.
  set (rho := of_bytes r mod 2 ^ k). assert (Hrho : 0 <= rho < 2 ^ k) by (apply Z.mod_pos_bound; lia).
  assert (Hbk : 0 <= Z.shiftr b k < 2 ^ (8 - k)).
  { rewrite Z.shiftr_div_pow2 by lia. unfold byte in Hb. split; [apply Z.div_pos; lia |].
    apply Z.div_lt_upper_bound; [lia |]. rewrite Z.mul_comm, <- E256. lia. }
  rewrite land_split.
  - rewrite land_low by lia. rewrite IH. reflexivity.
  - unfold byte. nia.
  - exact Hmb.
Qed.

Lemma of_bytes_map_add : forall (f g : Z -> Z) l,
  of_bytes (map f l) + of_bytes (map g l) = of_bytes (map (fun b => f b + g b) l).
Proof. induction l as [| b r IH]; cbn [map of_bytes]; lia. Qed.
Lemma of_bytes_map_sub : forall (f g : Z -> Z) l,
  of_bytes (map f l) - of_bytes (map g l) = of_bytes (map (fun b => f b - g b) l).
Proof. induction l as [| b r IH]; cbn [map of_bytes]; lia. Qed.
Lemma map_id_Z : forall l : list Z, map (fun b => b) l = l.
Proof. induction l; cbn; congruence. Qed.

(* ------------------------------------------------------------------ the stages on one byte *)
Definition st1 (b : Z) : Z := b - Z.land (Z.shiftr b 1) 0x55.
Definition st2 (c : Z) : Z := Z.land (Z.shiftr c 0) 0x33 + Z.land (Z.shiftr c 2) 0x33.
Definition st3 (d : Z) : Z := d mod 16 + d / 16.
(** a byte whose two nibbles are at most 4 *)
Definition good (d : Z) : Prop := 0 <= d /\ d mod 16 <= 4 /\ d / 16 <= 4.

Definition byte_facts (b : Z) : bool :=
  let c := st1 b in let d := st2 c in
  (0 <=? c) && (c <? 256) && (0 <=? d) && (d mod 16 <=? 4) && (d / 16 <=? 4) &&
  (st3 d =? popcount_spec b) && (st3 d <=? 8).

Lemma byte_facts_all : forall b, byte b ->
  byte (st1 b) /\ good (st2 (st1 b)) /\ st3 (st2 (st1 b)) = popcount_spec b /\ 0 <= st3 (st2 (st1 b)) <= 8.
Proof.
  intros b Hb.
  assert (H : byte_facts b = true).
  { assert (A : forallb byte_facts bytes256 = true) by (vm_compute; reflexivity).
    rewrite forallb_forall in A. apply A. now apply byte_In. }
  unfold byte_facts in H. cbv zeta in H. rewrite !andb_true_iff in H.
  destruct H as ((((((H1 & H2) & H3) & H4) & H5) & H6) & H7).
  apply Z.leb_le in H1, H3, H4, H5, H7. apply Z.ltb_lt in H2. apply Z.eqb_eq in H6.
  unfold byte, good. assert (0 <= st3 (st2 (st1 b))).
  { unfold st3. assert (0 <= st2 (st1 b) mod 16) by (apply Z.mod_pos_bound; lia).
    assert (0 <= st2 (st1 b) / 16) by (apply Z.div_pos; lia). lia. }
  repeat split; lia.
Qed.

Lemma good_byte : forall d, good d -> byte d /\ d <= 68.
Proof. intros d (H0 & H1 & H2). unfold byte. Z.div_mod_to_equations. lia. Qed.

(* ------------------------------------------------------------------ stage 3: z + (z >> 4), masked *)
Lemma good_first_nibble : forall r, Forall good r -> 0 <= of_bytes r mod 16 <= 4.
Proof.
  intros r H. destruct H as [| d r' Hd Hr]; [cbn; lia |]. cbn [of_bytes].
  destruct Hd as (H0 & H1 & H2).
  replace (d + 256 * of_bytes r') with (d + (16 * of_bytes r') * 16) by lia. rewrite Z.mod_add by lia.
  assert (0 <= d mod 16) by (apply Z.mod_pos_bound; lia). lia.
Qed.

Lemma good_nonneg : forall l, Forall good l -> 0 <= of_bytes l.
Proof. intros l H. apply of_bytes_nonneg. eapply Forall_impl; [| exact H]. intros d (H0 & _). exact H0. Qed.

Lemma stage3_bytes : forall l, Forall good l ->
  Z.land (of_bytes l + Z.shiftr (of_bytes l) 4) (of_bytes (repeat 0x0F (length l))) = of_bytes (map st3 l).
Proof.
  induction 1 as [| d r Hd Hr IH]; [reflexivity |].
  cbn [length map of_bytes]. rewrite of_bytes_repeat_cons.
  set (R := of_bytes r) in *. assert (HR : 0 <= R) by (apply good_nonneg; exact Hr).
  assert (Hn := good_first_nibble r Hr). fold R in Hn.
  destruct (good_byte d Hd) as [Hb H68]. destruct Hd as (H0 & H1 & H2).
  rewrite !Z.shiftr_div_pow2 in * by lia. change (2 ^ 4) with 16 in *.
  assert (ER := Z.div_mod R 16 ltac:(lia)).
  replace (d + 256 * R + (d + 256 * R) / 16)
    with ((d + d / 16 + 16 * (R mod 16)) + 256 * (R + R / 16)).
  2: { replace (d + 256 * R) with (d + (16 * R) * 16) at 2 by lia. rewrite Z.div_add by lia. lia. }
  assert (Hd16 : 0 <= d / 16) by (apply Z.div_pos; lia).
  rewrite land_split; [| unfold byte; lia | unfold byte; lia].
  rewrite IH. f_equal. unfold st3. change 15 with (Z.ones 4). rewrite Z.land_ones by lia. change (2 ^ 4) with 16.
  assert (0 <= d mod 16) by (apply Z.mod_pos_bound; lia).
  clear IH ER. Z.div_mod_to_equations. lia.
Qed.

Lemma good_half_bound : forall l, Forall good l -> 2 * of_bytes l < 256 ^ Z.of_nat (length l).
Proof.
  induction 1 as [| d r Hd Hr IH]; cbn [of_bytes length]; [cbn; lia |].
  rewrite Nat2Z.inj_succ, Z.pow_succ_r by lia. destruct (good_byte d Hd). lia.
Qed.

(* ------------------------------------------------------------------ the three stages on a whole word *)
Section Word.
Variable n : nat.
Variable t : ty.
Hypothesis Ht : signed t = false.
Hypothesis Hw : 2 ^ width t = 256 ^ Z.of_nat n.

Lemma wrap_small : forall v, 0 <= v < 256 ^ Z.of_nat n -> wrapT t v = v.
Proof. intros v Hv. unfold wrapT. rewrite Ht, Hw. apply Z.mod_small. exact Hv. Qed.

(** the three stages before the final multiplication *)
Definition s1f (x : Z) : Z := wrapT t (x - Z.land (Z.shiftr x 1) (of_bytes (repeat 0x55 n))).
Definition s2f (x : Z) : Z :=
  wrapT t (Z.land x (of_bytes (repeat 0x33 n)) + Z.land (Z.shiftr x 2) (of_bytes (repeat 0x33 n))).
Definition s3f (x : Z) : Z := Z.land (wrapT t (x + Z.shiftr x 4)) (of_bytes (repeat 0x0F n)).
Definition swar3 (x : Z) : Z := s3f (s2f (s1f x)).

Lemma Forall_map_byte : forall (f : Z -> Z) (P : Z -> Prop) l,
  (forall b, byte b -> P (f b)) -> Forall byte l -> Forall P (map f l).
Proof. intros f P l H. induction 1; cbn [map]; constructor; auto. Qed.

Lemma stage1_word : forall l, Forall byte l -> Forall byte (map st1 l) -> length l = n ->
  s1f (of_bytes l) = of_bytes (map st1 l).
Proof.
  intros l Hl F1 Hn. unfold s1f.
  replace (repeat 85 n) with (repeat 85 (length l)) by (rewrite Hn; reflexivity).
  rewrite (shift_mask_bytes 1 0x55) by (cbn; (lia || assumption)).
  rewrite <- (map_id_Z l) at 1. rewrite of_bytes_map_sub. fold st1.
  apply wrap_small. rewrite <- Hn, <- (map_length st1 l). now apply of_bytes_bound.
Qed.

Lemma stage2_word : forall l, Forall byte l -> Forall byte (map st2 l) -> length l = n ->
  s2f (of_bytes l) = of_bytes (map st2 l).
Proof.
  intros l Hl F2 Hn. unfold s2f.
  replace (repeat 51 n) with (repeat 51 (length l)) by (rewrite Hn; reflexivity).
  rewrite <- (Z.shiftr_0_r (of_bytes l)) at 1.
  rewrite (shift_mask_bytes 0 0x33), (shift_mask_bytes 2 0x33) by (cbn; (lia || assumption)).
  rewrite of_bytes_map_add. fold st2.
  apply wrap_small. rewrite <- Hn, <- (map_length st2 l). now apply of_bytes_bound.
Qed.

Lemma stage3_word : forall l, Forall good l -> length l = n ->
  s3f (of_bytes l) = of_bytes (map st3 l).
Proof.
  intros l F Hn. unfold s3f.
  assert (H2 := good_half_bound l F). assert (N2 := good_nonneg l F). rewrite Hn in H2.
  rewrite wrap_small.
  2: { destruct (shiftr_le (of_bytes l) 4 N2 ltac:(lia)). lia. }
  rewrite <- Hn. now apply stage3_bytes.
Qed.

Theorem swar3_bytes : forall l, Forall byte l -> length l = n ->
  swar3 (of_bytes l) = of_bytes (map popcount_spec l) /\
  Forall (fun g => 0 <= g <= 8) (map popcount_spec l).
Proof.
  intros l Hl Hn. unfold swar3.
  assert (F1 : Forall byte (map st1 l)) by (apply Forall_map_byte; [intros b Hb; apply (byte_facts_all b Hb) | exact Hl]).
  assert (F2 : Forall good (map st2 (map st1 l))).
  { rewrite map_map. apply Forall_map_byte; [intros b Hb; apply (byte_facts_all b Hb) | exact Hl]. }
  assert (B2 : Forall byte (map st2 (map st1 l))) by (eapply Forall_impl; [| exact F2]; intros d Hd; apply (good_byte d Hd)).
  rewrite stage1_word by assumption.
  rewrite stage2_word by (try assumption; rewrite map_length; exact Hn).
  rewrite stage3_word by (try assumption; rewrite !map_length; exact Hn).
  rewrite !map_map.
  assert (E : map (fun x => st3 (st2 (st1 x))) l = map popcount_spec l).
  { clear -Hl. induction Hl as [| b r Hb Hr IH]; cbn [map]; [reflexivity |]. rewrite IH. f_equal. apply (byte_facts_all b Hb). }
  rewrite E. split; [reflexivity |].
  rewrite <- E. apply Forall_map_byte; [| exact Hl]. intros b Hb. apply (byte_facts_all b Hb).
Qed.
End Word.

(* ------------------------------------------------------------------ popcount_spec is additive over bytes *)
Lemma popcount_double : forall y beta, 0 <= y -> (beta = 0 \/ beta = 1) -> popcount_spec (2 * y + beta) = popcount_spec y + beta.
Proof.
  intros y beta Hy [-> | ->]; destruct y as [| p | p]; try lia; try reflexivity.
  - change (2 * Z.pos p + 0) with (Z.pos p~0). cbn [popcount_spec ppop]. lia.
  - change (2 * Z.pos p + 1) with (Z.pos p~1). cbn [popcount_spec ppop]. lia.
Qed.

Lemma popcount_shift : forall k a R, 0 <= k -> 0 <= a < 2 ^ k -> 0 <= R ->
  popcount_spec (a + 2 ^ k * R) = popcount_spec a + popcount_spec R.
Proof.
  intros k a R Hk. revert a R. pattern k. apply natlike_ind; [| | exact Hk]; clear k Hk.
  - intros a R Ha HR. cbn in Ha. assert (a = 0) by lia. subst a. rewrite Z.pow_0_r. replace (0 + 1 * R) with R by lia. reflexivity.
  - intros k Hk IH a R Ha HR. rewrite Z.pow_succ_r in * by lia.
    assert (Ea := Z.div_mod a 2 ltac:(lia)). assert (Ma := Z.mod_pos_bound a 2 ltac:(lia)).
    assert (Hq : 0 <= a / 2 < 2 ^ k) by (split; [apply Z.div_pos; lia | apply Z.div_lt_upper_bound; lia]).
    assert (P : 0 < 2 ^ k) by (apply pow2_pos; lia).
    replace (a + 2 * 2 ^ k * R) with (2 * (a / 2 + 2 ^ k * R) + a mod 2) by lia.
    rewrite popcount_double by (try lia; nia). rewrite IH by lia.
    assert (Epa : popcount_spec a = popcount_spec (a / 2) + a mod 2).
    { rewrite Ea at 1. apply popcount_double; lia. }
    lia.
Qed.

Lemma popcount_of_bytes : forall l, Forall byte l ->
  popcount_spec (of_bytes l) = fold_right Z.add 0 (map popcount_spec l).
Proof.
  induction 1 as [| b r Hb Hr IH]; [reflexivity |]. cbn [of_bytes map fold_right].
  change 256 with (2 ^ 8). rewrite popcount_shift; [rewrite IH; reflexivity | lia | exact Hb |].
  apply of_bytes_nonneg, bytes_nonneg. exact Hr.
Qed.

(* ------------------------------------------------------------------ the final multiplication, 32 and 64 bit *)
Lemma mask32_55 : 0x55555555 = of_bytes (repeat 0x55 4). Proof. reflexivity. Qed.
Lemma mask32_33 : 0x33333333 = of_bytes (repeat 0x33 4). Proof. reflexivity. Qed.
Lemma mask32_0F : 0x0F0F0F0F = of_bytes (repeat 0x0F 4). Proof. reflexivity. Qed.
Lemma mask64_55 : 0x5555555555555555 = of_bytes (repeat 0x55 8). Proof. reflexivity. Qed.
Lemma mask64_33 : 0x3333333333333333 = of_bytes (repeat 0x33 8). Proof. reflexivity. Qed.
Lemma mask64_0F : 0x0F0F0F0F0F0F0F0F = of_bytes (repeat 0x0F 8). Proof. reflexivity. Qed.

Lemma popcount32_as_swar3 : forall x,
  popcount_generic32 x = Z.shiftr (wrapT u32 (swar3 4 u32 x * 0x01010101)) 24.
Proof. intros x. unfold popcount_generic32, swar3. rewrite mask32_55, mask32_33, mask32_0F. reflexivity. Qed.

Lemma popcount64_as_swar3 : forall x,
  popcount_generic64 x = Z.shiftr (wrapT u64 (swar3 8 u64 x * 0x0101010101010101)) 56.
Proof. intros x. unfold popcount_generic64, swar3. rewrite mask64_55, mask64_33, mask64_0F. reflexivity. Qed.

Theorem popcount_generic32_correct : forall x, 0 <= x < 2 ^ 32 -> popcount_generic32 x = popcount_spec x.
Proof.
  intros x Hx. destruct (of_to_bytes 4 x) as (E & F & L); [change (256 ^ Z.of_nat 4) with (2 ^ 32); exact Hx |].
  set (l := to_bytes 4 x) in *. clearbody l. subst x. clear Hx.
  rewrite popcount32_as_swar3.
  destruct (swar3_bytes 4 u32 eq_refl eq_refl _ F L) as [S G]. rewrite S.
  rewrite popcount_of_bytes by exact F.
  destruct l as [| b0 [| b1 [| b2 [| b3 [| ? ?]]]]]; try discriminate L.
  cbn [map of_bytes fold_right] in *.
  inversion G as [| ? ? G0 G']; subst. inversion G' as [| ? ? G1 G'']; subst.
  inversion G'' as [| ? ? G2 G''']; subst. inversion G''' as [| ? ? G3 _]; subst.
  set (g0 := popcount_spec b0) in *. set (g1 := popcount_spec b1) in *.
  set (g2 := popcount_spec b2) in *. set (g3 := popcount_spec b3) in *.
  unfold wrapT. cbn [signed width u32]. rewrite Z.shiftr_div_pow2 by lia.
  change (2 ^ 32) with 4294967296. change (2 ^ 24) with 16777216.
  set (T := (g0) * 1 + (g0 + g1) * 256 + (g0 + g1 + g2) * 65536). set (S' := (g0 + g1 + g2 + g3)). set (Q := (g1 + g2 + g3) * 1 + (g2 + g3) * 256 + (g3) * 65536).
  assert (HT : 0 <= T < 16777216) by (unfold T; lia).
  assert (HS : 0 <= S' < 256) by (unfold S'; lia).
  match goal with |- (?GK mod _) / _ = _ =>
    assert (E1 : GK mod 4294967296 = T + S' * 16777216) by (symmetry; apply Z.mod_unique with Q; [lia | unfold T, S', Q; lia]) end.
  rewrite E1. replace (T + S' * 16777216) with (S' * 16777216 + T) by lia.
  rewrite Z.div_add_l, (Z.div_small T) by lia. unfold S'. lia.
Qed.

Theorem popcount_generic64_correct : forall x, 0 <= x < 2 ^ 64 -> popcount_generic64 x = popcount_spec x.
Proof.
  intros x Hx. destruct (of_to_bytes 8 x) as (E & F & L); [change (256 ^ Z.of_nat 8) with (2 ^ 64); exact Hx |].
  set (l := to_bytes 8 x) in *. clearbody l. subst x. clear Hx.
  rewrite popcount64_as_swar3.
  destruct (swar3_bytes 8 u64 eq_refl eq_refl _ F L) as [S G]. rewrite S.
  rewrite popcount_of_bytes by exact F.
  destruct l as [| b0 [| b1 [| b2 [| b3 [| b4 [| b5 [| b6 [| b7 [| ? ?]]]]]]]]]; try discriminate L.
  cbn [map of_bytes fold_right] in *.
  repeat match goal with H : Forall _ (_ :: _) |- _ => inversion H; clear H; subst end.
  set (g0 := popcount_spec b0) in *. set (g1 := popcount_spec b1) in *.
  set (g2 := popcount_spec b2) in *. set (g3 := popcount_spec b3) in *.
  set (g4 := popcount_spec b4) in *. set (g5 := popcount_spec b5) in *.
  set (g6 := popcount_spec b6) in *. set (g7 := popcount_spec b7) in *.
  unfold wrapT. cbn [signed width u64]. rewrite Z.shiftr_div_pow2 by lia.
  change (2 ^ 64) with 18446744073709551616. change (2 ^ 56) with 72057594037927936.
  set (T := (g0) * 1 + (g0 + g1) * 256 + (g0 + g1 + g2) * 65536 + (g0 + g1 + g2 + g3) * 16777216 + (g0 + g1 + g2 + g3 + g4) * 4294967296 + (g0 + g1 + g2 + g3 + g4 + g5) * 1099511627776 + (g0 + g1 + g2 + g3 + g4 + g5 + g6) * 281474976710656). set (S' := (g0 + g1 + g2 + g3 + g4 + g5 + g6 + g7)). set (Q := (g1 + g2 + g3 + g4 + g5 + g6 + g7) * 1 + (g2 + g3 + g4 + g5 + g6 + g7) * 256 + (g3 + g4 + g5 + g6 + g7) * 65536 + (g4 + g5 + g6 + g7) * 16777216 + (g5 + g6 + g7) * 4294967296 + (g6 + g7) * 1099511627776 + (g7) * 281474976710656).
  assert (HT : 0 <= T < 72057594037927936) by (unfold T; lia).
  assert (HS : 0 <= S' < 256) by (unfold S'; lia).
  match goal with |- (?GK mod _) / _ = _ =>
    assert (E1 : GK mod 18446744073709551616 = T + S' * 72057594037927936) by (symmetry; apply Z.mod_unique with Q; [lia | unfold T, S', Q; lia]) end.
  rewrite E1. replace (T + S' * 72057594037927936) with (S' * 72057594037927936 + T) by lia.
  rewrite Z.div_add_l, (Z.div_small T) by lia. unfold S'. lia.
Qed.
