(** C20 -- general proofs, part 2: clz / ctz / ffs templates for every width and both signednesses. *)
From Coq Require Import ZArith List Bool Lia.
From TLXV Require Import C20.Math C20.MathSpec C20.MathProofs.
Import ListNotations.
Open Scope Z_scope.

(* ------------------------------------------------------------------ the top-bit test *)
Lemma land_pow2 : forall x k, 0 <= k -> Z.land x (2 ^ k) = if Z.testbit x k then 2 ^ k else 0.
Proof.
  intros x k Hk. apply Z.bits_inj'. intros m Hm. rewrite Z.land_spec, Z.pow2_bits_eqb by exact Hk.
  destruct (Z.eqb_spec k m) as [-> | Hne].
  - destruct (Z.testbit x m) eqn:E; [rewrite Z.pow2_bits_true by exact Hm; reflexivity | rewrite Z.bits_0; reflexivity].
  - rewrite andb_false_r. destruct (Z.testbit x k); [rewrite Z.pow2_bits_false by exact Hne; reflexivity | rewrite Z.bits_0; reflexivity].
Qed.

Lemma testbit_top : forall p k, 0 <= k -> 0 <= p < 2 ^ (k + 1) -> Z.testbit p k = negb (p <? 2 ^ k).
Proof.
  intros p k Hk Hp. assert (P : 0 < 2 ^ k) by (apply pow2_pos; lia).
  rewrite Z.pow_add_r in Hp by lia. change (2 ^ 1) with 2 in Hp.
  destruct (Z.ltb_spec p (2 ^ k)) as [Hlt | Hge]; cbn [negb].
  - apply Z.testbit_false; [exact Hk |]. rewrite Z.div_small by lia. reflexivity.
  - apply Z.testbit_true; [exact Hk |]. replace (p / 2 ^ k) with 1; [reflexivity |].
    apply Z.div_unique with (p - 2 ^ k); lia.
Qed.

Lemma land_neg_pow2 : forall x k, 0 <= k -> Z.land x (- 2 ^ k) = (x / 2 ^ k) * 2 ^ k.
Proof.
  intros x k Hk. replace (- 2 ^ k) with (Z.lnot (Z.ones k)) by (unfold Z.lnot; rewrite Z.ones_equiv; lia).
  rewrite <- Z.ldiff_land, Z.ldiff_ones_r, Z.shiftl_mul_pow2, Z.shiftr_div_pow2 by exact Hk. reflexivity.
Qed.

Lemma topmask_val : forall t, wf t ->
  topmask t = if signed t && (32 <=? width t) then - 2 ^ (width t - 1) else 2 ^ (width t - 1).
Proof.
  intros t Hw. unfold topmask. unfold wf in Hw. rewrite Z.shiftl_mul_pow2, Z.mul_1_l by lia.
  assert (P : 0 < 2 ^ (width t - 1)) by (apply pow2_pos; lia).
  assert (E := pow2_double (width t) Hw).
  unfold prom. destruct (Z.ltb_spec (width t) 32) as [Hlt | Hge].
  - destruct (Z.leb_spec 32 (width t)); [lia |]. rewrite andb_false_r.
    apply wrapT_id; [unfold wf; cbn; lia |]. apply inrange_iff. unfold tmin, tmax. cbn [signed width i32].
    change (2 ^ (32 - 1)) with (2 ^ 31).
    assert (2 ^ (width t - 1) <= 2 ^ 30) by (apply Z.pow_le_mono_r; lia).
    change (2 ^ 30) with 1073741824 in *. change (2 ^ 31) with 2147483648. lia.
  - destruct (Z.leb_spec 32 (width t)); [| lia]. rewrite andb_true_r. unfold wrapT. destruct (signed t).
    + replace (2 ^ (width t - 1) + 2 ^ (width t - 1)) with (2 ^ width t) by lia.
      rewrite Z.mod_same by lia. lia.
    + apply Z.mod_small. lia.
Qed.

Lemma topmask_test : forall t x, wf t -> inrange t x = true ->
  (Z.land x (topmask t) =? 0) = (pattern t x <? 2 ^ (width t - 1)).
Proof.
  intros t x Hw Hr. rewrite topmask_val by exact Hw. unfold wf in Hw.
  assert (P : 0 < 2 ^ (width t - 1)) by (apply pow2_pos; lia).
  assert (E := pow2_double (width t) Hw).
  assert (Bp : 0 <= pattern t x < 2 ^ width t) by (unfold pattern; apply Z.mod_pos_bound; lia).
  destruct (signed t && (32 <=? width t)) eqn:Hc.
  - (* mask = -2^(w-1), signed *)
    apply andb_true_iff in Hc. destruct Hc as [Hs _].
    rewrite land_neg_pow2 by lia. apply inrange_iff in Hr. unfold tmin, tmax in Hr. rewrite Hs in Hr.
    unfold pattern. destruct (Z.lt_ge_cases x 0) as [Hneg | Hpos].
    + replace (x / 2 ^ (width t - 1)) with (-1) by (apply Z.div_unique with (x + 2 ^ (width t - 1)); lia).
      replace (x mod 2 ^ width t) with (x + 2 ^ width t) by (apply Z.mod_unique with (-1); lia).
      destruct (Z.eqb_spec (-1 * 2 ^ (width t - 1)) 0); [lia |].
      destruct (Z.ltb_spec (x + 2 ^ width t) (2 ^ (width t - 1))); [lia | reflexivity].
    + rewrite Z.div_small, Z.mod_small by lia. cbn.
      destruct (Z.ltb_spec x (2 ^ (width t - 1))); [reflexivity | lia].
  - rewrite land_pow2 by lia.
    assert (Tb : Z.testbit x (width t - 1) = Z.testbit (pattern t x) (width t - 1)).
    { unfold pattern. symmetry. apply Z.mod_pow2_bits_low. lia. }
    rewrite Tb, (testbit_top (pattern t x) (width t - 1)) by (try lia; replace (width t - 1 + 1) with (width t) by lia; exact Bp).
    destruct (Z.ltb_spec (pattern t x) (2 ^ (width t - 1))); cbn [negb].
    + reflexivity.
    + destruct (Z.eqb_spec (2 ^ (width t - 1)) 0); [lia | reflexivity].
Qed.

Lemma pattern_zero : forall t x, wf t -> inrange t x = true -> pattern t x = 0 -> x = 0.
Proof.
  intros t x Hw Hr Hp. unfold pattern in Hp. unfold wf in Hw.
  assert (P : 0 < 2 ^ width t) by (apply pow2_pos; lia).
  apply Z.mod_divide in Hp; [| lia]. destruct Hp as [z Hz].
  apply inrange_iff in Hr. assert (B := tmax_lt_pow t Hw). assert (E := pow2_double (width t) Hw).
  assert (B2 : - 2 ^ width t < tmin t).
  { unfold tmin. destruct (signed t); [| lia]. assert (0 < 2 ^ (width t - 1)) by (apply pow2_pos; lia). lia. }
  assert (z = 0) by nia. subst z. lia.
Qed.

(* ------------------------------------------------------------------ clz *)
Lemma clz_loop_ok : forall t, wf t -> forall fuel x r,
  inrange t x = true -> 0 < pattern t x ->
  width t - 1 - Z.log2 (pattern t x) < Z.of_nat fuel ->
  clz_loop fuel t x r = Some (r + (width t - 1 - Z.log2 (pattern t x))).
Proof.
  intros t Hw. assert (Hw' := Hw). unfold wf in Hw'.
  assert (P : 0 < 2 ^ (width t - 1)) by (apply pow2_pos; lia).
  assert (E := pow2_double (width t) Hw).
  induction fuel as [| f IH]; intros x r Hr Hp Hf.
  - exfalso. assert (Bp : pattern t x < 2 ^ width t) by (unfold pattern; apply Z.mod_pos_bound; lia).
    apply Z.log2_lt_pow2 in Bp; [| exact Hp]. cbn in Hf. lia.
  - cbn [clz_loop]. rewrite topmask_test by assumption.
    assert (Bp : pattern t x < 2 ^ width t) by (unfold pattern; apply Z.mod_pos_bound; lia).
    destruct (Z.ltb_spec (pattern t x) (2 ^ (width t - 1))) as [Hlt | Hge].
    + assert (Hp' : pattern t (wrapT t (Z.shiftl x 1)) = 2 * pattern t x).
      { rewrite pattern_wrapT by exact Hw. rewrite Z.shiftl_mul_pow2 by lia. change (2 ^ 1) with 2.
        unfold pattern. rewrite (Z.mul_comm x 2), <- Z.mul_mod_idemp_r by lia.
        apply Z.mod_small. unfold pattern in Hp, Hlt. lia. }
      rewrite IH.
      * rewrite Hp', Z.log2_double by exact Hp. f_equal. lia.
      * now apply wrapT_inrange.
      * rewrite Hp'. lia.
      * rewrite Hp', Z.log2_double by exact Hp. lia.
    + assert (L : Z.log2 (pattern t x) = width t - 1).
      { apply Z.log2_unique; [lia |]. replace (Z.succ (width t - 1)) with (width t) by lia. lia. }
      rewrite L. f_equal. lia.
Qed.

Theorem clz_template_correct : forall t x, wf t -> inrange t x = true ->
  clz_template t x = Some (clz_spec (width t) (pattern t x)).
Proof.
  intros t x Hw Hr. unfold clz_template, clz_spec. unfold wf in Hw.
  destruct (Z.eqb_spec x 0) as [-> | Hx].
  - unfold pattern. rewrite Z.mod_0_l by (assert (0 < 2 ^ width t) by (apply pow2_pos; lia); lia). reflexivity.
  - assert (Hp : pattern t x <> 0) by (intros E; apply Hx; now apply (pattern_zero t)).
    destruct (Z.eqb_spec (pattern t x) 0); [contradiction |].
    assert (Bp : 0 <= pattern t x < 2 ^ width t) by (unfold pattern; apply Z.mod_pos_bound; apply pow2_pos; lia).
    rewrite clz_loop_ok; [f_equal; lia | exact Hw | exact Hr | lia |].
    rewrite Nat2Z.inj_succ, Z2Nat.id by lia. assert (0 <= Z.log2 (pattern t x)) by apply Z.log2_nonneg. lia.
Qed.

Theorem clz_intrinsic_correct : forall t x, clz_intrinsic t x = clz_spec (width t) (pattern t x).
Proof. reflexivity. Qed.

(** the meaning of clz_spec: the pattern fits into w - clz bits and not into fewer *)
Lemma clz_spec_meaning : forall w p, 0 < w -> 0 <= p < 2 ^ w ->
  let c := clz_spec w p in
  0 <= c <= w /\ p < 2 ^ (w - c) /\ (c < w -> 2 ^ (w - c - 1) <= p).
Proof.
  intros w p Hw Hp c. subst c. unfold clz_spec. destruct (Z.eqb_spec p 0) as [-> | Hne].
  - replace (w - w) with 0 by lia. cbn. lia.
  - assert (Hpos : 0 < p) by lia. destruct (Z.log2_spec p Hpos) as [L1 L2].
    assert (L3 : Z.log2 p < w) by (apply Z.log2_lt_pow2; lia). assert (0 <= Z.log2 p) by apply Z.log2_nonneg.
    replace (w - (w - 1 - Z.log2 p) - 1) with (Z.log2 p) by lia.
    replace (w - (w - 1 - Z.log2 p)) with (Z.succ (Z.log2 p)) by lia. lia.
Qed.

(* ------------------------------------------------------------------ ctz / ffs *)
Lemma land_1 : forall x, Z.land x 1 = x mod 2.
Proof. intros x. change 1 with (Z.ones 1) at 1. rewrite Z.land_ones by lia. reflexivity. Qed.

Lemma inrange_half : forall t x, wf t -> inrange t x = true -> inrange t (x / 2) = true.
Proof.
  intros t x Hw Hr. apply inrange_iff in Hr. apply inrange_iff.
  assert (B := tmin_nonpos t Hw). assert (E := Z.div_mod x 2 ltac:(lia)). assert (M := Z.mod_pos_bound x 2 ltac:(lia)).
  assert (0 <= tmax t). { unfold tmax. unfold wf in Hw. destruct (signed t).
    - assert (0 < 2 ^ (width t - 1)) by (apply pow2_pos; lia). lia.
    - assert (0 < 2 ^ width t) by (apply pow2_pos; lia). lia. }
  lia.
Qed.

Lemma ctz_loop_ok : forall t, wf t -> forall c, 0 <= c -> forall fuel x r,
  inrange t x = true -> (2 ^ c | x) -> ~ (2 ^ (c + 1) | x) -> c < Z.of_nat fuel ->
  ctz_loop fuel t x r = Some (r + c).
Proof.
  intros t Hw c Hc. pattern c. apply natlike_ind; [| | exact Hc]; clear c Hc.
  - intros fuel x r Hr _ Hn Hf. destruct fuel as [| f]; [cbn in Hf; lia |].
    cbn [ctz_loop]. rewrite land_1. destruct (Z.eqb_spec (x mod 2) 0) as [E | E].
    + exfalso. apply Hn. change (2 ^ (0 + 1)) with 2. apply Z.mod_divide; [lia | exact E].
    + f_equal. lia.
  - intros c Hc IH fuel x r Hr Hd Hn Hf. destruct fuel as [| f]; [cbn in Hf; lia |].
    cbn [ctz_loop]. rewrite land_1.
    assert (P : 0 < 2 ^ c) by (apply pow2_pos; lia).
    destruct Hd as [m Hm]. rewrite Z.pow_succ_r in Hm by exact Hc.
    assert (Ex : x = 2 * (m * 2 ^ c)) by lia.
    assert (E0 : x mod 2 = 0) by (rewrite Ex, Z.mul_comm; apply Z.mod_mul; lia).
    rewrite E0. cbn [Z.eqb].
    assert (Eh : x / 2 = m * 2 ^ c) by (rewrite Ex, Z.mul_comm; apply Z.div_mul; lia).
    rewrite Z.shiftr_div_pow2 by lia. change (2 ^ 1) with 2.
    rewrite wrapT_id by (try assumption; now apply inrange_half).
    rewrite IH.
    + f_equal. lia.
    + now apply inrange_half.
    + exists m. exact Eh.
    + intros [z Hz]. apply Hn. exists z. rewrite Eh in Hz.
      replace (Z.succ c + 1) with (Z.succ (c + 1)) by lia. rewrite Z.pow_succ_r by lia. lia.
    + rewrite Nat2Z.inj_succ in Hf. lia.
Qed.

Lemma pattern_valuation : forall t x, wf t -> inrange t x = true -> 0 < pattern t x ->
  let c := builtin_ctz (pattern t x) in
  0 <= c < width t /\ (2 ^ c | x) /\ ~ (2 ^ (c + 1) | x).
Proof.
  intros t x Hw Hr Hp c. unfold wf in Hw. assert (Pw : 0 < 2 ^ width t) by (apply pow2_pos; lia).
  assert (Bp : pattern t x < 2 ^ width t) by (unfold pattern; apply Z.mod_pos_bound; lia).
  assert (Ex : x = 2 ^ width t * (x / 2 ^ width t) + pattern t x) by (unfold pattern; apply Z.div_mod; lia).
  destruct (pattern t x) as [| q | q] eqn:Eq; try lia. subst c. cbn [builtin_ctz].
  destruct (pctz_spec q) as [m [Hm Hm0]]. assert (Hc := pctz_nonneg q). set (c := pctz q) in *.
  assert (Pc : 0 < 2 ^ c) by (apply pow2_pos; lia).
  assert (Hcw : c < width t).
  { apply (Z.pow_lt_mono_r_iff 2); [lia | lia |]. nia. }
  split; [lia |].
  assert (Ew : 2 ^ width t = 2 ^ c * 2 ^ (width t - c)) by (rewrite <- Z.pow_add_r by lia; f_equal; lia).
  split.
  - exists (2 ^ (width t - c) * (x / 2 ^ width t) + (2 * m + 1)). rewrite Ex at 1. rewrite Ew, Hm. ring.
  - intros [z Hz]. rewrite Z.pow_add_r in Hz by lia. change (2 ^ 1) with 2 in Hz.
    assert (Ew2 : 2 ^ width t = 2 * 2 ^ c * 2 ^ (width t - c - 1)).
    { rewrite <- (Z.pow_succ_r 2 c) by lia. rewrite <- Z.pow_add_r by lia. f_equal. lia. }
    rewrite Ex in Hz. rewrite Hm in Hz. rewrite Ew2 in Hz.
    assert (2 * m + 1 = 2 * (z - 2 ^ (width t - c - 1) * (x / (2 * 2 ^ c * 2 ^ (width t - c - 1))))) by nia.
    lia.
Qed.

Theorem ctz_template_correct : forall t x, wf t -> inrange t x = true ->
  ctz_template t x = Some (ctz_spec (width t) (pattern t x)).
Proof.
  intros t x Hw Hr. unfold ctz_template, ctz_spec. assert (Hw' := Hw). unfold wf in Hw'.
  destruct (Z.eqb_spec x 0) as [-> | Hx].
  - unfold pattern. rewrite Z.mod_0_l by (assert (0 < 2 ^ width t) by (apply pow2_pos; lia); lia). reflexivity.
  - assert (Hp : pattern t x <> 0) by (intros E; apply Hx; now apply (pattern_zero t)).
    destruct (Z.eqb_spec (pattern t x) 0); [contradiction |].
    assert (Bp : 0 <= pattern t x) by (unfold pattern; apply Z.mod_pos_bound; apply pow2_pos; lia).
    destruct (pattern_valuation t x Hw Hr ltac:(lia)) as (Hc & Hd & Hn).
    rewrite (ctz_loop_ok t Hw (builtin_ctz (pattern t x))); try assumption; try lia.
    reflexivity.
Qed.

Theorem ffs_template_correct : forall t x, wf t -> inrange t x = true ->
  ffs_template t x = Some (ffs_spec (pattern t x)).
Proof.
  intros t x Hw Hr. unfold ffs_template, ffs_spec. assert (Hw' := Hw). unfold wf in Hw'.
  destruct (Z.eqb_spec x 0) as [-> | Hx].
  - unfold pattern. rewrite Z.mod_0_l by (assert (0 < 2 ^ width t) by (apply pow2_pos; lia); lia). reflexivity.
  - assert (Hp : pattern t x <> 0) by (intros E; apply Hx; now apply (pattern_zero t)).
    destruct (Z.eqb_spec (pattern t x) 0); [contradiction |].
    assert (Bp : 0 <= pattern t x) by (unfold pattern; apply Z.mod_pos_bound; apply pow2_pos; lia).
    destruct (pattern_valuation t x Hw Hr ltac:(lia)) as (Hc & Hd & Hn).
    rewrite (ctz_loop_ok t Hw (builtin_ctz (pattern t x))); try assumption; try lia.
    f_equal. lia.
Qed.

Theorem ctz_intrinsic_correct : forall t x, ctz_intrinsic t x = ctz_spec (width t) (pattern t x).
Proof. reflexivity. Qed.
Theorem ffs_intrinsic_correct : forall t x, ffs_intrinsic t x = ffs_spec (pattern t x).
Proof. reflexivity. Qed.

(** the meaning of ctz_spec on a non-zero pattern: 2^c divides p, 2^(c+1) does not *)
Lemma ctz_spec_meaning : forall w p, 0 < p ->
  let c := ctz_spec w p in 0 <= c /\ (2 ^ c | p) /\ ~ (2 ^ (c + 1) | p).
Proof.
  intros w p Hp c. subst c. unfold ctz_spec. destruct (Z.eqb_spec p 0); [lia |].
  destruct p as [| q | q]; try lia. cbn [builtin_ctz].
  destruct (pctz_spec q) as [m [Hm Hm0]]. assert (Hc := pctz_nonneg q). set (c := pctz q) in *.
  assert (Pc : 0 < 2 ^ c) by (apply pow2_pos; lia).
  split; [lia |]. split.
  - exists (2 * m + 1). rewrite Hm. ring.
  - intros [z Hz]. rewrite Z.pow_add_r in Hz by lia. change (2 ^ 1) with 2 in Hz. rewrite Hm in Hz.
    assert (2 * m + 1 = 2 * z) by nia. lia.
Qed.
