(** C13 — proofs about the DAryAddressableIntHeap model.
    1. The heap_ component of the class's own sift_up / sift_down / heapify is DAry's (so heap order, multiset and
       top-is-minimum are inherited from DAryProofs.v).
    2. Handle invariant: handles_[heap_[i]] = i for every position, and handles_[key] <> not_present only for stored
       keys; preserved by the sift loops, push, clear; established by the repaired heapify (given the max_key bound).
    3. The shipped heapify (704fd0b) violates it: concrete witness. *)
From Coq Require Import List Arith Lia Bool Sorting.Permutation FinFun.
From TLXV Require Import Common.Order C13.DAry C13.DAryProofs C13.Addr.
Import ListNotations.

Section AddrProofs.
  Variable ltb : nat -> nat -> bool.
  Variable d : nat.
  Variable np : nat.
  Hypothesis HS : SWO ltb.
  Hypothesis Hd : 1 <= d.

  Notation get := (DAry.get 0).
  Notation parent := (DAry.parent d).
  Notation left := (DAry.left d).

  (** ** 1. projections onto the plain d-ary heap *)
  Lemma asift_up_loop_proj : forall f h hd k v,
    let '(h', _, k') := asift_up_loop ltb d f h hd k v in sift_up_loop ltb d 0 f h k v = (h', k').
  Proof.
    induction f as [|f IH]; intros h hd k v; cbn [asift_up_loop sift_up_loop]; auto.
    destruct ((0 <? k) && negb (ltb (get h (parent k)) v)); auto. apply IH.
  Qed.

  Lemma asift_up_heap a k : fst (asift_up ltb d a k) = sift_up ltb d 0 (fst a) k.
  Proof.
    destruct a as [h hd]. unfold asift_up, sift_up. simpl fst.
    pose proof (asift_up_loop_proj k h hd k (get h k)) as P.
    destruct (asift_up_loop ltb d k h hd k (get h k)) as [[h' hd'] k']. now rewrite P.
  Qed.

  Lemma asift_down_loop_proj : forall f h hd k v,
    let '(h', _, k') := asift_down_loop ltb d f h hd k v in sift_down_loop ltb d 0 f h k v = (h', k').
  Proof.
    induction f as [|f IH]; intros h hd k v; cbn [asift_down_loop sift_down_loop]; auto.
    destruct (length h <=? left k); auto.
    destruct (negb (ltb (get h (min_child ltb d 0 h (left k))) v)); auto. apply IH.
  Qed.

  Lemma asift_down_heap a k : fst (asift_down ltb d a k) = sift_down ltb d 0 (fst a) k.
  Proof.
    destruct a as [h hd]. unfold asift_down, sift_down. simpl fst.
    pose proof (asift_down_loop_proj (length h) h hd k (get h k)) as P.
    destruct (asift_down_loop ltb d (length h) h hd k (get h k)) as [[h' hd'] k']. now rewrite P.
  Qed.

  Lemma amin_fold h js : forall c mk,
    fst (fold_left (fun (cm : nat * nat) j =>
                      let '(c, m) := cm in
                      ((if ltb (get h j) (get h c) then j else c), Nat.max m (get h j))) js (c, mk))
    = fold_left (fun c j => if ltb (get h j) (get h c) then j else c) js c.
  Proof. induction js as [|j js IH]; intros c mk; simpl; auto. Qed.

  Lemma amin_child_fst h l mk : fst (amin_child ltb d h l mk) = min_child ltb d 0 h l.
  Proof. unfold amin_child, min_child. apply amin_fold. Qed.

  Lemma ahfy_inner_proj : forall f h cur v li mk,
    let '(h', c', _) := ahfy_inner ltb d f h cur v li mk in hfy_inner ltb d 0 f h cur v li = (h', c').
  Proof.
    induction f as [|f IH]; intros h cur v li mk; cbn [ahfy_inner hfy_inner]; auto.
    pose proof (amin_child_fst h (left cur) (Nat.max mk (get h (left cur)))) as E.
    destruct (amin_child ltb d h (left cur) (Nat.max mk (get h (left cur)))) as [m mk2]. simpl in E. subst m.
    destruct (ltb (get h (min_child ltb d 0 h (left cur))) v); auto.
    destruct (min_child ltb d 0 h (left cur) <=? li); auto. apply IH.
  Qed.

  Lemma ahfy_node_fst li st cur : fst (ahfy_node ltb d li st cur) = hfy_node ltb d 0 li (fst st) cur.
  Proof.
    destruct st as [h mk]. unfold ahfy_node, hfy_node. simpl fst.
    pose proof (ahfy_inner_proj (length h) h cur (get h cur) li (Nat.max mk (get h cur))) as P.
    destruct (ahfy_inner ltb d (length h) h cur (get h cur) li (Nat.max mk (get h cur))) as [[h' c'] mk'].
    now rewrite P.
  Qed.

  Lemma fold_ahfy_fst li is st :
    fst (fold_left (ahfy_node ltb d li) is st) = fold_left (hfy_node ltb d 0 li) is (fst st).
  Proof. revert st; induction is as [|i is IH]; intros st; simpl; auto. now rewrite IH, ahfy_node_fst. Qed.

  Lemma aheapify_loops_fst h : fst (aheapify_loops ltb d h) = DAry.heapify ltb d 0 h.
  Proof.
    unfold aheapify_loops, DAry.heapify. destruct (2 <=? length h); auto. now rewrite fold_ahfy_fst.
  Qed.

  Lemma heapify_heap a : fst (Addr.heapify ltb d np a) = DAry.heapify ltb d 0 (fst a).
  Proof.
    destruct a as [h hd]. unfold Addr.heapify. simpl fst. rewrite <- aheapify_loops_fst.
    destruct (aheapify_loops ltb d h); reflexivity.
  Qed.

  (** ** 2. the handle invariant *)
  Definition HFx (hv hd : list nat) (k : nat) : Prop :=
    forall i, i < length hv -> i <> k -> get hv i < length hd /\ get hd (get hv i) = i.
  Definition HF (hv hd : list nat) : Prop :=
    forall i, i < length hv -> get hv i < length hd /\ get hd (get hv i) = i.
  Definition HB (hv hd : list nat) : Prop :=
    forall key, key < length hd -> get hd key <> np -> In key hv.

  Lemma nodup_get (hv : list nat) i j : NoDup hv -> i < length hv -> j < length hv -> get hv i = get hv j -> i = j.
  Proof. intros ND. apply (proj1 (NoDup_nth hv 0) ND). Qed.

  (** one element moved into the hole at k from position c, handles_[moved] = k *)
  Lemma handle_step hv hv1 hd k c :
    SwapRel 0 hv hv1 k c -> k <> c -> k < length hv -> c < length hv -> NoDup hv ->
    HFx hv hd k -> HB hv hd ->
    HFx hv1 (upd hd (get hv c) k) c /\ HB hv1 (upd hd (get hv c) k) /\ NoDup hv1.
  Proof.
    intros SR Nkc Hk Hc ND HX HBk.
    pose proof (swaprel_perm d 0 Hd hv hv1 k c Hk Hc SR) as P.
    destruct SR as (L & Ek & Ec & Eo).
    destruct (HX c Hc ltac:(lia)) as [Bc Ecc].
    repeat split.
    - rewrite upd_length. destruct (Nat.eq_dec i k) as [->|N]; [now rewrite Ek|].
      rewrite Eo by auto. apply HX; auto; lia.
    - rewrite L in H. destruct (Nat.eq_dec i k) as [->|N].
      + rewrite Ek. unfold DAry.get. now rewrite nth_upd_eq.
      + rewrite Eo by auto. unfold DAry.get at 1. rewrite nth_upd_neq.
        * apply HX; auto.
        * intros E. apply N. symmetry in E. apply (nodup_get hv) in E; auto. lia.
    - intros key Hkey Hne. rewrite upd_length in Hkey.
      destruct (Nat.eq_dec key (get hv c)) as [->|N].
      + rewrite <- Ek. apply nth_In. lia.
      + unfold DAry.get in Hne. rewrite nth_upd_neq in Hne by auto.
        apply (Permutation_in _ (Permutation_sym P)). apply HBk; auto.
    - apply (Permutation_NoDup (Permutation_sym P) ND).
  Qed.

  (** the final write handles_[value] = k *)
  Lemma handle_final hv hd k :
    k < length hv -> NoDup hv -> get hv k < length hd -> HFx hv hd k -> HB hv hd ->
    HF hv (upd hd (get hv k) k) /\ HB hv (upd hd (get hv k) k).
  Proof.
    intros Hk ND Bk HX HBk. split.
    - intros i Hi. rewrite upd_length. destruct (Nat.eq_dec i k) as [->|N].
      + split; auto. unfold DAry.get. now rewrite nth_upd_eq.
      + destruct (HX i Hi N) as [A B]. split; auto. unfold DAry.get at 1. rewrite nth_upd_neq; auto.
        intros E. apply N. symmetry in E. apply (nodup_get hv) in E; auto.
    - intros key Hkey Hne. rewrite upd_length in Hkey.
      destruct (Nat.eq_dec key (get hv k)) as [->|N]; [apply nth_In; auto|].
      unfold DAry.get in Hne. rewrite nth_upd_neq in Hne by auto. apply HBk; auto.
  Qed.

  Lemma get_upd_eq (h : list nat) k v : k < length h -> get (upd h k v) k = v.
  Proof. intros. unfold DAry.get. now rewrite nth_upd_eq. Qed.
  Lemma get_upd_neq (h : list nat) k j v : k <> j -> get (upd h k v) j = get h j.
  Proof. intros. unfold DAry.get. now rewrite nth_upd_neq. Qed.

  Lemma asift_up_loop_handles : forall f h hd k v,
    k < length h -> NoDup (upd h k v) -> v < length hd ->
    HFx (upd h k v) hd k -> HB (upd h k v) hd ->
    let '(h', hd', k') := asift_up_loop ltb d f h hd k v in
    HF (upd h' k' v) (upd hd' v k') /\ HB (upd h' k' v) (upd hd' v k') /\ length (upd hd' v k') = length hd.
  Proof.
    induction f as [|f IH]; intros h hd k v Hk ND Bv HX HBk; cbn [asift_up_loop].
    - pose proof (handle_final (upd h k v) hd k) as F. rewrite upd_length, get_upd_eq in F by auto.
      destruct F; auto. now rewrite upd_length.
    - destruct ((0 <? k) && negb (ltb (get h (parent k)) v)) eqn:C.
      + apply andb_true_iff in C. destruct C as [C1 _]. apply Nat.ltb_lt in C1.
        pose proof (parent_lt d Hd k C1) as Pk.
        pose proof (hole_step 0 h k (parent k) v ltac:(lia) Hk ltac:(lia)) as SR.
        destruct (handle_step _ _ hd k (parent k) SR) as (A & B & C); auto; try (rewrite upd_length; lia); try lia.
        rewrite (get_upd_neq h k (parent k) v) in A, B by lia.
        rewrite get_upd_eq by auto.
        specialize (IH (upd h k (get h (parent k))) (upd hd (get h (parent k)) k) (parent k) v).
        rewrite !upd_length in IH. specialize (IH ltac:(lia) C Bv A B).
        destruct (asift_up_loop ltb d f (upd h k (get h (parent k))) (upd hd (get h (parent k)) k) (parent k) v)
          as [[h' hd'] k']. exact IH.
      + pose proof (handle_final (upd h k v) hd k) as F. rewrite upd_length, get_upd_eq in F by auto.
        destruct F; auto. now rewrite upd_length.
  Qed.

  Lemma asift_down_loop_handles : forall f h hd k v,
    k < length h -> NoDup (upd h k v) -> v < length hd ->
    HFx (upd h k v) hd k -> HB (upd h k v) hd ->
    let '(h', hd', k') := asift_down_loop ltb d f h hd k v in
    HF (upd h' k' v) (upd hd' v k') /\ HB (upd h' k' v) (upd hd' v k') /\ length (upd hd' v k') = length hd.
  Proof.
    induction f as [|f IH]; intros h hd k v Hk ND Bv HX HBk; cbn [asift_down_loop].
    - pose proof (handle_final (upd h k v) hd k) as F. rewrite upd_length, get_upd_eq in F by auto.
      destruct F; auto. now rewrite upd_length.
    - destruct (length h <=? left k) eqn:C0.
      + pose proof (handle_final (upd h k v) hd k) as F. rewrite upd_length, get_upd_eq in F by auto.
        destruct F; auto. now rewrite upd_length.
      + apply Nat.leb_gt in C0.
        destruct (min_child_children ltb d 0 HS Hd h k C0) as (Hc & Pc & Hkc & _).
        set (c := min_child ltb d 0 h (left k)) in *.
        destruct (negb (ltb (get h c) v)).
        * pose proof (handle_final (upd h k v) hd k) as F. rewrite upd_length, get_upd_eq in F by auto.
          destruct F; auto. now rewrite upd_length.
        * pose proof (hole_step 0 h k c v ltac:(lia) Hk ltac:(lia)) as SR.
          destruct (handle_step _ _ hd k c SR) as (A & B & C); auto; try (rewrite upd_length; lia); try lia.
          rewrite (get_upd_neq h k c v) in A, B by lia.
          rewrite get_upd_eq by auto.
          specialize (IH (upd h k (get h c)) (upd hd (get h c) k) c v).
          rewrite !upd_length in IH. specialize (IH ltac:(lia) C Bv A B).
          destruct (asift_down_loop ltb d f (upd h k (get h c)) (upd hd (get h c) k) c v) as [[h' hd'] k'].
          exact IH.
  Qed.

  Lemma upd_get_same (h : list nat) k : upd h k (get h k) = h.
  Proof. apply upd_same. Qed.

  Lemma asift_up_handles h hd k : k < length h -> NoDup h -> get h k < length hd -> HFx h hd k -> HB h hd ->
    HF (fst (asift_up ltb d (h, hd) k)) (snd (asift_up ltb d (h, hd) k)) /\
    HB (fst (asift_up ltb d (h, hd) k)) (snd (asift_up ltb d (h, hd) k)) /\
    length (snd (asift_up ltb d (h, hd) k)) = length hd.
  Proof.
    intros Hk ND Bk HX HBk. unfold asift_up.
    pose proof (asift_up_loop_handles k h hd k (get h k) Hk) as L. rewrite upd_get_same in L.
    specialize (L ND Bk HX HBk).
    destruct (asift_up_loop ltb d k h hd k (get h k)) as [[h' hd'] k']. exact L.
  Qed.

  Lemma asift_down_handles h hd k : k < length h -> NoDup h -> get h k < length hd -> HFx h hd k -> HB h hd ->
    HF (fst (asift_down ltb d (h, hd) k)) (snd (asift_down ltb d (h, hd) k)) /\
    HB (fst (asift_down ltb d (h, hd) k)) (snd (asift_down ltb d (h, hd) k)) /\
    length (snd (asift_down ltb d (h, hd) k)) = length hd.
  Proof.
    intros Hk ND Bk HX HBk. unfold asift_down.
    pose proof (asift_down_loop_handles (length h) h hd k (get h k) Hk) as L. rewrite upd_get_same in L.
    specialize (L ND Bk HX HBk).
    destruct (asift_down_loop ltb d (length h) h hd k (get h k)) as [[h' hd'] k']. exact L.
  Qed.

  (** the full invariant of the class *)
  Definition AInv (a : aheap) : Prop :=
    HeapInv ltb d 0 (fst a) /\ NoDup (fst a) /\ (forall x, In x (fst a) -> x < np) /\
    HF (fst a) (snd a) /\ HB (fst a) (snd a).

  (** positions are below not_present: the narrowing conversion of a position to key_type is exact *)
  Lemma positions_fit a : AInv a -> length (fst a) <= np.
  Proof.
    intros (_ & ND & B & _). rewrite <- (seq_length np 0).
    apply NoDup_incl_length; auto. intros x Hx. apply in_seq. specialize (B x Hx). lia.
  Qed.

  (** membership queries reflect exactly the contents *)
  Theorem contains_iff a key : AInv a -> (contains np a key = true <-> In key (fst a)).
  Proof.
    intros I. pose proof (positions_fit a I) as PF. destruct I as (_ & ND & B & F & Bk).
    destruct a as [h hd]. simpl in *. split.
    - destruct (key <? length hd) eqn:E; [|discriminate]. apply Nat.ltb_lt in E.
      intros C. apply negb_true_iff, Nat.eqb_neq in C. now apply Bk.
    - intros Hin. destruct (In_nth _ _ 0 Hin) as (i & Hi & <-).
      destruct (F i Hi) as [A E]. fold (get h i). apply Nat.ltb_lt in A. rewrite A.
      rewrite E. apply negb_true_iff, Nat.eqb_neq. lia.
  Qed.

  Lemma nth_repeat_lt {A} (a dd : A) m n : n < m -> nth n (repeat a m) dd = a.
  Proof. revert n; induction m as [|m IH]; intros [|n] H; simpl; auto; try lia. apply IH; lia. Qed.

  Lemma AInv_empty n : AInv ([], repeat np n).
  Proof.
    unfold AInv. cbn [fst snd]. refine (conj _ (conj _ (conj _ (conj _ _)))).
    - intros j Hj. simpl in Hj. lia.
    - constructor.
    - intros x [].
    - intros i Hi. simpl in Hi. lia.
    - intros key Hk Hne. exfalso. apply Hne. unfold DAry.get. rewrite repeat_length in Hk.
      now apply nth_repeat_lt.
  Qed.

  Theorem clear_ok a : AInv (clear np a).
  Proof. apply AInv_empty. Qed.

  (** push(key) for a key that is not stored *)
  Theorem push_ok a key : AInv a -> ~ In key (fst a) -> key < np ->
    AInv (Addr.push ltb d np a key) /\ Permutation (fst (Addr.push ltb d np a key)) (key :: fst a).
  Proof.
    intros (HI & ND & B & F & Bk) Nin Hkey. destruct a as [h hd]. simpl in *.
    unfold Addr.push.
    set (hd1 := if length hd <=? key then resize np hd (key + 1) else hd).
    assert (L1 : key < length hd1 /\ length hd <= length hd1).
    { unfold hd1, resize. destruct (length hd <=? key) eqn:E.
      - apply Nat.leb_le in E. rewrite app_length, repeat_length. lia.
      - apply Nat.leb_gt in E. lia. }
    assert (G1 : forall x, x < length hd -> get hd1 x = get hd x).
    { intros x Hx. unfold hd1, resize, DAry.get. destruct (length hd <=? key); auto. now rewrite app_nth1. }
    assert (G2 : forall x, length hd <= x -> get hd1 x = np \/ length hd1 <= x).
    { intros x Hx. unfold hd1, resize, DAry.get. destruct (length hd <=? key); [|right; lia].
      rewrite app_nth2 by lia. destruct (Nat.lt_ge_cases (x - length hd) (key + 1 - length hd)).
      - left. now apply nth_repeat_lt.
      - right. rewrite app_length, repeat_length. lia. }
    replace (length (h ++ [key]) - 1) with (length h) by (rewrite app_length; simpl; lia).
    assert (ND2 : NoDup (h ++ [key])).
    { apply (Permutation_NoDup (Permutation_cons_append h key)). now constructor. }
    assert (GA : forall i, i < length h -> get (h ++ [key]) i = get h i) by (intros; apply nth_app_l; auto).
    assert (GK : get (h ++ [key]) (length h) = key).
    { unfold DAry.get. rewrite app_nth2 by lia. now rewrite Nat.sub_diag. }
    destruct (asift_up_handles (h ++ [key]) (upd hd1 key (length h)) (length h)) as (A1 & A2 & A3); auto.
    - rewrite app_length; simpl; lia.
    - rewrite GK, upd_length. lia.
    - intros i Hi Ni. rewrite app_length in Hi; simpl in Hi. rewrite GA by lia.
      destruct (F i ltac:(lia)) as [X Y]. rewrite upd_length. split; [lia|].
      rewrite get_upd_neq.
      + now rewrite G1.
      + intros E. apply Nin. rewrite E. apply nth_In. lia.
    - intros k' Hk' Hne. rewrite upd_length in Hk'. apply in_or_app.
      destruct (Nat.eq_dec k' key) as [->|N]; [right; now left|left].
      rewrite get_upd_neq in Hne by auto.
      destruct (Nat.lt_ge_cases k' (length hd)) as [Lt|Ge].
      + rewrite G1 in Hne by auto. now apply Bk.
      + destruct (G2 k' Ge); [congruence|lia].
    - pose proof (asift_up_heap (h ++ [key], upd hd1 key (length h)) (length h)) as EH. simpl fst in EH.
      destruct (DAryProofs.push_ok ltb d 0 HS Hd h key HI) as [P1 P2]. unfold DAry.push in P1, P2.
      rewrite <- EH in P1, P2. split; [|exact P2].
      refine (conj P1 (conj _ (conj _ (conj A1 A2)))).
      + apply (Permutation_NoDup (Permutation_sym P2)). constructor; auto.
      + intros x Hx. apply (Permutation_in _ P2) in Hx. destruct Hx as [<-|Hx]; auto.
  Qed.

  (** update(key) for a stored key whose priority changed in either direction: the heap was ordered except at the
      key's position (DAryProofs.HeapExcept_of_change derives this from "only this key's priority changed") *)
  Theorem update_present_ok a key :
    NoDup (fst a) -> (forall x, In x (fst a) -> x < np) -> HF (fst a) (snd a) -> HB (fst a) (snd a) ->
    In key (fst a) -> HeapExcept ltb d 0 (fst a) (get (snd a) key) ->
    AInv (update ltb d np a key) /\ Permutation (fst (update ltb d np a key)) (fst a).
  Proof.
    destruct a as [h hd]. cbn [fst snd]. intros ND B F Bk Hin HE.
    destruct (In_nth _ _ 0 Hin) as (i & Hi & Ei). fold (get h i) in Ei.
    destruct (F i Hi) as [Kb Kh]. rewrite Ei in Kb, Kh. rewrite Kh in HE.
    assert (Lnp : length h <= np).
    { rewrite <- (seq_length np 0). apply NoDup_incl_length; auto. intros x Hx. apply in_seq. specialize (B x Hx). lia. }
    unfold update.
    assert (C0 : (length hd <=? key) || (get hd key =? np) = false).
    { apply orb_false_iff. split; [apply Nat.leb_gt; lia|apply Nat.eqb_neq; lia]. }
    rewrite C0, Kh.
    destruct (fix_pos_ok ltb d 0 HS Hd h i Hi HE) as [FI FP]. unfold fix_pos in FI, FP.
    assert (HX : HFx h hd i) by (intros j Hj _; apply F; auto).
    assert (Bi : get h i < length hd) by (rewrite Ei; auto).
    destruct ((0 <? i) && ltb (get h i) (get h (parent i))).
    - pose proof (asift_up_heap (h, hd) i) as EH. cbn [fst] in EH.
      destruct (asift_up_handles h hd i Hi ND Bi HX Bk) as (A1 & A2 & _).
      rewrite <- EH in FI, FP. split; [|exact FP].
      refine (conj FI (conj _ (conj _ (conj A1 A2)))).
      + apply (Permutation_NoDup (Permutation_sym FP) ND).
      + intros x Hx. apply B. now apply (Permutation_in _ FP).
    - pose proof (asift_down_heap (h, hd) i) as EH. cbn [fst] in EH.
      destruct (asift_down_handles h hd i Hi ND Bi HX Bk) as (A1 & A2 & _).
      rewrite <- EH in FI, FP. split; [|exact FP].
      refine (conj FI (conj _ (conj _ (conj A1 A2)))).
      + apply (Permutation_NoDup (Permutation_sym FP) ND).
      + intros x Hx. apply B. now apply (Permutation_in _ FP).
  Qed.

  (** update(key) for a key that is not stored is push(key) *)
  Lemma update_absent a key : AInv a -> ~ In key (fst a) -> update ltb d np a key = Addr.push ltb d np a key.
  Proof.
    intros I Nin. pose proof (contains_iff a key I) as C. destruct a as [h hd]. unfold update.
    destruct ((length hd <=? key) || (get hd key =? np)) eqn:E; auto.
    exfalso. apply Nin, C. unfold contains. apply orb_false_iff in E. destruct E as [E1 E2].
    apply Nat.leb_gt in E1. apply Nat.ltb_lt in E1. rewrite E1. now rewrite E2.
  Qed.

  (** ** heapify / build_heap (repaired): handles_ are reset, then re-assigned from the heap *)
  Lemma assign_handles_spec h hd0 : NoDup h -> (forall x, In x h -> x < length hd0) ->
    (forall key, key < length hd0 -> get hd0 key = np) ->
    forall m, m <= length h ->
    let hd' := fold_left (fun hd i => upd hd (get h i) i) (seq 0 m) hd0 in
    length hd' = length hd0 /\
    (forall i, i < m -> get hd' (get h i) = i) /\
    (forall key, key < length hd0 -> get hd' key <> np -> exists i, i < m /\ get h i = key).
  Proof.
    intros ND Bd Fresh. induction m as [|m IH]; intros Hm; cbv zeta.
    - simpl. repeat split; auto; try (intros; lia). intros key Hk Hne. exfalso. apply Hne. now apply Fresh.
    - rewrite seq_S, fold_left_app. rewrite Nat.add_0_l.
      destruct (IH ltac:(lia)) as (L & F & B). cbv zeta in *.
      set (hd' := fold_left (fun hd i => upd hd (get h i) i) (seq 0 m) hd0) in *.
      cbn [fold_left].
      assert (Bm : get h m < length hd') by (rewrite L; apply Bd, nth_In; lia).
      rewrite upd_length. repeat split; auto.
      + intros i Hi. destruct (Nat.eq_dec i m) as [->|N]; [now rewrite get_upd_eq|].
        rewrite get_upd_neq; [apply F; lia|].
        intros E. apply N. symmetry in E. apply (nodup_get h) in E; auto; lia.
      + intros key Hk Hne. destruct (Nat.eq_dec key (get h m)) as [->|N]; [exists m; split; auto|].
        rewrite get_upd_neq in Hne by auto. destruct (B key Hk Hne) as (i & Hi & E). exists i. split; auto.
  Qed.

  Lemma assign_handles_ok h n : NoDup h -> (forall x, In x h -> x < n) ->
    HF h (assign_handles h (repeat np n)) /\ HB h (assign_handles h (repeat np n)).
  Proof.
    intros ND Bd. unfold assign_handles.
    destruct (assign_handles_spec h (repeat np n) ND) with (m := length h) as (L & F & B); auto.
    - now rewrite repeat_length.
    - intros key Hk. rewrite repeat_length in Hk. unfold DAry.get. now apply nth_repeat_lt.
    - cbv zeta in *. split.
      + intros i Hi. rewrite L, repeat_length. split; [apply Bd, nth_In; auto|now apply F].
      + intros key Hk Hne. rewrite L in Hk. destruct (B key Hk Hne) as (i & Hi & <-). now apply nth_In.
  Qed.

  (** *** heapify()'s max_key dominates every key of the heap *)
  Lemma amin_fold_snd h js : forall c mk,
    let r := fold_left (fun (cm : nat * nat) j =>
                      let '(c, m) := cm in
                      ((if ltb (get h j) (get h c) then j else c), Nat.max m (get h j))) js (c, mk) in
    mk <= snd r /\ forall j, In j js -> get h j <= snd r.
  Proof.
    induction js as [|j0 js IH]; intros c mk; cbv zeta; simpl; [split; [lia|tauto]|].
    destruct (IH (if ltb (get h j0) (get h c) then j0 else c) (Nat.max mk (get h j0))) as [A B]. cbv zeta in *.
    split; [lia|]. intros j [<-|Hj]; [lia|auto].
  Qed.

  Lemma amin_child_snd h l mk : l < length h ->
    let r := amin_child ltb d h l (Nat.max mk (get h l)) in
    mk <= snd r /\ (forall j, l <= j < Nat.min (length h) (l + d) -> get h j <= snd r) /\
    l <= fst r < Nat.min (length h) (l + d).
  Proof.
    intros Hl. cbv zeta. pose proof (amin_child_fst h l (Nat.max mk (get h l))) as E1.
    destruct (min_child_spec ltb d 0 HS Hd h l Hl) as [M _].
    unfold amin_child in *.
    destruct (amin_fold_snd h (seq (l + 1) (Nat.min (length h) (l + d) - (l + 1))) l (Nat.max mk (get h l))) as [A B].
    cbv zeta in *. rewrite E1. repeat split; try lia.
    intros j Hj. destruct (Nat.eq_dec j l) as [->|N]; [lia|]. apply B. apply in_seq. lia.
  Qed.

  Lemma ahfy_inner_mk : forall f h cur v mk,
    2 <= length h -> left cur < length h ->
    let '(h', c', mk') := ahfy_inner ltb d f h cur v ((length h - 2) / d) mk in
    mk <= mk' /\ length h' = length h /\ c' < length h /\
    (forall j, get h' j = get h j \/ get h' j <= mk') /\
    (0 < f -> forall j, left cur <= j < Nat.min (length h) (left cur + d) -> get h j <= mk').
  Proof.
    induction f as [|f IH]; intros h cur v mk Hn Hl; cbn [ahfy_inner].
    - assert (cur < length h) by (unfold DAry.left in Hl; nia). repeat split; auto; lia.
    - assert (Hc : cur < length h) by (unfold DAry.left in Hl; nia).
      destruct (amin_child_snd h (left cur) mk Hl) as (A & B & C). cbv zeta in *.
      destruct (amin_child ltb d h (left cur) (Nat.max mk (get h (left cur)))) as [m mk2]. simpl in A, B, C.
      destruct (ltb (get h m) v).
      + destruct (m <=? (length h - 2) / d) eqn:Em.
        * apply Nat.leb_le in Em.
          specialize (IH (upd h cur (get h m)) m v mk2). rewrite upd_length in IH.
          specialize (IH Hn (proj1 (li_spec d Hd (length h) m Hn) Em)).
          destruct (ahfy_inner ltb d f (upd h cur (get h m)) m v ((length h - 2) / d) mk2) as [[h' c'] mk'].
          destruct IH as (I1 & I2 & I3 & I4 & _). repeat split; auto; try lia.
          -- intros j. destruct (I4 j) as [E|L]; [|auto].
             destruct (Nat.eq_dec j cur) as [->|N].
             ++ right. rewrite E, get_upd_eq by auto. specialize (B m ltac:(lia)). lia.
             ++ left. now rewrite E, get_upd_neq by auto.
          -- intros _ j Hj. specialize (B j Hj). lia.
        * rewrite upd_length. repeat split; auto; try lia.
          intros j. destruct (Nat.eq_dec j cur) as [->|N].
          -- right. rewrite get_upd_eq by auto. apply B. lia.
          -- left. now rewrite get_upd_neq by auto.
      + repeat split; auto; lia.
  Qed.

  (* positions whose value is already known to be <= max_key when node i is about to be processed *)
  Definition Cov (h : list nat) (mk i : nat) : Prop :=
    get h 0 <= mk /\ forall j, j < length h -> (i <= j <= (length h - 2) / d \/ left i <= j) -> get h j <= mk.

  Lemma ahfy_node_mk h mk i : 2 <= length h -> i <= (length h - 2) / d -> Cov h mk (S i) ->
    let '(h2, mk2) := ahfy_node ltb d ((length h - 2) / d) (h, mk) i in
    length h2 = length h /\ Cov h2 mk2 i.
  Proof.
    intros Hn Hi [C0 C]. unfold ahfy_node.
    pose proof (proj1 (li_spec d Hd (length h) i Hn) Hi) as Hl.
    pose proof (ahfy_inner_mk (length h) h i (get h i) (Nat.max mk (get h i)) Hn Hl) as I.
    destruct (ahfy_inner ltb d (length h) h i (get h i) ((length h - 2) / d) (Nat.max mk (get h i))) as [[h' c'] mk'].
    destruct I as (I1 & I2 & I3 & I4 & I5). specialize (I5 ltac:(lia)).
    rewrite upd_length. split; auto.
    assert (G : forall j, get (upd h' c' (get h i)) j = get h j \/ get (upd h' c' (get h i)) j <= mk').
    { intros j. destruct (Nat.eq_dec j c') as [->|N]; [right; rewrite get_upd_eq by lia; lia|].
      rewrite get_upd_neq by auto. apply I4. }
    split.
    - destruct (G 0) as [E|L]; [rewrite E|]; lia.
    - intros j Hj Hc. rewrite upd_length, I2 in Hj. rewrite upd_length, I2 in Hc.
      destruct (G j) as [E|L]; [rewrite E|lia].
      destruct (Nat.eq_dec j i) as [->|N]; [lia|].
      destruct (Nat.lt_ge_cases j (left (S i))) as [Lt|Ge].
      + destruct Hc as [Hc|Hc].
        * specialize (C j Hj ltac:(lia)). lia.
        * apply I5. unfold DAry.left in *. nia.
      + specialize (C j Hj ltac:(lia)). lia.
  Qed.

  Lemma ahfy_fold_mk n : 2 <= n -> forall m h mk, m <= (n - 2) / d + 1 -> length h = n -> Cov h mk m ->
    let '(h2, mk2) := fold_left (ahfy_node ltb d ((n - 2) / d)) (rev (seq 0 m)) (h, mk) in
    length h2 = n /\ Cov h2 mk2 0.
  Proof.
    intros Hn. induction m as [|m IH]; intros h mk Hm Hl HC.
    - simpl. auto.
    - rewrite seq_S, rev_app_distr. simpl rev. simpl app. cbn [fold_left]. try rewrite Nat.add_0_l.
      pose proof (ahfy_node_mk h mk m) as N. rewrite Hl in N. specialize (N Hn ltac:(lia) HC).
      destruct (ahfy_node ltb d ((n - 2) / d) (h, mk) m) as [h2 mk2]. destruct N as [N1 N2].
      apply IH; auto; lia.
  Qed.

  Theorem max_key_bound keys : forall x, In x keys -> x <= snd (aheapify_loops ltb d keys).
  Proof.
    intros x Hx. unfold aheapify_loops. destruct (2 <=? length keys) eqn:E.
    - apply Nat.leb_le in E.
      pose proof (ahfy_fold_mk (length keys) E ((length keys - 2) / d + 1) keys
                    (match keys with [] => 0 | y :: _ => y end) (le_n _) eq_refl) as F.
      pose proof (fold_ahfy_fst ((length keys - 2) / d) (rev (seq 0 ((length keys - 2) / d + 1)))
                    (keys, match keys with [] => 0 | y :: _ => y end)) as PF. simpl fst in PF.
      destruct (fold_left (ahfy_node ltb d ((length keys - 2) / d)) (rev (seq 0 ((length keys - 2) / d + 1)))
                  (keys, match keys with [] => 0 | y :: _ => y end)) as [h2 mk2].
      simpl in PF. simpl snd.
      destruct F as [L [C0 C]].
      { split; [destruct keys; simpl; lia|].
        intros j Hj [Hc|Hc]; [lia|]. exfalso.
        assert (left ((length keys - 2) / d + 1) < length keys) by lia.
        apply (li_spec d Hd _ _ E) in H. lia. }
      assert (P : Permutation h2 keys).
      { rewrite PF. pose proof (DAryProofs.heapify_ok ltb d 0 HS Hd keys) as [_ P]. unfold DAry.heapify in P.
        apply Nat.leb_le in E. now rewrite E in P. }
      apply (Permutation_in _ (Permutation_sym P)) in Hx.
      destruct (In_nth _ _ 0 Hx) as (j & Hj & <-). fold (get h2 j).
      destruct (Nat.eq_dec j 0) as [->|N]; [exact C0|]. apply C; auto. right. unfold DAry.left. lia.
    - apply Nat.leb_gt in E. destruct keys as [|y [|z t]]; simpl in *; try lia; destruct Hx as [<-|[]]; lia.
  Qed.

  Lemma resize_repeat n m : resize np (repeat np n) m = repeat np (n + (m - n)).
  Proof. unfold resize. now rewrite repeat_length, repeat_app. Qed.

  (* build_heap with the max_key bound as an explicit hypothesis; the bound is [max_key_bound] above and the
     unconditional statement is [build_heap_ok] below. *)
  Theorem build_heap_ok_partial a keys : NoDup keys -> (forall x, In x keys -> x < np) ->
    (forall x, In x keys -> x <= snd (aheapify_loops ltb d keys)) ->
    AInv (build_heap ltb d np a keys) /\ Permutation (fst (build_heap ltb d np a keys)) keys.
  Proof.
    intros ND Bd Hmk. destruct a as [h0 hd]. unfold build_heap. simpl snd.
    pose proof (heapify_heap (keys, hd)) as EH. simpl fst in EH.
    destruct (DAryProofs.heapify_ok ltb d 0 HS Hd keys) as [HI P].
    unfold Addr.heapify in *.
    pose proof (aheapify_loops_fst keys) as E2.
    destruct (aheapify_loops ltb d keys) as [h' mk]. simpl in E2, EH, Hmk. subst h'. simpl fst.
    split; [|exact P]. rewrite repeat_length, resize_repeat.
    assert (ND' : NoDup (DAry.heapify ltb d 0 keys)) by (apply (Permutation_NoDup (Permutation_sym P) ND)).
    destruct (assign_handles_ok (DAry.heapify ltb d 0 keys)
                (length hd + (Nat.max (length hd) (mk + 1) - length hd)) ND') as [F B].
    { intros x Hx. apply (Permutation_in _ P) in Hx. specialize (Hmk x Hx). lia. }
    refine (conj HI (conj ND' (conj _ (conj F B)))).
    intros x Hx. apply Bd. now apply (Permutation_in _ P).
  Qed.

  (** build_heap over ANY previous contents; update_all after arbitrary priority changes *)
  Theorem build_heap_ok a keys : NoDup keys -> (forall x, In x keys -> x < np) ->
    AInv (build_heap ltb d np a keys) /\ Permutation (fst (build_heap ltb d np a keys)) keys.
  Proof. intros ND B. apply build_heap_ok_partial; auto. apply max_key_bound. Qed.

  Theorem update_all_ok a : NoDup (fst a) -> (forall x, In x (fst a) -> x < np) ->
    AInv (update_all ltb d np a) /\ Permutation (fst (update_all ltb d np a)) (fst a).
  Proof.
    intros ND B. replace (update_all ltb d np a) with (build_heap ltb d np a (fst a)) by (destruct a; reflexivity).
    now apply build_heap_ok.
  Qed.

  Theorem update_all_heap a : HeapInv ltb d 0 (fst (update_all ltb d np a)) /\
                              Permutation (fst (update_all ltb d np a)) (fst a).
  Proof. unfold update_all. rewrite heapify_heap. apply DAryProofs.heapify_ok; auto. Qed.
End AddrProofs.

(** ** 3. the shipped heapify (704fd0b) keeps the handles of the previous heap: build_heap({5,6}) over {1,2} *)
Lemma build_heap_shipped_refuted :
  let a0 := Addr.push Nat.ltb 2 255 (Addr.push Nat.ltb 2 255 ([], []) 1) 2 in
  let bad := build_heap_shipped Nat.ltb 2 255 a0 [5; 6] in
  let good := build_heap Nat.ltb 2 255 a0 [5; 6] in
  fst bad = [5; 6] /\ contains 255 bad 1 = true /\ sanity_check Nat.ltb 2 255 bad = false /\
  fst good = [5; 6] /\ contains 255 good 1 = false /\ contains 255 good 5 = true /\
  sanity_check Nat.ltb 2 255 good = true.
Proof. vm_compute. repeat split. Qed.

(** the hypotheses of the main theorems are satisfiable by a non-trivial state *)
Example AInv_example :
  let a := Addr.push Nat.ltb 3 255 (Addr.push Nat.ltb 3 255 (Addr.push Nat.ltb 3 255 ([], []) 7) 2) 5 in
  fst a = [2; 7; 5] /\ snd a = [255; 255; 0; 255; 255; 2; 255; 1].
Proof. vm_compute. split; reflexivity. Qed.
