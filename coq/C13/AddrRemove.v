(** C13 — DAryAddressableIntHeap::remove(key) and pop() at the operation level: the full invariant is preserved,
    the contents are the old contents minus the key, hence contains() stays exact. *)
From Coq Require Import List Arith Lia Bool Sorting.Permutation.
From TLXV Require Import Common.Order C13.DAry C13.DAryProofs C13.Addr C13.AddrProofs.
Import ListNotations.

Section AddrRemove.
  Variable ltb : nat -> nat -> bool.
  Variable d : nat.
  Variable np : nat.
  Hypothesis HS : SWO ltb.
  Hypothesis Hd : 1 <= d.

  Notation get := (DAry.get 0).
  Notation parent := (DAry.parent d).
  Notation AInv := (AddrProofs.AInv ltb d np).
  Notation HB := (AddrProofs.HB np).

  (** the direction choice shared by remove() and update(): repair position i of a heap that is ordered except at i *)
  Definition afix (a : aheap) (i : nat) : aheap :=
    if (0 <? i) && ltb (get (fst a) i) (get (fst a) (parent i)) then asift_up ltb d a i else asift_down ltb d a i.

  Lemma afix_ok h hd i :
    i < length h -> NoDup h -> (forall x, In x h -> x < np) -> HF h hd -> HB h hd -> HeapExcept ltb d 0 h i ->
    AInv (afix (h, hd) i) /\ Permutation (fst (afix (h, hd) i)) h.
  Proof.
    intros Hi ND B F Bk HE. unfold afix. cbn [fst].
    destruct (fix_pos_ok ltb d 0 HS Hd h i Hi HE) as [FI FP]. unfold fix_pos in FI, FP.
    assert (HX : HFx h hd i) by (intros j Hj _; apply F; auto).
    assert (Bi : get h i < length hd) by (apply F; auto).
    destruct ((0 <? i) && ltb (get h i) (get h (parent i))).
    - pose proof (asift_up_heap ltb d (h, hd) i) as EH. cbn [fst] in EH.
      destruct (asift_up_handles ltb d np Hd h hd i Hi ND Bi HX Bk) as (A1 & A2 & _).
      rewrite <- EH in FI, FP. split; [|exact FP].
      refine (conj FI (conj _ (conj _ (conj A1 A2)))).
      + apply (Permutation_NoDup (Permutation_sym FP) ND).
      + intros x Hx. apply B. now apply (Permutation_in _ FP).
    - pose proof (asift_down_heap ltb d (h, hd) i) as EH. cbn [fst] in EH.
      destruct (asift_down_handles ltb d np HS Hd h hd i Hi ND Bi HX Bk) as (A1 & A2 & _).
      rewrite <- EH in FI, FP. split; [|exact FP].
      refine (conj FI (conj _ (conj _ (conj A1 A2)))).
      + apply (Permutation_NoDup (Permutation_sym FP) ND).
      + intros x Hx. apply B. now apply (Permutation_in _ FP).
  Qed.

  (** heap_ after  swap(heap_[i], heap_.back()); pop_back()  : position i holds the former last element *)
  Definition phi (n i j : nat) : nat := if j =? i then n - 1 else j.

  Lemma swap_pop_shape (h : list nat) i : i < length h ->
    let h2 := removelast (upd (upd h i (get h (length h - 1))) (length h - 1) (get h i)) in
    length h2 = length h - 1 /\ forall j, j < length h - 1 -> get h2 j = get h (phi (length h) i j).
  Proof.
    intros Hi. cbv zeta. split; [now rewrite removelast_length, !upd_length|].
    intros j Hj. unfold DAry.get at 1. rewrite nth_removelast by (rewrite !upd_length; lia).
    rewrite nth_upd_neq by lia. unfold phi. destruct (j =? i) eqn:E.
    - apply Nat.eqb_eq in E. subst. now rewrite nth_upd_eq.
    - apply Nat.eqb_neq in E. rewrite nth_upd_neq; auto.
  Qed.

  Lemma phi_facts n i j : i < n -> j < n - 1 -> phi n i j < n /\ phi n i j <> i.
  Proof. intros. unfold phi. destruct (j =? i) eqn:E; [apply Nat.eqb_eq in E|apply Nat.eqb_neq in E]; lia. Qed.

  Lemma phi_inj n i a b : i < n -> a < n - 1 -> b < n - 1 -> phi n i a = phi n i b -> a = b.
  Proof.
    intros. unfold phi in *.
    destruct (a =? i) eqn:E1; destruct (b =? i) eqn:E2; rewrite ?Nat.eqb_eq, ?Nat.eqb_neq in *; lia.
  Qed.

  Lemma swap_pop_set (h h2 : list nat) i : NoDup h -> i < length h -> length h2 = length h - 1 ->
    (forall j, j < length h - 1 -> get h2 j = get h (phi (length h) i j)) ->
    NoDup h2 /\ forall x, In x h2 <-> In x h /\ x <> get h i.
  Proof.
    intros ND Hi L G. split.
    - apply (NoDup_nth h2 0). intros a b Ha Hb E. rewrite L in Ha, Hb. change (get h2 a = get h2 b) in E.
      rewrite !G in E by auto.
      destruct (phi_facts (length h) i a Hi Ha) as [Pa _]. destruct (phi_facts (length h) i b Hi Hb) as [Pb _].
      apply (nodup_get h _ _ ND Pa Pb) in E. exact (phi_inj (length h) i a b Hi Ha Hb E).
    - intros x. split.
      + intros Hx. destruct (In_nth _ _ 0 Hx) as (j & Hj & <-). rewrite L in Hj. fold (get h2 j). rewrite G by auto.
        destruct (phi_facts (length h) i j Hi Hj) as [P1 P2]. split; [apply nth_In; auto|].
        intros E. apply (nodup_get h) in E; auto.
      + intros [Hx Ne]. destruct (In_nth _ _ 0 Hx) as (m & Hm & <-). fold (get h m) in *.
        assert (Nm : m <> i) by (intros ->; now apply Ne).
        destruct (Nat.eq_dec m (length h - 1)) as [->|N].
        * assert (Hi' : i < length h - 1) by lia.
          replace (get h (length h - 1)) with (get h2 i); [apply nth_In; lia|].
          rewrite G by auto. unfold phi. now rewrite Nat.eqb_refl.
        * replace (get h m) with (get h2 m); [apply nth_In; lia|].
          rewrite G by lia. unfold phi. apply Nat.eqb_neq in Nm. now rewrite Nm.
  Qed.

  (** remove(key) for a stored key *)
  Theorem remove_ok a key : AInv a -> In key (fst a) ->
    AInv (remove ltb d np a key) /\
    (forall x, In x (fst (remove ltb d np a key)) <-> In x (fst a) /\ x <> key) /\
    Permutation (key :: fst (remove ltb d np a key)) (fst a).
  Proof.
    intros I Hin. pose proof (positions_fit ltb d np Hd a I) as PF.
    destruct I as (HI & ND & B & F & Bk). destruct a as [h hd]. cbn [fst snd] in *.
    destruct (In_nth _ _ 0 Hin) as (i & Hi & Ei). fold (get h i) in Ei.
    destruct (F i Hi) as [Kb Kh]. rewrite Ei in Kb, Kh.
    assert (Goal2 : forall r : aheap, AInv r -> (forall x, In x (fst r) <-> In x h /\ x <> key) ->
              AInv r /\ (forall x, In x (fst r) <-> In x h /\ x <> key) /\ Permutation (key :: fst r) h).
    { intros r Ir Hr. split; auto. split; auto. apply NoDup_Permutation; auto.
      - constructor; [intros C; apply Hr in C; tauto|apply Ir].
      - intros x. split.
        + intros [<-|Hx]; auto. now apply Hr.
        + intros Hx. destruct (Nat.eq_dec x key) as [->|N]; [now left|right; now apply Hr]. }
    unfold remove. rewrite Kh.
    set (bk := length h - 1).
    set (h1 := upd (upd h i (get h bk)) bk (get h i)).
    destruct (swap_pop_shape h i Hi) as [L2 G2]. fold bk in L2, G2. fold h1 in L2, G2.
    destruct (swap_pop_set h (removelast h1) i ND Hi L2 G2) as [ND2 S2]. rewrite Ei in S2.
    assert (Gbk : get h1 bk = key).
    { unfold h1, DAry.get. rewrite nth_upd_eq; [exact Ei|rewrite upd_length; lia]. }
    assert (B2 : forall x, In x (removelast h1) -> x < np) by (intros x Hx; apply B; now apply S2).
    rewrite Gbk.
    set (hd2 := upd (upd hd (get h1 i) i) key np).
    assert (Lhd2 : length hd2 = length hd) by (unfold hd2; now rewrite !upd_length).
    assert (Hk2 : get hd2 key = np) by (unfold hd2; rewrite get_upd_eq; auto; now rewrite upd_length).
    (* handles of the keys that stay *)
    assert (F2 : HF (removelast h1) hd2).
    { intros j Hj. rewrite L2 in Hj. rewrite G2 by auto.
      destruct (phi_facts (length h) i j Hi Hj) as [P1 P2].
      destruct (F _ P1) as [Q1 Q2]. rewrite Lhd2. split; auto.
      assert (Nk : get h (phi (length h) i j) <> key).
      { rewrite <- Ei. intros E. apply (nodup_get h) in E; auto. }
      unfold hd2. rewrite get_upd_neq by auto.
      unfold phi in *. destruct (j =? i) eqn:E.
      - apply Nat.eqb_eq in E. subst j.
        assert (E1 : get h1 i = get h bk).
        { unfold h1. rewrite get_upd_neq by (unfold bk; lia). now rewrite get_upd_eq. }
        rewrite E1. fold bk. now rewrite get_upd_eq.
      - apply Nat.eqb_neq in E. rewrite get_upd_neq; auto.
        intros E1. destruct (Nat.eq_dec i bk) as [->|Nib].
        + (* i is the last position: heap_[i] after the swap is key itself *)
          assert (get h1 bk = key) by exact Gbk. congruence.
        + assert (E2 : get h1 i = get h bk).
          { unfold h1. rewrite get_upd_neq by auto. now rewrite get_upd_eq. }
          rewrite E2 in E1. apply (nodup_get h) in E1; auto; unfold bk in *; lia. }
    assert (Bk2 : HB (removelast h1) hd2).
    { intros k' Hk' Hne. rewrite Lhd2 in Hk'.
      assert (Nk : k' <> key) by (intros ->; now apply Hne).
      unfold hd2 in Hne. rewrite get_upd_neq in Hne by auto.
      destruct (Nat.eq_dec k' (get h1 i)) as [->|N].
      - destruct (Nat.eq_dec i bk) as [->|Nib]; [congruence|].
        assert (E2 : get h1 i = get h bk).
        { unfold h1. rewrite get_upd_neq by auto. now rewrite get_upd_eq. }
        rewrite E2 in *. apply S2. split; auto. apply nth_In. unfold bk. lia.
      - rewrite get_upd_neq in Hne by auto. apply S2. split; auto. }
    destruct (i <? length (removelast h1)) eqn:Ci.
    - (* an inner position: repair it *)
      apply Nat.ltb_lt in Ci. rewrite L2 in Ci. fold bk in Ci.
      assert (G3 : forall j, j < bk -> j <> i -> get (removelast h1) j = get h j).
      { intros j Hj Nj. rewrite G2 by auto. unfold phi. apply Nat.eqb_neq in Nj. now rewrite Nj. }
      assert (HE : HeapExcept ltb d 0 (removelast h1) i).
      { split.
        - intros j Hj Nj Pj. rewrite L2 in Hj. fold bk in Hj.
          pose proof (parent_lt d Hd j ltac:(lia)).
          rewrite !G3 by lia. apply (HI j); unfold bk in *; lia.
        - intros Hi0 _ j Hj Pj. rewrite L2 in Hj. fold bk in Hj.
          pose proof (parent_lt d Hd j ltac:(lia)). pose proof (parent_lt d Hd i Hi0).
          rewrite !G3 by lia.
          apply (leb_trans ltb HS _ (get h i)); [apply (HI i); lia|].
          rewrite <- Pj. apply (HI j); unfold bk in *; lia. }
      pose proof (afix_ok (removelast h1) hd2 i ltac:(rewrite L2; exact Ci) ND2 B2 F2 Bk2 HE) as [A P].
      unfold afix in A, P. cbn [fst] in A, P.
      apply Goal2; auto.
      intros x. rewrite <- S2. split; intros Hx; [apply (Permutation_in _ P)|apply (Permutation_in _ (Permutation_sym P))]; auto.
    - (* the removed key was in the last slot *)
      apply Nat.ltb_ge in Ci. rewrite L2 in Ci. fold bk in Ci.
      assert (Eib : i = bk) by (unfold bk in *; lia).
      apply Goal2; auto. unfold AddrProofs.AInv. cbn [fst snd].
      refine (conj _ (conj ND2 (conj B2 (conj F2 Bk2)))).
      intros j Hj _. rewrite L2 in Hj. fold bk in Hj.
      pose proof (parent_lt d Hd j ltac:(lia)).
      rewrite !G2 by (fold bk; lia). unfold phi.
      assert (E1 : (j =? i) = false) by (apply Nat.eqb_neq; lia).
      assert (E2 : (parent j =? i) = false) by (apply Nat.eqb_neq; lia).
      rewrite E1, E2. apply (HI j); unfold bk in *; lia.
  Qed.

  (** contains() after remove *)
  Corollary remove_contains a key x : AInv a -> In key (fst a) ->
    (contains np (remove ltb d np a key) x = true <-> In x (fst a) /\ x <> key).
  Proof.
    intros I Hin. destruct (remove_ok a key I Hin) as (I2 & S & _).
    rewrite (contains_iff ltb d np Hd _ x I2). apply S.
  Qed.

  (** pop() / extract_top() on a non-empty heap removes the top, which is a minimum *)
  Theorem pop_ok a x : AInv a -> Addr.top a = Some x ->
    AInv (Addr.pop ltb d np a) /\ Permutation (x :: fst (Addr.pop ltb d np a)) (fst a) /\
    (forall y, In y (fst a) -> leb ltb x y = true).
  Proof.
    intros I Ht. destruct a as [h hd]. unfold Addr.top in Ht. cbn [fst] in Ht.
    destruct h as [|x0 t]; [discriminate|]. injection Ht as ->.
    unfold Addr.pop. cbn [fst]. change (get (x :: t) 0) with x.
    destruct (remove_ok (x :: t, hd) x I (or_introl eq_refl)) as (A & _ & P).
    split; auto. split; auto.
    apply (top_min ltb d 0 HS Hd (x :: t) x); [apply I|reflexivity].
  Qed.
End AddrRemove.
