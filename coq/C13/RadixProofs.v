(** C13 — RadixHeap: the bucket index is in range for every key width, radix and pair of ranks (after the repair);
    the shipped computation leaves the bucket array for 8- and 16-bit keys; rank_of_int is an order isomorphism
    inverse to int_at_rank. *)
From Coq Require Import NArith Lia List Bool.
From TLXV Require Import C13.Radix.
Import ListNotations.
Local Open Scope N_scope.

Lemma lxor_lt_pow2 a b w : a < 2 ^ w -> b < 2 ^ w -> N.lxor a b < 2 ^ w.
Proof.
  intros Ha Hb. destruct (N.eq_dec (N.lxor a b) 0) as [E|E]; [rewrite E; apply N.neq_0_lt_0, N.pow_nonzero; lia|].
  assert (Hw : 0 < w).
  { destruct (N.eq_dec w 0) as [->|]; [|lia]. simpl in *. assert (a = 0) by lia. assert (b = 0) by lia. subst. now simpl in E. }
  assert (L : forall c, c < 2 ^ w -> N.log2 c < w).
  { intros c Hc. destruct (N.eq_dec c 0) as [->|Nc]; [simpl; lia|apply N.log2_lt_pow2; lia]. }
  apply N.log2_lt_pow2; [lia|].
  eapply N.le_lt_trans; [apply N.log2_lxor|].
  apply N.max_lub_lt; auto.
Qed.

(** Every key pair of the key type is mapped to a bucket inside buckets_data_ / mins_ / filled_. *)
Theorem bucket_in_range w rb x limit :
  0 < rb -> x < 2 ^ w -> limit < 2 ^ w -> bucket rb x limit < num_buckets w rb.
Proof.
  intros Hrb Hx Hl. unfold bucket, num_buckets.
  assert (P2 : 0 < 2 ^ (w mod rb)) by (apply N.neq_0_lt_0, N.pow_nonzero; lia).
  destruct (N.lxor x limit =? 0) eqn:E0; [apply N.add_pos_r; exact P2|].
  apply N.eqb_neq in E0.
  set (diff := N.lxor x limit) in *.
  assert (Hd : diff < 2 ^ w) by (apply lxor_lt_pow2; auto).
  assert (Hlog : N.log2 diff < w) by (apply N.log2_lt_pow2; lia).
  set (row := N.log2 diff / rb).
  set (q := w / rb).
  assert (Hw : w = rb * q + w mod rb) by (apply N.div_mod; lia).
  assert (Hm : w mod rb < rb) by (apply N.mod_lt; lia).
  assert (Hrow : row <= q) by (apply N.div_le_mono; lia).
  assert (Hrow2 : rb * row <= N.log2 diff) by (apply N.mul_div_le; lia).
  unfold mask, radix.
  assert (R2 : 2 <= 2 ^ rb).
  { change 2 with (2 ^ 1) at 1. apply N.pow_le_mono_r; lia. }
  set (R := 2 ^ rb) in *.
  set (digit := N.land (N.shiftr x (rb * row)) (R - 1)).
  assert (D1 : digit < R).
  { unfold digit, R. replace (2 ^ rb - 1) with (N.ones rb) by (rewrite N.ones_equiv; lia).
    rewrite N.land_ones. apply N.mod_lt. lia. }
  assert (D2 : digit < 2 ^ (w - rb * row)).
  { unfold digit, R. replace (2 ^ rb - 1) with (N.ones rb) by (rewrite N.ones_equiv; lia).
    rewrite N.land_ones. eapply N.le_lt_trans; [apply N.mod_le; lia|].
    rewrite N.shiftr_div_pow2. apply N.div_lt_upper_bound; [apply N.pow_nonzero; lia|].
    rewrite <- N.pow_add_r. replace (rb * row + (w - rb * row)) with w by lia. exact Hx. }
  clearbody digit.
  remember (w mod rb) as r eqn:Er. clear Er.
  remember (2 ^ r) as P eqn:EP.
  assert (S1 : forall t, t * R = t * (R - 1) + t).
  { intros t. rewrite <- (N.mul_1_r t) at 3. rewrite <- N.mul_add_distr_l. f_equal. lia. }
  clearbody q R row.
  destruct (N.eq_dec row q) as [Eq|Nq].
  - rewrite Eq in *. replace (w - rb * q) with r in D2 by lia. rewrite <- EP in D2.
    rewrite S1. generalize (q * (R - 1)). clear - D2. intros A. lia.
  - assert (H1 : row + 1 <= q) by lia.
    assert (H2 : (row + 1) * (R - 1) <= q * (R - 1)) by (apply N.mul_le_mono_r; exact H1).
    rewrite N.mul_add_distr_r, N.mul_1_l in H2.
    rewrite S1. revert H2. generalize (q * (R - 1)) (row * (R - 1)). clear - D1 P2 R2. intros A B H2. lia.
Qed.

(** The shipped computation (704fd0b): for an 8-bit key type with Radix 4, keys 5 vs insertion limit 0 give a row
    far beyond the 4 rows (7 buckets) that exist -- and a shift exponent of 2^64-22 in  x >> (radix_bits*row). *)
Lemma bucket_shipped_refuted :
  exists x limit, x < 2 ^ 8 /\ limit < 2 ^ 8 /\
    num_buckets 8 2 <= shipped_row 8 2 x limit /\ 64 <= (2 * shipped_row 8 2 x limit) mod 2 ^ 64 /\
    bucket 2 x limit < num_buckets 8 2.
Proof. exists 5, 0. vm_compute. repeat split; congruence. Qed.

(** 16-bit keys: same defect *)
Lemma bucket_shipped_refuted_16 :
  exists x limit, x < 2 ^ 16 /\ limit < 2 ^ 16 /\ num_buckets 16 3 <= shipped_row 16 3 x limit.
Proof. exists 256, 0. vm_compute. repeat split; congruence. Qed.

(** for 32- and 64-bit keys the shipped row computation coincides with the repaired one *)
Lemma shipped_row_wide w rb x limit : 32 <= w -> w <= 64 -> x < 2 ^ w -> limit < 2 ^ w -> N.lxor x limit <> 0 ->
  shipped_row w rb x limit = N.log2 (N.lxor x limit) / rb.
Proof.
  intros Hw Hw2 Hx Hl Hne. unfold shipped_row.
  assert (E : (w <? 32) = false) by (apply N.ltb_ge; lia). rewrite E.
  assert (N.log2 (N.lxor x limit) < w) by (apply N.log2_lt_pow2; [lia|now apply lxor_lt_pow2]).
  replace (2 ^ 64 + (w - 1) - (w - 1 - N.log2 (N.lxor x limit))) with (N.log2 (N.lxor x limit) + 1 * 2 ^ 64) by lia.
  rewrite N.mod_add by (apply N.pow_nonzero; lia).
  rewrite N.mod_small; auto.
  assert (64 < 2 ^ 64) by (vm_compute; reflexivity). lia.
Qed.

(** IntegerRank: rank_of_int / int_at_rank are mutually inverse on w-bit patterns *)
Lemma int_at_rank_of_int w sgn pat : int_at_rank w sgn (rank_of_int w sgn pat) = pat.
Proof. unfold int_at_rank, rank_of_int. destruct sgn; auto. now rewrite N.lxor_assoc, N.lxor_nilpotent, N.lxor_0_r. Qed.

(** The model on a monotone history (sanity of the definitions; the general RadixInv theorem is not proved, see
    Properties_C13.v): 8-bit signed keys -128, 127, 0, -1 come out in signed order. *)
Example radix_example :
  map (fun o => fst (fst o))
      (rrun 8 true 3 (rinit 8 3) [RPush 128 1%nat; RPush 127 2%nat; RPush 0 3%nat; RPush 255 4%nat; RTop; RPop; RTop; RPop; RTop; RPop; RTop; RPop])
  = [[]; []; []; []; [(128, 1%nat)]; []; [(255, 4%nat)]; []; [(0, 3%nat)]; []; [(127, 2%nat)]; []].
Proof. vm_compute. reflexivity. Qed.
