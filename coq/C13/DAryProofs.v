(** C13 — proofs about the DAryHeap model: heap order preserved by every operation, contents preserved as a
    multiset, top is a minimum, draining yields a sorted permutation; for every arity d >= 1 and every strict
    weak order. *)
From Coq Require Import List Arith Lia Bool Sorting.Permutation Sorting.Sorted FinFun.
From TLXV Require Import Common.Order C13.DAry.
Import ListNotations.

(** ** upd / nth / removelast *)
Lemma upd_length {A} (l : list A) i x : length (upd l i x) = length l.
Proof. revert i; induction l as [|a l IH]; intros [|i]; simpl; auto. Qed.

Lemma nth_upd_eq {A} (l : list A) i x dflt : i < length l -> nth i (upd l i x) dflt = x.
Proof. revert i; induction l as [|a l IH]; intros [|i] H; simpl in *; try lia; auto. apply IH; lia. Qed.

Lemma nth_upd_neq {A} (l : list A) i j x dflt : i <> j -> nth j (upd l i x) dflt = nth j l dflt.
Proof.
  revert i j; induction l as [|a l IH]; intros [|i] [|j] H; simpl; auto; try lia.
Qed.

Lemma upd_same {A} (l : list A) i dflt : upd l i (nth i l dflt) = l.
Proof.
  revert i; induction l as [|a l IH]; intros [|i]; simpl; auto. now rewrite IH.
Qed.

Lemma upd_oob {A} (l : list A) i x : length l <= i -> upd l i x = l.
Proof. revert i; induction l as [|a l IH]; intros [|i] H; simpl in *; auto; try lia. rewrite IH; auto; lia. Qed.

Lemma removelast_length {A} (l : list A) : length (removelast l) = length l - 1.
Proof.
  induction l as [|a l IH]; auto. destruct l as [|b l]; auto.
  change (removelast (a :: b :: l)) with (a :: removelast (b :: l)). simpl length in *. lia.
Qed.

Lemma nth_removelast {A} (l : list A) i dflt : i < length l - 1 -> nth i (removelast l) dflt = nth i l dflt.
Proof.
  revert i; induction l as [|a l IH]; intros i H; auto. destruct l as [|b l]; [simpl in H; lia|].
  change (removelast (a :: b :: l)) with (a :: removelast (b :: l)).
  destruct i; auto. simpl nth at 1. rewrite IH; auto. simpl length in *; lia.
Qed.

Section Proofs.
  Context {K : Type}.
  Variable ltb : K -> K -> bool.
  Variable d : nat.
  Variable dflt : K.
  Hypothesis HS : SWO ltb.
  Hypothesis Hd : 1 <= d.

  Notation get := (DAry.get dflt).
  Notation parent := (DAry.parent d).
  Notation left := (DAry.left d).
  Notation le a b := (leb ltb a b = true).

  (** ** index arithmetic of the implicit d-ary tree *)
  Lemma parent_lt k : 0 < k -> parent k < k.
  Proof.
    intros H. unfold DAry.parent.
    assert ((k - 1) / d <= k - 1); [|lia].
    apply Nat.div_le_upper_bound; nia.
  Qed.

  Lemma parent_of_child k c : left k <= c < left k + d -> parent c = k.
  Proof.
    unfold DAry.left, DAry.parent. intros H. symmetry.
    apply (Nat.div_unique (c - 1) d k (c - 1 - d * k)); lia.
  Qed.

  Lemma child_range c : 0 < c -> left (parent c) <= c < left (parent c) + d.
  Proof.
    unfold DAry.left, DAry.parent. intros H.
    pose proof (Nat.div_mod (c - 1) d ltac:(lia)) as E.
    pose proof (Nat.mod_upper_bound (c - 1) d ltac:(lia)) as B. lia.
  Qed.

  Lemma li_spec n cur : 2 <= n -> (cur <= (n - 2) / d <-> left cur < n).
  Proof.
    intros Hn. unfold DAry.left. split; intros H.
    - pose proof (Nat.mul_div_le (n - 2) d ltac:(lia)). nia.
    - apply Nat.div_le_lower_bound; lia.
  Qed.

  (** ** invariants *)
  Definition HeapFrom (h : list K) (lo : nat) : Prop :=
    forall j, 0 < j < length h -> lo <= parent j -> le (get h (parent j)) (get h j).
  Definition HeapInv (h : list K) : Prop := HeapFrom h 0.

  (* everything in order except the edges below node k *)
  Definition DownOK (h : list K) (lo k : nat) : Prop :=
    forall j, 0 < j < length h -> lo <= parent j -> parent j <> k -> le (get h (parent j)) (get h j).
  (* everything in order except the edge above node k *)
  Definition UpOK (h : list K) (k : nat) : Prop :=
    forall j, 0 < j < length h -> j <> k -> le (get h (parent j)) (get h j).
  (* the parent of k is not greater than the children of k *)
  Definition GP (h : list K) (lo k : nat) : Prop :=
    0 < k -> lo <= parent k -> forall j, 0 < j < length h -> parent j = k -> le (get h (parent k)) (get h j).

  (** the state after moving one element into the hole is the logical array with two positions exchanged *)
  Definition SwapRel (hv hv' : list K) (a b : nat) : Prop :=
    length hv' = length hv /\ get hv' a = get hv b /\ get hv' b = get hv a /\
    forall j, j <> a -> j <> b -> get hv' j = get hv j.

  Lemma hole_step h k c v : k <> c -> k < length h -> c < length h ->
    SwapRel (upd h k v) (upd (upd h k (get h c)) c v) k c.
  Proof.
    intros N Hk Hc. unfold SwapRel, DAry.get. rewrite !upd_length. repeat split.
    - rewrite nth_upd_neq by auto. rewrite nth_upd_eq by auto. now rewrite nth_upd_neq by auto.
    - rewrite nth_upd_eq by (now rewrite upd_length). now rewrite nth_upd_eq.
    - intros j Ja Jb. now rewrite !nth_upd_neq by auto.
  Qed.

  Lemma swaprel_perm hv hv' a b : a < length hv -> b < length hv -> SwapRel hv hv' a b -> Permutation hv' hv.
  Proof.
    intros Ha Hb (L & Ea & Eb & Eo). apply Permutation_sym.
    apply (Permutation_nth hv hv' dflt). split; [exact L|].
    exists (fun x => if x =? a then b else if x =? b then a else x). repeat split.
    - intros x Hx. destruct (x =? a); [lia|]. destruct (x =? b); lia.
    - intros x y Hx Hy.
      destruct (x =? a) eqn:E1; destruct (y =? a) eqn:E2;
      try destruct (x =? b) eqn:E3; try destruct (y =? b) eqn:E4;
      rewrite ?Nat.eqb_eq, ?Nat.eqb_neq in *; lia.
    - intros x Hx. fold (get hv' x).
      destruct (x =? a) eqn:E1; [apply Nat.eqb_eq in E1; subst; exact Ea|].
      destruct (x =? b) eqn:E2; [apply Nat.eqb_eq in E2; subst; exact Eb|].
      apply Nat.eqb_neq in E1, E2. now apply Eo.
  Qed.

  (** ** the minimum-child scan *)
  Lemma scan_spec h l : forall len start c0,
    l <= c0 < start ->
    (forall j, l <= j < start -> le (get h c0) (get h j)) ->
    let c := fold_left (fun c j => if ltb (get h j) (get h c) then j else c) (seq start len) c0 in
    l <= c < start + len /\ forall j, l <= j < start + len -> le (get h c) (get h j).
  Proof.
    induction len as [|len IH]; intros start c0 Hc Hmin; simpl.
    - split; [lia|]. intros j Hj. apply Hmin; lia.
    - destruct (ltb (get h start) (get h c0)) eqn:E.
      + destruct (IH (S start) start) as [A B]; [lia| |split; [lia|]].
        * intros j Hj. destruct (Nat.eq_dec j start) as [->|N]; [apply leb_refl; auto|].
          apply ltb_leb; auto. eapply ltb_leb_trans; eauto. apply Hmin; lia.
        * intros j Hj. apply B; lia.
      + destruct (IH (S start) c0) as [A B]; [lia| |split; [lia|]].
        * intros j Hj. destruct (Nat.eq_dec j start) as [->|N]; [unfold leb; now rewrite E|].
          apply Hmin; lia.
        * intros j Hj. apply B; lia.
  Qed.

  Lemma min_child_spec h l : l < length h ->
    let c := min_child ltb d dflt h l in
    l <= c < Nat.min (length h) (l + d) /\
    forall j, l <= j < Nat.min (length h) (l + d) -> le (get h c) (get h j).
  Proof.
    intros Hl. unfold min_child.
    pose proof (scan_spec h l (Nat.min (length h) (l + d) - (l + 1)) (l + 1) l) as S.
    destruct S as [A B]; [lia| |].
    - intros j Hj. replace j with l by lia. apply leb_refl; auto.
    - replace (l + 1 + (Nat.min (length h) (l + d) - (l + 1))) with (Nat.min (length h) (l + d)) in * by lia.
      split; auto.
  Qed.

  (** children of k: in terms of [parent] *)
  Lemma min_child_children h k : left k < length h ->
    let c := min_child ltb d dflt h (left k) in
    0 < c < length h /\ parent c = k /\ k < c /\
    forall j, 0 < j < length h -> parent j = k -> le (get h c) (get h j).
  Proof.
    intros Hl. destruct (min_child_spec h (left k) Hl) as [A B]. cbv zeta.
    assert (Lk : k < left k) by (unfold DAry.left; nia).
    repeat split; try lia.
    - apply parent_of_child; lia.
    - intros j Hj Pj. apply B. pose proof (child_range j ltac:(lia)) as R. rewrite Pj in R. lia.
  Qed.

  (** ** one step down / up on the logical array *)
  Lemma down_step hv hv' lo k c :
    SwapRel hv hv' k c -> parent c = k -> 0 < c < length hv -> k < c -> lo <= k ->
    (forall j, 0 < j < length hv -> parent j = k -> le (get hv c) (get hv j)) ->
    ltb (get hv c) (get hv k) = true ->
    DownOK hv lo k -> GP hv lo k -> DownOK hv' lo c /\ GP hv' lo c.
  Proof.
    intros (L & Ek & Ec & Eo) Pc Hc Hkc Hlo Hmin Hlt HD HG. split.
    - intros j Hj Hlo' Pj. rewrite L in Hj.
      destruct (Nat.eq_dec j k) as [->|Njk].
      + (* edge above k *)
        assert (Pk : parent k < k) by (apply parent_lt; lia).
        rewrite Ek, Eo by lia. apply HG; auto; lia.
      + destruct (Nat.eq_dec j c) as [->|Njc].
        * rewrite Pc, Ek, Ec. apply ltb_leb; auto.
        * rewrite (Eo j) by auto.
          destruct (Nat.eq_dec (parent j) k) as [E|N].
          -- rewrite E, Ek. apply Hmin; auto.
          -- rewrite Eo by auto. apply HD; auto.
    - intros _ _ j Hj Pj. rewrite L in Hj. rewrite Pc, Ek.
      assert (parent j < j) by (apply parent_lt; lia).
      rewrite Eo by lia. rewrite <- Pj. apply HD; auto; lia.
  Qed.

  Lemma down_stop hv lo k :
    (forall j, 0 < j < length hv -> parent j = k -> le (get hv k) (get hv j)) ->
    DownOK hv lo k -> HeapFrom hv lo.
  Proof.
    intros Hc HD j Hj Hlo. destruct (Nat.eq_dec (parent j) k) as [E|N]; [rewrite E; auto|auto].
  Qed.

  Lemma up_step hv hv' k :
    SwapRel hv hv' k (parent k) -> 0 < k < length hv ->
    le (get hv k) (get hv (parent k)) ->
    UpOK hv k -> GP hv 0 k -> UpOK hv' (parent k) /\ GP hv' 0 (parent k).
  Proof.
    intros (L & Ek & Ep & Eo) Hk Hle HU HG.
    assert (Pk : parent k < k) by (apply parent_lt; lia).
    split.
    - intros j Hj Njp. rewrite L in Hj.
      destruct (Nat.eq_dec j k) as [->|Njk]; [now rewrite Ek, Ep|].
      rewrite (Eo j) by auto.
      destruct (Nat.eq_dec (parent j) k) as [E|N1].
      + rewrite E, Ek. apply HG; auto; lia.
      + destruct (Nat.eq_dec (parent j) (parent k)) as [E|N2].
        * rewrite E, Ep. eapply leb_trans; eauto. rewrite <- E. apply HU; auto.
        * rewrite Eo by auto. apply HU; auto.
    - intros Hp _ j Hj Pj. rewrite L in Hj.
      assert (PP : parent (parent k) < parent k) by (apply parent_lt; lia).
      rewrite Eo by lia.
      assert (G : le (get hv (parent (parent k))) (get hv (parent k))) by (apply HU; lia).
      destruct (Nat.eq_dec j k) as [->|Njk]; [now rewrite Ek|].
      assert (parent j < j) by (apply parent_lt; lia).
      rewrite Eo by lia. eapply leb_trans; eauto. rewrite <- Pj. apply HU; auto.
  Qed.

  Lemma up_stop hv k : UpOK hv k -> (k = 0 \/ le (get hv (parent k)) (get hv k)) -> HeapInv hv.
  Proof.
    intros HU Hk j Hj _. destruct (Nat.eq_dec j k) as [->|N]; [destruct Hk; [lia|auto]|auto].
  Qed.

  (** ** the loops *)
  Lemma sift_up_loop_spec : forall fuel h k v,
    k < length h -> k <= fuel ->
    UpOK (upd h k v) k -> GP (upd h k v) 0 k ->
    let '(h', k') := sift_up_loop ltb d dflt fuel h k v in
    HeapInv (upd h' k' v) /\ Permutation (upd h' k' v) (upd h k v) /\ length h' = length h /\ k' < length h.
  Proof.
    induction fuel as [|f IH]; intros h k v Hk Hf HU HG.
    - simpl. assert (k = 0) by lia. subst. repeat split; auto. eapply up_stop; eauto.
    - cbn [sift_up_loop].
      destruct ((0 <? k) && negb (ltb (get h (parent k)) v)) eqn:C.
      + apply andb_true_iff in C. destruct C as [C1 C2]. apply Nat.ltb_lt in C1. apply negb_true_iff in C2.
        assert (Pk : parent k < k) by (apply parent_lt; lia).
        pose proof (hole_step h k (parent k) v ltac:(lia) Hk ltac:(lia)) as SR.
        assert (G1 : get (upd h k v) k = v) by (unfold DAry.get; now rewrite nth_upd_eq).
        assert (G2 : get (upd h k v) (parent k) = get h (parent k)) by (unfold DAry.get; rewrite nth_upd_neq; auto; lia).
        destruct (up_step _ _ k SR) as [HU' HG']; auto.
        { rewrite upd_length; lia. }
        { rewrite G1, G2. unfold leb. now rewrite C2. }
        specialize (IH (upd h k (get h (parent k))) (parent k) v).
        rewrite upd_length in IH. specialize (IH ltac:(lia) ltac:(lia) HU' HG').
        destruct (sift_up_loop ltb d dflt f (upd h k (get h (parent k))) (parent k) v) as [h' k'].
        destruct IH as (A & B & C & D). repeat split; auto.
        eapply Permutation_trans; [exact B|].
        eapply swaprel_perm; [| |exact SR]; rewrite upd_length; lia.
      + repeat split; auto. eapply up_stop; eauto.
        destruct (0 <? k) eqn:C1; [right|left; apply Nat.ltb_ge in C1; lia].
        simpl in C. apply negb_false_iff in C. apply Nat.ltb_lt in C1.
        unfold DAry.get. rewrite nth_upd_eq by auto. rewrite nth_upd_neq by (pose proof (parent_lt k C1); lia).
        apply ltb_leb; auto.
  Qed.

  Lemma sift_up_spec h k : k < length h -> UpOK h k -> GP h 0 k ->
    HeapInv (sift_up ltb d dflt h k) /\ Permutation (sift_up ltb d dflt h k) h.
  Proof.
    intros Hk HU HG. unfold sift_up.
    pose proof (sift_up_loop_spec k h k (get h k) Hk (le_n _)) as S.
    unfold DAry.get in S at 1 2. rewrite upd_same in S. specialize (S HU HG).
    destruct (sift_up_loop ltb d dflt k h k (get h k)) as [h' k'].
    destruct S as (A & B & _). unfold DAry.get in B at 2. rewrite upd_same in B. auto.
  Qed.

  Lemma sift_down_loop_spec : forall fuel h k v lo,
    k < length h -> length h - k <= fuel -> lo <= k ->
    DownOK (upd h k v) lo k -> GP (upd h k v) lo k ->
    let '(h', k') := sift_down_loop ltb d dflt fuel h k v in
    HeapFrom (upd h' k' v) lo /\ Permutation (upd h' k' v) (upd h k v) /\ length h' = length h /\ k' < length h.
  Proof.
    induction fuel as [|f IH]; intros h k v lo Hk Hf Hlo HD HG; [lia|].
    cbn [sift_down_loop].
    assert (G1 : get (upd h k v) k = v) by (unfold DAry.get; now rewrite nth_upd_eq).
    destruct (length h <=? left k) eqn:C0.
    - apply Nat.leb_le in C0. repeat split; auto.
      eapply down_stop; eauto. intros j Hj Pj. rewrite upd_length in Hj.
      pose proof (child_range j ltac:(lia)). rewrite Pj in *. lia.
    - apply Nat.leb_gt in C0.
      destruct (min_child_children h k C0) as (Hc & Pc & Hkc & Hmin).
      set (c := min_child ltb d dflt h (left k)) in *.
      assert (Gj : forall j, j <> k -> get (upd h k v) j = get h j) by (intros; unfold DAry.get; rewrite nth_upd_neq; auto; lia).
      destruct (negb (ltb (get h c) v)) eqn:C1.
      + apply negb_true_iff in C1. repeat split; auto.
        eapply down_stop; eauto. intros j Hj Pj. rewrite upd_length in Hj.
        assert (parent j < j) by (apply parent_lt; lia).
        rewrite G1, Gj by lia. eapply leb_trans; [exact HS| |apply Hmin; auto].
        unfold leb. now rewrite C1.
      + apply negb_false_iff in C1.
        pose proof (hole_step h k c v ltac:(lia) Hk ltac:(lia)) as SR.
        destruct (down_step _ _ lo k c SR) as [HD' HG']; auto.
        { rewrite upd_length; lia. }
        { intros j Hj Pj. rewrite upd_length in Hj. assert (parent j < j) by (apply parent_lt; lia).
          rewrite !Gj by lia. apply Hmin; auto. }
        { rewrite G1, Gj by lia. exact C1. }
        specialize (IH (upd h k (get h c)) c v lo).
        rewrite upd_length in IH. specialize (IH ltac:(lia) ltac:(lia) ltac:(lia) HD' HG').
        destruct (sift_down_loop ltb d dflt f (upd h k (get h c)) c v) as [h' k'].
        destruct IH as (A & B & C & D). repeat split; auto.
        eapply Permutation_trans; [exact B|].
        eapply swaprel_perm; [| |exact SR]; rewrite upd_length; lia.
  Qed.

  Lemma sift_down_spec h k lo : k < length h -> lo <= k -> DownOK h lo k -> GP h lo k ->
    HeapFrom (sift_down ltb d dflt h k) lo /\ Permutation (sift_down ltb d dflt h k) h.
  Proof.
    intros Hk Hlo HD HG. unfold sift_down.
    pose proof (sift_down_loop_spec (length h) h k (get h k) lo Hk ltac:(lia) Hlo) as S.
    unfold DAry.get in S at 1 2. rewrite upd_same in S. specialize (S HD HG).
    destruct (sift_down_loop ltb d dflt (length h) h k (get h k)) as [h' k'].
    destruct S as (A & B & _). unfold DAry.get in B at 2. rewrite upd_same in B. auto.
  Qed.

  (** ** repairing one position whose priority changed in either direction (update / remove) *)
  Definition HeapExcept (h : list K) (k : nat) : Prop :=
    (forall j, 0 < j < length h -> j <> k -> parent j <> k -> le (get h (parent j)) (get h j)) /\ GP h 0 k.

  Definition fix_pos (h : list K) (k : nat) : list K :=
    if (0 <? k) && ltb (get h k) (get h (parent k)) then sift_up ltb d dflt h k else sift_down ltb d dflt h k.

  Theorem fix_pos_ok h k : k < length h -> HeapExcept h k ->
    HeapInv (fix_pos h k) /\ Permutation (fix_pos h k) h.
  Proof.
    intros Hk [HE HG]. unfold fix_pos.
    destruct ((0 <? k) && ltb (get h k) (get h (parent k))) eqn:C.
    - apply andb_true_iff in C. destruct C as [C1 C2]. apply Nat.ltb_lt in C1.
      apply sift_up_spec; auto.
      intros j Hj Nj. destruct (Nat.eq_dec (parent j) k) as [E|N]; [|auto].
      rewrite E. apply ltb_leb; auto.
      apply (ltb_leb_trans ltb HS _ (get h (parent k))); [exact C2|apply HG; auto; lia].
    - apply sift_down_spec; auto; [lia|].
      intros j Hj _ Pj. destruct (Nat.eq_dec j k) as [->|N]; [|auto].
      destruct (0 <? k) eqn:C1; [|apply Nat.ltb_ge in C1; lia].
      simpl in C. unfold leb. now rewrite C.
  Qed.

  (** ** heapify: the do/while loop of heapify() is sift_down *)
  Lemma sift_down_loop_leaf f h m v : length h <= left m -> sift_down_loop ltb d dflt f h m v = (h, m).
  Proof. intros H. destruct f; auto. cbn [sift_down_loop]. apply Nat.leb_le in H. now rewrite H. Qed.

  Lemma hfy_inner_eq : forall fuel h cur v,
    2 <= length h -> cur <= (length h - 2) / d ->
    hfy_inner ltb d dflt fuel h cur v ((length h - 2) / d) = sift_down_loop ltb d dflt fuel h cur v.
  Proof.
    induction fuel as [|f IH]; intros h cur v Hn Hc; auto.
    cbn [hfy_inner sift_down_loop].
    pose proof (proj1 (li_spec (length h) cur Hn) Hc) as Hl.
    apply Nat.leb_gt in Hl. rewrite Hl.
    destruct (ltb (get h (min_child ltb d dflt h (left cur))) v) eqn:E; simpl; auto.
    set (m := min_child ltb d dflt h (left cur)).
    destruct (m <=? (length h - 2) / d) eqn:Em.
    - apply Nat.leb_le in Em. specialize (IH (upd h cur (get h m)) m v).
      rewrite upd_length in IH. apply IH; auto.
    - apply Nat.leb_gt in Em. rewrite sift_down_loop_leaf; auto.
      rewrite upd_length. destruct (Nat.lt_ge_cases (left m) (length h)) as [L|L]; auto.
      apply (li_spec _ _ Hn) in L. lia.
  Qed.

  Lemma hfy_node_eq h cur : 2 <= length h -> cur <= (length h - 2) / d ->
    hfy_node ltb d dflt ((length h - 2) / d) h cur = sift_down ltb d dflt h cur.
  Proof. intros. unfold hfy_node, sift_down. now rewrite hfy_inner_eq. Qed.

  Lemma heapify_fold n : 2 <= n -> forall m h, m <= (n - 2) / d + 1 -> length h = n -> HeapFrom h m ->
    let h' := fold_left (hfy_node ltb d dflt ((n - 2) / d)) (rev (seq 0 m)) h in
    HeapInv h' /\ Permutation h' h.
  Proof.
    intros Hn. induction m as [|m IH]; intros h Hm Hl HF; cbv zeta.
    - simpl. split; auto.
    - rewrite seq_S, rev_app_distr. simpl rev. simpl app. cbn [fold_left].
      assert (E : hfy_node ltb d dflt ((n - 2) / d) h m = sift_down ltb d dflt h m)
        by (rewrite <- Hl; apply hfy_node_eq; rewrite Hl; lia).
      rewrite E.
      assert (Hk : m < length h).
      { assert (left m < n) by (apply li_spec; lia). unfold DAry.left in *. nia. }
      destruct (sift_down_spec h m m Hk (le_n _)) as [A B].
      { intros j Hj Hlo Pj. apply HF; auto; lia. }
      { intros Hm0 Hlo. pose proof (parent_lt m Hm0). lia. }
      destruct (IH (sift_down ltb d dflt h m)) as [C D]; auto; try lia.
      { rewrite <- Hl. symmetry. apply Permutation_length. apply Permutation_sym; auto. }
      split; auto. eapply Permutation_trans; eauto.
  Qed.

  Theorem heapify_ok h : HeapInv (heapify ltb d dflt h) /\ Permutation (heapify ltb d dflt h) h.
  Proof.
    unfold heapify. destruct (2 <=? length h) eqn:E.
    - apply Nat.leb_le in E.
      replace ((length h - 2) / d + 1) with ((length h - 2) / d + 1) by auto.
      apply (heapify_fold (length h) E); auto.
      intros j Hj Hlo. exfalso.
      pose proof (child_range j ltac:(lia)).
      assert (left (parent j) < length h) by lia.
      apply (li_spec _ _ E) in H0. lia.
    - apply Nat.leb_gt in E. split; auto. intros j Hj. lia.
  Qed.

  (** ** public operations *)
  Lemma nth_app_l (h : list K) x j : j < length h -> get (h ++ [x]) j = get h j.
  Proof. intros. unfold DAry.get. now rewrite app_nth1. Qed.

  Theorem push_ok h x : HeapInv h ->
    HeapInv (push ltb d dflt h x) /\ Permutation (push ltb d dflt h x) (x :: h).
  Proof.
    intros HI. unfold push.
    destruct (sift_up_spec (h ++ [x]) (length h)) as [A B].
    - rewrite app_length; simpl; lia.
    - intros j Hj Nj. rewrite app_length in Hj; simpl in Hj.
      assert (parent j < j) by (apply parent_lt; lia).
      rewrite !nth_app_l by lia. apply HI; lia.
    - intros _ _ j Hj Pj. rewrite app_length in Hj; simpl in Hj.
      pose proof (child_range j ltac:(lia)) as R. rewrite Pj in R. unfold DAry.left in R. nia.
    - split; auto. eapply Permutation_trans; [exact B|].
      apply Permutation_sym, Permutation_cons_append.
  Qed.

  Lemma root_le h : HeapInv h -> forall j, j < length h -> le (get h 0) (get h j).
  Proof.
    intros HI j. induction j as [j IH] using lt_wf_ind. intros Hj.
    destruct (Nat.eq_dec j 0) as [->|N]; [apply leb_refl; auto|].
    assert (parent j < j) by (apply parent_lt; lia).
    apply (leb_trans ltb HS _ (get h (parent j))); [apply IH; lia|apply HI; lia].
  Qed.

  Theorem top_min h x : HeapInv h -> top h = Some x -> forall y, In y h -> le x y.
  Proof.
    intros HI Ht y Hy. destruct h as [|x0 t]; [discriminate|]. injection Ht as ->.
    destruct (In_nth _ _ dflt Hy) as (j & Hj & <-).
    apply (root_le (x :: t) HI j Hj).
  Qed.

  Lemma pop_shape x t : t <> [] ->
    removelast (upd (x :: t) 0 (get (x :: t) (length (x :: t) - 1))) = last t dflt :: removelast t.
  Proof.
    intros Ht. destruct (exists_last Ht) as (t' & y & ->).
    assert (E : get (x :: t' ++ [y]) (length (x :: t' ++ [y]) - 1) = y).
    { unfold DAry.get. replace (length (x :: t' ++ [y]) - 1) with (S (length t')).
      - cbn [nth]. rewrite app_nth2 by lia. now rewrite Nat.sub_diag.
      - simpl length. rewrite app_length. simpl length. lia. }
    rewrite E. cbn [upd]. rewrite last_last.
    change (y :: t' ++ [y]) with ((y :: t') ++ [y]). now rewrite !removelast_last.
  Qed.

  Theorem pop_ok h x : HeapInv h -> top h = Some x ->
    HeapInv (pop ltb d dflt h) /\ Permutation (x :: pop ltb d dflt h) h.
  Proof.
    intros HI Ht. destruct h as [|x0 t]; [discriminate|]. injection Ht as ->.
    unfold pop. destruct t as [|y t].
    - simpl. split; auto. intros j Hj; simpl in Hj; lia.
    - rewrite pop_shape by discriminate.
      remember (y :: t) as t0 eqn:Et0.
      assert (Ht0 : t0 <> []) by (subst; discriminate).
      assert (Lt0 : 1 <= length t0) by (subst; simpl; lia).
      clear Et0.
      set (h1 := last t0 dflt :: removelast t0).
      assert (L1 : length h1 = length t0).
      { unfold h1. cbn [length]. rewrite removelast_length. lia. }
      assert (P1 : Permutation (x :: h1) (x :: t0)).
      { constructor. unfold h1. rewrite (app_removelast_last dflt Ht0) at 3.
        apply Permutation_cons_append. }
      assert (G : forall j, 0 < j < length h1 -> get h1 j = get (x :: t0) j).
      { intros j Hj. unfold h1, DAry.get. destruct j; [lia|]. simpl.
        destruct j; [destruct t0; [congruence|]|].
        - rewrite nth_removelast; auto. simpl in *. rewrite L1 in Hj. simpl in Hj. lia.
        - rewrite nth_removelast; auto. rewrite L1 in Hj. lia. }
      destruct (sift_down_spec h1 0 0) as [A B].
      + rewrite L1. destruct t0; [congruence|simpl; lia].
      + lia.
      + intros j Hj _ Pj. assert (parent j < j) by (apply parent_lt; lia).
        rewrite !G by lia. apply HI; simpl; lia.
      + intros H0; lia.
      + destruct h1 eqn:Eh; [simpl in L1; destruct t0; [congruence|discriminate]|].
        rewrite <- Eh in *. split; [exact A|].
        eapply Permutation_trans; [|exact P1]. now constructor.
  Qed.

  Theorem build_heap_ok h keys :
    HeapInv (build_heap ltb d dflt h keys) /\ Permutation (build_heap ltb d dflt h keys) keys.
  Proof. apply heapify_ok. Qed.

  Lemma HeapInv_nil : HeapInv [].
  Proof. intros j Hj; simpl in Hj; lia. Qed.

  (** ** draining yields the contents in non-decreasing order *)
  Theorem drain_sorted : forall n h, length h = n -> HeapInv h ->
    Sorted (sorted_rel ltb) (drain ltb d dflt n h) /\ Permutation (drain ltb d dflt n h) h.
  Proof.
    induction n as [|n IH]; intros h Hl HI.
    - destruct h; [|discriminate]. simpl. split; constructor.
    - destruct h as [|x t]; [discriminate|]. cbn [drain].
      destruct (pop_ok (x :: t) x HI eq_refl) as [A B].
      assert (L : length (pop ltb d dflt (x :: t)) = n).
      { apply Permutation_length in B. simpl in *. lia. }
      destruct (IH _ L A) as [S P]. split.
      + constructor; auto.
        destruct (drain ltb d dflt n (pop ltb d dflt (x :: t))) as [|y r] eqn:E; constructor.
        apply sorted_rel_leb. apply (top_min (x :: t) x HI eq_refl).
        apply (Permutation_in _ B). right. apply (Permutation_in _ P). now left.
      + eapply Permutation_trans; [|exact B]. now constructor.
  Qed.

  (** ** all histories *)
  Theorem dstep_inv h o : HeapInv h -> (o = DPop -> h <> []) -> HeapInv (dstep ltb d dflt h o).
  Proof.
    intros HI Hv. destruct o; simpl.
    - apply push_ok; auto.
    - destruct h as [|x t]; [exfalso; now apply Hv|]. eapply pop_ok; eauto. reflexivity.
    - apply heapify_ok.
    - apply heapify_ok.
    - apply HeapInv_nil.
  Qed.

  Theorem history_inv : forall ops h, HeapInv h -> dvalid ltb d dflt h ops = true ->
    HeapInv (fold_left (dstep ltb d dflt) ops h).
  Proof.
    induction ops as [|o r IH]; intros h HI Hv; simpl; auto.
    apply IH.
    - apply dstep_inv; auto. intros -> ->. simpl in Hv. discriminate.
    - simpl in Hv. destruct o; auto. destruct h; [discriminate|auto].
  Qed.

  (** sanity_check() decides the invariant *)
  Lemma sanity_check_iff h : sanity_check ltb d dflt h = true <-> HeapInv h.
  Proof.
    unfold sanity_check. rewrite forallb_forall. split.
    - intros H j Hj _. specialize (H j). rewrite in_seq in H. unfold leb. apply H. lia.
    - intros H j Hj. apply in_seq in Hj. apply (H j); lia.
  Qed.
End Proofs.

(** A heap that was ordered for a comparator [ltb0], after the priority of the element at position k changed
    (the new comparator [ltb] agrees with [ltb0] on all pairs of other positions), is ordered except at k:
    exactly the precondition of update(key) / fix_pos. *)
Lemma HeapExcept_of_change {K} (ltb ltb0 : K -> K -> bool) d dflt (h : list K) k :
  SWO ltb0 -> 1 <= d -> HeapInv ltb0 d dflt h ->
  (forall i j, i < length h -> j < length h -> i <> k -> j <> k ->
     ltb (get dflt h i) (get dflt h j) = ltb0 (get dflt h i) (get dflt h j)) ->
  HeapExcept ltb d dflt h k.
Proof.
  intros HS0 Hd HI Agree. split.
  - intros j Hj Nj Pj. pose proof (parent_lt d Hd j ltac:(lia)) as Pl.
    unfold leb. rewrite Agree by lia. apply (HI j); lia.
  - intros Hk _ j Hj Pj. pose proof (parent_lt d Hd j ltac:(lia)) as Pl. pose proof (parent_lt d Hd k Hk) as Pk.
    unfold leb. rewrite Agree by lia.
    change (leb ltb0 (get dflt h (parent d k)) (get dflt h j) = true).
    apply (leb_trans ltb0 HS0 _ (get dflt h k)); [apply (HI k); lia|rewrite <- Pj; apply (HI j); lia].
Qed.

(** the hypotheses of the theorems are satisfiable by a non-trivial heap *)
Example HeapInv_example : HeapInv Nat.ltb 3 0 [1; 4; 2; 9; 5] /\ ~ HeapInv Nat.ltb 3 0 [3; 1].
Proof.
  split.
  - apply (proj1 (sanity_check_iff Nat.ltb 3 0 ltac:(repeat constructor) [1; 4; 2; 9; 5])). reflexivity.
  - intros H. apply (proj2 (sanity_check_iff Nat.ltb 3 0 ltac:(repeat constructor) [3; 1])) in H. discriminate.
Qed.
