(** C13 — executable model of tlx::RadixHeap (tlx/container/radix_heap.hpp).

    Parameters: [w] = bit width of key_type (8, 16, 32, 64), [sgn] = key_type is signed, [rb] = radix_bits
    (Radix = 2^rb, rb in 1..6).  A key enters the model as its w-bit two's-complement pattern
    [static_cast<rank_type>(key)] (an [N] below 2^w); [rank_of_int] is the sign-bit xor of IntegerRank.
    Stored values are pairs (key pattern, payload); key_extract = fst (RadixHeapPair).
    A bucket vector is kept reversed (head = back()).  [filled_] (the BitArray tree) is modelled by its
    specification: a list of booleans with find_lsb = index of the first set bit.

    The bucket index is computed with the C++ integer-promotion semantics written in:  [bucket] is the
    behaviour after fixes/C13/01-*.patch (the bit position is taken relative to the PROMOTED type of
    x ^ insertion_limit), [shipped_row] is the 704fd0b computation, which for 8- and 16-bit keys subtracts a
    32-bit clz from (8*sizeof(Int)-1) in size_t arithmetic. *)
From Coq Require Import List NArith Arith Lia Bool.
From TLXV Require Import C13.DAry.
Import ListNotations.
Local Open Scope N_scope.

Section Radix.
  Variable w : N.
  Variable sgn : bool.
  Variable rb : N.

  Definition radix : N := 2 ^ rb.
  Definition mask : N := radix - 1.                 (* (1U << radix_bits) - 1 *)
  Definition maxr : N := 2 ^ w - 1.                 (* numeric_limits<ranked_key_type>::max() *)

  (** IntegerRank *)
  Definition rank_of_int (pat : N) : N := if sgn then N.lxor pat (2 ^ (w - 1)) else pat.
  Definition int_at_rank (r : N) : N := if sgn then N.lxor r (2 ^ (w - 1)) else r.

  (** num_buckets_(bits) = bits >= rb ? (Radix-1) + num_buckets_(bits-rb) : (1<<bits)-1 ;  num_buckets = num_buckets_(w)+1 *)
  Definition num_buckets : N := (w / rb) * (radix - 1) + 2 ^ (w mod rb).

  (** BucketComputation::operator().  diff_in_bit = (8*sizeof(diff)-1) - clz(diff) = index of the highest set
      bit of diff.  bucket_in_row = (digit - row) and result = row*Radix + bucket_in_row are size_t computations
      whose wrap-arounds cancel: result = row*Radix + digit - row exactly. *)
  Definition bucket (x limit : N) : N :=
    let diff := N.lxor x limit in
    if diff =? 0 then 0
    else let diff_in_bit := N.log2 diff in
         let row := diff_in_bit / rb in
         let digit := N.land (N.shiftr x (rb * row)) mask in
         row * radix + digit - row.

  (** 704fd0b: (8*sizeof(Int)-1) - clz(diff) with diff promoted to int (32-bit clz) when w < 32, in size_t *)
  Definition shipped_row (x limit : N) : N :=
    let diff := N.lxor x limit in
    let clz_promoted := if w <? 32 then 31 - N.log2 diff else (w - 1) - N.log2 diff in
    let diff_in_bit := (2 ^ 64 + (w - 1) - clz_promoted) mod 2 ^ 64 in
    diff_in_bit / rb.

  Definition value : Type := N * nat.

  Record rheap := {
    rsize : nat;                         (* size_ *)
    limit : N;                           (* insertion_limit_ *)
    cur : nat;                           (* current_bucket_ *)
    buckets : list (list value);         (* buckets_data_ , each reversed *)
    mins : list N;                       (* mins_ *)
    filled : list bool                   (* filled_ *)
  }.

  Definition nb : nat := N.to_nat num_buckets.

  Definition rinit : rheap :=
    {| rsize := 0; limit := 0; cur := 0; buckets := repeat [] nb; mins := repeat maxr nb; filled := repeat false nb |}.

  Fixpoint find_lsb (f : list bool) : nat :=
    match f with [] => 0 | true :: _ => 0 | false :: t => S (find_lsb t) end.

  Definition is_empty (b : list value) : bool := match b with [] => true | _ => false end.

  (** the body shared by push_to_bucket / emplace_in_bucket / the redistribution loop:
      if (bucket empty) filled_.set_bit(idx); push_back; if (mins_[idx] > enc) mins_[idx] = enc; *)
  Definition put (bs : list (list value)) (ms : list N) (fl : list bool) (idx : nat) (v : value) (enc : N) :=
    let b := nth idx bs [] in
    let fl' := if is_empty b then upd fl idx true else fl in
    let bs' := upd bs idx (v :: b) in
    let ms' := if enc <? nth idx ms 0 then upd ms idx enc else ms in
    (bs', ms', fl').

  (** push(value) / emplace(key, ...): returns the bucket index.  precondition: rank >= insertion_limit_ *)
  Definition push (s : rheap) (v : value) : rheap * nat :=
    let enc := rank_of_int (fst v) in
    let idx := N.to_nat (bucket enc (limit s)) in
    let '(bs, ms, fl) := put (buckets s) (mins s) (filled s) idx v enc in
    ({| rsize := S (rsize s); limit := limit s; cur := cur s; buckets := bs; mins := ms; filled := fl |}, idx).

  Definition reorganize (s : rheap) : rheap :=
    if negb (is_empty (nth (cur s) (buckets s) [])) then s
    else
      let ms1 := upd (mins s) (cur s) maxr in
      let fl1 := upd (filled s) (cur s) false in
      let fne := find_lsb fl1 in
      if N.of_nat fne <? radix
      then {| rsize := rsize s; limit := limit s; cur := fne; buckets := buckets s; mins := ms1; filled := fl1 |}
      else
        let new_limit := nth fne ms1 0 in
        let src := rev (nth fne (buckets s) []) in       (* for (auto& x : data_source) : front to back *)
        let '(bs2, ms2, fl2) :=
          fold_left (fun (st : list (list value) * list N * list bool) x =>
                       let '(bs, ms, fl) := st in
                       let key := rank_of_int (fst x) in
                       put bs ms fl (N.to_nat (bucket key new_limit)) x key)
                    src (buckets s, ms1, fl1) in
        let bs3 := upd bs2 fne [] in
        let ms3 := upd ms2 fne maxr in
        let fl3 := upd fl2 fne false in
        {| rsize := rsize s; limit := new_limit; cur := find_lsb fl3; buckets := bs3; mins := ms3; filled := fl3 |}.

  (** precondition of top / pop / swap_top_bucket / peak_top_key: !empty() *)
  Definition top (s : rheap) : rheap * option value :=
    let s' := reorganize s in (s', hd_error (nth (cur s') (buckets s') [])).

  Definition pop (s : rheap) : rheap :=
    let s' := reorganize s in
    let b := tl (nth (cur s') (buckets s') []) in
    {| rsize := rsize s' - 1; limit := limit s'; cur := cur s'; buckets := upd (buckets s') (cur s') b;
       mins := mins s'; filled := if is_empty b then upd (filled s') (cur s') false else filled s' |}.

  Definition swap_top_bucket (s : rheap) : rheap * list value :=
    let s' := reorganize s in
    let b := nth (cur s') (buckets s') [] in
    ({| rsize := rsize s' - length b; limit := limit s'; cur := cur s'; buckets := upd (buckets s') (cur s') [];
        mins := mins s'; filled := upd (filled s') (cur s') false |}, rev b).

  Definition peak_top_key (s : rheap) : N := int_at_rank (nth (find_lsb (filled s)) (mins s) 0).

  Definition clear (s : rheap) : rheap := rinit.

  (** ---- history runner (extracted) ---- *)
  Inductive rop := RPush (key : N) (payload : nat) | RTop | RPop | RSwap | RPeak | RClear.

  (** output: values returned (top: one, swap_top_bucket: the bucket front to back), a number
      (push: bucket index, peak: key pattern), size() afterwards *)
  Definition rout : Type := list value * option N * nat.

  Definition rstep (s : rheap) (o : rop) : rheap * rout :=
    match o with
    | RPush k p => let '(s', idx) := push s (k, p) in (s', ([], Some (N.of_nat idx), rsize s'))
    | RTop => let '(s', v) := top s in (s', (match v with Some x => [x] | None => [] end, None, rsize s'))
    | RPop => let s' := pop s in (s', ([], None, rsize s'))
    | RSwap => let '(s', b) := swap_top_bucket s in (s', (b, None, rsize s'))
    | RPeak => (s, ([], Some (peak_top_key s), rsize s))
    | RClear => (rinit, ([], None, 0%nat))
    end.

  Fixpoint rrun (s : rheap) (ops : list rop) : list rout :=
    match ops with
    | [] => []
    | o :: r => let '(s', out) := rstep s o in out :: rrun s' r
    end.
End Radix.
