(** C13 — DAryAddressableIntHeap: every history over an external priority table that respects the documented
    preconditions keeps the full invariant (heap order for the CURRENT table, distinct keys, exact handles), so that
    after every operation contains() is exact and top() is a minimum.

    The history type and its interpreter [astep] are those of Addr.v (the ones run against the real class):
    push / remove / pop / update (priority of one key changes, then update(key)) / silent priority changes followed by
    update_all / build_heap / clear.  [aop_ok] is the executable precondition:
      push: key <> not_present, not contained;  remove: contained;  pop: non-empty;  update: key <> not_present;
      build_heap: keys distinct and <> not_present;
      after a silent priority change (ASet) only further ASet, update_all, build_heap, clear are allowed
      ("if not called after a priority is changed, the behavior of the data structure is undefined"). *)
From Coq Require Import List Arith Lia Bool Sorting.Permutation.
From TLXV Require Import Common.Order C13.DAry C13.DAryProofs C13.Addr C13.AddrProofs C13.AddrRemove.
Import ListNotations.

Lemma SWO_tab prio rv : SWO (tab_ltb prio rv).
Proof.
  unfold tab_ltb. destruct rv.
  - apply (SWO_flip (fun a b => nth a prio 0 <? nth b prio 0)). apply (SWO_on Nat.ltb (fun a => nth a prio 0)), SWO_nat.
  - apply (SWO_on Nat.ltb (fun a => nth a prio 0)), SWO_nat.
Qed.

Lemma nth_repeat0 m n : nth n (repeat 0 m) 0 = 0.
Proof. revert n; induction m as [|m IH]; intros [|n]; simpl; auto. Qed.

Lemma nth_set_prio prio k p a : a <> k -> nth a (set_prio prio k p) 0 = nth a prio 0.
Proof.
  intros N. unfold set_prio. rewrite nth_upd_neq by auto.
  destruct (Nat.lt_ge_cases a (length prio)) as [L|G].
  - now rewrite app_nth1.
  - rewrite app_nth2 by auto. rewrite (nth_overflow prio) by auto.
    apply nth_repeat0.
Qed.

Lemma tab_ltb_agree prio rv k p a b : a <> k -> b <> k ->
  tab_ltb (set_prio prio k p) rv a b = tab_ltb prio rv a b.
Proof. intros. unfold tab_ltb. now rewrite !nth_set_prio. Qed.

Lemma HeapInv_transfer {K} (ltb ltb' : K -> K -> bool) d dflt h : 1 <= d ->
  (forall i j, i < length h -> j < length h -> ltb' (get dflt h i) (get dflt h j) = ltb (get dflt h i) (get dflt h j)) ->
  HeapInv ltb d dflt h -> HeapInv ltb' d dflt h.
Proof.
  intros Hd Ag HI j Hj _. pose proof (parent_lt d Hd j ltac:(lia)).
  unfold leb. rewrite Ag by lia. apply (HI j); lia.
Qed.

Fixpoint nodupb (l : list nat) : bool :=
  match l with [] => true | x :: t => negb (existsb (Nat.eqb x) t) && nodupb t end.

Lemma nodupb_NoDup l : nodupb l = true -> NoDup l.
Proof.
  induction l as [|x t IH]; simpl; [constructor|]. intros H. apply andb_true_iff in H. destruct H as [A B].
  constructor; auto. intros C. apply negb_true_iff in A.
  assert (existsb (Nat.eqb x) t = true); [|congruence].
  apply existsb_exists. exists x. split; auto. apply Nat.eqb_refl.
Qed.

Section History.
  Variable d np : nat.
  Variable rv : bool.
  Hypothesis Hd : 1 <= d.

  (** handle part of the invariant (what survives a silent priority change) *)
  Definition HInv (a : aheap) : Prop :=
    NoDup (fst a) /\ (forall x, In x (fst a) -> x < np) /\ HF (fst a) (snd a) /\ HB np (fst a) (snd a).

  Definition SInv (st : list nat * aheap) (dirty : bool) : Prop :=
    if dirty then HInv (snd st) else AInv (tab_ltb (fst st) rv) d np (snd st).

  Definition aop_ok (st : list nat * aheap) (dirty : bool) (o : aop) : bool :=
    let a := snd st in
    match o with
    | APush k _ => negb dirty && (k <? np) && negb (contains np a k)
    | ARemove k => negb dirty && contains np a k
    | APop => negb dirty && negb (size a =? 0)
    | AUpdate k _ => negb dirty && (k <? np)
    | ASet _ _ => true
    | AUpdateAll => true
    | ABuild kps => nodupb (map fst kps) && forallb (fun k => k <? np) (map fst kps)
    | AClear => true
    end.

  Definition next_dirty (dirty : bool) (o : aop) : bool :=
    match o with
    | ASet _ _ => true
    | AUpdateAll | ABuild _ | AClear => false
    | _ => dirty
    end.

  Fixpoint avalid (st : list nat * aheap) (dirty : bool) (ops : list aop) : bool :=
    match ops with
    | [] => true
    | o :: r => aop_ok st dirty o && avalid (astep d np rv st o) (next_dirty dirty o) r
    end.

  Fixpoint final_dirty (dirty : bool) (ops : list aop) : bool :=
    match ops with [] => dirty | o :: r => final_dirty (next_dirty dirty o) r end.

  Lemma AInv_HInv ltb a : AInv ltb d np a -> HInv a.
  Proof. intros (_ & A & B & C & D). exact (conj A (conj B (conj C D))). Qed.

  Lemma SInv_HInv st dirty : SInv st dirty -> HInv (snd st).
  Proof. destruct dirty; simpl; auto. apply AInv_HInv. Qed.

  (** changing the priority of a key that is not stored keeps the invariant *)
  Lemma AInv_set_absent prio a k p : AInv (tab_ltb prio rv) d np a -> ~ In k (fst a) ->
    AInv (tab_ltb (set_prio prio k p) rv) d np a.
  Proof.
    intros (HI & R) Nin. split; auto.
    apply (HeapInv_transfer (tab_ltb prio rv)); auto.
    intros i j Hi Hj. apply tab_ltb_agree; intros E; apply Nin; rewrite <- E; apply nth_In; auto.
  Qed.

  Theorem astep_inv st dirty o : SInv st dirty -> aop_ok st dirty o = true ->
    SInv (astep d np rv st o) (next_dirty dirty o).
  Proof.
    intros I V. destruct st as [prio a]. pose proof (SInv_HInv _ _ I) as HH. cbn [snd] in HH.
    destruct o as [k p|k| |k p|k p| |kps|]; cbn [astep next_dirty aop_ok snd] in *.
    - (* push *)
      apply andb_true_iff in V. destruct V as [V V3]. apply andb_true_iff in V. destruct V as [V1 V2].
      apply negb_true_iff in V1. subst dirty. cbn [SInv fst snd] in *.
      apply Nat.ltb_lt in V2. apply negb_true_iff in V3.
      assert (Nin : ~ In k (fst a)).
      { intros C. apply (contains_iff _ d np Hd a k I) in C. congruence. }
      apply (AddrProofs.push_ok _ d np (SWO_tab _ rv) Hd a k); auto. now apply AInv_set_absent.
    - (* remove *)
      apply andb_true_iff in V. destruct V as [V1 V2]. apply negb_true_iff in V1. subst dirty. cbn [SInv fst snd] in *.
      apply (contains_iff _ d np Hd a k I) in V2.
      apply (remove_ok _ d np (SWO_tab _ rv) Hd a k I V2).
    - (* pop *)
      apply andb_true_iff in V. destruct V as [V1 V2]. apply negb_true_iff in V1. subst dirty. cbn [SInv fst snd] in *.
      apply negb_true_iff, Nat.eqb_neq in V2. destruct a as [[|x t] hd]; [exfalso; apply V2; reflexivity|].
      apply (pop_ok _ d np (SWO_tab _ rv) Hd (x :: t, hd) x I eq_refl).
    - (* update after the priority of k changed *)
      apply andb_true_iff in V. destruct V as [V1 V2]. apply negb_true_iff in V1. subst dirty. cbn [SInv fst snd] in *.
      apply Nat.ltb_lt in V2.
      destruct (in_dec Nat.eq_dec k (fst a)) as [Hin|Nin].
      + destruct HH as (ND & B & F & Bk).
        apply (update_present_ok _ d np (SWO_tab _ rv) Hd a k); auto.
        destruct a as [h hd]. cbn [fst snd] in *.
        destruct (In_nth _ _ 0 Hin) as (i & Hi & Ei). fold (get 0 h i) in Ei.
        destruct (F i Hi) as [_ Kh]. rewrite Ei in Kh. rewrite Kh.
        apply (HeapExcept_of_change _ (tab_ltb prio rv)); auto; [apply SWO_tab|apply I|].
        intros a b Ha Hb Na Nb. apply tab_ltb_agree; rewrite <- Ei; intros E;
          apply (nodup_get h) in E; auto.
      + pose proof (AInv_set_absent prio a k p I Nin) as I'.
        rewrite (update_absent _ d np Hd a k I' Nin).
        apply (AddrProofs.push_ok _ d np (SWO_tab _ rv) Hd a k); auto.
    - (* silent priority change *) exact HH.
    - (* update_all *)
      destruct HH as (ND & B & _). apply (update_all_ok _ d np (SWO_tab _ rv) Hd a ND B).
    - (* build_heap *)
      apply andb_true_iff in V. destruct V as [V1 V2]. apply nodupb_NoDup in V1.
      apply (build_heap_ok _ d np (SWO_tab _ rv) Hd a (map fst kps) V1).
      intros x Hx. rewrite forallb_forall in V2. apply Nat.ltb_lt. now apply V2.
    - (* clear *) apply clear_ok; auto.
  Qed.

  (** Every precondition-respecting history, from any state satisfying the invariant (e.g. the empty heap). *)
  Theorem addr_history_inv : forall ops st dirty, SInv st dirty -> avalid st dirty ops = true ->
    SInv (fold_left (astep d np rv) ops st) (final_dirty dirty ops).
  Proof.
    induction ops as [|o r IH]; intros st dirty I V; simpl; auto.
    simpl in V. apply andb_true_iff in V. destruct V as [V1 V2].
    apply IH; auto. now apply astep_inv.
  Qed.

  Lemma SInv_init : SInv ainit false.
  Proof. unfold SInv, ainit. cbn [fst snd]. apply (AInv_empty _ d np Hd 0). Qed.

  (** In every state reached with all priority changes announced: contains() is exact and top() is a minimum. *)
  Theorem addr_history_observations : forall ops st dirty, SInv st dirty -> avalid st dirty ops = true ->
    final_dirty dirty ops = false ->
    let st' := fold_left (astep d np rv) ops st in
    (forall key, contains np (snd st') key = true <-> In key (fst (snd st'))) /\
    (forall x, Addr.top (snd st') = Some x ->
       forall y, In y (fst (snd st')) -> leb (tab_ltb (fst st') rv) x y = true).
  Proof.
    intros ops st dirty I V FD. cbv zeta.
    pose proof (addr_history_inv ops st dirty I V) as J. rewrite FD in J. cbn [SInv] in J. split.
    - intros key. exact (contains_iff _ d np Hd _ key J).
    - intros x Ht y Hy. apply (top_min _ d 0 (SWO_tab _ rv) Hd (fst (snd (fold_left (astep d np rv) ops st))) x); auto.
      apply J.
  Qed.
End History.

(** the precondition checker accepts non-trivial histories (the hypotheses of the history theorem are satisfiable) *)
Example avalid_example :
  avalid 2 255 false ainit false
    [APush 3 5; APush 1 2; APush 7 4; AUpdate 3 0; AUpdate 9 1; ARemove 1; ASet 3 9; ASet 7 0; AUpdateAll;
     ABuild [(4, 1); (5, 0); (6, 3)]; APop; AClear; APush 2 2] = true.
Proof. vm_compute. reflexivity. Qed.
