(** C13 — executable model of tlx::DAryHeap (tlx/container/d_ary_heap.hpp).

    [heap_] is a [list K]; [Arity] is the parameter [d] (the class static_asserts d >= 1); [cmp_] is [ltb].
    The loops are modelled in the "hole" style of the C++: [value] is taken out of position [k], elements are
    moved into the hole, [value] is written back at the end.  Loops are structural recursions on a fuel that is
    provably never exhausted (k strictly decreases in sift_up, strictly increases in sift_down); the scan for
    the minimum child is a fold over the index range.  [nth] has a default [dflt]; all theorems carry the
    in-range hypotheses, so the default is never observed. *)
From Coq Require Import List Arith Lia Bool.
Import ListNotations.

Fixpoint upd {A} (l : list A) (i : nat) (x : A) : list A :=
  match l with
  | [] => []
  | y :: t => match i with 0 => x :: t | S i' => y :: upd t i' x end
  end.

Section DAry.
  Context {K : Type}.
  Variable ltb : K -> K -> bool.     (* cmp_ *)
  Variable d : nat.                  (* Arity *)
  Variable dflt : K.

  Definition get (h : list K) (i : nat) : K := nth i h dflt.

  (** size_t left(k) = arity*k+1 ; parent(k) = (k-1)/arity (only used for k > 0) *)
  Definition left (k : nat) : nat := d * k + 1.
  Definition parent (k : nat) : nat := (k - 1) / d.

  (** sift_up: while (k > 0 && !cmp_(heap_[p], value)) { heap_[k] = heap_[p]; k = p; p = parent(k); } *)
  Fixpoint sift_up_loop (fuel : nat) (h : list K) (k : nat) (value : K) : list K * nat :=
    match fuel with
    | 0 => (h, k)
    | S f =>
      if (0 <? k) && negb (ltb (get h (parent k)) value)
      then sift_up_loop f (upd h k (get h (parent k))) (parent k) value
      else (h, k)
    end.

  Definition sift_up (h : list K) (k : nat) : list K :=
    let value := get h k in
    let '(h', k') := sift_up_loop k h k value in
    upd h' k' value.

  (** c = l; right = min(size, c + arity); while (++l < right) if (cmp_(heap_[l], heap_[c])) c = l;
      (heapify scans the same index range with the test  j - l < arity && j < size) *)
  Definition min_child (h : list K) (l : nat) : nat :=
    fold_left (fun c j => if ltb (get h j) (get h c) then j else c)
              (seq (l + 1) (Nat.min (length h) (l + d) - (l + 1))) l.

  (** sift_down: while (true) { l = left(k); if (l >= size) break; c = min child;
                                if (!cmp_(heap_[c], value)) break; heap_[k] = heap_[c]; k = c; } *)
  Fixpoint sift_down_loop (fuel : nat) (h : list K) (k : nat) (value : K) : list K * nat :=
    match fuel with
    | 0 => (h, k)
    | S f =>
      let l := left k in
      if length h <=? l then (h, k)
      else
        let c := min_child h l in
        if negb (ltb (get h c) value) then (h, k)
        else sift_down_loop f (upd h k (get h c)) c value
    end.

  Definition sift_down (h : list K) (k : nat) : list K :=
    let value := get h k in
    let '(h', k') := sift_down_loop (length h) h k value in
    upd h' k' value.

  (** heapify(): the inner do { ... } while (cur <= last_internal) loop *)
  Fixpoint hfy_inner (fuel : nat) (h : list K) (cur : nat) (value : K) (li : nat) : list K * nat :=
    match fuel with
    | 0 => (h, cur)
    | S f =>
      let m := min_child h (left cur) in
      if ltb (get h m) value
      then let h' := upd h cur (get h m) in
           if m <=? li then hfy_inner f h' m value li else (h', m)
      else (h, cur)
    end.

  Definition hfy_node (li : nat) (h : list K) (cur : nat) : list K :=
    let value := get h cur in
    let '(h', c') := hfy_inner (length h) h cur value li in
    upd h' c' value.

  (** for (i = last_internal + 1; i != 0; --i) { cur = i - 1; ... } *)
  Definition heapify (h : list K) : list K :=
    if 2 <=? length h
    then let li := (length h - 2) / d in
         fold_left (hfy_node li) (rev (seq 0 (li + 1))) h
    else h.

  (** public interface *)
  Definition push (h : list K) (x : K) : list K := sift_up (h ++ [x]) (length h).

  Definition top (h : list K) : option K := match h with [] => None | x :: _ => Some x end.

  (** std::swap(heap_[0], heap_.back()); heap_.pop_back(); if (!heap_.empty()) sift_down(0);
      precondition: !empty() *)
  Definition pop (h : list K) : list K :=
    let h1 := removelast (upd h 0 (get h (length h - 1))) in
    match h1 with [] => h1 | _ => sift_down h1 0 end.

  Definition update_all (h : list K) : list K := heapify h.
  Definition build_heap (h : list K) (keys : list K) : list K := heapify keys.
  Definition clear (h : list K) : list K := [].

  (** sanity_check(): no child is strictly less than its parent (BFS order = index order) *)
  Definition sanity_check (h : list K) : bool :=
    forallb (fun i => negb (ltb (get h i) (get h (parent i)))) (seq 1 (length h - 1)).

  (** drain: extract_top until empty *)
  Fixpoint drain (fuel : nat) (h : list K) : list K :=
    match fuel with
    | 0 => []
    | S f => match h with [] => [] | x :: _ => x :: drain f (pop h) end
    end.
End DAry.

(** ---- histories over a fixed comparator (used by the theorems) ---- *)
Inductive dop (K : Type) :=
| DPush (x : K) | DPop | DUpdateAll | DBuild (keys : list K) | DClear.
Arguments DPush {K} x. Arguments DPop {K}. Arguments DUpdateAll {K}. Arguments DBuild {K} keys. Arguments DClear {K}.

Definition dstep {K} (ltb : K -> K -> bool) (d : nat) (dflt : K) (h : list K) (o : dop K) : list K :=
  match o with
  | DPush x => push ltb d dflt h x
  | DPop => pop ltb d dflt h
  | DUpdateAll => update_all ltb d dflt h
  | DBuild keys => build_heap ltb d dflt h keys
  | DClear => []
  end.

(** precondition of the class: pop only on a non-empty heap *)
Fixpoint dvalid {K} (ltb : K -> K -> bool) (d : nat) (dflt : K) (h : list K) (ops : list (dop K)) : bool :=
  match ops with
  | [] => true
  | o :: r => match o, h with DPop, [] => false | _, _ => dvalid ltb d dflt (dstep ltb d dflt h o) r end
  end.

(** ---- executable history runner over an external priority table (extracted; used by the correspondence) ----
    keys are small naturals, the comparator reads a priority table that the history mutates:
    cmp(a,b) = prio[a] < prio[b]   (rev = true: prio[a] > prio[b], i.e. a max-heap on the table) *)
Definition tab_ltb (prio : list nat) (rv : bool) (a b : nat) : bool :=
  if rv then nth b prio 0 <? nth a prio 0 else nth a prio 0 <? nth b prio 0.

Inductive top_op :=
| TPush (k p : nat)            (* prio[k] := p; push(k) *)
| TPop
| TSet (k p : nat)             (* prio[k] := p only (heap order may be broken until update_all) *)
| TUpdateAll
| TBuild (kps : list (nat * nat))   (* prio[k] := p for all, build_heap(keys) *)
| TClear.

Definition set_prio (prio : list nat) (k p : nat) : list nat :=
  upd (prio ++ repeat 0 (S k - length prio)) k p.

Definition tstep (d : nat) (rv : bool) (st : list nat * list nat) (o : top_op) : list nat * list nat :=
  let '(prio, h) := st in
  match o with
  | TPush k p => let prio' := set_prio prio k p in (prio', push (tab_ltb prio' rv) d 0 h k)
  | TPop => (prio, pop (tab_ltb prio rv) d 0 h)
  | TSet k p => (set_prio prio k p, h)
  | TUpdateAll => (prio, update_all (tab_ltb prio rv) d 0 h)
  | TBuild kps => let prio' := fold_left (fun pr kp => set_prio pr (fst kp) (snd kp)) kps prio in
                  (prio', build_heap (tab_ltb prio' rv) d 0 h (map fst kps))
  | TClear => (prio, [])
  end.

(** observation after every operation: size, top key, sanity_check *)
Definition tobs (d : nat) (rv : bool) (st : list nat * list nat) : nat * option nat * bool :=
  let '(prio, h) := st in (length h, top h, sanity_check (tab_ltb prio rv) d 0 h).

Fixpoint trun (d : nat) (rv : bool) (st : list nat * list nat) (ops : list top_op)
  : list (nat * option nat * bool) :=
  match ops with
  | [] => []
  | o :: r => let st' := tstep d rv st o in tobs d rv st' :: trun d rv st' r
  end.
