(** C13 — RadixHeap: the bucket invariant (RadixInv) and its preservation; top is a minimum on monotone histories.

    Per bucket b (Bok): every stored value has limit <= rank < 2^w and bucket(rank, limit) = b; mins_[b] is a lower
    bound of the ranks and, if the bucket is non-empty, attained; filled_[b] <-> bucket non-empty; an empty bucket has
    mins_[b] = max unless it is the current bucket, whose stale minimum is still "the" key of that first-row bucket. *)
From Coq Require Import List NArith Arith Lia Bool Sorting.Permutation.
From TLXV Require Import C13.DAry C13.DAryProofs C13.Radix C13.RadixProofs C13.RadixArith.
Import ListNotations.
Local Open Scope N_scope.

Section RadixInv.
  Variable w : N.
  Variable sgn : bool.
  Variable rb : N.
  Hypothesis Hrb : 0 < rb.
  Hypothesis Hw : 0 < w.

  Notation rank := (rank_of_int w sgn).
  Notation bkt := (bucket rb).
  Notation nbk := (nb w rb).
  Definition rk (v : value) : N := rank (fst v).
  Definition bidx (x lim : N) : nat := N.to_nat (bkt x lim).

  Lemma rank_lt pat : pat < 2 ^ w -> rank pat < 2 ^ w.
  Proof.
    intros H. unfold rank_of_int. destruct sgn; auto. apply lxor_lt_pow2; auto.
    apply N.pow_lt_mono_r; lia.
  Qed.

  Lemma bidx_lt x lim : x < 2 ^ w -> lim < 2 ^ w -> (bidx x lim < nbk)%nat.
  Proof. intros. unfold bidx, nb. pose proof (bucket_in_range w rb x lim Hrb H H0). lia. Qed.

  (** ** one bucket *)
  Definition Bok (lim : N) (b : nat) (l : list value) (m : N) (f : bool) (stale_ok : bool) : Prop :=
    (forall v, In v l -> lim <= rk v /\ rk v < 2 ^ w /\ bidx (rk v) lim = b /\ m <= rk v) /\
    f = negb (is_empty l) /\
    (l <> [] -> exists v, In v l /\ rk v = m) /\
    (l = [] -> m = maxr w \/ (stale_ok = true /\ N.of_nat b < B rb /\ lim <= m /\ m < 2 ^ w /\ bidx m lim = b)).

  Lemma Bok_put lim b l m f st v :
    Bok lim b l m f st -> lim <= rk v -> rk v < 2 ^ w -> bidx (rk v) lim = b ->
    Bok lim b (v :: l) (if rk v <? m then rk v else m) (if is_empty l then true else f) st.
  Proof.
    intros (E & F & X & S) L1 L2 L3. unfold Bok.
    assert (Mn : (if rk v <? m then rk v else m) <= rk v /\ (if rk v <? m then rk v else m) <= m).
    { destruct (rk v <? m) eqn:C; [apply N.ltb_lt in C|apply N.ltb_ge in C]; lia. }
    refine (conj _ (conj _ (conj _ _))).
    - intros u [<-|Hu]; [repeat split; auto; lia|]. destruct (E u Hu) as (A1 & A2 & A3 & A4). repeat split; auto. lia.
    - destruct l; simpl in *; auto.
    - intros _. destruct (rk v <? m) eqn:C; [exists v; split; [now left|reflexivity]|]. apply N.ltb_ge in C.
      destruct l as [|u l'].
      + exists v. split; [now left|]. destruct (S eq_refl) as [->|(_ & Sb & S1 & S2 & S3)].
        * unfold maxr in *. lia.
        * symmetry. apply (bucket_row0_inj rb Hrb lim m (rk v)); auto.
          -- unfold bidx in *. lia.
          -- unfold bidx in S3. lia.
      + destruct (X ltac:(discriminate)) as (u0 & Hu0 & Eu0). exists u0. split; [now right|auto].
    - discriminate.
  Qed.

  Lemma concat_upd {A} (bs : list (list A)) : forall i l', (i < length bs)%nat ->
    Permutation (nth i bs [] ++ concat (upd bs i l')) (l' ++ concat bs).
  Proof.
    induction bs as [|b t IH]; intros [|i] l' Hi; simpl in *; try lia.
    - apply Permutation_app_swap_app.
    - eapply Permutation_trans; [apply Permutation_app_swap_app|].
      eapply Permutation_trans; [|apply Permutation_app_swap_app].
      apply Permutation_app_head. apply IH. lia.
  Qed.

  Lemma put_contents bs ms fl idx v enc : (idx < length bs)%nat ->
    Permutation (concat (fst (fst (put bs ms fl idx v enc)))) (v :: concat bs).
  Proof.
    intros Hi. unfold put. cbn [fst].
    pose proof (concat_upd bs idx (v :: nth idx bs []) Hi) as P.
    apply (Permutation_app_inv_l (nth idx bs [])).
    eapply Permutation_trans; [exact P|]. simpl. apply Permutation_middle.
  Qed.

  (** ** the three arrays, pointwise *)
  Definition Arr (lim : N) (cur : nat) (bs : list (list value)) (ms : list N) (fl : list bool) : Prop :=
    length bs = nbk /\ length ms = nbk /\ length fl = nbk /\
    forall b, (b < nbk)%nat -> Bok lim b (nth b bs []) (nth b ms 0) (nth b fl false) (b =? cur)%nat.

  Lemma put_nth bs ms fl idx v enc : (idx < length bs)%nat -> length ms = length bs -> length fl = length bs ->
    let '(bs', ms', fl') := put bs ms fl idx v enc in
    length bs' = length bs /\ length ms' = length ms /\ length fl' = length fl /\
    nth idx bs' [] = v :: nth idx bs [] /\
    nth idx ms' 0 = (if enc <? nth idx ms 0 then enc else nth idx ms 0) /\
    nth idx fl' false = (if is_empty (nth idx bs []) then true else nth idx fl false) /\
    forall b, b <> idx -> nth b bs' [] = nth b bs [] /\ nth b ms' 0 = nth b ms 0 /\ nth b fl' false = nth b fl false.
  Proof.
    intros Hi Lm Lf. unfold put.
    refine (conj _ (conj _ (conj _ (conj _ (conj _ (conj _ _)))))).
    - apply upd_length.
    - destruct (enc <? nth idx ms 0); auto. apply upd_length.
    - destruct (is_empty (nth idx bs [])); auto. apply upd_length.
    - now apply nth_upd_eq.
    - destruct (enc <? nth idx ms 0); auto. apply nth_upd_eq. rewrite Lm. exact Hi.
    - destruct (is_empty (nth idx bs [])); auto. apply nth_upd_eq. rewrite Lf. exact Hi.
    - intros b Nb. repeat split.
      + apply nth_upd_neq; auto.
      + destruct (enc <? nth idx ms 0); auto. apply nth_upd_neq; auto.
      + destruct (is_empty (nth idx bs [])); auto. apply nth_upd_neq; auto.
  Qed.

  Lemma Arr_put lim cur bs ms fl v :
    Arr lim cur bs ms fl -> lim <= rk v -> rk v < 2 ^ w -> lim < 2 ^ w ->
    let '(bs', ms', fl') := put bs ms fl (bidx (rk v) lim) v (rk v) in
    Arr lim cur bs' ms' fl' /\ nth (bidx (rk v) lim) bs' [] = v :: nth (bidx (rk v) lim) bs [] /\
    forall b, b <> bidx (rk v) lim -> nth b bs' [] = nth b bs [].
  Proof.
    intros (Lb & Lm & Lf & P) L1 L2 L3.
    pose proof (bidx_lt (rk v) lim L2 L3) as Hi.
    pose proof (put_nth bs ms fl (bidx (rk v) lim) v (rk v) ltac:(lia) ltac:(lia) ltac:(lia)) as PN.
    destruct (put bs ms fl (bidx (rk v) lim) v (rk v)) as [[bs' ms'] fl'].
    destruct PN as (A1 & A2 & A3 & A4 & A5 & A6 & A7).
    split; [|split; [exact A4|intros b Nb; apply (A7 b Nb)]].
    split; [congruence|]. split; [congruence|]. split; [congruence|].
    intros b Hb. destruct (Nat.eq_dec b (bidx (rk v) lim)) as [->|Nb].
    - rewrite A4, A5, A6. apply Bok_put; auto.
    - destruct (A7 b Nb) as (E1 & E2 & E3). rewrite E1, E2, E3. auto.
  Qed.

  (** ** the whole heap; [fr] is the ghost frontier = rank of the most recently extracted minimum (0 after clear) *)
  Definition RInv (s : rheap) (fr : N) : Prop :=
    Arr (limit s) (cur s) (buckets s) (mins s) (filled s) /\
    limit s < 2 ^ w /\ N.of_nat (cur s) < B rb /\ (cur s < nbk)%nat /\
    (forall b, (b < cur s)%nat -> nth b (buckets s) [] = []) /\
    limit s <= fr /\ fr < 2 ^ w /\ (cur s <= bidx fr (limit s))%nat.

  Lemma nbk_pos : (0 < nbk)%nat.
  Proof.
    assert (H : 0 < num_buckets w rb).
    { unfold num_buckets. apply N.add_pos_r. apply N.neq_0_lt_0, N.pow_nonzero. lia. }
    unfold nb. revert H. generalize (num_buckets w rb). intros. lia.
  Qed.

  Lemma B_pos : 0 < B rb.
  Proof. pose proof (B_ge2 rb Hrb). lia. Qed.

  Lemma nth_repeat_any {A} (a dd : A) m n : (n < m)%nat -> nth n (repeat a m) dd = a.
  Proof. revert n; induction m as [|m IH]; intros [|n] H; simpl; auto; try lia. apply IH; lia. Qed.

  Theorem rinit_inv : RInv (rinit w rb) 0.
  Proof.
    pose proof nbk_pos. pose proof B_pos.
    assert (P : 0 < 2 ^ w) by (apply N.neq_0_lt_0, N.pow_nonzero; lia).
    unfold RInv, rinit. cbn [limit cur buckets mins filled].
    refine (conj _ (conj P (conj _ (conj _ (conj _ (conj _ (conj P _))))))).
    - unfold Arr. rewrite !repeat_length. split; auto. split; auto. split; auto.
      intros b Hb. rewrite !nth_repeat_any by auto. unfold Bok. refine (conj _ (conj eq_refl (conj _ _))).
      + intros v [].
      + intros C. congruence.
      + intros _. now left.
    - simpl. exact H0.
    - exact H.
    - intros b Hb. lia.
    - lia.
    - unfold bidx. rewrite bucket_same. simpl. lia.
  Qed.

  Theorem clear_inv s : RInv (clear w rb s) 0.
  Proof. apply rinit_inv. Qed.

  Lemma bidx_mono lim x y : lim <= x -> x <= y -> (bidx x lim <= bidx y lim)%nat.
  Proof. intros. unfold bidx. pose proof (bucket_mono rb Hrb lim x y H H0). lia. Qed.

  (** push / emplace of a key not smaller than the frontier *)
  Theorem push_inv s fr v : RInv s fr -> fst v < 2 ^ w -> fr <= rk v ->
    RInv (fst (push w sgn rb s v)) fr /\ snd (push w sgn rb s v) = bidx (rk v) (limit s) /\
    nth (bidx (rk v) (limit s)) (buckets (fst (push w sgn rb s v))) [] = v :: nth (bidx (rk v) (limit s)) (buckets s) [] /\
    forall b, b <> bidx (rk v) (limit s) -> nth b (buckets (fst (push w sgn rb s v))) [] = nth b (buckets s) [].
  Proof.
    intros (A & L & C1 & C2 & G & F1 & F2 & F3) Hv Hfr.
    pose proof (rank_lt (fst v) Hv) as Rv. fold (rk v) in Rv.
    pose proof (Arr_put (limit s) (cur s) (buckets s) (mins s) (filled s) v A ltac:(lia) Rv L) as AP.
    unfold push. fold (rk v). fold (bidx (rk v) (limit s)).
    destruct (put (buckets s) (mins s) (filled s) (bidx (rk v) (limit s)) v (rk v)) as [[bs' ms'] fl'].
    destruct AP as (A' & E1 & E2). cbn [fst snd buckets].
    split; [|split; [reflexivity|split; [exact E1|exact E2]]].
    unfold RInv. cbn [limit cur buckets mins filled].
    refine (conj A' (conj L (conj C1 (conj C2 (conj _ (conj F1 (conj F2 F3))))))).
    intros b Hb. rewrite E2; auto.
    pose proof (bidx_mono (limit s) fr (rk v) F1 Hfr). lia.
  Qed.

  (** find_lsb = least set index *)
  Lemma find_lsb_spec f : forall b, (b < length f)%nat -> nth b f false = true ->
    (find_lsb f <= b)%nat /\ nth (find_lsb f) f false = true /\
    forall j, (j < find_lsb f)%nat -> nth j f false = false.
  Proof.
    induction f as [|x f IH]; intros b Hb Hn; simpl in *; [lia|].
    destruct x.
    - split; [lia|]. split; auto. intros j Hj. lia.
    - destruct b as [|b]; [discriminate|]. destruct (IH b ltac:(lia) Hn) as (A1 & A2 & A3).
      split; [lia|]. split; auto. intros [|j] Hj; auto. apply A3. lia.
  Qed.

  (** elements of the current (first-row) bucket are minimal among everything stored *)
  Theorem cur_bucket_min s fr v : RInv s fr -> In v (nth (cur s) (buckets s) []) ->
    forall b u, (b < nbk)%nat -> In u (nth b (buckets s) []) -> rk v <= rk u.
  Proof.
    intros (A & L & C1 & C2 & G & _) Hv b u Hb Hu.
    destruct A as (_ & _ & _ & P).
    destruct (P (cur s) C2) as (Ec & _). destruct (Ec v Hv) as (V1 & V2 & V3 & _).
    destruct (P b Hb) as (Eb & _). destruct (Eb u Hu) as (U1 & U2 & U3 & _).
    destruct (N.le_gt_cases (rk v) (rk u)) as [|Gt]; auto. exfalso.
    pose proof (bidx_mono (limit s) (rk u) (rk v) U1 ltac:(lia)) as M. rewrite V3, U3 in M.
    destruct (Nat.eq_dec b (cur s)) as [->|Nb].
    - assert (rk v = rk u); [|lia].
      apply (bucket_row0_inj rb Hrb (limit s)); auto; unfold bidx in *; lia.
    - assert (Lt : (b < cur s)%nat) by lia. rewrite (G b Lt) in Hu. destruct Hu.
  Qed.

  Lemma cur_bucket_same s fr v u : RInv s fr -> In v (nth (cur s) (buckets s) []) ->
    In u (nth (cur s) (buckets s) []) -> rk v = rk u.
  Proof.
    intros I Hv Hu. pose proof I as (_ & _ & _ & C2 & _).
    pose proof (cur_bucket_min s fr v I Hv (cur s) u C2 Hu). pose proof (cur_bucket_min s fr u I Hu (cur s) v C2 Hv). lia.
  Qed.

  (** ** taking elements out of the current bucket (pop, swap_top_bucket) *)
  Lemma Bok_weaken lim b l m f st : Bok lim b l m f false -> Bok lim b l m f st.
  Proof.
    intros (E & F & X & S). refine (conj E (conj F (conj X _))). intros Hl. destruct (S Hl) as [->|(C & _)]; [now left|discriminate].
  Qed.

  Lemma Arr_shrink lim cur bs ms fl l' :
    Arr lim cur bs ms fl -> N.of_nat cur < B rb -> (cur < nbk)%nat -> nth cur bs [] <> [] ->
    (forall v, In v l' -> In v (nth cur bs [])) ->
    Arr lim cur (upd bs cur l') ms (if is_empty l' then upd fl cur false else fl).
  Proof.
    intros (Lb & Lm & Lf & P) C1 C2 Ne Sub.
    split; [now rewrite upd_length|]. split; auto. split; [destruct (is_empty l'); auto; now rewrite upd_length|].
    intros b Hb. destruct (Nat.eq_dec b cur) as [->|Nb].
    - rewrite nth_upd_eq by lia. destruct (P cur C2) as (E & F & X & S).
      destruct (X Ne) as (u & Hu & Eu). destruct (E u Hu) as (U1 & U2 & U3 & _).
      assert (Same : forall v, In v (nth cur bs []) -> rk v = nth cur ms 0).
      { intros v Hv. destruct (E v Hv) as (V1 & V2 & V3 & _). rewrite <- Eu.
        apply (bucket_row0_inj rb Hrb lim); auto; unfold bidx in *; lia. }
      rewrite Nat.eqb_refl.
      refine (conj _ (conj _ (conj _ _))).
      + intros v Hv. apply E. now apply Sub.
      + destruct l' as [|v0 l0]; simpl.
        * apply nth_upd_eq. lia.
        * rewrite F. destruct (nth cur bs []); [congruence|reflexivity].
      + intros Nl. destruct l' as [|v0 l0]; [congruence|]. exists v0. split; [now left|]. apply Same, Sub. now left.
      + intros _. right. rewrite <- Eu. repeat split; auto.
    - rewrite nth_upd_neq by auto.
      replace (nth b (if is_empty l' then upd fl cur false else fl) false) with (nth b fl false)
        by (destruct (is_empty l'); auto; rewrite nth_upd_neq; auto; lia).
      apply (P b Hb).
  Qed.

  (** ** reorganize_() *)
  Definition Ready (s : rheap) : Prop := nth (cur s) (buckets s) [] <> [].
  Definition NonEmpty (s : rheap) : Prop := exists b u, (b < nbk)%nat /\ In u (nth b (buckets s) []).

  Lemma reorganize_ready s : Ready s -> reorganize w sgn rb s = s.
  Proof.
    unfold Ready, reorganize. intros R. destruct (nth (cur s) (buckets s) []); [congruence|reflexivity].
  Qed.

  (* raising the limit to a key m of bucket fne keeps the larger buckets in place *)
  Lemma Bok_raise lim m fne b l mn f :
    lim <= m -> m < 2 ^ w -> bidx m lim = fne -> (fne < b)%nat ->
    Bok lim b l mn f false -> Bok m b l mn f false.
  Proof.
    intros L1 L2 L3 Lt (E & F & X & S). refine (conj _ (conj F (conj X _))).
    2:{ intros Hl. destruct (S Hl) as [->|(C & _)]; [now left|discriminate]. }
    intros u Hu. destruct (E u Hu) as (U1 & U2 & U3 & U4).
    destruct (bucket_stable rb Hrb lim m (rk u) L1 U1) as [G1 G2]; [unfold bidx in *; lia|].
    repeat split; auto; try lia. unfold bidx in *. now rewrite G2.
  Qed.

  Definition redist (m : N) (st : list (list value) * list N * list bool) (x : value) :=
    let '(bs, ms, fl) := st in put bs ms fl (bidx (rk x) m) x (rk x).

  Lemma redist_fold m fne : (fne <= nbk)%nat -> forall src bs ms fl,
    length bs = nbk -> length ms = nbk -> length fl = nbk ->
    (forall b, (b < fne)%nat -> Bok m b (nth b bs []) (nth b ms 0) (nth b fl false) false) ->
    (forall x, In x src -> m <= rk x /\ rk x < 2 ^ w /\ (bidx (rk x) m < fne)%nat) ->
    let '(bs', ms', fl') := fold_left (redist m) src (bs, ms, fl) in
    length bs' = nbk /\ length ms' = nbk /\ length fl' = nbk /\
    (forall b, (b < fne)%nat -> Bok m b (nth b bs' []) (nth b ms' 0) (nth b fl' false) false) /\
    (forall b, (fne <= b)%nat -> nth b bs' [] = nth b bs [] /\ nth b ms' 0 = nth b ms 0 /\ nth b fl' false = nth b fl false) /\
    (forall b v, In v (nth b bs []) -> In v (nth b bs' [])) /\
    (forall x, In x src -> In x (nth (bidx (rk x) m) bs' [])) /\
    Permutation (concat bs') (src ++ concat bs).
  Proof.
    intros Hf. induction src as [|x src IH]; intros bs ms fl Lb Lm Lf P Hs.
    - simpl. refine (conj Lb (conj Lm (conj Lf (conj P (conj _ (conj _ (conj _ _))))))).
      + intros b Hb. repeat split; reflexivity.
      + intros b v Hv. exact Hv.
      + intros x [].
      + apply Permutation_refl.
    - cbn [fold_left]. destruct (Hs x (or_introl eq_refl)) as (X1 & X2 & X3).
      unfold redist at 2.
      pose proof (put_nth bs ms fl (bidx (rk x) m) x (rk x) ltac:(lia) ltac:(lia) ltac:(lia)) as PN.
      pose proof (put_contents bs ms fl (bidx (rk x) m) x (rk x) ltac:(lia)) as PC.
      destruct (put bs ms fl (bidx (rk x) m) x (rk x)) as [[bs1 ms1] fl1]. cbn [fst] in PC.
      destruct PN as (A1 & A2 & A3 & A4 & A5 & A6 & A7).
      specialize (IH bs1 ms1 fl1 ltac:(congruence) ltac:(congruence) ltac:(congruence)).
      assert (P1 : forall b, (b < fne)%nat -> Bok m b (nth b bs1 []) (nth b ms1 0) (nth b fl1 false) false).
      { intros b Hb. destruct (Nat.eq_dec b (bidx (rk x) m)) as [->|Nb].
        - rewrite A4, A5, A6. apply Bok_put; auto.
        - destruct (A7 b Nb) as (E1 & E2 & E3). rewrite E1, E2, E3. auto. }
      specialize (IH P1 (fun y Hy => Hs y (or_intror Hy))).
      destruct (fold_left (redist m) src (bs1, ms1, fl1)) as [[bs' ms'] fl'].
      destruct IH as (I1 & I2 & I3 & I4 & I5 & I6 & I7 & I8).
      refine (conj I1 (conj I2 (conj I3 (conj I4 (conj _ (conj _ (conj _ _))))))).
      4:{ eapply Permutation_trans; [exact I8|]. simpl.
          eapply Permutation_trans; [apply Permutation_app_head; exact PC|]. apply Permutation_sym, Permutation_middle. }
      + intros b Hb. destruct (I5 b Hb) as (E1 & E2 & E3). destruct (A7 b ltac:(lia)) as (F1 & F2 & F3).
        repeat split; congruence.
      + intros b v Hv. apply I6. destruct (Nat.eq_dec b (bidx (rk x) m)) as [->|Nb].
        * rewrite A4. now right.
        * destruct (A7 b Nb) as (E1 & _). now rewrite E1.
      + intros y [<-|Hy]; [apply I6; rewrite A4; now left|now apply I7].
  Qed.

  Theorem reorganize_inv s fr : RInv s fr -> NonEmpty s ->
    exists K, RInv (reorganize w sgn rb s) K /\ Ready (reorganize w sgn rb s) /\
              (forall v, In v (nth (cur (reorganize w sgn rb s)) (buckets (reorganize w sgn rb s)) []) -> rk v = K) /\
              Permutation (concat (buckets (reorganize w sgn rb s))) (concat (buckets s)).
  Proof.
    intros I NE. pose proof I as (A & L & C1 & C2 & G & F1 & F2 & F3).
    destruct (nth (cur s) (buckets s) []) as [|v0 l0] eqn:Ecur.
    2:{ (* nothing to do *)
      assert (R : Ready s) by (unfold Ready; rewrite Ecur; discriminate).
      rewrite (reorganize_ready s R). exists (rk v0).
      assert (Hv0 : In v0 (nth (cur s) (buckets s) [])) by (rewrite Ecur; now left).
      destruct A as (Lb & Lm & Lf & P). destruct (P (cur s) C2) as (E & _). destruct (E v0 Hv0) as (V1 & V2 & V3 & _).
      split; [|split; [auto|split; [|apply Permutation_refl]]].
      - refine (conj (conj Lb (conj Lm (conj Lf P))) (conj L (conj C1 (conj C2 (conj G (conj V1 (conj V2 _))))))). lia.
      - intros v Hv. apply (cur_bucket_same s fr v v0 I Hv Hv0). }
    destruct A as (Lb & Lm & Lf & P).
    unfold reorganize. rewrite Ecur. cbn [is_empty negb].
    set (ms1 := upd (mins s) (cur s) (maxr w)). set (fl1 := upd (filled s) (cur s) false).
    (* after marking the current bucket empty no bucket carries a stale minimum *)
    assert (P1 : forall b, (b < nbk)%nat -> Bok (limit s) b (nth b (buckets s) []) (nth b ms1 0) (nth b fl1 false) false).
    { intros b Hb. unfold ms1, fl1. destruct (Nat.eq_dec b (cur s)) as [->|Nb].
      - rewrite !nth_upd_eq by lia. rewrite Ecur. refine (conj _ (conj eq_refl (conj _ _))).
        + intros v [].
        + congruence.
        + now left.
      - rewrite !nth_upd_neq by auto. destruct (P b Hb) as (E & F & X & S). refine (conj E (conj F (conj X _))).
        intros Hl. destruct (S Hl) as [->|(C & _)]; [now left|]. apply Nat.eqb_eq in C. congruence. }
    assert (Lm1 : length ms1 = nbk) by (unfold ms1; now rewrite upd_length).
    assert (Lf1 : length fl1 = nbk) by (unfold fl1; now rewrite upd_length).
    (* the first non-empty bucket *)
    destruct NE as (b0 & u0 & Hb0 & Hu0).
    assert (Fb0 : nth b0 fl1 false = true).
    { destruct (P1 b0 Hb0) as (_ & F & _). rewrite F. destruct (nth b0 (buckets s) []); [destruct Hu0|reflexivity]. }
    destruct (find_lsb_spec fl1 b0 ltac:(lia) Fb0) as (S1 & S2 & S3).
    set (fne := find_lsb fl1) in *.
    assert (Hfne : (fne < nbk)%nat) by lia.
    assert (Nfne : nth fne (buckets s) [] <> []).
    { destruct (P1 fne Hfne) as (_ & F & _). rewrite S2 in F. intros C. rewrite C in F. discriminate. }
    assert (Low : forall j, (j < fne)%nat -> nth j (buckets s) [] = []).
    { intros j Hj. destruct (P1 j ltac:(lia)) as (_ & F & _). rewrite (S3 j Hj) in F.
      destruct (nth j (buckets s) []); [reflexivity|discriminate]. }
    destruct (P1 fne Hfne) as (Ef & _ & Xf & _). destruct (Xf Nfne) as (x0 & Hx0 & Ex0).
    destruct (Ef x0 Hx0) as (X1 & X2 & X3 & _).
    destruct (N.of_nat fne <? radix rb) eqn:Cr.
    - (* first row: just move the cursor *)
      apply N.ltb_lt in Cr. exists (rk x0). unfold RInv, Ready. cbn [cur buckets limit mins filled].
      split; [|split; [|split; [|apply Permutation_refl]]].
      + refine (conj (conj Lb (conj Lm1 (conj Lf1 _))) (conj L (conj Cr (conj Hfne (conj Low (conj X1 (conj X2 _))))))).
        * intros b Hb. apply Bok_weaken, P1, Hb.
        * rewrite X3. apply Nat.le_refl.
      + exact Nfne.
      + intros v Hv. destruct (Ef v Hv) as (V1 & V2 & V3 & _).
        apply (bucket_row0_inj rb Hrb (limit s)); auto; unfold bidx, radix, B in *; lia.
    - (* redistribute bucket fne against its minimum *)
      apply N.ltb_ge in Cr.
      set (m := nth fne ms1 0) in *.
      assert (Hm : limit s <= m /\ m < 2 ^ w /\ bidx m (limit s) = fne) by (rewrite <- Ex0; auto).
      destruct Hm as (M1 & M2 & M3).
      set (src := rev (nth fne (buckets s) [])).
      assert (Hsrc : forall x, In x src -> m <= rk x /\ rk x < 2 ^ w /\ (bidx (rk x) m < fne)%nat).
      { intros x Hx. apply in_rev in Hx. destruct (Ef x Hx) as (Y1 & Y2 & Y3 & Y4). repeat split; auto.
        pose proof (bucket_redistribute rb Hrb (limit s) m (rk x) M1 Y4) as R.
        unfold bidx in *. unfold radix, B in *.
        assert (bkt m (limit s) = bkt (rk x) (limit s)) by lia.
        specialize (R H ltac:(lia)). lia. }
      assert (P0 : forall b, (b < fne)%nat -> Bok m b (nth b (buckets s) []) (nth b ms1 0) (nth b fl1 false) false).
      { intros b Hb. rewrite (Low b Hb). destruct (P1 b ltac:(lia)) as (_ & F & _ & S). rewrite (Low b Hb) in F, S.
        refine (conj _ (conj F (conj _ _))).
        - intros v [].
        - congruence.
        - intros _. destruct (S eq_refl) as [->|(C & _)]; [now left|discriminate]. }
      pose proof (redist_fold m fne ltac:(lia) src (buckets s) ms1 fl1 Lb Lm1 Lf1 P0 Hsrc) as RF.
      match goal with |- context [@fold_left ?TA ?TB ?f src ?i] =>
        change (@fold_left TA TB f src i) with (fold_left (redist m) src (buckets s, ms1, fl1)) end.
      destruct (fold_left (redist m) src (buckets s, ms1, fl1)) as [[bs2 ms2] fl2].
      destruct RF as (R1 & R2 & R3 & R4 & R5 & R6 & R7 & R8).
      cbv beta iota.
      set (bs3 := upd bs2 fne []). set (ms3 := upd ms2 fne (maxr w)). set (fl3 := upd fl2 fne false).
      assert (P3 : forall b, (b < nbk)%nat -> Bok m b (nth b bs3 []) (nth b ms3 0) (nth b fl3 false) false).
      { intros b Hb. unfold bs3, ms3, fl3. destruct (Nat.eq_dec b fne) as [->|Nb].
        - rewrite !nth_upd_eq by lia. refine (conj _ (conj eq_refl (conj _ _))).
          + intros v [].
          + congruence.
          + now left.
        - rewrite !nth_upd_neq by auto. destruct (Nat.lt_ge_cases b fne) as [Lt|Ge]; [now apply R4|].
          destruct (R5 b Ge) as (E1 & E2 & E3). rewrite E1, E2, E3.
          apply (Bok_raise (limit s) m fne); auto; try lia. }
      (* the minimum itself lands in bucket 0 *)
      assert (H0 : In x0 (nth 0%nat bs3 [])).
      { assert (Hz : bidx (rk x0) m = 0%nat) by (rewrite Ex0; unfold bidx; now rewrite bucket_same).
        assert (Pf : (0 < fne)%nat).
        { destruct fne; [|lia]. exfalso. pose proof B_pos. unfold radix, B in *. simpl in Cr. lia. }
        unfold bs3. rewrite nth_upd_neq by lia. rewrite <- Hz. apply R7. unfold src. now apply in_rev in Hx0 || (apply -> in_rev; exact Hx0). }
      assert (F0 : nth 0%nat fl3 false = true).
      { destruct (P3 0%nat nbk_pos) as (_ & F & _). rewrite F. destruct (nth 0%nat bs3 []); [destruct H0|reflexivity]. }
      assert (Lf3 : length fl3 = nbk) by (unfold fl3; now rewrite upd_length).
      destruct (find_lsb_spec fl3 0%nat ltac:(pose proof nbk_pos; lia) F0) as (Z1 & _ & _).
      assert (Z : find_lsb fl3 = 0%nat) by lia. rewrite Z.
      exists m. unfold RInv, Ready. cbn [cur buckets limit mins filled]. split; [|split; [|split]].
      4:{ pose proof (concat_upd bs2 fne [] ltac:(lia)) as CU. fold bs3 in CU. simpl in CU.
          destruct (R5 fne (le_n _)) as (E5 & _). rewrite E5 in CU.
          apply (Permutation_app_inv_l (nth fne (buckets s) [])).
          eapply Permutation_trans; [exact CU|]. eapply Permutation_trans; [exact R8|].
          apply Permutation_app_tail. unfold src. apply Permutation_sym, Permutation_rev. }
      + refine (conj (conj _ (conj _ (conj Lf3 _))) (conj M2 (conj _ (conj nbk_pos (conj _ (conj (N.le_refl m) (conj M2 _))))))).
        * unfold bs3. now rewrite upd_length.
        * unfold ms3. now rewrite upd_length.
        * intros b Hb. apply Bok_weaken, P3, Hb.
        * simpl. apply B_pos.
        * intros b Hb. lia.
        * lia.
      + unfold Ready. cbn [cur buckets]. intros C. rewrite C in H0. destruct H0.
      + intros v Hv. destruct (P3 0%nat nbk_pos) as (E & _). destruct (E v Hv) as (V1 & V2 & V3 & _).
        destruct (E x0 H0) as (W1 & W2 & W3 & _). rewrite <- Ex0.
        pose proof B_pos. apply (bucket_row0_inj rb Hrb m); auto; unfold bidx in *; lia.
  Qed.

  (** ** top / pop / swap_top_bucket / peak_top_key *)
  Definition Stored (s : rheap) (u : value) : Prop := exists b, (b < nbk)%nat /\ In u (nth b (buckets s) []).

  (** top(): returns a stored value of minimal rank; the frontier becomes its rank *)
  Theorem top_ok s fr : RInv s fr -> NonEmpty s ->
    exists v, snd (top w sgn rb s) = Some v /\ Stored (fst (top w sgn rb s)) v /\
              RInv (fst (top w sgn rb s)) (rk v) /\
              (forall u, Stored (fst (top w sgn rb s)) u -> rk v <= rk u).
  Proof.
    intros I NE. destruct (reorganize_inv s fr I NE) as (K & I' & R & Same & PermR).
    unfold top. cbn [fst snd]. set (s' := reorganize w sgn rb s) in *.
    assert (exists v l, nth (cur s') (buckets s') [] = v :: l) as (v & l & E).
    { unfold Ready in R. destruct (nth (cur s') (buckets s') []) as [|v l]; [congruence|eauto]. }
    rewrite E. exists v. cbn [hd_error].
    assert (Hv : In v (nth (cur s') (buckets s') [])) by (rewrite E; now left).
    assert (EK : rk v = K) by (apply Same; exact Hv).
    split; [reflexivity|]. split; [exists (cur s'); split; [apply I'|exact Hv]|]. split; [now rewrite EK|].
    intros u (b & Hb & Hu). apply (cur_bucket_min s' K v I' Hv b u Hb Hu).
  Qed.

  Lemma RInv_shrink s K l' : RInv s K -> Ready s -> (forall v, In v (nth (cur s) (buckets s) []) -> rk v = K) ->
    (forall v, In v l' -> In v (nth (cur s) (buckets s) [])) ->
    forall sz, RInv {| rsize := sz; limit := limit s; cur := cur s; buckets := upd (buckets s) (cur s) l';
                       mins := mins s; filled := if is_empty l' then upd (filled s) (cur s) false else filled s |} K.
  Proof.
    intros (A & L & C1 & C2 & G & F1 & F2 & F3) R Same Sub sz.
    pose proof (Arr_shrink _ _ _ _ _ l' A C1 C2 R Sub) as A'.
    unfold RInv. cbn [limit cur buckets mins filled].
    refine (conj A' (conj L (conj C1 (conj C2 (conj _ (conj F1 (conj F2 F3))))))).
    intros b Hb. rewrite nth_upd_neq by lia. now apply G.
  Qed.

  (** pop(): removes one value of minimal rank *)
  Theorem pop_ok s fr : RInv s fr -> NonEmpty s ->
    exists v, snd (top w sgn rb s) = Some v /\ RInv (pop w sgn rb s) (rk v) /\
      let s' := reorganize w sgn rb s in
      nth (cur s') (buckets (pop w sgn rb s)) [] = tl (nth (cur s') (buckets s') []) /\
      (forall b, b <> cur s' -> nth b (buckets (pop w sgn rb s)) [] = nth b (buckets s') []).
  Proof.
    intros I NE. destruct (reorganize_inv s fr I NE) as (K & I' & R & Same & PermR).
    unfold top, pop. cbn [fst snd]. set (s' := reorganize w sgn rb s) in *.
    assert (exists v l, nth (cur s') (buckets s') [] = v :: l) as (v & l & E).
    { unfold Ready in R. destruct (nth (cur s') (buckets s') []) as [|v l]; [congruence|eauto]. }
    rewrite E. exists v. cbn [hd_error tl]. split; [reflexivity|].
    assert (Hv : In v (nth (cur s') (buckets s') [])) by (rewrite E; now left).
    assert (EK : rk v = K) by (apply Same; exact Hv). rewrite EK.
    split; [|split].
    - apply (RInv_shrink s' K l I' R Same). intros u Hu. rewrite E. now right.
    - cbn [buckets]. apply nth_upd_eq. destruct I' as ((Lb & _) & _ & _ & C2 & _). lia.
    - intros b Nb. cbn [buckets]. apply nth_upd_neq. auto.
  Qed.

  (** swap_top_bucket(): hands out exactly the values of minimal rank *)
  Theorem swap_ok s fr : RInv s fr -> NonEmpty s ->
    let s' := reorganize w sgn rb s in
    exists K, RInv (fst (swap_top_bucket w sgn rb s)) K /\
      snd (swap_top_bucket w sgn rb s) = rev (nth (cur s') (buckets s') []) /\
      snd (swap_top_bucket w sgn rb s) <> [] /\
      (forall v, In v (snd (swap_top_bucket w sgn rb s)) -> rk v = K) /\
      (forall u, Stored s' u -> K <= rk u) /\
      (forall u, Stored (fst (swap_top_bucket w sgn rb s)) u -> K < rk u) /\
      nth (cur s') (buckets (fst (swap_top_bucket w sgn rb s))) [] = [] /\
      (forall b, b <> cur s' -> nth b (buckets (fst (swap_top_bucket w sgn rb s))) [] = nth b (buckets s') []).
  Proof.
    intros I NE. cbv zeta. destruct (reorganize_inv s fr I NE) as (K & I' & R & Same & PermR).
    unfold swap_top_bucket. cbn [fst snd]. set (s' := reorganize w sgn rb s) in *.
    exists K.
    pose proof I' as ((Lb & _ & _ & P) & _ & C1 & C2 & G & _).
    assert (Min : forall u, Stored s' u -> K <= rk u).
    { intros u (b & Hb & Hu).
      assert (exists v l, nth (cur s') (buckets s') [] = v :: l) as (v & l & E).
      { unfold Ready in R. destruct (nth (cur s') (buckets s') []) as [|v l]; [congruence|eauto]. }
      assert (Hv : In v (nth (cur s') (buckets s') [])) by (rewrite E; now left).
      rewrite <- (Same v Hv). apply (cur_bucket_min s' K v I' Hv b u Hb Hu). }
    refine (conj _ (conj eq_refl (conj _ (conj _ (conj Min (conj _ (conj _ _))))))).
    - pose proof (RInv_shrink s' K [] I' R Same ltac:(intros v []) (rsize s' - length (nth (cur s') (buckets s') []))%nat) as S.
      exact S.
    - unfold Ready in R. intros C. apply R. destruct (nth (cur s') (buckets s') []); [reflexivity|].
      simpl in C. destruct (rev l); discriminate.
    - intros v Hv. apply Same. now apply in_rev.
    - intros u (b & Hb & Hu). cbn [buckets] in Hu.
      destruct (Nat.eq_dec b (cur s')) as [->|Nb]; [rewrite nth_upd_eq in Hu by lia; destruct Hu|].
      rewrite nth_upd_neq in Hu by auto.
      assert (K <= rk u) by (apply Min; exists b; auto).
      destruct (N.eq_dec K (rk u)) as [E|]; [|lia]. exfalso.
      (* a value of rank K would sit in the current bucket *)
      assert (exists v l, nth (cur s') (buckets s') [] = v :: l) as (v & l & Ec).
      { unfold Ready in R. destruct (nth (cur s') (buckets s') []) as [|v l]; [congruence|eauto]. }
      assert (Hv : In v (nth (cur s') (buckets s') [])) by (rewrite Ec; now left).
      destruct (P (cur s') C2) as (Ecur & _). destruct (Ecur v Hv) as (_ & _ & V3 & _).
      destruct (P b Hb) as (Eb & _). destruct (Eb u Hu) as (_ & _ & U3 & _).
      rewrite (Same v Hv), E in V3. congruence.
    - cbn [buckets]. apply nth_upd_eq. lia.
    - intros b Nb. cbn [buckets]. apply nth_upd_neq. auto.
  Qed.

  Lemma rank_int_at_rank r : rank (int_at_rank w sgn r) = r.
  Proof. unfold int_at_rank, rank_of_int. destruct sgn; auto. now rewrite N.lxor_assoc, N.lxor_nilpotent, N.lxor_0_r. Qed.

  (** peak_top_key(): the key of minimal rank, without touching the heap *)
  Theorem peak_ok s fr : RInv s fr -> NonEmpty s ->
    (exists v, Stored s v /\ rk v = rank (peak_top_key w sgn s)) /\
    (forall u, Stored s u -> rank (peak_top_key w sgn s) <= rk u).
  Proof.
    intros ((Lb & Lm & Lf & P) & L & C1 & C2 & G & _) (b0 & u0 & Hb0 & Hu0).
    unfold peak_top_key. rewrite rank_int_at_rank.
    assert (Fb0 : nth b0 (filled s) false = true).
    { destruct (P b0 Hb0) as (_ & F & _). rewrite F. destruct (nth b0 (buckets s) []); [destruct Hu0|reflexivity]. }
    destruct (find_lsb_spec (filled s) b0 ltac:(lia) Fb0) as (S1 & S2 & S3).
    set (f := find_lsb (filled s)) in *. assert (Hf : (f < nbk)%nat) by lia.
    destruct (P f Hf) as (Ef & Ff & Xf & _).
    assert (Nf : nth f (buckets s) [] <> []) by (intros C; rewrite C, S2 in Ff; discriminate).
    destruct (Xf Nf) as (x0 & Hx0 & Ex0). split.
    - exists x0. split; [exists f; auto|exact Ex0].
    - intros u (b & Hb & Hu). destruct (P b Hb) as (Eb & Fb & _). destruct (Eb u Hu) as (U1 & U2 & U3 & U4).
      destruct (Nat.eq_dec b f) as [->|Nb]; [exact U4|].
      destruct (Ef x0 Hx0) as (X1 & X2 & X3 & _). rewrite <- Ex0.
      destruct (N.le_gt_cases (rk x0) (rk u)) as [|Gt]; auto. exfalso.
      pose proof (bidx_mono (limit s) (rk u) (rk x0) U1 ltac:(lia)) as M. rewrite U3, X3 in M.
      assert (Lt : (b < f)%nat) by lia. specialize (S3 b Lt). rewrite Fb in S3.
      destruct (nth b (buckets s) []); [destruct Hu|discriminate].
  Qed.

  (** ** contents (as a multiset) and size() *)
  Definition contents (s : rheap) : list value := concat (buckets s).
  Definition SizeOK (s : rheap) : Prop := rsize s = length (contents s).

  Theorem push_contents s fr v : RInv s fr -> fst v < 2 ^ w -> fr <= rk v ->
    Permutation (contents (fst (push w sgn rb s v))) (v :: contents s).
  Proof.
    intros ((Lb & _) & L & _) Hv Hfr.
    pose proof (rank_lt (fst v) Hv) as Rv. fold (rk v) in Rv.
    pose proof (bidx_lt (rk v) (limit s) Rv L) as Hi.
    pose proof (put_contents (buckets s) (mins s) (filled s) (bidx (rk v) (limit s)) v (rk v) ltac:(lia)) as PC.
    unfold contents, push. fold (rk v). fold (bidx (rk v) (limit s)).
    destruct (put (buckets s) (mins s) (filled s) (bidx (rk v) (limit s)) v (rk v)) as [[bs' ms'] fl'].
    exact PC.
  Qed.

  Theorem top_contents s fr : RInv s fr -> NonEmpty s ->
    Permutation (contents (fst (top w sgn rb s))) (contents s).
  Proof. intros I NE. destruct (reorganize_inv s fr I NE) as (K & _ & _ & _ & P). exact P. Qed.

  Theorem pop_contents s fr : RInv s fr -> NonEmpty s ->
    exists v, snd (top w sgn rb s) = Some v /\ Permutation (v :: contents (pop w sgn rb s)) (contents s).
  Proof.
    intros I NE. destruct (reorganize_inv s fr I NE) as (K & I' & R & Same & PermR).
    unfold top, pop, contents. cbn [fst snd buckets]. set (s' := reorganize w sgn rb s) in *.
    assert (exists v l, nth (cur s') (buckets s') [] = v :: l) as (v & l & E).
    { unfold Ready in R. destruct (nth (cur s') (buckets s') []) as [|v l]; [congruence|eauto]. }
    rewrite E. exists v. split; [reflexivity|]. cbn [tl].
    destruct I' as ((Lb & _) & _ & _ & C2 & _).
    pose proof (concat_upd (buckets s') (cur s') l ltac:(lia)) as CU. rewrite E in CU.
    eapply Permutation_trans; [|exact PermR].
    apply (Permutation_app_inv_l l). eapply Permutation_trans; [|exact CU]. simpl. apply Permutation_sym, Permutation_middle.
  Qed.

  Theorem swap_contents s fr : RInv s fr -> NonEmpty s ->
    Permutation (snd (swap_top_bucket w sgn rb s) ++ contents (fst (swap_top_bucket w sgn rb s))) (contents s).
  Proof.
    intros I NE. destruct (reorganize_inv s fr I NE) as (K & I' & R & Same & PermR).
    unfold swap_top_bucket, contents. cbn [fst snd buckets]. set (s' := reorganize w sgn rb s) in *.
    destruct I' as ((Lb & _) & _ & _ & C2 & _).
    pose proof (concat_upd (buckets s') (cur s') [] ltac:(lia)) as CU. simpl in CU.
    eapply Permutation_trans; [|exact PermR]. eapply Permutation_trans; [|exact CU].
    apply Permutation_app_tail. apply Permutation_sym, Permutation_rev.
  Qed.

  Lemma rsize_reorganize s : rsize (reorganize w sgn rb s) = rsize s.
  Proof.
    unfold reorganize. destruct (negb (is_empty (nth (cur s) (buckets s) []))); [reflexivity|].
    destruct (N.of_nat (find_lsb (upd (filled s) (cur s) false)) <? radix rb); [reflexivity|].
    destruct (fold_left _ _ _) as [[a b] c]. reflexivity.
  Qed.

  (** size() is the number of stored values after every operation *)
  Theorem rstep_size s fr o : RInv s fr -> SizeOK s ->
    match o with
    | RPush k _ => k < 2 ^ w /\ fr <= rank k
    | RTop | RPop | RSwap | RPeak => NonEmpty s
    | RClear => True
    end -> SizeOK (fst (rstep w sgn rb s o)).
  Proof.
    intros I S V. unfold SizeOK in *. destruct o as [k p| | | | |]; cbn [rstep].
    - destruct V as [V1 V2]. pose proof (push_contents s fr (k, p) I V1 V2) as P. apply Permutation_length in P.
      assert (E : rsize (fst (push w sgn rb s (k, p))) = Datatypes.S (rsize s)).
      { unfold push. destruct (put _ _ _ _ _ _) as [[bs' ms'] fl']. reflexivity. }
      destruct (push w sgn rb s (k, p)) as [s' idx]. cbn [fst] in *. simpl in P. clear - P S E. lia.
    - pose proof (top_contents s fr I V) as P. apply Permutation_length in P.
      assert (E : rsize (fst (top w sgn rb s)) = rsize s) by (unfold top; cbn [fst]; apply rsize_reorganize).
      destruct (top w sgn rb s) as [s' ov]. cbn [fst] in *. clear - P S E. lia.
    - destruct (pop_contents s fr I V) as (v & _ & P). apply Permutation_length in P. simpl in P.
      assert (E : rsize (pop w sgn rb s) = (rsize s - 1)%nat) by (unfold pop; cbn [rsize]; now rewrite rsize_reorganize).
      cbn [fst]. clear - P S E. lia.
    - pose proof (swap_contents s fr I V) as P. apply Permutation_length in P. rewrite app_length in P.
      assert (E : rsize (fst (swap_top_bucket w sgn rb s)) = (rsize s - length (snd (swap_top_bucket w sgn rb s)))%nat).
      { unfold swap_top_bucket. cbn [fst snd rsize]. now rewrite rsize_reorganize, rev_length. }
      destruct (swap_top_bucket w sgn rb s) as [s' bkt']. cbn [fst snd] in *. clear - P S E. lia.
    - exact S.
    - unfold rinit, contents. cbn [rsize buckets]. clear. induction (nb w rb); simpl; auto.
  Qed.

  (** ** monotone histories *)
  Definition nonemptyb (s : rheap) : bool := existsb (fun l => negb (is_empty l)) (buckets s).

  Lemma nonemptyb_NonEmpty s fr : RInv s fr -> nonemptyb s = true -> NonEmpty s.
  Proof.
    intros ((Lb & _) & _) H. apply existsb_exists in H. destruct H as (l & Hl & Ne).
    destruct (In_nth _ _ [] Hl) as (b & Hb & Eb). destruct l as [|u l]; [discriminate|].
    exists b, u. split; [lia|]. rewrite Eb. now left.
  Qed.

  (** the ghost frontier: rank of the most recently extracted minimum (top / pop / swap_top_bucket), 0 after clear *)
  Definition next_fr (s : rheap) (fr : N) (o : rop) : N :=
    match o with
    | RPush _ _ | RPeak => fr
    | RTop | RPop | RSwap => match snd (top w sgn rb s) with Some v => rk v | None => fr end
    | RClear => 0
    end.

  (** documented preconditions: keys are w-bit patterns not smaller (in rank order) than the frontier;
      top / pop / swap_top_bucket / peak_top_key only on a non-empty heap *)
  Definition rop_ok (s : rheap) (fr : N) (o : rop) : bool :=
    match o with
    | RPush k _ => (k <? 2 ^ w) && (fr <=? rank k)
    | RTop | RPop | RSwap | RPeak => nonemptyb s
    | RClear => true
    end.

  Fixpoint rvalid (s : rheap) (fr : N) (ops : list rop) : bool :=
    match ops with
    | [] => true
    | o :: r => rop_ok s fr o && rvalid (fst (rstep w sgn rb s o)) (next_fr s fr o) r
    end.

  Fixpoint rfinal (s : rheap) (fr : N) (ops : list rop) : rheap * N :=
    match ops with
    | [] => (s, fr)
    | o :: r => rfinal (fst (rstep w sgn rb s o)) (next_fr s fr o) r
    end.

  Theorem rstep_inv s fr o : RInv s fr -> rop_ok s fr o = true ->
    RInv (fst (rstep w sgn rb s o)) (next_fr s fr o).
  Proof.
    intros I V. destruct o as [k p| | | | |]; cbn [rstep next_fr rop_ok] in *.
    - apply andb_true_iff in V. destruct V as [V1 V2]. apply N.ltb_lt in V1. apply N.leb_le in V2.
      destruct (push_inv s fr (k, p) I V1 V2) as (I' & _).
      destruct (push w sgn rb s (k, p)) as [s' idx]. exact I'.
    - pose proof (nonemptyb_NonEmpty s fr I V) as NE. destruct (top_ok s fr I NE) as (v & E & _ & I' & _).
      rewrite E. destruct (top w sgn rb s) as [s' ov]. exact I'.
    - pose proof (nonemptyb_NonEmpty s fr I V) as NE. destruct (pop_ok s fr I NE) as (v & E & I' & _).
      rewrite E. exact I'.
    - pose proof (nonemptyb_NonEmpty s fr I V) as NE.
      destruct (top_ok s fr I NE) as (v & E & St & _).
      destruct (swap_ok s fr I NE) as (K & I' & E2 & _ & Same & _). cbv zeta in *.
      rewrite E.
      assert (EK : rk v = K).
      { apply Same. rewrite E2. apply -> in_rev. unfold top in E. cbn [snd] in E.
        destruct (nth (cur (reorganize w sgn rb s)) (buckets (reorganize w sgn rb s)) []) as [|v0 l0]; [discriminate|].
        injection E as ->. now left. }
      rewrite EK. destruct (swap_top_bucket w sgn rb s) as [s' b]. exact I'.
    - exact I.
    - apply rinit_inv.
  Qed.

  (** every monotone, precondition-respecting history keeps RadixInv *)
  Theorem radix_history_inv : forall ops s fr, RInv s fr -> rvalid s fr ops = true ->
    RInv (fst (rfinal s fr ops)) (snd (rfinal s fr ops)).
  Proof.
    induction ops as [|o r IH]; intros s fr I V; cbn [rfinal rvalid] in *; auto.
    apply andb_true_iff in V. destruct V as [V1 V2]. apply IH; auto. now apply rstep_inv.
  Qed.
End RadixInv.

(** the precondition checker accepts non-trivial monotone histories (8-bit signed keys, Radix 4, with a
    redistribution), and rejects a push below the frontier *)
Example rvalid_example :
  rvalid 8 true 2 (rinit 8 2) 0
    [RPush 128 1%nat; RPush 127 2%nat; RPush 5 3%nat; RPush 200 4%nat; RPeak; RTop; RPop; RPush 200 5%nat; RSwap;
     RTop; RPop; RPop; RClear; RPush 0 1%nat; RTop] = true /\
  rvalid 8 false 2 (rinit 8 2) 0 [RPush 9 1%nat; RPop; RPush 3 2%nat] = false.
Proof. vm_compute. split; reflexivity. Qed.
