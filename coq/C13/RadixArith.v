(** C13 — arithmetic of RadixHeap's bucket map (BucketComputation::operator(), repaired version).

    With B = 2^rb, Q k x = x / B^k and dig k x = (x / B^k) mod B, the row of x against the insertion limit l is the
    highest base-B digit position where they differ, and for x <> l
        bucket x l = row * (B - 1) + dig row x.
    From this:  the bucket index is monotone in the key (bucket_mono), a bucket of row 0 holds one key value
    (bucket_row0_inj), redistributing a bucket of a higher row against its own minimum sends every element to a
    strictly smaller bucket (bucket_redistribute), and keys of larger buckets keep their bucket when the limit is
    raised to a key of a smaller bucket (bucket_stable). *)
From Coq Require Import NArith Lia.
From TLXV Require Import C13.Radix.
Local Open Scope N_scope.

Section Arith.
  Variable rb : N.
  Hypothesis Hrb : 0 < rb.

  Definition B : N := 2 ^ rb.
  Definition Q (k x : N) : N := x / 2 ^ (rb * k).
  Definition dig (k x : N) : N := Q k x mod B.
  Definition row (x l : N) : N := N.log2 (N.lxor x l) / rb.

  Lemma pow_nz n : 2 ^ n <> 0.
  Proof. apply N.pow_nonzero. lia. Qed.

  Lemma B_ge2 : 2 <= B.
  Proof. unfold B. change 2 with (2 ^ 1) at 1. apply N.pow_le_mono_r; lia. Qed.

  Lemma Q0 x : Q 0 x = x.
  Proof. unfold Q. rewrite N.mul_0_r. simpl. apply N.div_1_r. Qed.

  Lemma Q_mono k x y : x <= y -> Q k x <= Q k y.
  Proof. intros. apply N.div_le_mono; auto. apply pow_nz. Qed.

  Lemma Q_plus k j x : Q (k + j) x = Q k x / 2 ^ (rb * j).
  Proof.
    unfold Q. rewrite N.div_div by apply pow_nz. rewrite <- N.pow_add_r. f_equal. f_equal. lia.
  Qed.

  Lemma Q_succ k x : Q (k + 1) x = Q k x / B.
  Proof. rewrite Q_plus. unfold B. now rewrite N.mul_1_r. Qed.

  Lemma Q_split k x : Q k x = Q (k + 1) x * B + dig k x.
  Proof.
    unfold dig. rewrite Q_succ. rewrite (N.div_mod (Q k x) B) at 1; [lia|]. apply pow_nz.
  Qed.

  Lemma dig_lt k x : dig k x < B.
  Proof. apply N.mod_lt. apply pow_nz. Qed.

  Lemma Q_further k k' a b : k <= k' -> Q k a = Q k b -> Q k' a = Q k' b.
  Proof. intros H E. replace k' with (k + (k' - k)) by lia. rewrite !Q_plus. now rewrite E. Qed.

  Lemma digit_eq r x : N.land (N.shiftr x (rb * r)) (mask rb) = dig r x.
  Proof.
    unfold mask, radix, dig, Q, B. replace (2 ^ rb - 1) with (N.ones rb) by (rewrite N.ones_equiv; lia).
    now rewrite N.land_ones, N.shiftr_div_pow2.
  Qed.

  (** the row is the highest digit position where x and l differ *)
  Lemma row_spec x l : x <> l -> Q (row x l + 1) x = Q (row x l + 1) l /\ Q (row x l) x <> Q (row x l) l.
  Proof.
    intros Ne. unfold row. set (diff := N.lxor x l).
    assert (Dn : diff <> 0) by (intros E; apply Ne; now apply N.lxor_eq).
    destruct (N.log2_spec diff ltac:(lia)) as [L1 L2].
    set (t := N.log2 diff) in *. set (r := t / rb).
    assert (T1 : rb * r <= t) by (apply N.mul_div_le; lia).
    assert (T2 : t < rb * (r + 1)).
    { pose proof (N.div_mod t rb ltac:(lia)) as E. pose proof (N.mod_lt t rb ltac:(lia)). fold r in E. lia. }
    split.
    - unfold Q. rewrite <- !N.shiftr_div_pow2. apply N.lxor_eq. rewrite <- N.shiftr_lxor. fold diff.
      rewrite N.shiftr_div_pow2. apply N.div_small.
      eapply N.lt_le_trans; [exact L2|]. apply N.pow_le_mono_r; lia.
    - unfold Q. rewrite <- !N.shiftr_div_pow2. intros E.
      assert (Z : N.shiftr diff (rb * r) = 0) by (unfold diff; rewrite N.shiftr_lxor, E; apply N.lxor_nilpotent).
      rewrite N.shiftr_div_pow2 in Z.
      assert (0 < diff / 2 ^ (rb * r)); [|lia].
      apply N.div_str_pos. split; [apply N.neq_0_lt_0, pow_nz|].
      eapply N.le_trans; [|exact L1]. apply N.pow_le_mono_r; lia.
  Qed.

  Lemma row_unique x l k : Q (k + 1) x = Q (k + 1) l -> Q k x <> Q k l -> row x l = k.
  Proof.
    intros E1 N1. assert (Ne : x <> l) by (intros ->; now apply N1).
    destruct (row_spec x l Ne) as [E2 N2]. set (r := row x l) in *.
    destruct (N.lt_trichotomy r k) as [L|[E|L]]; auto; exfalso.
    - apply N1. apply (Q_further (r + 1)); auto; lia.
    - apply N2. apply (Q_further (k + 1)); auto; lia.
  Qed.

  Lemma bucket_same l : bucket rb l l = 0.
  Proof. unfold bucket. now rewrite N.lxor_nilpotent. Qed.

  Lemma S1 t : t * B = t * (B - 1) + t.
  Proof.
    pose proof B_ge2 as H. revert H. generalize B. intros b H.
    replace b with (b - 1 + 1) at 1 by lia. now rewrite N.mul_add_distr_l, N.mul_1_r.
  Qed.

  Lemma bucket_form x l : x <> l -> bucket rb x l = row x l * (B - 1) + dig (row x l) x.
  Proof.
    intros Ne. unfold bucket.
    assert (E : (N.lxor x l =? 0) = false) by (apply N.eqb_neq; intros E; apply Ne; now apply N.lxor_eq).
    rewrite E. fold (row x l). rewrite digit_eq. fold B. unfold radix. fold B. rewrite S1.
    generalize (row x l). intros r. generalize (r * (B - 1)) (dig r x). clear. intros. lia.
  Qed.

  (** for x > l the differing digit of x is the larger one *)
  Lemma dig_gt x l : l < x -> dig (row x l) l < dig (row x l) x.
  Proof.
    intros Lt. destruct (row_spec x l ltac:(lia)) as [E Ne]. set (r := row x l) in *.
    pose proof (Q_mono r l x ltac:(lia)) as M.
    rewrite (Q_split r x), (Q_split r l), E in *.
    revert M Ne. generalize (Q (r + 1) l * B) (dig r x) (dig r l). intros. lia.
  Qed.

  Lemma row_mono l x y : l < x -> x <= y -> row x l <= row y l.
  Proof.
    intros L1 L2. destruct (row_spec x l ltac:(lia)) as [Ex Nx]. destruct (row_spec y l ltac:(lia)) as [Ey Ny].
    destruct (N.le_gt_cases (row x l) (row y l)) as [|G]; auto. exfalso.
    assert (E : Q (row x l) y = Q (row x l) l) by (apply (Q_further (row y l + 1)); auto; lia).
    pose proof (Q_mono (row x l) x y L2). pose proof (Q_mono (row x l) l x ltac:(lia)). apply Nx. lia.
  Qed.

  Lemma mul_step r r' : r + 1 <= r' -> r * (B - 1) + (B - 1) <= r' * (B - 1).
  Proof.
    intros H. pose proof (N.mul_le_mono_r _ _ (B - 1) H) as M.
    rewrite N.mul_add_distr_r, N.mul_1_l in M. exact M.
  Qed.

  (** (row, digit) is determined by the bucket index *)
  Lemma decode r r' a a' : 1 <= a -> a < B -> 1 <= a' -> a' < B ->
    r * (B - 1) + a = r' * (B - 1) + a' -> r = r' /\ a = a'.
  Proof.
    intros A1 A2 A3 A4 E.
    destruct (N.lt_trichotomy r r') as [L|[->|L]].
    - pose proof (mul_step r r' ltac:(lia)). exfalso. revert E H. generalize (r * (B - 1)) (r' * (B - 1)). intros. lia.
    - split; auto. revert E. generalize (r' * (B - 1)). intros. lia.
    - pose proof (mul_step r' r ltac:(lia)). exfalso. revert E H. generalize (r * (B - 1)) (r' * (B - 1)). intros. lia.
  Qed.

  Lemma decode_lt r r' a a' : 1 <= a -> a < B -> 1 <= a' -> a' < B ->
    r * (B - 1) + a < r' * (B - 1) + a' -> r < r' \/ (r = r' /\ a < a').
  Proof.
    intros A1 A2 A3 A4 E.
    destruct (N.lt_trichotomy r r') as [L|[->|L]]; auto.
    - right. split; auto. revert E. generalize (r' * (B - 1)). intros. lia.
    - pose proof (mul_step r' r ltac:(lia)). exfalso. revert E H. generalize (r * (B - 1)) (r' * (B - 1)). intros. lia.
  Qed.

  (** F1: the bucket index is monotone in the key *)
  Theorem bucket_mono l x y : l <= x -> x <= y -> bucket rb x l <= bucket rb y l.
  Proof.
    intros L1 L2. destruct (N.eq_dec x l) as [->|Nx]; [rewrite bucket_same; lia|].
    rewrite !bucket_form by lia.
    pose proof (row_mono l x y ltac:(lia) L2) as RM.
    pose proof (dig_lt (row x l) x). pose proof (dig_gt y l ltac:(lia)).
    destruct (N.eq_dec (row x l) (row y l)) as [E|Ne].
    - rewrite <- E in *. destruct (row_spec x l Nx) as [Ex _]. destruct (row_spec y l ltac:(lia)) as [Ey _].
      rewrite <- E in Ey. pose proof (Q_mono (row x l) x y L2) as M.
      rewrite (Q_split _ x), (Q_split _ y), Ex, Ey in M.
      revert M. generalize (Q (row x l + 1) l * B) (row x l * (B - 1)). intros. lia.
    - pose proof (mul_step (row x l) (row y l) ltac:(lia)) as MS.
      revert MS. generalize (row x l * (B - 1)) (row y l * (B - 1)). intros. lia.
  Qed.

  Lemma bucket_pos l x : l < x -> 1 <= bucket rb x l.
  Proof.
    intros L. rewrite bucket_form by lia. pose proof (dig_gt x l L).
    generalize (row x l * (B - 1)). intros. lia.
  Qed.

  (** F2: a bucket of the first row holds a single key value *)
  Theorem bucket_row0_inj l x y : l <= x -> l <= y -> bucket rb x l = bucket rb y l -> bucket rb x l < B -> x = y.
  Proof.
    intros L1 L2 E Lt.
    destruct (N.eq_dec x l) as [->|Nx].
    { destruct (N.eq_dec y l) as [->|Ny]; auto. pose proof (bucket_pos l y ltac:(lia)). rewrite bucket_same in E. lia. }
    destruct (N.eq_dec y l) as [->|Ny].
    { pose proof (bucket_pos l x ltac:(lia)). rewrite bucket_same in E. lia. }
    rewrite E in Lt. rewrite !bucket_form in * by auto.
    pose proof (dig_gt x l ltac:(lia)). pose proof (dig_gt y l ltac:(lia)).
    pose proof (dig_lt (row x l) x). pose proof (dig_lt (row y l) y).
    destruct (decode (row x l) (row y l) (dig (row x l) x) (dig (row y l) y)
                ltac:(lia) ltac:(lia) ltac:(lia) ltac:(lia) E) as [Er Ed].
    assert (R0 : row y l = 0).
    { destruct (N.eq_dec (row y l) 0) as [|Nz]; auto. exfalso.
      pose proof (mul_step 0 (row y l) ltac:(lia)) as MS. rewrite N.mul_0_l in MS.
      revert Lt MS. generalize (row y l * (B - 1)). intros. lia. }
    rewrite R0 in *. rewrite Er in *.
    destruct (row_spec x l Nx) as [Ex _]. destruct (row_spec y l Ny) as [Ey _]. rewrite Er in Ex. rewrite R0 in Ey.
    rewrite <- (Q0 x), <- (Q0 y), (Q_split 0 x), (Q_split 0 y). simpl N.add. simpl N.add in Ex, Ey. congruence.
  Qed.

  (** F3: redistribution against the bucket's minimum moves every element to a strictly smaller bucket *)
  Theorem bucket_redistribute l m x : l <= m -> m <= x -> bucket rb m l = bucket rb x l -> B <= bucket rb x l ->
    bucket rb x m < bucket rb x l.
  Proof.
    intros L1 L2 E Ge.
    assert (Nm : m <> l) by (intros ->; rewrite bucket_same in E; pose proof B_ge2; lia).
    destruct (N.eq_dec x m) as [->|Nxm]; [rewrite bucket_same; pose proof B_ge2; lia|].
    rewrite (bucket_form x m) by auto. rewrite (bucket_form x l) in * by lia. rewrite (bucket_form m l) in E by auto.
    pose proof (dig_gt x l ltac:(lia)) as G1. pose proof (dig_gt m l ltac:(lia)) as G2.
    pose proof (dig_lt (row x l) x) as D1. pose proof (dig_lt (row m l) m) as D2.
    destruct (decode (row m l) (row x l) (dig (row m l) m) (dig (row x l) x)
                ltac:(lia) ltac:(lia) ltac:(lia) ltac:(lia) E) as [Er Ed].
    destruct (row_spec x l ltac:(lia)) as [Ex _]. destruct (row_spec m l Nm) as [Em _]. rewrite Er in Em, Ed.
    set (r := row x l) in *.
    assert (EQ : Q r x = Q r m) by (rewrite (Q_split r x), (Q_split r m), Ex, Em, Ed; reflexivity).
    destruct (row_spec x m Nxm) as [_ Nx']. set (r' := row x m) in *.
    assert (Lr : r' < r).
    { destruct (N.lt_ge_cases r' r); auto. exfalso. apply Nx'. apply (Q_further r); auto. }
    pose proof (dig_lt r' x) as D3. pose proof (mul_step r' r ltac:(lia)) as MS.
    revert MS. generalize (r' * (B - 1)) (r * (B - 1)). intros. lia.
  Qed.

  (** F4: raising the limit to a key of a smaller bucket does not move the keys of larger buckets *)
  Theorem bucket_stable l m y : l <= m -> l <= y -> bucket rb m l < bucket rb y l ->
    m < y /\ bucket rb y m = bucket rb y l.
  Proof.
    intros L1 L2 Lt.
    assert (My : m < y).
    { destruct (N.lt_ge_cases m y); auto. pose proof (bucket_mono l y m L2 ltac:(lia)). lia. }
    split; auto.
    destruct (N.eq_dec m l) as [->|Nm]; auto.
    assert (Ny : y <> l) by lia.
    rewrite (bucket_form y m) by lia. rewrite (bucket_form y l) in * by auto. rewrite (bucket_form m l) in Lt by auto.
    pose proof (row_mono l m y ltac:(lia) ltac:(lia)) as RM.
    destruct (row_spec y l Ny) as [Ey Ny']. destruct (row_spec m l Nm) as [Em Nm'].
    set (s := row y l) in *. set (rm := row m l) in *.
    assert (E1 : Q (s + 1) y = Q (s + 1) m).
    { rewrite Ey. symmetry. apply (Q_further (rm + 1)); auto. lia. }
    assert (N1 : Q s y <> Q s m).
    { destruct (N.eq_dec rm s) as [E|Ne].
      - rewrite E in *. intros C.
        assert (dig s y = dig s m) by (unfold dig; now rewrite C).
        revert Lt. rewrite H. generalize (s * (B - 1)) (dig s m). intros. lia.
      - assert (Q s m = Q s l) by (apply (Q_further (rm + 1)); auto; lia). congruence. }
    rewrite (row_unique y m s E1 N1). reflexivity.
  Qed.
End Arith.
