(** C13 — executable model of tlx::DAryAddressableIntHeap (tlx/container/d_ary_addressable_int_heap.hpp).

    State = (heap_, handles_) as two lists of naturals; keys are unsigned integers, [np] is
    not_present() = static_cast<key_type>(-1) (255 for uint8_t keys, 2^32-1 for uint32_t ...).
    The class has its own copies of sift_up / sift_down / heapify that also maintain handles_; they are
    modelled separately here, statement by statement (handle writes in the same places, the max_key tracking
    of heapify included).  AddrProofs.v shows that their heap component is DAry's.

    Positions are stored in handles_ after a narrowing conversion to key_type; the model stores the position
    itself: under the invariant (distinct keys < np) there are at most np positions, so the conversion is exact
    (AddrProofs.positions_fit).

    heapify() is modelled as REPAIRED by fixes/C13/02-*.patch (handles_ reset before they are re-assigned);
    [heapify_shipped] is the 704fd0b behaviour, refuted in AddrProofs.v. *)
From Coq Require Import List Arith Lia Bool.
From TLXV Require Import C13.DAry.
Import ListNotations.

Section Addr.
  Variable ltb : nat -> nat -> bool.   (* cmp_ *)
  Variable d : nat.                    (* Arity *)
  Variable np : nat.                   (* not_present() *)

  Notation get := (DAry.get 0).
  Notation parent := (DAry.parent d).
  Notation left := (DAry.left d).

  Definition aheap : Type := list nat * list nat.   (* heap_, handles_ *)

  Definition resize (hd : list nat) (n : nat) : list nat := hd ++ repeat np (n - length hd). (* only ever grows *)

  Fixpoint asift_up_loop (fuel : nat) (h hd : list nat) (k value : nat) : list nat * list nat * nat :=
    match fuel with
    | 0 => (h, hd, k)
    | S f =>
      if (0 <? k) && negb (ltb (get h (parent k)) value)
      then let h' := upd h k (get h (parent k)) in       (* heap_[k] = heap_[p]   *)
           let hd' := upd hd (get h' k) k in             (* handles_[heap_[k]] = k *)
           asift_up_loop f h' hd' (parent k) value
      else (h, hd, k)
    end.

  Definition asift_up (a : aheap) (k : nat) : aheap :=
    let '(h, hd) := a in
    let value := get h k in
    let '(h', hd', k') := asift_up_loop k h hd k value in
    (upd h' k' value, upd hd' value k').                 (* handles_[value] = k; heap_[k] = value *)

  Fixpoint asift_down_loop (fuel : nat) (h hd : list nat) (k value : nat) : list nat * list nat * nat :=
    match fuel with
    | 0 => (h, hd, k)
    | S f =>
      let l := left k in
      if length h <=? l then (h, hd, k)
      else
        let c := min_child ltb d 0 h l in
        if negb (ltb (get h c) value) then (h, hd, k)
        else let h' := upd h k (get h c) in
             let hd' := upd hd (get h' k) k in
             asift_down_loop f h' hd' c value
    end.

  Definition asift_down (a : aheap) (k : nat) : aheap :=
    let '(h, hd) := a in
    let value := get h k in
    let '(h', hd', k') := asift_down_loop (length h) h hd k value in
    (upd h' k' value, upd hd' value k').

  (** heapify(): the child scan also folds max_key *)
  Definition amin_child (h : list nat) (l mk : nat) : nat * nat :=
    fold_left (fun (cm : nat * nat) j =>
                 let '(c, m) := cm in
                 ((if ltb (get h j) (get h c) then j else c), Nat.max m (get h j)))
              (seq (l + 1) (Nat.min (length h) (l + d) - (l + 1))) (l, mk).

  Fixpoint ahfy_inner (fuel : nat) (h : list nat) (cur value li mk : nat) : list nat * nat * nat :=
    match fuel with
    | 0 => (h, cur, mk)
    | S f =>
      let l := left cur in
      let mk1 := Nat.max mk (get h l) in
      let '(m, mk2) := amin_child h l mk1 in
      if ltb (get h m) value
      then let h' := upd h cur (get h m) in
           if m <=? li then ahfy_inner f h' m value li mk2 else (h', m, mk2)
      else (h, cur, mk2)
    end.

  Definition ahfy_node (li : nat) (st : list nat * nat) (cur : nat) : list nat * nat :=
    let '(h, mk) := st in
    let value := get h cur in
    let mk0 := Nat.max mk value in
    let '(h', c', mk') := ahfy_inner (length h) h cur value li mk0 in
    (upd h' c' value, mk').

  Definition aheapify_loops (h : list nat) : list nat * nat :=
    let mk0 := match h with [] => 0 | x :: _ => x end in
    if 2 <=? length h
    then let li := (length h - 2) / d in
         fold_left (ahfy_node li) (rev (seq 0 (li + 1))) (h, mk0)
    else (h, mk0).

  Definition assign_handles (h hd : list nat) : list nat :=
    fold_left (fun hd i => upd hd (get h i) i) (seq 0 (length h)) hd.

  (** repaired: std::fill(handles_, not_present()) before the resize *)
  Definition heapify (a : aheap) : aheap :=
    let '(h, hd) := a in
    let '(h', mk) := aheapify_loops h in
    let hd1 := repeat np (length hd) in
    let hd2 := resize hd1 (Nat.max (length hd1) (mk + 1)) in
    (h', assign_handles h' hd2).

  Definition heapify_shipped (a : aheap) : aheap :=
    let '(h, hd) := a in
    let '(h', mk) := aheapify_loops h in
    let hd2 := resize hd (Nat.max (length hd) (mk + 1)) in
    (h', assign_handles h' hd2).

  (** public interface *)
  Definition contains (a : aheap) (key : nat) : bool :=
    let '(_, hd) := a in
    if key <? length hd then negb (get hd key =? np) else false.

  (** precondition: key <> np, !contains(key) *)
  Definition push (a : aheap) (key : nat) : aheap :=
    let '(h, hd) := a in
    let hd1 := if length hd <=? key then resize hd (key + 1) else hd in
    let hd2 := upd hd1 key (length h) in
    let h2 := h ++ [key] in
    asift_up (h2, hd2) (length h2 - 1).

  (** precondition: contains(key) *)
  Definition remove (a : aheap) (key : nat) : aheap :=
    let '(h, hd) := a in
    let hh := get hd key in
    let bk := length h - 1 in
    let h1 := upd (upd h hh (get h bk)) bk (get h hh) in     (* std::swap(heap_[h], heap_.back()) *)
    let hd1 := upd hd (get h1 hh) hh in                      (* handles_[heap_[h]] = h *)
    let hd2 := upd hd1 (get h1 bk) np in                     (* handles_[heap_.back()] = not_present() *)
    let h2 := removelast h1 in
    if hh <? length h2
    then if (0 <? hh) && ltb (get h2 hh) (get h2 (parent hh))
         then asift_up (h2, hd2) hh
         else asift_down (h2, hd2) hh
    else (h2, hd2).

  Definition top (a : aheap) : option nat := DAry.top (fst a).
  (** precondition: !empty() *)
  Definition pop (a : aheap) : aheap := remove a (get (fst a) 0).

  Definition update_all (a : aheap) : aheap := heapify a.

  Definition update (a : aheap) (key : nat) : aheap :=
    let '(h, hd) := a in
    if (length hd <=? key) || (get hd key =? np) then push a key
    else let hk := get hd key in
         if (0 <? hk) && ltb (get h hk) (get h (parent hk))
         then asift_up a hk
         else asift_down a hk.

  (** all three overloads: heap_ := keys; heapify() *)
  Definition build_heap (a : aheap) (keys : list nat) : aheap := heapify (keys, snd a).
  Definition build_heap_shipped (a : aheap) (keys : list nat) : aheap := heapify_shipped (keys, snd a).

  Definition clear (a : aheap) : aheap := ([], repeat np (length (snd a))).

  Definition size (a : aheap) : nat := length (fst a).

  (** sanity_check() *)
  Definition sanity_check (a : aheap) : bool :=
    let '(h, hd) := a in
    match h with
    | [] => true
    | _ =>
      forallb (fun i => negb (ltb (get h i) (get h (parent i))) && (get hd (get h i) =? i)) (seq 1 (length h - 1))
      && forallb (fun key => Bool.eqb (existsb (Nat.eqb key) h) (negb (get hd key =? np))) (seq 0 (length hd))
    end.
End Addr.

(** ---- executable history runner over an external priority table (extracted) ---- *)
Inductive aop :=
| APush (k p : nat)        (* prio[k] := p; push(k)             (pre: k not contained, k <> np) *)
| ARemove (k : nat)        (* remove(k)                         (pre: contained) *)
| APop                     (*                                   (pre: non-empty) *)
| AUpdate (k p : nat)      (* prio[k] := p; update(k) *)
| ASet (k p : nat)         (* prio[k] := p only; order may be broken until update_all *)
| AUpdateAll
| ABuild (kps : list (nat * nat))   (* prio[k] := p ...; build_heap(keys)   (pre: keys distinct, <> np) *)
| AClear.

Definition astep (d np : nat) (rv : bool) (st : list nat * aheap) (o : aop) : list nat * aheap :=
  let '(prio, a) := st in
  match o with
  | APush k p => let prio' := set_prio prio k p in (prio', push (tab_ltb prio' rv) d np a k)
  | ARemove k => (prio, remove (tab_ltb prio rv) d np a k)
  | APop => (prio, pop (tab_ltb prio rv) d np a)
  | AUpdate k p => let prio' := set_prio prio k p in (prio', update (tab_ltb prio' rv) d np a k)
  | ASet k p => (set_prio prio k p, a)
  | AUpdateAll => (prio, update_all (tab_ltb prio rv) d np a)
  | ABuild kps => let prio' := fold_left (fun pr kp => set_prio pr (fst kp) (snd kp)) kps prio in
                  (prio', build_heap (tab_ltb prio' rv) d np a (map fst kps))
  | AClear => (prio, clear np a)
  end.

(** observation after every operation: size, top, sanity_check, contains(k) for k < nk *)
Definition aobs (d np nk : nat) (rv : bool) (st : list nat * aheap) : nat * option nat * bool * list bool :=
  let '(prio, a) := st in
  (size a, top a, sanity_check (tab_ltb prio rv) d np a, map (contains np a) (seq 0 nk)).

Fixpoint arun (d np nk : nat) (rv : bool) (st : list nat * aheap) (ops : list aop)
  : list (nat * option nat * bool * list bool) :=
  match ops with
  | [] => []
  | o :: r => let st' := astep d np rv st o in aobs d np nk rv st' :: arun d np nk rv st' r
  end.

Definition ainit : list nat * aheap := ([], ([], [])).
