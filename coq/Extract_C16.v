From TLXV Require Import C16.Ring C16.SVec C16.RingRefine C16.SVecProofs.
Require Extraction. Require ExtrOcamlBasic.
Extraction Language OCaml.
Extraction "../ocaml/gen/C16_model.ml" Ring.run Ring.init_state Ring.final_bad RingRefine.valid RingRefine.srun
  SVec.vrun SVec.vinit SVec.vfinal_ok SVecProofs.svalid SVecProofs.srun SVec.live_elems SVec.vstep Ring.live_slots Ring.step.
