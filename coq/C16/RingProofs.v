(** C16 — RingBuffer refines a bounded deque and keeps slot lifetimes exact. *)
From Coq Require Import List Arith Lia Bool.
From TLXV Require Import C16.Ring.
Import ListNotations.

(** * Index arithmetic in if-form (all linear afterwards) *)
Lemma mod_dist c b e : b < c -> e < c ->
  (e + c - b) mod c = if b <=? e then e - b else e + c - b.
Proof.
  intros Hb He. destruct (Nat.leb_spec b e).
  - symmetry. apply Nat.mod_unique with 1; lia.
  - apply Nat.mod_small; lia.
Qed.

Lemma mod_inc c x : x < c -> (x + 1) mod c = if x + 1 =? c then 0 else x + 1.
Proof.
  intros Hx. destruct (Nat.eqb_spec (x + 1) c) as [E|E].
  - symmetry. apply Nat.mod_unique with 1; lia.
  - apply Nat.mod_small; lia.
Qed.

Lemma mod_dec c x : x < c -> (x + c - 1) mod c = if x =? 0 then c - 1 else x - 1.
Proof.
  intros Hx. destruct (Nat.eqb_spec x 0) as [E|E].
  - subst. apply Nat.mod_small; lia.
  - symmetry. apply Nat.mod_unique with 1; lia.
Qed.

Lemma mod_off c b i : b < c -> i < c -> (b + i) mod c = if b + i <? c then b + i else b + i - c.
Proof.
  intros Hb Hi. destruct (Nat.ltb_spec (b + i) c).
  - apply Nat.mod_small; lia.
  - symmetry. apply Nat.mod_unique with 1; lia.
Qed.

(** * upd / nth *)
Lemma upd_length {A} (l : list A) i x : length (upd l i x) = length l.
Proof. revert i; induction l as [|y t IH]; intros [|i]; simpl; auto. Qed.

Lemma nth_upd_eq {A} (l : list A) i x d : i < length l -> nth i (upd l i x) d = x.
Proof. revert i; induction l as [|y t IH]; intros [|i]; simpl; intros; try lia; auto. apply IH; lia. Qed.

Lemma nth_upd_neq {A} (l : list A) i j x d : i <> j -> nth j (upd l i x) d = nth j l d.
Proof. revert i j; induction l as [|y t IH]; intros [|i] [|j]; simpl; intros; auto; try lia. Qed.

(** * Invariant *)
(** position i holds a live element iff it lies in the circular interval [b, e) *)
Definition live (b e i : nat) : bool :=
  if b <=? e then (b <=? i) && (i <? e) else (b <=? i) || (i <? e).

Definition Inv (r : ring) : Prop :=
  match data r with
  | None => rbegin r = rend r
  | Some d => length d = cap r /\ max_size r < cap r /\ rbegin r < cap r /\ rend r < cap r /\
              size r <= max_size r /\
              forall i, i < cap r -> (nth i d None <> None <-> live (rbegin r) (rend r) i = true)
  end.

(** abstraction: the element sequence front to back *)
Definition Abs (r : ring) (l : list elem) : Prop := contents r = map Some l.

Lemma size_eq r : cap r <> 0 -> size r = (rend r + cap r - rbegin r) mod cap r.
Proof. unfold size. destruct (cap r); [lia|reflexivity]. Qed.

Lemma mod_self_diff b c : c <> 0 -> (b + c - b) mod c = 0.
Proof. intros. replace (b + c - b) with c by lia. now apply Nat.mod_same. Qed.
Lemma mod_self_diff0 c : c <> 0 -> (c - 0) mod c = 0.
Proof. intros. rewrite Nat.sub_0_r. now apply Nat.mod_same. Qed.

Lemma size_if r : cap r <> 0 -> rbegin r < cap r -> rend r < cap r ->
  size r = if rbegin r <=? rend r then rend r - rbegin r else rend r + cap r - rbegin r.
Proof.
  intros Hc Hb He. unfold size. destruct (cap r) eqn:E; [lia|]. rewrite <- E in *.
  apply mod_dist; auto.
Qed.

Lemma Abs_length r l : Abs r l -> length l = size r.
Proof. unfold Abs, contents. intros H. apply (f_equal (@length _)) in H. now rewrite !map_length, seq_length in H. Qed.

Ltac ifs := repeat match goal with
  | |- context [if ?b then _ else _] => destruct b eqn:?
  | H : context [if ?b then _ else _] |- _ => destruct b eqn:?
  end.
Ltac b2p := repeat match goal with
  | H : (_ <=? _) = true |- _ => apply Nat.leb_le in H
  | H : (_ <=? _) = false |- _ => apply Nat.leb_gt in H
  | H : (_ <? _) = true |- _ => apply Nat.ltb_lt in H
  | H : (_ <? _) = false |- _ => apply Nat.ltb_ge in H
  | H : (_ =? _) = true |- _ => apply Nat.eqb_eq in H
  | H : (_ =? _) = false |- _ => apply Nat.eqb_neq in H
  | H : _ && _ = true |- _ => apply andb_true_iff in H; destruct H
  | H : _ && _ = false |- _ => apply andb_false_iff in H
  | H : _ || _ = true |- _ => apply orb_true_iff in H
  | H : _ || _ = false |- _ => apply orb_false_iff in H; destruct H
  end.

Lemma live_spec b e i : live b e i = true <->
  (b <= e /\ b <= i < e) \/ (e < b /\ (b <= i \/ i < e)).
Proof.
  unfold live. destruct (Nat.leb_spec b e).
  - rewrite andb_true_iff, Nat.leb_le, Nat.ltb_lt. lia.
  - rewrite orb_true_iff, Nat.leb_le, Nat.ltb_lt. lia.
Qed.

(** * make / allocate *)
Lemma rup2_from_ge fuel p n : 0 < p -> n <= p * 2 ^ fuel -> n <= rup2_from fuel p n.
Proof.
  revert p; induction fuel as [|f IH]; intros p Hp Hn; simpl in *.
  - lia.
  - destruct (Nat.leb_spec n p); [lia|]. apply IH; lia.
Qed.

Lemma pow2_gt n : n < 2 ^ n.
Proof. induction n; simpl; lia. Qed.

Lemma rup2_ge n : n <= rup2 n.
Proof. unfold rup2. apply rup2_from_ge; [lia|]. pose proof (pow2_gt n). lia. Qed.

Lemma nth_repeat_None {A} n i : nth i (repeat (@None A) n) None = None.
Proof. revert i; induction n; intros [|i]; simpl; auto. Qed.

Lemma live_empty b i : live b b i = false.
Proof. unfold live. rewrite Nat.leb_refl. destruct (Nat.leb_spec b i), (Nat.ltb_spec i b); simpl; auto; lia. Qed.

Lemma Inv_fresh m c b : m < c -> b < c ->
  Inv {| max_size := m; cap := c; data := Some (repeat None c); rbegin := b; rend := b |}.
Proof.
  intros Hm Hb. unfold Inv; simpl. rewrite repeat_length. repeat split; auto.
  - rewrite size_eq by (simpl; lia). simpl. rewrite mod_self_diff; lia.
  - intros Hn. exfalso. apply Hn. apply nth_repeat_None.
  - rewrite live_empty. discriminate.
Qed.

Lemma Abs_fresh m c b : 0 < c ->
  Abs {| max_size := m; cap := c; data := Some (repeat None c); rbegin := b; rend := b |} [].
Proof.
  intros Hc. unfold Abs, contents. rewrite size_eq by (simpl; lia). simpl.
  rewrite mod_self_diff by lia. reflexivity.
Qed.

Lemma make_ok m : Inv (make m) /\ Abs (make m) [].
Proof.
  unfold make. pose proof (rup2_ge (m + 1)). split; [apply Inv_fresh|apply Abs_fresh]; lia.
Qed.

(** * Single-step lemmas *)
Section Steps.
  Variable r : ring.
  Variable d : list (option elem).
  Variable l : list elem.
  Hypothesis Hd : data r = Some d.
  Hypothesis HI : Inv r.
  Hypothesis HA : Abs r l.

  Lemma inv_facts : length d = cap r /\ max_size r < cap r /\ rbegin r < cap r /\ rend r < cap r /\
    size r <= max_size r /\
    (forall i, i < cap r -> (nth i d None <> None <-> live (rbegin r) (rend r) i = true)) /\
    cap r <> 0 /\
    size r = (if rbegin r <=? rend r then rend r - rbegin r else rend r + cap r - rbegin r).
  Proof.
    unfold Inv in HI. rewrite Hd in HI. destruct HI as (H1 & H2 & H3 & H4 & H5 & H6).
    repeat split; auto; try lia; try (apply H6; auto). apply size_if; lia.
  Qed.
  Ltac facts := destruct inv_facts as (Hlen & Hm & Hb & He & Hs & Hlive & Hc & Hsz).

  Lemma get_in i : i < size r -> get r i = Some (nth i l 0).
  Proof.
    facts. intros Hi. unfold Abs, contents in HA.
    assert (nth i (map (get r) (seq 0 (size r))) None = nth i (map Some l) None) as E by now rewrite HA.
    rewrite (nth_indep _ None (get r 0)) in E by (now rewrite map_length, seq_length).
    rewrite map_nth, seq_nth in E by auto. simpl in E. rewrite E.
    pose proof (Abs_length _ _ HA) as Hl.
    rewrite (nth_indep _ None (Some 0)) by (rewrite map_length; lia).
    now rewrite map_nth.
  Qed.

  (** push_back *)
  Lemma push_back_ok v : size r + 1 <= max_size r ->
    let x := push_back r v in
    bad x = false /\ Inv (buf x) /\ Abs (buf x) (l ++ [v]) /\ data (buf x) <> None /\
    max_size (buf x) = max_size r /\ cap (buf x) = cap r.
  Proof.
    facts. intros Hfull. unfold push_back, construct. rewrite Hd. cbn [buf bad set_end max_size cap data rbegin rend].
    assert (nth (rend r) d None = None) as Hraw.
    { destruct (nth (rend r) d None) eqn:E; auto. exfalso.
      assert (live (rbegin r) (rend r) (rend r) = true) as L by (apply Hlive; auto; congruence).
      apply live_spec in L. lia. }
    rewrite Hraw. replace (rend r <? length d) with true by (symmetry; apply Nat.ltb_lt; lia).
    cbn [negb orb]. split; [reflexivity|].
    pose proof (mod_inc (cap r) (rend r) He) as Hinc.
    set (e' := (rend r + 1) mod cap r) in *.
    assert (e' < cap r) as He' by (apply Nat.mod_upper_bound; auto).
    set (r' := {| max_size := max_size r; cap := cap r; data := Some (upd d (rend r) (Some v));
                  rbegin := rbegin r; rend := e' |}).
    assert (size r' = size r + 1) as Hsz'.
    { rewrite (size_if r') by (simpl; auto). simpl. rewrite Hsz in *. ifs; b2p; lia. }
    match goal with |- Inv ?x /\ _ => change x with r' end.
    split; [|split; [|split; [discriminate|split; reflexivity]]].
    - unfold Inv. cbn [data r' max_size cap rbegin rend]. rewrite upd_length.
      repeat split; auto; try lia.
      + intros Hn. destruct (Nat.eq_dec i (rend r)) as [->|Hne].
        * apply live_spec. simpl. rewrite Hsz in *. ifs; b2p; lia.
        * rewrite nth_upd_neq in Hn by auto. apply Hlive in Hn; auto.
          apply live_spec in Hn. apply live_spec. simpl. ifs; b2p; lia.
      + intros L. destruct (Nat.eq_dec i (rend r)) as [->|Hne].
        * rewrite nth_upd_eq by lia. discriminate.
        * rewrite nth_upd_neq by auto. apply Hlive; auto.
          apply live_spec in L. apply live_spec. simpl in L. rewrite Hsz in *. ifs; b2p; lia.
    - unfold Abs, contents. rewrite Hsz'. rewrite Nat.add_1_r, seq_S, map_app, map_app. simpl.
      f_equal.
      + rewrite <- HA. unfold contents. apply map_ext_in. intros j Hj. apply in_seq in Hj.
        unfold get, slot_at, idx. cbn [data r' cap rbegin]. rewrite Hd.
        apply nth_upd_neq.
        assert (j < cap r) by lia.
        rewrite mod_off by auto. rewrite Hsz in *. ifs; b2p; lia.
      + unfold get, slot_at, idx. cbn [data r' cap rbegin].
        assert (size r < cap r) by lia.
        replace ((rbegin r + size r) mod cap r) with (rend r).
        * now rewrite nth_upd_eq by lia.
        * rewrite mod_off by auto. rewrite Hsz in *. ifs; b2p; lia.
  Qed.

  (** push_front *)
  Lemma push_front_ok v : size r + 1 <= max_size r ->
    let x := push_front r v in
    bad x = false /\ Inv (buf x) /\ Abs (buf x) (v :: l) /\ data (buf x) <> None /\
    max_size (buf x) = max_size r /\ cap (buf x) = cap r.
  Proof.
    facts. intros Hfull. unfold push_front, construct, set_begin. cbn [data max_size cap rbegin rend buf bad].
    rewrite Hd.
    pose proof (mod_dec (cap r) (rbegin r) Hb) as Hdec.
    set (b' := (rbegin r + cap r - 1) mod cap r) in *.
    assert (b' < cap r) as Hb' by (apply Nat.mod_upper_bound; auto).
    assert (nth b' d None = None) as Hraw.
    { destruct (nth b' d None) eqn:E; auto. exfalso.
      assert (live (rbegin r) (rend r) b' = true) as L by (apply Hlive; auto; congruence).
      apply live_spec in L. rewrite Hsz in *. ifs; b2p; lia. }
    rewrite Hraw. replace (b' <? length d) with true by (symmetry; apply Nat.ltb_lt; lia).
    cbn [negb orb]. split; [reflexivity|].
    set (r' := {| max_size := max_size r; cap := cap r; data := Some (upd d b' (Some v));
                  rbegin := b'; rend := rend r |}).
    assert (size r' = size r + 1) as Hsz'.
    { rewrite (size_if r') by (simpl; auto). simpl. rewrite Hsz in *. ifs; b2p; lia. }
    match goal with |- Inv ?x /\ _ => change x with r' end.
    split; [|split; [|split; [discriminate|split; reflexivity]]].
    - unfold Inv. cbn [data r' max_size cap rbegin rend]. rewrite upd_length.
      repeat split; auto; try lia.
      + intros Hn. destruct (Nat.eq_dec i b') as [->|Hne].
        * apply live_spec. rewrite Hsz in *. ifs; b2p; lia.
        * rewrite nth_upd_neq in Hn by auto. apply Hlive in Hn; auto.
          apply live_spec in Hn. apply live_spec. ifs; b2p; lia.
      + intros L. destruct (Nat.eq_dec i b') as [->|Hne].
        * rewrite nth_upd_eq by lia. discriminate.
        * rewrite nth_upd_neq by auto. apply Hlive; auto.
          apply live_spec in L. apply live_spec. rewrite Hsz in *. ifs; b2p; lia.
    - unfold Abs, contents. rewrite Hsz'. rewrite Nat.add_1_r. cbn [seq map]. f_equal.
      + unfold get, slot_at, idx. cbn [data r' cap rbegin]. rewrite Nat.add_0_r, Nat.mod_small by auto.
        now rewrite nth_upd_eq by lia.
      + rewrite <- HA. unfold contents. rewrite <- seq_shift, map_map. apply map_ext_in.
        intros j Hj. apply in_seq in Hj.
        unfold get, slot_at, idx. cbn [data r' cap rbegin]. rewrite Hd.
        assert (j < cap r) by lia. assert (S j < cap r) by lia.
        rewrite nth_upd_neq.
        * f_equal. rewrite !mod_off by auto. ifs; b2p; lia.
        * rewrite mod_off by auto. rewrite Hsz in *. ifs; b2p; lia.
  Qed.

  (** pop_front *)
  Lemma pop_front_ok : 0 < size r ->
    let x := pop_front r in
    bad x = false /\ Inv (buf x) /\ Abs (buf x) (tl l) /\ data (buf x) <> None /\
    max_size (buf x) = max_size r /\ cap (buf x) = cap r /\ size (buf x) = size r - 1.
  Proof.
    facts. intros Hne. unfold pop_front, destroy, set_begin. rewrite Hd. cbn [data max_size cap rbegin rend buf bad].
    assert (nth (rbegin r) d None <> None) as Hlv.
    { apply Hlive; auto. apply live_spec. rewrite Hsz in *. ifs; b2p; lia. }
    destruct (nth (rbegin r) d None) eqn:E; [|congruence]. split; [reflexivity|].
    pose proof (mod_inc (cap r) (rbegin r) Hb) as Hinc.
    set (b' := (rbegin r + 1) mod cap r) in *.
    assert (b' < cap r) as Hb' by (apply Nat.mod_upper_bound; auto).
    set (r' := {| max_size := max_size r; cap := cap r; data := Some (upd d (rbegin r) None);
                  rbegin := b'; rend := rend r |}).
    assert (size r' = size r - 1) as Hsz'.
    { rewrite (size_if r') by (simpl; auto). simpl. rewrite Hsz in *. ifs; b2p; lia. }
    match goal with |- Inv ?x /\ _ => change x with r' end.
    split; [|split; [|split; [discriminate|split; [reflexivity|split; [reflexivity|exact Hsz']]]]].
    - unfold Inv. cbn [data r' max_size cap rbegin rend]. rewrite upd_length.
      repeat split; auto; try lia.
      + intros Hn. destruct (Nat.eq_dec i (rbegin r)) as [->|Hne'].
        * rewrite nth_upd_eq in Hn by lia. congruence.
        * rewrite nth_upd_neq in Hn by auto. apply Hlive in Hn; auto.
          apply live_spec in Hn. apply live_spec. rewrite Hsz in *. ifs; b2p; lia.
      + intros L. destruct (Nat.eq_dec i (rbegin r)) as [->|Hne'].
        * exfalso. apply live_spec in L. rewrite Hsz in *. ifs; b2p; lia.
        * rewrite nth_upd_neq by auto. apply Hlive; auto.
          apply live_spec in L. apply live_spec. rewrite Hsz in *. ifs; b2p; lia.
    - pose proof (Abs_length _ _ HA) as Hl. destruct l as [|a l']; [simpl in Hl; lia|]. cbn [tl].
      unfold Abs, contents in *. rewrite Hsz'.
      replace (size r) with (S (size r - 1)) in HA by lia. cbn [seq map] in HA.
      injection HA as _ HA. rewrite <- HA. rewrite <- seq_shift, map_map. apply map_ext_in.
      intros j Hj. apply in_seq in Hj.
      unfold get, slot_at, idx. cbn [data r' cap rbegin]. rewrite Hd.
      assert (j < cap r) by lia. assert (S j < cap r) by lia.
      rewrite nth_upd_neq.
      + f_equal. rewrite !mod_off by auto. ifs; b2p; lia.
      + rewrite mod_off by auto. rewrite Hsz in *. ifs; b2p; lia.
  Qed.

  (** pop_back (repaired) *)
  Lemma pop_back_ok : 0 < size r ->
    let x := pop_back r in
    bad x = false /\ Inv (buf x) /\ Abs (buf x) (removelast l) /\ data (buf x) <> None /\
    max_size (buf x) = max_size r /\ cap (buf x) = cap r.
  Proof.
    facts. intros Hne. unfold pop_back, destroy, set_end. rewrite Hd. cbn [data max_size cap rbegin rend buf bad].
    pose proof (mod_dec (cap r) (rend r) He) as Hdec.
    set (e' := (rend r + cap r - 1) mod cap r) in *.
    assert (e' < cap r) as He' by (apply Nat.mod_upper_bound; auto).
    assert (nth e' d None <> None) as Hlv.
    { apply Hlive; auto. apply live_spec. rewrite Hsz in *. ifs; b2p; lia. }
    destruct (nth e' d None) eqn:E; [|congruence]. split; [reflexivity|].
    set (r' := {| max_size := max_size r; cap := cap r; data := Some (upd d e' None);
                  rbegin := rbegin r; rend := e' |}).
    assert (size r' = size r - 1) as Hsz'.
    { rewrite (size_if r') by (simpl; auto). simpl. rewrite Hsz in *. ifs; b2p; lia. }
    match goal with |- Inv ?x /\ _ => change x with r' end.
    split; [|split; [|split; [discriminate|split; reflexivity]]].
    - unfold Inv. cbn [data r' max_size cap rbegin rend]. rewrite upd_length.
      repeat split; auto; try lia.
      + intros Hn. destruct (Nat.eq_dec i e') as [->|Hne'].
        * rewrite nth_upd_eq in Hn by lia. congruence.
        * rewrite nth_upd_neq in Hn by auto. apply Hlive in Hn; auto.
          apply live_spec in Hn. apply live_spec. rewrite Hsz in *. ifs; b2p; lia.
      + intros L. destruct (Nat.eq_dec i e') as [->|Hne'].
        * exfalso. apply live_spec in L. rewrite Hsz in *. ifs; b2p; lia.
        * rewrite nth_upd_neq by auto. apply Hlive; auto.
          apply live_spec in L. apply live_spec. rewrite Hsz in *. ifs; b2p; lia.
    - pose proof (Abs_length _ _ HA) as Hl.
      destruct (exists_last (l := l)) as (l' & a & ->); [destruct l; simpl in *; [lia|discriminate]|].
      rewrite removelast_last. rewrite app_length in Hl. simpl in Hl.
      unfold Abs, contents in *. rewrite Hsz'.
      replace (size r) with (S (size r - 1)) in HA by lia.
      rewrite seq_S, !map_app in HA. simpl in HA. apply app_inj_tail in HA as [HA _].
      rewrite <- HA. apply map_ext_in. intros j Hj. apply in_seq in Hj.
      unfold get, slot_at, idx. cbn [data r' cap rbegin]. rewrite Hd.
      assert (j < cap r) by lia.
      apply nth_upd_neq. rewrite mod_off by auto. rewrite Hsz in *. ifs; b2p; lia.
  Qed.

  (** observers *)
  Lemma front_ok : 0 < size r -> front r = Some (hd 0 l).
  Proof.
    facts. intros Hne. pose proof (get_in 0 Hne) as G. unfold get, idx in G.
    rewrite Nat.add_0_r, Nat.mod_small in G by auto. unfold front. rewrite G.
    destruct l; reflexivity.
  Qed.

  Lemma back_ok : 0 < size r -> back r = Some (last l 0).
  Proof.
    facts. intros Hne. assert (size r - 1 < size r) as Hi by lia. pose proof (get_in _ Hi) as G.
    unfold get, idx in G. unfold back.
    replace ((rend r + cap r - 1) mod cap r) with ((rbegin r + (size r - 1)) mod cap r).
    - rewrite G. f_equal. pose proof (Abs_length _ _ HA) as Hl. rewrite <- Hl.
      clear -Hl Hne. destruct (exists_last (l := l)) as (l' & a & ->); [destruct l; simpl in *; [lia|discriminate]|].
      rewrite last_last, app_length. simpl. replace (length l' + 1 - 1) with (length l') by lia.
      now rewrite app_nth2, Nat.sub_diag by lia.
    - assert (size r - 1 < cap r) by lia.
      rewrite mod_off, mod_dec by auto. rewrite Hsz in *. ifs; b2p; lia.
  Qed.
End Steps.

(** * clear *)
Lemma clear_loop_ok fuel : forall r d l b,
  data r = Some d -> Inv r -> Abs r l -> size r <= fuel ->
  let x := clear_loop fuel r b in
  bad x = b /\ Inv (buf x) /\ Abs (buf x) [] /\ data (buf x) <> None /\
  max_size (buf x) = max_size r /\ cap (buf x) = cap r /\ size (buf x) = 0.
Proof.
  induction fuel as [|f IH]; intros r d l b Hd HI HA Hf.
  - assert (size r = 0) as Z by lia. simpl.
    assert (rbegin r = rend r) as E.
    { unfold Inv in HI. rewrite Hd in HI. destruct HI as (_ & ? & ? & ? & _).
      rewrite size_if in Z by lia. destruct (Nat.leb_spec (rbegin r) (rend r)); lia. }
    rewrite E, Nat.eqb_refl, orb_false_r. repeat split; auto; try (simpl; congruence).
    pose proof (Abs_length _ _ HA). destruct l; [assumption|simpl in *; lia].
  - cbn [clear_loop]. destruct (Nat.eqb_spec (rbegin r) (rend r)) as [E|NE].
    + assert (size r = 0) as Z.
      { unfold Inv in HI. rewrite Hd in HI. destruct HI as (_ & ? & ? & ? & _).
        rewrite size_if by lia. rewrite E, Nat.leb_refl. lia. }
      repeat split; auto; try (simpl; congruence).
      pose proof (Abs_length _ _ HA). destruct l; [assumption|simpl in *; lia].
    + assert (0 < size r) as P.
      { unfold Inv in HI. rewrite Hd in HI. destruct HI as (_ & ? & ? & ? & _).
        rewrite size_if by lia. destruct (Nat.leb_spec (rbegin r) (rend r)); lia. }
      destruct (pop_front_ok r d l Hd HI HA P) as (B & I' & A' & D' & M' & C' & S').
      destruct (data (buf (pop_front r))) as [d'|] eqn:Ed'; [|congruence].
      specialize (IH (buf (pop_front r)) d' (tl l) (b || bad (pop_front r)) Ed' I' A').
      rewrite B, orb_false_r in IH. rewrite B, orb_false_r.
      destruct IH as (? & ? & ? & ? & ? & ? & ?); [lia|].
      repeat split; auto; congruence.
Qed.

Lemma clear_ok r d l : data r = Some d -> Inv r -> Abs r l ->
  let x := clear r in
  bad x = false /\ Inv (buf x) /\ Abs (buf x) [] /\ data (buf x) <> None /\
  max_size (buf x) = max_size r /\ cap (buf x) = cap r /\ size (buf x) = 0.
Proof.
  intros Hd HI HA. unfold clear. apply (clear_loop_ok (cap r) r d l false Hd HI HA).
  unfold Inv in HI. rewrite Hd in HI. lia.
Qed.

(** an empty buffer has only raw slots: the block can be released without leaking *)
Lemma empty_all_raw r : Inv r -> size r = 0 -> all_raw r = true.
Proof.
  unfold Inv, all_raw. destruct (data r) as [d|] eqn:Hd; auto.
  intros (Hl & Hm & Hb & He & Hs & Hlive) Z.
  apply forallb_forall. intros s Hin. destruct s as [v|]; auto. exfalso.
  apply (In_nth _ _ None) in Hin as (i & Hi & Hn).
  assert (nth i d None <> None) as Hne by congruence.
  apply Hlive in Hne; [|lia]. apply live_spec in Hne.
  rewrite size_if in Z by lia. destruct (Nat.leb_spec (rbegin r) (rend r)); lia.
Qed.

(** destruction of any buffer satisfying the invariant neither double-destroys nor leaks *)
Lemma destruct_ok r l : Inv r -> (data r <> None -> Abs r l) -> destruct_ring r = false.
Proof.
  intros HI HA. unfold destruct_ring. destruct (data r) as [d|] eqn:Hd.
  - destruct (clear_ok r d l Hd HI (HA ltac:(discriminate))) as (B & I' & _ & _ & _ & _ & Z).
    rewrite B, (empty_all_raw _ I' Z). reflexivity.
  - unfold clear. unfold Inv in HI. rewrite Hd in HI.
    assert (forall f b, clear_loop f r b = {| buf := r; bad := b |}) as CL.
    { intros [|f] b; simpl; rewrite HI, Nat.eqb_refl; simpl; rewrite ?orb_false_r; reflexivity. }
    rewrite CL. simpl. unfold all_raw. rewrite Hd. reflexivity.
Qed.

(** * copies *)
Lemma push_all_ok : forall vs r d l b,
  data r = Some d -> Inv r -> Abs r l -> size r + length vs <= max_size r ->
  let x := push_all r (map Some vs) b in
  bad x = b /\ Inv (buf x) /\ Abs (buf x) (l ++ vs) /\ data (buf x) <> None /\
  max_size (buf x) = max_size r /\ cap (buf x) = cap r.
Proof.
  induction vs as [|v vs IH]; intros r d l b Hd HI HA Hf; simpl in *.
  - rewrite app_nil_r. repeat split; auto; congruence.
  - destruct (push_back_ok r d l Hd HI HA v ltac:(lia)) as (B & I' & A' & D' & M' & C').
    destruct (data (buf (push_back r v))) as [d'|] eqn:Ed'; [|congruence].
    pose proof (Abs_length _ _ A') as L'. pose proof (Abs_length _ _ HA) as L. rewrite app_length in L'. simpl in L'.
    specialize (IH (buf (push_back r v)) d' (l ++ [v]) (b || bad (push_back r v)) Ed' I' A').
    rewrite B, orb_false_r in IH. rewrite B, orb_false_r.
    destruct IH as (? & ? & ? & ? & ? & ?); [lia|].
    rewrite <- app_assoc in *. simpl in *. repeat split; auto; congruence.
Qed.

Lemma copy_construct_ok src d l : data src = Some d -> Inv src -> Abs src l ->
  let x := copy_construct src in
  bad x = false /\ Inv (buf x) /\ Abs (buf x) l /\ data (buf x) <> None /\
  max_size (buf x) = max_size src /\ cap (buf x) = cap src.
Proof.
  intros Hd HI HA. unfold copy_construct, copy_construct_with, block. rewrite HA.
  assert (max_size src < cap src /\ size src <= max_size src) as [Hm Hs]
    by (unfold Inv in HI; rewrite Hd in HI; tauto).
  pose proof (Abs_length _ _ HA) as L.
  destruct (cap src =? 0) eqn:Ez; [apply Nat.eqb_eq in Ez; lia|].
  set (r0 := {| max_size := max_size src; cap := cap src; data := Some (repeat None (cap src)); rbegin := 0; rend := 0 |}).
  assert (Inv r0) as I0 by (apply Inv_fresh; lia).
  assert (Abs r0 []) as A0 by (apply Abs_fresh; lia).
  pose proof (Abs_length _ _ A0) as L0. simpl in L0.
  destruct (push_all_ok l r0 _ [] false eq_refl I0 A0) as (? & ? & ? & ? & ? & ?); [simpl; lia|].
  repeat split; auto.
Qed.

Lemma copy_assign_ok dst dd dl src d l :
  data dst = Some dd -> Inv dst -> Abs dst dl -> data src = Some d -> Inv src -> Abs src l ->
  let x := copy_assign dst src in
  bad x = false /\ Inv (buf x) /\ Abs (buf x) l /\ data (buf x) <> None /\
  max_size (buf x) = max_size src /\ cap (buf x) = cap src.
Proof.
  intros Hdd HId HAd Hd HI HA. unfold copy_assign, copy_assign_with, block.
  destruct (clear_ok dst dd dl Hdd HId HAd) as (B & I1 & A1 & D1 & M1 & C1 & Z1).
  rewrite B. cbn [orb]. rewrite HA.
  assert (max_size src < cap src /\ size src <= max_size src) as [Hm Hs]
    by (unfold Inv in HI; rewrite Hd in HI; tauto).
  destruct (cap src =? 0) eqn:Ez; [apply Nat.eqb_eq in Ez; lia|].
  pose proof (Abs_length _ _ HA) as L.
  rewrite (empty_all_raw _ I1 Z1). rewrite andb_false_r.
  destruct (cap (buf (clear dst)) =? cap src) eqn:Ec; cbn [negb].
  - apply Nat.eqb_eq in Ec.
    destruct (data (buf (clear dst))) as [d1|] eqn:Ed1; [|congruence].
    set (r0 := {| max_size := max_size src; cap := cap src; data := Some d1; rbegin := 0; rend := 0 |}).
    assert (Inv r0) as I0.
    { pose proof (empty_all_raw _ I1 Z1) as R.
      unfold Inv in I1. rewrite Ed1 in I1. destruct I1 as (Hl1 & _ & _ & _ & _ & Hlv1).
      unfold Inv, r0; simpl. repeat split; try lia.
      - rewrite size_eq by (simpl; lia). simpl. rewrite mod_self_diff0; lia.
      - intros Hn. exfalso.
        unfold all_raw in R. rewrite Ed1 in R. rewrite forallb_forall in R.
        assert (In (nth i d1 None) d1) as Hin by (apply nth_In; lia).
        specialize (R _ Hin). destruct (nth i d1 None); congruence.
      - rewrite live_empty. discriminate. }
    assert (Abs r0 []) as A0.
    { unfold Abs, contents. rewrite size_eq by (simpl; lia). simpl. now rewrite mod_self_diff0 by lia. }
    pose proof (Abs_length _ _ A0) as L0. simpl in L0.
    destruct (push_all_ok l r0 _ [] false eq_refl I0 A0) as (? & ? & ? & ? & ? & ?); [simpl; lia|].
    repeat split; auto.
  - set (r0 := {| max_size := max_size src; cap := cap src; data := Some (repeat None (cap src)); rbegin := 0; rend := 0 |}).
    assert (Inv r0) as I0 by (apply Inv_fresh; lia).
    assert (Abs r0 []) as A0 by (apply Abs_fresh; lia).
    pose proof (Abs_length _ _ A0) as L0. simpl in L0.
    destruct (push_all_ok l r0 _ [] false eq_refl I0 A0) as (? & ? & ? & ? & ? & ?); [simpl; lia|].
    repeat split; auto.
Qed.

(** copy-assignment onto an unallocated buffer (default-constructed, moved-from or deallocated: no block, capacity 0) *)
Lemma copy_assign_none_ok dst src d l :
  data dst = None -> rbegin dst = rend dst -> cap dst = 0 ->
  data src = Some d -> Inv src -> Abs src l ->
  let x := copy_assign dst src in
  bad x = false /\ Inv (buf x) /\ Abs (buf x) l /\ data (buf x) <> None /\
  max_size (buf x) = max_size src /\ cap (buf x) = cap src.
Proof.
  intros Hdn E C0 Hd HI HA. unfold copy_assign, copy_assign_with, block.
  assert (clear dst = {| buf := dst; bad := false |}) as CL.
  { unfold clear. rewrite C0. simpl. rewrite E, Nat.eqb_refl. reflexivity. }
  rewrite CL. cbn [buf bad orb]. rewrite HA.
  assert (max_size src < cap src /\ size src <= max_size src) as [Hm Hs]
    by (unfold Inv in HI; rewrite Hd in HI; tauto).
  pose proof (Abs_length _ _ HA) as L.
  assert (all_raw dst = true) as AR by (unfold all_raw; rewrite Hdn; reflexivity).
  rewrite AR, C0. rewrite andb_false_r.
  destruct (cap src =? 0) eqn:Ez; [apply Nat.eqb_eq in Ez; lia|].
  destruct (0 =? cap src) eqn:Ec; [apply Nat.eqb_eq in Ec; lia|]. cbn [negb].
  set (r0 := {| max_size := max_size src; cap := cap src; data := Some (repeat None (cap src)); rbegin := 0; rend := 0 |}).
  assert (Inv r0) as I0 by (apply Inv_fresh; lia).
  assert (Abs r0 []) as A0 by (apply Abs_fresh; lia).
  pose proof (Abs_length _ _ A0) as L0. simpl in L0.
  destruct (push_all_ok l r0 _ [] false eq_refl I0 A0) as (? & ? & ? & ? & ? & ?); [simpl; lia|].
  repeat split; auto.
Qed.

