(** C16 — every capacity-respecting history of the three-variable operation language refines the
    bounded-deque specification, with an exact lifetime ledger. *)
From Coq Require Import List Arith Lia Bool.
From TLXV Require Import C16.Ring C16.RingProofs.
Import ListNotations.

(** * Specification: a variable is unallocated or a bounded deque *)
Inductive sv := SNone | SAlloc (m : nat) (l : list elem).

Definition sget (ss : list sv) i := nth i ss SNone.

Definition squery (v : sv) : out :=
  match v with
  | SNone => (0, true, [], None, None)
  | SAlloc _ l => (length l, match l with [] => true | _ => false end, map Some l,
                   match l with [] => None | _ => Some (hd 0 l) end,
                   match l with [] => None | _ => Some (last l 0) end)
  end.

Definition is_alloc (v : sv) := match v with SAlloc _ _ => true | SNone => false end.

(** preconditions = what the class documents/asserts *)
Definition pre (ss : list sv) (o : op) : bool :=
  match o with
  | OAlloc i _ => (i <? length ss) && negb (is_alloc (sget ss i))
  | ODealloc i | OClear i | OQuery i => i <? length ss
  | OPushBack i _ | OPushFront i _ =>
      (i <? length ss) && match sget ss i with SAlloc m l => length l + 1 <=? m | SNone => false end
  | OPopFront i | OPopBack i =>
      (i <? length ss) && match sget ss i with SAlloc _ (_ :: _) => true | _ => false end
  | OCopyAssign i j | OMoveAssign i j | OCopyCtor i j | OMoveCtor i j => (i <? length ss) && (j <? length ss)
  end.

Definition sstep (ss : list sv) (o : op) : list sv * option out :=
  match o with
  | OAlloc i m => (upd ss i (SAlloc m []), None)
  | ODealloc i => (upd ss i SNone, None)
  | OPushBack i v => (match sget ss i with SAlloc m l => upd ss i (SAlloc m (l ++ [v])) | SNone => ss end, None)
  | OPushFront i v => (match sget ss i with SAlloc m l => upd ss i (SAlloc m (v :: l)) | SNone => ss end, None)
  | OPopFront i => (match sget ss i with SAlloc m l => upd ss i (SAlloc m (tl l)) | SNone => ss end, None)
  | OPopBack i => (match sget ss i with SAlloc m l => upd ss i (SAlloc m (removelast l)) | SNone => ss end, None)
  | OClear i => (match sget ss i with SAlloc m l => upd ss i (SAlloc m []) | SNone => ss end, None)
  | OCopyAssign i j | OCopyCtor i j => (if i =? j then ss else upd ss i (sget ss j), None)
  | OMoveAssign i j | OMoveCtor i j => (if i =? j then ss else upd (upd ss i (sget ss j)) j SNone, None)
  | OQuery i => (ss, Some (squery (sget ss i)))
  end.

Fixpoint srun (ss : list sv) (ops : list op) : list sv * list (option out) :=
  match ops with
  | [] => (ss, [])
  | o :: t => let '(s1, x) := sstep ss o in let '(s2, xs) := srun s1 t in (s2, x :: xs)
  end.

Fixpoint valid (ss : list sv) (ops : list op) : bool :=
  match ops with
  | [] => true
  | o :: t => pre ss o && valid (fst (sstep ss o)) t
  end.

(** * Representation relation *)
Definition R (r : ring) (v : sv) : Prop :=
  match v with
  | SNone => data r = None /\ rbegin r = rend r /\ cap r = 0
  | SAlloc m l => data r <> None /\ Inv r /\ Abs r l /\ max_size r = m
  end.

Lemma R_empty : R empty_ring SNone.
Proof. repeat split; reflexivity. Qed.

Lemma Forall2_nth {A B} (P : A -> B -> Prop) l1 l2 i a b :
  Forall2 P l1 l2 -> i < length l2 -> P (nth i l1 a) (nth i l2 b).
Proof.
  intros H; revert i; induction H; intros [|i] Hi; simpl in *; try lia; auto. apply IHForall2; lia.
Qed.

Lemma Forall2_upd {A B} (P : A -> B -> Prop) l1 l2 i a b :
  Forall2 P l1 l2 -> P a b -> Forall2 P (upd l1 i a) (upd l2 i b).
Proof.
  intros H; revert i; induction H; intros [|i] Hp; simpl; constructor; auto.
Qed.

Lemma Forall2_upd_left {A B} (P : A -> B -> Prop) l1 l2 i a b :
  Forall2 P l1 l2 -> P a (nth i l2 b) -> i < length l2 -> Forall2 P (upd l1 i a) l2.
Proof.
  intros H; revert i; induction H; intros [|i] Hp Hi; simpl in *; try lia; constructor; auto.
  apply IHForall2; auto; lia.
Qed.

Lemma upd_len {A} (l : list A) i x : length (upd l i x) = length l.
Proof. revert i; induction l; intros [|i]; simpl; auto. Qed.

Lemma clear_none r : data r = None -> rbegin r = rend r -> clear r = {| buf := r; bad := false |}.
Proof.
  intros Hd E. unfold clear. destruct (cap r); simpl; rewrite E, Nat.eqb_refl; reflexivity.
Qed.

Lemma size_none r : rbegin r = rend r -> size r = 0.
Proof.
  intros E. unfold size. destruct (cap r) eqn:C; auto. rewrite E.
  replace (rend r + S n - rend r) with (S n) by lia. apply Nat.mod_same. lia.
Qed.

(** copying an unallocated buffer (no block, capacity 0) yields an unallocated buffer *)
Lemma copy_construct_from_none src : data src = None -> rbegin src = rend src -> cap src = 0 ->
  copy_construct src = {| buf := {| max_size := max_size src; cap := 0; data := None; rbegin := 0; rend := 0 |}; bad := false |}.
Proof.
  intros Hd E C. unfold copy_construct, copy_construct_with, block, contents. rewrite (size_none _ E), C. reflexivity.
Qed.

Lemma copy_assign_none_from_none dst src :
  data dst = None -> rbegin dst = rend dst -> cap dst = 0 ->
  data src = None -> rbegin src = rend src -> cap src = 0 ->
  let x := copy_assign dst src in
  bad x = false /\ data (buf x) = None /\ rbegin (buf x) = rend (buf x) /\ cap (buf x) = 0.
Proof.
  intros Hdd Ed Cd Hd E C. unfold copy_assign, copy_assign_with, block, contents.
  rewrite (size_none _ E). cbn [seq map push_all].
  rewrite (clear_none _ Hdd Ed). cbn [buf bad orb]. rewrite Cd, C. cbn. auto.
Qed.

Lemma copy_assign_from_none dst dd dl src :
  data dst = Some dd -> Inv dst -> Abs dst dl ->
  data src = None -> rbegin src = rend src -> cap src = 0 ->
  let x := copy_assign dst src in
  bad x = false /\ data (buf x) = None /\ rbegin (buf x) = rend (buf x) /\ cap (buf x) = 0.
Proof.
  intros Hdd HId HAd Hd E C. unfold copy_assign, copy_assign_with, block, contents.
  rewrite (size_none _ E). cbn [seq map push_all].
  destruct (clear_ok dst dd dl Hdd HId HAd) as (B & I1 & A1 & D1 & M1 & C1 & Z1).
  rewrite B, C. cbn [orb buf bad]. rewrite (empty_all_raw _ I1 Z1). rewrite andb_false_r.
  assert (cap dst <> 0) as NZ by (unfold Inv in HId; rewrite Hdd in HId; lia).
  rewrite C1. destruct (cap dst =? 0) eqn:Ec; [apply Nat.eqb_eq in Ec; lia|]. cbn. auto.
Qed.

Lemma query_ok r v : R r v -> query r = squery v.
Proof.
  destruct v as [|m l]; simpl.
  - intros (Hd & E & _). unfold query, is_empty, contents. rewrite (size_none _ E). reflexivity.
  - intros (Hd & HI & HA & _). destruct (data r) as [d|] eqn:Ed; [|congruence].
    pose proof (Abs_length _ _ HA) as L. unfold query, is_empty. rewrite HA, <- L.
    destruct l as [|a l']; [reflexivity|].
    assert (0 < size r) as P by (rewrite <- L; simpl; lia).
    rewrite (front_ok r d _ Ed HI HA P), (back_ok r d _ Ed HI HA P). reflexivity.
Qed.

Lemma R_destruct r v : R r v -> destruct_ring r = false.
Proof.
  destruct v as [|m l]; simpl.
  - intros (Hd & E & _). apply (destruct_ok r []); [unfold Inv; now rewrite Hd|congruence].
  - intros (Hd & HI & HA & _). apply (destruct_ok r l); auto.
Qed.

(** * One step *)
Lemma step_refines s ss o :
  Forall2 R (vars s) ss -> pre ss o = true ->
  let '(s', x) := step s o in let '(ss', y) := sstep ss o in
  sbad s' = sbad s /\ Forall2 R (vars s') ss' /\ x = y.
Proof.
  intros HR Hp.
  assert (Hg : forall i, i < length ss -> R (getv s i) (sget ss i)).
  { intros i Hi. unfold getv, sget. apply Forall2_nth; auto. }
  destruct o as [i m|i|i v|i v|i|i|i|i j|i j|i j|i j|i]; simpl in Hp |- *;
    repeat (apply andb_true_iff in Hp as [Hp ?]);
    repeat match goal with H : (_ <? _) = true |- _ => apply Nat.ltb_lt in H end.
  - (* alloc *)
    pose proof (Hg i Hp) as Ri. destruct (sget ss i) as [|m' l'] eqn:Es; [|discriminate].
    destruct Ri as [Hd _]. unfold setv, allocate; simpl. rewrite Hd, orb_false_r.
    split; [reflexivity|split; [|reflexivity]].
    apply Forall2_upd; auto. simpl.
    pose proof (rup2_ge (m + 1)).
    split; [discriminate|split; [apply Inv_fresh; lia|split; [apply Abs_fresh; lia|reflexivity]]].
  - (* dealloc *)
    pose proof (Hg i Hp) as Ri. unfold setv, deallocate.
    destruct (sget ss i) as [|m' l'] eqn:Es; simpl in Ri.
    + destruct Ri as (Hd & E & C0). rewrite Hd. simpl. rewrite orb_false_r.
      split; [reflexivity|split; [|reflexivity]]. apply Forall2_upd; auto. repeat split; auto.
    + destruct Ri as (Hd & HI & HA & _). destruct (data (getv s i)) as [d|] eqn:Ed; [|congruence].
      destruct (clear_ok _ d l' Ed HI HA) as (B & I1 & A1 & D1 & M1 & C1 & Z1).
      cbn [buf bad]. rewrite B, (empty_all_raw _ I1 Z1). simpl. rewrite orb_false_r.
      split; [reflexivity|split; [|reflexivity]]. apply Forall2_upd; auto. simpl. split; auto. split; [|reflexivity].
      unfold Inv in I1. destruct (data (buf (clear (getv s i)))) eqn:E1; [|congruence].
      destruct I1 as (_ & ? & ? & ? & _).
      rewrite size_if in Z1 by lia. destruct (Nat.leb_spec (rbegin (buf (clear (getv s i)))) (rend (buf (clear (getv s i))))); lia.
  - (* push_back *)
    pose proof (Hg i Hp) as Ri. destruct (sget ss i) as [|m l] eqn:Es; [discriminate|].
    destruct Ri as (Hd & HI & HA & HM). destruct (data (getv s i)) as [d|] eqn:Ed; [|congruence].
    apply Nat.leb_le in H. pose proof (Abs_length _ _ HA) as L.
    destruct (push_back_ok _ d l Ed HI HA v ltac:(lia)) as (B & I1 & A1 & D1 & M1 & C1).
    unfold setv; simpl. rewrite B, orb_false_r. split; [reflexivity|split; [|reflexivity]].
    apply Forall2_upd; auto. simpl. repeat split; auto; congruence.
  - (* push_front *)
    pose proof (Hg i Hp) as Ri. destruct (sget ss i) as [|m l] eqn:Es; [discriminate|].
    destruct Ri as (Hd & HI & HA & HM). destruct (data (getv s i)) as [d|] eqn:Ed; [|congruence].
    apply Nat.leb_le in H. pose proof (Abs_length _ _ HA) as L.
    destruct (push_front_ok _ d l Ed HI HA v ltac:(lia)) as (B & I1 & A1 & D1 & M1 & C1).
    unfold setv; simpl. rewrite B, orb_false_r. split; [reflexivity|split; [|reflexivity]].
    apply Forall2_upd; auto. simpl. repeat split; auto; congruence.
  - (* pop_front *)
    pose proof (Hg i Hp) as Ri. destruct (sget ss i) as [|m l] eqn:Es; [discriminate|].
    destruct l as [|a l]; [discriminate|].
    destruct Ri as (Hd & HI & HA & HM). destruct (data (getv s i)) as [d|] eqn:Ed; [|congruence].
    pose proof (Abs_length _ _ HA) as L. simpl in L.
    destruct (pop_front_ok _ d _ Ed HI HA ltac:(lia)) as (B & I1 & A1 & D1 & M1 & C1 & _).
    unfold setv; simpl. rewrite B, orb_false_r. split; [reflexivity|split; [|reflexivity]].
    apply Forall2_upd; auto. simpl. repeat split; auto; congruence.
  - (* pop_back *)
    pose proof (Hg i Hp) as Ri. destruct (sget ss i) as [|m l] eqn:Es; [discriminate|].
    destruct l as [|a l]; [discriminate|].
    destruct Ri as (Hd & HI & HA & HM). destruct (data (getv s i)) as [d|] eqn:Ed; [|congruence].
    pose proof (Abs_length _ _ HA) as L. simpl in L.
    destruct (pop_back_ok _ d _ Ed HI HA ltac:(lia)) as (B & I1 & A1 & D1 & M1 & C1).
    unfold setv; simpl. rewrite B, orb_false_r. split; [reflexivity|split; [|reflexivity]].
    apply Forall2_upd; auto. cbn [R]. repeat split; auto; congruence.
  - (* clear *)
    pose proof (Hg i Hp) as Ri. unfold setv.
    destruct (sget ss i) as [|m l] eqn:Es; simpl in Ri.
    + destruct Ri as (Hd & E & C0). rewrite (clear_none _ Hd E). simpl. rewrite orb_false_r.
      split; [reflexivity|split; [|reflexivity]].
      apply Forall2_upd_left with SNone; auto. fold (sget ss i). rewrite Es. repeat split; auto.
    + destruct Ri as (Hd & HI & HA & HM). destruct (data (getv s i)) as [d|] eqn:Ed; [|congruence].
      destruct (clear_ok _ d l Ed HI HA) as (B & I1 & A1 & D1 & M1 & C1 & Z1).
      simpl. rewrite B, orb_false_r. split; [reflexivity|split; [|reflexivity]].
      apply Forall2_upd; auto. simpl. repeat split; auto; congruence.
  - (* copy assign *)
    destruct (Nat.eqb_spec i j) as [->|NE]; [repeat split; auto|].
    pose proof (Hg i Hp) as Ri. pose proof (Hg j H) as Rj.
    destruct (sget ss j) as [|mj lj] eqn:Ej.
    { (* from an unallocated buffer: the destination becomes unallocated *)
      destruct Rj as (Hdj & Ej' & Cj).
      destruct (sget ss i) as [|mi li] eqn:Ei.
      - destruct Ri as (Hdi & Ei' & Ci).
        destruct (copy_assign_none_from_none _ _ Hdi Ei' Ci Hdj Ej' Cj) as (B & D1 & E1 & C1).
        unfold setv; simpl. rewrite B, orb_false_r. split; [reflexivity|split; [|reflexivity]].
        apply Forall2_upd; auto. simpl. auto.
      - destruct Ri as (Hdi & HIi & HAi & HMi).
        destruct (data (getv s i)) as [di|] eqn:Edi; [|congruence].
        destruct (copy_assign_from_none _ di li _ Edi HIi HAi Hdj Ej' Cj) as (B & D1 & E1 & C1).
        unfold setv; simpl. rewrite B, orb_false_r. split; [reflexivity|split; [|reflexivity]].
        apply Forall2_upd; auto. simpl. auto. }
    destruct Rj as (Hdj & HIj & HAj & HMj).
    destruct (data (getv s j)) as [dj|] eqn:Edj; [|congruence].
    destruct (sget ss i) as [|mi li] eqn:Ei.
    + (* onto an unallocated buffer *)
      destruct Ri as (Hdi & Ei' & Ci).
      destruct (copy_assign_none_ok _ _ dj lj Hdi Ei' Ci Edj HIj HAj) as (B & I1 & A1 & D1 & M1 & C1).
      unfold setv; simpl. rewrite B, orb_false_r. split; [reflexivity|split; [|reflexivity]].
      apply Forall2_upd; auto. simpl. repeat split; auto; congruence.
    + destruct Ri as (Hdi & HIi & HAi & HMi).
      destruct (data (getv s i)) as [di|] eqn:Edi; [|congruence].
      destruct (copy_assign_ok _ di li _ dj lj Edi HIi HAi Edj HIj HAj) as (B & I1 & A1 & D1 & M1 & C1).
      unfold setv; simpl. rewrite B, orb_false_r. split; [reflexivity|split; [|reflexivity]].
      apply Forall2_upd; auto. simpl. repeat split; auto; congruence.
  - (* move assign *)
    destruct (Nat.eqb_spec i j) as [->|NE]; [repeat split; auto|].
    pose proof (Hg i Hp) as Ri. pose proof (Hg j H) as Rj.
    assert (bad (fst (move_assign (getv s i) (getv s j))) = false) as B.
    { unfold move_assign; simpl. pose proof (R_destruct _ _ Ri) as Dz. unfold destruct_ring in Dz. exact Dz. }
    unfold move_assign in *. simpl in *. unfold setv; simpl.
    rewrite B. simpl. rewrite !orb_false_r. split; [reflexivity|split; [|reflexivity]].
    apply Forall2_upd; [apply Forall2_upd; auto|]; simpl; try exact Rj; try (repeat split; reflexivity).
  - (* copy ctor *)
    destruct (Nat.eqb_spec i j) as [->|NE]; [repeat split; auto|].
    pose proof (Hg i Hp) as Ri. pose proof (Hg j H) as Rj.
    destruct (sget ss j) as [|mj lj] eqn:Ej.
    { destruct Rj as (Hdj & Ej' & Cj). unfold setv. rewrite (copy_construct_from_none _ Hdj Ej' Cj). simpl.
      rewrite (R_destruct _ _ Ri). simpl. rewrite ?orb_false_r.
      split; [reflexivity|split; [|reflexivity]]. apply Forall2_upd; auto. simpl. auto. }
    destruct Rj as (Hdj & HIj & HAj & HMj).
    destruct (data (getv s j)) as [dj|] eqn:Edj; [|congruence].
    destruct (copy_construct_ok _ dj lj Edj HIj HAj) as (B & I1 & A1 & D1 & M1 & C1).
    unfold setv; simpl. rewrite B, (R_destruct _ _ Ri). simpl. rewrite orb_false_r.
    split; [reflexivity|split; [|reflexivity]].
    apply Forall2_upd; auto. simpl. repeat split; auto; congruence.
  - (* move ctor *)
    destruct (Nat.eqb_spec i j) as [->|NE]; [repeat split; auto|].
    pose proof (Hg i Hp) as Ri. pose proof (Hg j H) as Rj.
    unfold setv, move_construct; simpl. rewrite (R_destruct _ _ Ri). simpl. rewrite !orb_false_r.
    split; [reflexivity|split; [|reflexivity]].
    apply Forall2_upd; [apply Forall2_upd; auto|]; simpl; try exact Rj; try (repeat split; reflexivity).
  - (* query *)
    split; [reflexivity|split; [assumption|]]. f_equal. apply query_ok. apply Hg. assumption.
Qed.

(** * Whole histories *)
Theorem run_refines : forall ops s ss,
  Forall2 R (vars s) ss -> sbad s = false -> valid ss ops = true ->
  let '(s', outs) := run s ops in let '(ss', souts) := srun ss ops in
  sbad s' = false /\ Forall2 R (vars s') ss' /\ outs = souts.
Proof.
  induction ops as [|o ops IH]; intros s ss HR HB HV; simpl in *.
  - auto.
  - apply andb_true_iff in HV as [Hp HV].
    pose proof (step_refines s ss o HR Hp) as St.
    destruct (step s o) as [s1 x]. destruct (sstep ss o) as [ss1 y]. simpl in HV.
    destruct St as (B1 & R1 & ->).
    specialize (IH s1 ss1 R1 ltac:(congruence) HV).
    destruct (run s1 ops) as [s2 xs]. destruct (srun ss1 ops) as [ss2 ys].
    destruct IH as (B2 & R2 & ->). auto.
Qed.

Lemma init_R : Forall2 R (vars init_state) [SNone; SNone; SNone].
Proof. repeat constructor. Qed.

(** The statement of C16 for RingBuffer: for every history that respects the documented preconditions,
    the observable answers are those of the bounded deque, no element is constructed over a live one or
    destroyed twice, and destroying the containers at the end leaves no element alive. *)
Theorem ring_refines_deque : forall ops,
  valid [SNone; SNone; SNone] ops = true ->
  snd (run init_state ops) = snd (srun [SNone; SNone; SNone] ops) /\
  final_bad (fst (run init_state ops)) = false.
Proof.
  intros ops HV. pose proof (run_refines ops init_state _ init_R eq_refl HV) as H.
  destruct (run init_state ops) as [s' outs]. destruct (srun _ ops) as [ss' souts].
  destruct H as (B & HR & E). simpl. split; [exact E|].
  unfold final_bad. rewrite B. simpl.
  clear -HR. induction HR; simpl; auto. rewrite (R_destruct _ _ H). simpl. exact IHHR.
Qed.

(** * The two defects of the shipped code (704fd0b), as refutations of the same statement *)
Definition step_shipped_pop_back (r : ring) : res := pop_back_shipped r.

(** push 1, push 2, pop_back, then destroy: the shipped pop_back destroys slot begin_ (the 1), leaves
    the 2 alive outside [begin,end): the final ledger is bad. *)
Lemma pop_back_shipped_refuted :
  exists r, let r1 := buf (push_back (buf (push_back (make 3) 1)) 2) in
            r = buf (pop_back_shipped r1) /\ destruct_ring r = true /\
            destruct_ring (buf (pop_back r1)) = false.
Proof. eexists. split; [reflexivity|]. split; vm_compute; reflexivity. Qed.

(** allocate(7); 5 x push/pop; deallocate; allocate(1) as shipped keeps begin_=end_=5 >= capacity 2 *)
Lemma allocate_shipped_refuted :
  let r0 := buf (allocate empty_ring 7) in
  let cyc r := buf (pop_front (buf (push_back r 9))) in
  let r5 := cyc (cyc (cyc (cyc (cyc r0)))) in
  let rd := buf (deallocate r5) in
  rbegin (buf (allocate_shipped rd 1)) = 5 /\ cap (buf (allocate_shipped rd 1)) = 2 /\
  bad (push_back (buf (allocate_shipped rd 1)) 1) = true /\
  bad (push_back (buf (allocate rd 1)) 1) = false.
Proof. vm_compute. repeat split. Qed.

(** a(3) push 1; deallocate as shipped keeps capacity_ = 4; a = c with c(3) holding one element: the capacities are
    equal, so no block is allocated and the element is constructed at data_ = nullptr.  With capacity_ reset the
    same history is fine. *)
Lemma deallocate_shipped_refuted :
  let a0 := buf (push_back (make 3) 1) in
  let c := buf (push_back (make 3) 2) in
  data (buf (deallocate_shipped a0)) = None /\ cap (buf (deallocate_shipped a0)) = cap c /\
  bad (copy_assign (buf (deallocate_shipped a0)) c) = true /\
  bad (copy_assign (buf (deallocate a0)) c) = false /\
  contents (buf (copy_assign (buf (deallocate a0)) c)) = [Some 2].
Proof. vm_compute. repeat split. Qed.

(** As shipped, a copy of an unallocated buffer obtained a zero-size block ([allocate(0)] returns a non-null pointer), so
    the copy was no longer unallocated: a later [allocate()] trips its [assert(!data_)] (and leaks the block when
    assertions are off).  With [capacity_ ? allocate(capacity_) : nullptr] the copy stays unallocated. *)
Lemma copy_unallocated_shipped_refuted :
  data (buf (copy_construct_shipped empty_ring)) = Some [] /\
  bad (allocate (buf (copy_construct_shipped empty_ring)) 3) = true /\
  bad (allocate (buf (copy_construct empty_ring)) 3) = false /\
  bad (allocate (buf (copy_assign_shipped (make 3) empty_ring)) 2) = true /\
  bad (allocate (buf (copy_assign (make 3) empty_ring)) 2) = false.
Proof. vm_compute. repeat split. Qed.

(** non-vacuity: a wrapping history satisfies [valid] *)
Example valid_example :
  valid [SNone; SNone; SNone]
    [OAlloc 0 3; OPushBack 0 1; OPushBack 0 2; OPushFront 0 0; OPopBack 0; OPushBack 0 5; OPopFront 0;
     OPushBack 0 6; OQuery 0; OAlloc 1 1; OCopyAssign 1 0; OMoveCtor 2 1; OQuery 2; ODealloc 0; OAlloc 0 1;
     OPushFront 0 4; OQuery 0; ODealloc 1; OCopyAssign 1 2; OQuery 1; OCopyAssign 2 0; OQuery 2;
     ODealloc 1; OCopyCtor 2 1; OAlloc 2 2; OPushBack 2 8; OCopyAssign 0 1; OAlloc 0 1; OMoveAssign 1 0; OQuery 1] = true.
Proof. reflexivity. Qed.
