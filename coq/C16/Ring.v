(** C16 — executable model of tlx::RingBuffer (tlx/container/ring_buffer.hpp).

    A buffer object = the private members of the class.  [data = None] is [data_ == nullptr]; a slot
    [Some v] is a constructed element holding v, [None] is raw storage.  Constructing into a live slot or
    destroying a raw one sets the [bad] flag of the result (the lifetime ledger) -- the theorems show it is
    never set.  Index arithmetic: the C++ computes [x & mask_] on size_t with mask_ = capacity_-1,
    capacity_ a power of two; the model writes [x mod capacity] (and [x + cap - 1] for the wrapped
    decrement).  The identities between the two forms (with explicit 64-bit wrap-around, for every power-of-two
    capacity up to 2^63) are proved in C16/Mask.v; the correspondence run exercises them as well. *)
From Coq Require Import List Arith Lia Bool.
Import ListNotations.

Definition elem := nat.

Record ring := {
  max_size : nat;
  cap : nat;                       (* capacity_ ; mask_ = cap - 1 *)
  data : option (list (option elem));
  rbegin : nat;
  rend : nat
}.

(** round_up_to_power_of_two(n) for n >= 1: smallest power of two >= n (fuel = n suffices). *)
Fixpoint rup2_from (fuel p n : nat) : nat :=
  match fuel with
  | 0 => p
  | S f => if n <=? p then p else rup2_from f (2 * p) n
  end.
Definition rup2 (n : nat) : nat := rup2_from n 1 n.

Definition empty_ring : ring := {| max_size := 0; cap := 0; data := None; rbegin := 0; rend := 0 |}.

Definition size (r : ring) : nat :=
  match cap r with 0 => 0 | c => (rend r + c - rbegin r) mod c end.

Definition slot_at (r : ring) (i : nat) : option elem :=
  match data r with Some d => nth i d None | None => None end.

Definition idx (r : ring) (i : nat) : nat := (rbegin r + i) mod cap r.

Fixpoint upd {A} (l : list A) (i : nat) (x : A) : list A :=
  match l with
  | [] => []
  | y :: t => match i with 0 => x :: t | S i' => y :: upd t i' x end
  end.

(** results carry the ledger flag *)
Record res := { buf : ring; bad : bool }.
Definition ok (r : ring) : res := {| buf := r; bad := false |}.

Definition construct (r : ring) (i : nat) (v : elem) : ring * bool :=
  match data r with
  | Some d => ({| max_size := max_size r; cap := cap r; data := Some (upd d i (Some v));
                 rbegin := rbegin r; rend := rend r |},
               match nth i d None with Some _ => true | None => false end || negb (i <? length d))
  | None => (r, true)
  end.

Definition destroy (r : ring) (i : nat) : ring * bool :=
  match data r with
  | Some d => ({| max_size := max_size r; cap := cap r; data := Some (upd d i None);
                 rbegin := rbegin r; rend := rend r |},
               match nth i d None with Some _ => false | None => true end)
  | None => (r, true)
  end.

Definition set_begin (r : ring) (b : nat) : ring :=
  {| max_size := max_size r; cap := cap r; data := data r; rbegin := b; rend := rend r |}.
Definition set_end (r : ring) (e : nat) : ring :=
  {| max_size := max_size r; cap := cap r; data := data r; rbegin := rbegin r; rend := e |}.

(** push_back / emplace_back: construct at data_[end_]; ++end_ &= mask_ *)
Definition push_back (r : ring) (v : elem) : res :=
  let '(r1, b) := construct r (rend r) v in
  {| buf := set_end r1 ((rend r + 1) mod cap r); bad := b |}.

(** push_front / emplace_front: --begin_ &= mask_; construct at data_[begin_] *)
Definition push_front (r : ring) (v : elem) : res :=
  let nb := (rbegin r + cap r - 1) mod cap r in
  let '(r1, b) := construct (set_begin r nb) nb v in
  {| buf := r1; bad := b |}.

(** pop_front: destroy data_[begin_]; ++begin_ &= mask_ *)
Definition pop_front (r : ring) : res :=
  let '(r1, b) := destroy r (rbegin r) in
  {| buf := set_begin r1 ((rbegin r + 1) mod cap r); bad := b |}.

(** pop_back as repaired: destroy data_[(end_ - 1) & mask_]; --end_ &= mask_ *)
Definition pop_back (r : ring) : res :=
  let ne := (rend r + cap r - 1) mod cap r in
  let '(r1, b) := destroy r ne in
  {| buf := set_end r1 ne; bad := b |}.

(** pop_back as shipped in 704fd0b: destroys data_[begin_] (kept only for the refutation lemma) *)
Definition pop_back_shipped (r : ring) : res :=
  let ne := (rend r + cap r - 1) mod cap r in
  let '(r1, b) := destroy r (rbegin r) in
  {| buf := set_end r1 ne; bad := b |}.

(** clear: while (begin_ != end_) pop_front();  fuel = capacity *)
Fixpoint clear_loop (fuel : nat) (r : ring) (b : bool) : res :=
  match fuel with
  | 0 => {| buf := r; bad := b || negb (rbegin r =? rend r) |}
  | S f => if rbegin r =? rend r then {| buf := r; bad := b |}
           else let x := pop_front r in clear_loop f (buf x) (b || bad x)
  end.
Definition clear (r : ring) : res := clear_loop (cap r) r false.

Definition get (r : ring) (i : nat) : option elem := slot_at r (idx r i).
Definition front (r : ring) : option elem := slot_at r (rbegin r).
Definition back (r : ring) : option elem := slot_at r ((rend r + cap r - 1) mod cap r).
Definition is_empty (r : ring) : bool := size r =? 0.

(** contents, front to back *)
Definition contents (r : ring) : list (option elem) := map (get r) (seq 0 (size r)).

(** RingBuffer(max_size): capacity_ = round_up_to_power_of_two(max_size + 1), raw storage *)
Definition make (m : nat) : ring :=
  let c := rup2 (m + 1) in
  {| max_size := m; cap := c; data := Some (repeat None c); rbegin := 0; rend := 0 |}.

(** allocate(max_size): requires data_ == nullptr; resets begin_/end_ (since fix 708f00d) *)
Definition allocate (r : ring) (m : nat) : res :=
  let c := rup2 (m + 1) in
  {| buf := {| max_size := m; cap := c; data := Some (repeat None c); rbegin := 0; rend := 0 |};
     bad := match data r with Some _ => true | None => false end |}.

(** allocate as shipped in 704fd0b: keeps the stale cursors (kept only for the refutation lemma) *)
Definition allocate_shipped (r : ring) (m : nat) : res :=
  let c := rup2 (m + 1) in
  {| buf := {| max_size := m; cap := c; data := Some (repeat None c); rbegin := rbegin r; rend := rend r |};
     bad := match data r with Some _ => true | None => false end |}.

(** a block may be released only when every slot is raw (otherwise elements leak) *)
Definition all_raw (r : ring) : bool :=
  match data r with Some d => forallb (fun s => match s with None => true | Some _ => false end) d | None => true end.

(** deallocate(): if (data_) { clear(); deallocate; data_ = nullptr; capacity_ = 0; }  (capacity_ is reset since the
    fix of the stale-capacity defect: as shipped it stayed, see [deallocate_shipped]) *)
Definition deallocate (r : ring) : res :=
  match data r with
  | None => ok r
  | Some _ => let x := clear r in
              {| buf := {| max_size := max_size (buf x); cap := 0; data := None;
                           rbegin := rbegin (buf x); rend := rend (buf x) |};
                 bad := bad x || negb (all_raw (buf x)) |}
  end.

(** deallocate() as shipped: capacity_ keeps its old value (kept only for the refutation lemma) *)
Definition deallocate_shipped (r : ring) : res :=
  match data r with
  | None => ok r
  | Some _ => let x := clear r in
              {| buf := {| max_size := max_size (buf x); cap := cap (buf x); data := None;
                           rbegin := rbegin (buf x); rend := rend (buf x) |};
                 bad := bad x || negb (all_raw (buf x)) |}
  end.

(** ~RingBuffer(): clear(); deallocate(data_, capacity_) *)
Definition destruct_ring (r : ring) : bool :=
  let x := clear r in bad x || negb (all_raw (buf x)).

(** pushing the elements of [src] (front to back) — the loop of the copy operations *)
Fixpoint push_all (dst : ring) (vs : list (option elem)) (b : bool) : res :=
  match vs with
  | [] => {| buf := dst; bad := b |}
  | Some v :: t => let x := push_back dst v in push_all (buf x) t (b || bad x)
  | None :: t => push_all dst t true   (* reading a raw slot *)
  end.

(** the block a copy obtains: [capacity_ ? alloc_.allocate(capacity_) : nullptr] -- a copy of an unallocated buffer
    (capacity 0) stays unallocated (since the fix; as shipped a zero-size block was allocated, see [block_shipped]) *)
Definition block (c : nat) : option (list (option elem)) := if c =? 0 then None else Some (repeat None c).
Definition block_shipped (c : nat) : option (list (option elem)) := Some (repeat None c).

(** RingBuffer(const RingBuffer& rb) *)
Definition copy_construct_with (blk : nat -> option (list (option elem))) (src : ring) : res :=
  push_all {| max_size := max_size src; cap := cap src; data := blk (cap src);
              rbegin := 0; rend := 0 |} (contents src) false.
Definition copy_construct := copy_construct_with block.
Definition copy_construct_shipped := copy_construct_with block_shipped.

(** operator=(const RingBuffer& rb), this != &rb *)
Definition copy_assign_with (blk : nat -> option (list (option elem))) (dst src : ring) : res :=
  let x := clear dst in
  let d1 := buf x in
  let realloc := negb (cap d1 =? cap src) in
  let leak := realloc && negb (all_raw d1) in
  let d2 := {| max_size := max_size src; cap := cap src;
               data := if realloc then blk (cap src) else data d1;
               rbegin := 0; rend := 0 |} in
  push_all d2 (contents src) (bad x || leak).
Definition copy_assign := copy_assign_with block.
Definition copy_assign_shipped := copy_assign_with block_shipped.

(** RingBuffer(RingBuffer&& rb): returns (new object, moved-from source) *)
Definition moved_from (src : ring) : ring :=
  {| max_size := max_size src; cap := 0; data := None; rbegin := 0; rend := 0 |}.
Definition move_construct (src : ring) : ring * ring := (src, moved_from src).

(** operator=(RingBuffer&& rb), this != &rb: clear(); deallocate; steal *)
Definition move_assign (dst src : ring) : res * ring :=
  let x := clear dst in
  ({| buf := src; bad := bad x || negb (all_raw (buf x)) |}, moved_from src).

(** * Operation language of the correspondence run: three buffer variables *)
Inductive op :=
| OAlloc (i m : nat) | ODealloc (i : nat)
| OPushBack (i : nat) (v : elem) | OPushFront (i : nat) (v : elem)
| OPopFront (i : nat) | OPopBack (i : nat) | OClear (i : nat)
| OCopyAssign (i j : nat) | OMoveAssign (i j : nat)
| OCopyCtor (i j : nat)   (* destroy variable i, re-create it as a copy of j *)
| OMoveCtor (i j : nat)   (* destroy variable i, re-create it by moving from j *)
| OQuery (i : nat).

Record state := { vars : list ring; sbad : bool }.

Definition getv (s : state) (i : nat) : ring := nth i (vars s) empty_ring.
Definition setv (s : state) (i : nat) (x : res) : state :=
  {| vars := upd (vars s) i (buf x); sbad := sbad s || bad x |}.

(** observable output of a query: size, emptiness, contents front-to-back, front, back *)
Definition out := (nat * bool * list (option elem) * option elem * option elem)%type.

Definition query (r : ring) : out :=
  (size r, is_empty r, contents r,
   if is_empty r then None else front r, if is_empty r then None else back r).

Definition step (s : state) (o : op) : state * option out :=
  match o with
  | OAlloc i m => (setv s i (allocate (getv s i) m), None)
  | ODealloc i => (setv s i (deallocate (getv s i)), None)
  | OPushBack i v => (setv s i (push_back (getv s i) v), None)
  | OPushFront i v => (setv s i (push_front (getv s i) v), None)
  | OPopFront i => (setv s i (pop_front (getv s i)), None)
  | OPopBack i => (setv s i (pop_back (getv s i)), None)
  | OClear i => (setv s i (clear (getv s i)), None)
  | OCopyAssign i j => if i =? j then (s, None) else (setv s i (copy_assign (getv s i) (getv s j)), None)
  | OMoveAssign i j =>
      if i =? j then (s, None) else
      let '(x, src') := move_assign (getv s i) (getv s j) in
      (setv (setv s i x) j (ok src'), None)
  | OCopyCtor i j =>
      if i =? j then (s, None) else
      let b := destruct_ring (getv s i) in
      let x := copy_construct (getv s j) in
      (setv s i {| buf := buf x; bad := b || bad x |}, None)
  | OMoveCtor i j =>
      if i =? j then (s, None) else
      let b := destruct_ring (getv s i) in
      let '(n, src') := move_construct (getv s j) in
      (setv (setv s i {| buf := n; bad := b |}) j (ok src'), None)
  | OQuery i => (s, Some (query (getv s i)))
  end.

Definition init_state : state := {| vars := [empty_ring; empty_ring; empty_ring]; sbad := false |}.

Fixpoint run (s : state) (ops : list op) : state * list (option out) :=
  match ops with
  | [] => (s, [])
  | o :: t => let '(s1, x) := step s o in let '(s2, xs) := run s1 t in (s2, x :: xs)
  end.

(** end of life: all three variables are destroyed *)
Definition final_bad (s : state) : bool :=
  sbad s || existsb destruct_ring (vars s).

(** number of constructed slots over all variables (the lifetime ledger's live count) *)
Definition live_slots (s : state) : nat :=
  fold_left (fun a r => a + match data r with
                             | Some d => length (filter (fun x => match x with Some _ => true | None => false end) d)
                             | None => 0 end) (vars s) 0.
