(** C16 — SimpleVector (Normal mode): every history refines plain lists; every block obtained with new[] is
    released with delete[] exactly once (no double free, no leak), hence every element is constructed and destroyed
    exactly once (new T[n] / delete[] construct and destroy whole blocks). *)
From Coq Require Import List Arith Lia Bool.
From TLXV Require Import C16.Ring C16.RingProofs C16.SVec.
Import ListNotations.

Definition live (h : heap) (b : nat) : Prop := exists l, nth b (blocks h) None = Some l.

(** ownership invariant: no error so far; every variable's block is live and has the right length; two
    variables never share a block; every live block is owned by some variable *)
Record VInv (s : vstate) : Prop := {
  vi_ok : hbad (vheap s) = false;
  vi_own : forall i, i < length (vvars s) ->
           match sarr (vget s i) with
           | None => ssize (vget s i) = 0
           | Some b => exists l, nth b (blocks (vheap s)) None = Some l /\ length l = ssize (vget s i)
           end;
  vi_inj : forall i j b, i < length (vvars s) -> j < length (vvars s) ->
           sarr (vget s i) = Some b -> sarr (vget s j) = Some b -> i = j;
  vi_noleak : forall b, live (vheap s) b -> exists i, i < length (vvars s) /\ sarr (vget s i) = Some b
}.

(** abstraction *)
Definition VAbs (s : vstate) (ls : list (list elem)) : Prop :=
  length ls = length (vvars s) /\ forall i, i < length ls -> sv_contents (vheap s) (vget s i) = nth i ls [].

(** * heap lemmas *)
Lemma live_lt h b : live h b -> b < length (blocks h).
Proof.
  intros [l E]. destruct (Nat.lt_ge_cases b (length (blocks h))); auto.
  rewrite nth_overflow in E by lia. discriminate.
Qed.

Lemma nth_app_new {A} (l : list A) x d : nth (length l) (l ++ [x]) d = x.
Proof. rewrite app_nth2, Nat.sub_diag by lia. reflexivity. Qed.

Lemma nth_app_old {A} (l : list A) x d b : b < length l -> nth b (l ++ [x]) d = nth b l d.
Proof. intros. now rewrite app_nth1. Qed.

Lemma nth_upd_same {A} (l : list A) i x d : i < length l -> nth i (upd l i x) d = x.
Proof. apply nth_upd_eq. Qed.

Lemma nth_upd_other {A} (l : list A) i j x d : i <> j -> nth j (upd l i x) d = nth j l d.
Proof. apply nth_upd_neq. Qed.

Lemma vget_upd_same (vs : list svec) h i v : i < length vs ->
  vget {| vvars := upd vs i v; vheap := h |} i = v.
Proof. intros. unfold vget. simpl. now apply nth_upd_eq. Qed.

Lemma vget_upd_other (vs : list svec) h i j v : i <> j ->
  vget {| vvars := upd vs i v; vheap := h |} j = nth j vs null_vec.
Proof. intros. unfold vget. simpl. now apply nth_upd_neq. Qed.

(** * the specification *)
Definition spre (ls : list (list elem)) (o : vop) : bool :=
  match o with
  | VMake i _ | VResize i _ | VDestroy i | VQuery i => i <? length ls
  | VSet i k _ => (i <? length ls) && (k <? length (nth i ls []))
  | VMoveAssign i j | VMoveCtor i j | VSwap i j => (i <? length ls) && (j <? length ls)
  end.

Definition sstep (ls : list (list elem)) (o : vop) : list (list elem) * option (list elem) :=
  match o with
  | VMake i n => (upd ls i (repeat 0 n), None)
  | VResize i n => let l := nth i ls [] in
                   let k := Nat.min (length l) n in
                   (upd ls i (firstn k l ++ repeat 0 (n - k)), None)
  | VSet i k x => (upd ls i (upd (nth i ls []) k x), None)
  | VDestroy i => (upd ls i [], None)
  | VMoveAssign i j | VMoveCtor i j => (if i =? j then ls else upd (upd ls i (nth j ls [])) j [], None)
  | VSwap i j => (upd (upd ls i (nth j ls [])) j (nth i ls []), None)
  | VQuery i => (ls, Some (nth i ls []))
  end.

Fixpoint srun (ls : list (list elem)) (ops : list vop) : list (list elem) * list (option (list elem)) :=
  match ops with
  | [] => (ls, [])
  | o :: t => let '(l1, x) := sstep ls o in let '(l2, xs) := srun l1 t in (l2, x :: xs)
  end.

Fixpoint svalid (ls : list (list elem)) (ops : list vop) : bool :=
  match ops with
  | [] => true
  | o :: t => spre ls o && svalid (fst (sstep ls o)) t
  end.

(** * contents of a variable whose block is live *)
Lemma contents_live h v b l : sarr v = Some b -> nth b (blocks h) None = Some l -> length l = ssize v ->
  sv_contents h v = l.
Proof.
  intros Ea El Hl. unfold sv_contents, read_block. rewrite Ea, El, <- Hl. apply firstn_all.
Qed.

Lemma contents_null h v : sarr v = None -> ssize v = 0 -> sv_contents h v = [].
Proof. intros Ea Es. unfold sv_contents. now rewrite Es. Qed.

(** * a generic "frame" lemma: replacing variable i by a vector owning a fresh or its own block *)
(** Destroying the block of variable i (if any) and giving it [v'] which owns block [nb] holding [l']
    (or nothing), where [nb] is not owned by any other variable. *)
Lemma VInv_replace s ls i h' v' l' :
  VInv s -> VAbs s ls -> i < length (vvars s) ->
  hbad h' = false ->
  (* blocks of the other variables are untouched *)
  (forall j b, j < length (vvars s) -> j <> i -> sarr (vget s j) = Some b -> nth b (blocks h') None = nth b (blocks (vheap s)) None) ->
  (* the new vector of i is well-formed in h' and does not alias the others *)
  match sarr v' with
  | None => ssize v' = 0 /\ l' = []
  | Some b => nth b (blocks h') None = Some l' /\ length l' = ssize v' /\
              forall j, j < length (vvars s) -> j <> i -> sarr (vget s j) <> Some b
  end ->
  (* nothing else is live in h' *)
  (forall b, live h' b -> sarr v' = Some b \/ exists j, j < length (vvars s) /\ j <> i /\ sarr (vget s j) = Some b) ->
  let s' := {| vvars := upd (vvars s) i v'; vheap := h' |} in
  VInv s' /\ VAbs s' (upd ls i l').
Proof.
  intros HI [HL HA] Hi Hb Hframe Hv Hlive s'.
  assert (Hlen : length (vvars s') = length (vvars s)) by (unfold s'; simpl; apply upd_length).
  assert (Gi : vget s' i = v') by (unfold s'; now apply vget_upd_same).
  assert (Gj : forall j, j <> i -> vget s' j = vget s j).
  { intros j Hj. unfold s'. rewrite vget_upd_other by auto. reflexivity. }
  split.
  - constructor.
    + exact Hb.
    + intros j Hj. rewrite Hlen in Hj. destruct (Nat.eq_dec j i) as [->|Hne].
      * rewrite Gi. destruct (sarr v') as [b|]; [|tauto]. destruct Hv as (E & L & _). eauto.
      * rewrite Gj by auto. pose proof (vi_own s HI j Hj) as O.
        destruct (sarr (vget s j)) as [b|] eqn:Eb; auto.
        destruct O as (l & El & Ll). exists l. split; auto. simpl. rewrite (Hframe j b Hj Hne Eb). exact El.
    + intros j k b Hj Hk Ej Ek. rewrite Hlen in *.
      destruct (Nat.eq_dec j i) as [->|Hji]; destruct (Nat.eq_dec k i) as [->|Hki]; auto.
      * rewrite Gi in Ej. rewrite Gj in Ek by auto. rewrite Ej in Hv. destruct Hv as (_ & _ & N). exfalso. apply (N k Hk Hki Ek).
      * rewrite Gi in Ek. rewrite Gj in Ej by auto. rewrite Ek in Hv. destruct Hv as (_ & _ & N). exfalso. apply (N j Hj Hji Ej).
      * rewrite Gj in Ej, Ek by auto. apply (vi_inj s HI j k b); auto.
    + intros b Lb. simpl in Lb. destruct (Hlive b Lb) as [E|(j & Hj & Hne & E)].
      * exists i. rewrite Hlen, Gi. auto.
      * exists j. rewrite Hlen, Gj by auto. auto.
  - split; [unfold s'; simpl; now rewrite !upd_length|].
    intros j Hj. rewrite upd_length in Hj. rewrite HL in Hj.
    destruct (Nat.eq_dec j i) as [->|Hne].
    + rewrite Gi, nth_upd_eq by lia. destruct (sarr v') as [b|] eqn:Eb.
      * destruct Hv as (E & L & _). simpl. apply (contents_live h' v' b l'); auto.
      * destruct Hv as (Z & ->). now apply contents_null.
    + rewrite Gj, nth_upd_neq by auto. rewrite <- (HA j) by lia.
      pose proof (vi_own s HI j Hj) as O. unfold sv_contents, read_block. simpl.
      destruct (sarr (vget s j)) as [b|] eqn:Eb; auto.
      now rewrite (Hframe j b Hj Hne Eb).
Qed.

(** * single operations *)
Section Ops.
  Variable s : vstate.
  Variable ls : list (list elem).
  Hypothesis HI : VInv s.
  Hypothesis HA : VAbs s ls.


  (** destroying the block of variable i: what the heap looks like afterwards *)
  Lemma destroy_own i : i < length (vvars s) ->
    let h1 := destroy_array (vheap s) (sarr (vget s i)) in
    hbad h1 = false /\ length (blocks h1) = length (blocks (vheap s)) /\
    (forall b, sarr (vget s i) <> Some b -> nth b (blocks h1) None = nth b (blocks (vheap s)) None) /\
    (forall b, sarr (vget s i) = Some b -> nth b (blocks h1) None = None) /\
    (forall b l, nth b (blocks h1) None = Some l -> nth b (blocks (vheap s)) None = Some l /\ sarr (vget s i) <> Some b).
  Proof.
    intros Hi h1. pose proof (vi_own s HI i Hi) as O. pose proof (vi_ok s HI) as Ok. unfold h1, destroy_array.
    destruct (sarr (vget s i)) as [b|] eqn:Eb.
    - destruct O as (l & El & _). rewrite El. simpl.
      assert (Hb : b < length (blocks (vheap s))) by (apply live_lt; exists l; auto).
      split; [exact Ok|]. split; [apply upd_length|]. split; [|split].
      + intros b' Hne. apply nth_upd_neq. congruence.
      + intros b' [= <-]. now apply nth_upd_eq.
      + intros b' l' E'. destruct (Nat.eq_dec b b') as [->|Hne].
        * rewrite nth_upd_eq in E' by auto. discriminate.
        * rewrite nth_upd_neq in E' by auto. split; [exact E'|congruence].
    - split; [exact Ok|]. split; [reflexivity|]. split; [reflexivity|]. split; [discriminate|].
      intros b' l' E'. split; [exact E'|discriminate].
  Qed.

  (** after destroying variable i's block, every live block belongs to another variable *)
  Lemma destroy_rest i : i < length (vvars s) ->
    forall b l, nth b (blocks (destroy_array (vheap s) (sarr (vget s i)))) None = Some l ->
    exists j, j < length (vvars s) /\ j <> i /\ sarr (vget s j) = Some b.
  Proof.
    intros Hi b l El. destruct (destroy_own i Hi) as (_ & _ & _ & _ & Sub).
    destruct (Sub b l El) as [El' Hne].
    destruct (vi_noleak s HI b) as (j & Hj & Ej); [exists l; exact El'|].
    exists j. repeat split; auto. intros ->. contradiction.
  Qed.

  Lemma other_not_block i j b : i < length (vvars s) -> j < length (vvars s) -> j <> i ->
    sarr (vget s j) = Some b -> sarr (vget s i) <> Some b.
  Proof. intros Hi Hj Hne Ej Ei. apply Hne. apply (vi_inj s HI j i b); auto. Qed.

  (** VDestroy *)
  Lemma op_destroy i : i < length (vvars s) ->
    let '(s', _) := vstep s (VDestroy i) in VInv s' /\ VAbs s' (upd ls i []).
  Proof.
    intros Hi. simpl. destruct (destroy_own i Hi) as (B & L & Keep & Gone & Sub).
    apply (VInv_replace s ls i _ null_vec []); auto.
    - intros j b Hj Hne Ej. apply Keep. now apply (other_not_block i j b).
    - simpl. auto.
    - intros b [l El]. right. apply (destroy_rest i Hi b l El).
  Qed.

  (** VMake *)
  Lemma op_make i n : i < length (vvars s) ->
    let '(s', _) := vstep s (VMake i n) in VInv s' /\ VAbs s' (upd ls i (repeat 0 n)).
  Proof.
    intros Hi. simpl. destruct (destroy_own i Hi) as (B & L & Keep & Gone & Sub).
    pose proof (destroy_rest i Hi) as Rest.
    set (h1 := destroy_array (vheap s) (sarr (vget s i))) in *.
    unfold sv_make. destruct (Nat.eqb_spec n 0) as [->|Hn].
    - (* size 0: null vector *)
      simpl. apply (VInv_replace s ls i h1 {| ssize := 0; sarr := None |} []); auto.
      + intros j b Hj Hne Ej. apply Keep. now apply (other_not_block i j b).
      + simpl. auto.
      + intros b [l El]. right. apply (Rest b l El).
    - unfold create_array. simpl.
      set (h2 := {| blocks := blocks h1 ++ [Some (repeat 0 n)]; hbad := hbad h1 |}).
      apply (VInv_replace s ls i h2 {| ssize := n; sarr := Some (length (blocks h1)) |} (repeat 0 n)); auto.
      + intros j b Hj Hne Ej. unfold h2. simpl.
        pose proof (vi_own s HI j Hj) as O. rewrite Ej in O. destruct O as (l & El & _).
        assert (b < length (blocks h1)) by (rewrite L; apply live_lt; exists l; auto).
        rewrite nth_app_old by auto. apply Keep. now apply (other_not_block i j b).
      + simpl. unfold h2; simpl. rewrite nth_app_new. repeat split; auto using repeat_length.
        intros j Hj Hne Ej. pose proof (vi_own s HI j Hj) as O. rewrite Ej in O. destruct O as (l & El & _).
        assert (length (blocks h1) < length (blocks (vheap s))) by (apply live_lt; exists l; auto). lia.
      + intros b [l El]. unfold h2 in El; simpl in El.
        destruct (Nat.eq_dec b (length (blocks h1))) as [->|Hne]; [left; reflexivity|right].
        assert (b < length (blocks h1)).
        { destruct (Nat.lt_ge_cases b (length (blocks h1 ++ [Some (repeat 0 n)]))) as [Lt|Ge].
          - rewrite app_length in Lt. simpl in Lt. lia.
          - rewrite nth_overflow in El by auto. discriminate. }
        rewrite nth_app_old in El by auto. apply (Rest b l El).
  Qed.
End Ops.

Lemma skipn_repeat {A} (x : A) k n : skipn k (repeat x n) = repeat x (n - k).
Proof. revert n; induction k as [|k IH]; intros [|n]; simpl; auto. Qed.

Lemma vget2_i (vs : list svec) h i j a b : i < length vs -> i <> j ->
  vget {| vvars := upd (upd vs i a) j b; vheap := h |} i = a.
Proof. intros. unfold vget; simpl. rewrite nth_upd_neq by auto. now apply nth_upd_eq. Qed.
Lemma vget2_j (vs : list svec) h i j a b : j < length vs ->
  vget {| vvars := upd (upd vs i a) j b; vheap := h |} j = b.
Proof. intros. unfold vget; simpl. apply nth_upd_eq. now rewrite upd_length. Qed.
Lemma vget2_k (vs : list svec) h i j k a b : k <> i -> k <> j ->
  vget {| vvars := upd (upd vs i a) j b; vheap := h |} k = nth k vs null_vec.
Proof. intros. unfold vget; simpl. rewrite !nth_upd_neq by auto. reflexivity. Qed.

Section Ops2.
  Variable s : vstate.
  Variable ls : list (list elem).
  Hypothesis HI : VInv s.
  Hypothesis HA : VAbs s ls.

  Lemma abs_i i : i < length (vvars s) -> sv_contents (vheap s) (vget s i) = nth i ls [].
  Proof. destruct HA as [HL H]. intros. apply H. lia. Qed.

  Lemma own_contents i b : i < length (vvars s) -> sarr (vget s i) = Some b ->
    nth b (blocks (vheap s)) None = Some (nth i ls []) /\ length (nth i ls []) = ssize (vget s i).
  Proof.
    intros Hi Eb. pose proof (vi_own s HI i Hi) as O. rewrite Eb in O. destruct O as (l & El & Ll).
    rewrite <- (abs_i i Hi). rewrite (contents_live _ _ b l Eb El Ll). auto.
  Qed.

  Lemma null_contents i : i < length (vvars s) -> sarr (vget s i) = None -> nth i ls [] = [] /\ ssize (vget s i) = 0.
  Proof.
    intros Hi En. pose proof (vi_own s HI i Hi) as O. rewrite En in O.
    rewrite <- (abs_i i Hi). now rewrite contents_null.
  Qed.

  (** VResize *)
  Lemma op_resize i n : i < length (vvars s) ->
    let l := nth i ls [] in let k := Nat.min (length l) n in
    let '(s', _) := vstep s (VResize i n) in VInv s' /\ VAbs s' (upd ls i (firstn k l ++ repeat 0 (n - k))).
  Proof.
    intros Hi l k. simpl. unfold sv_resize.
    pose proof (vi_ok s HI) as Ok.
    destruct (sarr (vget s i)) as [old|] eqn:Eo.
    - destruct (own_contents i old Hi Eo) as [El Ll]. fold l in El, Ll.
      assert (Hold : old < length (blocks (vheap s))) by (apply live_lt; eexists; eauto).
      unfold create_array. cbn [fst snd].
      set (nb := length (blocks (vheap s))).
      set (h1 := {| blocks := blocks (vheap s) ++ [Some (repeat 0 n)]; hbad := hbad (vheap s) |}).
      assert (R1 : read_block h1 (Some old) = l).
      { unfold read_block, h1; simpl. rewrite nth_app_old by auto. now rewrite El. }
      rewrite R1. rewrite <- Ll. fold k.
      set (newl := firstn k l ++ skipn k (repeat 0 n)).
      assert (W : write_block h1 nb newl = {| blocks := upd (blocks h1) nb (Some newl); hbad := hbad (vheap s) |}).
      { unfold write_block, h1; simpl. unfold nb. now rewrite nth_app_new. }
      rewrite W.
      assert (D : destroy_array {| blocks := upd (blocks h1) nb (Some newl); hbad := hbad (vheap s) |} (Some old) =
                  {| blocks := upd (upd (blocks h1) nb (Some newl)) old None; hbad := hbad (vheap s) |}).
      { unfold destroy_array; simpl. rewrite nth_upd_neq by (unfold nb; lia).
        rewrite nth_app_old by auto. now rewrite El. }
      rewrite D.
      assert (Enew : newl = firstn k l ++ repeat 0 (n - k)) by (unfold newl; now rewrite skipn_repeat).
      rewrite <- Enew.
      assert (Lh1 : length (blocks h1) = S nb) by (unfold h1; simpl; rewrite app_length; simpl; unfold nb; lia).
      apply (VInv_replace s ls i _ {| ssize := n; sarr := Some nb |} newl); auto.
      + intros j b Hj Hne Ej. simpl.
        pose proof (vi_own s HI j Hj) as O. rewrite Ej in O. destruct O as (lj & Elj & _).
        assert (b < nb) by (apply live_lt; eexists; eauto).
        assert (b <> old) by (intros ->; apply Hne; apply (vi_inj s HI j i old); auto).
        rewrite !nth_upd_neq by lia. unfold h1; simpl. now rewrite nth_app_old.
      + simpl. rewrite nth_upd_neq by (unfold nb; lia).
        rewrite nth_upd_eq by (unfold h1; simpl; rewrite app_length; simpl; unfold nb; lia).
        repeat split; auto.
        * unfold newl. rewrite app_length, firstn_length, skipn_length, repeat_length. unfold k. lia.
        * intros j Hj Hne Ej. pose proof (vi_own s HI j Hj) as O. rewrite Ej in O. destruct O as (lj & Elj & _).
          assert (nb < nb) by (apply live_lt; eexists; eauto). lia.
      + intros b [lb Eb]. simpl in Eb.
        destruct (Nat.eq_dec b old) as [->|Hbo]; [rewrite nth_upd_eq in Eb by (rewrite upd_length, app_length; simpl; lia); discriminate|].
        rewrite nth_upd_neq in Eb by auto.
        destruct (Nat.eq_dec b nb) as [->|Hbn]; [left; reflexivity|right].
        rewrite nth_upd_neq in Eb by auto.
        assert (b < nb).
        { destruct (Nat.lt_ge_cases b (length (blocks (vheap s) ++ [Some (repeat 0 n)]))) as [Lt|Ge]; [rewrite app_length in Lt; simpl in Lt; unfold nb; lia|].
          rewrite nth_overflow in Eb by auto. discriminate. }
        rewrite nth_app_old in Eb by auto.
        destruct (vi_noleak s HI b) as (j & Hj & Ej); [eexists; eauto|].
        exists j. repeat split; auto. intros ->. congruence.
    - destruct (null_contents i Hi Eo) as [Ln Zs]. fold l in Ln.
      unfold create_array. cbn [fst snd].
      set (nb := length (blocks (vheap s))).
      assert (k = 0) as Zk by (unfold k; rewrite Ln; simpl; lia).
      rewrite Zk, Ln. simpl. rewrite Nat.sub_0_r.
      apply (VInv_replace s ls i _ {| ssize := n; sarr := Some nb |} (repeat 0 n)); auto.
      + intros j b Hj Hne Ej. simpl.
        pose proof (vi_own s HI j Hj) as O. rewrite Ej in O. destruct O as (lj & Elj & _).
        assert (b < nb) by (apply live_lt; eexists; eauto). now rewrite nth_app_old.
      + simpl. unfold nb. rewrite nth_app_new. repeat split; auto using repeat_length.
        intros j Hj Hne Ej. pose proof (vi_own s HI j Hj) as O. rewrite Ej in O. destruct O as (lj & Elj & _).
        assert (nb < nb) by (apply live_lt; eexists; eauto). lia.
      + intros b [lb Eb]. simpl in Eb.
        destruct (Nat.eq_dec b nb) as [->|Hbn]; [left; reflexivity|right].
        assert (b < nb).
        { destruct (Nat.lt_ge_cases b (length (blocks (vheap s) ++ [Some (repeat 0 n)]))) as [Lt|Ge].
          - rewrite app_length in Lt; simpl in Lt. unfold nb. lia.
          - rewrite nth_overflow in Eb by auto. discriminate. }
        rewrite nth_app_old in Eb by auto.
        destruct (vi_noleak s HI b) as (j & Hj & Ej); [eexists; eauto|].
        exists j. repeat split; auto. intros ->. congruence.
  Qed.

  (** VSet *)
  Lemma op_set i k x : i < length (vvars s) -> k < length (nth i ls []) ->
    let '(s', _) := vstep s (VSet i k x) in VInv s' /\ VAbs s' (upd ls i (upd (nth i ls []) k x)).
  Proof.
    intros Hi Hk. simpl. unfold sv_set.
    destruct (sarr (vget s i)) as [b|] eqn:Eb.
    - destruct (own_contents i b Hi Eb) as [El Ll].
      assert (Hb : b < length (blocks (vheap s))) by (apply live_lt; eexists; eauto).
      unfold read_block, write_block. rewrite El.
      set (h' := {| blocks := upd (blocks (vheap s)) b (Some (upd (nth i ls []) k x)); hbad := hbad (vheap s) |}).
      assert (E : {| vvars := vvars s; vheap := h' |} = {| vvars := upd (vvars s) i (vget s i); vheap := h' |}).
      { f_equal. symmetry. unfold vget. clear -Hi. revert i Hi. induction (vvars s) as [|v vs IH]; intros [|i] Hi; simpl in *; try lia; auto.
        f_equal. apply IH. lia. }
      rewrite E.
      apply (VInv_replace s ls i h' (vget s i) (upd (nth i ls []) k x)); auto.
      + apply (vi_ok s HI).
      + intros j b' Hj Hne Ej. unfold h'; simpl. apply nth_upd_neq. intros ->.
        apply Hne. apply (vi_inj s HI j i b'); auto.
      + rewrite Eb. unfold h'; simpl. rewrite nth_upd_eq by auto. repeat split; auto.
        * now rewrite upd_length.
        * intros j Hj Hne Ej. apply Hne. apply (vi_inj s HI j i b); auto.
      + intros b' [lb Eb']. unfold h' in Eb'; simpl in Eb'.
        destruct (Nat.eq_dec b' b) as [->|Hne]; [left; exact Eb|right].
        rewrite nth_upd_neq in Eb' by auto.
        destruct (vi_noleak s HI b') as (j & Hj & Ej); [eexists; eauto|].
        exists j. repeat split; auto. intros ->. congruence.
    - destruct (null_contents i Hi Eb) as [Ln _]. rewrite Ln in Hk. simpl in Hk. lia.
  Qed.

  (** moves: variable i receives j's vector, j becomes null; i's old block is released *)
  Lemma op_move i j : i < length (vvars s) -> j < length (vvars s) -> i <> j ->
    let s' := {| vvars := upd (upd (vvars s) i (vget s j)) j null_vec;
                 vheap := destroy_array (vheap s) (sarr (vget s i)) |} in
    VInv s' /\ VAbs s' (upd (upd ls i (nth j ls [])) j []).
  Proof.
    intros Hi Hj Hne s'.
    destruct (destroy_own s HI i Hi) as (B & L & Keep & Gone & Sub).
    assert (Hlen : length (vvars s') = length (vvars s)) by (unfold s'; simpl; now rewrite !upd_length).
    assert (Gi : vget s' i = vget s j) by (unfold s'; apply vget2_i; auto).
    assert (Gj : vget s' j = null_vec) by (unfold s'; apply vget2_j; auto).
    assert (Gk : forall k, k <> i -> k <> j -> vget s' k = vget s k) by (intros; unfold s'; now rewrite vget2_k).
    assert (Hkeep : forall k b, k < length (vvars s) -> k <> i -> sarr (vget s k) = Some b ->
                      nth b (blocks (vheap s')) None = nth b (blocks (vheap s)) None).
    { intros k b Hk Hki Ek. unfold s'; simpl. apply Keep. intros Ei. apply Hki. apply (vi_inj s HI k i b); auto. }
    split.
    - constructor.
      + exact B.
      + intros k Hk. rewrite Hlen in Hk.
        destruct (Nat.eq_dec k i) as [->|Hki]; [|destruct (Nat.eq_dec k j) as [->|Hkj]].
        * rewrite Gi. pose proof (vi_own s HI j Hj) as O. destruct (sarr (vget s j)) as [b|] eqn:Eb; auto.
          destruct O as (l & El & Ll). exists l. split; auto. rewrite (Hkeep j b); auto.
        * rewrite Gj. reflexivity.
        * rewrite Gk by auto. pose proof (vi_own s HI k Hk) as O. destruct (sarr (vget s k)) as [b|] eqn:Eb; auto.
          destruct O as (l & El & Ll). exists l. split; auto. rewrite (Hkeep k b); auto.
      + intros a c b Ha Hc Ea Ec. rewrite Hlen in *.
        assert (T : forall k, k < length (vvars s) -> sarr (vget s' k) = Some b ->
                    exists k', k' < length (vvars s) /\ k' <> i /\ sarr (vget s k') = Some b /\ (k = i -> k' = j) /\ (k <> i -> k' = k)).
        { intros k Hk Ek. destruct (Nat.eq_dec k i) as [->|Hki].
          - rewrite Gi in Ek. exists j. repeat split; auto. intros; contradiction.
          - destruct (Nat.eq_dec k j) as [->|Hkj]; [rewrite Gj in Ek; discriminate|].
            rewrite Gk in Ek by auto. exists k. repeat split; auto. intros; contradiction. }
        destruct (T a Ha Ea) as (a' & Ha' & _ & Ea' & A1 & A2).
        destruct (T c Hc Ec) as (c' & Hc' & _ & Ec' & C1 & C2).
        pose proof (vi_inj s HI a' c' b Ha' Hc' Ea' Ec') as E.
        destruct (Nat.eq_dec a i) as [->|Hai]; destruct (Nat.eq_dec c i) as [->|Hci]; auto.
        * rewrite (A1 eq_refl), (C2 Hci) in E. subst c. destruct (Nat.eq_dec j j); [|contradiction].
          rewrite Gj in Ec. discriminate.
        * rewrite (C1 eq_refl), (A2 Hai) in E. subst a. rewrite Gj in Ea. discriminate.
        * rewrite (A2 Hai), (C2 Hci) in E. exact E.
      + intros b [l El]. unfold s' in El; simpl in El.
        destruct (Sub b l El) as [El' Hnb].
        destruct (vi_noleak s HI b) as (k & Hk & Ek); [eexists; eauto|].
        assert (k <> i) by (intros ->; contradiction).
        rewrite Hlen. destruct (Nat.eq_dec k j) as [->|Hkj].
        * exists i. rewrite Gi. auto.
        * exists k. rewrite Gk by auto. auto.
    - destruct HA as [HL HAi]. split; [unfold s'; simpl; now rewrite !upd_length|].
      intros k Hk. rewrite !upd_length in Hk. rewrite HL in Hk.
      assert (C : forall k', k' < length (vvars s) -> k' <> i ->
                 sv_contents (vheap s') (vget s k') = sv_contents (vheap s) (vget s k')).
      { intros k' Hk' Hne'. unfold sv_contents, read_block.
        destruct (sarr (vget s k')) as [b|] eqn:Eb; auto. now rewrite (Hkeep k' b). }
      destruct (Nat.eq_dec k i) as [->|Hki]; [|destruct (Nat.eq_dec k j) as [->|Hkj]].
      + rewrite Gi, nth_upd_neq, nth_upd_eq by (auto; lia). rewrite C by auto. apply HAi. lia.
      + rewrite Gj, nth_upd_eq by (rewrite upd_length; lia). reflexivity.
      + rewrite Gk, !nth_upd_neq by auto. rewrite C by auto. apply HAi. lia.
  Qed.

  (** swap *)
  Lemma op_swap i j : i < length (vvars s) -> j < length (vvars s) ->
    let s' := {| vvars := upd (upd (vvars s) i (vget s j)) j (vget s i); vheap := vheap s |} in
    VInv s' /\ VAbs s' (upd (upd ls i (nth j ls [])) j (nth i ls [])).
  Proof.
    intros Hi Hj s'.
    assert (Hlen : length (vvars s') = length (vvars s)) by (unfold s'; simpl; now rewrite !upd_length).
    (* s' k = s (pi k) for the transposition pi *)
    set (pi := fun k => if k =? j then i else if k =? i then j else k).
    assert (G : forall k, k < length (vvars s) -> vget s' k = vget s (pi k)).
    { intros k Hk. unfold s', vget, pi; simpl.
      destruct (Nat.eqb_spec k j) as [->|Hkj]; [apply nth_upd_eq; now rewrite upd_length|].
      rewrite nth_upd_neq by auto.
      destruct (Nat.eqb_spec k i) as [->|Hki]; [now apply nth_upd_eq|]. now rewrite nth_upd_neq by auto. }
    assert (Pl : forall k, k < length (vvars s) -> pi k < length (vvars s)).
    { intros k Hk. unfold pi. destruct (k =? j), (k =? i); auto. }
    assert (Pinj : forall a c, pi a = pi c -> a = c).
    { intros a c. unfold pi.
      destruct (Nat.eqb_spec a j), (Nat.eqb_spec a i), (Nat.eqb_spec c j), (Nat.eqb_spec c i); intros; subst; try lia; auto. }
    assert (Pinv : forall k, pi (pi k) = k).
    { intros k. unfold pi. destruct (Nat.eqb_spec k j) as [->|]; [destruct (Nat.eqb_spec i j); [auto|]; now rewrite Nat.eqb_refl|].
      destruct (Nat.eqb_spec k i) as [->|]; [now rewrite Nat.eqb_refl|].
      destruct (Nat.eqb_spec k j); [lia|]. destruct (Nat.eqb_spec k i); [lia|auto]. }
    split.
    - constructor.
      + apply (vi_ok s HI).
      + intros k Hk. rewrite Hlen in Hk. rewrite G by auto. apply (vi_own s HI (pi k)). auto.
      + intros a c b Ha Hc Ea Ec. rewrite Hlen in *. rewrite G in Ea, Ec by auto.
        apply Pinj. apply (vi_inj s HI (pi a) (pi c) b); auto.
      + intros b Lb. destruct (vi_noleak s HI b Lb) as (k & Hk & Ek).
        exists (pi k). rewrite Hlen. split; [auto|]. rewrite G by auto. now rewrite Pinv.
    - destruct HA as [HL HAi]. split; [unfold s'; simpl; now rewrite !upd_length|].
      intros k Hk. rewrite !upd_length in Hk. rewrite HL in Hk. rewrite G by auto.
      change (vheap s') with (vheap s). rewrite HAi by (rewrite HL; auto).
      unfold pi. destruct (Nat.eqb_spec k j) as [->|Hkj]; [now rewrite nth_upd_eq by (rewrite upd_length; lia)|].
      rewrite nth_upd_neq by auto.
      destruct (Nat.eqb_spec k i) as [->|Hki]; [now rewrite nth_upd_eq by lia|]. now rewrite nth_upd_neq by auto.
  Qed.
End Ops2.

(** * one step, whole histories, end of life *)
Lemma vstep_refines s ls o : VInv s -> VAbs s ls -> spre ls o = true ->
  let '(s', x) := vstep s o in let '(ls', y) := sstep ls o in VInv s' /\ VAbs s' ls' /\ x = y.
Proof.
  intros HI HA Hp. pose proof HA as [HL HAi].
  destruct o as [i n|i n|i k x|i|i j|i j|i j|i]; simpl in Hp;
    repeat (apply andb_true_iff in Hp as [Hp ?]);
    repeat match goal with H : (_ <? _) = true |- _ => apply Nat.ltb_lt in H end; rewrite ?HL in *.
  - pose proof (op_make s ls HI HA i n Hp) as R. simpl in *.
    destruct (sv_make (destroy_array (vheap s) (sarr (vget s i))) n) as [h2 v]. tauto.
  - pose proof (op_resize s ls HI HA i n Hp) as R. simpl in *.
    destruct (sv_resize (vheap s) (vget s i) n) as [h2 v]. tauto.
  - pose proof (op_set s ls HI HA i k x Hp H) as R. simpl in *. tauto.
  - pose proof (op_destroy s ls HI HA i Hp) as R. simpl in *. tauto.
  - simpl. destruct (Nat.eqb_spec i j) as [->|Hne]; [tauto|].
    pose proof (op_move s ls HI HA i j Hp H Hne) as R. cbv zeta in R. tauto.
  - simpl. destruct (Nat.eqb_spec i j) as [->|Hne]; [tauto|].
    pose proof (op_move s ls HI HA i j Hp H Hne) as R. cbv zeta in R. tauto.
  - pose proof (op_swap s ls HI HA i j Hp H) as R. cbv zeta in R. simpl. tauto.
  - simpl. split; [exact HI|]. split; [exact HA|]. f_equal. apply HAi. lia.
Qed.

Theorem vrun_refines : forall ops s ls, VInv s -> VAbs s ls -> svalid ls ops = true ->
  let '(s', outs) := vrun s ops in let '(ls', souts) := srun ls ops in VInv s' /\ VAbs s' ls' /\ outs = souts.
Proof.
  induction ops as [|o ops IH]; intros s ls HI HA HV; simpl in *; [auto|].
  apply andb_true_iff in HV as [Hp HV].
  pose proof (vstep_refines s ls o HI HA Hp) as St.
  destruct (vstep s o) as [s1 x]. destruct (sstep ls o) as [l1 y]. simpl in HV. destruct St as (I1 & A1 & ->).
  specialize (IH s1 l1 I1 A1 HV). destruct (vrun s1 ops) as [s2 xs]. destruct (srun l1 ops) as [l2 ys].
  destruct IH as (I2 & A2 & ->). auto.
Qed.

Lemma vinit_ok : VInv vinit /\ VAbs vinit [[]; []; []].
Proof.
  split.
  - constructor; simpl; auto.
    + intros i Hi. unfold vget; simpl. destruct i as [|[|[|i]]]; simpl; auto; lia.
    + intros i j b Hi Hj Ei. unfold vget in Ei; simpl in Ei. destruct i as [|[|[|i]]]; simpl in *; try discriminate; lia.
    + intros b [l E]. simpl in E. destruct b; discriminate.
  - split; auto. intros i Hi. unfold vget; simpl in *. destruct i as [|[|[|i]]]; simpl; auto; lia.
Qed.

(** * end of life: destroying every variable releases every block exactly once *)
Lemma destroy_live h p : hbad h = false -> (forall b, p = Some b -> live h b) ->
  hbad (destroy_array h p) = false /\
  (forall b, live (destroy_array h p) b <-> (live h b /\ p <> Some b)).
Proof.
  intros Ok Hp. unfold destroy_array. destruct p as [b0|].
  - destruct (Hp b0 eq_refl) as [l0 E0]. rewrite E0. simpl. split; auto.
    assert (b0 < length (blocks h)) by (apply live_lt; eexists; eauto).
    intros b. unfold live; simpl. destruct (Nat.eq_dec b0 b) as [->|Hne].
    + rewrite nth_upd_eq by auto. split; [intros [l E]; discriminate|intros [_ N]; congruence].
    + rewrite nth_upd_neq by auto. split; [intros L; split; [auto|congruence]|tauto].
  - split; auto. intros b. split; [intros L; split; [auto|discriminate]|tauto].
Qed.

Lemma final_gen : forall (vs : list svec) h, hbad h = false ->
  (forall i v b, nth_error vs i = Some v -> sarr v = Some b -> live h b) ->
  (forall i j vi vj b, nth_error vs i = Some vi -> nth_error vs j = Some vj ->
                       sarr vi = Some b -> sarr vj = Some b -> i = j) ->
  (forall b, live h b -> exists i v, nth_error vs i = Some v /\ sarr v = Some b) ->
  let h' := fold_left (fun h v => destroy_array h (sarr v)) vs h in
  hbad h' = false /\ forall b, ~ live h' b.
Proof.
  induction vs as [|v vs IH]; intros h Ok Hlive Hinj Hown; simpl.
  - split; auto. intros b L. destruct (Hown b L) as (i & w & E & _). destruct i; discriminate.
  - destruct (destroy_live h (sarr v) Ok) as [Ok1 L1].
    { intros b Eb. apply (Hlive 0 v b); auto. }
    apply IH; auto.
    + intros i w b Ew Eb. apply L1. split; [apply (Hlive (S i) w b); auto|].
      intros Ev. assert (0 = S i) by (apply (Hinj 0 (S i) v w b); auto). discriminate.
    + intros i j vi vj b Ei Ej Bi Bj. assert (S i = S j) by (apply (Hinj (S i) (S j) vi vj b); auto). lia.
    + intros b Lb. apply L1 in Lb as [Lb Nb]. destruct (Hown b Lb) as (i & w & Ew & Eb).
      destruct i as [|i]; [simpl in Ew; injection Ew as <-; contradiction|]. exists i, w. auto.
Qed.

Lemma no_live_count h : (forall b, ~ live h b) -> live_blocks h = 0.
Proof.
  intros N. unfold live_blocks. apply length_zero_iff_nil.
  destruct (filter _ (blocks h)) as [|x t] eqn:F; auto. exfalso.
  assert (In x (filter (fun b => match b with Some _ => true | None => false end) (blocks h))) as Hin by (rewrite F; left; auto).
  apply filter_In in Hin as [Hin Hx]. destruct x as [l|]; [|discriminate].
  apply (In_nth _ _ None) in Hin as (b & _ & E). apply (N b). exists l. exact E.
Qed.

Lemma VInv_final s : VInv s -> vfinal_ok s = true.
Proof.
  intros HI. unfold vfinal_ok, vfinal.
  assert (G : forall i v, nth_error (vvars s) i = Some v -> i < length (vvars s) /\ vget s i = v).
  { intros i v E. split; [apply nth_error_Some; congruence|]. unfold vget. now apply nth_error_nth. }
  destruct (final_gen (vvars s) (vheap s) (vi_ok s HI)) as [Ok N].
  - intros i v b E Eb. destruct (G i v E) as [Hi Gv]. pose proof (vi_own s HI i Hi) as O.
    rewrite Gv, Eb in O. destruct O as (l & El & _). exists l. exact El.
  - intros i j vi vj b Ei Ej Bi Bj. destruct (G i vi Ei) as [Hi Gi]. destruct (G j vj Ej) as [Hj Gj].
    apply (vi_inj s HI i j b); auto; congruence.
  - intros b L. destruct (vi_noleak s HI b L) as (i & Hi & Ei).
    exists i, (vget s i). split; auto. unfold vget. apply nth_error_nth'. exact Hi.
  - rewrite Ok, (no_live_count _ N). reflexivity.
Qed.

(** The statement of C16 for SimpleVector (Normal mode): for every history of construction, resizing, element
    writes, destroy(), move construction / assignment and swap over three variables, every query returns the
    plain-list specification's answer; no block is released twice or touched after release (hbad stays false); and
    after destroying the variables no block is left (every new[] is matched by exactly one delete[]). *)
Theorem svec_refines_lists : forall ops,
  svalid [[]; []; []] ops = true ->
  snd (vrun vinit ops) = snd (srun [[]; []; []] ops) /\
  hbad (vheap (fst (vrun vinit ops))) = false /\
  vfinal_ok (fst (vrun vinit ops)) = true.
Proof.
  intros ops HV. destruct vinit_ok as [I0 A0].
  pose proof (vrun_refines ops vinit _ I0 A0 HV) as H.
  destruct (vrun vinit ops) as [s' outs]. destruct (srun _ ops) as [ls' souts].
  destruct H as (I & A & E). simpl. split; [exact E|]. split; [apply (vi_ok _ I)|apply VInv_final; exact I].
Qed.

Example svalid_example :
  svalid [[]; []; []] [VMake 0 3; VSet 0 1 5; VResize 0 5; VQuery 0; VResize 0 2; VMoveAssign 1 0; VQuery 1;
                       VSwap 1 2; VQuery 2; VDestroy 2; VMake 1 0; VResize 1 0; VQuery 1] = true.
Proof. reflexivity. Qed.
