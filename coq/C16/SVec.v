(** C16 — executable model of tlx::SimpleVector<T, Normal> (tlx/container/simple_vector.hpp).
    Storage blocks live in a heap (append-only list of blocks, [None] = released by delete[]); a vector
    object is (size_, array_) with array_ an optional block id.  new T[n] default-constructs n elements
    (value 0), delete[] destroys all elements of the block and releases it.  Releasing a block twice or
    touching a released block sets [hbad]. *)
From Coq Require Import List Arith Lia Bool.
From TLXV Require Import C16.Ring.
Import ListNotations.

Record svec := { ssize : nat; sarr : option nat }.
Record heap := { blocks : list (option (list elem)); hbad : bool }.

Definition create_array (h : heap) (n : nat) : heap * nat :=
  ({| blocks := blocks h ++ [Some (repeat 0 n)]; hbad := hbad h |}, length (blocks h)).

Definition destroy_array (h : heap) (p : option nat) : heap :=
  match p with
  | None => h                                   (* delete[] nullptr *)
  | Some b => match nth b (blocks h) None with
              | Some _ => {| blocks := upd (blocks h) b None; hbad := hbad h |}
              | None => {| blocks := blocks h; hbad := true |}
              end
  end.

Definition read_block (h : heap) (p : option nat) : list elem :=
  match p with Some b => match nth b (blocks h) None with Some l => l | None => [] end | None => [] end.

Definition write_block (h : heap) (b : nat) (l : list elem) : heap :=
  match nth b (blocks h) None with
  | Some _ => {| blocks := upd (blocks h) b (Some l); hbad := hbad h |}
  | None => {| blocks := blocks h; hbad := true |}
  end.

(** SimpleVector(sz) *)
Definition sv_make (h : heap) (n : nat) : heap * svec :=
  if n =? 0 then (h, {| ssize := 0; sarr := None |})
  else let '(h1, b) := create_array h n in (h1, {| ssize := n; sarr := Some b |}).

(** resize(new_size) *)
Definition sv_resize (h : heap) (v : svec) (n : nat) : heap * svec :=
  match sarr v with
  | Some old =>
      let '(h1, b) := create_array h n in
      let src := read_block h1 (Some old) in
      let k := Nat.min (ssize v) n in
      let h2 := write_block h1 b (firstn k src ++ skipn k (repeat 0 n)) in
      (destroy_array h2 (Some old), {| ssize := n; sarr := Some b |})
  | None => let '(h1, b) := create_array h n in (h1, {| ssize := n; sarr := Some b |})
  end.

(** destroy() and ~SimpleVector() *)
Definition sv_destroy (h : heap) (v : svec) : heap * svec :=
  (destroy_array h (sarr v), {| ssize := 0; sarr := None |}).

(** operator[] write *)
Definition sv_set (h : heap) (v : svec) (i : nat) (x : elem) : heap :=
  match sarr v with
  | Some b => write_block h b (upd (read_block h (Some b)) i x)
  | None => {| blocks := blocks h; hbad := true |}
  end.

Definition sv_contents (h : heap) (v : svec) : list elem := firstn (ssize v) (read_block h (sarr v)).

Inductive vop :=
| VMake (i n : nat)          (* destroy variable i and construct SimpleVector(n) in its place *)
| VResize (i n : nat) | VSet (i k : nat) (x : elem) | VDestroy (i : nat)
| VMoveAssign (i j : nat) | VMoveCtor (i j : nat) | VSwap (i j : nat) | VQuery (i : nat).

Record vstate := { vvars : list svec; vheap : heap }.
Definition vget (s : vstate) i := nth i (vvars s) {| ssize := 0; sarr := None |}.
Definition null_vec := {| ssize := 0; sarr := None |}.

Definition vstep (s : vstate) (o : vop) : vstate * option (list elem) :=
  match o with
  | VMake i n => let '(h1, _) := sv_destroy (vheap s) (vget s i) in
                 let '(h2, v) := sv_make h1 n in
                 ({| vvars := upd (vvars s) i v; vheap := h2 |}, None)
  | VResize i n => let '(h1, v) := sv_resize (vheap s) (vget s i) n in
                   ({| vvars := upd (vvars s) i v; vheap := h1 |}, None)
  | VSet i k x => ({| vvars := vvars s; vheap := sv_set (vheap s) (vget s i) k x |}, None)
  | VDestroy i => let '(h1, v) := sv_destroy (vheap s) (vget s i) in
                  ({| vvars := upd (vvars s) i v; vheap := h1 |}, None)
  | VMoveAssign i j =>
      if i =? j then (s, None) else
      let h1 := destroy_array (vheap s) (sarr (vget s i)) in
      ({| vvars := upd (upd (vvars s) i (vget s j)) j null_vec; vheap := h1 |}, None)
  | VMoveCtor i j =>
      if i =? j then (s, None) else
      let '(h1, _) := sv_destroy (vheap s) (vget s i) in
      ({| vvars := upd (upd (vvars s) i (vget s j)) j null_vec; vheap := h1 |}, None)
  | VSwap i j => ({| vvars := upd (upd (vvars s) i (vget s j)) j (vget s i); vheap := vheap s |}, None)
  | VQuery i => (s, Some (sv_contents (vheap s) (vget s i)))
  end.

Definition vinit : vstate := {| vvars := [null_vec; null_vec; null_vec]; vheap := {| blocks := []; hbad := false |} |}.

Fixpoint vrun (s : vstate) (ops : list vop) : vstate * list (option (list elem)) :=
  match ops with
  | [] => (s, [])
  | o :: t => let '(s1, x) := vstep s o in let '(s2, xs) := vrun s1 t in (s2, x :: xs)
  end.

(** end of life: destroy every variable; then no block may be live and no error recorded *)
Definition vfinal (s : vstate) : heap :=
  fold_left (fun h v => destroy_array h (sarr v)) (vvars s) (vheap s).
Definition live_blocks (h : heap) : nat :=
  length (filter (fun b => match b with Some _ => true | None => false end) (blocks h)).
Definition vfinal_ok (s : vstate) : bool :=
  negb (hbad (vfinal s)) && (live_blocks (vfinal s) =? 0).

(** number of element objects currently alive = total length of the live blocks (new T[n] constructs n, delete[] destroys n) *)
Definition live_elems (h : heap) : nat :=
  fold_left (fun a b => a + match b with Some l => length l | None => 0 end) (blocks h) 0.
(** what the class reports as stored *)
Definition stored_elems (s : vstate) : nat := fold_left (fun a v => a + ssize v) (vvars s) 0.
