(** C16 — the mask arithmetic of tlx::RingBuffer equals the model's [mod] arithmetic.

    The C++ (tlx/container/ring_buffer.hpp) keeps capacity_ a power of two, mask_ = capacity_ - 1, and
    computes every index as [x & mask_] on size_t, i.e. on 64-bit unsigned integers with wrap-around:
    [++end_ &= mask_], [--begin_ &= mask_] (wrapping through 2^64 - 1 when begin_ = 0),
    [(end_ - begin_) & mask_], [(begin_ + i) & mask_], [(end_ - 1) & mask_].
    The model (C16/Ring.v) writes [x mod cap], [(x + cap - 1) mod cap], [(e + cap - b) mod cap].
    Here the size_t operations are spelled out over N with explicit reduction modulo W = 2^64
    (a - b on size_t is (a + W - b) mod W for a, b < W), and each C++ expression is proved equal to the
    model's.  [rup2] (the model's round_up_to_power_of_two) is proved to return a power of two, so the
    identities apply to every capacity the model creates, as long as it fits size_t's top bit
    (cap <= 2^63, which is also the largest power of two representable in size_t). *)
From Coq Require Import NArith Arith Lia Nnat.
From TLXV Require Import C16.Ring.

Local Open Scope N_scope.

Definition W : N := 2 ^ 64.

(** size_t operations *)
Definition add64 (a b : N) : N := (a + b) mod W.
Definition sub64 (a b : N) : N := (a + W - b) mod W.
Definition and64 (a b : N) : N := N.land a b.

Lemma W_pos : 0 < W.
Proof. unfold W. apply N.neq_0_lt_0. apply N.pow_nonzero. discriminate. Qed.

Section PowerOfTwo.
Variable k : N.
Hypothesis Hk : k <= 63.
Let cap : N := 2 ^ k.
Let mask : N := cap - 1.

Lemma cap_pos : 0 < cap.
Proof. unfold cap. apply N.neq_0_lt_0. apply N.pow_nonzero. discriminate. Qed.

Lemma cap_neq0 : cap <> 0.
Proof. pose proof cap_pos. lia. Qed.

Lemma mask_ones : mask = N.ones k.
Proof. unfold mask, cap. rewrite N.ones_equiv. rewrite N.pred_sub. reflexivity. Qed.

(** W = cap * q with q >= 2 *)
Lemma W_split : W = cap * 2 ^ (64 - k).
Proof. unfold W, cap. rewrite <- N.pow_add_r. f_equal. lia. Qed.

Lemma q_ge1 : 1 <= 2 ^ (64 - k).
Proof. pose proof (N.pow_nonzero 2 (64 - k)). lia. Qed.

Lemma cap_le_W : cap <= W.
Proof. rewrite W_split. pose proof q_ge1. pose proof cap_pos. nia. Qed.

(** (1) x & mask = x mod cap *)
Lemma land_mask x : N.land x mask = x mod cap.
Proof. rewrite mask_ones. apply N.land_ones. Qed.

(** reduction modulo W is invisible modulo cap *)
Lemma mod_W_mod_cap a : (a mod W) mod cap = a mod cap.
Proof.
  rewrite W_split.
  rewrite N.mod_mul_r by (try apply cap_neq0; apply N.pow_nonzero; discriminate).
  rewrite N.mul_comm. rewrite N.mod_add by apply cap_neq0.
  apply N.mod_mod. apply cap_neq0.
Qed.

Lemma land_mod_W a : N.land (a mod W) mask = a mod cap.
Proof. rewrite land_mask. apply mod_W_mod_cap. Qed.

(** adding W changes nothing modulo cap, and W - c can be traded for cap - c *)
Lemma W_minus a c : c <= cap -> (a + W - c) mod cap = (a + cap - c) mod cap.
Proof.
  intros Hc. pose proof q_ge1 as Hq. pose proof cap_pos as Hp.
  replace (a + W - c) with ((a + cap - c) + (2 ^ (64 - k) - 1) * cap).
  - apply N.mod_add. apply cap_neq0.
  - rewrite W_split. set (q := 2 ^ (64 - k)) in *. nia.
Qed.

(** (2) ++x &= mask *)
Lemma incr_mask x : N.land ((x + 1) mod W) mask = (x + 1) mod cap.
Proof. apply land_mod_W. Qed.

(** (3) --x &= mask, wrapping through 2^64 - 1 at x = 0 *)
Lemma decr_mask x : N.land ((x + W - 1) mod W) mask = (x + cap - 1) mod cap.
Proof. rewrite land_mod_W. apply W_minus. pose proof cap_pos. lia. Qed.

(** (4) (end_ - begin_) & mask *)
Lemma size_mask e b : b < cap -> N.land ((e + W - b) mod W) mask = (e + cap - b) mod cap.
Proof. intros Hb. rewrite land_mod_W. apply W_minus. lia. Qed.

(** (5) (begin_ + i) & mask *)
Lemma index_mask b i : N.land ((b + i) mod W) mask = (b + i) mod cap.
Proof. apply land_mod_W. Qed.

(** (6) (end_ - 1) & mask *)
Lemma back_mask e : N.land ((e + W - 1) mod W) mask = (e + cap - 1) mod cap.
Proof. apply decr_mask. Qed.

(** the operands really are size_t values, and the wrapped decrement at 0 is 2^64 - 1 *)
Lemma operands_fit x : x < cap -> x < W.
Proof. pose proof cap_le_W. lia. Qed.

Lemma decr_zero_wraps : (0 + W - 1) mod W = W - 1.
Proof. pose proof W_pos. apply N.mod_small. lia. Qed.

End PowerOfTwo.

(** Summary: for capacity_ = 2^k <= 2^63 and mask_ = capacity_ - 1, every index expression of the C++
    (64-bit wrap-around made explicit) equals the model's expression. *)
Theorem mask_arithmetic_matches_model : forall k cap mask,
  k <= 63 -> cap = 2 ^ k -> mask = cap - 1 ->
  (forall x, and64 x mask = x mod cap) /\
  (forall x, x < cap -> and64 (add64 x 1) mask = (x + 1) mod cap) /\
  (forall x, x < cap -> and64 (sub64 x 1) mask = (x + cap - 1) mod cap) /\
  (forall e b, e < cap -> b < cap -> and64 (sub64 e b) mask = (e + cap - b) mod cap) /\
  (forall b i, b < cap -> i < cap -> and64 (add64 b i) mask = (b + i) mod cap) /\
  (forall e, e < cap -> and64 (sub64 e 1) mask = (e + cap - 1) mod cap).
Proof.
  intros k cap mask Hk -> ->. unfold and64, add64, sub64.
  repeat split; intros.
  - apply land_mask.
  - apply incr_mask; assumption.
  - apply decr_mask; assumption.
  - apply size_mask; assumption.
  - apply index_mask; assumption.
  - apply back_mask; assumption.
Qed.

(** ** The model's round_up_to_power_of_two returns a power of two *)
Local Close Scope N_scope.
Local Open Scope nat_scope.

Lemma rup2_from_pow2 fuel : forall j n, exists k, rup2_from fuel (2 ^ j) n = 2 ^ k.
Proof.
  induction fuel as [|f IH]; intros j n; simpl rup2_from.
  - exists j. reflexivity.
  - destruct (n <=? 2 ^ j).
    + exists j. reflexivity.
    + change (2 ^ j + (2 ^ j + 0)) with (2 * 2 ^ j).
      replace (2 * 2 ^ j) with (2 ^ S j) by reflexivity. apply IH.
Qed.

Lemma rup2_pow2 n : 1 <= n -> exists k, rup2 n = 2 ^ k.
Proof. intros _. unfold rup2. apply (rup2_from_pow2 n 0 n). Qed.

Lemma N_of_nat_pow2 k : N.of_nat (2 ^ k) = (2 ^ N.of_nat k)%N.
Proof.
  induction k as [|k IH].
  - reflexivity.
  - rewrite Nat2N.inj_succ, N.pow_succ_r'. rewrite <- IH.
    change (2 ^ S k) with (2 * 2 ^ k). rewrite Nat2N.inj_mul. reflexivity.
Qed.

(** Transfer: every capacity the model's constructor [make m] / [allocate _ m] creates, cap = rup2 (m+1),
    satisfies the six identities whenever it fits (cap <= 2^63). *)
Theorem mask_arithmetic_rup2 : forall m cap mask,
  cap = N.of_nat (rup2 (m + 1)) -> (cap <= 2 ^ 63)%N -> mask = (cap - 1)%N ->
  (forall x, and64 x mask = x mod cap)%N /\
  (forall x, x < cap -> and64 (add64 x 1) mask = (x + 1) mod cap)%N /\
  (forall x, x < cap -> and64 (sub64 x 1) mask = (x + cap - 1) mod cap)%N /\
  (forall e b, e < cap -> b < cap -> and64 (sub64 e b) mask = (e + cap - b) mod cap)%N /\
  (forall b i, b < cap -> i < cap -> and64 (add64 b i) mask = (b + i) mod cap)%N /\
  (forall e, e < cap -> and64 (sub64 e 1) mask = (e + cap - 1) mod cap)%N.
Proof.
  intros m cap mask Hc Hle Hm.
  destruct (rup2_pow2 (m + 1)) as [k Hk]; [lia|].
  rewrite Hk, N_of_nat_pow2 in Hc.
  apply (mask_arithmetic_matches_model (N.of_nat k)); auto.
  rewrite Hc in Hle. apply N.pow_le_mono_r_iff in Hle; [exact Hle | reflexivity].
Qed.
