(** C07 — the reference instances satisfy the hypotheses (so the theorems are not vacuous), the shipped
    code's defects as refutation lemmas, and worked instances. *)
From Coq Require Import List Bool Arith ZArith Lia Sorting.Sorted Sorting.Permutation.
From TLXV Require Import Common.Order C07.SMerge C07.PMWM C07.PMWMProofs C07.PMWMExact C07.PMWMSampling C07.PMWMTop.
Import ListNotations.

Section RefSpec.
  Context {A : Type}.
  Variable ltb : A -> A -> bool.

  Lemma merge2_map_fst (l1 : list (A * nat)) : forall l2,
    map fst (merge2 (ltb_t ltb) l1 l2) = merge2 ltb (map fst l1) (map fst l2).
  Proof.
    induction l1 as [|x l1 IH1]; intros l2.
    - cbn [map]. now rewrite !merge2_nil_l.
    - induction l2 as [|y l2 IH2].
      + cbn [map]. now rewrite !merge2_nil_r.
      + cbn [map]. rewrite !merge2_cons. unfold ltb_t at 1.
        destruct (ltb (fst y) (fst x)); cbn [map].
        * f_equal. exact IH2.
        * f_equal. apply IH1.
  Qed.

  Lemma smerge_t_fst (seqs : list (list A)) : forall i,
    map fst (smerge (ltb_t ltb) (tag_from i seqs)) = smerge ltb seqs.
  Proof.
    unfold smerge. induction seqs as [|l seqs IH]; intros i; [reflexivity|].
    cbn [tag_from fold_right]. rewrite merge2_map_fst, IH, map_map. cbn [fst]. now rewrite map_id.
  Qed.

  (** the reference sequential merge meets the specification assumed of multiway_merge_base (stable) *)
  Lemma seqmerge_ref_spec_at sent : seqmerge_stable_spec_at ltb (seqmerge_ref ltb) sent.
  Proof.
    intros cs n _ _. unfold seqmerge_ref. cbn [fst].
    rewrite <- firstn_map. unfold smerge_t. now rewrite smerge_t_fst.
  Qed.
  Lemma seqmerge_ref_spec : seqmerge_stable_spec ltb (seqmerge_ref ltb).
  Proof. apply seqmerge_ref_spec_at. Qed.
End RefSpec.

(** ** A worked instance: two sequences with ties across them, every hypothesis discharged. *)
Definition ex_seqs : list (list nat) := [[1; 1]; [1; 2]].

Lemma ex_sorted : Forall (fun l => Sorted (sorted_rel Nat.ltb) l) ex_seqs.
Proof. repeat constructor. Qed.

Ltac tiny_split :=
  let i := fresh "i" in let j := fresh "j" in let x := fresh "x" in let y := fresh "y" in
  let Hx := fresh "Hx" in let Hy := fresh "Hy" in
  intros i j x y Hx Hy;
  destruct i as [|[|[|i]]]; destruct j as [|[|[|j]]]; simpl in Hx, Hy;
  try contradiction;
  repeat match goal with
         | H : _ \/ _ |- _ => destruct H
         | H : False |- _ => destruct H
         end; subst; (split; [reflexivity|intros; try reflexivity; try lia]).

Lemma ex_partition_spec4 : partition_spec Nat.ltb (partition_ref Nat.ltb) (filter (@nonempty nat) ex_seqs) 4.
Proof.
  intros r Hr.
  assert (C : (r = 0 \/ r = 1 \/ r = 2 \/ r = 3 \/ r = 4)%Z) by lia.
  destruct C as [-> | [-> | [-> | [-> | ->]]]]; (split; [|reflexivity]);
    (split; [reflexivity|split; [reflexivity|]]); vm_compute partition_ref; tiny_split.
Qed.

Lemma ex_partition_spec : partition_spec Nat.ltb (partition_ref Nat.ltb) (filter (@nonempty nat) ex_seqs) 3.
Proof. intros r Hr. apply ex_partition_spec4. lia. Qed.

(** exact splitting of [ex_seqs], first 3 of 4 elements, 2 threads (and, by the theorem, any p >= 1) *)
Example ex_exact_instance : forall p, 1 <= p ->
  parallel_result Nat.ltb ex_seqs 3 p
    (pmwm_base Nat.ltb (partition_ref Nat.ltb) (seqmerge_ref Nat.ltb) true false ex_seqs 3 p 10).
Proof.
  intros p Hp. apply pmwm_base_exact_stable.
  - exact SWO_nat.
  - exact ex_sorted.
  - vm_compute. lia.
  - exact Hp.
  - apply seqmerge_ref_spec.
  - exact ex_partition_spec.
Qed.

Example ex_exact_run :
  pmwm_base Nat.ltb (partition_ref Nat.ltb) (seqmerge_ref Nat.ltb) true false ex_seqs 3 2 10 =
  Some {| p_threads := [ {| tpos := 0; tlen := 2; tout := [1; 1] |}; {| tpos := 2; tlen := 1; tout := [1] |} ];
          p_cursors := [2; 1]; p_ret := 3 |}.
Proof. vm_compute. reflexivity. Qed.

Example ex_sampling_instance : forall p os, 1 <= p -> 1 <= os ->
  parallel_result Nat.ltb ex_seqs 4 p
    (pmwm_base Nat.ltb (partition_ref Nat.ltb) (seqmerge_ref Nat.ltb) true true ex_seqs 4 p os).
Proof.
  intros p os Hp Hos. apply pmwm_base_sampling_stable; auto.
  - exact SWO_nat.
  - exact ex_sorted.
  - apply seqmerge_ref_spec.
  - exact ex_partition_spec4.
Qed.

(** MWMSA_SAMPLING with a proper prefix (3 of 4): served by the exact splitter *)
Example ex_sampling_prefix_instance : forall p os, 1 <= p -> 1 <= os ->
  parallel_result Nat.ltb ex_seqs 3 p
    (pmwm_base Nat.ltb (partition_ref Nat.ltb) (seqmerge_ref Nat.ltb) true true ex_seqs 3 p os).
Proof.
  intros p os Hp Hos. apply pmwm_base_sampling_stable; auto.
  - exact SWO_nat.
  - exact ex_sorted.
  - vm_compute. lia.
  - apply seqmerge_ref_spec.
  - exact ex_partition_spec.
Qed.

(** ** The shipped code (tlx 704fd0b) *)

(** equally_split(0, 3) = 0, -1, -1, 0: a negative rank reaches multisequence_partition (fixes/C07/02). *)
Lemma equally_split_shipped_refuted :
  equally_split_shipped 0 3 = [0; -1; -1; 0]%Z /\ equally_split 0 3 = [0; 0; 0; 0]%Z.
Proof. split; vm_compute; reflexivity. Qed.

(** exact splitting with one thread and size < total reads an offsets vector that was never filled
    (fixes/C07/01). *)
Lemma exact_last_shipped_refuted :
  exists (seqs : list (list nat)) size,
    size < total seqs /\ exact_last_shipped (partition_ref Nat.ltb) seqs size 1 = None.
Proof. exists [[1; 2]; [3]], 1. split; vm_compute; [lia|reflexivity]. Qed.

(** sampling splitting with size < total as shipped (selection `if (mwmsa == MWMSA_SAMPLING)`, repaired by
    "fix: parallel_multiway_merge() uses exact splitting when only a prefix is merged"):
    3 x [1..10], size 10, 3 threads: every input is advanced to its very end, although only 10 of the 30
    elements were written; and [2,5],[3],[2], size 2, 5 threads, oversampling 10: a thread is asked to
    merge a negative number of elements (undefined behaviour).  The repaired selection gives 4,3,3. *)
Definition s10 : list nat := [1; 2; 3; 4; 5; 6; 7; 8; 9; 10].

Lemma sampling_size_lt_total_refuted :
  (exists r, pmwm_base_shipped Nat.ltb (partition_ref Nat.ltb) (seqmerge_ref Nat.ltb) true true [s10; s10; s10] 10 3 10 = Some r /\
             p_cursors r = [10; 10; 10] /\ p_ret r = 10) /\
  pmwm_base_shipped Nat.ltb (partition_ref Nat.ltb) (seqmerge_ref Nat.ltb) true true [[2; 5]; [3]; [2]] 2 5 10 = None /\
  (exists r, pmwm_base Nat.ltb (partition_ref Nat.ltb) (seqmerge_ref Nat.ltb) true true [s10; s10; s10] 10 3 10 = Some r /\
             p_cursors r = [4; 3; 3] /\ p_ret r = 10).
Proof.
  split; [eexists; split; [vm_compute; reflexivity|split; reflexivity]|].
  split; [vm_compute; reflexivity|].
  eexists; split; [vm_compute; reflexivity|split; reflexivity].
Qed.
