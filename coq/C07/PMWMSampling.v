(** C07 — proofs, part 3: sampling splitting with size = total.  upper_bound on a splitter is a stable
    split; splitters taken at increasing indices of the sorted samples give ordered boundaries; the last
    slab ends at the absolute end. *)
From Coq Require Import List Bool Arith ZArith NArith Lia Sorting.Sorted Sorting.Permutation.
From TLXV Require Import Common.Order C07.SMerge C07.PMWM C07.PMWMProofs C07.PMWMExact.
Import ListNotations.

Section Sampling.
  Context {A : Type}.
  Variable ltb : A -> A -> bool.
  Hypothesis Hswo : SWO ltb.

  Notation good := (good ltb).
  Notation chain := (chain ltb).
  Notation sorted := (Sorted (sorted_rel ltb)).
  Notation ub := (ub ltb).
  Notation lebR := (fun x y : A => ltb y x = false).

  (** ** upper_bound *)
  Lemma ub_le v (l : list A) : ub v l <= length l.
  Proof. induction l as [|a l IH]; simpl; [lia|]. destruct (ltb v a); lia. Qed.

  Lemma ub_left v x : forall l, In x (firstn (ub v l) l) -> ltb v x = false.
  Proof.
    induction l as [|a l IH]; simpl; [contradiction|].
    destruct (ltb v a) eqn:E; simpl; [contradiction|]. intros [<-|H]; auto.
  Qed.

  Lemma ub_right v y : forall l, sorted l -> In y (skipn (ub v l) l) -> ltb v y = true.
  Proof.
    induction l as [|a l IH]; simpl; [contradiction|]. intros HS.
    destruct (ltb v a) eqn:E; simpl.
    - intros [<-|H]; [assumption|].
      apply (Sorted_StronglySorted ltb Hswo) in HS. inversion HS as [|? ? _ HF]; subst.
      rewrite Forall_forall in HF. specialize (HF y H).
      apply (ltb_leb_trans ltb Hswo v a y E). now apply sorted_rel_leb.
    - intros H. apply IH; [now inversion HS|assumption].
  Qed.

  Lemma ub_mono v1 v2 : ltb v2 v1 = false -> forall l, ub v1 l <= ub v2 l.
  Proof.
    intros H. induction l as [|a l IH]; simpl; [lia|].
    destruct (ltb v1 a) eqn:E1; [lia|].
    assert (E2 : ltb v2 a = false).
    { destruct (ltb v2 a) eqn:E2; [|reflexivity].
      destruct (swo_negtrans _ Hswo _ _ v1 E2) as [C|C]; congruence. }
    rewrite E2. lia.
  Qed.

  Definition cut (seqs : list (list A)) (v : A) : list nat := map (ub v) seqs.

  Lemma nth_cut seqs v i : nth i (cut seqs v) 0 = ub v (nth i seqs []).
  Proof. unfold cut. change 0 with (ub v []) at 1. apply map_nth. Qed.

  Lemma all_le_cut_lens seqs v : all_le (cut seqs v) (lens seqs) = true.
  Proof. induction seqs as [|l seqs IH]; simpl; auto. rewrite IH, andb_true_r. apply Nat.leb_le, ub_le. Qed.

  Lemma all_le_cut seqs v1 v2 : ltb v2 v1 = false -> all_le (cut seqs v1) (cut seqs v2) = true.
  Proof.
    intros H. induction seqs as [|l seqs IH]; simpl; auto. rewrite IH, andb_true_r.
    apply Nat.leb_le. now apply ub_mono.
  Qed.

  Lemma nth_sorted (seqs : list (list A)) i : Forall (fun l => sorted l) seqs -> sorted (nth i seqs []).
  Proof.
    intros H. destruct (le_lt_dec (length seqs) i).
    - rewrite nth_overflow by assumption. constructor.
    - rewrite Forall_forall in H. apply H. now apply nth_In.
  Qed.

  Lemma good_cut seqs v : Forall (fun l => sorted l) seqs -> good seqs (cut seqs v).
  Proof.
    intros HS. split; [apply map_length|]. split; [apply all_le_cut_lens|].
    intros i j x y Hx Hy. rewrite nth_cut in Hx, Hy.
    apply ub_left in Hx. apply ub_right in Hy; [|now apply nth_sorted].
    assert (T : ltb x y = true).
    { apply (leb_ltb_trans ltb Hswo x v y); [|assumption]. unfold leb. now rewrite Hx. }
    split; [now apply (swo_asym ltb Hswo)|auto].
  Qed.

  (** ** boundaries from a non-decreasing list of splitters *)
  Lemma chain_cuts seqs : Forall (fun l => sorted l) seqs ->
    forall vs v0, StronglySorted lebR (v0 :: vs) -> chain seqs (cut seqs v0) (map (cut seqs) vs).
  Proof.
    intros HS. induction vs as [|v vs IH]; intros v0 H; simpl; [exact I|].
    inversion H as [|? ? H1 H2]; subst. inversion H2 as [|? ? Hv _]; subst.
    split; [now apply all_le_cut|]. split; [now apply good_cut|]. now apply IH.
  Qed.

  Lemma chain_cuts_zeros seqs : Forall (fun l => sorted l) seqs ->
    forall vs, StronglySorted lebR vs -> chain seqs (zeros seqs) (map (cut seqs) vs).
  Proof.
    intros HS [|v vs] H; simpl; [exact I|].
    split; [apply all_le_zeros|]. split; [now apply good_cut|]. now apply chain_cuts.
  Qed.

  (** ** the sorted samples *)
  Notation insert := (insert ltb).
  Notation isort := (isort ltb).

  Lemma insert_in x z : forall l, In z (insert x l) -> z = x \/ In z l.
  Proof.
    induction l as [|y l IH]; simpl; [intuition|].
    destruct (ltb x y); simpl; [intuition|]. intros [<-|H]; [auto|]. destruct (IH H); auto.
  Qed.

  Lemma insert_sorted x : forall l, StronglySorted lebR l -> StronglySorted lebR (insert x l).
  Proof.
    induction l as [|y l IH]; intros H; simpl; [repeat constructor|].
    inversion H as [|? ? H1 H2]; subst. destruct (ltb x y) eqn:E.
    - constructor; [assumption|]. constructor; [now apply (swo_asym ltb Hswo)|].
      rewrite Forall_forall in *. intros z Hz. specialize (H2 z Hz).
      apply (swo_asym ltb Hswo). apply (ltb_leb_trans ltb Hswo x y z E). unfold leb. now rewrite H2.
    - constructor; [now apply IH|]. rewrite Forall_forall in *. intros z Hz.
      apply insert_in in Hz as [->|Hz]; [assumption|now apply H2].
  Qed.

  Lemma isort_sorted l : StronglySorted lebR (isort l).
  Proof. induction l as [|x l IH]; simpl; [constructor|]. now apply insert_sorted. Qed.

  Lemma insert_length x l : length (insert x l) = S (length l).
  Proof. induction l as [|y l IH]; simpl; [reflexivity|]. destruct (ltb x y); simpl; lia. Qed.

  Lemma isort_length l : length (isort l) = length l.
  Proof. induction l as [|x l IH]; simpl; [reflexivity|]. now rewrite insert_length, IH. Qed.

  Lemma SS_nth (d : A) : forall l i j, StronglySorted lebR l -> i <= j -> j < length l ->
    ltb (nth j l d) (nth i l d) = false.
  Proof.
    induction l as [|x l IH]; intros i j H Hij Hj; simpl in Hj; [lia|].
    inversion H as [|? ? H1 H2]; subst.
    destruct i as [|i], j as [|j]; simpl; try lia.
    - apply (swo_irrefl _ Hswo).
    - rewrite Forall_forall in H2. apply H2. apply nth_In. lia.
    - apply IH; [assumption|lia|lia].
  Qed.

  Lemma SS_map_seq (f : nat -> A) : forall n a,
    (forall i j, a <= i -> i <= j -> j < a + n -> ltb (f j) (f i) = false) ->
    StronglySorted lebR (map f (seq a n)).
  Proof.
    induction n as [|n IH]; intros a H; simpl; [constructor|].
    constructor.
    - apply IH. intros i j Hi Hij Hj. apply H; lia.
    - rewrite Forall_forall. intros z Hz. apply in_map_iff in Hz as (j & <- & Hj).
      apply in_seq in Hj. apply H; lia.
  Qed.

  (** ** lengths of the sample vector, range and monotonicity of the splitter index *)
  Lemma samples_of_length size tot ns (l : list A) : l <> [] -> length (samples_of size tot ns l) = ns.
  Proof. destruct l; [congruence|]. intros _. unfold samples_of. now rewrite map_length, seq_length. Qed.

  Lemma samples_length (seqs : list (list A)) size tot ns :
    Forall (fun l => l <> []) seqs -> length (samples seqs size tot ns) = length seqs * ns.
  Proof.
    unfold samples. induction seqs as [|l seqs IH]; intros H; simpl; [reflexivity|].
    inversion H; subst. rewrite app_length, samples_of_length, IH by assumption. reflexivity.
  Qed.

  Lemma splitter_index_lt ns k slab nt : 0 < ns * k -> slab < nt -> splitter_index ns k slab nt < k * ns.
  Proof.
    intros Hpos Hs. unfold splitter_index.
    assert (H : ((N.of_nat ns * N.of_nat k * N.of_nat slab) / N.of_nat nt < N.of_nat (k * ns))%N).
    { apply N.div_lt_upper_bound; [lia|].
      rewrite (Nat.mul_comm k ns), Nat2N.inj_mul, (N.mul_comm (N.of_nat nt)).
      apply N.mul_lt_mono_pos_l; lia. }
    lia.
  Qed.

  Lemma splitter_index_mono ns k s1 s2 nt : 0 < nt -> s1 <= s2 ->
    splitter_index ns k s1 nt <= splitter_index ns k s2 nt.
  Proof.
    intros Hnt Hs. unfold splitter_index.
    assert (H : ((N.of_nat ns * N.of_nat k * N.of_nat s1) / N.of_nat nt <=
                 (N.of_nat ns * N.of_nat k * N.of_nat s2) / N.of_nat nt)%N).
    { apply N.div_le_mono; [lia|]. apply N.mul_le_mono_l. lia. }
    lia.
  Qed.

  (** ** the boundaries of the sampling splitting (size = total) *)
  Theorem sampling_bounds_chain (d : A) (seqs : list (list A)) (size nt os : nat) :
    Forall (fun l => sorted l) seqs -> Forall (fun l => l <> []) seqs -> seqs <> [] ->
    size = total seqs -> 1 <= nt -> 1 <= os ->
    exists rest, sampling_bounds ltb d seqs size nt os = zeros seqs :: rest /\
                 chain seqs (zeros seqs) rest /\ good seqs (last rest (zeros seqs)) /\
                 sum (last rest (zeros seqs)) = size /\ length rest = nt.
  Proof.
    intros HS HNE Hk Hsize Hnt Hos. unfold sampling_bounds.
    set (k := length seqs). set (ns := nt * os).
    set (smp := isort (samples seqs size (total seqs) ns)).
    assert (Hkpos : 0 < k) by (unfold k; destruct seqs; [congruence|simpl; lia]).
    assert (Hns : 0 < ns) by (unfold ns; nia).
    assert (Lsmp : length smp = k * ns).
    { unfold smp. rewrite isort_length, samples_length by assumption. reflexivity. }
    set (f := fun slab => nth (splitter_index ns k slab nt) smp d).
    assert (Einner : map (fun slab => map (ub (nth (splitter_index ns k slab nt) smp d)) seqs) (seq 1 (nt - 1)) =
                     map (cut seqs) (map f (seq 1 (nt - 1)))).
    { rewrite map_map. reflexivity. }
    rewrite Einner.
    assert (SSf : StronglySorted lebR (map f (seq 1 (nt - 1)))).
    { apply SS_map_seq. intros i j Hi Hij Hj. unfold f. apply SS_nth.
      - apply isort_sorted.
      - apply splitter_index_mono; lia.
      - rewrite Lsmp. apply splitter_index_lt; [nia|lia]. }
    pose proof (chain_cuts_zeros seqs HS _ SSf) as C.
    set (inner := map (cut seqs) (map f (seq 1 (nt - 1)))) in *.
    destruct (chain_last_ge ltb seqs inner (zeros seqs) (zeros_length seqs) C) as (L1 & L2 & L3).
    exists (inner ++ [lens seqs]). split; [reflexivity|]. split; [|split; [|split]].
    - apply chain_snoc; [exact C| |apply good_lens].
      destruct inner as [|c inner'] eqn:Ei; [apply all_le_zeros|].
      destruct (L3 ltac:(discriminate)) as (_ & G & _). exact G.
    - rewrite last_snoc. apply good_lens.
    - rewrite last_snoc. symmetry. exact Hsize.
    - rewrite app_length. unfold inner. rewrite !map_length, seq_length. simpl. lia.
  Qed.
End Sampling.
