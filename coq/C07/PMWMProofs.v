(** C07 — proofs, part 1: the generic theorem.  Whatever produced the chunk boundaries, if every boundary
    is a *stable split* of the sequences (nothing right of it is smaller than something left of it, ties
    resolved by sequence number) and consecutive boundaries are ordered, then the threads' windows tile
    [sum first, sum last) and the concatenation of their outputs is the stable merge of the slice. *)
From Coq Require Import List Bool Arith ZArith Lia Sorting.Sorted Sorting.Permutation.
From TLXV Require Import Common.Order C07.SMerge C07.PMWM.
Import ListNotations.

Section Generic.
  Context {A : Type}.
  Variable ltb : A -> A -> bool.
  Variable partition : list (list A) -> Z -> list nat.
  Variable seqmerge : bool -> option (list A) -> list (list A) -> nat -> list A * list nat.

  Notation smerge := (smerge ltb).
  Notation sorted := (Sorted (sorted_rel ltb)).
  Notation thread_run := (thread_run seqmerge).
  Notation run_threads := (run_threads seqmerge).

  (** ** lists of offsets *)
  Definition lefts (seqs : list (list A)) (b : list nat) := chunk seqs (zeros seqs) b.
  Definition rights (seqs : list (list A)) (b : list nat) := chunk seqs b (lens seqs).

  Lemma firstn_add (a b : nat) (l : list A) : firstn (a + b) l = firstn a l ++ firstn b (skipn a l).
  Proof.
    revert l. induction a as [|a IH]; intros l; [reflexivity|].
    destruct l as [|x l]; simpl; [now destruct b|]. now rewrite IH.
  Qed.

  Lemma skipn_add (a b : nat) (l : list A) : skipn b (skipn a l) = skipn (a + b) l.
  Proof. revert l. induction a as [|a IH]; intros l; [reflexivity|]. destruct l; simpl; [now destruct b|apply IH]. Qed.

  Lemma slice_app (l : list A) lo mid hi : lo <= mid -> mid <= hi -> slice l lo mid ++ slice l mid hi = slice l lo hi.
  Proof.
    intros H1 H2. unfold slice.
    replace (hi - lo) with ((mid - lo) + (hi - mid)) by lia.
    rewrite firstn_add. f_equal. rewrite skipn_add. do 2 f_equal. lia.
  Qed.

  Lemma in_firstn (x : A) n l : In x (firstn n l) -> In x l.
  Proof. intros H. rewrite <- (firstn_skipn n l). apply in_or_app. now left. Qed.

  Lemma in_skipn (x : A) n l : In x (skipn n l) -> In x l.
  Proof. intros H. rewrite <- (firstn_skipn n l). apply in_or_app. now right. Qed.

  Lemma in_slice (x : A) l lo hi : In x (slice l lo hi) -> In x (firstn hi l) /\ In x (skipn lo l).
  Proof.
    unfold slice. intros H. split; [|eapply in_firstn; eassumption].
    destruct (le_lt_dec lo hi) as [Hle|Hlt].
    - replace hi with (lo + (hi - lo)) at 1 by lia. rewrite firstn_add. apply in_or_app. now right.
    - replace (hi - lo) with 0 in H by lia. destruct H.
  Qed.

  Lemma slice_length (l : list A) lo hi : hi <= length l -> length (slice l lo hi) = hi - lo.
  Proof. intros H. unfold slice. rewrite firstn_length, skipn_length. lia. Qed.

  Lemma slice_full (l : list A) : slice l 0 (length l) = l.
  Proof. unfold slice. rewrite Nat.sub_0_r. simpl. apply firstn_all. Qed.

  Lemma chunk_length (seqs : list (list A)) : forall a b, length a = length seqs -> length b = length seqs ->
    length (chunk seqs a b) = length seqs.
  Proof.
    induction seqs as [|l seqs IH]; intros [|x a] [|y b] Ha Hb; simpl in *; try discriminate; auto.
  Qed.

  Lemma chunk_app (seqs : list (list A)) : forall a b c,
    length a = length seqs -> length b = length seqs -> length c = length seqs ->
    all_le a b = true -> all_le b c = true ->
    zip_app (chunk seqs a b) (chunk seqs b c) = chunk seqs a c.
  Proof.
    induction seqs as [|l seqs IH]; intros [|x a] [|y b] [|z c] Ha Hb Hc H1 H2; simpl in *; try discriminate; auto.
    apply andb_true_iff in H1 as [H1 H1']. apply andb_true_iff in H2 as [H2 H2'].
    apply Nat.leb_le in H1. apply Nat.leb_le in H2.
    rewrite slice_app by assumption. f_equal. apply IH; auto.
  Qed.

  Lemma all_le_refl b : all_le b b = true.
  Proof. induction b; simpl; auto. now rewrite Nat.leb_refl. Qed.

  Lemma all_le_trans a : forall b c, length a = length b -> length b = length c ->
    all_le a b = true -> all_le b c = true -> all_le a c = true.
  Proof.
    induction a as [|x a IH]; intros [|y b] [|z c] L1 L2 H1 H2; simpl in *; try discriminate; auto.
    apply andb_true_iff in H1 as [H1 H1']. apply andb_true_iff in H2 as [H2 H2'].
    apply Nat.leb_le in H1. apply Nat.leb_le in H2.
    apply andb_true_iff. split; [apply Nat.leb_le; lia|]. apply (IH b c); [lia|lia|assumption|assumption].
  Qed.

  Lemma all_le_sum a : forall b, length a = length b -> all_le a b = true -> sum a <= sum b.
  Proof.
    induction a as [|x a IH]; intros [|y b] L H; simpl in *; try discriminate; auto.
    apply andb_true_iff in H as [H H']. apply Nat.leb_le in H. specialize (IH b ltac:(lia) H'). lia.
  Qed.

  Lemma chunk_total (seqs : list (list A)) : forall a b, length a = length seqs -> length b = length seqs ->
    all_le a b = true -> all_le b (lens seqs) = true ->
    length (concat (chunk seqs a b)) = sum b - sum a.
  Proof.
    induction seqs as [|l seqs IH]; intros [|x a] [|y b] Ha Hb H1 H2; simpl in *; try discriminate; auto.
    apply andb_true_iff in H1 as [H1 H1']. apply andb_true_iff in H2 as [H2 H2'].
    apply Nat.leb_le in H1. apply Nat.leb_le in H2.
    rewrite app_length, slice_length by assumption. rewrite IH by auto.
    assert (sum a <= sum b) by (apply all_le_sum; [lia|assumption]). lia.
  Qed.

  Lemma in_concat_chunk y (seqs : list (list A)) : forall a b, In y (concat (chunk seqs a b)) ->
    exists j, In y (slice (nth j seqs []) (nth j a 0) (nth j b 0)).
  Proof.
    induction seqs as [|l seqs IH]; intros [|x a] [|z b] H; simpl in H; try contradiction.
    apply in_app_or in H as [H|H].
    - now exists 0.
    - destruct (IH _ _ H) as [j Hj]. now exists (S j).
  Qed.

  (** ** stable splits *)
  Definition stable_split (seqs : list (list A)) (b : list nat) : Prop :=
    forall i j x y,
      In x (firstn (nth i b 0) (nth i seqs [])) -> In y (skipn (nth j b 0) (nth j seqs [])) ->
      ltb y x = false /\ (j < i -> ltb x y = true).

  Lemma stable_split_tail l (seqs : list (list A)) o b : stable_split (l :: seqs) (o :: b) -> stable_split seqs b.
  Proof. intros H i j x y Hx Hy. destruct (H (S i) (S j) x y Hx Hy) as [H1 H2]. split; [assumption|]. intros; apply H2; lia. Qed.

  Lemma split_ok_chunks (seqs : list (list A)) : forall a b c,
    length a = length seqs -> length b = length seqs -> length c = length seqs ->
    stable_split seqs b -> split_ok ltb (chunk seqs a b) (chunk seqs b c).
  Proof.
    induction seqs as [|l seqs IH]; intros [|x a] [|o b] [|z c] Ha Hb Hc HS; simpl in *; try discriminate; auto.
    split; [|split].
    - intros u v Hu Hv. apply in_concat_chunk in Hv as [j Hj].
      apply in_slice in Hu as [Hu _]. apply in_slice in Hj as [_ Hj].
      exact (proj1 (HS 0 (S j) u v Hu Hj)).
    - intros u v Hu Hv. apply in_concat_chunk in Hu as [i Hi].
      apply in_slice in Hi as [Hi _]. apply in_slice in Hv as [_ Hv].
      apply (proj2 (HS (S i) 0 u v Hi Hv)). lia.
    - apply IH; auto. eapply stable_split_tail; eassumption.
  Qed.

  (** the merge of a slice decomposes at every stable split inside it *)
  Lemma smerge_chunk_split (seqs : list (list A)) a b c :
    length a = length seqs -> length b = length seqs -> length c = length seqs ->
    all_le a b = true -> all_le b c = true -> stable_split seqs b ->
    smerge (chunk seqs a c) = smerge (chunk seqs a b) ++ smerge (chunk seqs b c).
  Proof.
    intros Ha Hb Hc H1 H2 HS. rewrite <- (chunk_app seqs a b c) by assumption.
    apply smerge_split. now apply split_ok_chunks.
  Qed.

  Lemma smerge_chunk_same (seqs : list (list A)) : forall b, smerge (chunk seqs b b) = [].
  Proof.
    induction seqs as [|l seqs IH]; intros [|o b]; simpl; auto.
    unfold slice. rewrite Nat.sub_diag. simpl. rewrite IH. reflexivity.
  Qed.

  Lemma lens_length (seqs : list (list A)) : length (lens seqs) = length seqs.
  Proof. apply map_length. Qed.
  Lemma zeros_length (seqs : list (list A)) : length (zeros seqs) = length seqs.
  Proof. apply map_length. Qed.

  Lemma chunk_whole (seqs : list (list A)) : chunk seqs (zeros seqs) (lens seqs) = seqs.
  Proof. induction seqs as [|l seqs IH]; simpl; auto. now rewrite slice_full, IH. Qed.

  Lemma all_le_zeros (seqs : list (list A)) : forall b, all_le (zeros seqs) b = true.
  Proof. induction seqs; intros [|o b]; simpl; auto. Qed.

  Lemma sum_zeros (seqs : list (list A)) : sum (zeros seqs) = 0.
  Proof. induction seqs; simpl; auto. Qed.

  (** A stable split with sum r cuts the stable merge exactly at r. *)
  Lemma stable_split_prefix (seqs : list (list A)) b :
    length b = length seqs -> all_le b (lens seqs) = true -> stable_split seqs b ->
    firstn (sum b) (smerge seqs) = smerge (lefts seqs b) /\
    skipn (sum b) (smerge seqs) = smerge (rights seqs b).
  Proof.
    intros Hb Hle HS.
    assert (E : smerge seqs = smerge (lefts seqs b) ++ smerge (rights seqs b)).
    { rewrite <- (chunk_whole seqs) at 1. unfold lefts, rights.
      apply smerge_chunk_split; auto using zeros_length, lens_length, all_le_zeros. }
    assert (L : length (smerge (lefts seqs b)) = sum b).
    { rewrite smerge_length. unfold lefts. rewrite chunk_total; auto using zeros_length, all_le_zeros.
      rewrite sum_zeros. lia. }
    rewrite E. split.
    - rewrite <- L. rewrite firstn_app, Nat.sub_diag, firstn_all. simpl. apply app_nil_r.
    - rewrite <- L. rewrite skipn_app, Nat.sub_diag, skipn_all. reflexivity.
  Qed.

  (** ** sortedness of slices *)
  Lemma sorted_skipn n : forall l, sorted l -> sorted (skipn n l).
  Proof.
    induction n as [|n IH]; intros l H; [assumption|].
    destruct l as [|x l]; [constructor|]. simpl. apply IH. now inversion H.
  Qed.

  Lemma sorted_firstn n : forall l, sorted l -> sorted (firstn n l).
  Proof.
    induction n as [|n IH]; intros l H; [constructor|].
    destruct l as [|x l]; [constructor|]. simpl. inversion H as [|? ? H1 H2]; subst.
    constructor; [now apply IH|]. destruct l as [|y l]; [destruct n; constructor|].
    destruct n; simpl; constructor. now inversion H2.
  Qed.

  Lemma sorted_slice l lo hi : sorted l -> sorted (slice l lo hi).
  Proof. intros H. unfold slice. now apply sorted_firstn, sorted_skipn. Qed.

  Lemma sorted_chunk (seqs : list (list A)) : forall a b, Forall (fun l => sorted l) seqs -> Forall (fun l => sorted l) (chunk seqs a b).
  Proof.
    induction seqs as [|l seqs IH]; intros [|x a] [|y b] H; simpl; auto.
    inversion H; subst. constructor; [now apply sorted_slice|now apply IH].
  Qed.

  (** ** the threads *)
  (** chain of boundaries: consecutive ones ordered, each of the right length, each a stable split,
      each within the sequences *)
  Definition good (seqs : list (list A)) (b : list nat) : Prop :=
    length b = length seqs /\ all_le b (lens seqs) = true /\ stable_split seqs b.

  Fixpoint chain (seqs : list (list A)) (b : list nat) (rest : list (list nat)) : Prop :=
    match rest with
    | [] => True
    | b' :: rest' => all_le b b' = true /\ good seqs b' /\ chain seqs b' rest'
    end.

  (** windows tile [from, to) and every thread delivers as many elements as it announces *)
  Fixpoint contiguous (ts : list (@thread_res A)) (from to : nat) : Prop :=
    match ts with
    | [] => from = to
    | t :: r => tpos t = from /\ length (tout t) = tlen t /\ contiguous r (from + tlen t) to
    end.

  (** specification of the stable sequential merge (C05), as far as a full or truncated merge of sorted
      sequences is concerned *)
  Definition seqmerge_stable_spec_at (sent : option (list A)) : Prop :=
    forall cs n, Forall (fun l => sorted l) cs -> n <= length (concat cs) ->
      fst (seqmerge true sent cs n) = firstn n (smerge cs).
  (** the parallel path calls multiway_merge_base<Stable, false>: no sentinels *)
  Definition seqmerge_stable_spec : Prop := seqmerge_stable_spec_at None.

  Lemma last_cons2 {X : Type} (rest : list X) : forall b b', last (b' :: rest) b = last rest b'.
  Proof.
    induction rest as [|c rest IH]; intros b b'; [reflexivity|].
    change (last (b' :: c :: rest) b) with (last (c :: rest) b). now rewrite (IH b c), (IH b' c).
  Qed.

  Lemma chain_last_ge (seqs : list (list A)) : forall rest b, length b = length seqs -> chain seqs b rest ->
    all_le b (last rest b) = true /\ length (last rest b) = length seqs /\
    (rest <> [] -> good seqs (last rest b)).
  Proof.
    induction rest as [|b' rest IH]; intros b Hb H.
    - simpl. split; [apply all_le_refl|]. split; [assumption|]. intros C; now destruct C.
    - destruct H as (H1 & (G1 & G2 & G3) & H3).
      destruct (IH b' G1 H3) as (I1 & I2 & I3).
      assert (E : last (b' :: rest) b = last rest b') by apply last_cons2.
      rewrite E. split; [|split; [assumption|]].
      + eapply all_le_trans; [| |exact H1|exact I1]; congruence.
      + intros _. destruct rest as [|c rest]; [simpl; unfold good; auto|].
        apply I3. discriminate.
  Qed.

  Theorem run_threads_stable (seqs : list (list A)) size :
    Forall (fun l => sorted l) seqs -> seqmerge_stable_spec ->
    forall rest b, good seqs b -> chain seqs b rest -> sum (last rest b) <= size ->
    exists ts, run_threads true seqs size (b :: rest) = Some ts /\
               contiguous ts (sum b) (sum (last rest b)) /\
               output ts = smerge (chunk seqs b (last rest b)) /\
               length ts = length rest.
  Proof.
    intros Hsorted Hspec. induction rest as [|b' rest IH]; intros b G H Hsz.
    - exists []. simpl. rewrite smerge_chunk_same. auto.
    - destruct H as (H1 & G' & H3). pose proof G as (Gl & Gle & GS). pose proof G' as (Gl' & Gle' & GS').
      assert (E : last (b' :: rest) b = last rest b') by apply last_cons2.
      rewrite E in *.
      destruct (chain_last_ge seqs rest b' Gl' H3) as (L1 & L2 & L3).
      destruct (IH b' G' H3 Hsz) as (ts & R & C & O & Len).
      assert (Sbb' : sum b <= sum b') by (apply all_le_sum; [congruence|assumption]).
      assert (Sb'l : sum b' <= sum (last rest b')) by (apply all_le_sum; [congruence|assumption]).
      assert (Lle : all_le (last rest b') (lens seqs) = true).
      { destruct rest as [|c rest]; [exact Gle'|]. apply L3. discriminate. }
      pose (n := Nat.min (sum b' - sum b) (size - sum b)).
      assert (Hn : n = sum b' - sum b) by (unfold n; lia).
      assert (TR : thread_run true seqs size b b' =
                   Some {| tpos := sum b; tlen := n; tout := fst (seqmerge true None (chunk seqs b b') n) |}).
      { unfold PMWM.thread_run. rewrite H1. simpl.
        assert (size <? sum b = false) as -> by (apply Nat.ltb_ge; lia). reflexivity. }
      assert (TO : fst (seqmerge true None (chunk seqs b b') n) = smerge (chunk seqs b b')).
      { rewrite Hspec.
        - rewrite <- (firstn_all (smerge (chunk seqs b b'))) at 2. f_equal.
          rewrite smerge_length, chunk_total; auto.
        - now apply sorted_chunk.
        - rewrite chunk_total; auto. lia. }
      eexists. split; [|split; [|split]].
      + change (run_threads true seqs size (b :: b' :: rest)) with
          (match thread_run true seqs size b b', run_threads true seqs size (b' :: rest) with
           | Some t, Some ts => Some (t :: ts) | _, _ => None end).
        rewrite TR, R. reflexivity.
      + simpl. split; [reflexivity|]. split.
        * rewrite TO, smerge_length, chunk_total; auto.
        * replace (sum b + n) with (sum b') by lia. exact C.
      + unfold output in *. simpl. rewrite O, TO. symmetry.
        apply smerge_chunk_split; auto.
      + simpl. now rewrite Len.
  Qed.

  (** ** unstable variant (partial): the per-thread merges are only known to be permutations of their
      chunks (the unstable sequential merge, C05, taken as a full merge of sorted sequences). *)
  Definition seqmerge_unstable_full_spec : Prop :=
    forall cs, Forall (fun l => sorted l) cs ->
      Permutation (fst (seqmerge false None cs (length (concat cs)))) (concat cs).

  Theorem run_threads_unstable_partial (seqs : list (list A)) size :
    Forall (fun l => sorted l) seqs -> seqmerge_unstable_full_spec ->
    forall rest b, good seqs b -> chain seqs b rest -> sum (last rest b) <= size ->
    exists ts, run_threads false seqs size (b :: rest) = Some ts /\
               contiguous ts (sum b) (sum (last rest b)) /\
               Permutation (output ts) (smerge (chunk seqs b (last rest b))) /\
               length ts = length rest.
  Proof.
    intros Hsorted Hspec. induction rest as [|b' rest IH]; intros b G H Hsz.
    - exists []. simpl. rewrite smerge_chunk_same. auto.
    - destruct H as (H1 & G' & H3). pose proof G as (Gl & Gle & GS). pose proof G' as (Gl' & Gle' & GS').
      assert (E : last (b' :: rest) b = last rest b') by apply last_cons2.
      rewrite E in *.
      destruct (chain_last_ge seqs rest b' Gl' H3) as (L1 & L2 & L3).
      destruct (IH b' G' H3 Hsz) as (ts & R & C & O & Len).
      assert (Sbb' : sum b <= sum b') by (apply all_le_sum; [congruence|assumption]).
      assert (Sb'l : sum b' <= sum (last rest b')) by (apply all_le_sum; [congruence|assumption]).
      assert (Lle : all_le (last rest b') (lens seqs) = true).
      { destruct rest as [|c rest]; [exact Gle'|]. apply L3. discriminate. }
      pose (n := Nat.min (sum b' - sum b) (size - sum b)).
      assert (Hn : n = length (concat (chunk seqs b b'))) by (rewrite chunk_total; auto; unfold n; lia).
      assert (TR : thread_run false seqs size b b' =
                   Some {| tpos := sum b; tlen := n; tout := fst (seqmerge false None (chunk seqs b b') n) |}).
      { unfold PMWM.thread_run. rewrite H1. simpl.
        assert (size <? sum b = false) as -> by (apply Nat.ltb_ge; lia). reflexivity. }
      assert (TO : Permutation (fst (seqmerge false None (chunk seqs b b') n)) (concat (chunk seqs b b'))).
      { rewrite Hn. apply Hspec. now apply sorted_chunk. }
      eexists. split; [|split; [|split]].
      + change (run_threads false seqs size (b :: b' :: rest)) with
          (match thread_run false seqs size b b', run_threads false seqs size (b' :: rest) with
           | Some t, Some ts => Some (t :: ts) | _, _ => None end).
        rewrite TR, R. reflexivity.
      + simpl. split; [reflexivity|]. split.
        * rewrite (Permutation_length TO). symmetry. exact Hn.
        * replace (sum b + n) with (sum b') by (rewrite Hn, chunk_total; auto; lia). exact C.
      + unfold output in *. simpl.
        rewrite (smerge_chunk_split seqs b b' (last rest b')); auto.
        apply Permutation_app; [|exact O].
        rewrite TO. symmetry. apply smerge_perm.
      + simpl. now rewrite Len.
  Qed.

  (** ** unstable variant: sortedness of the concatenated output *)
  Definition seqmerge_unstable_sorted_spec : Prop :=
    forall cs, Forall (fun l => sorted l) cs ->
      Permutation (fst (seqmerge false None cs (length (concat cs)))) (concat cs) /\
      sorted (fst (seqmerge false None cs (length (concat cs)))).

  Lemma sorted_app (l1 : list A) : forall l2, sorted l1 -> sorted l2 ->
    (forall x y, In x l1 -> In y l2 -> ltb y x = false) -> sorted (l1 ++ l2).
  Proof.
    induction l1 as [|a l1 IH]; intros l2 H1 H2 HX; [exact H2|].
    simpl. inversion H1 as [|? ? S1 Hd]; subst. constructor.
    - apply IH; auto. intros x y Hx Hy. apply HX; [now right|assumption].
    - destruct l1 as [|c l1]; simpl.
      + destruct l2 as [|y l2]; constructor. unfold sorted_rel. apply HX; now left.
      + constructor. now inversion Hd.
  Qed.

  Theorem run_threads_unstable_sorted (seqs : list (list A)) size :
    Forall (fun l => sorted l) seqs -> seqmerge_unstable_sorted_spec ->
    forall rest b ts, good seqs b -> chain seqs b rest -> sum (last rest b) <= size ->
    run_threads false seqs size (b :: rest) = Some ts -> sorted (output ts).
  Proof.
    intros Hsorted Hspec.
    assert (Hfull : seqmerge_unstable_full_spec) by (intros cs Hcs; apply (Hspec cs Hcs)).
    induction rest as [|b' rest IH]; intros b ts G H Hsz R.
    - simpl in R. injection R as <-. constructor.
    - destruct H as (H1 & G' & H3). pose proof G as (Gl & Gle & GS). pose proof G' as (Gl' & Gle' & GS').
      assert (E : last (b' :: rest) b = last rest b') by apply last_cons2.
      rewrite E in *.
      destruct (chain_last_ge seqs rest b' Gl' H3) as (L1 & L2 & L3).
      destruct (run_threads_unstable_partial seqs size Hsorted Hfull rest b' G' H3 Hsz) as (ts' & R' & C' & O' & _).
      assert (Sbb' : sum b <= sum b') by (apply all_le_sum; [congruence|assumption]).
      assert (Sb'l : sum b' <= sum (last rest b')) by (apply all_le_sum; [congruence|assumption]).
      pose (n := Nat.min (sum b' - sum b) (size - sum b)).
      assert (Hn : n = length (concat (chunk seqs b b'))) by (rewrite chunk_total; auto; unfold n; lia).
      assert (TR : thread_run false seqs size b b' =
                   Some {| tpos := sum b; tlen := n; tout := fst (seqmerge false None (chunk seqs b b') n) |}).
      { unfold PMWM.thread_run. rewrite H1. simpl.
        assert (size <? sum b = false) as -> by (apply Nat.ltb_ge; lia). reflexivity. }
      change (run_threads false seqs size (b :: b' :: rest)) with
          (match thread_run false seqs size b b', run_threads false seqs size (b' :: rest) with
           | Some t, Some ts => Some (t :: ts) | _, _ => None end) in R.
      rewrite TR, R' in R. injection R as <-.
      destruct (Hspec (chunk seqs b b') (sorted_chunk seqs b b' Hsorted)) as [TP TS].
      rewrite <- Hn in TP, TS.
      unfold output. simpl. apply sorted_app.
      + exact TS.
      + apply (IH b' ts' G' H3 Hsz R').
      + intros x y Hx Hy.
        apply (Permutation_in _ TP) in Hx. apply in_concat_chunk in Hx as [i Hi]. apply in_slice in Hi as [Hi _].
        apply (Permutation_in _ O') in Hy. apply smerge_in in Hy. apply in_concat_chunk in Hy as [j Hj].
        apply in_slice in Hj as [_ Hj].
        exact (proj1 (GS' i j x y Hi Hj)).
  Qed.

  (** ** exactly one writer per position *)
  Lemma writers_outside ts : forall from to pos, contiguous ts from to -> (pos < from \/ to <= pos) ->
    from <= to /\ writers ts pos = [].
  Proof.
    induction ts as [|t ts IH]; intros from to pos H Hp; simpl in *.
    - subst. split; [lia|reflexivity].
    - destruct H as (H1 & H2 & H3).
      assert (Hp' : pos < from + tlen t \/ to <= pos) by lia.
      destruct (IH _ _ pos H3 Hp') as [I1 I2].
      split; [lia|]. unfold writes at 1. rewrite H1.
      destruct Hp as [Hp|Hp].
      + assert (from <=? pos = false) as -> by (apply Nat.leb_gt; lia). simpl. exact I2.
      + assert (pos <? from + tlen t = false) as -> by (apply Nat.ltb_ge; lia).
        rewrite andb_false_r. exact I2.
  Qed.

  Theorem one_writer ts : forall from to pos, contiguous ts from to -> from <= pos < to ->
    length (writers ts pos) = 1.
  Proof.
    induction ts as [|t ts IH]; intros from to pos H Hp; simpl in *.
    - lia.
    - destruct H as (H1 & H2 & H3). unfold writes at 1. rewrite H1.
      destruct (Nat.ltb_spec pos (from + tlen t)) as [Hlt|Hge].
      + assert (from <=? pos = true) as -> by (apply Nat.leb_le; lia). simpl.
        destruct (writers_outside ts _ _ pos H3 (or_introl Hlt)) as [_ ->]. reflexivity.
      + rewrite andb_false_r. apply (IH _ _ pos H3). lia.
  Qed.

  Lemma contiguous_output_length ts : forall from to, contiguous ts from to ->
    from + length (output ts) = to.
  Proof.
    induction ts as [|t ts IH]; intros from to H; simpl in *.
    - unfold output. simpl. lia.
    - destruct H as (H1 & H2 & H3). unfold output in *. simpl. rewrite app_length, H2.
      specialize (IH _ _ H3). lia.
  Qed.
End Generic.
