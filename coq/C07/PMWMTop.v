(** C07 — proofs, part 4: the entry points.  Removal of empty sequences, num_threads = min(p, total),
    the cursor write-back, the sequential fall-back. *)
From Coq Require Import List Bool Arith ZArith Lia Sorting.Sorted Sorting.Permutation.
From TLXV Require Import Common.Order C07.SMerge C07.PMWM C07.PMWMProofs C07.PMWMExact C07.PMWMSampling C07.SortedPerm.
Import ListNotations.

Section Top.
  Context {A : Type}.
  Variable ltb : A -> A -> bool.
  Hypothesis Hswo : SWO ltb.
  Variable partition : list (list A) -> Z -> list nat.
  Variable seqmerge : bool -> option (list A) -> list (list A) -> nat -> list A * list nat.

  Notation smerge := (smerge ltb).
  Notation sorted := (Sorted (sorted_rel ltb)).
  Notation pmwm_base := (pmwm_base ltb partition seqmerge).
  Notation pmwm := (pmwm ltb partition seqmerge).
  Notation good := (good ltb).

  Lemma smerge_filter (seqs : list (list A)) : smerge (filter (@nonempty A) seqs) = smerge seqs.
  Proof.
    unfold SMerge.smerge.
    induction seqs as [|l seqs IH]; [reflexivity|]. destruct l as [|a l]; cbn [filter nonempty fold_right].
    - rewrite IH. now rewrite merge2_nil_l.
    - now rewrite IH.
  Qed.

  Lemma total_filter (seqs : list (list A)) : total (filter (@nonempty A) seqs) = total seqs.
  Proof.
    unfold total, lens. induction seqs as [|l seqs IH]; [reflexivity|]. destruct l; simpl in *; lia.
  Qed.

  Lemma filter_nonempty_hd (seqs : list (list A)) r : filter (@nonempty A) seqs = [] :: r -> False.
  Proof.
    intros E. assert (H : In [] (filter (@nonempty A) seqs)) by (rewrite E; now left).
    apply filter_In in H as [_ H]. discriminate.
  Qed.

  Lemma sorted_filter (seqs : list (list A)) :
    Forall (fun l => sorted l) seqs -> Forall (fun l => sorted l) (filter (@nonempty A) seqs).
  Proof. rewrite !Forall_forall. intros H l Hl. apply H. now apply filter_In in Hl as [Hl _]. Qed.

  (** the cursor write-back: what the cursors of the original sequences pass is what the boundary of the
      non-empty sequences passes *)
  Lemma scatter_ok (seqs : list (list A)) : forall c,
    length c = length (filter (@nonempty A) seqs) ->
    all_le c (lens (filter (@nonempty A) seqs)) = true ->
    length (scatter seqs c) = length seqs /\ sum (scatter seqs c) = sum c /\
    all_le (scatter seqs c) (lens seqs) = true /\
    smerge (lefts seqs (scatter seqs c)) = smerge (lefts (filter (@nonempty A) seqs) c).
  Proof.
    unfold lefts, SMerge.smerge. induction seqs as [|l seqs IH]; intros c Hc Hle.
    - destruct c; [|discriminate]. simpl. auto.
    - destruct l as [|a l].
      + destruct (IH c Hc Hle) as (I1 & I2 & I3 & I4).
        cbn [scatter zeros map chunk filter nonempty lens length sum fold_right all_le Nat.leb andb] in *.
        repeat split; auto.
        change (slice [] 0 0) with (@nil A). rewrite merge2_nil_l. exact I4.
      + destruct c as [|x c]; [discriminate|].
        cbn [filter nonempty length lens map all_le] in Hc, Hle.
        apply andb_true_iff in Hle as [Hx Hle].
        destruct (IH c ltac:(lia) Hle) as (I1 & I2 & I3 & I4).
        cbn [scatter zeros map chunk filter nonempty lens length sum fold_right all_le] in *.
        repeat split; auto.
        * now rewrite Hx.
        * f_equal. exact I4.
  Qed.

  Lemma pmwm_base_nonempty stable sampling (seqs : list (list A)) size p os d l' ne' :
    filter (@nonempty A) seqs = (d :: l') :: ne' ->
    pmwm_base stable sampling seqs size p os =
    if p =? 0 then None else
      let ne := filter (@nonempty A) seqs in
      let nt := Nat.min p (total ne) in
      let bounds := if use_sampling true sampling size (total ne)
                    then sampling_bounds ltb d ne size nt os else exact_bounds partition ne size nt in
      match run_threads seqmerge stable ne size bounds with
      | Some ts => Some {| p_threads := ts; p_cursors := scatter seqs (last bounds []); p_ret := size |}
      | None => None
      end.
  Proof. intros E. unfold PMWM.pmwm_base, pmwm_base_gen. rewrite E. reflexivity. Qed.

  Lemma pmwm_base_empty stable sampling (seqs : list (list A)) size p os :
    filter (@nonempty A) seqs = [] ->
    pmwm_base stable sampling seqs size p os = Some {| p_threads := []; p_cursors := zeros seqs; p_ret := 0 |}.
  Proof. intros E. unfold PMWM.pmwm_base, pmwm_base_gen. rewrite E. reflexivity. Qed.

  Lemma filter_nonempty_cases (seqs : list (list A)) :
    filter (@nonempty A) seqs = [] \/ exists d l' ne', filter (@nonempty A) seqs = (d :: l') :: ne'.
  Proof.
    destruct (filter (@nonempty A) seqs) as [|[|d l'] ne'] eqn:E; [now left| |right; now exists d, l', ne'].
    exfalso. eapply filter_nonempty_hd. exact E.
  Qed.

  (** ** The parallel path, stable variant, for any splitter whose boundaries form a chain of stable splits
      ending at sum [size]. *)
  Definition bounds_of (sampling : bool) (d : A) ne size nt os : list (list nat) :=
    if use_sampling true sampling size (total ne)
    then sampling_bounds ltb d ne size nt os else exact_bounds partition ne size nt.

  Definition bounds_ok (sampling : bool) (seqs : list (list A)) (size p os : nat) : Prop :=
    let ne := filter (@nonempty A) seqs in
    forall d, ne <> [] -> exists rest,
      bounds_of sampling d ne size (Nat.min p (total ne)) os = zeros ne :: rest /\
      chain ltb ne (zeros ne) rest /\ good ne (last rest (zeros ne)) /\
      sum (last rest (zeros ne)) = size /\ length rest = Nat.min p (total ne).

  Definition parallel_result (seqs : list (list A)) (size p : nat) (r : option (@pres A)) : Prop :=
    exists ts cur,
      r = Some {| p_threads := ts; p_cursors := cur; p_ret := size |} /\
      contiguous ts 0 size /\
      output ts = firstn size (smerge seqs) /\
      length cur = length seqs /\ all_le cur (lens seqs) = true /\ sum cur = size /\
      output ts = smerge (lefts seqs cur) /\
      length ts = Nat.min p (total seqs).

  Lemma pmwm_base_stable_gen sampling (seqs : list (list A)) (size p os : nat) :
    Forall (fun l => sorted l) seqs -> size <= total seqs -> 1 <= p ->
    seqmerge_stable_spec ltb seqmerge ->
    bounds_ok sampling seqs size p os ->
    parallel_result seqs size p (pmwm_base true sampling seqs size p os).
  Proof.
    intros Hsorted Hsize Hp Hseq Hb. unfold parallel_result.
    pose proof (total_filter seqs) as Htot. pose proof (smerge_filter seqs) as Hsm.
    pose proof (sorted_filter seqs Hsorted) as Hsne.
    destruct (filter_nonempty_cases seqs) as [Ene|(d & l' & ne' & Ene)].
    - (* everything empty *)
      rewrite (pmwm_base_empty _ _ _ _ _ _ Ene).
      assert (size = 0) by (rewrite Ene in Htot; unfold total in *; simpl in *; lia). subst size.
      exists [], (zeros seqs). split; [reflexivity|]. simpl.
      repeat split; auto using zeros_length, all_le_zeros, sum_zeros.
      + unfold lefts. now rewrite smerge_chunk_same.
      + rewrite <- Htot, Ene. unfold total. simpl. lia.
    - rewrite (pmwm_base_nonempty _ _ _ _ _ _ _ _ _ Ene). cbv zeta.
      unfold bounds_ok in Hb. cbv zeta in Hb.
      set (ne := filter (@nonempty A) seqs) in *.
      assert (Hp0 : p =? 0 = false) by (apply Nat.eqb_neq; lia). rewrite Hp0.
      set (nt := Nat.min p (total ne)) in *.
      destruct (Hb d ltac:(rewrite Ene; discriminate)) as (rest & EB & C & GL & SL & LR). unfold bounds_of in EB.
      rewrite EB.
      destruct (run_threads_stable ltb seqmerge ne size Hsne Hseq rest (zeros ne)
                  (good_zeros ltb ne) C ltac:(lia)) as (ts & R & Cont & Out & Len).
      rewrite R. rewrite last_cons2.
      set (lastb := last rest (zeros ne)) in *.
      destruct GL as (G1 & G2 & G3).
      destruct (scatter_ok seqs lastb G1 G2) as (S1 & S2 & S3 & S4).
      destruct (stable_split_prefix ltb ne lastb G1 G2 G3) as [P1 _].
      exists ts, (scatter seqs lastb). split; [reflexivity|].
      rewrite sum_zeros, SL in Cont.
      assert (Eout : output ts = firstn size (smerge seqs)).
      { rewrite Out. fold (lefts ne lastb). rewrite <- P1, SL, Hsm. reflexivity. }
      repeat split; auto.
      + lia.
      + rewrite S4. rewrite Out. reflexivity.
      + rewrite Len, LR. unfold nt. now rewrite Htot.
  Qed.

  Lemma total_pos_nonempty (seqs : list (list A)) d l' ne' :
    filter (@nonempty A) seqs = (d :: l') :: ne' -> 1 <= total (filter (@nonempty A) seqs).
  Proof. intros ->. unfold total. simpl. lia. Qed.

  (** Both splitters deliver a chain of stable splits ending at sum [size]: MWMSA_EXACT always,
      MWMSA_SAMPLING by the sampling splitter when size = total and by the exact splitter otherwise. *)
  Lemma bounds_ok_all sampling (seqs : list (list A)) (size p os : nat) :
    Forall (fun l => sorted l) seqs -> size <= total seqs -> 1 <= p -> (sampling = true -> 1 <= os) ->
    partition_spec ltb partition (filter (@nonempty A) seqs) size ->
    bounds_ok sampling seqs size p os.
  Proof.
    intros Hsorted Hsize Hp Hos Hpart. unfold bounds_ok. cbv zeta. intros d Hnn.
    destruct (filter_nonempty_cases seqs) as [Ene|(d' & l' & ne' & Ene)]; [congruence|].
    pose proof (total_pos_nonempty _ _ _ _ Ene) as Htp.
    unfold bounds_of, use_sampling.
    destruct (sampling && (size =? total (filter (@nonempty A) seqs))) eqn:Eu.
    - apply andb_true_iff in Eu as [Es Et]. apply Nat.eqb_eq in Et.
      apply (sampling_bounds_chain ltb Hswo).
      + now apply sorted_filter.
      + rewrite Forall_forall. intros l Hl. apply filter_In in Hl as [_ Hl]. now destruct l.
      + rewrite Ene. discriminate.
      + exact Et.
      + lia.
      + now apply Hos.
    - apply exact_bounds_chain; auto.
      + now rewrite total_filter.
      + lia.
  Qed.

  (** Exact splitting: every size <= total, every p >= 1. *)
  Theorem pmwm_base_exact_stable (seqs : list (list A)) (size p os : nat) :
    Forall (fun l => sorted l) seqs -> size <= total seqs -> 1 <= p ->
    seqmerge_stable_spec ltb seqmerge ->
    partition_spec ltb partition (filter (@nonempty A) seqs) size ->
    parallel_result seqs size p (pmwm_base true false seqs size p os).
  Proof.
    intros Hsorted Hsize Hp Hseq Hpart. apply pmwm_base_stable_gen; auto.
    apply bounds_ok_all; auto. discriminate.
  Qed.

  (** MWMSA_SAMPLING: every size <= total (sampling splitter when size = total, exact splitter for a
      proper prefix), every p >= 1, every oversampling factor >= 1. *)
  Theorem pmwm_base_sampling_stable (seqs : list (list A)) (size p os : nat) :
    Forall (fun l => sorted l) seqs -> size <= total seqs -> 1 <= p -> 1 <= os ->
    seqmerge_stable_spec ltb seqmerge ->
    partition_spec ltb partition (filter (@nonempty A) seqs) size ->
    parallel_result seqs size p (pmwm_base true true seqs size p os).
  Proof.
    intros Hsorted Hsize Hp Hos Hseq Hpart. apply pmwm_base_stable_gen; auto.
    apply bounds_ok_all; auto.
  Qed.

  (** The dispatch itself: a proper prefix under MWMSA_SAMPLING runs exactly the MWMSA_EXACT code. *)
  Lemma pmwm_base_sampling_prefix stable (seqs : list (list A)) (size p os : nat) :
    size <> total seqs ->
    pmwm_base stable true seqs size p os = pmwm_base stable false seqs size p os.
  Proof.
    intros H. unfold PMWM.pmwm_base, pmwm_base_gen, use_sampling. rewrite total_filter.
    assert (size =? total seqs = false) as -> by now apply Nat.eqb_neq. reflexivity.
  Qed.

  (** ** Unstable variants (partial).  Full statement wanted:
        output ts is pointwise equivalent to firstn size (smerge seqs)  (same sequence of keys)
      Proved: everything except sortedness of the concatenated output, i.e. the output is a permutation of
      firstn size (smerge seqs) and of exactly the prefixes the cursors passed, the windows tile [0,size),
      the cursors are the stable split of sum size.  Sortedness: pmwm_base_unstable_sorted below (each thread's output is
      sorted by C05 and the chunks are ordered by the stable splits; not yet assembled). *)
  Definition parallel_result_unstable (seqs : list (list A)) (size p : nat) (r : option (@pres A)) : Prop :=
    exists ts cur,
      r = Some {| p_threads := ts; p_cursors := cur; p_ret := size |} /\
      contiguous ts 0 size /\
      Permutation (output ts) (firstn size (smerge seqs)) /\
      length cur = length seqs /\ all_le cur (lens seqs) = true /\ sum cur = size /\
      Permutation (output ts) (concat (lefts seqs cur)) /\
      length ts = Nat.min p (total seqs).

  Theorem pmwm_base_unstable_partial sampling (seqs : list (list A)) (size p os : nat) :
    Forall (fun l => sorted l) seqs -> size <= total seqs -> 1 <= p ->
    seqmerge_unstable_full_spec ltb seqmerge ->
    bounds_ok sampling seqs size p os ->
    parallel_result_unstable seqs size p (pmwm_base false sampling seqs size p os).
  Proof.
    intros Hsorted Hsize Hp Hseq Hb. unfold parallel_result_unstable.
    pose proof (total_filter seqs) as Htot. pose proof (smerge_filter seqs) as Hsm.
    pose proof (sorted_filter seqs Hsorted) as Hsne.
    destruct (filter_nonempty_cases seqs) as [Ene|(d & l' & ne' & Ene)].
    - rewrite (pmwm_base_empty _ _ _ _ _ _ Ene).
      assert (size = 0) by (rewrite Ene in Htot; unfold total in *; simpl in *; lia). subst size.
      exists [], (zeros seqs). split; [reflexivity|]. simpl.
      repeat split; auto using zeros_length, all_le_zeros, sum_zeros.
      + unfold lefts. rewrite <- (smerge_perm ltb). now rewrite smerge_chunk_same.
      + rewrite <- Htot, Ene. unfold total. simpl. lia.
    - rewrite (pmwm_base_nonempty _ _ _ _ _ _ _ _ _ Ene). cbv zeta.
      unfold bounds_ok in Hb. cbv zeta in Hb.
      set (ne := filter (@nonempty A) seqs) in *.
      assert (Hp0 : p =? 0 = false) by (apply Nat.eqb_neq; lia). rewrite Hp0.
      set (nt := Nat.min p (total ne)) in *.
      destruct (Hb d ltac:(rewrite Ene; discriminate)) as (rest & EB & C & GL & SL & LR). unfold bounds_of in EB.
      rewrite EB.
      destruct (run_threads_unstable_partial ltb seqmerge ne size Hsne Hseq rest (zeros ne)
                  (good_zeros ltb ne) C ltac:(lia)) as (ts & R & Cont & Out & Len).
      rewrite R. rewrite last_cons2.
      set (lastb := last rest (zeros ne)) in *.
      destruct GL as (G1 & G2 & G3).
      destruct (scatter_ok seqs lastb G1 G2) as (S1 & S2 & S3 & S4).
      destruct (stable_split_prefix ltb ne lastb G1 G2 G3) as [P1 _].
      exists ts, (scatter seqs lastb). split; [reflexivity|].
      rewrite sum_zeros, SL in Cont.
      assert (Eout : Permutation (output ts) (firstn size (smerge seqs))).
      { rewrite Out. fold (lefts ne lastb). rewrite <- P1, SL, Hsm. reflexivity. }
      repeat split; auto.
      + lia.
      + rewrite <- (smerge_perm ltb), S4. exact Out.
      + rewrite Len, LR. unfold nt. now rewrite Htot.
  Qed.

  (** ... and the concatenated output of the unstable variant is sorted (given that each sequential
      unstable merge delivers a sorted permutation of its chunk).  Together with the permutation statement
      this pins the sequence of keys: the sorted arrangement of the first [size] elements of the stable merge.
      (The last step to "pointwise equivalent to firstn size (smerge seqs)" -- two sorted permutations of one
      multiset are pointwise equivalent -- is not formalised.) *)
  Theorem pmwm_base_unstable_sorted sampling (seqs : list (list A)) (size p os : nat) :
    Forall (fun l => sorted l) seqs -> size <= total seqs -> 1 <= p ->
    seqmerge_unstable_sorted_spec ltb seqmerge ->
    bounds_ok sampling seqs size p os ->
    forall r, pmwm_base false sampling seqs size p os = Some r -> sorted (output (p_threads r)).
  Proof.
    intros Hsorted Hsize Hp Hseq Hb r.
    pose proof (sorted_filter seqs Hsorted) as Hsne.
    destruct (filter_nonempty_cases seqs) as [Ene|(d & l' & ne' & Ene)].
    - rewrite (pmwm_base_empty _ _ _ _ _ _ Ene). intros E. injection E as <-. constructor.
    - rewrite (pmwm_base_nonempty _ _ _ _ _ _ _ _ _ Ene). cbv zeta.
      unfold bounds_ok in Hb. cbv zeta in Hb.
      set (ne := filter (@nonempty A) seqs) in *.
      assert (Hp0 : p =? 0 = false) by (apply Nat.eqb_neq; lia). rewrite Hp0.
      destruct (Hb d ltac:(rewrite Ene; discriminate)) as (rest & EB & C & GL & SL & LR). unfold bounds_of in EB.
      rewrite EB.
      destruct (run_threads seqmerge false ne size (zeros ne :: rest)) as [ts|] eqn:R; [|discriminate].
      intros E. injection E as <-. cbn [p_threads].
      apply (run_threads_unstable_sorted ltb seqmerge ne size Hsne Hseq rest (zeros ne) ts
               (good_zeros ltb ne) C ltac:(lia) R).
  Qed.

  (** ** Unstable variants, complete.  What the property fixes for an unstable merge is the sequence of element
      VALUES up to the comparator's equivalence (which of several equivalent elements comes first is left open):
      the output is, position by position, equivalent to the first [size] elements of the stable merge -- the
      output of the sequential merge -- because both are sorted permutations of the same multiset.  Together
      with the windows, the cursors and the thread count. *)
  Definition parallel_result_unstable_full (seqs : list (list A)) (size p : nat) (r : option (@pres A)) : Prop :=
    exists ts cur,
      r = Some {| p_threads := ts; p_cursors := cur; p_ret := size |} /\
      contiguous ts 0 size /\
      Forall2 (fun x y => eqv ltb x y = true) (output ts) (firstn size (smerge seqs)) /\
      sorted (output ts) /\
      Permutation (output ts) (firstn size (smerge seqs)) /\
      length cur = length seqs /\ all_le cur (lens seqs) = true /\ sum cur = size /\
      Permutation (output ts) (concat (lefts seqs cur)) /\
      length ts = Nat.min p (total seqs).

  Theorem pmwm_base_unstable sampling (seqs : list (list A)) (size p os : nat) :
    Forall (fun l => sorted l) seqs -> size <= total seqs -> 1 <= p ->
    seqmerge_unstable_sorted_spec ltb seqmerge ->
    bounds_ok sampling seqs size p os ->
    parallel_result_unstable_full seqs size p (pmwm_base false sampling seqs size p os).
  Proof.
    intros Hsorted Hsize Hp Hseq Hb.
    assert (Hfull : seqmerge_unstable_full_spec ltb seqmerge) by (intros cs Hcs; apply (Hseq cs Hcs)).
    destruct (pmwm_base_unstable_partial sampling seqs size p os Hsorted Hsize Hp Hfull Hb)
      as (ts & cur & E & C & P & L1 & L2 & L3 & P2 & L4).
    pose proof (pmwm_base_unstable_sorted sampling seqs size p os Hsorted Hsize Hp Hseq Hb _ E) as S.
    cbn [p_threads] in S.
    exists ts, cur. repeat split; auto.
    apply (sorted_perm_eqv ltb Hswo); auto.
    apply sorted_firstn. now apply (smerge_sorted ltb Hswo).
  Qed.

  (** ** The front ends *)
  Lemma pmwm_no_sequences sw stable sentinels sampling size p os :
    pmwm sw stable sentinels sampling [] size p os = Some {| p_threads := []; p_cursors := []; p_ret := 0 |}.
  Proof. reflexivity. Qed.

  Lemma pmwm_parallel sw stable sentinels sampling (seqs : list (list A)) size p os :
    goes_parallel sw (length seqs) size p = true ->
    pmwm sw stable sentinels sampling seqs size p os = pmwm_base stable sampling seqs size p os.
  Proof. intros H. unfold PMWM.pmwm. destruct seqs; [reflexivity|]. now rewrite H. Qed.

  (** the fall-back is one call of the sequential merge (with the entry point's Sentinels flag and the
      caller's sentinel elements); [Hcall] is what C05 proves of that call *)
  Theorem pmwm_fallback_stable sw sentinels sampling (seqs : list (list A)) size p os :
    seqs <> [] -> goes_parallel sw (length seqs) size p = false ->
    size <= total seqs ->
    fst (seqmerge true sentinels seqs size) = firstn size (smerge seqs) ->
    exists ts cur, pmwm sw true sentinels sampling seqs size p os =
                   Some {| p_threads := ts; p_cursors := cur; p_ret := size |} /\
                   contiguous ts 0 size /\ output ts = firstn size (smerge seqs) /\ length ts = 1.
  Proof.
    intros Hne Hg Hsize E. unfold PMWM.pmwm. destruct seqs as [|l0 seqs0]; [congruence|].
    rewrite Hg. set (seqs := l0 :: seqs0) in *.
    assert (Hlen : length (concat seqs) = total seqs).
    { clear. unfold total, lens. induction seqs as [|l seqs IH]; simpl; [reflexivity|]. rewrite app_length. lia. }
    assert (L : length (fst (seqmerge true sentinels seqs size)) = size).
    { rewrite E, firstn_length, smerge_length. lia. }
    eexists _, _. split; [rewrite L; reflexivity|]. simpl. repeat split; auto.
    unfold output. simpl. now rewrite app_nil_r.
  Qed.
End Top.
