(** C07 — a sorted list is determined, up to the comparator's equivalence, by its multiset:
    two sorted permutations of one multiset are pointwise equivalent; the stable merge of sorted
    sequences is sorted. *)
From Coq Require Import List Bool Arith Lia Sorting.Sorted Sorting.Permutation.
From TLXV Require Import Common.Order C07.SMerge.
Import ListNotations.

Section SP.
  Context {A : Type}.
  Variable ltb : A -> A -> bool.
  Hypothesis Hswo : SWO ltb.

  Notation sorted := (Sorted (sorted_rel ltb)).
  Notation eqvR := (fun x y : A => eqv ltb x y = true).

  (** ** merge2 / smerge of sorted lists are sorted *)
  Lemma merge2_sorted (l1 : list A) : forall l2, sorted l1 -> sorted l2 -> sorted (merge2 ltb l1 l2).
  Proof.
    induction l1 as [|x l1 IH1]; intros l2 H1 H2; [now rewrite merge2_nil_l|].
    induction l2 as [|y l2 IH2]; [now rewrite merge2_nil_r|].
    rewrite merge2_cons. destruct (ltb y x) eqn:E.
    - inversion H2 as [|? ? S2 Hd2]; subst. constructor; [now apply IH2|].
      destruct l2 as [|z l2]; [rewrite merge2_nil_r; constructor; unfold sorted_rel; now apply (swo_asym ltb Hswo)|].
      rewrite merge2_cons. destruct (ltb z x); constructor.
      + now inversion Hd2.
      + unfold sorted_rel. now apply (swo_asym ltb Hswo).
    - inversion H1 as [|? ? S1 Hd1]; subst. constructor; [now apply IH1|].
      destruct l1 as [|w l1]; [rewrite merge2_nil_l; constructor; exact E|].
      rewrite merge2_cons. destruct (ltb y w); constructor.
      + exact E.
      + now inversion Hd1.
  Qed.

  Lemma smerge_sorted (ls : list (list A)) : Forall (fun l => sorted l) ls -> sorted (smerge ltb ls).
  Proof.
    unfold smerge. induction ls as [|l ls IH]; intros H; [constructor|].
    inversion H; subst. cbn [fold_right]. apply merge2_sorted; auto.
  Qed.

  (** ** counting the elements below a bound *)
  Definition count_lt (x : A) (l : list A) : nat := length (filter (fun y => ltb y x) l).

  Lemma count_lt_perm x l1 l2 : Permutation l1 l2 -> count_lt x l1 = count_lt x l2.
  Proof.
    unfold count_lt. induction 1 as [|a l1 l2 P IH|a b l|l1 l2 l3 P1 IH1 P2 IH2]; simpl.
    - reflexivity.
    - destruct (ltb a x); simpl; now rewrite IH.
    - destruct (ltb a x), (ltb b x); reflexivity.
    - now rewrite IH1.
  Qed.

  Lemma eqv_ltb_l a b x : eqv ltb a b = true -> ltb a x = ltb b x.
  Proof.
    unfold eqv. rewrite andb_true_iff, !negb_true_iff. intros [Hab Hba].
    destruct (ltb a x) eqn:Ea, (ltb b x) eqn:Eb; try reflexivity.
    - destruct (swo_negtrans _ Hswo _ _ b Ea); congruence.
    - destruct (swo_negtrans _ Hswo _ _ a Eb); congruence.
  Qed.

  Lemma sorted_head_min a l y : sorted (a :: l) -> In y (a :: l) -> ltb y a = false.
  Proof.
    intros H Hy. apply (Sorted_StronglySorted ltb Hswo) in H. inversion H as [|? ? _ HF]; subst.
    destruct Hy as [<-|Hy]; [apply (swo_irrefl _ Hswo)|].
    rewrite Forall_forall in HF. exact (HF y Hy).
  Qed.

  Lemma count_lt_head_zero a l : sorted (a :: l) -> count_lt a (a :: l) = 0.
  Proof.
    intros H. unfold count_lt.
    assert (F : forall y, In y (a :: l) -> ltb y a = false).
    { intros y Hy. exact (sorted_head_min a l y H Hy). }
    clear H.
    induction (a :: l) as [|z r IH]; [reflexivity|]. simpl.
    rewrite (F z) by now left. apply IH. intros y Hy. apply F. now right.
  Qed.

  (** sorted lists with the same length and the same counts below every bound are pointwise equivalent *)
  Lemma same_counts_eqv (l1 : list A) : forall l2, sorted l1 -> sorted l2 -> length l1 = length l2 ->
    (forall x, count_lt x l1 = count_lt x l2) -> Forall2 eqvR l1 l2.
  Proof.
    induction l1 as [|a l1 IH]; intros [|b l2] H1 H2 L C; simpl in L; try discriminate; [constructor|].
    assert (Eab : eqv ltb a b = true).
    { unfold eqv. apply andb_true_iff. split; apply negb_true_iff.
      - destruct (ltb a b) eqn:E; [|reflexivity]. exfalso.
        pose proof (C b) as Cb. rewrite (count_lt_head_zero b l2 H2) in Cb.
        unfold count_lt in Cb. simpl in Cb. rewrite E in Cb. simpl in Cb. discriminate.
      - destruct (ltb b a) eqn:E; [|reflexivity]. exfalso.
        pose proof (C a) as Ca. rewrite (count_lt_head_zero a l1 H1) in Ca.
        unfold count_lt in Ca. simpl in Ca. rewrite E in Ca. simpl in Ca. discriminate. }
    constructor; [exact Eab|].
    apply IH; [now inversion H1|now inversion H2|lia|].
    intros x. pose proof (C x) as Cx. unfold count_lt in *. simpl in Cx.
    rewrite (eqv_ltb_l a b x Eab) in Cx. destruct (ltb b x); simpl in Cx; lia.
  Qed.

  Theorem sorted_perm_eqv (l1 l2 : list A) : sorted l1 -> sorted l2 -> Permutation l1 l2 -> Forall2 eqvR l1 l2.
  Proof.
    intros H1 H2 P. apply same_counts_eqv; auto.
    - now apply Permutation_length.
    - intros x. now apply count_lt_perm.
  Qed.
  (** ** the [n] smallest elements are determined up to equivalence *)
  Lemma count_lt_app x l1 l2 : count_lt x (l1 ++ l2) = count_lt x l1 + count_lt x l2.
  Proof. unfold count_lt. now rewrite filter_app, app_length. Qed.

  Lemma count_lt_le x l : count_lt x l <= length l.
  Proof. unfold count_lt. induction l as [|a l IH]; simpl; [lia|]. destruct (ltb a x); simpl; lia. Qed.

  Lemma count_lt_pos_ex x l : 0 < count_lt x l -> exists y, In y l /\ ltb y x = true.
  Proof.
    unfold count_lt. induction l as [|a l IH]; simpl; [lia|].
    destruct (ltb a x) eqn:E; [intros _; exists a; auto|]. intros H. destruct (IH H) as (y & Hy & E'). exists y; auto.
  Qed.

  Lemma count_lt_all x l : (forall o, In o l -> ltb o x = true) -> count_lt x l = length l.
  Proof.
    unfold count_lt. induction l as [|a l IH]; intros H; simpl; [reflexivity|].
    rewrite (H a) by now left. simpl. f_equal. apply IH. intros o Ho. apply H. now right.
  Qed.

  Lemma smallest_counts (out rest all : list A) x :
    Permutation (out ++ rest) all ->
    (forall o y, In o out -> In y rest -> ltb y o = false) ->
    count_lt x out = Nat.min (length out) (count_lt x all).
  Proof.
    intros P X. rewrite <- (count_lt_perm x _ _ P), count_lt_app.
    pose proof (count_lt_le x out) as Hle.
    destruct (count_lt x rest) as [|k] eqn:E; [lia|].
    destruct (count_lt_pos_ex x rest ltac:(lia)) as (y & Hy & Eyx).
    rewrite (count_lt_all x out); [lia|].
    intros o Ho. apply (leb_ltb_trans ltb Hswo o y x); [|exact Eyx].
    unfold leb. now rewrite (X o y Ho Hy).
  Qed.

  Theorem smallest_prefix_eqv (out1 rest1 out2 rest2 all : list A) :
    sorted out1 -> sorted out2 -> length out1 = length out2 ->
    Permutation (out1 ++ rest1) all -> Permutation (out2 ++ rest2) all ->
    (forall o y, In o out1 -> In y rest1 -> ltb y o = false) ->
    (forall o y, In o out2 -> In y rest2 -> ltb y o = false) ->
    Forall2 eqvR out1 out2.
  Proof.
    intros S1 S2 L P1 P2 X1 X2. apply same_counts_eqv; auto.
    intros x. rewrite (smallest_counts out1 rest1 all x P1 X1), (smallest_counts out2 rest2 all x P2 X2).
    now rewrite L.
  Qed.

  Lemma sorted_firstn_skipn_le n : forall l, sorted l ->
    forall o y, In o (firstn n l) -> In y (skipn n l) -> ltb y o = false.
  Proof.
    induction n as [|n IH]; intros l H o y Ho Hy; [destruct Ho|].
    destruct l as [|a l]; [destruct Ho|]. simpl in Ho, Hy. destruct Ho as [<-|Ho].
    - apply (sorted_head_min a l y H). right. rewrite <- (firstn_skipn n l). apply in_or_app. now right.
    - apply (IH l); auto. now inversion H.
  Qed.

  Lemma Forall2_eqv_sym (l1 l2 : list A) : Forall2 eqvR l1 l2 -> Forall2 eqvR l2 l1.
  Proof. induction 1; constructor; auto. now rewrite (eqv_sym ltb). Qed.

  Lemma Forall2_eqv_trans (l1 l2 l3 : list A) : Forall2 eqvR l1 l2 -> Forall2 eqvR l2 l3 -> Forall2 eqvR l1 l3.
  Proof.
    intros H. revert l3. induction H as [|a b l1 l2 Hab H IH]; intros l3 H3; inversion H3; subst; constructor.
    - eapply (eqv_trans ltb Hswo); eassumption.
    - now apply IH.
  Qed.
End SP.
