(** C07 — the stable k-way merge used as the specification of the sequential multiway merge, and the
    decomposition lemma behind the parallel merge: a "stable split" of the inputs splits the merge.
    (Local to C07; C05's StableMerge.v did not exist when this was written.) *)
From Coq Require Import List Bool Arith Lia Sorting.Permutation.
From TLXV Require Import Common.Order.
Import ListNotations.

Section SM.
  Context {A : Type}.
  Variable ltb : A -> A -> bool.

  (** Two-way stable merge: on a tie the element of the left (lower-numbered) sequence goes first. *)
  Fixpoint merge2 (l1 : list A) : list A -> list A :=
    fix aux (l2 : list A) : list A :=
      match l1, l2 with
      | [], _ => l2
      | _, [] => l1
      | x :: l1', y :: l2' => if ltb y x then y :: aux l2' else x :: merge2 l1' l2
      end.

  (** k-way stable merge = order by (key, sequence number, position). *)
  Definition smerge (ls : list (list A)) : list A := fold_right merge2 [] ls.

  Lemma merge2_nil_l l : merge2 [] l = l.
  Proof. destruct l; reflexivity. Qed.

  Lemma merge2_nil_r l : merge2 l [] = l.
  Proof. destruct l; reflexivity. Qed.

  Lemma merge2_cons x l1 y l2 :
    merge2 (x :: l1) (y :: l2) = if ltb y x then y :: merge2 (x :: l1) l2 else x :: merge2 l1 (y :: l2).
  Proof. reflexivity. Qed.

  Lemma merge2_perm l1 : forall l2, Permutation (merge2 l1 l2) (l1 ++ l2).
  Proof.
    induction l1 as [|x l1 IH1]; intros l2.
    - rewrite merge2_nil_l. reflexivity.
    - induction l2 as [|y l2 IH2].
      + rewrite merge2_nil_r, app_nil_r. reflexivity.
      + rewrite merge2_cons. destruct (ltb y x).
        * rewrite IH2. change ((x :: l1) ++ y :: l2) with (x :: (l1 ++ y :: l2)).
          rewrite <- Permutation_middle. apply perm_swap.
        * simpl. constructor. apply IH1.
  Qed.

  Lemma merge2_length l1 l2 : length (merge2 l1 l2) = length l1 + length l2.
  Proof. rewrite (Permutation_length (merge2_perm l1 l2)). apply app_length. Qed.

  Lemma smerge_perm ls : Permutation (smerge ls) (concat ls).
  Proof.
    induction ls as [|l ls IH]; [reflexivity|].
    simpl. rewrite merge2_perm. now apply Permutation_app_head.
  Qed.

  Lemma smerge_length ls : length (smerge ls) = length (concat ls).
  Proof. apply Permutation_length, smerge_perm. Qed.

  Lemma smerge_in x ls : In x (smerge ls) <-> In x (concat ls).
  Proof. split; apply Permutation_in; [|symmetry]; apply smerge_perm. Qed.

  (** The two-way decomposition: if no element right of the cut in sequence 2 is smaller than one left of
      the cut in sequence 1, and every element left of the cut in sequence 2 is strictly smaller than every
      element right of the cut in sequence 1 (the tie rule), the merge is the merge of the left parts
      followed by the merge of the right parts.  No sortedness is needed. *)
  Lemma merge2_split a1 : forall a2 b1 b2,
    (forall x y, In x a1 -> In y b2 -> ltb y x = false) ->
    (forall x y, In x a2 -> In y b1 -> ltb x y = true) ->
    merge2 (a1 ++ b1) (a2 ++ b2) = merge2 a1 a2 ++ merge2 b1 b2.
  Proof.
    induction a1 as [|x a1 IH1]; intros a2.
    - induction a2 as [|y a2 IH2]; intros b1 b2 H1 H2.
      + reflexivity.
      + rewrite merge2_nil_l. simpl app at 1.
        destruct b1 as [|z b1].
        * now rewrite !merge2_nil_l.
        * change ((y :: a2) ++ b2) with (y :: (a2 ++ b2)). rewrite merge2_cons.
          rewrite (H2 y z) by (simpl; auto).
          specialize (IH2 (z :: b1) b2). rewrite merge2_nil_l in IH2. simpl app at 1 in IH2.
          rewrite IH2; [reflexivity| |]; intros; [apply H1|apply H2]; simpl; auto.
    - induction a2 as [|y a2 IH2]; intros b1 b2 H1 H2.
      + rewrite merge2_nil_r. simpl app at 2.
        destruct b2 as [|z b2].
        * now rewrite !merge2_nil_r.
        * change ((x :: a1) ++ b1) with (x :: (a1 ++ b1)). rewrite merge2_cons.
          rewrite (H1 x z) by (simpl; auto).
          specialize (IH1 [] b1 (z :: b2)). rewrite merge2_nil_r in IH1. simpl app at 2 in IH1.
          rewrite IH1; [reflexivity| |]; intros; [apply H1|apply H2]; simpl; auto.
      + change ((x :: a1) ++ b1) with (x :: (a1 ++ b1)).
        change ((y :: a2) ++ b2) with (y :: (a2 ++ b2)).
        rewrite !merge2_cons. destruct (ltb y x).
        * change (x :: (a1 ++ b1)) with ((x :: a1) ++ b1).
          rewrite IH2; [reflexivity| |]; intros; [apply H1|apply H2]; simpl; auto.
        * change (y :: (a2 ++ b2)) with ((y :: a2) ++ b2).
          rewrite IH1; [reflexivity| |]; intros; [apply H1|apply H2]; simpl; auto.
  Qed.

  (** k-way version.  [L] and [R] are the left and right parts of the same sequences. *)
  Fixpoint zip_app (L R : list (list A)) : list (list A) :=
    match L, R with
    | l :: L', r :: R' => (l ++ r) :: zip_app L' R'
    | _, _ => []
    end.

  Fixpoint split_ok (L R : list (list A)) : Prop :=
    match L, R with
    | l :: L', r :: R' =>
        (forall x y, In x l -> In y (concat R') -> ltb y x = false) /\
        (forall x y, In x (concat L') -> In y r -> ltb x y = true) /\
        split_ok L' R'
    | [], [] => True
    | _, _ => False
    end.

  Lemma smerge_split L : forall R, split_ok L R -> smerge (zip_app L R) = smerge L ++ smerge R.
  Proof.
    induction L as [|l L IH]; intros [|r R] H; simpl in H; try contradiction; [reflexivity|].
    destruct H as (H1 & H2 & H3). simpl. rewrite (IH R H3).
    apply merge2_split.
    - intros x y Hx Hy. apply H1; [assumption|]. now apply smerge_in.
    - intros x y Hx Hy. apply H2; [|assumption]. now apply smerge_in.
  Qed.

  Lemma zip_app_length L : forall R, length L = length R -> length (zip_app L R) = length L.
  Proof. induction L; intros [|r R] H; simpl in *; try discriminate; auto. Qed.
End SM.
