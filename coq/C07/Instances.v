(** C07 — closing the theorems: the Section variables [partition] and [seqmerge] of PMWM.v are instantiated
    with the proved models of C08 (MSP.partition, the repaired multisequence_partition) and C05 (Model.mwm_base,
    multiway_merge_base with its k / algorithm switch, run with the reference tournament trees), through two
    small adapters; their specifications are discharged by C08.MSPCorrect.partition_correct /
    MSPSpec.split_spec_is_split and C05.Final.mwm_stable / mwm_any. *)
From Coq Require Import List Bool Arith ZArith Lia Sorting.Sorted Sorting.Permutation.
From TLXV Require Import Common.Order.
From TLXV Require C08.MSP C08.MSPSpec C08.MSPCorrect.
From TLXV Require C05.StableMerge C05.StableMergeFacts C05.Model C05.MergeFacts C05.BaseProofs C05.RefTreeProofs C05.Final.
From TLXV Require Import C07.SMerge C07.SortedPerm C07.PMWM C07.PMWMProofs C07.PMWMExact C07.PMWMSampling C07.PMWMTop.
Import ListNotations.

Section Inst.
  Context {A : Type}.
  Variable ltb : A -> A -> bool.
  Hypothesis Hswo : SWO ltb.

  Notation sorted := (Sorted (sorted_rel ltb)).

  (** * C08: multisequence_partition *)
  (** adapter: offsets as naturals; the error result of the C08 model (a violated precondition) becomes the
      empty list, which [partition_spec] below excludes *)
  Definition part08 (seqs : list (list A)) (r : Z) : list nat :=
    match MSP.partition ltb seqs r with
    | Some offs => map Z.to_nat offs
    | None => []
    end.

  Lemma map_to_of (l : list nat) : map Z.to_nat (map Z.of_nat l) = l.
  Proof. induction l as [|x l IH]; simpl; [reflexivity|]. now rewrite Nat2Z.id, IH. Qed.

  Lemma all_le_of_nth (cs : list nat) : forall (seqs : list (list A)),
    length cs = length seqs ->
    (forall i c s, nth_error cs i = Some c -> nth_error seqs i = Some s -> c <= length s) ->
    all_le cs (lens seqs) = true.
  Proof.
    induction cs as [|c cs IH]; intros [|s seqs] L H; simpl in *; try discriminate; auto.
    apply andb_true_iff. split.
    - apply Nat.leb_le. apply (H 0 c s); reflexivity.
    - apply IH; [lia|]. intros i c' s' Hc Hs. apply (H (S i) c' s'); assumption.
  Qed.

  Lemma in_firstn_nth (x : A) : forall c s, In x (firstn c s) -> exists p, p < c /\ nth_error s p = Some x.
  Proof.
    induction c as [|c IH]; intros s H; [destruct H|].
    destruct s as [|a s]; [destruct H|]. simpl in H. destruct H as [<-|H].
    - exists 0. split; [lia|reflexivity].
    - destruct (IH s H) as (p & Hp & E). exists (S p). split; [lia|exact E].
  Qed.

  Lemma in_skipn_nth (y : A) : forall c s, In y (skipn c s) -> exists q, c <= q /\ nth_error s q = Some y.
  Proof.
    induction c as [|c IH]; intros s H.
    - simpl in H. apply In_nth_error in H as [q E]. exists q. split; [lia|exact E].
    - destruct s as [|a s]; [destruct H|]. simpl in H.
      destruct (IH s H) as (q & Hq & E). exists (S q). split; [lia|exact E].
  Qed.

  (** the C08 property [is_split] is the C07 notion of a good boundary *)
  Lemma is_split_good (seqs : list (list A)) r cs :
    MSP.is_split ltb seqs r cs -> good ltb seqs cs /\ sum cs = r.
  Proof.
    intros (L & B & S & X). split; [|exact S].
    split; [exact L|]. split; [now apply all_le_of_nth|].
    intros i j x y Hx Hy.
    destruct (le_lt_dec (length seqs) i) as [Hi|Hi];
      [rewrite (nth_overflow seqs [] Hi) in Hx; rewrite firstn_nil in Hx; destruct Hx|].
    destruct (le_lt_dec (length seqs) j) as [Hj|Hj];
      [rewrite (nth_overflow seqs [] Hj) in Hy; rewrite skipn_nil in Hy; destruct Hy|].
    apply in_firstn_nth in Hx as (p & Hp & Ep). apply in_skipn_nth in Hy as (q & Hq & Eq).
    assert (Ei : nth_error cs i = Some (nth i cs 0)) by (apply nth_error_nth'; lia).
    assert (Ej : nth_error cs j = Some (nth j cs 0)) by (apply nth_error_nth'; lia).
    assert (Si : nth_error seqs i = Some (nth i seqs [])) by (apply nth_error_nth'; lia).
    assert (Sj : nth_error seqs j = Some (nth j seqs [])) by (apply nth_error_nth'; lia).
    pose proof (X i j _ _ _ _ p q x y Ei Si Ej Sj Hp Hq Ep Eq) as LX.
    unfold MSP.lexle, MSP.lexlt in LX. cbn [fst snd] in LX.
    destruct (ltb y x) eqn:Eyx; [discriminate|]. split; [reflexivity|].
    intros Hji. destruct (ltb x y); [reflexivity|].
    assert (Nat.ltb j i = true) as E by (apply Nat.ltb_lt; lia). rewrite E in LX. discriminate.
  Qed.

  Lemma all_sorted_of (seqs : list (list A)) : Forall (fun l => sorted l) seqs -> MSPSpec.all_sorted ltb seqs.
  Proof. unfold MSPSpec.all_sorted. apply Forall_impl. intros l H. now apply sortedb_Sorted. Qed.

  Lemma total_eq (seqs : list (list A)) : MSP.total seqs = PMWM.total seqs.
  Proof. reflexivity. Qed.

  Lemma any_empty_filter (seqs : list (list A)) : MSP.any_empty (filter (@nonempty A) seqs) = false.
  Proof.
    unfold MSP.any_empty. induction seqs as [|l seqs IH]; [reflexivity|].
    destruct l; simpl; [exact IH|]. exact IH.
  Qed.

  (** [partition_spec] holds of the adapter on the non-empty sequences of any sorted input *)
  Theorem part08_spec (seqs : list (list A)) (size : nat) :
    Forall (fun l => sorted l) seqs -> size <= PMWM.total seqs ->
    partition_spec ltb part08 (filter (@nonempty A) seqs) size.
  Proof.
    intros Hsorted Hsize r Hr.
    pose proof (total_filter seqs) as Htot. pose proof (sorted_filter ltb seqs Hsorted) as Hsne.
    destruct (filter_nonempty_cases seqs) as [Ene|(d & l' & ne' & Ene)].
    - rewrite Ene in *. assert (r = 0%Z) by (unfold PMWM.total in *; simpl in *; lia). subst r.
      unfold part08. simpl. split; [|reflexivity].
      split; [reflexivity|]. split; [reflexivity|].
      intros i j x y Hx. destruct i; destruct Hx.
    - set (ne := filter (@nonempty A) seqs) in *.
      assert (Hd : MSP.dflt ne <> None) by (rewrite Ene; discriminate).
      assert (Hr' : Z.to_nat r <= MSP.total ne) by (rewrite total_eq; lia).
      pose proof (MSPCorrect.partition_correct ltb Hswo ne (Z.to_nat r) Hd (any_empty_filter seqs)
                    (all_sorted_of ne Hsne) Hr') as PC.
      rewrite Z2Nat.id in PC by lia.
      unfold part08. rewrite PC, map_to_of.
      destruct (is_split_good ne (Z.to_nat r) _
                  (MSPSpec.split_spec_is_split ltb Hswo ne (Z.to_nat r) (all_sorted_of ne Hsne) Hr')) as [G S].
      split; [exact G|]. rewrite S. lia.
  Qed.

  (** * C05: the sequential multiway merge *)
  (** the stable merge of C05 (leftmost minimal head, step by step) is the stable merge of C07 (fold of
      left-preferring two-way merges) *)
  Notation gmerge := (StableMerge.gmerge ltb).
  Notation spick := (StableMerge.spick ltb).
  Notation msteps := (StableMerge.msteps ltb).
  Notation smerge := (SMerge.smerge ltb).

  Lemma spick_none_smerge (st : list (list A)) : spick st = None -> smerge st = [].
  Proof.
    unfold SMerge.smerge. induction st as [|l st IH]; [reflexivity|]. cbn [StableMerge.spick fold_right].
    destruct l as [|x l].
    - destruct (spick st) as [[j y]|]; [discriminate|]. intros _. rewrite IH by reflexivity. reflexivity.
    - destruct (spick st) as [[j y]|]; [destruct (ltb y x)|]; discriminate.
  Qed.

  Lemma spick_some_smerge (st : list (list A)) : forall s x,
    spick st = Some (s, x) -> smerge st = x :: smerge (StableMerge.adv s st).
  Proof.
    unfold SMerge.smerge. induction st as [|l st IH]; intros s x E; [discriminate|].
    cbn [StableMerge.spick] in E. cbn [fold_right].
    destruct l as [|a l].
    - destruct (spick st) as [[j y]|] eqn:E2; [|discriminate]. injection E as <- <-.
      rewrite merge2_nil_l, (IH j y eq_refl).
      change (StableMerge.adv (S j) ([] :: st)) with ([] :: StableMerge.adv j st).
      cbn [fold_right]. now rewrite merge2_nil_l.
    - destruct (spick st) as [[j y]|] eqn:E2.
      + rewrite (IH j y eq_refl), merge2_cons.
        destruct (ltb y a); injection E as <- <-.
        * change (StableMerge.adv (S j) ((a :: l) :: st)) with ((a :: l) :: StableMerge.adv j st).
          reflexivity.
        * change (StableMerge.adv 0 ((a :: l) :: st)) with (l :: st).
          cbn [fold_right]. now rewrite (IH j y eq_refl).
      + injection E as <- <-. pose proof (spick_none_smerge st E2) as N. unfold SMerge.smerge in N.
        rewrite N, merge2_nil_r.
        change (StableMerge.adv 0 ((a :: l) :: st)) with (l :: st).
        cbn [fold_right]. now rewrite N, merge2_nil_r.
  Qed.

  Lemma msteps_smerge : forall n (st : list (list A)), fst (msteps n st) = firstn n (smerge st).
  Proof.
    induction n as [|n IH]; intros st; [reflexivity|]. cbn [StableMerge.msteps].
    destruct (spick st) as [[s x]|] eqn:E.
    - rewrite (spick_some_smerge st s x E). specialize (IH (StableMerge.adv s st)).
      destruct (msteps n (StableMerge.adv s st)) as [o st']. cbn [fst firstn] in *. now rewrite IH.
    - now rewrite (spick_none_smerge st E).
  Qed.

  Lemma total_concat (st : list (list A)) : StableMerge.total st = length (concat st).
  Proof.
    unfold StableMerge.total. induction st as [|l st IH]; [reflexivity|]. simpl. rewrite app_length. lia.
  Qed.

  Theorem gmerge_smerge (st : list (list A)) : gmerge st = smerge st.
  Proof.
    unfold StableMerge.gmerge. rewrite msteps_smerge.
    rewrite total_concat, <- (smerge_length ltb st). apply firstn_all.
  Qed.

  (** adapter: multiway_merge_base with algorithm [alg] and the reference tournament trees, as C05 runs it
      ([Model.ref_mwm]); the sentinel values are those the caller stored behind the sequences *)
  Definition seq05 (alg : Model.mwma) (stable : bool) (sentinels : option (list A)) (cs : list (list A)) (n : nat)
    : list A * list nat :=
    match Model.ref_mwm ltb stable (match sentinels with Some _ => true | None => false end) alg cs
                        (match sentinels with Some sents => sents | None => [] end) n with
    | Some (o, _, cur) => (o, cur)
    | None => ([], [])
    end.

  Lemma inputs_ok_of (cs : list (list A)) : Forall (fun l => sorted l) cs -> Final.inputs_ok ltb cs.
  Proof. unfold Final.inputs_ok. apply Forall_impl. intros l H. now apply sortedb_Sorted. Qed.

  Theorem seq05_stable_spec alg : seqmerge_stable_spec ltb (seq05 alg).
  Proof.
    intros cs n Hs Hn. unfold seq05. cbv iota.
    rewrite (Final.ref_mwm_stable ltb Hswo false alg cs [] n (inputs_ok_of cs Hs)).
    - cbn [fst]. now rewrite gmerge_smerge.
    - now rewrite total_concat.
    - discriminate.
  Qed.

  (** the unstable sequential merge: a sorted permutation of everything when asked for everything *)
  Theorem seq05_unstable_spec alg : seqmerge_unstable_sorted_spec ltb (seq05 alg).
  Proof.
    intros cs Hs. unfold seq05, Model.ref_mwm. cbv iota.
    destruct (Final.mwm_run ltb Hswo _ _ _ _ _ (fun _ => True) (RefTreeProofs.ref_gtree_ok ltb Hswo)
                _ _ _ _ _ (fun _ => True) (fun _ _ => True) (RefTreeProofs.ref_utree_ok ltb Hswo)
                false false alg cs [] (length (concat cs))
                (inputs_ok_of cs Hs)) as (out & st' & E & R & L).
    - now rewrite total_concat.
    - discriminate.
    - apply BaseProofs.side_ok_trivial; intros; exact I.
    - rewrite E. cbn [fst].
      pose proof (StableMergeFacts.mrun_perm ltb _ _ _ _ R) as P.
      assert (N : concat st' = []).
      { apply length_zero_iff_nil. pose proof (Permutation_length P) as PL. rewrite app_length in PL. lia. }
      rewrite N, app_nil_r in P. split; [exact P|].
      apply StronglySorted_Sorted.
      exact (proj1 (MergeFacts.mrun_sorted ltb Hswo _ _ _ _ (Final.inputs_ok_sorted ltb Hswo _ (inputs_ok_of cs Hs)) R)).
  Qed.

  (** * The closed theorems: no hypothesis about multisequence_partition or the sequential merge is left. *)
  Theorem closed_parallel_exact_stable alg (seqs : list (list A)) (size p os : nat) :
    Forall (fun l => sorted l) seqs -> size <= PMWM.total seqs -> 1 <= p ->
    parallel_result ltb seqs size p (pmwm_base ltb part08 (seq05 alg) true false seqs size p os).
  Proof.
    intros Hs Hsz Hp. apply (pmwm_base_exact_stable ltb Hswo); auto.
    - apply seq05_stable_spec.
    - now apply part08_spec.
  Qed.

  Theorem closed_parallel_sampling_stable alg (seqs : list (list A)) (size p os : nat) :
    Forall (fun l => sorted l) seqs -> size <= PMWM.total seqs -> 1 <= p -> 1 <= os ->
    parallel_result ltb seqs size p (pmwm_base ltb part08 (seq05 alg) true true seqs size p os).
  Proof.
    intros Hs Hsz Hp Hos. apply (pmwm_base_sampling_stable ltb Hswo); auto.
    - apply seq05_stable_spec.
    - now apply part08_spec.
  Qed.
  (** the sequential merge itself, any variant, any length: sorted, and position by position equivalent to
      the stable merge prefix (the [n] smallest elements are determined up to equivalence) *)
  Theorem seq05_eqv_prefix alg stable (cs : list (list A)) (n : nat) :
    Forall (fun l => sorted l) cs -> n <= PMWM.total cs ->
    Forall2 (fun x y => eqv ltb x y = true) (fst (seq05 alg stable None cs n)) (firstn n (smerge cs)).
  Proof.
    intros Hs Hn. unfold seq05, Model.ref_mwm. cbv iota.
    destruct (Final.mwm_run ltb Hswo _ _ _ _ _ (fun _ => True) (RefTreeProofs.ref_gtree_ok ltb Hswo)
                _ _ _ _ _ (fun _ => True) (fun _ _ => True) (RefTreeProofs.ref_utree_ok ltb Hswo)
                stable false alg cs [] n (inputs_ok_of cs Hs)) as (out & st' & E & R & L).
    - exact Hn.
    - discriminate.
    - apply BaseProofs.side_ok_trivial; intros; exact I.
    - rewrite E. cbn [fst].
      pose proof (StableMergeFacts.mrun_perm ltb _ _ _ _ R) as P.
      destruct (MergeFacts.mrun_sorted ltb Hswo _ _ _ _ (Final.inputs_ok_sorted ltb Hswo _ (inputs_ok_of cs Hs)) R) as [So Lo].
      assert (Ssm : sorted (smerge cs)) by now apply (smerge_sorted ltb Hswo).
      apply (smallest_prefix_eqv ltb Hswo out (concat st') (firstn n (smerge cs)) (skipn n (smerge cs)) (concat cs)).
      + now apply StronglySorted_Sorted.
      + now apply sorted_firstn.
      + rewrite L, firstn_length, (smerge_length ltb cs), <- total_concat. unfold StableMerge.total, PMWM.total, lens, sum in *.
        fold (list_sum (map (@length A) cs)). change (fold_right Nat.add 0 (map (@length A) cs)) with (list_sum (map (@length A) cs)) in Hn. lia.
      + exact P.
      + rewrite firstn_skipn. apply smerge_perm.
      + intros o y Ho Hy. apply in_concat in Hy as (l & Hl & Hy). exact (Lo o Ho l y Hl Hy).
      + intros o y. now apply (sorted_firstn_skipn_le ltb Hswo).
  Qed.

  (** unstable variants, both splitting requests: the complete statement ([parallel_result_unstable_full]:
      windows, output position by position equivalent to the stable merge prefix, sorted, a permutation of
      exactly the prefixes the cursors passed, cursors, thread count), and: position by position equivalent to
      what the sequential unstable merge of the same inputs writes. *)
  Theorem closed_parallel_unstable alg sampling (seqs : list (list A)) (size p os : nat) :
    Forall (fun l => sorted l) seqs -> size <= PMWM.total seqs -> 1 <= p -> (sampling = true -> 1 <= os) ->
    parallel_result_unstable_full ltb seqs size p (pmwm_base ltb part08 (seq05 alg) false sampling seqs size p os) /\
    forall r, pmwm_base ltb part08 (seq05 alg) false sampling seqs size p os = Some r ->
      Forall2 (fun x y => eqv ltb x y = true) (output (p_threads r)) (fst (seq05 alg false None seqs size)).
  Proof.
    intros Hs Hsz Hp Hos.
    assert (B : bounds_ok ltb part08 sampling seqs size p os)
      by (apply (bounds_ok_all ltb Hswo); auto; now apply part08_spec).
    pose proof (pmwm_base_unstable ltb Hswo part08 (seq05 alg) sampling seqs size p os Hs Hsz Hp
                  (seq05_unstable_spec alg) B) as F.
    split; [exact F|].
    intros r Er. destruct F as (ts & cur & E & _ & Q & _). rewrite E in Er. injection Er as <-. cbn [p_threads].
    eapply (Forall2_eqv_trans ltb Hswo); [exact Q|].
    apply (Forall2_eqv_sym ltb). now apply seq05_eqv_prefix.
  Qed.

  (** the stable fall-back, all four entry points: without sentinels, and with sentinels provided the caller
      stored behind every sequence an element greater than all real ones (C05's [sent_ok]) *)
  Theorem closed_fallback_stable alg sw sentinels sampling (seqs : list (list A)) size p os :
    seqs <> [] -> goes_parallel sw (length seqs) size p = false ->
    Forall (fun l => sorted l) seqs -> size <= PMWM.total seqs ->
    (forall sents, sentinels = Some sents -> BaseProofs.sent_ok ltb seqs sents) ->
    exists ts cur, pmwm ltb part08 (seq05 alg) sw true sentinels sampling seqs size p os =
                   Some {| p_threads := ts; p_cursors := cur; p_ret := size |} /\
                   contiguous ts 0 size /\ output ts = firstn size (smerge seqs) /\ length ts = 1.
  Proof.
    intros Hne Hg Hs Hsz Hsent. apply pmwm_fallback_stable; auto.
    unfold seq05.
    rewrite (Final.ref_mwm_stable ltb Hswo (match sentinels with Some _ => true | None => false end) alg seqs
               (match sentinels with Some sents => sents | None => [] end) size (inputs_ok_of seqs Hs)).
    - cbn [fst]. now rewrite gmerge_smerge.
    - exact Hsz.
    - destruct sentinels as [sents|]; [intros _; now apply Hsent|discriminate].
  Qed.
End Inst.
