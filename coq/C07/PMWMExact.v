(** C07 — proofs, part 2: exact splitting.  equally_split yields ordered ranks in [0, size]; stable splits
    at ordered ranks are ordered per sequence; hence the boundaries of multiway_merge_exact_splitting form
    a chain ending in a stable split of sum [size]. *)
From Coq Require Import List Bool Arith ZArith Lia Sorting.Sorted Sorting.Permutation.
From TLXV Require Import Common.Order C07.SMerge C07.PMWM C07.PMWMProofs.
Import ListNotations.

Section Exact.
  Context {A : Type}.
  Variable ltb : A -> A -> bool.
  Variable partition : list (list A) -> Z -> list nat.

  Notation good := (good ltb).
  Notation chain := (chain ltb).
  Notation stable_split := (stable_split ltb).

  (** ** stable splits at ordered ranks are ordered *)
  Lemma all_le_nth a : forall b i, length a = length b -> all_le a b = true -> nth i a 0 <= nth i b 0.
  Proof.
    induction a as [|x a IH]; intros [|y b] i L H; simpl in *; try discriminate; [destruct i; lia|].
    apply andb_true_iff in H as [H H']. apply Nat.leb_le in H.
    destruct i; [assumption|]. apply IH; [lia|assumption].
  Qed.

  Lemma not_all_le_ex a : forall b, length a = length b -> all_le a b = false ->
    exists i, nth i b 0 < nth i a 0.
  Proof.
    induction a as [|x a IH]; intros [|y b] L H; simpl in *; try discriminate.
    apply andb_false_iff in H as [H|H].
    - exists 0. apply Nat.leb_gt in H. exact H.
    - destruct (IH b ltac:(lia) H) as [i Hi]. now exists (S i).
  Qed.

  Lemma all_le_strict_sum a : forall b, length a = length b -> all_le a b = true ->
    (exists i, nth i a 0 < nth i b 0) -> sum a < sum b.
  Proof.
    induction a as [|x a IH]; intros [|y b] L H [i Hi]; simpl in *; try discriminate.
    - destruct i; lia.
    - apply andb_true_iff in H as [H H']. apply Nat.leb_le in H.
      destruct i as [|i].
      + assert (sum a <= sum b) by (apply all_le_sum; [lia|assumption]). lia.
      + assert (sum a < sum b) by (apply IH; [lia|assumption|now exists i]). lia.
  Qed.

  Lemma nth_lens (seqs : list (list A)) i : nth i (lens seqs) 0 = length (nth i seqs []).
  Proof. unfold lens. change 0 with (length (@nil A)). apply map_nth. Qed.

  Lemma in_both (l : list A) lo hi : lo < hi -> hi <= length l ->
    exists x, In x (firstn hi l) /\ In x (skipn lo l).
  Proof.
    intros H1 H2. destruct (skipn lo l) as [|x r] eqn:E.
    - apply (f_equal (@length A)) in E. rewrite skipn_length in E. simpl in E. lia.
    - exists x. split; [|now left].
      replace hi with (lo + (hi - lo)) by lia. rewrite firstn_add. apply in_or_app. right.
      rewrite E. destruct (hi - lo) eqn:E2; [lia|]. now left.
  Qed.

  Lemma stable_split_mono (seqs : list (list A)) b1 b2 :
    good seqs b1 -> good seqs b2 -> sum b1 <= sum b2 -> all_le b1 b2 = true.
  Proof.
    intros (L1 & B1 & S1) (L2 & B2 & S2) Hs.
    destruct (all_le b1 b2) eqn:E; [reflexivity|exfalso].
    destruct (not_all_le_ex b1 b2 ltac:(congruence) E) as [i Hi].
    assert (Hj : exists j, nth j b1 0 < nth j b2 0).
    { destruct (all_le b2 b1) eqn:E2.
      - assert (sum b2 < sum b1) by (apply all_le_strict_sum; [congruence|assumption|now exists i]). lia.
      - apply not_all_le_ex; [congruence|assumption]. }
    destruct Hj as [j Hj].
    pose proof (all_le_nth b1 (lens seqs) i ltac:(now rewrite lens_length) B1) as Bi.
    pose proof (all_le_nth b2 (lens seqs) j ltac:(now rewrite lens_length) B2) as Bj.
    rewrite nth_lens in Bi, Bj.
    destruct (in_both (nth i seqs []) (nth i b2 0) (nth i b1 0) Hi Bi) as (x & Hx1 & Hx2).
    destruct (in_both (nth j seqs []) (nth j b1 0) (nth j b2 0) Hj Bj) as (y & Hy2 & Hy1).
    destruct (S1 i j x y Hx1 Hy1) as [F1 T1].
    destruct (S2 j i y x Hy2 Hx2) as [F2 T2].
    destruct (lt_eq_lt_dec i j) as [[Hlt|Heq]|Hgt].
    - rewrite (T2 Hlt) in F1. discriminate.
    - subst j. lia.
    - rewrite (T1 Hgt) in F2. discriminate.
  Qed.

  (** ** equally_split *)
  Lemma es_loop_ok n chunk split : (0 <= chunk)%Z -> (0 <= n)%Z ->
    forall cnt i start, (0 <= start <= Z.max 0 (n - 1))%Z ->
    let l := es_loop true n chunk split cnt i start in
    length l = S cnt /\ Forall (fun x => (start <= x <= n)%Z) l /\ StronglySorted Z.le l.
  Proof.
    intros Hc Hn. induction cnt as [|cnt IH]; intros i start Hs.
    - simpl. repeat split; repeat constructor; lia.
    - cbn [es_loop]. cbv zeta.
      set (start1 := (start + (if (i <? split)%Z then chunk + 1 else chunk))%Z).
      set (start2 := if (start1 >=? n)%Z then (if (0 <? n)%Z then n - 1 else 0)%Z else start1).
      assert (H1 : (start <= start1)%Z) by (unfold start1; destruct (i <? split)%Z; lia).
      assert (H2 : (start <= start2 <= Z.max 0 (n - 1))%Z).
      { unfold start2. destruct (Z.geb_spec start1 n); [destruct (Z.ltb_spec 0 n)|]; lia. }
      destruct (IH (i + 1)%Z start2 ltac:(lia)) as (L & F & S).
      split; [simpl; now rewrite L|]. split.
      + constructor; [lia|]. eapply Forall_impl; [|exact F]. simpl. intros; lia.
      + constructor; [exact S|]. eapply Forall_impl; [|exact F]. simpl. intros; lia.
  Qed.

  Lemma equally_split_ok (size nt : nat) : 1 <= nt ->
    let l := equally_split (Z.of_nat size) nt in
    length l = S nt /\ Forall (fun x => (0 <= x <= Z.of_nat size)%Z) l /\ StronglySorted Z.le l.
  Proof.
    intros Hnt. unfold equally_split, equally_split_gen.
    apply es_loop_ok; try lia. apply Z.div_pos; lia.
  Qed.

  (** ** the boundaries of the exact splitting *)
  Definition partition_spec (seqs : list (list A)) (size : nat) : Prop :=
    forall r : Z, (0 <= r <= Z.of_nat size)%Z ->
      good seqs (partition seqs r) /\ Z.of_nat (sum (partition seqs r)) = r.

  Lemma chain_ranks (seqs : list (list A)) size : partition_spec seqs size ->
    forall rs b, good seqs b ->
      Forall (fun r => (Z.of_nat (sum b) <= r <= Z.of_nat size)%Z) rs -> StronglySorted Z.le rs ->
      sum b <= size ->
      chain seqs b (map (partition seqs) rs) /\
      good seqs (last (map (partition seqs) rs) b) /\
      sum (last (map (partition seqs) rs) b) <= size.
  Proof.
    intros HP. induction rs as [|r rs IH]; intros b G F S Hb.
    - simpl. auto.
    - inversion F as [|? ? Fr Frs]; subst. inversion S as [|? ? Srs Sr]; subst.
      destruct (HP r ltac:(lia)) as [G' E'].
      assert (Hmono : all_le b (partition seqs r) = true) by (apply (stable_split_mono seqs); auto; lia).
      destruct (IH (partition seqs r) G') as (C & GL & SL).
      + rewrite E'. rewrite Forall_forall in *. intros r' Hr'. specialize (Frs r' Hr'). specialize (Sr r' Hr'). lia.
      + exact Srs.
      + lia.
      + change (map (partition seqs) (r :: rs)) with (partition seqs r :: map (partition seqs) rs).
        rewrite last_cons2. simpl. auto.
  Qed.

  Lemma chain_snoc (seqs : list (list A)) c : forall rest b,
    chain seqs b rest -> all_le (last rest b) c = true -> good seqs c -> chain seqs b (rest ++ [c]).
  Proof.
    induction rest as [|b' rest IH]; intros b H1 H2 H3.
    - simpl in *. auto.
    - destruct H1 as (A1 & A2 & A3). rewrite last_cons2 in H2. simpl. auto.
  Qed.

  Lemma last_snoc {X : Type} (l : list X) (c d : X) : last (l ++ [c]) d = c.
  Proof. induction l as [|x l IH]; [reflexivity|]. simpl. destruct (l ++ [c]) eqn:E; [now destruct l|exact IH]. Qed.

  Lemma good_zeros (seqs : list (list A)) : good seqs (zeros seqs).
  Proof.
    split; [apply zeros_length|]. split; [apply all_le_zeros|].
    intros i j x y Hx _. exfalso.
    assert (E : nth i (zeros seqs) 0 = 0).
    { clear. revert i. induction seqs as [|l seqs IH]; intros [|i]; simpl; auto. }
    rewrite E in Hx. destruct Hx.
  Qed.

  Lemma good_lens (seqs : list (list A)) : good seqs (lens seqs).
  Proof.
    split; [apply lens_length|]. split; [apply all_le_refl|].
    intros i j x y _ Hy. exfalso. rewrite nth_lens, skipn_all in Hy. destruct Hy.
  Qed.

  Lemma map_nth_seq {X : Type} (d : X) : forall (l : list X) m, m <= length l ->
    map (fun s => nth s l d) (seq 0 m) = firstn m l.
  Proof.
    induction l as [|x l IH]; intros m Hm; simpl in *.
    - assert (m = 0) by lia. now subst.
    - destruct m as [|m]; [reflexivity|]. simpl. f_equal.
      rewrite <- seq_shift, map_map. apply IH. lia.
  Qed.

  Lemma StronglySorted_firstn {X : Type} (R : X -> X -> Prop) n : forall l,
    StronglySorted R l -> StronglySorted R (firstn n l).
  Proof.
    induction n as [|n IH]; intros l H; [constructor|].
    destruct l as [|x l]; [constructor|]. simpl. inversion H; subst. constructor; [now apply IH|].
    rewrite Forall_forall in *. intros y Hy. apply H3. rewrite <- (firstn_skipn n l). apply in_or_app. now left.
  Qed.

  Lemma Forall_firstn {X : Type} (P : X -> Prop) n (l : list X) : Forall P l -> Forall P (firstn n l).
  Proof.
    rewrite !Forall_forall. intros H y Hy. apply H. rewrite <- (firstn_skipn n l). apply in_or_app. now left.
  Qed.

  Theorem exact_bounds_chain (seqs : list (list A)) (size nt : nat) :
    partition_spec seqs size -> size <= total seqs -> 1 <= nt ->
    exists rest, exact_bounds partition seqs size nt = zeros seqs :: rest /\
                 chain seqs (zeros seqs) rest /\ good seqs (last rest (zeros seqs)) /\
                 sum (last rest (zeros seqs)) = size /\ length rest = nt.
  Proof.
    intros HP Hsz Hnt. unfold exact_bounds.
    destruct (equally_split_ok size nt Hnt) as (EL & EF & ES).
    set (ranks := equally_split (Z.of_nat size) nt) in *.
    destruct ranks as [|r0 rk] eqn:ER; [simpl in EL; lia|].
    assert (Einner : map (fun s => partition seqs (nth (S s) (r0 :: rk) 0%Z)) (seq 0 (nt - 1)) =
                     map (partition seqs) (firstn (nt - 1) rk)).
    { rewrite <- (map_nth_seq 0%Z rk (nt - 1)) by (simpl in EL; lia). now rewrite map_map. }
    rewrite Einner.
    inversion EF as [|? ? _ EF']; subst. inversion ES as [|? ? ES' _]; subst.
    destruct (chain_ranks seqs size HP (firstn (nt - 1) rk) (zeros seqs) (good_zeros seqs)) as (C & GL & SL).
    { rewrite sum_zeros. apply Forall_firstn. eapply Forall_impl; [|exact EF']. simpl. intros; lia. }
    { now apply StronglySorted_firstn. }
    { rewrite sum_zeros. lia. }
    set (inner := map (partition seqs) (firstn (nt - 1) rk)) in *.
    assert (Hlast : exists c, (if total seqs =? size then lens seqs else partition seqs (Z.of_nat size)) = c /\
                              good seqs c /\ sum c = size).
    { destruct (Nat.eqb_spec (total seqs) size) as [Et|Et].
      - exists (lens seqs). split; [reflexivity|]. split; [apply good_lens|exact Et].
      - destruct (HP (Z.of_nat size) ltac:(lia)) as [G E]. eexists. split; [reflexivity|]. split; [exact G|lia]. }
    destruct Hlast as (c & -> & Gc & Sc).
    exists (inner ++ [c]). split; [reflexivity|]. split; [|split; [|split]].
    - apply chain_snoc; [exact C| |exact Gc]. apply (stable_split_mono seqs); auto. lia.
    - now rewrite last_snoc.
    - now rewrite last_snoc.
    - rewrite app_length. unfold inner. rewrite map_length, firstn_length. simpl in *. lia.
  Qed.
End Exact.
