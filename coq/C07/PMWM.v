(** C07 — executable model of tlx/algorithm/parallel_multiway_merge.hpp and multiway_merge_splitting.hpp.

    The model follows the C++ (with fixes/C07/01,02 and the size < total dispatch applied; the shipped
    variants are kept under [_shipped] names): removal of empty sequences, num_threads := min(p, total), exact splitting
    (equally_split incl. size < p and its clamp, the `tight` flag, the last partition), sampling
    splitting (sample index formula in integer arithmetic, sort, upper_bound chunk limits, absolute
    beginning/ending), per thread target_position / local_size / min(local_size, size - target_position),
    the final cursor update from chunks[num_threads-1].second, and the sequential fall-back switch.

    multisequence_partition (C08) and the sequential multiway_merge_base (C05) are Section variables;
    their specifications appear as hypotheses of the theorems in PMWMProofs.v.  std::sort/stable_sort of
    the samples and std::upper_bound are modelled by their specification (insertion sort; length of the
    maximal prefix of elements not greater than the splitter).  Offsets are positions relative to the
    begin of each sequence.  Where the C++ would compute a negative length (undefined behaviour
    downstream) the model returns [None]. *)
From Coq Require Import List Bool Arith ZArith NArith Lia.
From TLXV Require Import Common.Order C07.SMerge.
Import ListNotations.

Section Model.
  Context {A : Type}.
  Variable ltb : A -> A -> bool.
  (** multisequence_partition(seqs, rank) -> one offset per sequence *)
  Variable partition : list (list A) -> Z -> list nat.
  (** multiway_merge_base<Stable, Sentinels>(seqs, length) -> (output, elements consumed per sequence).
      Second argument: [None] = Sentinels false; [Some sents] = Sentinels true, [sents] being the sentinel
      element stored behind each sequence (the caller's obligation for the *_sentinels entry points). *)
  Variable seqmerge : bool -> option (list A) -> list (list A) -> nat -> list A * list nat.

  Definition sum (l : list nat) : nat := fold_right Nat.add 0 l.
  Definition lens (seqs : list (list A)) : list nat := map (@length A) seqs.
  Definition total (seqs : list (list A)) : nat := sum (lens seqs).
  Definition zeros (seqs : list (list A)) : list nat := map (fun _ => 0) seqs.

  (** multiway_merge_detail::equally_split(n, p, s): p+1 splitters.  [fixed = false] is the shipped clamp
      `if (start >= n) start = n - 1`, which yields -1 for n = 0. *)
  Fixpoint es_loop (fixed : bool) (n chunk split : Z) (cnt : nat) (i start : Z) : list Z :=
    match cnt with
    | O => [n]
    | S c =>
        let start1 := (start + (if i <? split then chunk + 1 else chunk))%Z in
        let start2 := if (start1 >=? n)%Z
                      then (if fixed then (if 0 <? n then n - 1 else 0) else n - 1)%Z
                      else start1 in
        start :: es_loop fixed n chunk split c (i + 1)%Z start2
    end.
  Definition equally_split_gen (fixed : bool) (n : Z) (p : nat) : list Z :=
    es_loop fixed n (n / Z.of_nat p)%Z (n mod Z.of_nat p)%Z p 0%Z 0%Z.
  Definition equally_split := equally_split_gen true.
  Definition equally_split_shipped := equally_split_gen false.

  (** multiway_merge_exact_splitting: the nt+1 chunk boundaries (boundary t = chunks[t].first,
      boundary t+1 = chunks[t].second). *)
  Definition exact_bounds (seqs : list (list A)) (size nt : nat) : list (list nat) :=
    let ranks := equally_split (Z.of_nat size) nt in
    let tight := total seqs =? size in
    zeros seqs
      :: map (fun s => partition seqs (nth (S s) ranks 0%Z)) (seq 0 (nt - 1))
      ++ [if tight then lens seqs else partition seqs (Z.of_nat size)].

  (** Shipped code: ranks from the shipped equally_split; the last offsets vector is only filled inside
      the loop over the first nt-1 split points, i.e. never for nt = 1 ([None] = read of an empty vector). *)
  Definition exact_ranks_shipped (size nt : nat) : list Z := equally_split_shipped (Z.of_nat size) nt.
  Definition exact_last_shipped (seqs : list (list A)) (size nt : nat) : option (list nat) :=
    if total seqs =? size then Some (lens seqs)
    else if nt - 1 =? 0 then None
    else Some (partition seqs (Z.of_nat size)).

  (** std::upper_bound(first, last, v, comp) on a sorted range. *)
  Fixpoint ub (v : A) (l : list A) : nat :=
    match l with
    | [] => 0
    | x :: r => if ltb v x then 0 else S (ub v r)
    end.

  (** std::sort / std::stable_sort of the samples (specification: a sorted permutation). *)
  Fixpoint insert (x : A) (l : list A) : list A :=
    match l with
    | [] => [x]
    | y :: r => if ltb x y then x :: l else y :: insert x r
    end.
  Definition isort (l : list A) : list A := fold_right insert [] l.

  (** sample_index = DiffType(double(len) * (double(i+1) / double(ns+1)) * (double(size) / double(total))),
      modelled by the exact floor. *)
  Definition sample_index (len i ns size tot : nat) : nat :=
    N.to_nat ((N.of_nat len * (N.of_nat i + 1) * N.of_nat size) / ((N.of_nat ns + 1) * N.of_nat tot))%N.
  Definition samples_of (size tot ns : nat) (l : list A) : list A :=
    match l with
    | [] => []
    | d :: _ => map (fun i => nth (sample_index (length l) i ns size tot) l d) (seq 0 ns)
    end.
  Definition samples (seqs : list (list A)) (size tot ns : nat) : list A :=
    flat_map (samples_of size tot ns) seqs.
  Definition splitter_index (ns k slab nt : nat) : nat :=
    N.to_nat ((N.of_nat ns * N.of_nat k * N.of_nat slab) / N.of_nat nt)%N.

  (** multiway_merge_sampling_splitting: boundaries. *)
  Definition sampling_bounds (d : A) (seqs : list (list A)) (size nt os : nat) : list (list nat) :=
    let k := length seqs in
    let ns := nt * os in
    let smp := isort (samples seqs size (total seqs) ns) in
    zeros seqs
      :: map (fun slab => map (ub (nth (splitter_index ns k slab nt) smp d)) seqs) (seq 1 (nt - 1))
      ++ [lens seqs].

  (** chunk of thread t: [boundary t, boundary t+1) of every sequence *)
  Definition slice (l : list A) (lo hi : nat) : list A := firstn (hi - lo) (skipn lo l).
  Fixpoint chunk (seqs : list (list A)) (b b' : list nat) : list (list A) :=
    match seqs, b, b' with
    | l :: seqs', lo :: b1, hi :: b1' => slice l lo hi :: chunk seqs' b1 b1'
    | _, _, _ => []
    end.
  Fixpoint all_le (b b' : list nat) : bool :=
    match b, b' with
    | lo :: b1, hi :: b1' => (lo <=? hi) && all_le b1 b1'
    | _, _ => true
    end.

  (** One thread: target_position = sum of chunk begins, local_size = sum of chunk lengths (= sum b' - sum b
      when no chunk is negative), merges min(local_size, size - target_position) elements to
      target + target_position. *)
  Record thread_res : Type := { tpos : nat; tlen : nat; tout : list A }.

  Definition thread_run (stable : bool) (seqs : list (list A)) (size : nat) (b b' : list nat)
    : option thread_res :=
    let tp := sum b in
    if negb (all_le b b') then None
    else if size <? tp then None
    else let n := Nat.min (sum b' - sum b) (size - tp) in
         Some {| tpos := tp; tlen := n; tout := fst (seqmerge stable None (chunk seqs b b') n) |}.

  Fixpoint run_threads (stable : bool) (seqs : list (list A)) (size : nat) (bounds : list (list nat))
    : option (list thread_res) :=
    match bounds with
    | b :: rest =>
        match rest with
        | b' :: _ =>
            match thread_run stable seqs size b b', run_threads stable seqs size rest with
            | Some t, Some ts => Some (t :: ts)
            | _, _ => None
            end
        | [] => Some []
        end
    | [] => Some []
    end.

  (** "update ends of sequences": non-empty input s gets chunks[nt-1][count++].second *)
  Fixpoint scatter (seqs : list (list A)) (c : list nat) : list nat :=
    match seqs with
    | [] => []
    | [] :: r => 0 :: scatter r c
    | _ :: r => match c with
                | x :: c' => x :: scatter r c'
                | [] => 0 :: scatter r []
                end
    end.

  Record pres : Type := { p_threads : list thread_res; p_cursors : list nat; p_ret : nat }.

  Definition nonempty (l : list A) : bool := match l with [] => false | _ => true end.

  (** [dispatch = true] is the code after "fix: parallel_multiway_merge() uses exact splitting when only a
      prefix is merged": MWMSA_SAMPLING is honoured only when size = total_size, otherwise exact splitting
      is used.  [dispatch = false] is the shipped selection `if (mwmsa == MWMSA_SAMPLING)`. *)
  Definition use_sampling (dispatch sampling : bool) (size tot : nat) : bool :=
    sampling && (if dispatch then size =? tot else true).

  Definition pmwm_base_gen (dispatch stable sampling : bool) (seqs : list (list A)) (size p os : nat)
    : option pres :=
    let ne := filter nonempty seqs in
    match ne with
    | (d :: _) :: _ =>
        if p =? 0 then None else
        let nt := Nat.min p (total ne) in
        let bounds := if use_sampling dispatch sampling size (total ne)
                      then sampling_bounds d ne size nt os else exact_bounds ne size nt in
        match run_threads stable ne size bounds with
        | Some ts => Some {| p_threads := ts; p_cursors := scatter seqs (last bounds []); p_ret := size |}
        | None => None
        end
    | _ => Some {| p_threads := []; p_cursors := zeros seqs; p_ret := 0 |}
    end.
  Definition pmwm_base := pmwm_base_gen true.
  Definition pmwm_base_shipped := pmwm_base_gen false.

  (** The four front ends: force flags, minimal k / n. *)
  Record switches : Type := { force_seq : bool; force_par : bool; min_k : nat; min_n : nat }.

  Definition goes_parallel (sw : switches) (k size p : nat) : bool :=
    negb (force_seq sw) && (force_par sw || ((1 <? p) && (min_k sw <=? k) && (min_n sw <=? size))).

  Definition pmwm (sw : switches) (stable : bool) (sentinels : option (list A)) (sampling : bool) (seqs : list (list A))
             (size p os : nat) : option pres :=
    match seqs with
    | [] => Some {| p_threads := []; p_cursors := []; p_ret := 0 |}
    | _ =>
        if goes_parallel sw (length seqs) size p then pmwm_base stable sampling seqs size p os
        else let r := seqmerge stable sentinels seqs size in
             Some {| p_threads := [{| tpos := 0; tlen := size; tout := fst r |}];
                     p_cursors := snd r; p_ret := length (fst r) |}
    end.

  (** What ends up in the output range, and who wrote where. *)
  Definition output (ts : list thread_res) : list A := concat (map tout ts).
  Definition writes (t : thread_res) (pos : nat) : bool := (tpos t <=? pos) && (pos <? tpos t + tlen t).
  Definition writers (ts : list thread_res) (pos : nat) : list thread_res := filter (fun t => writes t pos) ts.
End Model.

(** * Reference instances of the two Section variables (used by the extracted model and by the
      satisfiability examples): both are read off the stable merge of the sequences tagged with their
      sequence number. *)
Section Ref.
  Context {A : Type}.
  Variable ltb : A -> A -> bool.

  Definition ltb_t (a b : A * nat) : bool := ltb (fst a) (fst b).
  Fixpoint tag_from (i : nat) (seqs : list (list A)) : list (list (A * nat)) :=
    match seqs with
    | [] => []
    | l :: r => map (fun x => (x, i)) l :: tag_from (S i) r
    end.
  Definition smerge_t (seqs : list (list A)) : list (A * nat) := smerge ltb_t (tag_from 0 seqs).
  Definition counts (k : nat) (l : list (A * nat)) : list nat :=
    map (fun i => length (filter (fun e => snd e =? i) l)) (seq 0 k).

  Definition partition_ref (seqs : list (list A)) (r : Z) : list nat :=
    counts (length seqs) (firstn (Z.to_nat r) (smerge_t seqs)).
  Definition seqmerge_ref (stable : bool) (sentinels : option (list A)) (seqs : list (list A)) (n : nat) : list A * list nat :=
    let m := firstn n (smerge_t seqs) in (map fst m, counts (length seqs) m).

  Definition pmwm_ref := pmwm ltb partition_ref seqmerge_ref.
End Ref.

(** The instance the correspondence runs: elements are (key, (sequence, position)) compared by key. *)
Definition elem : Type := nat * (nat * nat).
Definition elem_ltb (a b : elem) : bool := fst a <? fst b.
Definition run_model (fseq fpar : bool) (mink minn : nat) (stable : bool) (sentinels : option (list elem)) (sampling : bool)
           (seqs : list (list elem)) (size p os : nat) : option (@pres elem) :=
  pmwm_ref elem_ltb {| force_seq := fseq; force_par := fpar; min_k := mink; min_n := minn |}
           stable sentinels sampling seqs size p os.
