(** C17 — LRU caches evict in true LRU order; SplayTree is a correct ordered (multi)set.
    Statements only; proofs live in C17/LruProofs.v, C17/SplayProofs.v, C17/SplayRefine.v. *)
From Coq Require Import List Arith Sorting.Permutation.
From TLXV Require Import C17.Lru C17.LruProofs C17.LruRecency C17.LruSet C17.Splay C17.SplayProofs C17.SplayRefine.
Import ListNotations.

(** LruCacheMap / LruCacheSet (list_ + map_ model).  For every history of put, touch, touch_if_exists, get,
    get_touch, erase, erase_if_exists, exists, size, pop, clear from the empty cache that respects pop's
    precondition (non-empty): every result (values, booleans, the range_error exception, popped pairs, sizes)
    and the recency list after every operation equal those of the reference LRU list; the class invariant
    (map_ = keys of list_, each once, no stale iterator followed) holds; no precondition marker appears. *)
Theorem C17_lru_refines_reference : forall ops,
  lvalid [] ops = true ->
  snd (lrun lru_init ops) = snd (lref_run [] ops) /\
  lst (fst (lrun lru_init ops)) = fst (lref_run [] ops) /\
  Inv (fst (lrun lru_init ops)) /\
  Forall (fun x => fst x <> RPre) (snd (lrun lru_init ops)).
Proof. exact lru_refines_reference. Qed.
Print Assumptions C17_lru_refines_reference.

(** LruCacheSet is a separate copy of the algorithm in lru_cache.hpp (std::list<Key>, pop() erasing the map entry by
    key value, no get / get_touch).  Its own model (C17/LruSet.v: krun over klst / kidx / kbad) is, for EVERY
    history -- valid or not --, the LruCacheMap model run with the unit value 0: same results, same recency list
    after every operation, same three members at the end.  This is what entitles the correspondence driver to
    compare the C++ LruCacheSet with the Map model (and the driver re-checks the equation on every case). *)
Theorem C17_lruset_is_map_with_unit : forall ops,
  lrun lru_init (map to_lop ops) = (emb (fst (krun kset_init ops)), emb_outs (snd (krun kset_init ops))).
Proof. exact kset_is_map_with_unit. Qed.
Print Assumptions C17_lruset_is_map_with_unit.

(** hence LruCacheSet refines the reference LRU list over (key, 0) entries for every history respecting pop's
    precondition; its class invariant holds (map_ = the keys of list_, each once; no stale iterator followed) *)
Theorem C17_lruset_refines_reference : forall ops,
  lvalid [] (map to_lop ops) = true ->
  emb_outs (snd (krun kset_init ops)) = snd (lref_run [] (map to_lop ops)) /\
  map unit_entry (klst (fst (krun kset_init ops))) = fst (lref_run [] (map to_lop ops)) /\
  KInv (fst (krun kset_init ops)) /\
  Forall (fun x => fst x <> RPre) (snd (krun kset_init ops)).
Proof. exact kset_refines_reference. Qed.
Print Assumptions C17_lruset_refines_reference.

(** the reference throws exactly for absent keys, and pop removes the last element of the recency list (the
    key least recently put or touched, since put/touch move a key to the front: ref_put_front, ref_touch_front) *)
Theorem C17_lru_exception_iff_absent : forall l o k,
  (o = LTouch k \/ o = LGet k \/ o = LGetTouch k \/ o = LErase k) ->
  (snd (lref_step l o) = RErr <-> ~ In k (lkeys l)).
Proof. exact ref_err_iff_absent. Qed.
Print Assumptions C17_lru_exception_iff_absent.

Theorem C17_lru_pop_is_last : forall l e r,
  rev l = e :: r -> lref_step l LPop = (rev r, RPop e) /\ l = rev r ++ [e].
Proof. exact ref_pop_last. Qed.
Print Assumptions C17_lru_pop_is_last.

(** "least recently put or touched" made explicit: run the reference with every entry stamped by the index of
    the operation that last put or touched it (LruRecency.trun); forgetting the stamps is the reference list,
    and the last element -- the one pop() returns -- has a strictly smaller stamp than every other cached key. *)
Theorem C17_lru_pop_least_recent : forall ops l e r,
  l = trun 0 [] ops -> rev l = e :: r ->
  strip l = fst (lref_run [] ops) /\
  Forall (fun x => snd e < snd x) (rev r).
Proof. exact lru_pop_least_recent. Qed.
Print Assumptions C17_lru_pop_least_recent.

(** The top-down splay (left/right assembly as in splay_tree.hpp) preserves the in-order node sequence of
    every tree, for every key -- no search-tree assumption needed. *)
Theorem C17_splay_preserves_inorder : forall k t, inorder (splay k t) = inorder t.
Proof. exact splay_inorder. Qed.
Print Assumptions C17_splay_preserves_inorder.

(** On a search tree, splay(k) brings a node with key k to the root iff k is stored; otherwise the root is a
    neighbour of k. *)
Theorem C17_splay_finds : forall k t l x r,
  bst t -> splay k t = N l x r -> (In k (keys t) <-> key x = k).
Proof. exact splay_finds. Qed.
Print Assumptions C17_splay_finds.

Theorem C17_splay_neighbour : forall k t l x r,
  bst t -> splay k t = N l x r ->
  forall y, In y (keys t) -> ~ (k <= y < key x) /\ ~ (key x < y <= k).
Proof. exact splay_neighbour. Qed.
Print Assumptions C17_splay_neighbour.

(** the recursive search-tree predicate is the same as "the in-order key sequence is sorted" *)
Theorem C17_bst_iff_sorted : forall t, bst t <-> srt (keys t).
Proof. exact bst_sorted. Qed.
Print Assumptions C17_bst_iff_sorted.

(** SplayTree, Duplicates = false (dup = false, std::set) and Duplicates = true (std::multiset).  For every
    history of insert, erase, exists, find, clear, traversal from the empty tree (including operations on the
    empty tree and after clear()): every result, size() and the in-order key sequence after every operation
    equal those of the sorted-list reference; the tree is a search tree; size_ is the node count; live and freed
    allocation ids partition the allocated ones; after the destructor every node has been freed exactly once. *)
Theorem C17_splay_refines_reference : forall dup ops,
  let s := fst (srun dup st_init ops) in
  abs_out ops (snd (srun dup st_init ops)) = snd (rrun dup [] ops) /\
  keys (root s) = fst (rrun dup [] ops) /\
  Good dup s /\ bst (root s) /\
  Permutation (freed (destroy s)) (seq 0 (next (destroy s))) /\ NoDup (freed (destroy s)) /\
  sz (destroy s) = 0 /\ ledger_ok (destroy s) = true.
Proof. exact splay_refines_reference. Qed.
Print Assumptions C17_splay_refines_reference.

(** The code as shipped in 704fd0b violates these statements (fixes/C17/01..03): concrete witnesses. *)
Theorem C17_exists_shipped_refuted :
  exists k, exists_shipped st_init k = None /\ exists_ st_init k = (st_init, false).
Proof. exact exists_shipped_refuted. Qed.
Print Assumptions C17_exists_shipped_refuted.

Theorem C17_clear_shipped_refuted :
  exists s, s = clear_shipped (fst (insert false st_init 1)) /\ sz s = 0 /\ dangling s = true /\
            freed (clear_shipped s) = [0; 0] /\
            dangling (clear (fst (insert false st_init 1))) = false.
Proof. exact clear_shipped_refuted. Qed.
Print Assumptions C17_clear_shipped_refuted.

Theorem C17_erase_shipped_refuted :
  keys (root (fst (erase_shipped witness03 5))) = [3; 5; 5] /\ sz (fst (erase_shipped witness03 5)) = 4 /\
  keys (root (fst (erase witness03 5))) = [3; 5; 5; 5] /\ sz (fst (erase witness03 5)) = 4.
Proof. exact erase_shipped_refuted. Qed.
Print Assumptions C17_erase_shipped_refuted.
