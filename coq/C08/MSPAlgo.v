(** C08 — facts about the algorithm model of MSP.v (partition / selection):
    the full-rank case, the link "accepted by the checker => equal to the specification", the refutation of the
    shipped `middle` comparison, and bounded-exhaustive evaluations of the full statement inside Coq.

    The full algorithmic theorems

      partition_correct : forall seqs r, SWO ltb -> dflt seqs <> None -> any_empty seqs = false -> all_sorted ltb seqs ->
          r <= total seqs -> partition ltb seqs (Z.of_nat r) = Some (map Z.of_nat (split_spec ltb seqs r))
      selection_correct : ... r < total seqs -> exists v off, selection ltb seqs (Z.of_nat r) = SelOk v off /\
          0 <= off /\ check_select ltb seqs r v (Z.to_nat off) = true

    are proved in MSPCorrect.v and MSPSelect.v (loop invariant: MSPLoop.v, initial partition: MSPInit.v); this file
    keeps the earlier partial results and the bounded-exhaustive evaluations. *)
From Coq Require Import List Bool Arith ZArith Lia.
From TLXV Require Import Common.Order C08.MSP C08.MSPSpec C08.MSPCheck.
Import ListNotations.

Section AlgoProofs.
  Context {A : Type}.
  Variable ltb : A -> A -> bool.
  Hypothesis HS : SWO ltb.

  Lemma ztotal_total_gen (seqs : list (list A)) (acc : Z) :
    fold_left (fun acc s => (acc + zlen s)%Z) seqs acc = (acc + Z.of_nat (total seqs))%Z.
  Proof.
    revert acc. induction seqs as [|s r IH]; intros acc.
    - cbn. lia.
    - cbn [fold_left]. rewrite IH. unfold total, zlen. cbn [map]. rewrite list_sum_cons. lia.
  Qed.

  Lemma ztotal_total (seqs : list (list A)) : ztotal seqs = Z.of_nat (total seqs).
  Proof. unfold ztotal. rewrite ztotal_total_gen. lia. Qed.

  Lemma is_split_full (seqs : list (list A)) : is_split ltb seqs (total seqs) (map (@length A) seqs).
  Proof.
    split; [apply map_length|]. split.
    { intros i c s Hc Hs. rewrite nth_error_map, Hs in Hc. injection Hc as <-. lia. }
    split; [reflexivity|].
    intros i j ci cj si sj p q x y _ _ Hcj Hsj _ Hq _ Hy.
    rewrite nth_error_map, Hsj in Hcj. injection Hcj as <-.
    assert (q < length sj) by (apply nth_error_Some; congruence). lia.
  Qed.

  (** rank = N: "very end" (lines 139-144) *)
  Theorem partition_full_rank (seqs : list (list A)) :
    any_empty seqs = false -> all_sorted ltb seqs ->
    partition ltb seqs (Z.of_nat (total seqs)) = Some (map Z.of_nat (split_spec ltb seqs (total seqs))).
  Proof.
    intros Hne Hs. unfold partition, partition_gen.
    rewrite Hne, ztotal_total, Z.eqb_refl.
    f_equal. rewrite <- (spec_unique ltb seqs (total seqs) _ _ (is_split_full seqs)
                          (split_spec_is_split ltb HS seqs (total seqs) Hs (le_n _))).
    rewrite map_map. reflexivity.
  Qed.

  (** the loop only ever returns a state satisfying the documented invariant (the model checks it on entry of
      every iteration and before returning), so the returned split positions lie inside their sequences *)
  Lemma refine_inv_ok seqs d rank rear midlex l fuel : forall n a b a' b',
    refine ltb seqs d rank rear midlex l fuel n a b = Some (a', b') -> inv_ok seqs l a' b' = true.
  Proof.
    induction fuel as [|f IH]; intros n a b a' b' H.
    - cbn [refine] in H. destruct (inv_ok seqs l a b) eqn:E; cbn [negb] in H; [|discriminate].
      destruct (n <=? 0)%Z; [|discriminate]. injection H as <- <-. exact E.
    - cbn [refine] in H. destruct (inv_ok seqs l a b) eqn:E; cbn [negb] in H; [|discriminate].
      destruct (n <=? 0)%Z; [injection H as <- <-; exact E|].
      cbv zeta in H.
      match type of H with (if ?c then _ else _) = _ => destruct c end.
      + match type of H with (let '(_, _) := ?ml in _) = _ => destruct ml as [a2' b2'] end.
        eapply IH; exact H.
      + match type of H with (if ?c then _ else _) = _ => destruct c end.
        * match type of H with (match ?mr with Some _ => _ | None => _ end) = _ => destruct mr as [[a2' b2']|] end; [|discriminate].
          eapply IH; exact H.
        * eapply IH; exact H.
  Qed.

  Definition in_range (s : list A) (o : Z) : bool := ((0 <=? o) && (o <=? zlen s))%Z.

  Lemma in_range_lens (seqs : list (list A)) : forallb2 in_range seqs (map zlen seqs) = true.
  Proof.
    induction seqs as [|s r IH]; [reflexivity|]. cbn [map forallb2]. rewrite IH, andb_true_r.
    unfold in_range, zlen. apply andb_true_iff. split; apply Z.leb_le; lia.
  Qed.

  Theorem partition_offsets_in_range (midlex : bool) (seqs : list (list A)) (rank : Z) (offs : list Z) :
    partition_gen ltb midlex seqs rank = Some offs -> forallb2 in_range seqs offs = true.
  Proof.
    unfold partition_gen.
    destruct (any_empty seqs); [discriminate|].
    destruct (rank =? ztotal seqs)%Z; [intros H; injection H as <-; apply in_range_lens|].
    destruct ((rank <? 0)%Z || (ztotal seqs <? rank)%Z); [discriminate|].
    destruct (dflt seqs) as [d|]; [|discriminate].
    unfold core. cbv zeta.
    match goal with |- context [init_ab ?x1 ?x2 ?x3 ?x4 ?x5 ?x6 ?x7] => destruct (init_ab x1 x2 x3 x4 x5 x6 x7) as [a0 b0] end.
    match goal with |- context [refine ?x1 ?x2 ?x3 ?x4 ?x5 ?x6 ?x7 ?x8 ?x9 ?x10 ?x11] =>
      destruct (refine x1 x2 x3 x4 x5 x6 x7 x8 x9 x10 x11) as [[a b]|] eqn:E end; [|discriminate].
    intros H. injection H as <-. apply refine_inv_ok in E. unfold inv_ok in E.
    apply andb_true_iff in E as [E _]. exact E.
  Qed.

  Lemma in_range_nonneg (seqs : list (list A)) (offs : list Z) :
    forallb2 in_range seqs offs = true -> Forall (fun o => (0 <= o)%Z) offs.
  Proof.
    revert offs. induction seqs as [|s r IH]; intros [|o offs] H; try discriminate; [constructor|].
    cbn [forallb2] in H. apply andb_true_iff in H as [H1 H2]. constructor; [|apply IH; exact H2].
    unfold in_range in H1. apply andb_true_iff in H1 as [H1 _]. apply Z.leb_le. exact H1.
  Qed.

  (** every answer of the algorithm that the checker accepts is the specified split; the hypothesis
      [check_split ... = true] is what the full theorem partition_correct would discharge *)
  Theorem partition_accepted_partial (seqs : list (list A)) (r : nat) (offs : list Z) :
    all_sorted ltb seqs -> r <= total seqs ->
    partition ltb seqs (Z.of_nat r) = Some offs ->
    check_split ltb seqs r (map Z.to_nat offs) = true ->
    offs = map Z.of_nat (split_spec ltb seqs r) /\ is_split ltb seqs r (split_spec ltb seqs r).
  Proof.
    intros Hs Hr Hp Hc.
    pose proof (in_range_nonneg _ _ (partition_offsets_in_range true _ _ _ Hp)) as Hpos. apply (check_split_is_spec ltb HS _ _ _ Hs Hr) in Hc. split.
    - rewrite <- Hc, map_map. clear -Hpos. induction Hpos as [|o l Ho _ IH]; [reflexivity|].
      cbn [map]. rewrite Z2Nat.id by exact Ho. f_equal. exact IH.
    - apply (split_spec_is_split ltb HS); assumption.
  Qed.

  (** selection throws exactly outside the documented domain (line 132) *)
  Lemma selection_throws_iff (seqs : list (list A)) (rank : Z) :
    selection ltb seqs rank = SelThrow <->
    length seqs = 0 \/ (ztotal seqs = 0 \/ rank < 0 \/ ztotal seqs <= rank)%Z.
  Proof.
    unfold selection.
    destruct (Nat.eqb_spec (length seqs) 0) as [E1|E1]; cbn [orb]; [tauto|].
    destruct (Z.eqb_spec (ztotal seqs) 0) as [E2|E2]; cbn [orb]; [tauto|].
    destruct (Z.ltb_spec rank 0) as [E3|E3]; cbn [orb]; [tauto|].
    destruct (Z.leb_spec (ztotal seqs) rank) as [E4|E4]; [tauto|].
    split.
    - intros H. exfalso. destruct (dflt seqs); [|discriminate]. destruct (any_empty seqs); [discriminate|].
      destruct (core ltb seqs a rank false false) as [[a0 b0]|]; [|discriminate].
      match type of H with context [match ?m with None => SelUB | Some _ => _ end] => destruct m end; [|discriminate].
      match type of H with context [if ?c then _ else _] => destruct c end; discriminate.
    - intros [H|[H|[H|H]]]; lia.
  Qed.
End AlgoProofs.

(** ** The shipped code (704fd0b) breaks the tie rule: smallest witness. *)
Definition witness_seqs : list (list nat) := [[0;0;0;0;0;0;0]; [0;0;0;0;0]].

Lemma partition_shipped_refuted :
  exists seqs r,
    all_sorted Nat.ltb seqs /\ any_empty seqs = false /\ r <= total seqs /\
    partition_shipped Nat.ltb seqs (Z.of_nat r) = Some [6; 2]%Z /\
    check_split Nat.ltb seqs r [6; 2] = false /\
    split_spec Nat.ltb seqs r = [7; 1] /\
    partition Nat.ltb seqs (Z.of_nat r) = Some [7; 1]%Z.
Proof.
  exists witness_seqs, 8. split; [repeat constructor|]. split; [reflexivity|]. split; [cbn; lia|].
  repeat split; vm_compute; reflexivity.
Qed.

(** the answer of the shipped code is not a split in the sense of the property *)
Lemma partition_shipped_not_split : ~ is_split Nat.ltb witness_seqs 8 [6; 2].
Proof.
  intros H. apply (check_split_complete Nat.ltb) in H. vm_compute in H. discriminate.
Qed.

(** ** The code before b429853 kept the total in the caller's RankType: with an 8-bit rank type and 200 + 100 elements
    the total 300 wraps to 44 - rank 44 (valid) is answered with the very ends and the selection throws, rank 255
    (valid) hits the assertion; the repaired model answers both. *)
Definition narrow_witness : list (list nat) := [repeat 1 200; repeat 1 100].

Lemma total_in_ranktype_shipped_refuted :
  all_sorted Nat.ltb narrow_witness /\ any_empty narrow_witness = false /\ total narrow_witness = 300 /\
  partition_total_in_ranktype_shipped Nat.ltb 8 narrow_witness 44 = Some [200; 100]%Z /\
  check_split Nat.ltb narrow_witness 44 [200; 100] = false /\
  selection_total_in_ranktype_shipped_throws 8 narrow_witness 44 = true /\
  partition_total_in_ranktype_shipped Nat.ltb 8 narrow_witness 255 = None /\
  partition Nat.ltb narrow_witness 44 = Some [44; 0]%Z /\
  selection Nat.ltb narrow_witness 44 = SelOk 1 44%Z /\
  partition Nat.ltb narrow_witness 255 = Some [200; 55]%Z.
Proof.
  split; [unfold all_sorted, narrow_witness; repeat constructor; vm_compute; reflexivity|].
  repeat split; vm_compute; reflexivity.
Qed.

(** ** Bounded-exhaustive evaluation of the full statements inside Coq (Examples, not the theorem). *)
Fixpoint sorted_seqs (len from keys : nat) : list (list nat) :=
  match len with
  | O => [[]]
  | S len' => flat_map (fun k => map (cons k) (sorted_seqs len' k keys)) (seq from (keys - from))
  end.

Definition pool (maxlen keys : nat) : list (list nat) :=
  flat_map (fun len => sorted_seqs len 0 keys) (seq 1 maxlen).

Fixpoint tuples {X} (m : nat) (p : list X) : list (list X) :=
  match m with
  | O => [[]]
  | S m' => flat_map (fun x => map (cons x) (tuples m' p)) p
  end.

Definition zlist_eqb (l l' : list Z) : bool :=
  (length l =? length l') && forallb (fun '(x, y) => Z.eqb x y) (combine l l').

Definition partition_ok (ltb : nat -> nat -> bool) (seqs : list (list nat)) (r : nat) : bool :=
  match partition ltb seqs (Z.of_nat r) with
  | Some offs => zlist_eqb offs (map Z.of_nat (split_spec ltb seqs r)) && check_split ltb seqs r (map Z.to_nat offs)
  | None => false
  end.

Definition selection_ok (ltb : nat -> nat -> bool) (seqs : list (list nat)) (r : nat) : bool :=
  match selection ltb seqs (Z.of_nat r), select_spec ltb seqs r with
  | SelOk v off, Some (w, k) => eqvb ltb v w && Z.eqb off (Z.of_nat k)
  | SelThrow, None => true
  | _, _ => false
  end.

Definition all_ranks_ok (ltb : nat -> nat -> bool) (seqs : list (list nat)) : bool :=
  forallb (fun r => partition_ok ltb seqs r && selection_ok ltb seqs r) (seq 0 (S (total seqs))).

Definition gtb (x y : nat) : bool := Nat.ltb y x.

Example partition_selection_small_less :
  forallb (all_ranks_ok Nat.ltb) (tuples 1 (pool 7 2) ++ tuples 2 (pool 5 2) ++ tuples 3 (pool 3 2)) = true.
Proof. vm_compute. reflexivity. Qed.

Example partition_selection_small_greater :
  forallb (all_ranks_ok gtb) (map (map (@rev nat)) (tuples 2 (pool 4 3))) = true.
Proof. vm_compute. reflexivity. Qed.

(** no sequence at all: rank 0 is the "very end" case (empty answer), the selection throws *)
Example no_sequences :
  partition Nat.ltb [] 0 = Some [] /\ partition Nat.ltb [] 1 = None /\ selection Nat.ltb [] 0 = SelThrow /\
  selection Nat.ltb [[]; []] 0 = SelThrow.
Proof. repeat split; vm_compute; reflexivity. Qed.

(** the hypotheses of partition_accepted_partial / partition_full_rank are satisfiable by a non-trivial input *)
Example hypotheses_satisfiable :
  let seqs := [[1; 3; 3; 7]; [2; 3]; [3; 3; 8; 9; 9]] in
  all_sorted Nat.ltb seqs /\ any_empty seqs = false /\
  partition Nat.ltb seqs 6 = Some [3; 2; 1]%Z /\ check_split Nat.ltb seqs 6 [3; 2; 1] = true /\
  selection Nat.ltb seqs 6 = SelOk 3 4%Z.
Proof.
  cbv zeta. split; [repeat constructor|]. split; [reflexivity|].
  repeat split; vm_compute; reflexivity.
Qed.
