(** C08 — the halving loop of multisequence_partition (model [refine] of MSP.v, repaired `middle` comparison):
    the invariant and its preservation by one round.

    State at resolution n (n + 1 = s a power of two dividing l + 1):
      St   : 0 <= a[i] <= seqlen[i],  b[i] = a[i] + n,  s | a[i]          (a[i] is never clamped: the std::min's
                                                                            of the code are no-ops)
      Grid : for all i, j with a[i] > 0 and b[j] < seqlen[j]:
               (S_i[a[i]-1], i) <=_lex (S_j[b[j]], j)                      (last left sample <= first right sample)
    At n = 0 (b = a) [Grid] is the ordering clause of the property and the priority-queue correction makes the
    sum exact. *)
From Coq Require Import List Bool Arith ZArith Lia Sorting.Sorted Sorting.Permutation.
From TLXV Require Import Common.Order C08.MSP C08.MSPSpec C08.MSPCheck C08.MSPArr.
Import ListNotations.
Local Open Scope Z_scope.

Section Loop.
  Context {A : Type}.
  Variable ltb : A -> A -> bool.
  Hypothesis HS : SWO ltb.
  Variable seqs : list (list A).
  Variable d : A.
  Variable rank : Z.
  Hypothesis Hsorted : all_sorted ltb seqs.

  Notation m := (length seqs).
  Notation sq i := (nth i seqs []).
  Notation len i := (zlen (nth i seqs [])).
  Notation E i p := (el d (nth i seqs []) p).
  Notation lexlt := (MSP.lexlt ltb).
  Notation lexle := (MSP.lexle ltb).
  Notation "a @ i" := (nth i a 0) (at level 9, format "a @ i").

  Definition St (n : Z) (a b : list Z) : Prop :=
    length a = m /\ length b = m /\
    forall i, (i < m)%nat -> 0 <= a@i <= len i /\ b@i = a@i + n /\ (n + 1 | a@i).

  (** The loop is shared by partition and selection; they differ in the choice of lmax ([rear]), in the `middle`
      comparison ([midlex]) and therefore in the order [ord] the split respects: (value, sequence) for the repaired
      partition, the value alone for the selection. *)
  Variable rear midlex : bool.
  Variable ord : A * nat -> A * nat -> bool.

  Definition GridO (o : A * nat -> A * nat -> bool) (a b : list Z) : Prop :=
    forall i j, (i < m)%nat -> (j < m)%nat -> 0 < a@i -> b@j < len j ->
                o (E i (a@i - 1), i) (E j (b@j), j) = true.
  Notation Grid := (GridO ord).

  Hypothesis ord_tr : forall p q r, ord p q = true -> ord q r = true -> ord p r = true.
  Hypothesis ord_same : forall i p q, (i < m)%nat -> 0 <= p -> p <= q -> q < len i -> ord (E i p, i) (E i q, i) = true.
  Hypothesis lex_ord : forall p q, lexle p q = true -> ord p q = true.
  Hypothesis tst_true : forall x i lv li,
      (if midlex then lexlt (x, i) (lv, li) else ltb x lv) = true -> ord (x, i) (lv, li) = true.
  Hypothesis tst_false : forall x i lv li,
      (if midlex then lexlt (x, i) (lv, li) else ltb x lv) = false -> ord (lv, li) (x, i) = true.

  (** ** elements *)
  Lemma sorted_sq i : (i < m)%nat -> sortedb ltb (sq i) = true.
  Proof.
    intros H. unfold all_sorted in Hsorted. rewrite Forall_forall in Hsorted. apply Hsorted. apply nth_In. exact H.
  Qed.

  Lemma el_nth_error (s : list A) p : 0 <= p < zlen s -> nth_error s (Z.to_nat p) = Some (el d s p).
  Proof. intros H. unfold el. apply nth_error_nth'. unfold zlen in H. lia. Qed.

  Lemma sorted_E i p q : (i < m)%nat -> 0 <= p -> p <= q -> q < len i -> ltb (E i q) (E i p) = false.
  Proof.
    intros Hi Hp Hpq Hq.
    eapply (sorted_nth ltb HS (sq i) (Z.to_nat p) (Z.to_nat q)); [apply sorted_sq; exact Hi|lia| |].
    - apply el_nth_error. lia.
    - apply el_nth_error. lia.
  Qed.

  Lemma lexle_E_same i p q : (i < m)%nat -> 0 <= p -> p <= q -> q < len i -> lexle (E i p, i) (E i q, i) = true.
  Proof. intros. apply lexle_same_idx. apply sorted_E; assumption. Qed.

  Lemma lexlt_lexle p q : lexlt p q = true -> lexle p q = true.
  Proof. apply (ltb_leb _ (SWO_lexlt ltb HS)). Qed.

  Lemma not_lexlt_lexle p q : lexlt p q = false -> lexle q p = true.
  Proof. intros H. unfold MSP.lexle. rewrite H. reflexivity. Qed.

  Lemma lexle_tr p q r : lexle p q = true -> lexle q r = true -> lexle p r = true.
  Proof. apply (lexle_trans ltb HS). Qed.

  (** ** access to the zipped arrays *)
  Lemma combine2_nth (a : list Z) k s ak :
    nth_error (combine seqs a) k = Some (s, ak) -> s = sq k /\ ak = a@k /\ (k < m)%nat /\ (k < length a)%nat.
  Proof.
    intros H. apply nth_error_combine in H as [H1 H2].
    repeat split.
    - symmetry. apply nth_error_nth. exact H1.
    - symmetry. apply nth_error_nth. exact H2.
    - apply nth_error_Some. congruence.
    - apply nth_error_Some. congruence.
  Qed.

  (** ** lmax (lines 212-226), "max, favor rear sequences" = the (value, sequence)-greatest last left element *)
  Definition lmax_spec (o : A * nat -> A * nat -> bool) (a : list Z) (k : nat) (acc : option (A * nat)) : Prop :=
    match acc with
    | None => forall i, (i < k)%nat -> a@i <= 0
    | Some (v, i0) => (i0 < k)%nat /\ 0 < a@i0 /\ v = E i0 (a@i0 - 1) /\
                      forall i, (i < k)%nat -> 0 < a@i -> o (E i (a@i - 1), i) (v, i0) = true
    end.

  Lemma lmax_of_spec_lex (a : list Z) : length a = m -> lmax_spec lexle a m (lmax_of ltb seqs d true a).
  Proof.
    intros Ha. unfold lmax_of.
    replace m with (length (combine seqs a)) at 1 by (rewrite combine_length; lia).
    apply (fold_indexed_ind _ (lmax_spec lexle a)).
    - cbn. intros i Hi. lia.
    - intros k [s ak] acc Hk HQ. apply combine2_nth in Hk as (-> & -> & Hkm & _). cbn beta iota.
      destruct (0 <? a@k) eqn:Epos.
      + apply Z.ltb_lt in Epos. destruct acc as [[lv i0]|]; cbn [lmax_spec] in *.
        * destruct HQ as (Hi0 & Hpos0 & -> & Hmax).
          destruct (ltb (E k (a@k - 1)) (E i0 (a@i0 - 1))) eqn:Ecmp; cbn [negb].
          -- (* x < lmax: keep *)
             split; [lia|]. split; [exact Hpos0|]. split; [reflexivity|].
             intros i Hi Hp. destruct (Nat.eq_dec i k) as [->|Hne].
             ++ apply lexle_spec. split; [apply (swo_asym _ HS); exact Ecmp|congruence].
             ++ apply Hmax; [lia|exact Hp].
          -- (* not (x < lmax): take x, the rear one *)
             split; [lia|]. split; [exact Epos|]. split; [reflexivity|].
             intros i Hi Hp. destruct (Nat.eq_dec i k) as [->|Hne].
             ++ apply lexle_same_idx. apply (swo_irrefl _ HS).
             ++ apply lexle_tr with (q := (E i0 (a@i0 - 1), i0)); [apply Hmax; [lia|exact Hp]|].
                apply lexle_spec. split; [exact Ecmp|lia].
        * split; [lia|]. split; [exact Epos|]. split; [reflexivity|].
          intros i Hi Hp. destruct (Nat.eq_dec i k) as [->|Hne].
          -- apply lexle_same_idx. apply (swo_irrefl _ HS).
          -- specialize (HQ i ltac:(lia)). lia.
      + apply Z.ltb_ge in Epos. destruct acc as [[lv i0]|]; cbn [lmax_spec] in *.
        * destruct HQ as (Hi0 & Hpos0 & -> & Hmax). split; [lia|]. split; [exact Hpos0|]. split; [reflexivity|].
          intros i Hi Hp. destruct (Nat.eq_dec i k) as [->|Hne]; [lia|]. apply Hmax; [lia|exact Hp].
        * intros i Hi. destruct (Nat.eq_dec i k) as [->|Hne]; [exact Epos|]. apply HQ. lia.
  Qed.

  Hypothesis lmax_ok : forall a, length a = m -> lmax_spec ord a m (lmax_of ltb seqs d rear a).

  (** ** leftsize *)
  Lemma fold_add_acc (g : Z -> Z) (l0 : list Z) (acc : Z) :
    fold_left (fun acc x => acc + g x) l0 acc = acc + fold_left (fun acc x => acc + g x) l0 0.
  Proof.
    revert acc. induction l0 as [|x r IH]; intros acc; cbn [fold_left]; [lia|].
    rewrite IH. rewrite (IH (0 + g x)). lia.
  Qed.

  Lemma leftsize_cons n x (r : list Z) : leftsize n (x :: r) = x / (n + 1) + leftsize n r.
  Proof. unfold leftsize. cbn [fold_left]. rewrite fold_add_acc. lia. Qed.

  Lemma leftsize_upd n i (f : Z -> Z) (a : list Z) :
    (i < length a)%nat -> leftsize n (upd i f a) = leftsize n a - a@i / (n + 1) + f (a@i) / (n + 1).
  Proof.
    revert i. induction a as [|x r IH]; intros [|i] H; cbn [length] in H; try lia.
    - cbn [upd nth]. rewrite !leftsize_cons. lia.
    - cbn [upd nth]. rewrite !leftsize_cons, IH by lia. lia.
  Qed.

  Lemma leftsize_zero n (a : list Z) : (forall i, (i < length a)%nat -> a@i = 0) -> leftsize n a = 0.
  Proof.
    induction a as [|x r IH]; intros H; [reflexivity|].
    rewrite leftsize_cons. pose proof (H 0%nat ltac:(cbn; lia)) as H0. cbn in H0. subst x.
    rewrite Zdiv_0_l, IH; [reflexivity|].
    intros i Hi. apply (H (S i)). cbn. lia.
  Qed.

  (** ** the two priority queues *)
  Definition lexgt := (MSP.lexgt ltb).

  Lemma SWO_lexgt : SWO lexgt.
  Proof. unfold lexgt, MSP.lexgt. apply (SWO_flip _ (SWO_lexlt ltb HS)). Qed.

  Definition PQmin (k : nat) (pq : list (A * nat)) (b : list Z) : Prop :=
    StronglySorted (fun p q => leb lexlt p q = true) pq /\ NoDup (map snd pq) /\
    forall v j, In (v, j) pq <-> ((j < k)%nat /\ b@j < len j /\ v = E j (b@j)).

  Definition PQmax (k : nat) (pq : list (A * nat)) (a : list Z) : Prop :=
    StronglySorted (fun p q => leb lexgt p q = true) pq /\ NoDup (map snd pq) /\
    forall v i, In (v, i) pq <-> ((i < k)%nat /\ 0 < a@i /\ v = E i (a@i - 1)).

  Lemma NoDup_insert lt (x : A * nat) (pq : list (A * nat)) :
    NoDup (map snd pq) -> ~ In (snd x) (map snd pq) -> NoDup (map snd (insert_by lt x pq)).
  Proof.
    intros H1 H2. eapply Permutation_NoDup; [apply Permutation_sym; apply Permutation_map; apply insert_by_perm|].
    cbn [map]. constructor; assumption.
  Qed.

  Lemma pq_min_spec (b : list Z) : length b = m -> PQmin m (pq_min ltb seqs d b) b.
  Proof.
    intros Hb. unfold pq_min.
    replace m with (length (combine seqs b)) at 1 by (rewrite combine_length; lia).
    apply (fold_indexed_ind _ (fun k pq => PQmin k pq b)).
    - split; [constructor|]. split; [constructor|]. intros v j. split; [intros []|intros (H & _); lia].
    - intros k [s bk] pq Hk (Hs & Hn & Hin). apply combine2_nth in Hk as (-> & -> & Hkm & _). cbn beta iota.
      destruct (b@k <? len k) eqn:Ec.
      + apply Z.ltb_lt in Ec. split; [apply insert_by_sorted; [apply (SWO_lexlt ltb HS)|exact Hs]|]. split.
        * apply NoDup_insert; [exact Hn|]. cbn [snd]. intros C. apply in_map_iff in C as ([v j] & Ej & Hj).
          cbn in Ej. subst j. apply Hin in Hj. lia.
        * intros v j. rewrite insert_by_In, Hin. split.
          -- intros [H|(H1 & H2 & H3)]; [injection H as -> ->; split; [lia|split; [exact Ec|reflexivity]]|split; [lia|auto]].
          -- intros (H1 & H2 & H3). destruct (Nat.eq_dec j k) as [->|Hne]; [left; congruence|right; split; [lia|auto]].
      + apply Z.ltb_ge in Ec. split; [exact Hs|]. split; [exact Hn|]. intros v j. rewrite Hin. split.
        * intros (H1 & H2 & H3). split; [lia|auto].
        * intros (H1 & H2 & H3). destruct (Nat.eq_dec j k) as [->|Hne]; [lia|split; [lia|auto]].
  Qed.

  Lemma pq_max_spec (a : list Z) : length a = m -> PQmax m (pq_max ltb seqs d a) a.
  Proof.
    intros Ha. unfold pq_max.
    replace m with (length (combine seqs a)) at 1 by (rewrite combine_length; lia).
    apply (fold_indexed_ind _ (fun k pq => PQmax k pq a)).
    - split; [constructor|]. split; [constructor|]. intros v j. split; [intros []|intros (H & _); lia].
    - intros k [s ak] pq Hk (Hs & Hn & Hin). apply combine2_nth in Hk as (-> & -> & Hkm & _). cbn beta iota.
      destruct (0 <? a@k) eqn:Ec.
      + apply Z.ltb_lt in Ec. split; [apply (insert_by_sorted _ SWO_lexgt); exact Hs|]. split.
        * apply NoDup_insert; [exact Hn|]. cbn [snd]. intros C. apply in_map_iff in C as ([v j] & Ej & Hj).
          cbn in Ej. subst j. apply Hin in Hj. lia.
        * intros v j. rewrite insert_by_In, Hin. split.
          -- intros [H|(H1 & H2 & H3)]; [injection H as -> ->; split; [lia|split; [exact Ec|reflexivity]]|split; [lia|auto]].
          -- intros (H1 & H2 & H3). destruct (Nat.eq_dec j k) as [->|Hne]; [left; congruence|right; split; [lia|auto]].
      + apply Z.ltb_ge in Ec. split; [exact Hs|]. split; [exact Hn|]. intros v j. rewrite Hin. split.
        * intros (H1 & H2 & H3). split; [lia|auto].
        * intros (H1 & H2 & H3). destruct (Nat.eq_dec j k) as [->|Hne]; [lia|split; [lia|auto]].
  Qed.

  (** ** the `middle` step (lines 228-236, repaired comparison) *)
  Lemma nth_map' {X Y} (f : X -> Y) (l0 : list X) i dx dy : (i < length l0)%nat -> nth i (map f l0) dy = f (nth i l0 dx).
  Proof. intros H. apply nth_error_nth. rewrite nth_error_map, (nth_error_of_nth l0 i dx H). reflexivity. Qed.

  Definition mid_ab (lm : option (A * nat)) (n' : Z) (a b : list Z) : list (Z * Z) :=
    map (fun '(i, (s, (ai, bi))) => mid_step ltb d midlex lm n' i s ai bi) (indexed (combine seqs (combine a b))).

  Lemma mid_ab_length lm n' a b : length a = m -> length b = m -> length (mid_ab lm n' a b) = m.
  Proof. intros Ha Hb. unfold mid_ab. rewrite map_length, indexed_length, !combine_length. lia. Qed.

  Lemma mid_ab_nth lm n' a b i : length a = m -> length b = m -> (i < m)%nat ->
    nth i (mid_ab lm n' a b) (0, 0) = mid_step ltb d midlex lm n' i (sq i) (a@i) (b@i).
  Proof.
    intros Ha Hb Hi. unfold mid_ab.
    rewrite (nth_map_indexed _ _ i ([], (0, 0)) (0, 0)) by (rewrite !combine_length; lia).
    rewrite combine_nth by (rewrite combine_length; lia). rewrite combine_nth by lia. reflexivity.
  Qed.

  Lemma mid_facts n' a b i :
    0 <= n' -> St (2 * n' + 1) a b -> (i < m)%nat ->
    let lm := lmax_of ltb seqs d rear a in
    let p := mid_step ltb d midlex lm n' i (sq i) (a@i) (b@i) in
    snd p = fst p + n' /\ 0 <= fst p <= len i /\ (n' + 1 | fst p) /\
    (0 < fst p -> exists lv li, lm = Some (lv, li) /\ ord (E i (fst p - 1), i) (lv, li) = true) /\
    (snd p < len i -> snd p = b@i \/ forall lv li, lm = Some (lv, li) -> ord (lv, li) (E i (snd p), i) = true).
  Proof.
    intros Hn' (Ha & Hb & Hst) Hi lm p. destruct (Hst i Hi) as ((Ha0 & Ha1) & Hbi & Hdiv).
    pose proof (lmax_ok a Ha) as Hlm. fold lm in Hlm.
    assert ((n' + 1 | a@i)) as Hdiv'.
    { destruct Hdiv as [k Hk]. exists (2 * k). lia. }
    assert ((b@i + a@i) / 2 = a@i + n') as Hmid.
    { rewrite Hbi. replace (a@i + (2 * n' + 1) + a@i) with (1 + (a@i + n') * 2) by lia.
      rewrite Z.div_add by lia. cbn. lia. }
    subst p. unfold mid_step. rewrite Hmid.
    destruct lm as [[lv li]|] eqn:Elm; cbn [lmax_spec] in Hlm.
    - destruct Hlm as (Hli & Hpos & Hlv & Hmax).
      destruct ((a@i + n' <? len i) && (if midlex then lexlt (E i (a@i + n'), i) (lv, li) else ltb (E i (a@i + n')) lv)) eqn:Ec.
      + (* moved to the left *)
        apply andb_true_iff in Ec as [Ec1 Ec2]. apply Z.ltb_lt in Ec1.
        cbn [fst snd]. rewrite Z.min_l by lia.
        split; [lia|]. split; [lia|]. split.
        { replace (a@i + n' + 1) with (a@i + (n' + 1)) by lia. apply Z.divide_add_r; [exact Hdiv'|apply Z.divide_refl]. }
        split.
        * intros _. exists lv, li. split; [reflexivity|]. replace (a@i + n' + 1 - 1) with (a@i + n') by lia.
          apply tst_true. exact Ec2.
        * intros _. left. reflexivity.
      + cbn [fst snd]. split; [lia|]. split; [lia|]. split; [exact Hdiv'|]. split.
        * intros Hp. exists lv, li. split; [reflexivity|]. apply Hmax; assumption.
        * intros Hr. right. intros lv' li' E'. injection E' as <- <-.
          replace (b@i - (n' + 1)) with (a@i + n') in * by lia.
          apply andb_false_iff in Ec as [Ec|Ec]; [apply Z.ltb_ge in Ec; lia|].
          apply tst_false. exact Ec.
    - cbn [fst snd]. split; [lia|]. split; [lia|]. split; [exact Hdiv'|]. split.
      + intros Hp. specialize (Hlm i Hi). lia.
      + intros _. right. intros lv li C. discriminate.
  Qed.

  Lemma mid_ok n' a b :
    0 <= n' -> St (2 * n' + 1) a b -> Grid a b ->
    let ab := mid_ab (lmax_of ltb seqs d rear a) n' a b in
    St n' (map fst ab) (map snd ab) /\ Grid (map fst ab) (map snd ab).
  Proof.
    intros Hn' HSt HG ab. pose proof HSt as (Ha & Hb & Hst).
    assert (length ab = m) as Hab by (apply mid_ab_length; assumption).
    assert (forall i, (i < m)%nat -> (map fst ab)@i = fst (mid_step ltb d midlex (lmax_of ltb seqs d rear a) n' i (sq i) (a@i) (b@i))) as Hfst.
    { intros i Hi. rewrite (nth_map' fst ab i (0, 0) 0) by lia. unfold ab. rewrite mid_ab_nth by assumption. reflexivity. }
    assert (forall i, (i < m)%nat -> (map snd ab)@i = snd (mid_step ltb d midlex (lmax_of ltb seqs d rear a) n' i (sq i) (a@i) (b@i))) as Hsnd.
    { intros i Hi. rewrite (nth_map' snd ab i (0, 0) 0) by lia. unfold ab. rewrite mid_ab_nth by assumption. reflexivity. }
    split.
    - split; [rewrite map_length; exact Hab|]. split; [rewrite map_length; exact Hab|].
      intros i Hi. rewrite Hfst, Hsnd by exact Hi.
      destruct (mid_facts n' a b i Hn' HSt Hi) as (F1 & F2 & F3 & _). auto.
    - intros i j Hi Hj Hpos Hr. rewrite Hfst in * by exact Hi. rewrite Hsnd in * by exact Hj.
      destruct (mid_facts n' a b i Hn' HSt Hi) as (_ & _ & _ & FL & _).
      destruct (mid_facts n' a b j Hn' HSt Hj) as (_ & _ & _ & _ & FR).
      destruct (FL Hpos) as (lv & li & Elm & HL). apply ord_tr with (q := (lv, li)); [exact HL|].
      destruct (FR Hr) as [Eold|Hnew]; [|apply Hnew; exact Elm].
      rewrite Eold in *. pose proof (lmax_ok a Ha) as Hlm. rewrite Elm in Hlm. cbn [lmax_spec] in Hlm.
      destruct Hlm as (Hli & Hpos0 & -> & _). apply HG; assumption.
  Qed.

  (** ** skew > 0: move the smallest right sample to the left (lines 244-269) *)
  Lemma pq_tail_in (k : nat) (v0 : A) (src : nat) (pq' : list (A * nat)) (P : A -> nat -> Prop) :
    NoDup (map snd ((v0, src) :: pq')) ->
    (forall v j, In (v, j) ((v0, src) :: pq') <-> P v j) ->
    forall v j, In (v, j) pq' <-> (P v j /\ j <> src).
  Proof.
    intros Hn Hin v j. cbn [map snd] in Hn. inversion Hn as [|? ? Hnotin _]; subst. split.
    - intros H. split; [apply Hin; right; exact H|]. intros ->. apply Hnotin.
      apply in_map_iff. exists (v, src). split; [reflexivity|exact H].
    - intros [H Hne]. apply Hin in H. destruct H as [H|H]; [injection H as _ <-; congruence|exact H].
  Qed.

  Lemma move_left_step n' a b v0 src pq' :
    0 <= n' -> St n' a b -> Grid a b -> PQmin m ((v0, src) :: pq') b ->
    let s := sq src in
    let a' := upd src (fun x => Z.min (x + n' + 1) (zlen s)) a in
    let b' := upd src (fun x => x + (n' + 1)) b in
    let bs := b'@src in
    let pq'' := if bs <? zlen s then insert_by lexlt (el d s bs, src) pq' else pq' in
    St n' a' b' /\ Grid a' b' /\ PQmin m pq'' b' /\ leftsize n' a' = leftsize n' a + 1.
  Proof.
    intros Hn' (Ha & Hb & Hst) HG (Hs & Hnd & Hin) s a' b' bs pq''.
    destruct (proj1 (Hin v0 src) (or_introl eq_refl)) as (Hsrc & Hbs & Hv0).
    destruct (Hst src Hsrc) as ((Ha0 & Ha1) & Hbi & Hdiv).
    assert (a'@src = a@src + (n' + 1)) as Ea'.
    { unfold a'. rewrite nth_upd_same by lia. unfold s. rewrite Z.min_l by lia. lia. }
    assert (b'@src = b@src + (n' + 1)) as Eb'.
    { unfold b'. rewrite nth_upd_same by lia. reflexivity. }
    assert (forall i, i <> src -> a'@i = a@i) as Oa' by (intros i Hi; unfold a'; apply nth_upd_other; congruence).
    assert (forall i, i <> src -> b'@i = b@i) as Ob' by (intros i Hi; unfold b'; apply nth_upd_other; congruence).
    assert (forall j, (j < m)%nat -> b@j < len j -> ord (v0, src) (E j (b@j), j) = true) as Hmin.
    { intros j Hj Hr. apply lex_ord. apply (sorted_head_min _ (SWO_lexlt ltb HS) _ _ _ Hs). apply Hin. auto. }
    split; [|split; [|split]].
    - split; [unfold a'; rewrite upd_length; exact Ha|]. split; [unfold b'; rewrite upd_length; exact Hb|].
      intros i Hi. destruct (Nat.eq_dec i src) as [->|Hne].
      + rewrite Ea', Eb'. split; [lia|]. split; [lia|]. apply Z.divide_add_r; [exact Hdiv|apply Z.divide_refl].
      + rewrite Oa', Ob' by exact Hne. apply Hst. exact Hi.
    - intros i j Hi Hj Hpos Hr.
      destruct (Nat.eq_dec i src) as [->|Hni]; destruct (Nat.eq_dec j src) as [->|Hnj].
      + rewrite Ea', Eb' in *. apply ord_same; [exact Hsrc|lia|lia|exact Hr].
      + rewrite Ea' in *. rewrite Ob' in * by exact Hnj.
        replace (a@src + (n' + 1) - 1) with (b@src) by lia. rewrite <- Hv0. apply Hmin; assumption.
      + rewrite Eb' in *. rewrite Oa' in * by exact Hni.
        apply ord_tr with (q := (E src (b@src), src)); [apply HG; assumption|].
        apply ord_same; [exact Hsrc|lia|lia|exact Hr].
      + rewrite Oa' in * by exact Hni. rewrite Ob' in * by exact Hnj. apply HG; assumption.
    - pose proof (pq_tail_in m v0 src pq' _ Hnd Hin) as Hin'.
      assert (NoDup (map snd pq') /\ ~ In src (map snd pq')) as [Hnd' Hnotin].
      { cbn [map snd] in Hnd. inversion Hnd; auto. }
      pose proof (sorted_tail _ _ _ Hs) as Hs'.
      unfold pq''. fold bs. unfold bs. rewrite Eb'. unfold s.
      destruct (b@src + (n' + 1) <? len src) eqn:Ec.
      + apply Z.ltb_lt in Ec. split; [apply insert_by_sorted; [apply (SWO_lexlt ltb HS)|exact Hs']|]. split.
        * apply NoDup_insert; [exact Hnd'|exact Hnotin].
        * intros v j. rewrite insert_by_In, Hin'. destruct (Nat.eq_dec j src) as [->|Hne].
          -- rewrite Eb'. split.
             ++ intros [H|[_ C]]; [injection H as ->; auto|congruence].
             ++ intros (_ & _ & ->). left. reflexivity.
          -- rewrite Ob' by exact Hne. split.
             ++ intros [H|[H _]]; [injection H as _ ->; congruence|exact H].
             ++ intros H. right. split; [exact H|exact Hne].
      + apply Z.ltb_ge in Ec. split; [exact Hs'|]. split; [exact Hnd'|].
        intros v j. rewrite Hin'. destruct (Nat.eq_dec j src) as [->|Hne].
        * rewrite Eb'. split; [intros [_ C]; congruence|intros (_ & C & _); lia].
        * rewrite Ob' by exact Hne. split; [intros [H _]; exact H|intros H; split; [exact H|exact Hne]].
    - unfold a'. rewrite leftsize_upd by lia. unfold s. rewrite Z.min_l by lia.
      replace (a@src + n' + 1) with (a@src + 1 * (n' + 1)) by lia. rewrite Z.div_add by lia. lia.
  Qed.

  Lemma move_left_ok n' : 0 <= n' -> forall k pq a b,
    St n' a b -> Grid a b -> PQmin m pq b ->
    let R := move_left ltb seqs d k n' pq a b in
    St n' (fst R) (snd R) /\ Grid (fst R) (snd R) /\
    (leftsize n' (fst R) = leftsize n' a + Z.of_nat k \/
     (leftsize n' (fst R) <= leftsize n' a + Z.of_nat k /\ forall j, (j < m)%nat -> len j <= (snd R)@j)).
  Proof.
    intros Hn'. induction k as [|k IH]; intros pq a b HSt HG HPQ.
    - cbn [move_left fst snd]. split; [exact HSt|]. split; [exact HG|]. left. lia.
    - cbn [move_left]. destruct pq as [|[v0 src] pq'].
      + cbn [fst snd]. split; [exact HSt|]. split; [exact HG|]. right. split; [lia|].
        intros j Hj. destruct HPQ as (_ & _ & Hin). destruct (Z_lt_le_dec (b@j) (len j)) as [C|C]; [|exact C].
        exfalso. apply (proj2 (Hin (E j (b@j)) j)). auto.
      + destruct (move_left_step n' a b v0 src pq' Hn' HSt HG HPQ) as (S1 & S2 & S3 & S4).
        cbv zeta. unfold MSP.sq.
        destruct (IH _ _ _ S1 S2 S3) as (R1 & R2 & R3).
        split; [exact R1|]. split; [exact R2|]. rewrite S4 in R3. destruct R3 as [R3|[R3 R4]]; [left; lia|right; split; [lia|exact R4]].
  Qed.

  (** ** skew < 0: move the greatest left sample to the right (lines 270-295) *)
  Lemma move_right_step n' a b v0 src pq' :
    0 <= n' -> St n' a b -> Grid a b -> PQmax m ((v0, src) :: pq') a ->
    let s := sq src in
    let a' := upd src (fun x => x - (n' + 1)) a in
    let b' := upd src (fun x => x - (n' + 1)) b in
    let asrc := a'@src in
    let pq'' := if 0 <? asrc then insert_by lexgt (el d s (asrc - 1), src) pq' else pq' in
    St n' a' b' /\ Grid a' b' /\ PQmax m pq'' a' /\ leftsize n' a' = leftsize n' a - 1.
  Proof.
    intros Hn' (Ha & Hb & Hst) HG (Hs & Hnd & Hin) s a' b' asrc pq''.
    destruct (proj1 (Hin v0 src) (or_introl eq_refl)) as (Hsrc & Hpos & Hv0).
    destruct (Hst src Hsrc) as ((Ha0 & Ha1) & Hbi & Hdiv).
    assert (n' + 1 <= a@src) as Hge.
    { destruct Hdiv as [q Hq]. rewrite Hq in *. assert (0 < q) by nia. nia. }
    assert (a'@src = a@src - (n' + 1)) as Ea' by (unfold a'; rewrite nth_upd_same by lia; reflexivity).
    assert (b'@src = b@src - (n' + 1)) as Eb' by (unfold b'; rewrite nth_upd_same by lia; reflexivity).
    assert (forall i, i <> src -> a'@i = a@i) as Oa' by (intros i Hi; unfold a'; apply nth_upd_other; congruence).
    assert (forall i, i <> src -> b'@i = b@i) as Ob' by (intros i Hi; unfold b'; apply nth_upd_other; congruence).
    assert (forall i, (i < m)%nat -> 0 < a@i -> ord (E i (a@i - 1), i) (v0, src) = true) as Hmax.
    { intros i Hi Hp. apply lex_ord.
      pose proof (sorted_head_min _ SWO_lexgt _ _ (E i (a@i - 1), i) Hs) as H.
      unfold leb, lexgt, MSP.lexgt in H. unfold MSP.lexle. apply H. apply Hin. auto. }
    split; [|split; [|split]].
    - split; [unfold a'; rewrite upd_length; exact Ha|]. split; [unfold b'; rewrite upd_length; exact Hb|].
      intros i Hi. destruct (Nat.eq_dec i src) as [->|Hne].
      + rewrite Ea', Eb'. split; [lia|]. split; [lia|]. apply Z.divide_sub_r; [exact Hdiv|apply Z.divide_refl].
      + rewrite Oa', Ob' by exact Hne. apply Hst. exact Hi.
    - intros i j Hi Hj Hp Hr.
      destruct (Nat.eq_dec i src) as [->|Hni]; destruct (Nat.eq_dec j src) as [->|Hnj].
      + rewrite Ea', Eb' in *. apply ord_same; [exact Hsrc|lia|lia|exact Hr].
      + rewrite Ea' in *. rewrite Ob' in * by exact Hnj.
        apply ord_tr with (q := (E src (a@src - 1), src)); [apply ord_same; [exact Hsrc|lia|lia|lia]|].
        apply HG; assumption.
      + rewrite Eb' in *. rewrite Oa' in * by exact Hni.
        replace (b@src - (n' + 1)) with (a@src - 1) by lia. rewrite <- Hv0. apply Hmax; assumption.
      + rewrite Oa' in * by exact Hni. rewrite Ob' in * by exact Hnj. apply HG; assumption.
    - pose proof (pq_tail_in m v0 src pq' _ Hnd Hin) as Hin'.
      assert (NoDup (map snd pq') /\ ~ In src (map snd pq')) as [Hnd' Hnotin].
      { cbn [map snd] in Hnd. inversion Hnd; auto. }
      pose proof (sorted_tail _ _ _ Hs) as Hs'.
      unfold pq''. fold asrc. unfold asrc. rewrite Ea'. unfold s.
      destruct (0 <? a@src - (n' + 1)) eqn:Ec.
      + apply Z.ltb_lt in Ec. split; [apply (insert_by_sorted _ SWO_lexgt); exact Hs'|]. split.
        * apply NoDup_insert; [exact Hnd'|exact Hnotin].
        * intros v j. rewrite insert_by_In, Hin'. destruct (Nat.eq_dec j src) as [->|Hne].
          -- rewrite Ea'. split.
             ++ intros [H|[_ C]]; [injection H as ->; auto|congruence].
             ++ intros (_ & _ & ->). left. reflexivity.
          -- rewrite Oa' by exact Hne. split.
             ++ intros [H|[H _]]; [injection H as _ ->; congruence|exact H].
             ++ intros H. right. split; [exact H|exact Hne].
      + apply Z.ltb_ge in Ec. split; [exact Hs'|]. split; [exact Hnd'|].
        intros v j. rewrite Hin'. destruct (Nat.eq_dec j src) as [->|Hne].
        * rewrite Ea'. split; [intros [_ C]; congruence|intros (_ & C & _); lia].
        * rewrite Oa' by exact Hne. split; [intros [H _]; exact H|intros H; split; [exact H|exact Hne]].
    - unfold a'. rewrite leftsize_upd by lia.
      replace (a@src - (n' + 1)) with (a@src + (-1) * (n' + 1)) by lia. rewrite Z.div_add by lia. lia.
  Qed.

  Lemma leftsize_nonneg_pos n' a b : 0 <= n' -> St n' a b -> 0 < leftsize n' a -> exists i, (i < m)%nat /\ 0 < a@i.
  Proof.
    intros Hn' (Ha & _ & Hst) Hpos.
    destruct (Forall_Exists_dec (fun i => a@i = 0) (fun i => Z.eq_dec (a@i) 0) (seq 0 m)) as [F|Ex].
    - exfalso. rewrite (leftsize_zero n' a) in Hpos; [lia|]. intros i Hi. rewrite Forall_forall in F. apply F.
      apply in_seq. lia.
    - apply Exists_exists in Ex as (i & Hi & Hne). apply in_seq in Hi. exists i. split; [lia|].
      destruct (Hst i ltac:(lia)) as ((H0 & _) & _). lia.
  Qed.

  Lemma move_right_ok n' : 0 <= n' -> forall k pq a b,
    St n' a b -> Grid a b -> PQmax m pq a -> Z.of_nat k <= leftsize n' a ->
    exists a' b', move_right ltb seqs d k n' pq a b = Some (a', b') /\
                  St n' a' b' /\ Grid a' b' /\ leftsize n' a' = leftsize n' a - Z.of_nat k.
  Proof.
    intros Hn'. induction k as [|k IH]; intros pq a b HSt HG HPQ Hk.
    - exists a, b. cbn [move_right]. split; [reflexivity|]. split; [exact HSt|]. split; [exact HG|]. lia.
    - cbn [move_right]. destruct pq as [|[v0 src] pq'].
      + exfalso. destruct (leftsize_nonneg_pos n' a b Hn' HSt ltac:(lia)) as (i & Hi & Hp).
        destruct HPQ as (_ & _ & Hin). apply (proj2 (Hin (E i (a@i - 1)) i)). auto.
      + destruct (move_right_step n' a b v0 src pq' Hn' HSt HG HPQ) as (S1 & S2 & S3 & S4).
        cbv zeta. unfold MSP.sq.
        destruct (IH _ _ _ S1 S2 S3 ltac:(lia)) as (a2 & b2 & R0 & R1 & R2 & R3).
        exists a2, b2. split; [exact R0|]. split; [exact R1|]. split; [exact R2|]. lia.
  Qed.

  (** ** the whole loop (lines 208-296) *)
  Variable l : Z.
  Hypothesis Hrank : 0 <= rank < ztotal seqs.
  Hypothesis Hlen_l : forall i, (i < m)%nat -> len i <= l.

  Lemma St_inv_ok n a b : 0 <= n -> (n + 1 | l + 1) -> St n a b -> inv_ok seqs l a b = true.
  Proof.
    intros Hn Hdl (Ha & Hb & Hst). unfold inv_ok. apply andb_true_iff. split.
    - apply forallb2_spec. split; [lia|]. intros i x y Hx Hy.
      assert (i < m)%nat as Hi by (apply nth_error_Some; congruence).
      apply (nth_error_nth _ _ []) in Hx. apply (nth_error_nth _ _ 0) in Hy. subst x y.
      destruct (Hst i Hi) as ((H0 & H1) & _). apply andb_true_iff. split; [apply Z.leb_le|apply Z.leb_le]; assumption.
    - apply forallb_forall. intros bi Hbi. apply (In_nth _ _ 0) in Hbi as (i & Hi & <-).
      destruct (Hst i ltac:(lia)) as ((H0 & H1) & Hbi & [q Hq]). specialize (Hlen_l i ltac:(lia)).
      destruct Hdl as [t Ht]. apply andb_true_iff. split; apply Z.leb_le; [lia|].
      assert (q < t) by nia. nia.
  Qed.

  Lemma fold_add_acc' {X} (g : X -> Z) (l0 : list X) (acc : Z) :
    fold_left (fun acc x => acc + g x) l0 acc = acc + fold_left (fun acc x => acc + g x) l0 0.
  Proof.
    revert acc. induction l0 as [|x r IH]; intros acc; cbn [fold_left]; [lia|].
    rewrite IH. rewrite (IH (0 + g x)). lia.
  Qed.

  Lemma leftsize_full_gen (ss : list (list A)) (a : list Z) :
    length a = length ss -> (forall i, (i < length ss)%nat -> a@i = zlen (nth i ss [])) ->
    leftsize 0 a = ztotal ss.
  Proof.
    revert a. induction ss as [|s r IH]; intros [|x a] Hl Hall; try discriminate; [reflexivity|].
    rewrite leftsize_cons. unfold ztotal. cbn [fold_left]. rewrite fold_add_acc'.
    pose proof (Hall 0%nat ltac:(cbn; lia)) as H0. cbn in H0. subst x.
    rewrite Z.div_1_r. f_equal. apply IH; [cbn in Hl; lia|].
    intros i Hi. apply (Hall (S i)). cbn. lia.
  Qed.

  Definition round_post (n' : Z) (a2 b2 : list Z) : Prop :=
    St n' a2 b2 /\ Grid a2 b2 /\
    (leftsize n' a2 = rank / (n' + 1) \/
     (leftsize n' a2 <= rank / (n' + 1) /\ forall j, (j < m)%nat -> len j <= b2@j)).

  Lemma refine_ok : forall (j fuel : nat) (a b : list Z),
    (j <= fuel)%nat -> (2 ^ Z.of_nat j | l + 1) ->
    St (2 ^ Z.of_nat j - 1) a b -> Grid a b -> (j = 0%nat -> leftsize 0 a = rank) ->
    exists a' b', refine ltb seqs d rank rear midlex l fuel (2 ^ Z.of_nat j - 1) a b = Some (a', b') /\
                  St 0 a' b' /\ Grid a' b' /\ leftsize 0 a' = rank.
  Proof.
    induction j as [|j IH]; intros fuel a b Hf Hdl HSt HG Hcnt.
    - exists a, b. cbn [Z.of_nat Z.pow Z.sub] in *.
      assert (inv_ok seqs l a b = true) as Hok by (apply (St_inv_ok 0); [lia|exact Hdl|exact HSt]).
      destruct fuel; cbn [refine]; rewrite Hok; cbn [negb]; (split; [reflexivity|auto]).
    - destruct fuel as [|f]; [lia|].
      set (n' := 2 ^ Z.of_nat j - 1).
      assert (0 < 2 ^ Z.of_nat j) as Hpow by (apply Z.pow_pos_nonneg; lia).
      assert (2 ^ Z.of_nat (S j) - 1 = 2 * n' + 1) as En.
      { rewrite Nat2Z.inj_succ, Z.pow_succ_r by lia. unfold n'. lia. }
      rewrite En in *. assert (0 <= n') as Hn' by (unfold n'; lia).
      assert (inv_ok seqs l a b = true) as Hok.
      { apply (St_inv_ok (2 * n' + 1)); [lia| |exact HSt]. replace (2 * n' + 1 + 1) with (2 ^ Z.of_nat (S j)); [exact Hdl|].
        rewrite Nat2Z.inj_succ, Z.pow_succ_r by lia. unfold n'. lia. }
      cbn [refine]. rewrite Hok. cbn [negb].
      destruct (2 * n' + 1 <=? 0) eqn:E0; [apply Z.leb_le in E0; lia|].
      assert ((2 * n' + 1) / 2 = n') as Ediv.
      { replace (2 * n' + 1) with (1 + n' * 2) by lia. rewrite Z.div_add by lia. cbn. lia. }
      rewrite Ediv. cbv zeta.
      destruct (mid_ok n' a b Hn' HSt HG) as (M1 & M2). unfold mid_ab in M1, M2.
      set (ab := map (fun '(i, (s, (ai, bi))) => mid_step ltb d midlex (lmax_of ltb seqs d rear a) n' i s ai bi)
                     (indexed (combine seqs (combine a b)))) in *.
      set (a1 := map fst ab) in *. set (b1 := map snd ab) in *.
      assert (0 <= rank / (n' + 1)) as Hq by (apply Z.div_pos; lia).
      assert (exists a2 b2,
                 (if 0 <? rank / (n' + 1) - leftsize n' a1
                  then let '(a2, b2) := move_left ltb seqs d (Z.to_nat (rank / (n' + 1) - leftsize n' a1)) n'
                                                  (pq_min ltb seqs d b1) a1 b1 in
                       refine ltb seqs d rank rear midlex l f n' a2 b2
                  else if rank / (n' + 1) - leftsize n' a1 <? 0
                       then match move_right ltb seqs d (Z.to_nat (- (rank / (n' + 1) - leftsize n' a1))) n'
                                             (pq_max ltb seqs d a1) a1 b1 with
                            | None => None
                            | Some (a2, b2) => refine ltb seqs d rank rear midlex l f n' a2 b2
                            end
                       else refine ltb seqs d rank rear midlex l f n' a1 b1)
                 = refine ltb seqs d rank rear midlex l f n' a2 b2 /\ round_post n' a2 b2) as (a2 & b2 & Eq & P1 & P2 & P3).
      { destruct (0 <? rank / (n' + 1) - leftsize n' a1) eqn:Es1.
        - apply Z.ltb_lt in Es1.
          pose proof (move_left_ok n' Hn' (Z.to_nat (rank / (n' + 1) - leftsize n' a1)) _ a1 b1 M1 M2
                                   (pq_min_spec b1 (proj1 (proj2 M1)))) as R.
          destruct (move_left ltb seqs d (Z.to_nat (rank / (n' + 1) - leftsize n' a1)) n' (pq_min ltb seqs d b1) a1 b1)
            as [a2 b2]. cbn [fst snd] in R. destruct R as (R1 & R2 & R3).
          exists a2, b2. split; [reflexivity|]. split; [exact R1|]. split; [exact R2|].
          rewrite Z2Nat.id in R3 by lia. destruct R3 as [R3|[R3 R4]]; [left; lia|right; split; [lia|exact R4]].
        - destruct (rank / (n' + 1) - leftsize n' a1 <? 0) eqn:Es2.
          + apply Z.ltb_lt in Es2.
            destruct (move_right_ok n' Hn' (Z.to_nat (- (rank / (n' + 1) - leftsize n' a1))) _ a1 b1 M1 M2
                                    (pq_max_spec a1 (proj1 M1)) ltac:(rewrite Z2Nat.id by lia; lia))
              as (a2 & b2 & R0 & R1 & R2 & R3).
            rewrite R0. exists a2, b2. split; [reflexivity|]. split; [exact R1|]. split; [exact R2|].
            left. rewrite Z2Nat.id in R3 by lia. lia.
          + apply Z.ltb_ge in Es1, Es2. exists a1, b1. split; [reflexivity|]. split; [exact M1|]. split; [exact M2|]. left. lia. }
      rewrite Eq. apply IH; [lia| |exact P1|exact P2|].
      + replace (2 ^ Z.of_nat j) with (n' + 1) by (unfold n'; lia).
        apply Z.divide_trans with (m := 2 ^ Z.of_nat (S j)); [|exact Hdl].
        exists 2. rewrite Nat2Z.inj_succ, Z.pow_succ_r by lia. unfold n'. lia.
      + intros ->. unfold n' in *. cbn [Z.of_nat Z.pow Z.sub] in *. change (2 ^ 0 - 1) with 0 in *.
        rewrite Z.div_1_r in P3. destruct P3 as [P3|[P3 P4]]; [exact P3|]. exfalso.
        destruct P1 as (Ha2 & Hb2 & Hst2).
        assert (leftsize 0 a2 = ztotal seqs) as Efull.
        { apply leftsize_full_gen; [exact Ha2|]. intros i Hi. destruct (Hst2 i Hi) as ((H0 & H1) & Hbi & _).
          specialize (P4 i Hi). lia. }
        change (1 - 1) with 0 in *. lia.
  Qed.

  (** ** at resolution 0 the invariant is the property *)
  Lemma el_of_nth_error (s : list A) (p : nat) x : nth_error s p = Some x -> el d s (Z.of_nat p) = x.
  Proof. intros H. unfold el. rewrite Nat2Z.id. apply nth_error_nth. exact H. Qed.

  Lemma sum_to_nat (a : list Z) : (forall i, (i < length a)%nat -> 0 <= a@i) ->
    Z.of_nat (list_sum (map Z.to_nat a)) = leftsize 0 a.
  Proof.
    induction a as [|x r IH]; intros H; [reflexivity|].
    cbn [map]. rewrite list_sum_cons, leftsize_cons, Z.div_1_r, Nat2Z.inj_add, IH.
    - pose proof (H 0%nat ltac:(cbn; lia)) as H0. cbn in H0. lia.
    - intros i Hi. apply (H (S i)). cbn. lia.
  Qed.

  Lemma final_is_split a b :
    St 0 a b -> GridO lexle a b -> leftsize 0 a = rank -> is_split ltb seqs (Z.to_nat rank) (map Z.to_nat a).
  Proof.
    intros (Ha & Hb & Hst) HG Hsum.
    assert (forall i c, nth_error (map Z.to_nat a) i = Some c -> (i < m)%nat /\ c = Z.to_nat (a@i)) as Hc.
    { intros i c H. rewrite nth_error_map in H. destruct (nth_error a i) as [x|] eqn:E; [|discriminate].
      cbn in H. injection H as <-. split; [rewrite <- Ha; apply nth_error_Some; congruence|].
      apply (nth_error_nth _ _ 0) in E. congruence. }
    split; [rewrite map_length; exact Ha|]. split.
    { intros i c s Hci Hs. destruct (Hc _ _ Hci) as [Hi ->]. apply (nth_error_nth _ _ []) in Hs. subst s.
      destruct (Hst i Hi) as ((H0 & H1) & _). unfold zlen in H1. lia. }
    split.
    { apply Nat2Z.inj. rewrite sum_to_nat, Hsum; [lia|]. intros i Hi. apply Hst. lia. }
    intros i j ci cj si sj p q x y Hci Hsi Hcj Hsj Hp Hq Hx Hy.
    destruct (Hc _ _ Hci) as [Hi ->]. destruct (Hc _ _ Hcj) as [Hj ->].
    apply (nth_error_nth _ _ []) in Hsi, Hsj. subst si sj.
    destruct (Hst i Hi) as ((Hi0 & Hi1) & Hbi & _). destruct (Hst j Hj) as ((Hj0 & Hj1) & Hbj & _).
    assert (Z.of_nat q < len j) as Hql.
    { assert (q < length (sq j))%nat by (apply nth_error_Some; congruence). unfold zlen. lia. }
    rewrite <- (el_of_nth_error _ _ _ Hx), <- (el_of_nth_error _ _ _ Hy).
    apply lexle_tr with (q := (E i (a@i - 1), i)); [apply lexle_E_same; [exact Hi|lia|lia|lia]|].
    apply lexle_tr with (q := (E j (b@j), j)); [apply HG; [exact Hi|exact Hj|lia|lia]|].
    apply lexle_E_same; [exact Hj|lia|lia|exact Hql].
  Qed.
End Loop.

(** ** The two instances: partition (rear lmax, (value, sequence) comparison) and selection (plain comparison). *)
Section Instances.
  Context {A : Type}.
  Variable ltb : A -> A -> bool.
  Hypothesis HS : SWO ltb.
  Variable seqs : list (list A).
  Variable d : A.
  Variable rank : Z.
  Hypothesis Hsorted : all_sorted ltb seqs.
  Variable l : Z.
  Hypothesis Hrank : 0 <= rank < ztotal seqs.
  Hypothesis Hlen_l : forall i, (i < length seqs)%nat -> zlen (nth i seqs []) <= l.

  Notation m := (length seqs).
  Notation len i := (zlen (nth i seqs [])).
  Notation E i p := (el d (nth i seqs []) p).
  Notation "a @ i" := (nth i a 0) (at level 9, format "a @ i").

  Lemma refine_ok_lex : forall (j fuel : nat) (a b : list Z),
    (j <= fuel)%nat -> (2 ^ Z.of_nat j | l + 1) ->
    St seqs (2 ^ Z.of_nat j - 1) a b -> GridO seqs d (lexle ltb) a b -> (j = 0%nat -> leftsize 0 a = rank) ->
    exists a' b', refine ltb seqs d rank true true l fuel (2 ^ Z.of_nat j - 1) a b = Some (a', b') /\
                  St seqs 0 a' b' /\ GridO seqs d (lexle ltb) a' b' /\ leftsize 0 a' = rank.
  Proof.
    apply (refine_ok ltb HS seqs d rank true true (lexle ltb)).
    - apply (lexle_trans ltb HS).
    - intros i p q. apply (lexle_E_same ltb HS seqs d Hsorted).
    - auto.
    - intros x i lv li. apply (lexlt_lexle ltb HS).
    - intros x i lv li. apply (not_lexlt_lexle ltb).
    - apply (lmax_of_spec_lex ltb HS).
    - exact Hrank.
    - exact Hlen_l.
  Qed.

  (** the order of the selection: by value only *)
  Definition vle (p q : A * nat) : bool := negb (ltb (fst q) (fst p)).

  Lemma vle_tr p q r : vle p q = true -> vle q r = true -> vle p r = true.
  Proof. unfold vle. apply (leb_trans _ HS). Qed.

  Lemma lex_vle p q : lexle ltb p q = true -> vle p q = true.
  Proof. destruct p as [x i], q as [y j]. intros H. apply (lexle_spec ltb) in H. unfold vle. cbn [fst]. rewrite (proj1 H). reflexivity. Qed.

  Lemma vle_same i p q : (i < m)%nat -> 0 <= p -> p <= q -> q < len i -> vle (E i p, i) (E i q, i) = true.
  Proof. intros. apply lex_vle. apply (lexle_E_same ltb HS seqs d Hsorted); assumption. Qed.

  Lemma lmax_of_spec_val (a : list Z) : length a = m -> lmax_spec seqs d vle a m (lmax_of ltb seqs d false a).
  Proof.
    intros Ha. unfold lmax_of.
    replace m with (length (combine seqs a)) at 1 by (rewrite combine_length; lia).
    apply (fold_indexed_ind _ (lmax_spec seqs d vle a)).
    - cbn. intros i Hi. lia.
    - intros k [s ak] acc Hk HQ. apply (combine2_nth seqs) in Hk as (-> & -> & Hkm & _). cbn beta iota.
      destruct (0 <? a@k) eqn:Epos.
      + apply Z.ltb_lt in Epos. destruct acc as [[lv i0]|]; cbn [lmax_spec] in *.
        * destruct HQ as (Hi0 & Hpos0 & -> & Hmax).
          destruct (ltb (E i0 (a@i0 - 1)) (E k (a@k - 1))) eqn:Ecmp.
          -- split; [lia|]. split; [exact Epos|]. split; [reflexivity|].
             intros i Hi Hp. destruct (Nat.eq_dec i k) as [->|Hne].
             ++ unfold vle. cbn [fst]. rewrite (swo_irrefl _ HS). reflexivity.
             ++ apply vle_tr with (q := (E i0 (a@i0 - 1), i0)); [apply Hmax; [lia|exact Hp]|].
                unfold vle. cbn [fst]. rewrite (swo_asym _ HS _ _ Ecmp). reflexivity.
          -- split; [lia|]. split; [exact Hpos0|]. split; [reflexivity|].
             intros i Hi Hp. destruct (Nat.eq_dec i k) as [->|Hne].
             ++ unfold vle. cbn [fst]. rewrite Ecmp. reflexivity.
             ++ apply Hmax; [lia|exact Hp].
        * split; [lia|]. split; [exact Epos|]. split; [reflexivity|].
          intros i Hi Hp. destruct (Nat.eq_dec i k) as [->|Hne].
          -- unfold vle. cbn [fst]. rewrite (swo_irrefl _ HS). reflexivity.
          -- specialize (HQ i ltac:(lia)). lia.
      + apply Z.ltb_ge in Epos. destruct acc as [[lv i0]|]; cbn [lmax_spec] in *.
        * destruct HQ as (Hi0 & Hpos0 & -> & Hmax). split; [lia|]. split; [exact Hpos0|]. split; [reflexivity|].
          intros i Hi Hp. destruct (Nat.eq_dec i k) as [->|Hne]; [lia|]. apply Hmax; [lia|exact Hp].
        * intros i Hi. destruct (Nat.eq_dec i k) as [->|Hne]; [exact Epos|]. apply HQ. lia.
  Qed.

  Lemma refine_ok_val : forall (j fuel : nat) (a b : list Z),
    (j <= fuel)%nat -> (2 ^ Z.of_nat j | l + 1) ->
    St seqs (2 ^ Z.of_nat j - 1) a b -> GridO seqs d vle a b -> (j = 0%nat -> leftsize 0 a = rank) ->
    exists a' b', refine ltb seqs d rank false false l fuel (2 ^ Z.of_nat j - 1) a b = Some (a', b') /\
                  St seqs 0 a' b' /\ GridO seqs d vle a' b' /\ leftsize 0 a' = rank.
  Proof.
    apply (refine_ok ltb HS seqs d rank false false vle).
    - apply vle_tr.
    - apply vle_same.
    - apply lex_vle.
    - intros x i lv li H. unfold vle. cbn [fst]. rewrite (swo_asym _ HS _ _ H). reflexivity.
    - intros x i lv li H. unfold vle. cbn [fst]. rewrite H. reflexivity.
    - apply lmax_of_spec_val.
    - exact Hrank.
    - exact Hlen_l.
  Qed.

  Lemma GridO_weaken (o1 o2 : A * nat -> A * nat -> bool) a b :
    (forall p q, o1 p q = true -> o2 p q = true) -> GridO seqs d o1 a b -> GridO seqs d o2 a b.
  Proof. intros H G i j Hi Hj Hp Hr. apply H. apply G; assumption. Qed.
End Instances.
