(** C08 — the merged order [kmerge] is what it should be (sorted by (value, sequence), a permutation of all
    elements, [split_spec] counts its prefixes), and the selection checker [check_select] — an order-free
    characterisation: #(< v) <= r < #(<= v), offset = r - #(< v) — agrees with [select_spec]. *)
From Coq Require Import List Bool Arith Lia Sorting.Sorted Sorting.Permutation.
From TLXV Require Import Common.Order C08.MSP C08.MSPSpec.
Import ListNotations.

Section MergeProofs.
  Context {A : Type}.
  Variable ltb : A -> A -> bool.
  Hypothesis HS : SWO ltb.

  Notation lexle := (lexle ltb).
  Notation all_sorted := (all_sorted ltb).

  (** ** permutation *)
  Lemma length_concat (ss : list (list A)) : length (concat ss) = total ss.
  Proof.
    unfold total. induction ss as [|s r IH]; [reflexivity|].
    cbn [concat map]. rewrite app_length, list_sum_cons, IH. reflexivity.
  Qed.

  Lemma advance_perm (ss : list (list A)) i x t :
    nth_error ss i = Some (x :: t) -> Permutation (concat ss) (x :: concat (advance i ss)).
  Proof.
    revert i. induction ss as [|s r IH]; intros i H; [destruct i; discriminate|].
    destruct i as [|i']; cbn in H.
    - injection H as ->. cbn. apply Permutation_refl.
    - cbn [advance concat]. eapply Permutation_trans; [apply Permutation_app_head; apply IH; exact H|].
      apply Permutation_sym. apply Permutation_middle.
  Qed.

  Lemma total_advance (ss : list (list A)) i x t : nth_error ss i = Some (x :: t) -> total ss = S (total (advance i ss)).
  Proof.
    intros H. rewrite <- !length_concat. apply advance_perm in H. apply Permutation_length in H. exact H.
  Qed.

  Lemma kmerge_fuel_perm fuel : forall ss, total ss <= fuel -> Permutation (map fst (kmerge_fuel ltb fuel ss)) (concat ss).
  Proof.
    induction fuel as [|f IH]; intros ss Hf.
    - cbn. rewrite <- length_concat in Hf. destruct (concat ss); [constructor|cbn in Hf; lia].
    - cbn [kmerge_fuel]. destruct (min_head ltb ss) as [[i x]|] eqn:Em.
      + destruct (min_head_spec ltb HS _ _ _ Em) as ([t Ht] & _).
        cbn [map fst]. apply Permutation_sym. eapply Permutation_trans; [eapply advance_perm; exact Ht|].
        constructor. apply Permutation_sym. apply IH. pose proof (total_advance _ _ _ _ Ht). lia.
      + apply min_head_none in Em. cbn. clear -Em. induction Em as [|s r Hs _ IH]; [constructor|].
        subst s. cbn. exact IH.
  Qed.

  Theorem kmerge_perm (seqs : list (list A)) : Permutation (map fst (kmerge ltb seqs)) (concat seqs).
  Proof. apply kmerge_fuel_perm. apply le_n. Qed.

  (** ** sortedness *)
  Lemma nth_error_advance (ss : list (list A)) i j :
    nth_error (advance i ss) j = if Nat.eqb i j then option_map (@tl A) (nth_error ss j) else nth_error ss j.
  Proof.
    revert i j. induction ss as [|s r IH]; intros i j.
    - destruct i, j; cbn; try reflexivity; destruct (Nat.eqb _ _); reflexivity.
    - destruct i as [|i'], j as [|j']; cbn; auto.
  Qed.

  Lemma all_sorted_advance ss i : all_sorted ss -> all_sorted (advance i ss).
  Proof.
    unfold MSPSpec.all_sorted. intros H. revert i. induction H as [|s r Hs Hr IH]; intros i.
    - destruct i; constructor.
    - destruct i as [|i']; cbn [advance]; constructor.
      + apply sortedb_tl. exact Hs.
      + exact Hr.
      + exact Hs.
      + apply IH.
  Qed.

  Lemma In_tl (s : list A) y : In y (tl s) -> In y s.
  Proof. destruct s; cbn; auto. Qed.

  Lemma min_head_le_all ss i x :
    all_sorted ss -> min_head ltb ss = Some (i, x) ->
    forall j s y, nth_error ss j = Some s -> In y s -> lexle (x, i) (y, j) = true.
  Proof.
    intros Hs Hm j s y Hj Hy. destruct (min_head_spec ltb HS _ _ _ Hm) as (_ & Hmin).
    destruct s as [|h t]; [destruct Hy|].
    apply (lexle_trans ltb HS) with (q := (h, j)); [eapply Hmin; exact Hj|].
    apply lexle_same_idx. apply In_nth_error in Hy as [q Hq].
    unfold MSPSpec.all_sorted in Hs. rewrite Forall_forall in Hs.
    eapply (sorted_nth ltb HS (h :: t) 0 q); [apply Hs; eapply nth_error_In; exact Hj|lia|reflexivity|exact Hq].
  Qed.

  Lemma kmerge_fuel_tags fuel : forall ss y j,
    In (y, j) (kmerge_fuel ltb fuel ss) -> exists s, nth_error ss j = Some s /\ In y s.
  Proof.
    induction fuel as [|f IH]; intros ss y j H; [destruct H|].
    cbn [kmerge_fuel] in H. destruct (min_head ltb ss) as [[i x]|] eqn:Em; [|destruct H].
    destruct H as [H|H].
    - injection H as -> ->. destruct (min_head_spec ltb HS _ _ _ Em) as ([t Ht] & _).
      exists (y :: t). split; [exact Ht|left; reflexivity].
    - destruct (IH _ _ _ H) as (s' & Hs' & Hy). rewrite nth_error_advance in Hs'.
      destruct (Nat.eqb i j).
      + destruct (nth_error ss j) as [s|]; [|discriminate]. cbn in Hs'. injection Hs' as <-.
        exists s. split; [reflexivity|apply In_tl; exact Hy].
      + eauto.
  Qed.

  Lemma kmerge_fuel_sorted fuel : forall ss,
    all_sorted ss -> StronglySorted (fun p q => lexle p q = true) (kmerge_fuel ltb fuel ss).
  Proof.
    induction fuel as [|f IH]; intros ss Hs; [constructor|].
    cbn [kmerge_fuel]. destruct (min_head ltb ss) as [[i x]|] eqn:Em; [|constructor].
    constructor; [apply IH; apply all_sorted_advance; exact Hs|].
    apply Forall_forall. intros [y j] Hy. destruct (kmerge_fuel_tags _ _ _ _ Hy) as (s' & Hs' & Hin).
    rewrite nth_error_advance in Hs'. destruct (Nat.eqb i j).
    - destruct (nth_error ss j) as [s|] eqn:Ej; [|discriminate]. cbn in Hs'. injection Hs' as <-.
      eapply min_head_le_all; eauto. apply In_tl; exact Hin.
    - eapply min_head_le_all; eauto.
  Qed.

  Theorem kmerge_sorted (seqs : list (list A)) :
    all_sorted seqs -> StronglySorted (fun p q => lexle p q = true) (kmerge ltb seqs).
  Proof. apply kmerge_fuel_sorted. Qed.

  Lemma kmerge_values_sorted (seqs : list (list A)) :
    all_sorted seqs -> StronglySorted (sorted_rel ltb) (map fst (kmerge ltb seqs)).
  Proof.
    intros Hs. pose proof (kmerge_sorted seqs Hs) as H. induction H as [|[x i] l Hl IH Hall]; [constructor|].
    cbn [map fst]. constructor; [exact IH|]. apply Forall_forall. intros y Hy.
    apply in_map_iff in Hy as ([y' j] & <- & Hin). rewrite Forall_forall in Hall. specialize (Hall _ Hin).
    apply lexle_spec in Hall. exact (proj1 Hall).
  Qed.

  (** every element of the merged order carries the number of the sequence it was taken from *)
  Theorem kmerge_tags (seqs : list (list A)) y j :
    In (y, j) (kmerge ltb seqs) -> exists s, nth_error seqs j = Some s /\ In y s.
  Proof. apply kmerge_fuel_tags. Qed.

  (** ** [split_spec] counts the prefixes of the merged order *)
  Lemma ksteps_kmerge r : forall fuel ss cs, r <= fuel ->
    fst (ksteps ltb r ss cs) = fold_left (fun c i => bump i c) (map snd (firstn r (kmerge_fuel ltb fuel ss))) cs.
  Proof.
    induction r as [|r IH]; intros fuel ss cs Hf; [reflexivity|].
    destruct fuel as [|f]; [lia|]. cbn [ksteps kmerge_fuel].
    destruct (min_head ltb ss) as [[i x]|]; [|reflexivity].
    cbn [firstn map snd fold_left]. apply IH. lia.
  Qed.

  Theorem split_spec_counts_merge_prefix (seqs : list (list A)) (r : nat) :
    r <= total seqs ->
    split_spec ltb seqs r =
    fold_left (fun c i => bump i c) (map snd (firstn r (kmerge ltb seqs))) (repeat 0 (length seqs)).
  Proof. intros H. unfold split_spec, kmerge. apply ksteps_kmerge. exact H. Qed.

  (** ** splits at increasing ranks are monotone per sequence (what C06/C07 need from the tie rule) *)
  Lemma Forall2_le_refl (cs : list nat) : Forall2 le cs cs.
  Proof. induction cs; constructor; auto. Qed.

  Lemma Forall2_le_trans (a b c : list nat) : Forall2 le a b -> Forall2 le b c -> Forall2 le a c.
  Proof.
    intros H. revert c. induction H as [|x y l l' Hxy _ IH]; intros c Hc; inversion Hc; subst; constructor; [lia|auto].
  Qed.

  Lemma bump_ge i (cs : list nat) : Forall2 le cs (bump i cs).
  Proof.
    revert i. induction cs as [|c r IH]; intros i; [destruct i; constructor|].
    destruct i as [|i']; cbn [bump]; constructor; auto. apply Forall2_le_refl.
  Qed.

  Lemma ksteps_ge k : forall (ss : list (list A)) cs, Forall2 le cs (fst (ksteps ltb k ss cs)).
  Proof.
    induction k as [|k IH]; intros ss cs; [apply Forall2_le_refl|].
    cbn [ksteps]. destruct (min_head ltb ss) as [[i x]|]; [|apply Forall2_le_refl].
    eapply Forall2_le_trans; [apply bump_ge|apply IH].
  Qed.

  Lemma ksteps_add r : forall k (ss : list (list A)) cs,
    ksteps ltb (r + k) ss cs = ksteps ltb k (snd (ksteps ltb r ss cs)) (fst (ksteps ltb r ss cs)).
  Proof.
    induction r as [|r IH]; intros k ss cs; [reflexivity|].
    cbn [Nat.add ksteps]. destruct (min_head ltb ss) as [[i x]|] eqn:Em.
    - apply IH.
    - cbn [fst snd]. destruct k; [reflexivity|]. cbn [ksteps]. rewrite Em. reflexivity.
  Qed.

  Theorem split_spec_monotone (seqs : list (list A)) (r r' : nat) :
    r <= r' -> Forall2 le (split_spec ltb seqs r) (split_spec ltb seqs r').
  Proof.
    intros H. unfold split_spec. replace r' with (r + (r' - r)) by lia. rewrite ksteps_add. apply ksteps_ge.
  Qed.

  Corollary merged_order (seqs : list (list A)) :
    all_sorted seqs ->
    StronglySorted (fun p q => lexle p q = true) (kmerge ltb seqs) /\
    Permutation (map fst (kmerge ltb seqs)) (concat seqs) /\
    forall r, r <= total seqs ->
      split_spec ltb seqs r =
      fold_left (fun c i => bump i c) (map snd (firstn r (kmerge ltb seqs))) (repeat 0 (length seqs)).
  Proof.
    intros Hs. split; [apply kmerge_sorted; assumption|]. split; [apply kmerge_perm|].
    intros r Hr. apply split_spec_counts_merge_prefix. exact Hr.
  Qed.

  (** ** counting in sorted lists *)
  Lemma count_if_cons (f : A -> bool) x l : count_if f (x :: l) = (if f x then 1 else 0) + count_if f l.
  Proof. unfold count_if. cbn [filter]. destruct (f x); reflexivity. Qed.

  Lemma count_if_perm (f : A -> bool) l l' : Permutation l l' -> count_if f l = count_if f l'.
  Proof.
    induction 1 as [|x l l' _ IH|x y l|l l' l'' _ IH1 _ IH2]; [reflexivity| | |congruence].
    - rewrite !count_if_cons, IH. reflexivity.
    - rewrite !count_if_cons. lia.
  Qed.

  Lemma count_if_ext (f g : A -> bool) l : (forall x, f x = g x) -> count_if f l = count_if g l.
  Proof. intros E. induction l as [|x l IH]; [reflexivity|]. rewrite !count_if_cons, IH, E. reflexivity. Qed.

  Lemma count_if_none (f : A -> bool) l : Forall (fun x => f x = false) l -> count_if f l = 0.
  Proof. induction 1 as [|x l Hx _ IH]; [reflexivity|]. rewrite count_if_cons, Hx, IH. reflexivity. Qed.

  Section Down.
    Variable f : A -> bool.
    Hypothesis down : forall x y, ltb y x = false -> f y = true -> f x = true.

    Lemma prefix_count M : StronglySorted (sorted_rel ltb) M ->
      forall r w, nth_error M r = Some w -> (f w = true <-> r < count_if f M).
    Proof.
      induction 1 as [|a M' HM IH Hall]; intros r w Hr; [destruct r; discriminate|].
      rewrite count_if_cons.
      assert (f a = false -> count_if f M' = 0) as Hnone.
      { intros Hfa. apply count_if_none. rewrite Forall_forall in *. intros y Hy.
        destruct (f y) eqn:E; [|reflexivity]. rewrite (down a y (Hall _ Hy) E) in Hfa. discriminate. }
      destruct r as [|r']; cbn in Hr.
      - injection Hr as ->. destruct (f w) eqn:E.
        + split; [lia|reflexivity].
        + rewrite (Hnone eq_refl). split; [discriminate|lia].
      - specialize (IH _ _ Hr). destruct (f a) eqn:E.
        + rewrite IH. lia.
        + rewrite (Hnone eq_refl) in *. rewrite IH. lia.
    Qed.
  End Down.

  Lemma offset_count M : StronglySorted (sorted_rel ltb) M ->
    forall r w, nth_error M r = Some w ->
    count_if (eqvb ltb w) (firstn r M) = r - count_if (fun x => ltb x w) M.
  Proof.
    induction 1 as [|a M' HM IH Hall]; intros r w Hr; [destruct r; discriminate|].
    destruct r as [|r']; [reflexivity|]. cbn in Hr. cbn [firstn]. rewrite !count_if_cons, (IH _ _ Hr).
    assert (ltb w a = false) as Haw.
    { rewrite Forall_forall in Hall. apply Hall. eapply nth_error_In; exact Hr. }
    unfold eqvb at 1. rewrite Haw. cbn [negb andb].
    destruct (ltb a w) eqn:E; cbn [negb]; [lia|].
    assert (count_if (fun x => ltb x w) M' = 0) as ->; [|lia].
    apply count_if_none. rewrite Forall_forall in *. intros y Hy.
    destruct (ltb y w) eqn:Ey; [|reflexivity].
    assert (ltb a w = true) as C; [|congruence].
    eapply (leb_ltb_trans _ HS); [|exact Ey]. unfold leb. rewrite (Hall _ Hy). reflexivity.
  Qed.

  Lemma eqv_ltb_l v w x : eqvb ltb v w = true -> ltb x v = ltb x w.
  Proof.
    unfold eqvb. rewrite andb_true_iff, !negb_true_iff. intros [H1 H2].
    destruct (ltb x v) eqn:E1, (ltb x w) eqn:E2; auto.
    - destruct (swo_negtrans _ HS _ _ w E1); congruence.
    - destruct (swo_negtrans _ HS _ _ v E2); congruence.
  Qed.

  Lemma eqv_ltb_r v w x : eqvb ltb v w = true -> ltb v x = ltb w x.
  Proof.
    unfold eqvb. rewrite andb_true_iff, !negb_true_iff. intros [H1 H2].
    destruct (ltb v x) eqn:E1, (ltb w x) eqn:E2; auto.
    - destruct (swo_negtrans _ HS _ _ w E1); congruence.
    - destruct (swo_negtrans _ HS _ _ v E2); congruence.
  Qed.

  (** the selection checker is sound and complete for [select_spec] *)
  Theorem check_select_correct (seqs : list (list A)) (r : nat) (v : A) (off : nat) :
    all_sorted seqs -> r < total seqs ->
    (check_select ltb seqs r v off = true <->
     exists w, select_spec ltb seqs r = Some (w, off) /\ eqvb ltb v w = true).
  Proof.
    intros Hs Hr.
    pose proof (kmerge_values_sorted seqs Hs) as HM. pose proof (kmerge_perm seqs) as HP.
    set (M := map fst (kmerge ltb seqs)) in *.
    assert (length M = total seqs) as HL by (rewrite (Permutation_length HP); apply length_concat).
    destruct (nth_error M r) as [w|] eqn:Ew; [|apply nth_error_None in Ew; lia].
    assert (select_spec ltb seqs r = Some (w, count_if (eqvb ltb w) (firstn r M))) as Hsel.
    { unfold select_spec. subst M. rewrite nth_error_map in Ew.
      destruct (nth_error (kmerge ltb seqs) r) as [[w' k]|]; [|discriminate]. cbn in Ew. injection Ew as ->. reflexivity. }
    pose proof (prefix_count (fun x => ltb x w)
                  (fun x y Hxy Hy => leb_ltb_trans _ HS x y w ltac:(unfold leb; now rewrite Hxy) Hy) M HM r w Ew) as P1.
    pose proof (prefix_count (fun x => negb (ltb w x))
                  (fun x y Hxy Hy => leb_trans _ HS x y w ltac:(unfold leb; now rewrite Hxy) Hy) M HM r w Ew) as P2.
    cbn beta in P1, P2. rewrite (swo_irrefl _ HS) in P1, P2. cbn [negb] in P2.
    assert (r < count_if (fun x => negb (ltb w x)) M) as Q2 by (apply P2; reflexivity).
    assert (~ r < count_if (fun x => ltb x w) M) as Q1 by (intros C; apply P1 in C; discriminate).
    pose proof (offset_count M HM r w Ew) as Hoff.
    unfold check_select. rewrite <- !(count_if_perm _ _ _ HP). fold M.
    split.
    - intros H. apply andb_true_iff in H as [H H3]. apply andb_true_iff in H as [H1 H2].
      apply Nat.leb_le in H1. apply Nat.ltb_lt in H2. apply Nat.eqb_eq in H3.
      pose proof (prefix_count (fun x => ltb x v)
                    (fun x y Hxy Hy => leb_ltb_trans _ HS x y v ltac:(unfold leb; now rewrite Hxy) Hy) M HM r w Ew) as R1.
      pose proof (prefix_count (fun x => negb (ltb v x))
                    (fun x y Hxy Hy => leb_trans _ HS x y v ltac:(unfold leb; now rewrite Hxy) Hy) M HM r w Ew) as R2.
      cbn beta in R1, R2.
      assert (eqvb ltb v w = true) as Hv.
      { unfold eqvb. apply andb_true_iff. split.
        - apply R2. exact H2.
        - destruct (ltb w v) eqn:E; [|reflexivity]. assert (r < count_if (fun x => ltb x v) M) by (apply R1; reflexivity). lia. }
      exists w. split; [|exact Hv]. rewrite Hsel. do 2 f_equal. rewrite Hoff, H3.
      rewrite (count_if_ext (fun x => ltb x v) (fun x => ltb x w)); [reflexivity|].
      intros x. apply eqv_ltb_l. exact Hv.
    - intros (w' & Hw' & Hv). rewrite Hsel in Hw'. injection Hw' as <- <-.
      rewrite (count_if_ext (fun x => ltb x v) (fun x => ltb x w)) by (intros x; apply eqv_ltb_l; exact Hv).
      rewrite (count_if_ext (fun x => negb (ltb v x)) (fun x => negb (ltb w x))) by (intros x; f_equal; apply eqv_ltb_r; exact Hv).
      apply andb_true_iff. split; [apply andb_true_iff; split|].
      + apply Nat.leb_le. lia.
      + apply Nat.ltb_lt. exact Q2.
      + apply Nat.eqb_eq. exact Hoff.
  Qed.
End MergeProofs.
