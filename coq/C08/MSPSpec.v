(** C08 — proofs about the specification side of MSP.v: the (value, sequence) order, uniqueness of the split,
    the merged-order split satisfies the property, soundness and completeness of the boolean checker. *)
From Coq Require Import List Bool Arith Lia Sorting.Sorted Sorting.Permutation.
From TLXV Require Import Common.Order C08.MSP.
Import ListNotations.

Section SpecProofs.
  Context {A : Type}.
  Variable ltb : A -> A -> bool.
  Hypothesis HS : SWO ltb.

  Notation lexlt := (lexlt ltb).
  Notation lexle := (lexle ltb).

  (** ** the lexicographic (value, sequence) order *)
  Lemma lexlt_true p q :
    lexlt p q = true <->
    ltb (fst p) (fst q) = true \/ (ltb (fst p) (fst q) = false /\ ltb (fst q) (fst p) = false /\ snd p < snd q).
  Proof.
    unfold MSP.lexlt. destruct (ltb (fst p) (fst q)) eqn:E1.
    - intuition.
    - destruct (ltb (fst q) (fst p)) eqn:E2.
      + split; [discriminate|]. intros [C|(_ & C & _)]; discriminate.
      + rewrite Nat.ltb_lt. intuition discriminate.
  Qed.

  Lemma lexle_spec x i y j :
    lexle (x, i) (y, j) = true <-> ltb y x = false /\ (ltb x y = false -> i <= j).
  Proof.
    unfold MSP.lexle. rewrite negb_true_iff. unfold MSP.lexlt. cbn [fst snd].
    destruct (ltb y x) eqn:E1.
    - split; [discriminate|]. intros [C _]. discriminate.
    - destruct (ltb x y) eqn:E2.
      + split; [intros _; split; [reflexivity|discriminate]|reflexivity].
      + rewrite Nat.ltb_ge. split; [intros H; split; auto|intros [_ H]; auto].
  Qed.

  Lemma SWO_lexlt : SWO lexlt.
  Proof.
    constructor.
    - intros [x i]. unfold MSP.lexlt. cbn [fst snd]. rewrite (swo_irrefl _ HS). apply Nat.ltb_irrefl.
    - intros [x i] [y j] [z k]. rewrite !lexlt_true. cbn [fst snd].
      intros [H1|(H1 & H1' & H1'')] [H2|(H2 & H2' & H2'')].
      + left. eapply (swo_trans _ HS); eassumption.
      + left. eapply (ltb_leb_trans _ HS); [eassumption|]. unfold leb. now rewrite H2'.
      + left. eapply (leb_ltb_trans _ HS); [|eassumption]. unfold leb. now rewrite H1'.
      + right. repeat split.
        * destruct (ltb x z) eqn:E; [|reflexivity].
          destruct (swo_negtrans _ HS _ _ y E) as [C|C]; congruence.
        * destruct (ltb z x) eqn:E; [|reflexivity].
          destruct (swo_negtrans _ HS _ _ y E) as [C|C]; congruence.
        * lia.
    - intros [x i] [y j] [z k]. rewrite !lexlt_true. cbn [fst snd].
      intros [H1|(H1 & H1' & H1'')].
      + destruct (swo_negtrans _ HS _ _ z H1) as [C|C]; [left; left; exact C|right; left; exact C].
      + destruct (ltb x z) eqn:Exz; [left; left; reflexivity|].
        destruct (ltb z y) eqn:Ezy; [right; left; reflexivity|].
        destruct (ltb z x) eqn:Ezx.
        { (* z < x, x ~ y  =>  z < y *)
          exfalso. assert (ltb z y = true) as C.
          { eapply (ltb_leb_trans _ HS); [exact Ezx|]. unfold leb. now rewrite H1'. }
          congruence. }
        destruct (ltb y z) eqn:Eyz.
        { exfalso. assert (ltb x z = true) as C.
          { eapply (leb_ltb_trans _ HS); [|exact Eyz]. unfold leb. now rewrite H1'. }
          congruence. }
        destruct (Nat.lt_ge_cases i k) as [L|L]; [left; right; auto|right; right; repeat split; auto; lia].
  Qed.

  Lemma lexle_trans p q r : lexle p q = true -> lexle q r = true -> lexle p r = true.
  Proof. apply (leb_trans _ SWO_lexlt). Qed.

  Lemma lexle_antisym_idx p q : lexle p q = true -> lexle q p = true -> snd p = snd q.
  Proof.
    destruct p as [x i], q as [y j]. rewrite !lexle_spec. cbn [snd]. intros [H1 H2] [H3 H4].
    specialize (H2 H3). specialize (H4 H1). lia.
  Qed.

  Lemma lexle_same_idx x y i : ltb y x = false -> lexle (x, i) (y, i) = true.
  Proof. intros H. apply lexle_spec. split; auto. Qed.

  (** ** uniqueness of the split *)
  Lemma list_sum_cons (x : nat) l : list_sum (x :: l) = x + list_sum l.
  Proof. reflexivity. Qed.

  Lemma sum_le_eq (cs cs' : list nat) : Forall2 le cs cs' -> list_sum cs = list_sum cs' -> cs = cs'.
  Proof.
    induction 1 as [|c c' r r' Hc HF IH]; [reflexivity|].
    rewrite !list_sum_cons. intros E.
    assert (list_sum r <= list_sum r') as L.
    { clear -HF. induction HF; rewrite ?list_sum_cons; lia. }
    assert (c = c') by lia. subst. f_equal. apply IH. lia.
  Qed.

  Lemma le_or_gt (cs cs' : list nat) :
    length cs = length cs' ->
    Forall2 le cs cs' \/ exists i c c', nth_error cs i = Some c /\ nth_error cs' i = Some c' /\ c' < c.
  Proof.
    revert cs'. induction cs as [|c r IH]; intros [|c' r'] HL; try discriminate.
    - left. constructor.
    - cbn [length] in HL. injection HL as HL.
      destruct (le_lt_dec c c') as [L|L].
      + destruct (IH r' HL) as [F|(i & x & x' & H1 & H2 & H3)].
        * left. constructor; assumption.
        * right. exists (S i), x, x'. auto.
      + right. exists 0, c, c'. auto.
  Qed.

  Theorem spec_unique (seqs : list (list A)) (r : nat) (cs cs' : list nat) :
    is_split ltb seqs r cs -> is_split ltb seqs r cs' -> cs = cs'.
  Proof.
    intros (HL & HB & HSum & HX) (HL' & HB' & HSum' & HX').
    destruct (le_or_gt cs cs') as [F|(i & c & c' & Hi & Hi' & Hlt)]; [congruence|apply sum_le_eq; [exact F|congruence]|].
    destruct (le_or_gt cs' cs) as [F|(j & d' & d & Hj' & Hj & Hlt')]; [congruence|symmetry; apply sum_le_eq; [exact F|congruence]|].
    exfalso.
    assert (exists si, nth_error seqs i = Some si) as [si Hsi].
    { destruct (nth_error seqs i) eqn:E; [eauto|]. apply nth_error_None in E.
      assert (i < length cs) by (apply nth_error_Some; congruence). lia. }
    assert (exists sj, nth_error seqs j = Some sj) as [sj Hsj].
    { destruct (nth_error seqs j) eqn:E; [eauto|]. apply nth_error_None in E.
      assert (j < length cs) by (apply nth_error_Some; congruence). lia. }
    pose proof (HB _ _ _ Hi Hsi) as Bi. pose proof (HB' _ _ _ Hj' Hsj) as Bj.
    assert (exists x, nth_error si c' = Some x) as [x Hx].
    { destruct (nth_error si c') eqn:E; [eauto|]. apply nth_error_None in E. lia. }
    assert (exists y, nth_error sj d = Some y) as [y Hy].
    { destruct (nth_error sj d) eqn:E; [eauto|]. apply nth_error_None in E. lia. }
    (* in cs: x (position c' < c) is left in i, y (position d >= d) is right in j *)
    pose proof (HX i j c d si sj c' d x y Hi Hsi Hj Hsj Hlt (le_n _) Hx Hy) as L1.
    (* in cs': y (position d < d') is left in j, x (position c' >= c') is right in i *)
    pose proof (HX' j i d' c' sj si d c' y x Hj' Hsj Hi' Hsi Hlt' (le_n _) Hy Hx) as L2.
    pose proof (lexle_antisym_idx _ _ L1 L2) as E. cbn [snd] in E. subst j.
    rewrite Hi in Hj. rewrite Hi' in Hj'. injection Hj as ->. injection Hj' as ->. lia.
  Qed.

  (** ** sorted sequences, index form *)
  Definition all_sorted (seqs : list (list A)) : Prop := Forall (fun s => sortedb ltb s = true) seqs.

  Lemma sorted_nth (s : list A) p q x y :
    sortedb ltb s = true -> p <= q -> nth_error s p = Some x -> nth_error s q = Some y -> ltb y x = false.
  Proof.
    intros Hs. apply sortedb_Sorted in Hs. apply (Sorted_StronglySorted _ HS) in Hs.
    revert p q. induction Hs as [|a l Hl IH Hall]; intros p q Hpq Hp Hq.
    - destruct p; discriminate.
    - destruct p as [|p'].
      + cbn in Hp. injection Hp as ->. destruct q as [|q'].
        * cbn in Hq. injection Hq as ->. apply (swo_irrefl _ HS).
        * cbn in Hq. apply nth_error_In in Hq. rewrite Forall_forall in Hall. apply Hall. exact Hq.
      + destruct q as [|q']; [lia|]. cbn in Hp, Hq. eapply IH; [|eassumption|eassumption]. lia.
  Qed.

  Lemma sortedb_tl (s : list A) : sortedb ltb s = true -> sortedb ltb (tl s) = true.
  Proof.
    destruct s as [|x [|y r]]; auto. intros H.
    change (sortedb ltb (x :: y :: r)) with (negb (ltb y x) && sortedb ltb (y :: r)) in H.
    apply andb_true_iff in H. apply H.
  Qed.

  (** ** the state of the k-way merge *)
  Inductive rel3 : list (list A) -> list nat -> list (list A) -> Prop :=
  | rel3_nil : rel3 [] [] []
  | rel3_cons s c t seqs cs ss :
      c <= length s -> t = skipn c s -> rel3 seqs cs ss -> rel3 (s :: seqs) (c :: cs) (t :: ss).

  Lemma rel3_init seqs : rel3 seqs (repeat 0 (length seqs)) seqs.
  Proof. induction seqs; cbn; constructor; auto; lia. Qed.

  Lemma rel3_length seqs cs ss : rel3 seqs cs ss -> length cs = length seqs /\ length ss = length seqs.
  Proof. induction 1; cbn; [auto|]. destruct IHrel3. split; congruence. Qed.

  Lemma rel3_nth seqs cs ss i s c :
    rel3 seqs cs ss -> nth_error seqs i = Some s -> nth_error cs i = Some c ->
    c <= length s /\ nth_error ss i = Some (skipn c s).
  Proof.
    intros H. revert i. induction H as [|s0 c0 t seqs cs ss Hc Ht H IH]; intros i Hs Hcs.
    - destruct i; discriminate.
    - destruct i as [|i']; cbn in *.
      + injection Hs as ->. injection Hcs as ->. subst t. auto.
      + apply IH; assumption.
  Qed.

  Lemma skipn_cons_nth (s : list A) c x t : skipn c s = x :: t -> nth_error s c = Some x /\ skipn (S c) s = t /\ c < length s.
  Proof.
    revert c. induction s as [|a s IH]; intros c H.
    - destruct c; discriminate.
    - destruct c as [|c'].
      + cbn in H. injection H as -> ->. cbn. repeat split. lia.
      + cbn [skipn] in H. destruct (IH _ H) as (H1 & H2 & H3). cbn [nth_error length]. repeat split; auto. lia.
  Qed.

  Lemma nth_skipn_head (s : list A) c x : nth_error s c = Some x -> exists t, skipn c s = x :: t.
  Proof.
    revert c. induction s as [|a s IH]; intros c H.
    - destruct c; discriminate.
    - destruct c as [|c']; cbn in H.
      + injection H as ->. cbn. eauto.
      + cbn [skipn]. apply IH. exact H.
  Qed.

  (** [min_head] returns the (value, sequence)-least head *)
  Lemma min_head_spec ss i x :
    min_head ltb ss = Some (i, x) ->
    (exists t, nth_error ss i = Some (x :: t)) /\
    (forall j y t, nth_error ss j = Some (y :: t) -> lexle (x, i) (y, j) = true).
  Proof.
    revert i x. induction ss as [|s rest IH]; intros i x H; [discriminate|].
    cbn [min_head] in H.
    destruct (min_head ltb rest) as [[j0 y0]|] eqn:Em.
    - destruct (IH _ _ eq_refl) as ([t0 Ht0] & Hmin).
      assert (forall j y t, nth_error rest j = Some (y :: t) -> lexle (y0, S j0) (y, S j) = true) as Hmin'.
      { intros j y t Hj. specialize (Hmin _ _ _ Hj). rewrite lexle_spec in *. destruct Hmin as [H1 H2].
        split; [exact H1|]. intros E. specialize (H2 E). lia. }
      destruct s as [|x0 s'].
      + injection H as <- <-. split; [exists t0; exact Ht0|].
        intros [|j] y t Hj; [discriminate|]. cbn in Hj. eapply Hmin'. exact Hj.
      + destruct (ltb y0 x0) eqn:E.
        * injection H as <- <-. split; [exists t0; exact Ht0|].
          intros [|j] y t Hj.
          -- cbn in Hj. injection Hj as -> ->. apply lexle_spec. split.
             ++ apply (swo_asym _ HS). exact E.
             ++ congruence.
          -- cbn in Hj. eapply Hmin'. exact Hj.
        * injection H as <- <-. split; [exists s'; reflexivity|].
          intros [|j] y t Hj.
          -- cbn in Hj. injection Hj as -> ->. apply lexle_same_idx. apply (swo_irrefl _ HS).
          -- cbn in Hj. apply lexle_trans with (q := (y0, S j0)).
             ++ apply lexle_spec. split; [exact E|lia].
             ++ eapply Hmin'. exact Hj.
    - destruct s as [|x0 s']; [discriminate|]. injection H as <- <-.
      split; [exists s'; reflexivity|].
      intros [|j] y t Hj.
      + cbn in Hj. injection Hj as -> ->. apply lexle_same_idx. apply (swo_irrefl _ HS).
      + exfalso. cbn in Hj. clear -Em Hj. revert j Hj. induction rest as [|s rest IH]; intros j Hj.
        * destruct j; discriminate.
        * cbn [min_head] in Em. destruct j as [|j']; cbn in Hj.
          -- injection Hj as ->. destruct (min_head ltb rest) as [[? ?]|]; [destruct (ltb a y)|]; discriminate.
          -- destruct (min_head ltb rest) as [[? ?]|] eqn:E'.
             ++ destruct s; [discriminate|]. destruct (ltb a a0); discriminate.
             ++ eapply IH; [reflexivity|exact Hj].
  Qed.

  Lemma min_head_none ss : min_head ltb ss = None -> Forall (fun s => s = []) ss.
  Proof.
    induction ss as [|s rest IH]; intros H; [constructor|].
    cbn [min_head] in H. destruct (min_head ltb rest) as [[j y]|] eqn:E.
    - destruct s; [discriminate|]. destruct (ltb y a); discriminate.
    - destruct s; [|discriminate]. constructor; auto.
  Qed.

  Lemma nth_bump i cs j :
    nth_error (bump i cs) j = match nth_error cs j with
                              | Some c => Some (if Nat.eqb i j then S c else c)
                              | None => None
                              end.
  Proof.
    revert i j. induction cs as [|c r IH]; intros i j.
    - destruct i, j; reflexivity.
    - destruct i as [|i'], j as [|j']; cbn; auto.
      destruct (nth_error r j'); reflexivity.
  Qed.

  Lemma sum_bump i cs : i < length cs -> list_sum (bump i cs) = S (list_sum cs).
  Proof.
    revert i. induction cs as [|c r IH]; intros i H; [cbn in H; lia|].
    destruct i as [|i']; cbn [bump]; rewrite !list_sum_cons; [lia|]. cbn in H. rewrite IH; lia.
  Qed.

  Lemma rel3_step seqs cs ss i x t :
    rel3 seqs cs ss -> nth_error ss i = Some (x :: t) -> rel3 seqs (bump i cs) (advance i ss).
  Proof.
    intros H. revert i. induction H as [|s0 c0 t0 seqs cs ss Hc Ht H IH]; intros i Hi.
    - destruct i; discriminate.
    - destruct i as [|i']; cbn in Hi |- *.
      + injection Hi as ->. symmetry in Ht. destruct (skipn_cons_nth _ _ _ _ Ht) as (_ & H2 & H3).
        constructor; [lia| |exact H]. cbn [tl]. symmetry. exact H2.
      + constructor; auto.
  Qed.

  (** the ordering half of [is_split] *)
  Definition cross (seqs : list (list A)) (cs : list nat) : Prop :=
    forall i j ci cj si sj p q x y,
      nth_error cs i = Some ci -> nth_error seqs i = Some si ->
      nth_error cs j = Some cj -> nth_error seqs j = Some sj ->
      p < ci -> cj <= q -> nth_error si p = Some x -> nth_error sj q = Some y ->
      lexle (x, i) (y, j) = true.

  Lemma cross_step seqs cs ss i x :
    all_sorted seqs -> rel3 seqs cs ss -> cross seqs cs -> min_head ltb ss = Some (i, x) ->
    cross seqs (bump i cs).
  Proof.
    intros Hsorted HR HC Hm. destruct (min_head_spec _ _ _ Hm) as ([t Ht] & Hmin).
    intros i1 j1 ci cj si sj p q x1 y1 Hci Hsi Hcj Hsj Hp Hq Hx Hy.
    rewrite nth_bump in Hci, Hcj.
    destruct (nth_error cs i1) as [ci0|] eqn:Eci; [|discriminate]. injection Hci as <-.
    destruct (nth_error cs j1) as [cj0|] eqn:Ecj; [|discriminate]. injection Hcj as <-.
    assert (cj0 <= q) as Hq0 by (destruct (Nat.eqb i j1); lia).
    destruct (Nat.eqb_spec i i1) as [->|Hne].
    2:{ eapply HC; eauto. }
    destruct (Nat.eq_dec p ci0) as [->|Hnp].
    2:{ eapply HC; eauto. lia. }
    (* (x1, i1) is the element just taken: it is the head of the remaining part of sequence i1 *)
    destruct (rel3_nth _ _ _ _ _ _ HR Hsi Eci) as [Hle Hss]. rewrite Ht in Hss. injection Hss as Hss.
    symmetry in Hss. destruct (skipn_cons_nth _ _ _ _ Hss) as (Hx0 & _ & _).
    rewrite Hx in Hx0. injection Hx0 as ->.
    (* head of the remaining part of j1 *)
    destruct (rel3_nth _ _ _ _ _ _ HR Hsj Ecj) as [Hlej Hssj].
    assert (cj0 < length sj) as Hlt.
    { assert (q < length sj) by (apply nth_error_Some; congruence). lia. }
    destruct (nth_error sj cj0) as [h|] eqn:Eh; [|apply nth_error_None in Eh; lia].
    destruct (nth_skipn_head _ _ _ Eh) as [tj Htj]. rewrite Htj in Hssj.
    apply lexle_trans with (q := (h, j1)).
    - eapply Hmin. exact Hssj.
    - apply lexle_same_idx. unfold all_sorted in Hsorted. rewrite Forall_forall in Hsorted.
      eapply sorted_nth; [apply Hsorted; eapply nth_error_In; exact Hsj|exact Hq0|exact Eh|exact Hy].
  Qed.

  Lemma sum_full seqs cs ss :
    rel3 seqs cs ss -> Forall (fun s => s = []) ss -> list_sum cs = total seqs.
  Proof.
    unfold total. induction 1 as [|s c t seqs cs ss Hc Ht H IH]; intros HF; [reflexivity|].
    inversion HF as [|? ? Hnil HF']; subst. cbn [map]. rewrite !list_sum_cons. rewrite IH by assumption.
    assert (length (skipn c s) = 0) as E by (rewrite Hnil; reflexivity).
    rewrite skipn_length in E. lia.
  Qed.

  Lemma ksteps_inv r : forall seqs cs ss,
    all_sorted seqs -> rel3 seqs cs ss -> cross seqs cs -> list_sum cs + r <= total seqs ->
    rel3 seqs (fst (ksteps ltb r ss cs)) (snd (ksteps ltb r ss cs)) /\
    cross seqs (fst (ksteps ltb r ss cs)) /\
    list_sum (fst (ksteps ltb r ss cs)) = list_sum cs + r.
  Proof.
    induction r as [|r IH]; intros seqs cs ss Hs HR HC Hsum.
    - cbn. repeat split; auto.
    - cbn [ksteps]. destruct (min_head ltb ss) as [[i x]|] eqn:Em.
      + destruct (min_head_spec _ _ _ Em) as ([t Ht] & _).
        assert (i < length cs) as Hi.
        { destruct (rel3_length _ _ _ HR) as [L1 L2]. rewrite L1, <- L2. apply nth_error_Some. congruence. }
        pose proof (rel3_step _ _ _ _ _ _ HR Ht) as HR'.
        pose proof (cross_step _ _ _ _ _ Hs HR HC Em) as HC'.
        pose proof (sum_bump _ _ Hi) as Hb.
        destruct (IH seqs (bump i cs) (advance i ss) Hs HR' HC') as (R1 & R2 & R3); [lia|].
        repeat split; auto. lia.
      + exfalso. pose proof (sum_full _ _ _ HR (min_head_none _ Em)). lia.
  Qed.

  Lemma rel3_bound seqs cs ss : rel3 seqs cs ss ->
    forall i c s, nth_error cs i = Some c -> nth_error seqs i = Some s -> c <= length s.
  Proof. intros H i c s Hc Hs. eapply rel3_nth; eauto. Qed.

  Lemma cross_init seqs : cross seqs (repeat 0 (length seqs)).
  Proof.
    intros i j ci cj si sj p q x y Hci. apply nth_error_In in Hci. apply repeat_spec in Hci. subst. lia.
  Qed.

  (** the split defined by the merged order satisfies the property *)
  Theorem split_spec_is_split (seqs : list (list A)) (r : nat) :
    all_sorted seqs -> r <= total seqs -> is_split ltb seqs r (split_spec ltb seqs r).
  Proof.
    intros Hs Hr. unfold split_spec.
    assert (list_sum (repeat 0 (length seqs)) = 0) as Z0.
    { induction (length seqs); cbn; auto. }
    destruct (ksteps_inv r seqs _ _ Hs (rel3_init seqs) (cross_init seqs)) as (R1 & R2 & R3); [lia|].
    split; [apply (rel3_length _ _ _ R1)|]. split; [eapply rel3_bound; exact R1|]. split; [lia|exact R2].
  Qed.

  Corollary is_split_iff_spec (seqs : list (list A)) (r : nat) (cs : list nat) :
    all_sorted seqs -> r <= total seqs -> (is_split ltb seqs r cs <-> cs = split_spec ltb seqs r).
  Proof.
    intros Hs Hr. split.
    - intros H. eapply spec_unique; [exact H|apply split_spec_is_split; assumption].
    - intros ->. apply split_spec_is_split; assumption.
  Qed.
End SpecProofs.
