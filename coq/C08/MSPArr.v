(** C08 — list-as-array infrastructure for the proof of the halving loop (MSPLoop.v): [upd], [indexed] folds and
    maps, insertion into sorted lists (the model of std::sort and std::priority_queue). *)
From Coq Require Import List Bool Arith ZArith Lia Sorting.Sorted Sorting.Permutation.
From TLXV Require Import Common.Order C08.MSP C08.MSPSpec C08.MSPCheck.
Import ListNotations.

Section Arr.
  Context {X : Type}.

  Lemma upd_length (i : nat) (f : X -> X) (l : list X) : length (upd i f l) = length l.
  Proof. revert i. induction l as [|x r IH]; intros [|i]; cbn; auto. Qed.

  Lemma nth_upd_same (i : nat) (f : X -> X) (l : list X) (d : X) :
    i < length l -> nth i (upd i f l) d = f (nth i l d).
  Proof.
    revert i. induction l as [|x r IH]; intros [|i] H; cbn in *; try lia; auto. apply IH. lia.
  Qed.

  Lemma nth_upd_other (i j : nat) (f : X -> X) (l : list X) (d : X) :
    i <> j -> nth j (upd i f l) d = nth j l d.
  Proof.
    revert i j. induction l as [|x r IH]; intros [|i] [|j] H; cbn; auto; try lia.
  Qed.

  Lemma nth_error_nth_some (l : list X) (k : nat) (x d : X) : nth_error l k = Some x -> nth k l d = x.
  Proof. intros H. apply nth_error_nth. exact H. Qed.

  Lemma nth_error_of_nth (l : list X) (k : nat) (d : X) : k < length l -> nth_error l k = Some (nth k l d).
  Proof. intros H. apply nth_error_nth'. exact H. Qed.
End Arr.

Section Indexed.
  Context {X Acc : Type}.

  Lemma fold_indexed_gen (f : Acc -> nat * X -> Acc) (Q : nat -> Acc -> Prop) (l : list X) :
    forall k acc,
      (forall i x acc', nth_error l i = Some x -> Q (k + i) acc' -> Q (S (k + i)) (f acc' (k + i, x))) ->
      Q k acc -> Q (k + length l) (fold_left f (combine (seq k (length l)) l) acc).
  Proof.
    induction l as [|x r IH]; intros k acc Hstep H0.
    - cbn. rewrite Nat.add_0_r. exact H0.
    - cbn [length seq combine fold_left]. replace (k + S (length r)) with (S k + length r) by lia.
      apply IH.
      + intros i y acc' Hy HQ. replace (S k + i) with (k + S i) in * by lia. apply Hstep; [exact Hy|exact HQ].
      + specialize (Hstep 0 x acc eq_refl). rewrite Nat.add_0_r in Hstep. apply Hstep. exact H0.
  Qed.

  (** induction principle for the [for (i = 0; i < m; ++i)] loops written as folds over [indexed] *)
  Lemma fold_indexed_ind (f : Acc -> nat * X -> Acc) (Q : nat -> Acc -> Prop) (l : list X) (acc0 : Acc) :
    Q 0 acc0 ->
    (forall k x acc, nth_error l k = Some x -> Q k acc -> Q (S k) (f acc (k, x))) ->
    Q (length l) (fold_left f (indexed l) acc0).
  Proof.
    intros H0 Hstep. unfold indexed. apply (fold_indexed_gen f Q l 0 acc0); [|exact H0].
    intros i x acc' Hx HQ. cbn [Nat.add] in *. apply Hstep; assumption.
  Qed.
End Indexed.

Section IndexedMap.
  Context {X Y : Type}.

  Lemma nth_error_indexed (l : list X) (i : nat) :
    nth_error (indexed l) i = option_map (pair i) (nth_error l i).
  Proof.
    unfold indexed.
    assert (forall k, nth_error (combine (seq k (length l)) l) i = option_map (pair (k + i)) (nth_error l i)) as G.
    { revert i. induction l as [|x r IH]; intros i k; [destruct i; reflexivity|].
      cbn [length seq combine]. destruct i as [|i]; cbn [nth_error option_map].
      - rewrite Nat.add_0_r. reflexivity.
      - rewrite IH. replace (S k + i) with (k + S i) by lia. reflexivity. }
    apply (G 0).
  Qed.

  Lemma indexed_length (l : list X) : length (indexed l) = length l.
  Proof. unfold indexed. rewrite combine_length, seq_length. lia. Qed.

  Lemma nth_map_indexed (g : nat * X -> Y) (l : list X) (i : nat) (dx : X) (dy : Y) :
    i < length l -> nth i (map g (indexed l)) dy = g (i, nth i l dx).
  Proof.
    intros H. apply nth_error_nth. rewrite nth_error_map, nth_error_indexed, (nth_error_of_nth l i dx H). reflexivity.
  Qed.
End IndexedMap.

(** ** insertion into a list sorted by a strict weak order *)
Section Insert.
  Context {X : Type}.
  Variable lt : X -> X -> bool.
  Hypothesis Hlt : SWO lt.

  Notation le := (fun p q => leb lt p q = true).

  Lemma insert_by_perm (x : X) (l : list X) : Permutation (insert_by lt x l) (x :: l).
  Proof.
    induction l as [|y r IH]; cbn [insert_by]; [apply Permutation_refl|].
    destruct (lt y x); [|apply Permutation_refl].
    eapply Permutation_trans; [apply perm_skip; exact IH|apply perm_swap].
  Qed.

  Lemma insert_by_In (x z : X) (l : list X) : In z (insert_by lt x l) <-> z = x \/ In z l.
  Proof.
    split; intros H.
    - apply (Permutation_in _ (insert_by_perm x l)) in H. destruct H; auto.
    - apply (Permutation_in _ (Permutation_sym (insert_by_perm x l))). destruct H; [left; auto|right; auto].
  Qed.

  Lemma insert_by_sorted (x : X) (l : list X) :
    StronglySorted le l -> StronglySorted le (insert_by lt x l).
  Proof.
    induction 1 as [|y r Hr IH Hall]; cbn [insert_by]; [repeat constructor|].
    destruct (lt y x) eqn:E.
    - constructor; [exact IH|]. apply Forall_forall. intros z Hz. apply insert_by_In in Hz as [->|Hz].
      + apply (ltb_leb _ Hlt). exact E.
      + rewrite Forall_forall in Hall. apply Hall. exact Hz.
    - constructor; [constructor; assumption|]. constructor.
      + unfold leb. rewrite E. reflexivity.
      + rewrite Forall_forall in *. intros z Hz. apply (leb_trans _ Hlt) with (y := y); [|apply Hall; exact Hz].
        unfold leb. rewrite E. reflexivity.
  Qed.

  Lemma sorted_head_min (x : X) (l : list X) z : StronglySorted le (x :: l) -> In z (x :: l) -> leb lt x z = true.
  Proof.
    intros H Hz. inversion H as [|? ? _ Hall]; subst. destruct Hz as [<-|Hz]; [apply (leb_refl _ Hlt)|].
    rewrite Forall_forall in Hall. apply Hall. exact Hz.
  Qed.

  Lemma sorted_tail (x : X) (l : list X) : StronglySorted le (x :: l) -> StronglySorted le l.
  Proof. intros H. inversion H; assumption. Qed.
End Insert.
