(** C08 — the boolean checker [check_split] decides [is_split] on sorted sequences (sound and complete). *)
From Coq Require Import List Bool Arith Lia.
From TLXV Require Import Common.Order C08.MSP C08.MSPSpec.
Import ListNotations.

Section ListFacts.
  Context {X Y : Type}.

  Lemma forallb2_spec (f : X -> Y -> bool) l l' :
    forallb2 f l l' = true <->
    length l = length l' /\ forall i x y, nth_error l i = Some x -> nth_error l' i = Some y -> f x y = true.
  Proof.
    revert l'. induction l as [|a l IH]; intros [|b l']; cbn [forallb2 length].
    - split; [intros _; split; [reflexivity|intros [|i] ? ? H; discriminate]|reflexivity].
    - split; [discriminate|intros [H _]; discriminate].
    - split; [discriminate|intros [H _]; discriminate].
    - rewrite andb_true_iff, IH. split.
      + intros (Hab & HL & Hall). split; [lia|]. intros [|i] x y Hx Hy; cbn in Hx, Hy.
        * injection Hx as <-. injection Hy as <-. exact Hab.
        * eapply Hall; eassumption.
      + intros (HL & Hall). split; [apply (Hall 0); reflexivity|]. split; [lia|].
        intros i x y Hx Hy. apply (Hall (S i)); assumption.
  Qed.

  Lemma nth_error_combine (l : list X) (l' : list Y) i a b :
    nth_error (combine l l') i = Some (a, b) <-> nth_error l i = Some a /\ nth_error l' i = Some b.
  Proof.
    revert l' i. induction l as [|x l IH]; intros [|y l'] [|i]; cbn; try (split; [discriminate|intros [? ?]; discriminate]).
    - split; [intros H; injection H as <- <-; auto|intros [H1 H2]; injection H1 as <-; injection H2 as <-; reflexivity].
    - apply IH.
  Qed.

  Lemma In_indexed_gen (l : list X) k i x :
    In (i, x) (combine (seq k (length l)) l) <-> k <= i /\ nth_error l (i - k) = Some x.
  Proof.
    revert k. induction l as [|a l IH]; intros k; cbn [length seq combine In].
    - split; [tauto|]. intros [_ H]. destruct (i - k); discriminate.
    - rewrite IH. split.
      + intros [H|[H1 H2]].
        * injection H as <- <-. split; [lia|]. rewrite Nat.sub_diag. reflexivity.
        * split; [lia|]. replace (i - k) with (S (i - S k)) by lia. exact H2.
      + intros [H1 H2]. destruct (Nat.eq_dec i k) as [->|Hne].
        * left. rewrite Nat.sub_diag in H2. cbn in H2. injection H2 as <-. reflexivity.
        * right. split; [lia|]. replace (i - k) with (S (i - S k)) in H2 by lia. exact H2.
  Qed.

  Lemma In_indexed (l : list X) i x : In (i, x) (indexed l) <-> nth_error l i = Some x.
  Proof. unfold indexed. rewrite In_indexed_gen, Nat.sub_0_r. split; [tauto|split; [lia|assumption]]. Qed.
End ListFacts.

Section CheckProofs.
  Context {A : Type}.
  Variable ltb : A -> A -> bool.
  Hypothesis HS : SWO ltb.

  Lemma lastleft_some (s : list A) c x : lastleft s c = Some x <-> exists c', c = S c' /\ nth_error s c' = Some x.
  Proof.
    destruct c as [|c']; cbn [lastleft].
    - split; [discriminate|intros (? & ? & _); discriminate].
    - split; [eauto|intros (? & E & H); injection E as <-; exact H].
  Qed.

  Theorem check_split_sound (seqs : list (list A)) (r : nat) (cs : list nat) :
    all_sorted ltb seqs -> check_split ltb seqs r cs = true -> is_split ltb seqs r cs.
  Proof.
    intros Hsorted H. unfold check_split in H.
    apply andb_true_iff in H as [H H3]. apply andb_true_iff in H as [H1 H2].
    apply forallb2_spec in H1 as [HL HB]. apply Nat.eqb_eq in H2.
    split; [exact HL|]. split.
    { intros i c s Hc Hs. apply Nat.leb_le. eapply HB; eassumption. }
    split; [exact H2|].
    intros i j ci cj si sj p q x y Hci Hsi Hcj Hsj Hp Hq Hx Hy.
    rewrite forallb_forall in H3.
    assert (In (i, (ci, si)) (indexed (combine cs seqs))) as Ini.
    { apply In_indexed. apply nth_error_combine. auto. }
    assert (In (j, (cj, sj)) (indexed (combine cs seqs))) as Inj.
    { apply In_indexed. apply nth_error_combine. auto. }
    specialize (H3 _ Ini). cbn beta iota in H3. rewrite forallb_forall in H3. specialize (H3 _ Inj).
    cbn beta iota in H3.
    assert (ci <= length si) as Bi by (apply Nat.leb_le; eapply HB; eassumption).
    assert (q < length sj) as Bq by (apply nth_error_Some; congruence).
    destruct ci as [|ci']; [lia|]. cbn [lastleft] in H3.
    destruct (nth_error si ci') as [x'|] eqn:Ex'; [|apply nth_error_None in Ex'; lia].
    destruct (nth_error sj cj) as [y'|] eqn:Ey'; [|apply nth_error_None in Ey'; lia].
    unfold all_sorted in Hsorted. rewrite Forall_forall in Hsorted.
    apply (lexle_trans ltb HS) with (q := (x', i)).
    { apply lexle_same_idx. eapply (sorted_nth ltb HS si p ci'); [apply Hsorted; eapply nth_error_In; exact Hsi|lia|exact Hx|exact Ex']. }
    apply (lexle_trans ltb HS) with (q := (y', j)); [exact H3|].
    apply lexle_same_idx. eapply (sorted_nth ltb HS sj cj q); [apply Hsorted; eapply nth_error_In; exact Hsj|lia|exact Ey'|exact Hy].
  Qed.

  Theorem check_split_complete (seqs : list (list A)) (r : nat) (cs : list nat) :
    is_split ltb seqs r cs -> check_split ltb seqs r cs = true.
  Proof.
    intros (HL & HB & HSum & HX). unfold check_split.
    apply andb_true_iff. split; [apply andb_true_iff; split|].
    - apply forallb2_spec. split; [exact HL|]. intros i c s Hc Hs. apply Nat.leb_le. eapply HB; eassumption.
    - apply Nat.eqb_eq. exact HSum.
    - apply forallb_forall. intros [i [ci si]] Ini. apply forallb_forall. intros [j [cj sj]] Inj.
      apply In_indexed in Ini, Inj. apply nth_error_combine in Ini as [Hci Hsi]. apply nth_error_combine in Inj as [Hcj Hsj].
      destruct (lastleft si ci) as [x|] eqn:El; [|reflexivity].
      destruct (nth_error sj cj) as [y|] eqn:Er; [|reflexivity].
      apply lastleft_some in El as (ci' & -> & Hx).
      eapply (HX i j (S ci') cj si sj ci' cj); eauto.
  Qed.

  Corollary check_split_correct (seqs : list (list A)) (r : nat) (cs : list nat) :
    all_sorted ltb seqs -> (check_split ltb seqs r cs = true <-> is_split ltb seqs r cs).
  Proof. intros Hs. split; [apply check_split_sound; exact Hs|apply check_split_complete]. Qed.

  (** what the run-time check relies on: an answer accepted by the checker is the answer *)
  Corollary check_split_is_spec (seqs : list (list A)) (r : nat) (cs : list nat) :
    all_sorted ltb seqs -> r <= total seqs ->
    (check_split ltb seqs r cs = true <-> cs = split_spec ltb seqs r).
  Proof.
    intros Hs Hr. rewrite (check_split_correct _ _ _ Hs). apply (is_split_iff_spec ltb HS); assumption.
  Qed.

  Corollary check_split_correct_both (seqs : list (list A)) (r : nat) (cs : list nat) :
    all_sorted ltb seqs -> r <= total seqs ->
    (check_split ltb seqs r cs = true <-> is_split ltb seqs r cs) /\
    (check_split ltb seqs r cs = true <-> cs = split_spec ltb seqs r).
  Proof. intros Hs Hr. split; [apply check_split_correct; assumption|apply check_split_is_spec; assumption]. Qed.
End CheckProofs.
