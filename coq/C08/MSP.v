(** C08 — multisequence_partition / multisequence_selection: specification, boolean checkers and the executable
    model of the algorithm of tlx/algorithm/multisequence_partition.hpp and multisequence_selection.hpp.
    Definitions only (no proofs) so that the file extracts and can be imported by C06/C07 even when a proof
    breaks.  Proofs: MSPSpec.v (specification, uniqueness, checkers), MSPAlgo.v (facts about the algorithm). *)
From Coq Require Import List Bool Arith ZArith.
Import ListNotations.

Section Spec.
  Context {A : Type}.
  Variable ltb : A -> A -> bool.     (* the C++ comparator `comp` *)

  (** [lexicographic<T1,T2,Comparator>] of both headers: (value, sequence number) ascending. *)
  Definition lexlt (p q : A * nat) : bool :=
    if ltb (fst p) (fst q) then true
    else if ltb (fst q) (fst p) then false
    else Nat.ltb (snd p) (snd q).
  Definition lexle (p q : A * nat) : bool := negb (lexlt q p).

  Definition total (seqs : list (list A)) : nat := list_sum (map (@length A) seqs).

  (** *** The property as a predicate: [cs] (one count per sequence) splits [seqs] at global rank [r]. *)
  Definition is_split (seqs : list (list A)) (r : nat) (cs : list nat) : Prop :=
    length cs = length seqs /\
    (forall i c s, nth_error cs i = Some c -> nth_error seqs i = Some s -> c <= length s) /\
    list_sum cs = r /\
    (forall i j ci cj si sj p q x y,
        nth_error cs i = Some ci -> nth_error seqs i = Some si ->
        nth_error cs j = Some cj -> nth_error seqs j = Some sj ->
        p < ci -> cj <= q -> nth_error si p = Some x -> nth_error sj q = Some y ->
        lexle (x, i) (y, j) = true).

  (** *** The merged order, operationally: repeatedly take the (value, sequence)-smallest head. *)
  Fixpoint min_head (ss : list (list A)) : option (nat * A) :=
    match ss with
    | [] => None
    | s :: rest =>
        match s, min_head rest with
        | [], None => None
        | [], Some (j, y) => Some (S j, y)
        | x :: _, None => Some (0, x)
        | x :: _, Some (j, y) => if ltb y x then Some (S j, y) else Some (0, x)
        end
    end.

  Fixpoint advance (i : nat) (ss : list (list A)) : list (list A) :=
    match ss, i with
    | [], _ => []
    | s :: r, O => tl s :: r
    | s :: r, S i' => s :: advance i' r
    end.

  Fixpoint bump (i : nat) (cs : list nat) : list nat :=
    match cs, i with
    | [], _ => []
    | c :: r, O => S c :: r
    | c :: r, S i' => c :: bump i' r
    end.

  (** [ksteps r ss cs]: take [r] elements in merged order; [cs] counts what was taken per sequence. *)
  Fixpoint ksteps (r : nat) (ss : list (list A)) (cs : list nat) : list nat * list (list A) :=
    match r with
    | O => (cs, ss)
    | S r' => match min_head ss with
              | None => (cs, ss)
              | Some (i, _) => ksteps r' (advance i ss) (bump i cs)
              end
    end.

  Definition split_spec (seqs : list (list A)) (r : nat) : list nat :=
    fst (ksteps r seqs (repeat 0 (length seqs))).

  (** the merged sequence itself, each element tagged with its source sequence *)
  Fixpoint kmerge_fuel (fuel : nat) (ss : list (list A)) : list (A * nat) :=
    match fuel with
    | O => []
    | S f => match min_head ss with
             | None => []
             | Some (i, x) => (x, i) :: kmerge_fuel f (advance i ss)
             end
    end.
  Definition kmerge (seqs : list (list A)) : list (A * nat) := kmerge_fuel (total seqs) seqs.

  Definition eqvb (x y : A) : bool := negb (ltb x y) && negb (ltb y x).
  Definition count_if (f : A -> bool) (l : list A) : nat := length (filter f l).

  (** selection: the element at rank [r] of the merged order and the number of elements equivalent to it that
      precede it there. *)
  Definition select_spec (seqs : list (list A)) (r : nat) : option (A * nat) :=
    match nth_error (kmerge seqs) r with
    | None => None
    | Some (v, _) => Some (v, count_if (eqvb v) (firstn r (map fst (kmerge seqs))))
    end.

  (** *** Boolean checkers of the property (run on the implementation's answers). *)
  Definition lastleft (s : list A) (c : nat) : option A :=
    match c with O => None | S c' => nth_error s c' end.

  Definition indexed {X} (l : list X) : list (nat * X) := combine (seq 0 (length l)) l.

  Fixpoint forallb2 {X Y} (f : X -> Y -> bool) (l : list X) (l' : list Y) : bool :=
    match l, l' with
    | [], [] => true
    | x :: r, y :: r' => f x y && forallb2 f r r'
    | _, _ => false
    end.

  (** for sorted sequences it suffices to compare the last element of every left part with the first element of
      every right part (check_split_sound / check_split_complete in MSPSpec.v) *)
  Definition check_split (seqs : list (list A)) (r : nat) (cs : list nat) : bool :=
    forallb2 (fun c s => c <=? length s) cs seqs &&
    (list_sum cs =? r) &&
    let ix := indexed (combine cs seqs) in
    forallb (fun '(i, (ci, si)) =>
      forallb (fun '(j, (cj, sj)) =>
        match lastleft si ci, nth_error sj cj with
        | Some x, Some y => lexle (x, i) (y, j)
        | _, _ => true
        end) ix) ix.

  (** [v] is equivalent to the element of rank [r] iff  #(< v) <= r < #(<= v);  the offset is r - #(< v). *)
  Definition check_select (seqs : list (list A)) (r : nat) (v : A) (off : nat) : bool :=
    let all := concat seqs in
    let less := count_if (fun x => ltb x v) all in
    let leq := count_if (fun x => negb (ltb v x)) all in
    (less <=? r) && (r <? leq) && (off =? r - less).
End Spec.

(** ** The algorithm as it is in the two headers. *)
Section Algo.
  Context {A : Type}.
  Variable ltb : A -> A -> bool.
  Local Open Scope Z_scope.

  Definition zlen (s : list A) : Z := Z.of_nat (length s).

  Section WithInput.
  Variable seqs : list (list A).
  Variable d : A.                     (* only ever returned for an out-of-range index, which [inv_ok] excludes *)
  Variable rank : Z.

  Definition el (s : list A) (p : Z) : A := nth (Z.to_nat p) s d.
  Definition sq (i : nat) : list A := nth i seqs [].

  Fixpoint upd {X} (i : nat) (f : X -> X) (l : list X) : list X :=
    match l, i with
    | [], _ => []
    | x :: r, O => f x :: r
    | x :: r, S i' => x :: upd i' f r
    end.

  (** insertion into a list kept sorted by [lt]: the model of std::sort on the sample and of both
      std::priority_queue's (all keys carry distinct sequence numbers, so the order is total and the result of
      the std:: routine is determined). *)
  Fixpoint insert_by {X} (lt : X -> X -> bool) (x : X) (l : list X) : list X :=
    match l with
    | [] => [x]
    | y :: r => if lt y x then y :: insert_by lt x r else x :: l
    end.
  Definition sort_by {X} (lt : X -> X -> bool) (l : list X) : list X := fold_right (insert_by lt) [] l.

  Definition lexgt (p q : A * nat) : bool := lexlt ltb q p.

  (** round_up_to_power_of_two(x) for x >= 1 *)
  Definition rup2 (x : Z) : Z := 2 ^ Z.log2_up x.

  (** lines 174-196: the sample of elements at position n, real ones sorted, "infinite" ones behind *)
  Definition sample (n : Z) : list (A * nat) :=
    sort_by (lexlt ltb)
      (flat_map (fun '(i, s) => if n <? zlen s then [(el s n, i)] else []) (indexed seqs))
    ++ flat_map (fun '(i, s) => if n >=? zlen s then [(el s 0, i)] else []) (indexed seqs).

  (** lines 198-204 *)
  Fixpoint init_ab (smp : list (A * nat)) (j localrank n : Z) (a b : list Z) : list Z * list Z :=
    match smp with
    | [] => (a, b)
    | (_, i) :: rest =>
        if (j <? localrank) && (n + 1 <=? zlen (sq i))
        then init_ab rest (j + 1) localrank n (upd i (fun x => x + (n + 1)) a) b
        else (a, fold_left (fun b' '(_, i') => upd i' (fun x => x - (n + 1)) b') smp b)
    end.

  (** lines 212-226.  [rear = true]: partition ("max, favor rear sequences", [not comp(x, lmax)]);
      [rear = false]: selection ([comp(lmax, x)]). The sequence number of lmax is what the repair adds. *)
  Definition lmax_of (rear : bool) (a : list Z) : option (A * nat) :=
    fold_left (fun acc '(i, (s, ai)) =>
                 if 0 <? ai then
                   let x := el s (ai - 1) in
                   match acc with
                   | None => Some (x, i)
                   | Some (lv, _) => if (if rear then negb (ltb x lv) else ltb lv x) then Some (x, i) else acc
                   end
                 else acc)
              (indexed (combine seqs a)) None.

  (** lines 228-236.  [midlex = true] is the repaired comparison by (value, sequence); [false] the shipped
      plain [comp]. *)
  Definition mid_step (midlex : bool) (lm : option (A * nat)) (n : Z) (i : nat) (s : list A) (ai bi : Z) : Z * Z :=
    let middle := (bi + ai) / 2 in
    match lm with
    | Some (lv, li) =>
        if (middle <? zlen s) &&
           (if midlex then lexlt ltb (el s middle, i) (lv, li) else ltb (el s middle) lv)
        then (Z.min (ai + n + 1) (zlen s), bi)
        else (ai, bi - (n + 1))
    | None => (ai, bi - (n + 1))
    end.

  Definition leftsize (n : Z) (a : list Z) : Z := fold_left (fun acc ai => acc + ai / (n + 1)) a 0.

  (** lines 244-269: skew > 0, priority queue of the smallest right elements *)
  Definition pq_min (b : list Z) : list (A * nat) :=
    fold_left (fun pq '(i, (s, bi)) => if bi <? zlen s then insert_by (lexlt ltb) (el s bi, i) pq else pq)
              (indexed (combine seqs b)) [].

  Fixpoint move_left (k : nat) (n : Z) (pq : list (A * nat)) (a b : list Z) : list Z * list Z :=
    match k with
    | O => (a, b)
    | S k' =>
        match pq with
        | [] => (a, b)
        | (_, src) :: pq' =>
            let s := sq src in
            let a' := upd src (fun x => Z.min (x + n + 1) (zlen s)) a in
            let b' := upd src (fun x => x + (n + 1)) b in
            let bs := nth src b' 0 in
            let pq'' := if bs <? zlen s then insert_by (lexlt ltb) (el s bs, src) pq' else pq' in
            move_left k' n pq'' a' b'
        end
    end.

  (** lines 270-295: skew < 0, priority queue of the greatest left elements; [None] = pq.top() on an empty queue *)
  Definition pq_max (a : list Z) : list (A * nat) :=
    fold_left (fun pq '(i, (s, ai)) => if 0 <? ai then insert_by lexgt (el s (ai - 1), i) pq else pq)
              (indexed (combine seqs a)) [].

  Fixpoint move_right (k : nat) (n : Z) (pq : list (A * nat)) (a b : list Z) : option (list Z * list Z) :=
    match k with
    | O => Some (a, b)
    | S k' =>
        match pq with
        | [] => None
        | (_, src) :: pq' =>
            let s := sq src in
            let a' := upd src (fun x => x - (n + 1)) a in
            let b' := upd src (fun x => x - (n + 1)) b in
            let asrc := nth src a' 0 in
            let pq'' := if 0 <? asrc then insert_by lexgt (el s (asrc - 1), src) pq' else pq' in
            move_right k' n pq'' a' b'
        end
    end.

  (** the invariant documented at lines 169-170, "0 <= a[i] <= seqlen[i], 0 <= b[i] <= l"; every element access of
      the loop is in range when it holds, and the model gives up ([None]) when it does not *)
  Definition inv_ok (l : Z) (a b : list Z) : bool :=
    forallb2 (fun s ai => (0 <=? ai) && (ai <=? zlen s)) seqs a &&
    forallb (fun bi => (0 <=? bi) && (bi <=? l)) b.

  (** lines 208-296: [while (n > 0) { n /= 2; ... }] *)
  Fixpoint refine (rear midlex : bool) (l : Z) (fuel : nat) (n : Z) (a b : list Z) : option (list Z * list Z) :=
    if negb (inv_ok l a b) then None
    else if n <=? 0 then Some (a, b)
    else match fuel with
         | O => None
         | S f =>
             let n' := n / 2 in
             let lm := lmax_of rear a in
             let ab := map (fun '(i, (s, (ai, bi))) => mid_step midlex lm n' i s ai bi)
                           (indexed (combine seqs (combine a b))) in
             let a1 := map fst ab in
             let b1 := map snd ab in
             let skew := rank / (n' + 1) - leftsize n' a1 in
             if 0 <? skew then
               let '(a2, b2) := move_left (Z.to_nat skew) n' (pq_min b1) a1 b1 in
               refine rear midlex l f n' a2 b2
             else if skew <? 0 then
               match move_right (Z.to_nat (- skew)) n' (pq_max a1) a1 b1 with
               | None => None
               | Some (a2, b2) => refine rear midlex l f n' a2 b2
               end
             else refine rear midlex l f n' a1 b1
         end.

  (** lines 148-296 (identical in both headers up to [rear]/[midlex]) *)
  Definition core (rear midlex : bool) : option (list Z * list Z) :=
    let nmax := fold_left Z.max (map zlen seqs) 0 in
    let l := rup2 (nmax + 1) - 1 in
    let n := l / 2 in
    let zeros := map (fun _ => 0) seqs in
    let ls := map (fun _ => l) seqs in
    let '(a0, b0) := init_ab (sample n) 0 (rank / l) n zeros ls in
    refine rear midlex l (S (Z.to_nat (Z.log2_up (nmax + 1)))) n a0 b0.
  End WithInput.

  Definition ztotal (seqs : list (list A)) : Z := fold_left (fun acc s => acc + zlen s) seqs 0.
  Definition any_empty (seqs : list (list A)) : bool := existsb (fun s => match s with [] => true | _ => false end) seqs.
  Definition dflt (seqs : list (list A)) : option A :=
    match seqs with (x :: _) :: _ => Some x | _ => None end.

  (** multisequence_partition: [None] = a documented precondition / assertion is violated (an empty sequence,
      rank outside 0..N) or the loop left its documented invariant (proved impossible). No sequence at all (m = 0)
      with rank 0 is the "very end" case of the code and returns the empty list of offsets. The result is the list of
      split positions [begin_offsets[i] - begin_seqs[i].first]. *)
  Definition partition_gen (midlex : bool) (seqs : list (list A)) (rank : Z) : option (list Z) :=
    if any_empty seqs then None                                   (* assert(distance > 0), line 136 *)
    else if rank =? ztotal seqs then Some (map zlen seqs)         (* "very end", lines 139-144; also m = 0, rank = 0 *)
    else if (rank <? 0) || (ztotal seqs <? rank) then None        (* assert(m != 0 && N != 0 && rank < N) *)
    else match dflt seqs with
         | None => None                                           (* unreachable: 0 <= rank < N makes seqs non-empty *)
         | Some d => match core seqs d rank true midlex with
                     | Some (a, _) => Some a
                     | None => None
                     end
         end.

  (** the code after the repair fixes/C08/01 (what the working tree is expected to contain) *)
  Definition partition := partition_gen true.
  (** the code as shipped in 704fd0b: plain [comp] in the `middle` test *)
  Definition partition_shipped := partition_gen false.

  (** std::lower_bound by its specification on a range partitioned w.r.t. [x < v] *)
  Fixpoint lower_bound (s : list A) (v : A) : Z :=
    match s with
    | [] => 0
    | x :: r => if ltb x v then 1 + lower_bound r v else 0
    end.

  Inductive sel_result : Type :=
  | SelThrow                      (* throw std::exception(): no data or rank outside [0, N) *)
  | SelUB                         (* precondition violated / invariant left / null splitter *)
  | SelOk (v : A) (offset : Z).

  (** multisequence_selection, lines 104-343 *)
  Definition selection (seqs : list (list A)) (rank : Z) : sel_result :=
    if (Nat.eqb (length seqs) 0) || (ztotal seqs =? 0) || (rank <? 0) || (ztotal seqs <=? rank) then SelThrow
    else match dflt seqs with
    | None => SelUB
    | Some d =>
        if any_empty seqs then SelUB
        else match core seqs d rank false false with
        | None => SelUB
        | Some (a, b) =>
            let maxleft :=
              fold_left (fun acc '(s, ai) =>
                           if 0 <? ai then
                             let x := el d s (ai - 1) in
                             match acc with None => Some x | Some mv => if ltb mv x then Some x else acc end
                           else acc) (combine seqs a) None in
            let minright :=
              fold_left (fun acc '(s, bi) =>
                           if bi <? zlen s then
                             let x := el d s bi in
                             match acc with None => Some x | Some mv => if ltb x mv then Some x else acc end
                           else acc) (combine seqs b) None in
            match minright with
            | None => SelUB
            | Some mr =>
                let unambiguous := match maxleft with None => true | Some ml => ltb mr ml end in
                if unambiguous then SelOk mr 0
                else SelOk mr (fold_left (fun acc '(s, ai) => acc + (ai - lower_bound s mr)) (combine seqs a) 0)
            end
        end
    end.

  (** the code as shipped before b429853: the total N was accumulated in the caller's RankType, here an unsigned
      type of [bits] bits, and the rank compared with the wrapped value (partition l.131-146, selection l.127-134).
      Kept only for the refutation lemma [total_in_ranktype_shipped_refuted]. *)
  Definition wrapped_total (bits : Z) (seqs : list (list A)) : Z := ztotal seqs mod 2 ^ bits.

  Definition partition_total_in_ranktype_shipped (bits : Z) (seqs : list (list A)) (rank : Z) : option (list Z) :=
    if any_empty seqs then None
    else if rank =? wrapped_total bits seqs then Some (map zlen seqs)
    else if (rank <? 0) || (wrapped_total bits seqs <? rank) then None     (* the assert aborts *)
    else match dflt seqs with
         | None => None
         | Some d => match core seqs d rank true true with Some (a, _) => Some a | None => None end
         end.

  (** [true] = the shipped selection throws for this rank *)
  Definition selection_total_in_ranktype_shipped_throws (bits : Z) (seqs : list (list A)) (rank : Z) : bool :=
    (Nat.eqb (length seqs) 0) || (wrapped_total bits seqs =? 0) || (rank <? 0) || (wrapped_total bits seqs <=? rank).

  (** names for importers (C06, C07) that also import [List] (whose [partition] would otherwise be shadowed) *)
  Definition multisequence_partition := partition.
  Definition multisequence_selection := selection.
End Algo.
