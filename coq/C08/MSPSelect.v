(** C08 — selection_correct: the model of multisequence_selection returns an element equivalent to the one at the
    requested rank of the merged order and its offset among the equivalent elements (accepted by [check_select],
    which MSPMerge.v proves sound and complete for [select_spec]). *)
From Coq Require Import List Bool Arith ZArith Lia Sorting.Sorted.
From TLXV Require Import Common.Order C08.MSP C08.MSPSpec C08.MSPCheck C08.MSPMerge C08.MSPArr C08.MSPLoop C08.MSPInit
  C08.MSPAlgo C08.MSPCorrect.
Import ListNotations.
Local Open Scope Z_scope.

Section FoldInd.
  Context {X Acc : Type}.
  Lemma fold_ind_gen (f : Acc -> X -> Acc) (Q : nat -> Acc -> Prop) (l : list X) :
    forall k acc,
      (forall i x acc', nth_error l i = Some x -> Q (k + i)%nat acc' -> Q (S (k + i)) (f acc' x)) ->
      Q k acc -> Q (k + length l)%nat (fold_left f l acc).
  Proof.
    induction l as [|x r IH]; intros k acc Hstep H0.
    - cbn. rewrite Nat.add_0_r. exact H0.
    - cbn [length fold_left]. replace (k + S (length r))%nat with (S k + length r)%nat by lia.
      apply IH.
      + intros i y acc' Hy HQ. replace (S k + i)%nat with (k + S i)%nat in * by lia. apply Hstep; [exact Hy|exact HQ].
      + specialize (Hstep 0%nat x acc eq_refl). rewrite Nat.add_0_r in Hstep. apply Hstep. exact H0.
  Qed.

  Lemma fold_ind (f : Acc -> X -> Acc) (Q : nat -> Acc -> Prop) (l : list X) (acc0 : Acc) :
    Q 0%nat acc0 ->
    (forall k x acc, nth_error l k = Some x -> Q k acc -> Q (S k) (f acc x)) ->
    Q (length l) (fold_left f l acc0).
  Proof. intros H0 Hstep. apply (fold_ind_gen f Q l 0 acc0); [|exact H0]. intros i x acc' Hx HQ. apply Hstep; assumption. Qed.
End FoldInd.

Section Select.
  Context {A : Type}.
  Variable ltb : A -> A -> bool.
  Hypothesis HS : SWO ltb.

  Notation "a @ i" := (nth i a 0) (at level 9, format "a @ i").

  (** ** counting in one sorted sequence *)
  Variable v : A.
  Notation flt := (fun x => ltb x v).
  Notation fle := (fun x => negb (ltb v x)).

  Lemma flt_down x y : ltb y x = false -> flt y = true -> flt x = true.
  Proof. intros Hxy Hy. apply (leb_ltb_trans _ HS x y v); [unfold leb; now rewrite Hxy|exact Hy]. Qed.
  Lemma fle_down x y : ltb y x = false -> fle y = true -> fle x = true.
  Proof. intros Hxy Hy. apply (leb_trans _ HS x y v); [unfold leb; now rewrite Hxy|exact Hy]. Qed.

  Lemma ssorted (s : list A) : sortedb ltb s = true -> StronglySorted (sorted_rel ltb) s.
  Proof. intros H. apply (Sorted_StronglySorted _ HS). apply sortedb_Sorted. exact H. Qed.

  Lemma count_if_le_length (f : A -> bool) (s : list A) : (count_if f s <= length s)%nat.
  Proof. unfold count_if. induction s as [|x r IH]; cbn [filter length]; [lia|]. destruct (f x); cbn [length]; lia. Qed.

  Lemma count_lt_le (d : A) (s : list A) (a : Z) :
    sortedb ltb s = true -> 0 <= a -> (a < zlen s -> ltb (el d s a) v = false) -> Z.of_nat (count_if flt s) <= a.
  Proof.
    intros Hs Ha H. destruct (Z_lt_le_dec a (zlen s)) as [L|L].
    - specialize (H L). pose proof (el_nth_error d s a ltac:(lia)) as Hn.
      pose proof (prefix_count ltb flt flt_down s (ssorted s Hs) _ _ Hn) as P. cbn beta in P.
      destruct (Nat.lt_ge_cases (Z.to_nat a) (count_if flt s)) as [C|C]; [apply P in C; congruence|lia].
    - pose proof (count_if_le_length flt s). unfold zlen in L. lia.
  Qed.

  Lemma count_le_ge (d : A) (s : list A) (a : Z) :
    sortedb ltb s = true -> 0 <= a <= zlen s -> (0 < a -> ltb v (el d s (a - 1)) = false) -> a <= Z.of_nat (count_if fle s).
  Proof.
    intros Hs Ha H. destruct (Z_lt_le_dec 0 a) as [L|L]; [|lia].
    specialize (H L). pose proof (el_nth_error d s (a - 1) ltac:(lia)) as Hn.
    pose proof (prefix_count ltb fle fle_down s (ssorted s Hs) _ _ Hn) as P. cbn beta in P.
    assert (Z.to_nat (a - 1) < count_if fle s)%nat by (apply P; rewrite H; reflexivity). lia.
  Qed.

  Lemma count_le_gt (d : A) (s : list A) (a : Z) :
    sortedb ltb s = true -> 0 <= a < zlen s -> ltb v (el d s a) = false -> a < Z.of_nat (count_if fle s).
  Proof.
    intros Hs Ha H. pose proof (el_nth_error d s a ltac:(lia)) as Hn.
    pose proof (prefix_count ltb fle fle_down s (ssorted s Hs) _ _ Hn) as P. cbn beta in P.
    assert (Z.to_nat a < count_if fle s)%nat by (apply P; rewrite H; reflexivity). lia.
  Qed.

  Lemma lower_bound_count (s : list A) : sortedb ltb s = true -> lower_bound ltb s v = Z.of_nat (count_if flt s).
  Proof.
    intros Hs. apply ssorted in Hs. induction Hs as [|x r Hr IH Hall]; [reflexivity|].
    cbn [lower_bound]. rewrite count_if_cons. destruct (ltb x v) eqn:E.
    - rewrite IH. lia.
    - rewrite count_if_none; [reflexivity|]. rewrite Forall_forall in *. intros y Hy.
      destruct (ltb y v) eqn:Ey; [|reflexivity]. rewrite (flt_down x y (Hall _ Hy) Ey) in E. discriminate.
  Qed.

  (** ** sums over the sequences *)
  Lemma count_if_app (f : A -> bool) (l1 l2 : list A) : count_if f (l1 ++ l2) = (count_if f l1 + count_if f l2)%nat.
  Proof. unfold count_if. rewrite filter_app, app_length. reflexivity. Qed.

  Lemma count_concat (f : A -> bool) (ss : list (list A)) :
    Z.of_nat (count_if f (concat ss)) = leftsize 0 (map (fun s => Z.of_nat (count_if f s)) ss).
  Proof.
    induction ss as [|s r IH]; [reflexivity|]. cbn [concat map]. rewrite count_if_app, leftsize_cons, Z.div_1_r. lia.
  Qed.

  Lemma leftsize_le (x y : list Z) : length x = length y -> (forall i, (i < length x)%nat -> x@i <= y@i) ->
    leftsize 0 x <= leftsize 0 y /\ ((exists j, (j < length x)%nat /\ x@j < y@j) -> leftsize 0 x < leftsize 0 y).
  Proof.
    revert y. induction x as [|a x IH]; intros [|b y] Hl H; try discriminate.
    - split; [cbn; lia|]. intros (j & Hj & _). cbn in Hj. lia.
    - rewrite !leftsize_cons, !Z.div_1_r. destruct (IH y ltac:(cbn in Hl; lia)) as [I1 I2].
      { intros i Hi. apply (H (S i)). cbn. lia. }
      pose proof (H 0%nat ltac:(cbn; lia)) as H0. cbn in H0. split; [lia|].
      intros ([|j] & Hj & Hlt); cbn in Hlt; [lia|].
      assert (leftsize 0 x < leftsize 0 y) by (apply I2; exists j; split; [cbn in Hj; lia|exact Hlt]). lia.
  Qed.

  Lemma off_fold_acc (g : list A -> Z) (ss : list (list A)) : forall (a : list Z) (acc : Z),
    length a = length ss ->
    fold_left (fun acc '(s, ai) => acc + (ai - g s)) (combine ss a) acc = acc + leftsize 0 a - leftsize 0 (map g ss).
  Proof.
    induction ss as [|s r IH]; intros [|x a] acc Hl; try discriminate; [cbn; lia|].
    cbn [combine fold_left map]. rewrite IH by (cbn in Hl; lia). rewrite !leftsize_cons, !Z.div_1_r. lia.
  Qed.
End Select.

Section SelectionCorrect.
  Context {A : Type}.
  Variable ltb : A -> A -> bool.
  Hypothesis HS : SWO ltb.
  Variable seqs : list (list A).
  Variable d : A.
  Hypothesis Hsorted : all_sorted ltb seqs.

  Notation m := (length seqs).
  Notation len i := (zlen (nth i seqs [])).
  Notation E i p := (el d (nth i seqs []) p).
  Notation "a @ i" := (nth i a 0) (at level 9, format "a @ i").

  (** ** minright / maxleft (lines 288-318) *)
  Definition minright_of (b : list Z) : option A :=
    fold_left (fun acc '(s, bi) =>
                 if bi <? zlen s then
                   let x := el d s bi in
                   match acc with None => Some x | Some mv => if ltb x mv then Some x else acc end
                 else acc) (combine seqs b) None.

  Definition maxleft_of (a : list Z) : option A :=
    fold_left (fun acc '(s, ai) =>
                 if 0 <? ai then
                   let x := el d s (ai - 1) in
                   match acc with None => Some x | Some mv => if ltb mv x then Some x else acc end
                 else acc) (combine seqs a) None.

  Definition minright_spec (b : list Z) (k : nat) (acc : option A) : Prop :=
    match acc with
    | None => forall j, (j < k)%nat -> len j <= b@j
    | Some mr => (exists j, (j < k)%nat /\ b@j < len j /\ mr = E j (b@j)) /\
                 forall j, (j < k)%nat -> b@j < len j -> ltb (E j (b@j)) mr = false
    end.

  Lemma minright_ok (b : list Z) : length b = m -> minright_spec b m (minright_of b).
  Proof.
    intros Hb. unfold minright_of.
    replace m with (length (combine seqs b)) at 1 by (rewrite combine_length; lia).
    apply (fold_ind _ (minright_spec b)).
    - cbn. intros j Hj. lia.
    - intros k [s bk] acc Hk HQ. apply (combine2_nth seqs) in Hk as (-> & -> & Hkm & _). cbn beta iota.
      destruct (b@k <? len k) eqn:Ec.
      + apply Z.ltb_lt in Ec. destruct acc as [mv|]; cbn [minright_spec] in *.
        * destruct HQ as ((j0 & Hj0 & Hr0 & ->) & Hmin).
          destruct (ltb (E k (b@k)) (E j0 (b@j0))) eqn:Ecmp.
          -- split; [exists k; split; [lia|split; [exact Ec|reflexivity]]|].
             intros j Hj Hr. destruct (Nat.eq_dec j k) as [->|Hne]; [apply (swo_irrefl _ HS)|].
             destruct (ltb (E j (b@j)) (E k (b@k))) eqn:C; [|reflexivity].
             specialize (Hmin j ltac:(lia) Hr). rewrite (swo_trans _ HS _ _ _ C Ecmp) in Hmin. discriminate.
          -- split; [exists j0; split; [lia|split; [exact Hr0|reflexivity]]|].
             intros j Hj Hr. destruct (Nat.eq_dec j k) as [->|Hne]; [exact Ecmp|apply Hmin; [lia|exact Hr]].
        * split; [exists k; split; [lia|split; [exact Ec|reflexivity]]|].
          intros j Hj Hr. destruct (Nat.eq_dec j k) as [->|Hne]; [apply (swo_irrefl _ HS)|]. specialize (HQ j ltac:(lia)). lia.
      + apply Z.ltb_ge in Ec. destruct acc as [mv|]; cbn [minright_spec] in *.
        * destruct HQ as ((j0 & Hj0 & Hr0 & ->) & Hmin). split; [exists j0; split; [lia|auto]|].
          intros j Hj Hr. destruct (Nat.eq_dec j k) as [->|Hne]; [lia|apply Hmin; [lia|exact Hr]].
        * intros j Hj. destruct (Nat.eq_dec j k) as [->|Hne]; [exact Ec|apply HQ; lia].
  Qed.

  Definition maxleft_spec (a : list Z) (k : nat) (acc : option A) : Prop :=
    match acc with
    | None => forall i, (i < k)%nat -> a@i <= 0
    | Some ml => exists i, (i < k)%nat /\ 0 < a@i /\ ml = E i (a@i - 1)
    end.

  Lemma maxleft_ok (a : list Z) : length a = m -> maxleft_spec a m (maxleft_of a).
  Proof.
    intros Ha. unfold maxleft_of.
    replace m with (length (combine seqs a)) at 1 by (rewrite combine_length; lia).
    apply (fold_ind _ (maxleft_spec a)).
    - cbn. intros j Hj. lia.
    - intros k [s ak] acc Hk HQ. apply (combine2_nth seqs) in Hk as (-> & -> & Hkm & _). cbn beta iota.
      destruct (0 <? a@k) eqn:Ec.
      + apply Z.ltb_lt in Ec. destruct acc as [mv|]; cbn [maxleft_spec] in *.
        * destruct HQ as (i0 & Hi0 & Hp0 & ->). destruct (ltb (E i0 (a@i0 - 1)) (E k (a@k - 1))).
          -- exists k. split; [lia|auto].
          -- exists i0. split; [lia|auto].
        * exists k. split; [lia|auto].
      + apply Z.ltb_ge in Ec. destruct acc as [mv|]; cbn [maxleft_spec] in *.
        * destruct HQ as (i0 & Hi0 & Hp0 & ->). exists i0. split; [lia|auto].
        * intros i Hi. destruct (Nat.eq_dec i k) as [->|Hne]; [exact Ec|apply HQ; lia].
  Qed.

  (** ** the tail of multisequence_selection on a final loop state *)
  Lemma selection_tail (r : nat) (a b : list Z) :
    (r < total seqs)%nat ->
    St seqs 0 a b -> GridO seqs d (vle ltb) a b -> leftsize 0 a = Z.of_nat r ->
    exists mr off,
      minright_of b = Some mr /\
      (if match maxleft_of a with None => true | Some ml => ltb mr ml end then 0
       else fold_left (fun acc '(s, ai) => acc + (ai - lower_bound ltb s mr)) (combine seqs a) 0) = off /\
      0 <= off /\ check_select ltb seqs r mr (Z.to_nat off) = true.
  Proof.
    intros Hr (Ha & Hb & Hst) HG Hsum.
    assert (forall i, (i < m)%nat -> sortedb ltb (nth i seqs []) = true) as Hsq by (intros i Hi; apply (sorted_sq ltb seqs Hsorted); exact Hi).
    assert (forall i, (i < m)%nat -> b@i = a@i) as Hba by (intros i Hi; destruct (Hst i Hi) as (_ & H & _); lia).
    pose proof (minright_ok b Hb) as Hmr. destruct (minright_of b) as [mr|] eqn:Emr; cbn [minright_spec] in Hmr.
    2:{ exfalso. assert (leftsize 0 a = ztotal seqs) as C.
        { apply leftsize_full_gen; [exact Ha|]. intros i Hi. destruct (Hst i Hi) as ((H0 & H1) & _). specialize (Hmr i Hi).
          rewrite (Hba i Hi) in Hmr. lia. }
        rewrite ztotal_total in C. lia. }
    destruct Hmr as ((j0 & Hj0 & Hr0 & Emr0) & Hmin).
    (* pointwise bounds of a[i] by the counts of elements < mr and <= mr of sequence i *)
    set (cltL := map (fun s => Z.of_nat (count_if (fun x => ltb x mr) s)) seqs).
    set (cleL := map (fun s => Z.of_nat (count_if (fun x => negb (ltb mr x)) s)) seqs).
    assert (forall i, (i < m)%nat -> cltL@i = Z.of_nat (count_if (fun x => ltb x mr) (nth i seqs []))) as Eclt.
    { intros i Hi. unfold cltL. exact (nth_map' (fun s => Z.of_nat (count_if (fun x => ltb x mr) s)) seqs i [] 0 Hi). }
    assert (forall i, (i < m)%nat -> cleL@i = Z.of_nat (count_if (fun x => negb (ltb mr x)) (nth i seqs []))) as Ecle.
    { intros i Hi. unfold cleL. exact (nth_map' (fun s => Z.of_nat (count_if (fun x => negb (ltb mr x)) s)) seqs i [] 0 Hi). }
    assert (forall i, (i < m)%nat -> cltL@i <= a@i) as Hlow.
    { intros i Hi. rewrite (Eclt i Hi). destruct (Hst i Hi) as ((H0 & H1) & _).
      apply (count_lt_le ltb HS mr d); [apply Hsq; exact Hi|exact H0|].
      intros Hlt. rewrite <- (Hba i Hi) in *. apply Hmin; assumption. }
    assert (forall i, (i < m)%nat -> a@i <= cleL@i) as Hup.
    { intros i Hi. rewrite (Ecle i Hi). destruct (Hst i Hi) as ((H0 & H1) & _).
      apply (count_le_ge ltb HS mr d); [apply Hsq; exact Hi|lia|].
      intros Hpos. pose proof (HG i j0 Hi Hj0 Hpos Hr0) as G. unfold vle in G. cbn [fst] in G.
      rewrite <- Emr0 in G. apply negb_true_iff in G. exact G. }
    assert (a@j0 < cleL@j0) as Hstrict.
    { rewrite (Ecle j0 Hj0). destruct (Hst j0 Hj0) as ((H0 & H1) & _). rewrite (Hba j0 Hj0) in *.
      apply (count_le_gt ltb HS mr d); [apply Hsq; exact Hj0|lia|]. rewrite <- Emr0. apply (swo_irrefl _ HS). }
    assert (length cltL = m) as Lclt by apply map_length. assert (length cleL = m) as Lcle by apply map_length.
    destruct (leftsize_le cltL a (eq_trans Lclt (eq_sym Ha))) as [Hless _].
    { intros i Hi. apply Hlow. rewrite <- Lclt. exact Hi. }
    destruct (leftsize_le a cleL (eq_trans Ha (eq_sym Lcle))) as [_ Hleq].
    { intros i Hi. apply Hup. rewrite <- Ha. exact Hi. }
    assert (leftsize 0 a < leftsize 0 cleL) as Hleq'.
    { apply Hleq. exists j0. split; [rewrite Ha; exact Hj0|exact Hstrict]. }
    clear Hleq.
    pose proof (count_concat (fun x => ltb x mr) seqs) as Cless. fold cltL in Cless.
    pose proof (count_concat (fun x => negb (ltb mr x)) seqs) as Cleq. fold cleL in Cleq.
    set (less := count_if (fun x => ltb x mr) (concat seqs)) in *.
    set (leq := count_if (fun x => negb (ltb mr x)) (concat seqs)) in *.
    assert (check_select ltb seqs r mr (r - less)%nat = true) as Hchk.
    { unfold check_select. fold less leq. apply andb_true_iff. split; [apply andb_true_iff; split|].
      - apply Nat.leb_le. lia.
      - apply Nat.ltb_lt. lia.
      - apply Nat.eqb_refl. }
    exists mr. eexists. split; [reflexivity|]. split; [reflexivity|].
    pose proof (maxleft_ok a Ha) as Hml. destruct (maxleft_of a) as [ml|]; cbn [maxleft_spec] in Hml.
    - destruct Hml as (i & Hi & Hpos & ->).
      assert (ltb mr (E i (a@i - 1)) = false) as Hno.
      { pose proof (HG i j0 Hi Hj0 Hpos Hr0) as G. unfold vle in G. cbn [fst] in G. rewrite <- Emr0 in G.
        apply negb_true_iff in G. exact G. }
      rewrite Hno.
      rewrite (off_fold_acc (fun s => lower_bound ltb s mr) seqs a 0 Ha).
      assert (map (fun s => lower_bound ltb s mr) seqs = cltL) as ->.
      { unfold cltL. apply map_ext_in. intros s Hs. apply (lower_bound_count ltb HS).
        unfold all_sorted in Hsorted. rewrite Forall_forall in Hsorted. apply Hsorted. exact Hs. }
      split; [lia|]. replace (Z.to_nat (0 + leftsize 0 a - leftsize 0 cltL)) with (r - less)%nat by lia. exact Hchk.
    - (* nothing on the left: rank 0 *)
      assert (leftsize 0 a = 0) as Z0.
      { apply leftsize_zero. intros i Hi. destruct (Hst i ltac:(lia)) as ((H0 & _) & _). specialize (Hml i ltac:(lia)). lia. }
      split; [lia|]. replace (Z.to_nat 0) with (r - less)%nat by lia. exact Hchk.
  Qed.
End SelectionCorrect.

Section SelectionTheorem.
  Context {A : Type}.
  Variable ltb : A -> A -> bool.
  Hypothesis HS : SWO ltb.

  Theorem selection_correct (seqs : list (list A)) (r : nat) :
    any_empty seqs = false -> all_sorted ltb seqs -> (r < total seqs)%nat ->
    exists v off, selection ltb seqs (Z.of_nat r) = SelOk v off /\ 0 <= off /\
                  check_select ltb seqs r v (Z.to_nat off) = true.
  Proof.
    intros Hne Hsorted Hr.
    assert (0 <= Z.of_nat r < ztotal seqs) as Hrank by (rewrite ztotal_total; lia).
    assert (seqs <> []) as Hnil by (apply (total_pos_nonnil seqs r); exact Hr).
    destruct (dflt_some seqs Hnil Hne) as [d Ed].
    unfold selection.
    destruct (Nat.eqb_spec (length seqs) 0) as [C|_]; [destruct seqs; [congruence|discriminate]|].
    destruct (Z.eqb_spec (ztotal seqs) 0) as [C|_]; [lia|].
    destruct (Z.ltb_spec (Z.of_nat r) 0) as [C|_]; [lia|].
    destruct (Z.leb_spec (ztotal seqs) (Z.of_nat r)) as [C|_]; [lia|]. cbn [orb].
    rewrite Ed, Hne.
    destruct (core_setup ltb HS seqs d r false false Hnil Hne Hr) as (l & j & fuel & a0 & b0 & Ec & Hf & Hdl & Hll & I1 & I2 & I3).
    rewrite Ec.
    destruct (refine_ok_val ltb HS seqs d (Z.of_nat r) Hsorted l Hrank Hll j fuel a0 b0 Hf Hdl I1
                            (GridO_weaken seqs d _ _ _ _ (lex_vle ltb) I2) I3) as (a' & b' & Eq & F1 & F2 & F3).
    rewrite Eq.
    destruct (selection_tail ltb HS seqs d Hsorted r a' b' Hr F1 F2 F3) as (mr & off & Emr & Eoff & Hoff & Hchk).
    unfold minright_of in Emr. unfold maxleft_of in Eoff. rewrite Emr. cbv zeta in Eoff |- *.
    exists mr, off. split; [|split; assumption].
    rewrite <- Eoff. match goal with |- (if ?c then _ else _) = _ => destruct c end; reflexivity.
  Qed.

  (** in terms of the specification: the value is equivalent to the element at rank r of the merged order and the
      offset is the number of equivalent elements before it *)
  Corollary selection_meets_spec (seqs : list (list A)) (r : nat) :
    any_empty seqs = false -> all_sorted ltb seqs -> (r < total seqs)%nat ->
    exists v off w, selection ltb seqs (Z.of_nat r) = SelOk v off /\ 0 <= off /\
                    select_spec ltb seqs r = Some (w, Z.to_nat off) /\ eqvb ltb v w = true.
  Proof.
    intros Hne Hsorted Hr. destruct (selection_correct seqs r Hne Hsorted Hr) as (v & off & Es & Ho & Hc).
    apply (check_select_correct ltb HS seqs r v _ Hsorted Hr) in Hc as (w & Hw & He).
    exists v, off, w. auto.
  Qed.
End SelectionTheorem.
