(** C08 — partition_correct: the model of multisequence_partition (repaired `middle` comparison) returns the
    specified split for every tuple of non-empty sorted sequences, every rank 0..N and every strict weak order. *)
From Coq Require Import List Bool Arith ZArith Lia.
From TLXV Require Import Common.Order C08.MSP C08.MSPSpec C08.MSPCheck C08.MSPArr C08.MSPLoop C08.MSPInit C08.MSPAlgo.
Import ListNotations.
Local Open Scope Z_scope.

Section Correct.
  Context {A : Type}.
  Variable ltb : A -> A -> bool.
  Hypothesis HS : SWO ltb.

  Lemma fold_max_ge (l0 : list Z) : forall acc, acc <= fold_left Z.max l0 acc /\ forall x, In x l0 -> x <= fold_left Z.max l0 acc.
  Proof.
    induction l0 as [|y r IH]; intros acc; cbn [fold_left]; [split; [lia|intros x []]|].
    destruct (IH (Z.max acc y)) as [H1 H2]. split; [lia|]. intros x [<-|Hx]; [lia|apply H2; exact Hx].
  Qed.

  Lemma any_empty_false (seqs : list (list A)) i :
    any_empty seqs = false -> (i < length seqs)%nat -> 0 < zlen (nth i seqs []).
  Proof.
    intros H Hi. unfold any_empty in H.
    destruct (nth i seqs []) as [|x r] eqn:E; [|unfold zlen; cbn [length]; lia].
    exfalso. assert (existsb (fun s : list A => match s with [] => true | _ :: _ => false end) seqs = true) as C; [|congruence].
    apply existsb_exists. exists []. split; [rewrite <- E; apply nth_In; exact Hi|reflexivity].
  Qed.

  Lemma map_of_to_nat (a : list Z) : (forall i, (i < length a)%nat -> 0 <= nth i a 0) -> map Z.of_nat (map Z.to_nat a) = a.
  Proof.
    induction a as [|x r IH]; intros H; [reflexivity|]. cbn [map]. f_equal.
    - pose proof (H 0%nat ltac:(cbn; lia)) as H0. cbn in H0. lia.
    - apply IH. intros i Hi. apply (H (S i)). cbn. lia.
  Qed.

  (** [core] = the loop started in a state satisfying the invariant (identical for partition and selection) *)
  Lemma core_setup (seqs : list (list A)) (d : A) (r : nat) (rear midlex : bool) :
    seqs <> [] -> any_empty seqs = false -> (r < total seqs)%nat ->
    exists (l : Z) (j fuel : nat) (a0 b0 : list Z),
      core ltb seqs d (Z.of_nat r) rear midlex =
        refine ltb seqs d (Z.of_nat r) rear midlex l fuel (2 ^ Z.of_nat j - 1) a0 b0 /\
      (j <= fuel)%nat /\ (2 ^ Z.of_nat j | l + 1) /\
      (forall i, (i < length seqs)%nat -> zlen (nth i seqs []) <= l) /\
      St seqs (2 ^ Z.of_nat j - 1) a0 b0 /\ GridO seqs d (lexle ltb) a0 b0 /\
      (j = 0%nat -> leftsize 0 a0 = Z.of_nat r).
  Proof.
    intros Hnil Hne Hlt.
    assert (0 <= Z.of_nat r < ztotal seqs) as Hrank by (rewrite ztotal_total; lia).
    unfold core. cbv zeta.
    set (nmax := fold_left Z.max (map zlen seqs) 0).
    assert (0 < length seqs)%nat as Hm by (destruct seqs; [congruence|cbn; lia]).
    assert (forall i, (i < length seqs)%nat -> 0 < zlen (nth i seqs []) <= nmax) as Hlens.
    { intros i Hi. split; [apply any_empty_false; assumption|]. apply (fold_max_ge (map zlen seqs) 0).
      apply in_map. apply nth_In. exact Hi. }
    assert (1 <= nmax) as Hnmax by (specialize (Hlens 0%nat Hm); lia).
    set (K := Z.log2_up (nmax + 1)).
    assert (0 < K) as HK by (apply Z.log2_up_pos; lia).
    assert (nmax + 1 <= 2 ^ K) as Hpow by (apply Z.log2_up_spec; lia).
    unfold rup2. fold K.
    set (j := Z.to_nat (K - 1)).
    assert (Z.of_nat j = K - 1) as Ej by (unfold j; lia).
    assert (2 ^ K = 2 * 2 ^ Z.of_nat j) as EK.
    { rewrite Ej. replace K with (Z.succ (K - 1)) at 1 by lia. apply Z.pow_succ_r. lia. }
    assert (0 < 2 ^ Z.of_nat j) as Hpj by (apply Z.pow_pos_nonneg; lia).
    set (l := 2 ^ K - 1). set (n0 := 2 ^ Z.of_nat j - 1).
    assert (l = 2 * n0 + 1) as El by (unfold l, n0; lia).
    assert (l / 2 = n0) as Ehalf.
    { rewrite El. replace (2 * n0 + 1) with (1 + n0 * 2) by lia. rewrite Z.div_add by lia. cbn. lia. }
    rewrite Ehalf.
    assert (forall i, (i < length seqs)%nat -> 0 < zlen (nth i seqs []) <= l) as Hlens_l.
    { intros i Hi. specialize (Hlens i Hi). unfold l. lia. }
    pose proof (init_ok ltb HS seqs d (Z.of_nat r) l n0 El ltac:(unfold n0; lia) Hlens_l Hrank) as Hinit.
    cbv zeta in Hinit.
    destruct (init_ab seqs (sample ltb seqs d n0) 0 (Z.of_nat r / l) n0 (map (fun _ => 0) seqs) (map (fun _ => l) seqs))
      as [a0 b0]. cbn [fst snd] in Hinit. destruct Hinit as (I1 & I2 & I3).
    exists l, j, (S (Z.to_nat K)), a0, b0. split; [reflexivity|]. split; [unfold j; lia|].
    split; [exists 2; unfold l; lia|]. split; [intros i Hi; apply Hlens_l; exact Hi|].
    split; [exact I1|]. split; [exact I2|]. intros Hj0. apply I3. unfold n0. rewrite Hj0. reflexivity.
  Qed.

  Lemma dflt_some (seqs : list (list A)) : seqs <> [] -> any_empty seqs = false -> exists d, dflt seqs = Some d.
  Proof.
    intros Hnil Hne. destruct seqs as [|[|x s] rest]; [congruence|discriminate|]. exists x. reflexivity.
  Qed.

  Lemma total_pos_nonnil (seqs : list (list A)) (r : nat) : (r < total seqs)%nat -> seqs <> [].
  Proof. intros H ->. cbn in H. lia. Qed.

  (** no hypothesis on the number of sequences: m = 0 (then r = 0) is the "very end" case *)
  Theorem partition_correct_all (seqs : list (list A)) (r : nat) :
    any_empty seqs = false -> all_sorted ltb seqs -> (r <= total seqs)%nat ->
    partition ltb seqs (Z.of_nat r) = Some (map Z.of_nat (split_spec ltb seqs r)).
  Proof.
    intros Hne Hsorted Hr.
    destruct (Nat.eq_dec r (total seqs)) as [->|Hlt]; [apply (partition_full_rank ltb HS); assumption|].
    assert (0 <= Z.of_nat r < ztotal seqs) as Hrank by (rewrite ztotal_total; lia).
    assert (seqs <> []) as Hnil by (apply (total_pos_nonnil seqs r); lia).
    destruct (dflt_some seqs Hnil Hne) as [d Ed].
    unfold partition, partition_gen. rewrite Hne.
    destruct (Z.eqb_spec (Z.of_nat r) (ztotal seqs)) as [C|_]; [lia|].
    destruct (Z.ltb_spec (Z.of_nat r) 0) as [C|_]; [lia|]. destruct (Z.ltb_spec (ztotal seqs) (Z.of_nat r)) as [C|_]; [lia|].
    cbn [orb]. rewrite Ed.
    destruct (core_setup seqs d r true true) as (l & j & fuel & a0 & b0 & Ec & Hf & Hdl & Hll & I1 & I2 & I3);
      [exact Hnil|exact Hne|lia|]. rewrite Ec.
    destruct (refine_ok_lex ltb HS seqs d (Z.of_nat r) Hsorted l Hrank Hll j fuel a0 b0 Hf Hdl I1 I2 I3)
      as (a' & b' & Eq & F1 & F2 & F3).
    rewrite Eq. f_equal.
    pose proof (final_is_split ltb HS seqs d (Z.of_nat r) Hsorted Hrank a' b' F1 F2 F3) as Hsp.
    rewrite Nat2Z.id in Hsp.
    apply (is_split_iff_spec ltb HS seqs r _ Hsorted Hr) in Hsp. rewrite <- Hsp.
    symmetry. apply map_of_to_nat. intros i Hi. destruct F1 as (La & _ & Hst). apply Hst. lia.
  Qed.

  (** the statement with the (redundant) hypothesis [dflt seqs <> None], kept for the importers C06 / C07 *)
  Theorem partition_correct (seqs : list (list A)) (r : nat) :
    dflt seqs <> None -> any_empty seqs = false -> all_sorted ltb seqs -> (r <= total seqs)%nat ->
    partition ltb seqs (Z.of_nat r) = Some (map Z.of_nat (split_spec ltb seqs r)).
  Proof. intros _. apply partition_correct_all. Qed.
End Correct.
