(** C08 — the initial partition of multisequence_partition (lines 160-204 of the header; [sample] and [init_ab]
    of MSP.v) establishes the loop invariant of MSPLoop.v. *)
From Coq Require Import List Bool Arith ZArith Lia Sorting.Sorted Sorting.Permutation.
From TLXV Require Import Common.Order C08.MSP C08.MSPSpec C08.MSPCheck C08.MSPArr C08.MSPLoop.
Import ListNotations.
Local Open Scope Z_scope.

Section ListBits.
  Context {X : Type}.

  Lemma NoDup_app_parts (l1 l2 : list X) :
    NoDup (l1 ++ l2) -> NoDup l1 /\ NoDup l2 /\ forall x, In x l1 -> ~ In x l2.
  Proof.
    induction l1 as [|a l1 IH]; cbn [app]; intros H.
    - split; [constructor|]. split; [exact H|]. intros x [].
    - inversion H as [|? ? Hn Hd]; subst. destruct (IH Hd) as (H1 & H2 & H3).
      split; [constructor; [intros C; apply Hn; apply in_or_app; left; exact C|exact H1]|].
      split; [exact H2|]. intros x [<-|Hx]; [intros C; apply Hn; apply in_or_app; right; exact C|apply H3; exact Hx].
  Qed.

  Lemma SSorted_app_cross (P : X -> X -> Prop) (l1 l2 : list X) :
    StronglySorted P (l1 ++ l2) -> forall x y, In x l1 -> In y l2 -> P x y.
  Proof.
    induction l1 as [|a l1 IH]; cbn [app]; intros H x y Hx Hy; [destruct Hx|].
    inversion H as [|? ? Hs Hall]; subst. destruct Hx as [<-|Hx].
    - rewrite Forall_forall in Hall. apply Hall. apply in_or_app. right. exact Hy.
    - apply IH; assumption.
  Qed.

  Lemma SSorted_app_intro (P : X -> X -> Prop) (l1 l2 : list X) :
    StronglySorted P l1 -> StronglySorted P l2 -> (forall x y, In x l1 -> In y l2 -> P x y) ->
    StronglySorted P (l1 ++ l2).
  Proof.
    intros H1 H2 Hc. induction H1 as [|a l1 Hs IH Hall]; cbn [app]; [exact H2|].
    constructor.
    - apply IH. intros x y Hx Hy. apply Hc; [right; exact Hx|exact Hy].
    - apply Forall_forall. intros y Hy. apply in_app_or in Hy as [Hy|Hy].
      + rewrite Forall_forall in Hall. apply Hall. exact Hy.
      + apply Hc; [left; reflexivity|exact Hy].
  Qed.

  Lemma SSorted_weaken (P Q : X -> X -> Prop) (l0 : list X) :
    (forall x y, P x y -> Q x y) -> StronglySorted P l0 -> StronglySorted Q l0.
  Proof.
    intros HPQ. induction 1 as [|a l1 Hs IH Hall]; constructor; [exact IH|].
    rewrite Forall_forall in *. intros y Hy. apply HPQ. apply Hall. exact Hy.
  Qed.

  Lemma SSorted_trivial (Q : X -> X -> Prop) (l0 : list X) : (forall x y, In y l0 -> Q x y) -> StronglySorted Q l0.
  Proof.
    induction l0 as [|a l1 IH]; intros H; constructor.
    - apply IH. intros x y Hy. apply H. right. exact Hy.
    - apply Forall_forall. intros y Hy. apply H. right. exact Hy.
  Qed.

  Variable lt : X -> X -> bool.
  Hypothesis Hlt : SWO lt.

  Lemma sort_by_perm (l0 : list X) : Permutation (sort_by lt l0) l0.
  Proof.
    unfold sort_by. induction l0 as [|x r IH]; cbn [fold_right]; [constructor|].
    eapply Permutation_trans; [apply insert_by_perm|]. constructor. exact IH.
  Qed.

  Lemma sort_by_sorted (l0 : list X) : StronglySorted (fun p q => leb lt p q = true) (sort_by lt l0).
  Proof.
    unfold sort_by. induction l0 as [|x r IH]; cbn [fold_right]; [constructor|].
    apply insert_by_sorted; assumption.
  Qed.
End ListBits.

(** pointwise value of a sequence of [upd]s at distinct indices *)
Section FoldUpd.
  Context {A : Type}.
  Variable f : Z -> Z.
  Notation "a @ i" := (nth i a 0) (at level 9, format "a @ i").
  Notation step := (fun (a' : list Z) '((_, i') : A * nat) => upd i' f a').

  Lemma fold_upd_length (T : list (A * nat)) (a : list Z) : length (fold_left step T a) = length a.
  Proof.
    revert a. induction T as [|[v i] T IH]; intros a; cbn [fold_left]; [reflexivity|].
    rewrite IH. apply upd_length.
  Qed.

  Lemma fold_upd_notin (T : list (A * nat)) (a : list Z) i :
    ~ In i (map snd T) -> (fold_left step T a)@i = a@i.
  Proof.
    revert a. induction T as [|[v i0] T IH]; intros a H; cbn [fold_left]; [reflexivity|].
    cbn [map snd In] in H. rewrite IH by tauto. apply nth_upd_other. tauto.
  Qed.

  Lemma fold_upd_in (T : list (A * nat)) (a : list Z) i :
    NoDup (map snd T) -> (forall p, In p T -> (snd p < length a)%nat) -> In i (map snd T) ->
    (fold_left step T a)@i = f (a@i).
  Proof.
    revert a. induction T as [|[v i0] T IH]; intros a Hnd Hlen Hin; [destruct Hin|].
    cbn [fold_left]. cbn [map snd] in Hnd, Hin. inversion Hnd as [|? ? Hn Hd]; subst.
    destruct (Nat.eq_dec i i0) as [->|Hne].
    - rewrite fold_upd_notin by exact Hn. apply nth_upd_same. apply (Hlen (v, i0)). left. reflexivity.
    - destruct Hin as [C|Hin]; [congruence|]. rewrite IH; [|exact Hd| |exact Hin].
      + rewrite nth_upd_other by congruence. reflexivity.
      + intros p Hp. rewrite upd_length. apply Hlen. right. exact Hp.
  Qed.
End FoldUpd.

Section Init.
  Context {A : Type}.
  Variable ltb : A -> A -> bool.
  Hypothesis HS : SWO ltb.
  Variable seqs : list (list A).
  Variable d : A.

  Notation m := (length seqs).
  Notation sq i := (nth i seqs []).
  Notation len i := (zlen (nth i seqs [])).
  Notation E i p := (el d (nth i seqs []) p).
  Notation lexlt := (MSP.lexlt ltb).
  Notation lexle := (MSP.lexle ltb).
  Notation "a @ i" := (nth i a 0) (at level 9, format "a @ i").

  (** ** [init_ab]: a prefix T of the sample goes left, the rest U goes right *)
  Notation addS n := (fun (a' : list Z) '((_, i') : A * nat) => upd i' (fun x => x + (n + 1)) a').
  Notation subS n := (fun (b' : list Z) '((_, i') : A * nat) => upd i' (fun x => x - (n + 1)) b').

  Lemma init_ab_spec (lr n : Z) (smp : list (A * nat)) : forall (j : Z) (a b : list Z),
    exists T U, smp = T ++ U /\
      init_ab seqs smp j lr n a b = (fold_left (addS n) T a, fold_left (subS n) U b) /\
      (forall p, In p T -> n + 1 <= len (snd p)) /\
      j + Z.of_nat (length T) <= Z.max j lr /\
      match U with [] => True | (_, i) :: _ => lr <= j + Z.of_nat (length T) \/ len i < n + 1 end.
  Proof.
    induction smp as [|[v i] rest IH]; intros j a b.
    - exists [], []. cbn. repeat split; auto; try lia; try (intros p []).
    - cbn [init_ab]. destruct ((j <? lr) && (n + 1 <=? zlen (MSP.sq seqs i))) eqn:Ec.
      + apply andb_true_iff in Ec as [E1 E2]. apply Z.ltb_lt in E1. apply Z.leb_le in E2. unfold MSP.sq in E2.
        destruct (IH (j + 1) (upd i (fun x => x + (n + 1)) a) b) as (T & U & -> & Eq & HT & Hcnt & HU).
        exists ((v, i) :: T), U. split; [reflexivity|]. split; [exact Eq|]. split.
        { intros p [<-|Hp]; [exact E2|apply HT; exact Hp]. }
        cbn [length]. split; [lia|]. destruct U as [|[v' i'] U']; [exact I|]. lia.
      + exists [], ((v, i) :: rest). split; [reflexivity|]. split; [reflexivity|]. split; [intros p []|].
        cbn [length]. split; [lia|].
        apply andb_false_iff in Ec as [Ec|Ec]; [apply Z.ltb_ge in Ec; left; lia|apply Z.leb_gt in Ec; right; exact Ec].
  Qed.

  (** ** the sample (lines 174-196) *)
  Section Sample.
    Variable n : Z.
    Notation fr := (fun '((i, s) : nat * list A) => if n <? zlen s then [(el d s n, i)] else []).
    Notation fi := (fun '((i, s) : nat * list A) => if n >=? zlen s then [(el d s 0, i)] else []).

    Lemma real_in v i : In (v, i) (flat_map fr (indexed seqs)) -> (i < m)%nat /\ n < len i /\ v = E i n.
    Proof.
      intros H. apply in_flat_map in H as ([i' s] & Hin & H). apply In_indexed in Hin.
      destruct (n <? zlen s) eqn:Ec; [|destruct H]. destruct H as [H|[]]. injection H as <- <-.
      apply Z.ltb_lt in Ec. assert (i' < m)%nat by (apply nth_error_Some; congruence).
      apply (nth_error_nth _ _ []) in Hin. subst s. auto.
    Qed.

    Lemma inf_in v i : In (v, i) (flat_map fi (indexed seqs)) -> (i < m)%nat /\ len i <= n.
    Proof.
      intros H. apply in_flat_map in H as ([i' s] & Hin & H). apply In_indexed in Hin.
      destruct (n >=? zlen s) eqn:Ec; [|destruct H]. destruct H as [H|[]]. injection H as _ <-.
      rewrite Z.geb_leb in Ec. apply Z.leb_le in Ec. assert (i' < m)%nat by (apply nth_error_Some; congruence).
      apply (nth_error_nth _ _ []) in Hin. subst s. auto.
    Qed.

    Lemma split_perm (L : list (nat * list A)) :
      Permutation (map snd (flat_map fr L) ++ map snd (flat_map fi L)) (map fst L).
    Proof.
      induction L as [|[i s] L IH]; [constructor|]. cbn [flat_map map fst].
      rewrite Z.geb_leb. destruct (n <? zlen s) eqn:E1.
      - apply Z.ltb_lt in E1. destruct (zlen s <=? n) eqn:E2; [apply Z.leb_le in E2; lia|].
        cbn [app map snd]. constructor. exact IH.
      - apply Z.ltb_ge in E1. destruct (zlen s <=? n) eqn:E2; [|apply Z.leb_gt in E2; lia].
        cbn [app map snd]. apply Permutation_sym. apply Permutation_cons_app. apply Permutation_sym. exact IH.
    Qed.

    Lemma map_fst_indexed {X} (l0 : list X) : map fst (indexed l0) = seq 0 (length l0).
    Proof.
      unfold indexed. generalize 0%nat. induction l0 as [|x r IH]; intros k; [reflexivity|].
      cbn [length seq combine map fst]. f_equal. apply IH.
    Qed.

    Definition real_entry (p : A * nat) : Prop := n < len (snd p).
    Definition SRel (x y : A * nat) : Prop := real_entry y -> lexle x y = true.

    Lemma sample_facts :
      let smp := sample ltb seqs d n in
      Permutation (map snd smp) (seq 0 m) /\
      StronglySorted SRel smp /\
      (forall v i, In (v, i) smp -> n < len i -> v = E i n).
    Proof.
      intros smp. unfold smp, sample.
      set (R := flat_map fr (indexed seqs)). set (I := flat_map fi (indexed seqs)).
      pose proof (sort_by_perm lexlt R) as HP. pose proof (sort_by_sorted lexlt (SWO_lexlt ltb HS) R) as HSo.
      split; [|split].
      - rewrite map_app. eapply Permutation_trans; [apply Permutation_app_tail; apply Permutation_map; exact HP|].
        eapply Permutation_trans; [apply split_perm|]. rewrite map_fst_indexed. apply Permutation_refl.
      - apply SSorted_app_intro.
        + eapply SSorted_weaken; [|exact HSo]. intros x y H _. exact H.
        + apply SSorted_trivial. intros x [v i] Hy Hr. apply inf_in in Hy. unfold real_entry in Hr. cbn [snd] in Hr. lia.
        + intros x [v i] _ Hy Hr. apply inf_in in Hy. unfold real_entry in Hr. cbn [snd] in Hr. lia.
      - intros v i Hin Hr. apply in_app_or in Hin as [Hin|Hin].
        + apply (Permutation_in _ HP) in Hin. apply real_in in Hin. tauto.
        + apply inf_in in Hin. lia.
    Qed.
  End Sample.

  (** ** the state after the initial partition satisfies the loop invariant *)
  Lemma nth_const_map {X} (c : Z) (l0 : list X) i : (i < length l0)%nat -> (map (fun _ => c) l0)@i = c.
  Proof.
    revert i. induction l0 as [|x r IH]; intros [|i] H; cbn in *; try lia; auto. apply IH. lia.
  Qed.

  Lemma leftsize_fold_add (n : Z) (T : list (A * nat)) : 0 <= n -> forall (a : list Z),
    (forall p, In p T -> (snd p < length a)%nat) ->
    leftsize n (fold_left (addS n) T a) = leftsize n a + Z.of_nat (length T).
  Proof.
    intros Hn. induction T as [|[v i] T IH]; intros a Hlen; [cbn [fold_left length]; lia|].
    cbn [fold_left length]. rewrite IH.
    - rewrite leftsize_upd by (apply (Hlen (v, i)); left; reflexivity).
      replace (a@i + (n + 1)) with (a@i + 1 * (n + 1)) by lia. rewrite Z.div_add by lia. lia.
    - intros p Hp. rewrite upd_length. apply Hlen. right. exact Hp.
  Qed.

  Lemma ztotal_ones : (forall i, (i < m)%nat -> len i = 1) -> ztotal seqs = Z.of_nat m.
  Proof.
    intros H. rewrite <- (leftsize_full_gen seqs (map (fun _ => 1) seqs)).
    - assert (forall (l0 : list (list A)), leftsize 0 (map (fun _ => 1) l0) = Z.of_nat (length l0)) as G.
      { induction l0 as [|x r IH]; [reflexivity|]. cbn [map length]. rewrite leftsize_cons, IH. change (0 + 1) with 1. rewrite Z.div_1_r, Nat2Z.inj_succ. lia. }
      apply G.
    - apply map_length.
    - intros i Hi. rewrite nth_const_map by exact Hi. symmetry. apply H. exact Hi.
  Qed.

  Variable rank l n0 : Z.
  Hypothesis Hl : l = 2 * n0 + 1.
  Hypothesis Hn0 : 0 <= n0.
  Hypothesis Hlen : forall i, (i < m)%nat -> 0 < len i <= l.
  Hypothesis Hrank : 0 <= rank < ztotal seqs.

  Lemma init_ok :
    let R := init_ab seqs (sample ltb seqs d n0) 0 (rank / l) n0 (map (fun _ => 0) seqs) (map (fun _ => l) seqs) in
    St seqs n0 (fst R) (snd R) /\ GridO seqs d lexle (fst R) (snd R) /\ (n0 = 0 -> leftsize 0 (fst R) = rank).
  Proof.
    intros R. subst R.
    set (zeros := map (fun _ => 0) seqs). set (ls := map (fun _ => l) seqs).
    destruct (init_ab_spec (rank / l) n0 (sample ltb seqs d n0) 0 zeros ls) as (T & U & Esmp & Eq & HT & Hcnt & HU).
    rewrite Eq. cbn [fst snd].
    destruct (sample_facts n0) as (HP & HSS & Hent). rewrite Esmp in HP, HSS, Hent.
    set (a0 := fold_left (addS n0) T zeros). set (b0 := fold_left (subS n0) U ls).
    assert (length zeros = m) as Lz by apply map_length. assert (length ls = m) as Ll by apply map_length.
    assert (NoDup (map snd (T ++ U))) as Hnd by (apply (Permutation_NoDup (Permutation_sym HP)); apply seq_NoDup).
    rewrite map_app in Hnd. destruct (NoDup_app_parts _ _ Hnd) as (NdT & NdU & Hdisj).
    assert (forall p, In p (T ++ U) -> (snd p < m)%nat) as Hbound.
    { intros p Hp. assert (In (snd p) (seq 0 m)) as H by (apply (Permutation_in _ HP); apply in_map; exact Hp).
      apply in_seq in H. lia. }
    assert (forall i, (i < m)%nat -> In i (map snd T) \/ In i (map snd U)) as Hcover.
    { intros i Hi. assert (In i (map snd (T ++ U))) as H by (apply (Permutation_in _ (Permutation_sym HP)); apply in_seq; lia).
      rewrite map_app in H. apply in_app_or in H. exact H. }
    assert (forall i, (i < m)%nat ->
              (In i (map snd T) /\ a0@i = n0 + 1 /\ b0@i = l /\ n0 + 1 <= len i) \/
              (In i (map snd U) /\ a0@i = 0 /\ b0@i = l - (n0 + 1))) as FA.
    { intros i Hi. destruct (in_dec Nat.eq_dec i (map snd T)) as [HiT|HiT].
      - left. split; [exact HiT|]. split; [|split].
        + unfold a0. rewrite (fold_upd_in (fun x => x + (n0 + 1))); [unfold zeros; rewrite nth_const_map by exact Hi; lia|exact NdT| |exact HiT].
          intros p Hp. rewrite Lz. apply Hbound. apply in_or_app. left. exact Hp.
        + unfold b0. rewrite (fold_upd_notin (fun x => x - (n0 + 1))) by (apply Hdisj; exact HiT).
          unfold ls. apply nth_const_map. exact Hi.
        + apply in_map_iff in HiT as (p & <- & Hp). apply HT. exact Hp.
      - right. destruct (Hcover i Hi) as [C|HiU]; [contradiction|]. split; [exact HiU|]. split.
        + unfold a0. rewrite (fold_upd_notin (fun x => x + (n0 + 1))) by exact HiT. unfold zeros. apply nth_const_map. exact Hi.
        + unfold b0. rewrite (fold_upd_in (fun x => x - (n0 + 1))); [unfold ls; rewrite nth_const_map by exact Hi; lia|exact NdU| |exact HiU].
          intros p Hp. rewrite Ll. apply Hbound. apply in_or_app. right. exact Hp. }
    split; [|split].
    - split; [unfold a0; rewrite fold_upd_length; exact Lz|]. split; [unfold b0; rewrite fold_upd_length; exact Ll|].
      intros i Hi. specialize (Hlen i Hi). destruct (FA i Hi) as [(_ & -> & -> & Hle)|(_ & -> & ->)].
      + split; [lia|]. split; [lia|]. apply Z.divide_refl.
      + split; [lia|]. split; [lia|]. apply Z.divide_0_r.
    - intros i j Hi Hj Hpos Hr. pose proof (Hlen j Hj) as Hlj.
      destruct (FA i Hi) as [(HiT & Eai & _ & Hlei)|(_ & Eai & _)]; [|lia].
      destruct (FA j Hj) as [(_ & _ & Ebj & _)|(HjU & _ & Ebj)]; [lia|].
      rewrite Eai, Ebj in *. replace (n0 + 1 - 1) with n0 by lia. replace (l - (n0 + 1)) with n0 in * by lia.
      apply in_map_iff in HiT as ([vi i'] & Ei & HpT). cbn in Ei. subst i'.
      apply in_map_iff in HjU as ([vj j'] & Ej & HpU). cbn in Ej. subst j'.
      pose proof (SSorted_app_cross _ _ _ HSS _ _ HpT HpU) as Hrel.
      rewrite <- (Hent vi i) by (try (apply in_or_app; left; exact HpT); lia).
      rewrite <- (Hent vj j) by (try (apply in_or_app; right; exact HpU); lia).
      apply Hrel. unfold real_entry. cbn [snd]. exact Hr.
    - intros ->. assert (l = 1) by lia. subst l. rewrite Z.div_1_r in *.
      assert (forall i, (i < m)%nat -> len i = 1) as Hone by (intros i Hi; specialize (Hlen i Hi); lia).
      rewrite (ztotal_ones Hone) in Hrank.
      assert (Z.of_nat (length T) + Z.of_nat (length U) = Z.of_nat m) as Hlens.
      { apply Permutation_length in HP. rewrite map_length, app_length, seq_length in HP. lia. }
      unfold a0. rewrite leftsize_fold_add; [|lia|].
      2:{ intros p Hp. rewrite Lz. apply Hbound. apply in_or_app. left. exact Hp. }
      rewrite (leftsize_zero 0 zeros) by (intros i Hi; unfold zeros; apply nth_const_map; rewrite <- Lz; exact Hi).
      destruct U as [|[v i] U'].
      + cbn [length] in Hlens. lia.
      + assert (In (v, i) (T ++ (v, i) :: U')) as Hin by (apply in_or_app; right; left; reflexivity).
        pose proof (Hbound _ Hin) as Hb. cbn [snd] in Hb. pose proof (Hone i Hb). lia.
  Qed.
End Init.
