(** C09 — instances of the model and of the checkers with the comparator reversed (std::greater and the
    descending mode of the harness's stateful comparator), for the correspondence driver.  Definitions only. *)
From Coq Require Import List NArith.
From TLXV Require Import C09.LoserTree C09.Spec.

Definition gtb (a b : N) : bool := N.ltb b a.

Definition run_Ngt (v : variant) (sentinel : N) (seqs : list (list N)) : list N :=
  lt_run gtb 0%N v sentinel seqs.
Definition check_Ngt (v : variant) (seqs : list (list N)) (tr : list N) : bool :=
  check_trace gtb v seqs tr.
Definition run_gNgt (v : variant) (sentinel : N) (seqs : list (list N)) : list N :=
  lt_run_g gtb 0%N v sentinel seqs.
Definition check_gNgt (v : variant) (sentinel : N) (seqs : list (list N)) (tr : list N) : bool :=
  check_trace_g gtb v sentinel seqs tr.
