(** C09 — the hypotheses of the main theorems are satisfiable by non-trivial states; sample runs of the model. *)
From Coq Require Import List Bool NArith PArith Lia.
From TLXV Require Import Common.Order C09.LoserTree C09.Tournament C09.VOrder C09.Invariant C09.Spec C09.Winner C09.Final C09.UnguardedGeneral C09.BuildOrder C09.RegOrder.
Import ListNotations.
Local Open Scope N_scope.

Lemma SWO_N : SWO N.ltb.
Proof.
  constructor; intros.
  - apply N.ltb_irrefl.
  - rewrite N.ltb_lt in *. lia.
  - rewrite !N.ltb_lt in *. lia.
Qed.

Definition CGS := mkV false true true.
Definition PGN := mkV true true false.
Definition CUS := mkV false false true.
Definition PUN := mkV true false false.

(** a guarded stable tree over five players (k_ = 8, three padding leaves), one of them exhausted from the
    start, with ties: the invariant holds, a live player remains, so [dmi_TInv]/[TInv_winner_ok] apply *)
Example ex_heads : list (option N) := [Some 2; None; Some 1; Some 1; Some 2].

Example ex_TInv_guarded : TInv N.ltb 0 0 CGS (lt_build N.ltb 0 CGS 0 ex_heads) ex_heads /\ some_live ex_heads.
Proof.
  split.
  - apply build_TInv; [exact SWO_N|cbn; lia|discriminate].
  - exists 0, 2. reflexivity.
Qed.

Example ex_winner_guarded : lt_min_source 0 CGS (lt_build N.ltb 0 CGS 0 ex_heads) = 2.
Proof. vm_compute. reflexivity. Qed.

(** an unguarded tree over three players (k_ = 4, one padding leaf carrying the sentinel 3), a real key equal
    to the sentinel: precondition [pl_ok] holds *)
Example ex_heads_u : list (option N) := [Some 3; Some 3; Some 2].

Example ex_TInv_unguarded : TInv N.ltb 0 3 PUN (lt_build N.ltb 0 PUN 3 ex_heads_u) ex_heads_u /\ some_live ex_heads_u.
Proof.
  split.
  - apply build_TInv; [exact SWO_N|cbn; lia|].
    intros _ i x H. unfold ex_heads_u in H. cbn [nthN] in H.
    destruct (i =? 0); [inversion H; eexists; split; [reflexivity|reflexivity]|].
    destruct (N.pred i =? 0); [inversion H; eexists; split; [reflexivity|reflexivity]|].
    destruct (N.pred (N.pred i) =? 0); [inversion H; eexists; split; [reflexivity|reflexivity]|discriminate].
  - exists 0, 3. reflexivity.
Qed.

(** a reachable state after two replace operations *)
Example ex_reach :
  let t0 := lt_build N.ltb 0 CGS 0 ex_heads in
  let t1 := lt_delete_min_insert N.ltb 0 CGS t0 (Some 1) in
  let p1 := setN ex_heads (lt_min_source 0 CGS t0) (Some 1) in
  let t2 := lt_delete_min_insert N.ltb 0 CGS t1 None in
  let p2 := setN p1 (lt_min_source 0 CGS t1) None in
  Reach N.ltb 0 0 CGS t2 p2 /\ lt_min_source 0 CGS t2 = 3.
Proof.
  cbv zeta. split; [|vm_compute; reflexivity].
  apply R_step; [apply R_step; [apply R_init; [cbn; lia|discriminate]| |discriminate]| |discriminate].
  - exists 0, 2. reflexivity.
  - exists 0, 2. reflexivity.
Qed.

(** sample runs (sources reported after init() and after every delete_min_insert()) *)
Example ex_run_stable :
  run_N CGS 0 [[1; 2; 3]; [1; 1]; []; [2]] = [0; 1; 1; 0; 3; 0; 0].
Proof. vm_compute. reflexivity. Qed.

Example ex_run_pointer_exhausted :
  run_N (mkV true true true) 0 [[1; 2; 3]; [1; 1]; []; [2]] = [0; 1; 1; 0; 3; 0; invalid_].
Proof. vm_compute. reflexivity. Qed.

Example ex_run_unguarded :
  run_N CUS 3 [[1; 2; 3]; [1; 1; 3]; [3; 3]; [2; 3]; [3; 3]] = [0; 1; 1; 0; 3; 0].
Proof. vm_compute. reflexivity. Qed.

Example ex_check_rejects_unstable_choice :
  check_N CGS [[1]; [1]] [1; 0; 0] = false /\ check_N (mkV false true false) [[1]; [1]] [1; 0; 0] = true.
Proof. vm_compute. split; reflexivity. Qed.

(** the unguarded classes outside their documented key precondition (C09/UnguardedGeneral.v): sentinel 3, keys
    5 and 7 above it; the invariant holds, player 1 (key 1 < 3) beats the sentinel and is reported; once every
    real key is above the sentinel a padding leaf wins and min_source() is invalid_ (the caller must stop before) *)
Example ex_heads_g : list (option N) := [Some 5; Some 1; Some 7].

Example ex_UInv_general :
  UInv N.ltb 0 3 CUS (lt_build N.ltb 0 CUS 3 ex_heads_g) ex_heads_g /\
  (exists j kj, live ex_heads_g j kj /\ beats_sentinel N.ltb 3 CUS kj) /\
  lt_min_source 0 CUS (lt_build N.ltb 0 CUS 3 ex_heads_g) = 1 /\
  lt_min_source 0 CUS (lt_delete_min_insert N.ltb 0 CUS (lt_build N.ltb 0 CUS 3 ex_heads_g) (Some 9)) = invalid_.
Proof.
  split; [|split; [|split]].
  - apply ubuild_UInv; [reflexivity|cbn; lia|].
    intros i x H. unfold ex_heads_g in H. cbn [nthN] in H.
    destruct (i =? 0); [inversion H; eauto|].
    destruct (N.pred i =? 0); [inversion H; eauto|].
    destruct (N.pred (N.pred i) =? 0); [inversion H; eauto|discriminate].
  - exists 1, 1. split; reflexivity.
  - vm_compute. reflexivity.
  - vm_compute. reflexivity.
Qed.

(** registration in descending order (player 0 last): the guarded copy class floods the key copies with the key of
    player 2, the first one registered; the invariant holds all the same and the winner is the same *)
Example ex_order_desc :
  TInv N.ltb 0 0 CGS (lt_build_order N.ltb 0 CGS 0 [Some 2; Some 1; Some 3] [2; 1; 0]) [Some 2; Some 1; Some 3] /\
  lt_min_source 0 CGS (lt_build_order N.ltb 0 CGS 0 [Some 2; Some 1; Some 3] [2; 1; 0]) = 1 /\
  run_oN false CGS 0 [2; 0; 1] [[2; 5]; [1; 4]; [3]] = run_N CGS 0 [[2; 5]; [1; 4]; [3]].
Proof.
  split; [|split; vm_compute; reflexivity].
  apply build_order_TInv; [exact SWO_N|cbn; lia|discriminate|].
  split; intros i Hi; cbn in *.
  - assert (Hc : i = 0 \/ i = 1 \/ i = 2) by lia. destruct Hc as [Hc|[Hc|Hc]]; subst i; auto.
  - destruct Hi as [Hc|[Hc|[Hc|Hc]]]; [subst i; lia|subst i; lia|subst i; lia|contradiction].
Qed.
