(** C09 — what "min_source() is right" means, as a proposition over the players' current keys and as a
    boolean checker (proved equivalent in C09/Winner.v); the trace checker used on the implementation's output. *)
From Coq Require Import List Bool NArith Lia.
From TLXV Require Import C09.LoserTree.
Import ListNotations.
Local Open Scope N_scope.

Section Spec.
  Context {A : Type}.
  Variable ltb : A -> A -> bool.

  (** [pl] = current key of every player, [None] = exhausted. *)
  Definition live (pl : list (option A)) (j : N) (k : A) : Prop := nthN pl j = Some (Some k).
  Definition some_live (pl : list (option A)) : Prop := exists j k, live pl j k.

  (** [s] is a live player, no live player's key is less than its key, and (stable classes) it has the
      smallest index among the players with an equivalent key. *)
  Definition winner_ok (stable : bool) (pl : list (option A)) (s : N) : Prop :=
    exists key, live pl s key /\
      forall j kj, live pl j kj ->
        ltb kj key = false /\ (stable = true -> ltb key kj = false -> s <= j).

  Fixpoint all_from (f : N -> option A -> bool) (i : N) (pl : list (option A)) : bool :=
    match pl with
    | [] => true
    | x :: r => f i x && all_from f (i + 1) r
    end.

  Definition has_live (pl : list (option A)) : bool :=
    existsb (fun x => match x with Some _ => true | None => false end) pl.

  Definition check_min (stable : bool) (pl : list (option A)) (s : N) : bool :=
    match nthN pl s with
    | Some (Some key) =>
        all_from (fun j x => match x with
                             | Some kj => negb (ltb kj key) && (negb stable || ltb key kj || (s <=? j))
                             | None => true
                             end) 0 pl
    | _ => negb (has_live pl)
    end.

  (** Replays a reported sequence of min_source() values against the caller protocol of [LoserTree.drive]:
      each report must be right for the players' current keys, and the sequence must stop exactly where
      the caller stops. *)
  Definition heads (seqs : list (list A)) : list (option A) := map (@hd_error A) seqs.

  Fixpoint check_trace (v : variant) (seqs : list (list A)) (tr : list N) : bool :=
    match tr with
    | [] => false
    | s :: tr' =>
      check_min (v_stable v) (heads seqs) s &&
      match nthN seqs s with
      | Some (_ :: rest) =>
        match rest, v_guarded v with
        | [], false => match tr' with [] => true | _ => false end
        | _, _ => check_trace v (setN seqs s rest) tr'
        end
      | _ => match tr' with [] => true | _ => false end
      end
    end.
End Spec.

(** Instances run by the correspondence driver: keys are numbers, cmp_ = std::less, ValueType() = 0. *)
Definition run_N (v : variant) (sentinel : N) (seqs : list (list N)) : list N :=
  lt_run N.ltb 0 v sentinel seqs.
Definition check_N (v : variant) (seqs : list (list N)) (tr : list N) : bool :=
  check_trace N.ltb v seqs tr.
