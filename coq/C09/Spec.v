(** C09 — what "min_source() is right" means, as a proposition over the players' current keys and as a
    boolean checker (proved equivalent in C09/Winner.v); the trace checker used on the implementation's output. *)
From Coq Require Import List Bool NArith Lia.
From TLXV Require Import C09.LoserTree.
Import ListNotations.
Local Open Scope N_scope.

Section Spec.
  Context {A : Type}.
  Variable ltb : A -> A -> bool.

  (** [pl] = current key of every player, [None] = exhausted. *)
  Definition live (pl : list (option A)) (j : N) (k : A) : Prop := nthN pl j = Some (Some k).
  Definition some_live (pl : list (option A)) : Prop := exists j k, live pl j k.

  (** [s] is a live player, no live player's key is less than its key, and (stable classes) it has the
      smallest index among the players with an equivalent key. *)
  Definition winner_ok (stable : bool) (pl : list (option A)) (s : N) : Prop :=
    exists key, live pl s key /\
      forall j kj, live pl j kj ->
        ltb kj key = false /\ (stable = true -> ltb key kj = false -> s <= j).

  Fixpoint all_from (f : N -> option A -> bool) (i : N) (pl : list (option A)) : bool :=
    match pl with
    | [] => true
    | x :: r => f i x && all_from f (i + 1) r
    end.

  Definition has_live (pl : list (option A)) : bool :=
    existsb (fun x => match x with Some _ => true | None => false end) pl.

  Definition check_min (stable : bool) (pl : list (option A)) (s : N) : bool :=
    match nthN pl s with
    | Some (Some key) =>
        all_from (fun j x => match x with
                             | Some kj => negb (ltb kj key) && (negb stable || ltb key kj || (s <=? j))
                             | None => true
                             end) 0 pl
    | _ => negb (has_live pl)
    end.

  (** Replays a reported sequence of min_source() values against the caller protocol of [LoserTree.drive]:
      each report must be right for the players' current keys, and the sequence must stop exactly where
      the caller stops. *)
  Definition heads (seqs : list (list A)) : list (option A) := map (@hd_error A) seqs.

  Fixpoint check_trace (v : variant) (seqs : list (list A)) (tr : list N) : bool :=
    match tr with
    | [] => false
    | s :: tr' =>
      check_min (v_stable v) (heads seqs) s &&
      match nthN seqs s with
      | Some (_ :: rest) =>
        match rest, v_guarded v with
        | [], false => match tr' with [] => true | _ => false end
        | _, _ => check_trace v (setN seqs s rest) tr'
        end
      | _ => match tr' with [] => true | _ => false end
      end
    end.

  (** * The unguarded classes driven outside their documented key precondition (C09/UnguardedGeneral.v; this is how
      multiway_merge_loser_tree_combined uses them): keys may exceed the sentinel, the caller consults the tree only
      while some current key still beats the sentinel (stable: is not greater; unstable: is strictly less), and stops
      when the winner's sequence would run empty. *)
  Variable dkey : A.

  Definition beatsb (v : variant) (sentinel k : A) : bool :=
    if v_stable v then negb (ltb sentinel k) else ltb k sentinel.

  Definition some_beats (v : variant) (sentinel : A) (seqs : list (list A)) : bool :=
    existsb (fun sq => match sq with k :: _ => beatsb v sentinel k | [] => false end) seqs.

  Fixpoint drive_g (v : variant) (sentinel : A) (fuel : nat) (t : tree) (seqs : list (list A)) : list N :=
    if some_beats v sentinel seqs then
      let s := lt_min_source dkey v t in
      s :: match fuel with
           | O => []
           | S f =>
             match nthN seqs s with
             | Some (_ :: rest) =>
               match rest with
               | [] => []
               | y :: _ => drive_g v sentinel f (lt_delete_min_insert ltb dkey v t (Some y)) (setN seqs s rest)
               end
             | _ => []
             end
           end
    else [].

  Definition lt_run_g (v : variant) (sentinel : A) (seqs : list (list A)) : list N :=
    drive_g v sentinel (S (length (concat seqs))) (lt_build ltb dkey v sentinel (map (@hd_error A) seqs)) seqs.

  Fixpoint check_trace_g (v : variant) (sentinel : A) (seqs : list (list A)) (tr : list N) : bool :=
    match tr with
    | [] => negb (some_beats v sentinel seqs)
    | s :: tr' =>
      some_beats v sentinel seqs && check_min (v_stable v) (heads seqs) s &&
      match nthN seqs s with
      | Some (_ :: rest) =>
        match rest with
        | [] => match tr' with [] => true | _ => false end
        | _ :: _ => check_trace_g v sentinel (setN seqs s rest) tr'
        end
      | _ => match tr' with [] => true | _ => false end
      end
    end.
End Spec.

(** Instances run by the correspondence driver: keys are numbers, cmp_ = std::less, ValueType() = 0. *)
Definition run_N (v : variant) (sentinel : N) (seqs : list (list N)) : list N :=
  lt_run N.ltb 0 v sentinel seqs.
Definition check_N (v : variant) (seqs : list (list N)) (tr : list N) : bool :=
  check_trace N.ltb v seqs tr.
Definition run_gN (v : variant) (sentinel : N) (seqs : list (list N)) : list N :=
  lt_run_g N.ltb 0 v sentinel seqs.
Definition check_gN (v : variant) (sentinel : N) (seqs : list (list N)) (tr : list N) : bool :=
  check_trace_g N.ltb v sentinel seqs tr.
