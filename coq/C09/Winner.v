(** C09 — the invariant over whole trees ([TInv]), established by constructor + insert_start + init, preserved by
    delete_min_insert, and what it says about min_source(). *)
From Coq Require Import List Bool NArith PArith Lia.
From TLXV Require Import Common.Order C09.LoserTree C09.Tournament C09.VOrder C09.Invariant C09.Spec.
Import ListNotations.
Local Open Scope N_scope.

(** * N-indexed list access *)
Section NthN.
  Context {B : Type}.
  Lemma nthN_Some_lt (l : list B) i x : nthN l i = Some x -> i < N.of_nat (length l).
  Proof.
    revert i; induction l as [|y r IH]; intros i H; cbn [nthN] in H; [discriminate|].
    cbn [length]. destruct (i =? 0) eqn:E; [apply N.eqb_eq in E; lia|].
    apply N.eqb_neq in E. specialize (IH _ H). lia.
  Qed.
  Lemma nthN_lt_Some (l : list B) i : i < N.of_nat (length l) -> exists x, nthN l i = Some x.
  Proof.
    revert i; induction l as [|y r IH]; intros i H; cbn [length] in H; [lia|].
    cbn [nthN]. destruct (i =? 0) eqn:E; [eauto|]. apply N.eqb_neq in E. apply IH. lia.
  Qed.
  Lemma nthN_None (l : list B) i : N.of_nat (length l) <= i -> nthN l i = None.
  Proof.
    intros H. destruct (nthN l i) eqn:E; [|reflexivity]. apply nthN_Some_lt in E. lia.
  Qed.
  Lemma nthN_app_last (l : list B) x : nthN (l ++ [x]) (N.of_nat (length l)) = Some x.
  Proof.
    induction l as [|y r IH]; [reflexivity|]. cbn [app length nthN].
    destruct (N.of_nat (S (length r)) =? 0) eqn:E; [apply N.eqb_eq in E; lia|].
    rewrite Nat2N.inj_succ, N.pred_succ. exact IH.
  Qed.
  Lemma nthN_app_other (l : list B) x i : i <> N.of_nat (length l) -> nthN (l ++ [x]) i = nthN l i.
  Proof.
    revert i; induction l as [|y r IH]; intros i H; cbn [app length nthN] in *.
    - destruct (i =? 0) eqn:E; [apply N.eqb_eq in E; cbn in H; lia|reflexivity].
    - destruct (i =? 0) eqn:E; [reflexivity|]. apply N.eqb_neq in E. apply IH. lia.
  Qed.
  Lemma length_setN (l : list B) i x : length (setN l i x) = length l.
  Proof.
    revert i; induction l as [|y r IH]; intros i; cbn [setN]; [reflexivity|].
    destruct (i =? 0); cbn [length]; [reflexivity|now rewrite IH].
  Qed.
  Lemma nthN_setN_same (l : list B) i x : i < N.of_nat (length l) -> nthN (setN l i x) i = Some x.
  Proof.
    revert i; induction l as [|y r IH]; intros i H; cbn [length] in H; [lia|].
    cbn [setN]. destruct (i =? 0) eqn:E; cbn [nthN]; rewrite E; [reflexivity|].
    apply N.eqb_neq in E. apply IH. lia.
  Qed.
  Lemma nthN_setN_other (l : list B) i j x : i <> j -> nthN (setN l i x) j = nthN l j.
  Proof.
    revert i j; induction l as [|y r IH]; intros i j H; cbn [setN nthN]; [reflexivity|].
    destruct (i =? 0) eqn:E; cbn [nthN].
    - apply N.eqb_eq in E. destruct (j =? 0) eqn:F; [apply N.eqb_eq in F; lia|reflexivity].
    - destruct (j =? 0) eqn:F; [reflexivity|]. apply N.eqb_neq in E, F. apply IH. lia.
  Qed.
End NthN.

Lemma walk_div2 q : walk (N.div2 (Npos q)) = up q.
Proof. destruct q; reflexivity. Qed.

Section Winner.
  Context {A : Type}.
  Variable ltb : A -> A -> bool.
  Variable dkey : A.
  Variable sentinel : A.
  Hypothesis HS : SWO ltb.
  Variable v : variant.
  Notation entry := (@entry A).
  Notation tree := (@tree A).
  Notation aget := (aget dkey).
  Notation gle := (gle ltb v).
  Notation good := (good ltb sentinel v).
  Notation T := (T ltb dkey v).
  Notation mk_entry := (mk_entry dkey v).

  (** a padding leaf: what the constructors write (the key of a guarded padding leaf is never read) *)
  Definition padlike (e : entry) : Prop :=
    e_sup e = v_guarded v /\ e_src e = invalid_ /\ (v_guarded v = false -> e_key e = sentinel).

  (** the documented precondition of the unguarded classes *)
  Definition pl_ok (pl : list (option A)) : Prop :=
    v_guarded v = false -> forall i x, nthN pl i = Some x -> exists k, x = Some k /\ ltb sentinel k = false.

  Definition leaf_ok (pl : list (option A)) (i : N) (e : entry) : Prop :=
    match nthN pl i with
    | Some x => e = mk_entry i x
    | None => padlike e
    end.

  Record TInv (t : tree) (pl : list (option A)) : Prop := {
    ti_k : t_k t = 2 ^ N.of_nat (depth t);
    ti_ik : t_ik t = N.of_nat (length pl);
    ti_ik1 : 1 <= t_ik t <= 2 ^ 30;
    ti_le : t_ik t <= t_k t;
    ti_len : N.of_nat (length (t_losers t)) = 2 * t_k t;
    ti_pl : pl_ok pl;
    ti_T : exists cur bs, length bs = depth t /\ T cur (t_losers t) 1 bs /\
             aget (t_losers t) 0 = cur (sub 1 bs) /\
             forall i p, i < t_k t -> Npos p = t_k t + i -> leaf_ok pl i (cur p)
  }.

  Lemma invalid_big : 2 ^ 30 < invalid_.
  Proof. reflexivity. Qed.

  Lemma leaf_good pl i e : pl_ok pl -> N.of_nat (length pl) <= 2 ^ 30 -> leaf_ok pl i e -> good e.
  Proof.
    intros Hpl Hik H. unfold leaf_ok in H. unfold VOrder.good.
    destruct (v_guarded v) eqn:G; [left; reflexivity|right].
    destruct (nthN pl i) as [x|] eqn:E.
    - destruct (Hpl G i x E) as (k & -> & Hk). subst e. cbn.
      apply nthN_Some_lt in E. pose proof invalid_big.
      destruct (i =? invalid_) eqn:F; [apply N.eqb_eq in F; lia|]. split; [lia|exact Hk].
    - destruct H as (_ & Hs & Hkey). rewrite Hs, N.eqb_refl. split; [lia|auto].
  Qed.

  Lemma leaf_src pl i e : N.of_nat (length pl) <= 2 ^ 30 -> leaf_ok pl i e ->
    (i < N.of_nat (length pl) /\ e_src e = i) \/ (N.of_nat (length pl) <= i /\ e_src e = invalid_).
  Proof.
    intros Hik H. unfold leaf_ok in H. destruct (nthN pl i) as [x|] eqn:E.
    - left. split; [eapply nthN_Some_lt; eauto|]. subst e. destruct x; reflexivity.
    - right. split; [|apply H]. destruct (N.le_gt_cases (N.of_nat (length pl)) i) as [C|C]; [exact C|].
      destruct (nthN_lt_Some pl i C) as [x Hx]. congruence.
  Qed.

  (** * constructor + insert_start *)
  Section Build.
    Variable K : N.
    Definition PreI (done : list (option A)) (t : tree) : Prop :=
      t_k t = K /\ N.of_nat (length (t_losers t)) = 2 * K /\
      (t_first t = true -> done = []) /\
      forall i, i < K -> leaf_ok done i (aget (t_losers t) (K + i)).

    Lemma insert_start_PreI done t h :
      PreI done t -> N.of_nat (length done) < K ->
      PreI (done ++ [h]) (lt_insert_start dkey v t h (N.of_nat (length done))) /\
      t_ik (lt_insert_start dkey v t h (N.of_nat (length done))) = t_ik t.
    Proof.
      intros (Hk & Hlen & Hfirst & Hleaf) Hj. split; [|reflexivity].
      unfold lt_insert_start. cbn [t_k t_losers t_first]. rewrite Hk.
      set (j := N.of_nat (length done)) in *.
      set (Lf := if v_guarded v && negb (v_ptr v) && t_first t then _ else _).
      assert (HlenF : N.of_nat (length Lf) = 2 * K).
      { unfold Lf. destruct (v_guarded v && negb (v_ptr v) && t_first t); [rewrite map_length|]; exact Hlen. }
      assert (HleafF : forall i, i < K -> leaf_ok done i (aget Lf (K + i))).
      { intros i Hi. unfold Lf. destruct (v_guarded v && negb (v_ptr v) && t_first t) eqn:Ef; [|auto].
        apply andb_true_iff in Ef. destruct Ef as [Ef F1]. apply andb_true_iff in Ef. destruct Ef as [G _].
        rewrite (Hfirst F1) in *. specialize (Hleaf i Hi). unfold leaf_ok in *. cbn [nthN] in *.
        rewrite aget_map_key by lia. destruct Hleaf as (H1 & H2 & H3).
        split; [exact H1|]. split; [exact H2|]. intros G'. congruence. }
      unfold PreI. cbn [t_k t_losers t_first].
      split; [reflexivity|]. split; [rewrite length_aset; exact HlenF|]. split; [discriminate|].
      intros i Hi. destruct (N.eq_dec i j) as [->|Hne].
      - rewrite aget_aset_same by lia. unfold leaf_ok. unfold j. now rewrite nthN_app_last.
      - rewrite aget_aset_other by lia. unfold leaf_ok. rewrite nthN_app_other by exact Hne. apply HleafF. exact Hi.
    Qed.

    Lemma insert_all_PreI : forall r done t,
      PreI done t -> N.of_nat (length done + length r) <= K ->
      PreI (done ++ r) (insert_all dkey v t (N.of_nat (length done)) r) /\
      t_ik (insert_all dkey v t (N.of_nat (length done)) r) = t_ik t.
    Proof.
      induction r as [|h r IH]; intros done t HP Hb.
      - rewrite app_nil_r. cbn. auto.
      - cbn [insert_all]. cbn [length] in Hb.
        destruct (insert_start_PreI done t h HP) as [HP' Hik']; [lia|].
        replace (N.of_nat (length done) + 1) with (N.of_nat (length (done ++ [h])))
          by (rewrite app_length; cbn [length]; lia).
        destruct (IH (done ++ [h]) _ HP') as [HP'' Hik''].
        { rewrite app_length. cbn [length]. lia. }
        rewrite <- app_assoc in HP''. cbn [app] in HP''. split; [exact HP''|]. rewrite Hik''. exact Hik'.
    Qed.
  End Build.

  (** * what the invariant says about the top entry *)
  Definition op_ok (op : option A) : Prop :=
    v_guarded v = false -> exists k, op = Some k /\ ltb sentinel k = false.

  Lemma rk_real i (k : A) : i < 2 ^ 30 -> rk v (mkE false i k) = false.
  Proof.
    intros Hi. unfold rk. cbn. destruct (v_guarded v); [reflexivity|].
    pose proof invalid_big. apply N.eqb_neq. lia.
  Qed.

  Lemma rk_pad e : padlike e -> rk v e = true.
  Proof.
    intros (H1 & H2 & _). unfold rk. destruct (v_guarded v); [exact H1|]. rewrite H2. apply N.eqb_refl.
  Qed.

  Lemma pow_lt_depth (cs : list bool) h : (length cs < h)%nat -> 2 * 2 ^ N.of_nat (length cs) <= 2 ^ N.of_nat h.
  Proof.
    intros H. rewrite <- N.pow_succ_r', <- Nat2N.inj_succ. apply N.pow_le_mono_r; lia.
  Qed.

  Lemma winner_facts (t : tree) pl cur bs :
    t_k t = 2 ^ N.of_nat (depth t) -> t_ik t = N.of_nat (length pl) -> t_ik t <= 2 ^ 30 -> t_ik t <= t_k t ->
    pl_ok pl -> length bs = depth t -> T cur (t_losers t) 1 bs ->
    (forall i p, i < t_k t -> Npos p = t_k t + i -> leaf_ok pl i (cur p)) ->
    some_live pl ->
    exists i key, Npos (sub 1 bs) = t_k t + i /\ i < N.of_nat (length pl) /\ live pl i key /\
      cur (sub 1 bs) = mkE false i key /\
      forall j kj, live pl j kj -> gle (mkE false i key) (mkE false j kj) = true.
  Proof.
    intros Hk Hik Hik30 Hle Hpl Hbs HT Hleaves (j0 & k0 & Hlive0).
    destruct (leaf_index (depth t) bs Hbs) as (i & Hi & Hq). rewrite <- Hk in Hi, Hq.
    assert (Hmin : forall j kj, live pl j kj -> gle (cur (sub 1 bs)) (mkE false j kj) = true).
    { intros j kj Hl. pose proof (nthN_Some_lt _ _ _ Hl) as Hj.
      destruct (leaf_exists (depth t) j) as (bsj & Hlj & Hpj); [rewrite <- Hk; lia|]. rewrite <- Hk in Hpj.
      pose proof (Hleaves j (sub 1 bsj) ltac:(lia) Hpj) as Hlo. unfold leaf_ok in Hlo. unfold live in Hl.
      rewrite Hl in Hlo. cbn in Hlo. rewrite <- Hlo. apply (T_min ltb dkey HS v cur _ 1 bs HT). lia. }
    pose proof (Hleaves i (sub 1 bs) Hi Hq) as Hlo. unfold leaf_ok in Hlo.
    pose proof (Hmin j0 k0 Hlive0) as Hg0. unfold VOrder.gle in Hg0.
    pose proof (nthN_Some_lt _ _ _ Hlive0) as Hj0.
    rewrite (rk_real j0 k0) in Hg0 by lia. apply andb_true_iff in Hg0. destruct Hg0 as [Hrk _].
    apply negb_true_iff in Hrk.
    destruct (nthN pl i) as [x|] eqn:Ex; [|rewrite (rk_pad _ Hlo) in Hrk; discriminate].
    assert (exists key, x = Some key) as [key ->].
    { destruct x as [key|]; [eauto|]. destruct (v_guarded v) eqn:G.
      - rewrite Hlo in Hrk. unfold rk in Hrk. rewrite G in Hrk. cbn in Hrk. rewrite G in Hrk. discriminate.
      - destruct (Hpl G i None Ex) as (k & Hk' & _). discriminate. }
    exists i, key. cbn in Hlo. split; [exact Hq|]. split; [eapply nthN_Some_lt; eauto|]. split; [exact Ex|].
    split; [exact Hlo|]. intros j kj Hl. rewrite <- Hlo. apply Hmin. exact Hl.
  Qed.

  Lemma gle_real_spec i (key : A) j (kj : A) : i < 2 ^ 30 -> j < 2 ^ 30 ->
    gle (mkE false i key) (mkE false j kj) = true ->
    ltb kj key = false /\ (v_stable v = true -> ltb key kj = false -> i <= j).
  Proof.
    intros Hi Hj H. unfold VOrder.gle in H. rewrite !rk_real in H by assumption. cbn in H.
    apply orb_true_iff in H. destruct H as [H|H].
    - split; [apply (swo_asym _ HS); exact H|]. intros _ C. congruence.
    - apply andb_true_iff in H. destruct H as [H1 H2]. apply negb_true_iff in H1. split; [exact H1|].
      intros St _. rewrite St in H2. cbn in H2. apply N.leb_le. exact H2.
  Qed.

  (** min_source() is right whenever a live player remains *)
  Theorem TInv_winner_ok t pl : TInv t pl -> some_live pl ->
    winner_ok ltb (v_stable v) pl (lt_min_source dkey v t).
  Proof.
    intros [Hk Hik [Hik1 Hik30] Hle Hlen Hpl (cur & bs & Hbs & HT & H0 & Hleaves)] Hlive.
    destruct (winner_facts t pl cur bs Hk Hik Hik30 Hle Hpl Hbs HT Hleaves Hlive)
      as (i & key & Hq & Hi & Hli & Hcur & Hmin).
    unfold lt_min_source. rewrite H0, Hcur. cbn. rewrite andb_false_r.
    exists key. split; [exact Hli|]. intros j kj Hl.
    apply gle_real_spec; [lia| |apply Hmin; exact Hl].
    apply nthN_Some_lt in Hl. lia.
  Qed.

  (** * init() establishes the invariant *)
  Theorem build_TInv heads :
    1 <= N.of_nat (length heads) <= 2 ^ 30 -> pl_ok heads ->
    TInv (lt_build ltb dkey v sentinel heads) heads.
  Proof.
    intros [Hik1 Hik30] Hpl. unfold lt_build.
    set (IK := N.of_nat (length heads)) in *. set (K := 2 ^ N.log2_up IK).
    assert (HIKK : IK <= K) by (apply N.log2_log2_up_spec; lia).
    assert (HK0 : K <> 0) by (apply N.pow_nonzero; lia).
    assert (HP0 : PreI K [] (lt_new dkey v IK sentinel)).
    { unfold PreI, lt_new, round_up_pow2. cbn [t_k t_losers t_first]. fold K. split; [reflexivity|].
      split; [rewrite repeat_length, N2Nat.id; reflexivity|]. split; [reflexivity|].
      intros i Hi. rewrite aget_repeat by (rewrite N2Nat.id; lia).
      unfold leaf_ok. cbn [nthN]. unfold padlike, pad. destruct (v_guarded v); cbn; auto.
      split; [reflexivity|]. split; [reflexivity|]. discriminate. }
    destruct (insert_all_PreI K heads [] _ HP0) as [HP1 Hik']; [cbn [length]; fold IK; lia|].
    cbn [length app] in HP1, Hik'. change (N.of_nat 0) with 0 in HP1, Hik'.
    set (t1 := insert_all dkey v (lt_new dkey v IK sentinel) 0 heads) in *.
    change (t_ik (lt_new dkey v IK sentinel)) with IK in Hik'.
    destruct HP1 as (Hk1 & Hlen1 & _ & Hleaf1).
    unfold lt_init. rewrite Hk1. destruct (K =? 0) eqn:EK; [apply N.eqb_eq in EK; contradiction|].
    assert (Hd : depth t1 = N.to_nat (N.log2_up IK)) by (unfold depth; now rewrite Hik').
    assert (HKd : K = 2 ^ N.of_nat (depth t1)) by (rewrite Hd, N2Nat.id; reflexivity).
    set (h := depth t1) in *. set (L := t_losers t1) in *.
    destruct (init_winner ltb dkey v h K 1 L) as [w L'] eqn:EI.
    set (cur := fun p : positive => aget L (Npos p)).
    assert (Hleaves : forall i p, i < K -> Npos p = K + i -> leaf_ok heads i (cur p)).
    { intros i p Hi Hp. unfold cur. rewrite Hp. apply Hleaf1. exact Hi. }
    assert (Hlk : forall cs, length cs = h -> exists i, i < K /\ Npos (sub 1 cs) = K + i).
    { intros cs Hcs. destruct (leaf_index h cs Hcs) as (i & Hi & Hp). exists i. rewrite HKd. auto. }
    rewrite HKd in EI.
    destruct (init_T ltb dkey sentinel HS v h h [] L cur h) with (w := w) (L' := L')
      as (bs & Hbs & Hw & HT & HlenL' & Hfr); try exact EI; try reflexivity; try lia.
    { intros cs Hcs. cbn [sub]. destruct (Hlk cs Hcs) as (i & Hi & Hp).
      apply (leaf_good heads i); [exact Hpl|fold IK; lia|]. apply Hleaves; assumption. }
    { intros cs cs' Hcs Hcs' Hlt. cbn [sub] in *.
      destruct (Hlk cs Hcs) as (i & Hi & Hp). destruct (Hlk cs' Hcs') as (i' & Hi' & Hp').
      pose proof (leaf_src heads i _ ltac:(fold IK; lia) (Hleaves i _ Hi Hp)) as S1.
      pose proof (leaf_src heads i' _ ltac:(fold IK; lia) (Hleaves i' _ Hi' Hp')) as S2.
      fold IK in S1, S2. pose proof invalid_big. lia. }
    { intros cs Hcs. cbn [sub]. pose proof (sub_range 1 cs) as Hr. pose proof (pow_lt_depth cs h Hcs). lia. }
    cbn [sub] in Hw, HT, Hfr.
    assert (Hdep : depth (mkT (t_ik t1) K (aset L' 0 (aget L' w)) (t_first t1)) = h) by reflexivity.
    constructor; cbn [t_k t_ik t_losers]; rewrite ?Hdep.
    - exact HKd.
    - exact Hik'.
    - rewrite Hik'. lia.
    - rewrite Hik'. exact HIKK.
    - rewrite length_aset, HlenL'. exact Hlen1.
    - exact Hpl.
    - exists cur, bs. split; [exact Hbs|]. split.
      + eapply T_frame; [| |exact HT]; [|reflexivity]. intros cs _. apply aget_aset_other. discriminate.
      + split; [|exact Hleaves].
        rewrite aget_aset_same by lia. rewrite Hw. rewrite Hfr; [reflexivity|].
        intros cs Hcs E. inversion E as [E']. apply sub_inj in E'. subst cs. lia.
  Qed.

  (** * delete_min_insert preserves the invariant *)
  Theorem dmi_TInv t pl op : TInv t pl -> some_live pl -> op_ok op ->
    TInv (lt_delete_min_insert ltb dkey v t op) (setN pl (lt_min_source dkey v t) op).
  Proof.
    intros [Hk Hik [Hik1 Hik30] Hle Hlen Hpl (cur & bs & Hbs & HT & H0 & Hleaves)] Hlive Hop.
    destruct (winner_facts t pl cur bs Hk Hik Hik30 Hle Hpl Hbs HT Hleaves Hlive)
      as (i & key & Hq & Hi & Hli & Hcur & Hmin).
    assert (Hms : lt_min_source dkey v t = i).
    { unfold lt_min_source. rewrite H0, Hcur. cbn. now rewrite andb_false_r. }
    rewrite Hms. unfold lt_delete_min_insert. rewrite H0, Hcur. cbn [e_src].
    rewrite <- Hq, walk_div2, up_sub. cbn [up]. rewrite app_nil_r.
    set (e := mk_entry i op).
    destruct (fold_left (step ltb dkey v) (apath 1 bs) (e, t_losers t)) as [c' L'] eqn:EF.
    set (pl' := setN pl i op).
    assert (Hpl' : pl_ok pl').
    { intros G j x Hj. unfold pl' in Hj. destruct (N.eq_dec i j) as [<-|Hne].
      - rewrite nthN_setN_same in Hj by exact Hi. inversion Hj; subst x. apply Hop. exact G.
      - rewrite nthN_setN_other in Hj by exact Hne. apply (Hpl G j x Hj). }
    assert (Hlen' : length pl' = length pl) by apply length_setN.
    assert (Hle_e : leaf_ok pl' i e).
    { unfold leaf_ok, pl'. rewrite nthN_setN_same by exact Hi. reflexivity. }
    assert (Hlk : forall cs, length cs = depth t -> exists j, j < t_k t /\ Npos (sub 1 cs) = t_k t + j).
    { intros cs Hcs. destruct (leaf_index (depth t) cs Hcs) as (j & Hj & Hp). exists j. rewrite Hk. auto. }
    destruct (replay_T ltb dkey sentinel v bs 1 cur (t_losers t) e HT) with (c' := c') (L' := L')
      as (bs' & Hbs' & HT' & Hc' & _ & HlenL' & _); try exact EF.
    { intros cs Hcs. destruct (Hlk cs ltac:(lia)) as (j & Hj & Hp).
      apply (leaf_good pl j); [exact Hpl|lia|]. apply Hleaves; assumption. }
    { apply (leaf_good pl' i); [exact Hpl'|lia|exact Hle_e]. }
    { unfold VOrder.candok. destruct (v_guarded v) eqn:G; [left; reflexivity|right].
      destruct (Hop G) as (k & Hk' & _). unfold e. rewrite Hk'. cbn. apply rk_real. lia. }
    { intros cs Hcs. pose proof (sub_range 1 cs) as Hr. pose proof (pow_lt_depth cs (depth t) ltac:(lia)). lia. }
    set (cur' := cur_upd cur (sub 1 bs) e) in *.
    assert (Hdep : depth (mkT (t_ik t) (t_k t) (aset L' 0 c') (t_first t)) = depth t) by reflexivity.
    constructor; cbn [t_k t_ik t_losers]; rewrite ?Hdep.
    - exact Hk.
    - fold pl'. rewrite Hlen'. exact Hik.
    - lia.
    - exact Hle.
    - rewrite length_aset, HlenL'. exact Hlen.
    - exact Hpl'.
    - exists cur', bs'. split; [lia|]. split.
      + eapply T_frame; [| |exact HT']; [|reflexivity]. intros cs _. apply aget_aset_other. discriminate.
      + split; [rewrite aget_aset_same by lia; exact Hc'|].
        intros j p Hj Hp. unfold cur', cur_upd. fold pl'.
        destruct (Pos.eqb_spec p (sub 1 bs)) as [->|Hne].
        * assert (j = i) as -> by lia. exact Hle_e.
        * assert (j <> i) by (intros ->; apply Hne; assert (E : Npos p = Npos (sub 1 bs)) by lia; now inversion E).
          unfold leaf_ok, pl'. rewrite nthN_setN_other by auto. apply Hleaves; assumption.
  Qed.
End Winner.
