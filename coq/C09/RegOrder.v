(** C09 — the start-up theorems for an arbitrary registration order of the players ([BuildOrder.lt_build_order]):
    whatever the order of the insert_start calls (every player registered at least once, nothing else registered),
    init() establishes the same invariants [TInv] / [UInv] as for the ascending order of [lt_build]; hence
    everything proved from the invariant (delete_min_insert, min_source, the runs) holds for every order. *)
From Coq Require Import List Bool NArith PArith Lia.
From TLXV Require Import Common.Order C09.LoserTree C09.Tournament C09.VOrder C09.Invariant C09.Spec C09.Instances
     C09.Winner C09.Final C09.UnguardedGeneral C09.BuildOrder.
Import ListNotations.
Local Open Scope N_scope.

Section RegOrder.
  Context {A : Type}.
  Variable ltb : A -> A -> bool.
  Variable dkey : A.
  Variable sentinel : A.
  Hypothesis HS : SWO ltb.
  Variable v : variant.
  Notation entry := (@entry A).
  Notation tree := (@tree A).
  Notation aget := (aget dkey).
  Notation mk_entry := (mk_entry dkey v).
  Notation leaf_ok := (leaf_ok dkey sentinel v).
  Notation padlike := (padlike sentinel v).
  Notation TInv := (TInv ltb dkey sentinel v).
  Notation UInv := (UInv ltb dkey sentinel v).

  (** every player is registered (possibly more than once), and only players are *)
  Definition order_ok (heads : list (option A)) (order : list N) : Prop :=
    (forall i, i < N.of_nat (length heads) -> In i order) /\
    (forall i, In i order -> i < N.of_nat (length heads)).

  (** the state init() starts from: every leaf holds its player's entry, the other leaves are padding *)
  Definition Started (heads : list (option A)) (t1 : tree) : Prop :=
    let K := 2 ^ N.log2_up (N.of_nat (length heads)) in
    t_k t1 = K /\ t_ik t1 = N.of_nat (length heads) /\ N.of_nat (length (t_losers t1)) = 2 * K /\
    forall i, i < K -> leaf_ok heads i (aget (t_losers t1) (K + i)).

  (** * insert_start in any order reaches [Started] *)
  Section Reg.
    Variable heads : list (option A).
    Let IK := N.of_nat (length heads).
    Let K := 2 ^ N.log2_up IK.

    Definition PreO (done : list N) (t : tree) : Prop :=
      t_k t = K /\ t_ik t = IK /\ N.of_nat (length (t_losers t)) = 2 * K /\
      (t_first t = true -> done = []) /\
      forall i, i < K ->
        (In i done -> aget (t_losers t) (K + i) = mk_entry i (keyp_of heads i)) /\
        (~ In i done -> padlike (aget (t_losers t) (K + i))).

    Lemma insert_start_PreO done t i :
      PreO done t -> i < K ->
      PreO (done ++ [i]) (lt_insert_start dkey v t (keyp_of heads i) i).
    Proof.
      intros (Hk & Hik & Hlen & Hfirst & Hleaf) Hi.
      unfold lt_insert_start. cbn [t_k t_losers t_first t_ik]. rewrite Hk.
      set (e := mk_entry i (keyp_of heads i)).
      set (Lf := if v_guarded v && negb (v_ptr v) && t_first t then _ else _).
      assert (HlenF : N.of_nat (length Lf) = 2 * K).
      { unfold Lf. destruct (v_guarded v && negb (v_ptr v) && t_first t); [rewrite map_length|]; exact Hlen. }
      assert (HleafF : forall j, j < K ->
                (In j done -> aget Lf (K + j) = mk_entry j (keyp_of heads j)) /\
                (~ In j done -> padlike (aget Lf (K + j)))).
      { intros j Hj. unfold Lf. destruct (v_guarded v && negb (v_ptr v) && t_first t) eqn:Ef; [|auto].
        apply andb_true_iff in Ef. destruct Ef as [Ef F1]. apply andb_true_iff in Ef. destruct Ef as [G _].
        rewrite (Hfirst F1) in *. split; [intros []|]. intros _.
        destruct (Hleaf j Hj) as [_ Hp]. specialize (Hp (fun x => x)).
        rewrite aget_map_key by lia. destruct Hp as (H1 & H2 & H3).
        split; [exact H1|]. split; [exact H2|]. intros G'. congruence. }
      unfold PreO. cbn [t_k t_losers t_first t_ik].
      split; [reflexivity|]. split; [exact Hik|]. split; [rewrite length_aset; exact HlenF|]. split; [discriminate|].
      intros j Hj. destruct (N.eq_dec j i) as [->|Hne].
      - rewrite aget_aset_same by lia. split; [reflexivity|].
        intros C. exfalso. apply C. apply in_or_app. right. left. reflexivity.
      - rewrite aget_aset_other by lia. destruct (HleafF j Hj) as [H1 H2]. split.
        + intros Hin. apply in_app_or in Hin. destruct Hin as [Hin|[Hin|[]]]; [auto|congruence].
        + intros Hn. apply H2. intros C. apply Hn. apply in_or_app. left. exact C.
    Qed.

    Lemma insert_order_PreO : forall order done t,
      PreO done t -> (forall i, In i order -> i < K) ->
      PreO (done ++ order) (insert_order dkey v t heads order).
    Proof.
      induction order as [|i r IH]; intros done t HP Hb.
      - rewrite app_nil_r. exact HP.
      - cbn [insert_order fold_left].
        change (fold_left _ r ?t0) with (insert_order dkey v t0 heads r).
        replace (done ++ i :: r) with ((done ++ [i]) ++ r) by (rewrite <- app_assoc; reflexivity).
        apply IH.
        + apply insert_start_PreO; [exact HP|]. apply Hb. left. reflexivity.
        + intros j Hj. apply Hb. right. exact Hj.
    Qed.

    Lemma insert_order_Started order :
      1 <= IK -> order_ok heads order ->
      Started heads (insert_order dkey v (lt_new dkey v IK sentinel) heads order).
    Proof.
      intros Hik1 [Hall Honly].
      assert (HIKK : IK <= K) by (apply N.log2_log2_up_spec; lia).
      assert (HP0 : PreO [] (lt_new dkey v IK sentinel)).
      { unfold PreO, lt_new, round_up_pow2. cbn [t_k t_ik t_losers t_first]. fold K.
        split; [reflexivity|]. split; [reflexivity|].
        split; [rewrite repeat_length, N2Nat.id; reflexivity|]. split; [reflexivity|].
        intros i Hi. split; [intros []|]. intros _. rewrite aget_repeat by (rewrite N2Nat.id; lia).
        unfold Winner.padlike, pad. destruct (v_guarded v); cbn; auto.
        split; [reflexivity|]. split; [reflexivity|]. discriminate. }
      pose proof (insert_order_PreO order [] _ HP0) as HP. cbn [app] in HP.
      destruct HP as (Hk & Hik & Hlen & _ & Hleaf).
      { intros i Hi. specialize (Honly i Hi). fold IK in Honly. lia. }
      unfold Started. fold IK. fold K. split; [exact Hk|]. split; [exact Hik|]. split; [exact Hlen|].
      intros i Hi. destruct (Hleaf i Hi) as [H1 H2]. unfold Winner.leaf_ok.
      destruct (nthN heads i) as [x|] eqn:Ex.
      - pose proof (nthN_Some_lt _ _ _ Ex) as Hlt. rewrite (H1 (Hall i Hlt)).
        unfold keyp_of. now rewrite Ex.
      - apply H2. intros C. specialize (Honly i C).
        destruct (nthN_lt_Some heads i Honly) as [x Hx]. congruence.
    Qed.
  End Reg.

  (** * init() on a [Started] tree establishes the invariant (as in [Winner.build_TInv]) *)
  Lemma init_TInv heads t1 :
    1 <= N.of_nat (length heads) <= 2 ^ 30 -> pl_ok ltb sentinel v heads -> Started heads t1 ->
    TInv (lt_init ltb dkey v t1) heads.
  Proof.
    intros [Hik1 Hik30] Hpl (Hk1 & Hik' & Hlen1 & Hleaf1).
    set (IK := N.of_nat (length heads)) in *. set (K := 2 ^ N.log2_up IK) in *.
    assert (HIKK : IK <= K) by (apply N.log2_log2_up_spec; lia).
    assert (HK0 : K <> 0) by (apply N.pow_nonzero; lia).
    unfold lt_init. rewrite Hk1. destruct (K =? 0) eqn:EK; [apply N.eqb_eq in EK; contradiction|].
    assert (Hd : depth t1 = N.to_nat (N.log2_up IK)) by (unfold depth; now rewrite Hik').
    assert (HKd : K = 2 ^ N.of_nat (depth t1)) by (rewrite Hd, N2Nat.id; reflexivity).
    set (h := depth t1) in *. set (L := t_losers t1) in *.
    destruct (init_winner ltb dkey v h K 1 L) as [w L'] eqn:EI.
    set (cur := fun p : positive => aget L (Npos p)).
    assert (Hleaves : forall i p, i < K -> Npos p = K + i -> leaf_ok heads i (cur p)).
    { intros i p Hi Hp. unfold cur. rewrite Hp. apply Hleaf1. exact Hi. }
    assert (Hlk : forall cs, length cs = h -> exists i, i < K /\ Npos (sub 1 cs) = K + i).
    { intros cs Hcs. destruct (leaf_index h cs Hcs) as (i & Hi & Hp). exists i. rewrite HKd. auto. }
    rewrite HKd in EI.
    destruct (init_T ltb dkey sentinel HS v h h [] L cur h) with (w := w) (L' := L')
      as (bs & Hbs & Hw & HT & HlenL' & Hfr); try exact EI; try reflexivity; try lia.
    { intros cs Hcs. cbn [sub]. destruct (Hlk cs Hcs) as (i & Hi & Hp).
      apply (leaf_good ltb dkey sentinel v heads i); [exact Hpl|fold IK; lia|]. apply Hleaves; assumption. }
    { intros cs cs' Hcs Hcs' Hlt. cbn [sub] in *.
      destruct (Hlk cs Hcs) as (i & Hi & Hp). destruct (Hlk cs' Hcs') as (i' & Hi' & Hp').
      pose proof (leaf_src dkey sentinel v heads i _ ltac:(fold IK; lia) (Hleaves i _ Hi Hp)) as S1.
      pose proof (leaf_src dkey sentinel v heads i' _ ltac:(fold IK; lia) (Hleaves i' _ Hi' Hp')) as S2.
      fold IK in S1, S2. pose proof invalid_big. lia. }
    { intros cs Hcs. cbn [sub]. pose proof (sub_range 1 cs) as Hr. pose proof (pow_lt_depth cs h Hcs). lia. }
    cbn [sub] in Hw, HT, Hfr.
    assert (Hdep : depth (mkT (t_ik t1) K (aset L' 0 (aget L' w)) (t_first t1)) = h) by reflexivity.
    constructor; cbn [t_k t_ik t_losers]; rewrite ?Hdep.
    - exact HKd.
    - exact Hik'.
    - rewrite Hik'. fold IK. lia.
    - rewrite Hik'. exact HIKK.
    - rewrite length_aset, HlenL'. exact Hlen1.
    - exact Hpl.
    - exists cur, bs. split; [exact Hbs|]. split.
      + eapply T_frame; [| |exact HT]; [|reflexivity]. intros cs _. apply aget_aset_other. discriminate.
      + split; [|exact Hleaves].
        rewrite aget_aset_same by lia. rewrite Hw. rewrite Hfr; [reflexivity|].
        intros cs Hcs E. inversion E as [E']. apply sub_inj in E'. subst cs. lia.
  Qed.

  (** the same for the unguarded classes without the sentinel bound (as in [UnguardedGeneral.ubuild_UInv]) *)
  Lemma init_UInv heads t1 : v_guarded v = false ->
    1 <= N.of_nat (length heads) <= 2 ^ 30 -> all_some heads -> Started heads t1 ->
    UInv (lt_init ltb dkey v t1) heads.
  Proof.
    intros Hv [Hik1 Hik30] Hpl (Hk1 & Hik' & Hlen1 & Hleaf1).
    set (IK := N.of_nat (length heads)) in *. set (K := 2 ^ N.log2_up IK) in *.
    assert (HIKK : IK <= K) by (apply N.log2_log2_up_spec; lia).
    assert (HK0 : K <> 0) by (apply N.pow_nonzero; lia).
    unfold lt_init. rewrite Hk1. destruct (K =? 0) eqn:EK; [apply N.eqb_eq in EK; contradiction|].
    assert (Hd : depth t1 = N.to_nat (N.log2_up IK)) by (unfold depth; now rewrite Hik').
    assert (HKd : K = 2 ^ N.of_nat (depth t1)) by (rewrite Hd, N2Nat.id; reflexivity).
    set (h := depth t1) in *. set (L := t_losers t1) in *.
    destruct (init_winner ltb dkey v h K 1 L) as [w L'] eqn:EI.
    set (cur := fun p : positive => aget L (Npos p)).
    assert (Hleaves : forall i p, i < K -> Npos p = K + i -> leaf_ok heads i (cur p)).
    { intros i p Hi Hp. unfold cur. rewrite Hp. apply Hleaf1. exact Hi. }
    assert (Hlk : forall cs, length cs = h -> exists i, i < K /\ Npos (sub 1 cs) = K + i).
    { intros cs Hcs. destruct (leaf_index h cs Hcs) as (i & Hi & Hp). exists i. rewrite HKd. auto. }
    rewrite HKd in EI.
    destruct (uinit_T ltb dkey v Hv h h [] L cur h) with (w := w) (L' := L')
      as (bs & Hbs & Hw & HT & HlenL' & Hfr); try exact EI; try reflexivity; try lia.
    { intros cs cs' Hcs Hcs' Hlt. cbn [sub] in *.
      destruct (Hlk cs Hcs) as (i & Hi & Hp). destruct (Hlk cs' Hcs') as (i' & Hi' & Hp').
      pose proof (leaf_src dkey sentinel v heads i _ ltac:(fold IK; lia) (Hleaves i _ Hi Hp)) as S1.
      pose proof (leaf_src dkey sentinel v heads i' _ ltac:(fold IK; lia) (Hleaves i' _ Hi' Hp')) as S2.
      fold IK in S1, S2. pose proof invalid_big. lia. }
    { intros cs Hcs. cbn [sub]. pose proof (sub_range 1 cs) as Hr. pose proof (pow_lt_depth cs h Hcs). lia. }
    cbn [sub] in Hw, HT, Hfr.
    assert (Hdep : depth (mkT (t_ik t1) K (aset L' 0 (aget L' w)) (t_first t1)) = h) by reflexivity.
    constructor; cbn [t_k t_ik t_losers]; rewrite ?Hdep.
    - exact HKd.
    - exact Hik'.
    - rewrite Hik'. fold IK. lia.
    - rewrite Hik'. exact HIKK.
    - rewrite length_aset, HlenL'. exact Hlen1.
    - exact Hpl.
    - exists cur, bs. split; [exact Hbs|]. split.
      + eapply UT_frame; [| |exact HT]; [|reflexivity]. intros cs _. apply aget_aset_other. discriminate.
      + split; [|exact Hleaves].
        rewrite aget_aset_same by lia. rewrite Hw. rewrite Hfr; [reflexivity|].
        intros cs Hcs E. inversion E as [E']. apply sub_inj in E'. subst cs. lia.
  Qed.

  (** * the start-up theorems for every registration order *)
  Theorem build_order_TInv heads order :
    1 <= N.of_nat (length heads) <= 2 ^ 30 -> pl_ok ltb sentinel v heads -> order_ok heads order ->
    TInv (lt_build_order ltb dkey v sentinel heads order) heads.
  Proof.
    intros Hk Hpl Ho. unfold lt_build_order. apply init_TInv; [exact Hk|exact Hpl|].
    apply insert_order_Started; [lia|exact Ho].
  Qed.

  Theorem ubuild_order_UInv heads order : v_guarded v = false ->
    1 <= N.of_nat (length heads) <= 2 ^ 30 -> all_some heads -> order_ok heads order ->
    UInv (lt_build_order ltb dkey v sentinel heads order) heads.
  Proof.
    intros Hv Hk Hpl Ho. unfold lt_build_order. apply init_UInv; [exact Hv|exact Hk|exact Hpl|].
    apply insert_order_Started; [lia|exact Ho].
  Qed.

  (** the ascending order of [lt_build] is one of them *)
  Lemma order_ok_heads_map (seqs : list (list A)) order :
    order_ok (map (@hd_error A) seqs) order -> order_ok (heads seqs) order.
  Proof. exact (fun H => H). Qed.

  (** the model driven by a caller passes the trace checker whatever the registration order *)
  Theorem run_order_checks seqs order :
    1 <= N.of_nat (length seqs) <= 2 ^ 30 -> seqs_ok ltb sentinel v seqs -> order_ok (heads seqs) order ->
    check_trace ltb v seqs (lt_run_order ltb dkey v sentinel order seqs) = true.
  Proof.
    intros Hk Hok Ho. unfold lt_run_order. apply (drive_checks ltb dkey sentinel HS v); [|exact Hok|lia].
    apply build_order_TInv; [unfold heads; rewrite map_length; exact Hk|apply seqs_ok_heads; exact Hok|exact Ho].
  Qed.

  Theorem run_g_order_checks seqs order : v_guarded v = false ->
    1 <= N.of_nat (length seqs) <= 2 ^ 30 -> (forall j sq, nthN seqs j = Some sq -> sq <> []) ->
    order_ok (heads seqs) order ->
    check_trace_g ltb v sentinel seqs (lt_run_g_order ltb dkey v sentinel order seqs) = true.
  Proof.
    intros Hv Hk Hne Ho. unfold lt_run_g_order. apply (drive_g_checks ltb dkey sentinel HS v Hv); [|exact Hne|lia].
    apply ubuild_order_UInv; [exact Hv|unfold heads; rewrite map_length; exact Hk| |exact Ho].
    intros i x Hi. unfold heads in Hi. rewrite nthN_map in Hi. destruct (nthN seqs i) as [sq|] eqn:E; [|discriminate].
    cbn in Hi. inversion Hi; subst x. destruct sq as [|k r]; [exfalso; exact (Hne i [] E eq_refl)|exists k; reflexivity].
  Qed.
End RegOrder.
