(** C09 — the tournament invariant of the loser tree model and its preservation by init_winner and by the
    leaf-to-root replay of delete_min_insert.  Everything here is generic in the variant; the variant's
    order [gle] and the facts relating it to the code's comparisons are in the first sections. *)
From Coq Require Import List Bool NArith PArith Lia.
From TLXV Require Import Common.Order C09.LoserTree.
Import ListNotations.
Local Open Scope N_scope.

(** * Arrays *)
Section Arr.
  Context {A : Type}.
  Variable dkey : A.
  Notation entry := (@entry A).
  Notation aget := (aget dkey).

  Lemma length_aset (l : list entry) i v : length (aset l i v) = length l.
  Proof.
    revert i; induction l as [|x r IH]; intros i; cbn [aset]; [reflexivity|].
    destruct (i =? 0); cbn [length]; [reflexivity|now rewrite IH].
  Qed.

  Lemma aget_aset_same (l : list entry) i v : i < N.of_nat (length l) -> aget (aset l i v) i = v.
  Proof.
    revert i; induction l as [|x r IH]; intros i Hi; cbn [length] in Hi; [lia|].
    cbn [aset aget]. destruct (i =? 0) eqn:E; cbn [aget]; rewrite E; [reflexivity|].
    apply N.eqb_neq in E. apply IH. lia.
  Qed.

  Lemma aget_aset_other (l : list entry) i j v : i <> j -> aget (aset l i v) j = aget l j.
  Proof.
    revert i j; induction l as [|x r IH]; intros i j Hij; cbn [aset aget]; [reflexivity|].
    destruct (i =? 0) eqn:E; cbn [aget].
    - apply N.eqb_eq in E. destruct (j =? 0) eqn:F; [apply N.eqb_eq in F; lia|reflexivity].
    - destruct (j =? 0) eqn:F; [reflexivity|]. apply N.eqb_neq in E, F. apply IH. lia.
  Qed.

  Lemma aget_map_key (l : list entry) (f : entry -> entry) i :
    i < N.of_nat (length l) -> aget (map f l) i = f (aget l i).
  Proof.
    revert i; induction l as [|x r IH]; intros i Hi; cbn [length] in Hi; [lia|].
    cbn [map aget]. destruct (i =? 0) eqn:E; [reflexivity|]. apply N.eqb_neq in E. apply IH. lia.
  Qed.

  Lemma aget_repeat (x : entry) n i : i < N.of_nat n -> aget (repeat x n) i = x.
  Proof.
    revert i; induction n as [|n IH]; intros i Hi; [lia|].
    cbn [repeat aget]. destruct (i =? 0) eqn:E; [reflexivity|]. apply N.eqb_neq in E. apply IH. lia.
  Qed.
End Arr.

(** * Tree positions: node n has children 2n and 2n+1; [sub n bs] follows the path [bs] down from [n]. *)
Definition child (n : positive) (b : bool) : positive := if b then xI n else xO n.

Fixpoint sub (n : positive) (bs : list bool) : positive :=
  match bs with
  | [] => n
  | b :: r => sub (child n b) r
  end.

Lemma sub_app n bs b : sub n (bs ++ [b]) = child (sub n bs) b.
Proof. revert n; induction bs as [|a r IH]; intros n; cbn; [reflexivity|apply IH]. Qed.

Lemma sub_app2 n bs cs : sub n (bs ++ cs) = sub (sub n bs) cs.
Proof. revert n; induction bs as [|a r IH]; intros n; cbn; [reflexivity|apply IH]. Qed.

Lemma child_inj n m a b : child n a = child m b -> n = m /\ a = b.
Proof. destruct a, b; cbn; intros H; inversion H; auto. Qed.

Lemma size_sub n bs : Pos.size_nat (sub n bs) = (Pos.size_nat n + length bs)%nat.
Proof.
  revert n; induction bs as [|a r IH]; intros n; cbn [sub length]; [lia|].
  rewrite IH. destruct a; cbn; lia.
Qed.

Lemma sub_inj n bs cs : sub n bs = sub n cs -> bs = cs.
Proof.
  intros H. assert (Hl : length bs = length cs).
  { apply (f_equal Pos.size_nat) in H. rewrite !size_sub in H. lia. }
  revert cs H Hl. induction bs as [|b r IH] using rev_ind; intros cs H Hl.
  - destruct cs; [reflexivity|discriminate].
  - destruct cs as [|c0 cs0] using rev_ind; [rewrite app_length in Hl; cbn in Hl; lia|].
    clear IHcs0. rewrite !sub_app in H. apply child_inj in H. destruct H as [H1 H2]. subst.
    rewrite !app_length in Hl. cbn in Hl. f_equal. apply IH; [assumption|lia].
Qed.

Lemma sub_neq_child n b bs cs : sub (child n b) bs <> sub (child n (negb b)) cs.
Proof.
  intros H. change (sub n (b :: bs) = sub n (negb b :: cs)) in H. apply sub_inj in H.
  inversion H as [[H1 H2]]. destruct b; discriminate.
Qed.

Lemma sub_neq_self n b bs : n <> sub (child n b) bs.
Proof.
  intros H. change (sub n [] = sub n (b :: bs)) in H. apply sub_inj in H. discriminate.
Qed.

Lemma Npos_child n b : Npos (child n b) = 2 * Npos n + N.b2n b.
Proof. destruct b; reflexivity. Qed.

Lemma sub_range n bs :
  Npos n * 2 ^ N.of_nat (length bs) <= Npos (sub n bs) < (Npos n + 1) * 2 ^ N.of_nat (length bs).
Proof.
  revert n; induction bs as [|b r IH]; intros n.
  - cbn [length sub]. change (N.of_nat 0) with 0. rewrite N.pow_0_r. lia.
  - cbn [length sub]. rewrite Nat2N.inj_succ, N.pow_succ_r'.
    specialize (IH (child n b)). rewrite Npos_child in IH.
    set (P := 2 ^ N.of_nat (length r)) in *. set (X := N.pos (sub (child n b) r)) in *.
    set (n0 := N.pos n) in *.
    replace (n0 * (2 * P)) with (2 * (n0 * P)) by ring.
    replace ((n0 + 1) * (2 * P)) with (2 * (n0 * P) + 2 * P) by ring.
    replace ((2 * n0 + N.b2n b) * P) with (2 * (n0 * P) + N.b2n b * P) in IH by ring.
    replace ((2 * n0 + N.b2n b + 1) * P) with (2 * (n0 * P) + N.b2n b * P + P) in IH by ring.
    destruct b; cbn [N.b2n] in IH; lia.
Qed.

Lemma sub_lt_children n bs cs : length bs = length cs ->
  Npos (sub (child n false) bs) < Npos (sub (child n true) cs).
Proof.
  intros Hl. pose proof (sub_range (child n false) bs) as H1. pose proof (sub_range (child n true) cs) as H2.
  rewrite Hl in H1. rewrite Npos_child in H1, H2. cbn [N.b2n] in H1, H2.
  set (P := 2 ^ N.of_nat (length cs)) in *. set (n0 := N.pos n) in *.
  replace ((2 * n0 + 0 + 1) * P) with (2 * (n0 * P) + P) in H1 by ring.
  replace ((2 * n0 + 1) * P) with (2 * (n0 * P) + P) in H2 by ring. lia.
Qed.

(** the leaves of the tree of depth h rooted at 1 are the positions 2^h .. 2^(h+1)-1 *)
Lemma leaf_exists h i : i < 2 ^ N.of_nat h ->
  exists bs, length bs = h /\ Npos (sub 1 bs) = 2 ^ N.of_nat h + i.
Proof.
  revert i; induction h as [|h IH]; intros i Hi.
  - exists []. change (2 ^ N.of_nat 0) with 1 in *. split; [reflexivity|cbn [sub]; lia].
  - rewrite Nat2N.inj_succ, N.pow_succ_r' in *.
    destruct (IH (N.div2 i)) as (bs & Hl & Hp).
    { pose proof (N.div2_odd i). destruct (N.odd i); cbn [N.b2n] in *; lia. }
    exists (bs ++ [N.odd i]). split; [rewrite app_length; cbn; lia|].
    rewrite sub_app, Npos_child, Hp. pose proof (N.div2_odd i). lia.
Qed.

Lemma leaf_index h bs : length bs = h ->
  exists i, i < 2 ^ N.of_nat h /\ Npos (sub 1 bs) = 2 ^ N.of_nat h + i.
Proof.
  intros Hl. pose proof (sub_range 1 bs) as H. rewrite Hl in H.
  exists (Npos (sub 1 bs) - 2 ^ N.of_nat h). lia.
Qed.

(** the loop positions: [up] of a leaf below [n] = the path up to [n], then [up n] *)
Fixpoint apath (n : positive) (bs : list bool) : list N :=
  match bs with
  | [] => []
  | b :: r => apath (child n b) r ++ [Npos n]
  end.

Lemma up_child n b : up (child n b) = Npos n :: up n.
Proof. destruct b; reflexivity. Qed.

Lemma up_sub n bs : up (sub n bs) = apath n bs ++ up n.
Proof.
  revert n; induction bs as [|b r IH]; intros n; cbn [sub apath]; [reflexivity|].
  rewrite IH, up_child, <- app_assoc. reflexivity.
Qed.
