(** C09 — the order each class pair plays the tournament under, and its relation to the comparisons the code makes.

    [rk] ("rank") says which entries lose against every other one: exhausted players and padding for the guarded
    classes, padding for the unguarded ones.  [gle v x y] = "x may win a match against y":
    (rank, key) for the unstable classes, (rank, key, source) for the stable ones. *)
From Coq Require Import List Bool NArith PArith Lia.
From TLXV Require Import Common.Order C09.LoserTree.
Import ListNotations.
Local Open Scope N_scope.

Section VOrder.
  Context {A : Type}.
  Variable ltb : A -> A -> bool.
  Variable dkey : A.
  Variable sentinel : A.
  Hypothesis HS : SWO ltb.
  Notation entry := (@entry A).

  Definition rk (v : variant) (e : entry) : bool :=
    if v_guarded v then e_sup e else (e_src e =? invalid_).

  Definition gle (v : variant) (x y : entry) : bool :=
    if rk v y
    then (if rk v x then negb (v_stable v) || (e_src x <=? e_src y) else true)
    else negb (rk v x) &&
         (ltb (e_key x) (e_key y) ||
          (negb (ltb (e_key y) (e_key x)) && (negb (v_stable v) || (e_src x <=? e_src y)))).

  Lemma gle_refl v x : gle v x x = true.
  Proof.
    unfold gle. destruct (rk v x); cbn.
    - rewrite N.leb_refl. now rewrite orb_true_r.
    - rewrite (swo_irrefl _ HS). cbn. rewrite N.leb_refl. now rewrite orb_true_r.
  Qed.

  Lemma gle_trans v x y z : gle v x y = true -> gle v y z = true -> gle v x z = true.
  Proof.
    unfold gle. destruct (rk v x), (rk v y), (rk v z); cbn; try discriminate; try reflexivity.
    - destruct (v_stable v); cbn; [|reflexivity]. rewrite !N.leb_le. lia.
    - intros H1 H2.
      destruct (ltb (e_key x) (e_key z)) eqn:Exz; [reflexivity|]. cbn.
      apply orb_true_iff in H1, H2.
      destruct H1 as [H1|H1].
      { destruct (swo_negtrans _ HS _ _ (e_key z) H1) as [C|C]; [congruence|].
        destruct H2 as [H2|H2].
        - rewrite (swo_asym _ HS _ _ H2) in C. discriminate.
        - rewrite C in H2. discriminate. }
      apply andb_true_iff in H1. destruct H1 as [H1 S1]. apply negb_true_iff in H1.
      destruct H2 as [H2|H2].
      { destruct (swo_negtrans _ HS _ _ (e_key x) H2) as [C|C]; congruence. }
      apply andb_true_iff in H2. destruct H2 as [H2 S2]. apply negb_true_iff in H2.
      destruct (ltb (e_key z) (e_key x)) eqn:Ezx.
      { destruct (swo_negtrans _ HS _ _ (e_key y) Ezx) as [C|C]; congruence. }
      cbn. destruct (v_stable v); cbn in *; [|reflexivity]. rewrite N.leb_le in *. lia.
  Qed.

  (** side conditions: the documented precondition of the unguarded classes on keys (the sentinel is not
      less than any real key; padding carries the sentinel) ... *)
  Definition good (v : variant) (e : entry) : Prop :=
    v_guarded v = true \/
    (e_src e <= invalid_ /\
     if e_src e =? invalid_ then e_key e = sentinel else ltb sentinel (e_key e) = false).
  (** ... and: the candidate travelling up an unguarded tree is a real player *)
  Definition candok (v : variant) (c : entry) : Prop :=
    v_guarded v = true \/ rk v c = false.

  Lemma ltb_src_le a b : (a <? b) = true -> (a <=? b) = true.
  Proof. rewrite N.ltb_lt, N.leb_le. lia. Qed.
  Lemma nltb_src_le a b : (a <? b) = false -> (b <=? a) = true.
  Proof. rewrite N.ltb_ge, N.leb_le. lia. Qed.

  (** the swap test of delete_min_insert decides a match consistently with [gle] *)
  Lemma step_gle v s c : good v s -> good v c -> candok v c ->
    (swap ltb v s c = true -> gle v s c = true /\ candok v s) /\
    (swap ltb v s c = false -> gle v c s = true).
  Proof.
    destruct v as [p g st]. unfold good, candok, swap, gle, rk. cbn [v_guarded v_stable].
    destruct g.
    - (* guarded *)
      intros _ _ _. destruct st; cbn.
      + destruct (e_sup c), (e_sup s); cbn; split; intros H; try discriminate; auto.
        * rewrite orb_false_r in H. split; [apply ltb_src_le; assumption|auto].
        * rewrite orb_false_r in H. apply nltb_src_le; assumption.
        * split; [|auto]. apply orb_true_iff in H. destruct H as [H|H]; [rewrite H; auto|].
          apply andb_true_iff in H. destruct H as [H1 H2]. rewrite H1. cbn.
          rewrite (ltb_src_le _ _ H2). destruct (ltb (e_key s) (e_key c)); auto.
        * apply orb_false_iff in H. destruct H as [H1 H2]. rewrite H1. cbn.
          destruct (ltb (e_key c) (e_key s)) eqn:E; [reflexivity|]. cbn in *.
          apply nltb_src_le; assumption.
      + destruct (e_sup c), (e_sup s); cbn; split; intros H; try discriminate; auto.
        * rewrite H. auto.
        * rewrite H. cbn. destruct (ltb (e_key c) (e_key s)); reflexivity.
    - (* unguarded *)
      intros [Gs|[Bs Gs]] [Gc|[Bc Gc]] [Cc|Cc]; try discriminate.
      rewrite Cc in *. cbn.
      assert (Hpad : (e_src s =? invalid_) = true -> ltb (e_key s) (e_key c) = false).
      { intros E. rewrite E in Gs. rewrite Gs. exact Gc. }
      apply N.eqb_neq in Cc.
      destruct st; cbn; split; intros H.
      + destruct (e_src s =? invalid_) eqn:Es.
        { specialize (Hpad eq_refl). rewrite Hpad in H. cbn in H.
          apply andb_true_iff in H. destruct H as [_ H]. apply N.ltb_lt in H.
          apply N.eqb_eq in Es. exfalso. lia. }
        cbn. split; [|auto].
        apply orb_true_iff in H. destruct H as [H|H]; [rewrite H; reflexivity|].
        apply andb_true_iff in H. destruct H as [H1 H2]. rewrite H1, (ltb_src_le _ _ H2).
        now rewrite orb_true_r.
      + destruct (e_src s =? invalid_) eqn:Es; [reflexivity|]. cbn.
        apply orb_false_iff in H. destruct H as [H1 H2]. rewrite H1. cbn.
        destruct (ltb (e_key c) (e_key s)) eqn:E; [reflexivity|]. cbn in *.
        apply nltb_src_le; assumption.
      + destruct (e_src s =? invalid_) eqn:Es.
        { rewrite (Hpad eq_refl) in H. discriminate. }
        cbn. rewrite H. auto.
      + destruct (e_src s =? invalid_) eqn:Es; [reflexivity|]. cbn.
        rewrite H. cbn. destruct (ltb (e_key c) (e_key s)); reflexivity.
  Qed.

  (** the "left one is less or equal" test of init_winner decides a match consistently with [gle], for a
      left entry [l] and a right entry [r] whose sources are in position order *)
  Lemma init_gle v l r : good v l -> good v r -> e_src l <= e_src r ->
    if left_wins ltb v l r then gle v l r = true else gle v r l = true.
  Proof.
    destruct v as [p g st]. unfold good, left_wins, gle, rk. cbn [v_guarded v_stable].
    intros Gl Gr Hsrc. assert (Hle : (e_src l <=? e_src r) = true) by (apply N.leb_le; exact Hsrc).
    destruct g.
    - destruct (e_sup r), (e_sup l); cbn; rewrite ?Hle, ?orb_true_r; try reflexivity.
      destruct (ltb (e_key r) (e_key l)) eqn:E; cbn; [reflexivity|].
      destruct (ltb (e_key l) (e_key r)); reflexivity.
    - destruct Gl as [Gl|[Bl Gl]]; [discriminate|]. destruct Gr as [Gr|[Br Gr]]; [discriminate|].
      destruct (e_src r =? invalid_) eqn:Er.
      + destruct (e_src l =? invalid_) eqn:El.
        * rewrite Gl, Gr, (swo_irrefl _ HS). cbn. rewrite Hle. now rewrite orb_true_r.
        * rewrite Gr, Gl. reflexivity.
      + destruct (e_src l =? invalid_) eqn:El.
        { apply N.eqb_eq in El. apply N.eqb_neq in Er. lia. }
        cbn. destruct (ltb (e_key r) (e_key l)) eqn:E; cbn; [reflexivity|].
        rewrite Hle, orb_true_r. destruct (ltb (e_key l) (e_key r)); reflexivity.
  Qed.
End VOrder.
