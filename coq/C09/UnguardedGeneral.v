(** C09 — the unguarded classes WITHOUT the sentinel bound on the keys.

    C09/Winner.v proves the unguarded classes right under their documented precondition "the sentinel is not less
    than any key" (padding ranked below every real player).  multiway_merge_loser_tree_combined uses the
    unguarded trees outside that precondition: the padding key is the last element of sequence 0 and real keys may
    be greater; it only relies on the tree while some real key still beats the padding key.  This file proves what
    the code does in that regime.

    The order the unguarded code really plays under, on ALL leaves, padding included (padding leaves are ordinary
    players with key = sentinel and source = invalid_):
      unstable classes:  x may win against y  iff  not (key y < key x);
      stable classes:    lexicographic (key, source), i.e. key x < key y, or keys equivalent and source x <= source y.
    Checked against the code: init_winner lets the LEFT entry win iff [!cmp(right.key, left.key)] (ties to the left;
    sources grow with the position and padding sits rightmost, so this is (key, source) order), and
    delete_min_insert lets the STORED entry win iff [cmp(stored, cand) || (!cmp(cand, stored) && stored.source <
    cand.source)] (stable; strict [<] on sources, so on a full tie the candidate stays, which is consistent with
    [source x <= source y]) resp. [cmp(stored, cand)] (unstable).  Consequences ([uwinner_ok]):
      stable:   if some real player's key is NOT GREATER than the sentinel, min_source() is a real player, a minimum,
                smallest index among equivalent keys (a real player precedes padding of equal key because every real
                source is < invalid_);
      unstable: if some real player's key is STRICTLY LESS than the sentinel, min_source() is a real player and a
                minimum.  (With a real minimum merely equivalent to the sentinel the plain key order cannot tell a
                padding leaf from a real one; the code happens to prefer the real one, but that is not needed.)
    The invariant is preserved by delete_min_insert with ARBITRARY fed keys whenever min_source() is not invalid_. *)
From Coq Require Import List Bool NArith PArith Lia.
From TLXV Require Import Common.Order C09.LoserTree C09.Tournament C09.Spec C09.Invariant C09.Winner C09.Final.
Import ListNotations.
Local Open Scope N_scope.

Section UG.
  Context {A : Type}.
  Variable ltb : A -> A -> bool.
  Variable dkey : A.
  Variable sentinel : A.
  Hypothesis HS : SWO ltb.
  Variable v : variant.
  Hypothesis Hv : v_guarded v = false.
  Notation entry := (@entry A).
  Notation tree := (@tree A).
  Notation aget := (aget dkey).
  Notation mk_entry := (mk_entry dkey v).
  Notation leaf_ok := (leaf_ok dkey sentinel v).
  Notation padlike := (padlike sentinel v).

  (** the order of the unguarded classes on all entries *)
  Definition ule (x y : entry) : bool :=
    ltb (e_key x) (e_key y) ||
    (negb (ltb (e_key y) (e_key x)) && (negb (v_stable v) || (e_src x <=? e_src y))).

  Lemma ule_refl x : ule x x = true.
  Proof. unfold ule. rewrite (swo_irrefl _ HS). cbn. rewrite N.leb_refl. now rewrite orb_true_r. Qed.

  Lemma ule_trans x y z : ule x y = true -> ule y z = true -> ule x z = true.
  Proof.
    unfold ule. intros H1 H2.
    destruct (ltb (e_key x) (e_key z)) eqn:Exz; [reflexivity|]. cbn.
    apply orb_true_iff in H1, H2.
    destruct H1 as [H1|H1].
    { destruct (swo_negtrans _ HS _ _ (e_key z) H1) as [C|C]; [congruence|].
      destruct H2 as [H2|H2].
      - rewrite (swo_asym _ HS _ _ H2) in C. discriminate.
      - rewrite C in H2. discriminate. }
    apply andb_true_iff in H1. destruct H1 as [H1 S1]. apply negb_true_iff in H1.
    destruct H2 as [H2|H2].
    { destruct (swo_negtrans _ HS _ _ (e_key x) H2) as [C|C]; congruence. }
    apply andb_true_iff in H2. destruct H2 as [H2 S2]. apply negb_true_iff in H2.
    destruct (ltb (e_key z) (e_key x)) eqn:Ezx.
    { destruct (swo_negtrans _ HS _ _ (e_key y) Ezx) as [C|C]; congruence. }
    cbn. destruct (v_stable v); cbn in *; [|reflexivity]. rewrite N.leb_le in *. lia.
  Qed.

  (** the swap test of delete_min_insert decides a match consistently with [ule], whatever the keys *)
  Lemma ustep_le s c :
    (swap ltb v s c = true -> ule s c = true) /\ (swap ltb v s c = false -> ule c s = true).
  Proof.
    unfold swap, ule. rewrite Hv. destruct (v_stable v); cbn; split; intros H.
    - apply orb_true_iff in H. destruct H as [H|H]; [rewrite H; reflexivity|].
      apply andb_true_iff in H. destruct H as [H1 H2]. rewrite H1.
      apply N.ltb_lt in H2. replace (e_src s <=? e_src c) with true by (symmetry; apply N.leb_le; lia).
      now rewrite orb_true_r.
    - apply orb_false_iff in H. destruct H as [H1 H2]. rewrite H1. cbn.
      destruct (ltb (e_key c) (e_key s)) eqn:E; [reflexivity|]. cbn in *.
      apply N.ltb_ge in H2. apply N.leb_le. exact H2.
    - rewrite H. reflexivity.
    - rewrite H. cbn. destruct (ltb (e_key c) (e_key s)); reflexivity.
  Qed.

  (** the test of init_winner, for a left entry and a right entry whose sources are in position order *)
  Lemma uinit_le l r : e_src l <= e_src r ->
    if left_wins ltb v l r then ule l r = true else ule r l = true.
  Proof.
    intros Hsrc. unfold left_wins, ule. rewrite Hv.
    destruct (ltb (e_key r) (e_key l)) eqn:E; cbn; [reflexivity|].
    replace (e_src l <=? e_src r) with true by (symmetry; apply N.leb_le; exact Hsrc).
    rewrite orb_true_r. destruct (ltb (e_key l) (e_key r)); reflexivity.
  Qed.

  (** * the tournament invariant under [ule] (same shape as [Invariant.T]) *)
  Inductive UT (cur : positive -> entry) (L : list entry) : positive -> list bool -> Prop :=
  | UT_leaf n : UT cur L n []
  | UT_node n b bs bs' :
      length bs' = length bs ->
      UT cur L (child n b) bs ->
      UT cur L (child n (negb b)) bs' ->
      aget L (Npos n) = cur (sub (child n (negb b)) bs') ->
      ule (cur (sub (child n b) bs)) (cur (sub (child n (negb b)) bs')) = true ->
      UT cur L n (b :: bs).

  Lemma UT_frame cur cur' L L' n bs :
    (forall cs, (length cs < length bs)%nat -> aget L' (Npos (sub n cs)) = aget L (Npos (sub n cs))) ->
    (forall cs, length cs = length bs -> cur' (sub n cs) = cur (sub n cs)) ->
    UT cur L n bs -> UT cur' L' n bs.
  Proof.
    intros HL Hc HT. revert HL Hc. induction HT as [n|n b bs bs' Hl HT1 IH1 HT2 IH2 Hg Hle]; intros HL Hc.
    - constructor.
    - apply UT_node with (bs' := bs'); [exact Hl| | | |].
      + apply IH1.
        * intros cs Hcs. apply (HL (b :: cs)). cbn [length]. lia.
        * intros cs Hcs. apply (Hc (b :: cs)). cbn [length]. lia.
      + apply IH2.
        * intros cs Hcs. apply (HL (negb b :: cs)). cbn [length]. lia.
        * intros cs Hcs. apply (Hc (negb b :: cs)). cbn [length]. lia.
      + pose proof (HL []) as E0. cbn [sub length] in E0. rewrite E0 by lia.
        pose proof (Hc (negb b :: bs')) as E1. cbn [sub length] in E1. rewrite E1 by lia. exact Hg.
      + pose proof (Hc (negb b :: bs')) as E1. cbn [sub length] in E1. rewrite E1 by lia.
        pose proof (Hc (b :: bs)) as E2. cbn [sub length] in E2. rewrite E2 by lia. exact Hle.
  Qed.

  Lemma UT_min cur L n bs : UT cur L n bs ->
    forall cs, length cs = length bs -> ule (cur (sub n bs)) (cur (sub n cs)) = true.
  Proof.
    induction 1 as [n|n b bs bs' Hl HT1 IH1 HT2 IH2 Hg Hle]; intros cs Hcs.
    - destruct cs; [|discriminate]. apply ule_refl.
    - destruct cs as [|c cs]; [discriminate|]. cbn [length] in Hcs. cbn [sub].
      destruct (Bool.bool_dec c b) as [->|Hcb].
      + apply IH1. lia.
      + assert (c = negb b) as -> by (destruct c, b; cbn; try reflexivity; exfalso; apply Hcb; reflexivity).
        eapply ule_trans; [exact Hle|]. apply IH2. lia.
  Qed.

  (** replay of delete_min_insert: no condition on the new entry *)
  Lemma ureplay_T : forall bs n cur L e,
    UT cur L n bs ->
    (forall cs, (length cs < length bs)%nat -> Npos (sub n cs) < N.of_nat (length L)) ->
    let cur' := cur_upd cur (sub n bs) e in
    forall c' L', fold_left (step ltb dkey v) (apath n bs) (e, L) = (c', L') ->
    exists bs', length bs' = length bs /\ UT cur' L' n bs' /\ c' = cur' (sub n bs') /\
      length L' = length L /\
      (forall m, (forall cs, (length cs < length bs)%nat -> m <> Npos (sub n cs)) -> aget L' m = aget L m).
  Proof.
    induction bs as [|b bs IH]; intros n cur L e HT Hbound cur' c' L' Hfold.
    - cbn in Hfold. inversion Hfold; subst c' L'. exists []. split; [reflexivity|]. split; [constructor|].
      split; [|split; [reflexivity|intros; reflexivity]].
      unfold cur', cur_upd. cbn [sub]. now rewrite Pos.eqb_refl.
    - cbn [apath] in Hfold. rewrite fold_left_app in Hfold.
      destruct (fold_left (step ltb dkey v) (apath (child n b) bs) (e, L)) as [c1 L1] eqn:E1.
      inversion HT as [|n0 b0 bs0 bss Hl HT1 HT2 Hg Hle]; subst n0 b0 bs0.
      cbn [sub] in cur'.
      destruct (IH (child n b) cur L e HT1) with (c' := c1) (L' := L1)
        as (bs1 & Hl1 & HT1' & Hc1 & Hlen1 & Hfr1); try assumption.
      { intros cs Hcs. apply (Hbound (b :: cs)). cbn [length]. lia. }
      fold cur' in HT1', Hc1.
      assert (Hsib_cur : forall cs, cur' (sub (child n (negb b)) cs) = cur (sub (child n (negb b)) cs)).
      { intros cs. unfold cur', cur_upd.
        destruct (Pos.eqb_spec (sub (child n (negb b)) cs) (sub (child n b) bs)) as [E|E]; [|reflexivity].
        symmetry in E. exfalso. exact (sub_neq_child _ _ _ _ E). }
      assert (Hsib_L : forall cs, aget L1 (Npos (sub (child n (negb b)) cs)) = aget L (Npos (sub (child n (negb b)) cs))).
      { intros cs. apply Hfr1. intros ds _ E. inversion E as [E']. symmetry in E'. exact (sub_neq_child _ _ _ _ E'). }
      assert (HT2' : UT cur' L1 (child n (negb b)) bss).
      { eapply UT_frame; [| |exact HT2]; intros cs _; [apply Hsib_L|apply Hsib_cur]. }
      assert (Hn1 : aget L1 (Npos n) = cur' (sub (child n (negb b)) bss)).
      { rewrite Hsib_cur, <- Hg. apply Hfr1. intros ds _ E. inversion E as [E']. exact (sub_neq_self _ _ _ E'). }
      assert (Hnb : Npos n < N.of_nat (length L1)).
      { rewrite Hlen1. apply (Hbound []). cbn [length]. lia. }
      cbn [fold_left step] in Hfold. rewrite Hn1 in Hfold.
      set (s := cur' (sub (child n (negb b)) bss)) in *.
      destruct (ustep_le s c1) as [Hsw Hnsw].
      assert (Hfr_n : forall x b0 cs, aget (aset L1 (Npos n) x) (Npos (sub (child n b0) cs)) = aget L1 (Npos (sub (child n b0) cs))).
      { intros x b0 cs. apply aget_aset_other. intros E. inversion E as [E']. exact (sub_neq_self _ _ _ E'). }
      destruct (swap ltb v s c1) eqn:Esw.
      + specialize (Hsw eq_refl). inversion Hfold; subst c' L'.
        exists (negb b :: bss). split; [cbn [length]; lia|]. split.
        * apply UT_node with (bs' := bs1); [lia| | | |].
          -- eapply UT_frame; [| |exact HT2']; [intros cs _; apply Hfr_n|reflexivity].
          -- rewrite negb_involutive. eapply UT_frame; [| |exact HT1']; [intros cs _; apply Hfr_n|reflexivity].
          -- rewrite negb_involutive, <- Hc1. apply aget_aset_same. exact Hnb.
          -- rewrite negb_involutive, <- Hc1. exact Hsw.
        * split; [reflexivity|]. split; [rewrite length_aset; exact Hlen1|].
          intros m Hm. rewrite aget_aset_other.
          -- apply Hfr1. intros cs Hcs' E. apply (Hm (b :: cs)); [cbn [length]; lia|exact E].
          -- intros E. apply (Hm []); [cbn [length]; lia|]. cbn [sub]. congruence.
      + specialize (Hnsw eq_refl). inversion Hfold; subst c' L'.
        exists (b :: bs1). split; [cbn [length]; lia|]. split.
        * apply UT_node with (bs' := bss); [lia|exact HT1'|exact HT2'|exact Hn1|].
          rewrite <- Hc1. exact Hnsw.
        * split; [exact Hc1|]. split; [exact Hlen1|].
          intros m Hm. apply Hfr1. intros cs Hcs' E. apply (Hm (b :: cs)); [cbn [length]; lia|exact E].
  Qed.

  (** init_winner: only the position order of the sources is needed *)
  Lemma uinit_T : forall d fuel bs0 (L : list entry) cur h,
    (length bs0 + d = h)%nat -> (d <= fuel)%nat ->
    (forall cs, length cs = d -> aget L (Npos (sub (sub 1 bs0) cs)) = cur (sub (sub 1 bs0) cs)) ->
    (forall cs cs', length cs = d -> length cs' = d ->
       Npos (sub (sub 1 bs0) cs) < Npos (sub (sub 1 bs0) cs') ->
       e_src (cur (sub (sub 1 bs0) cs)) <= e_src (cur (sub (sub 1 bs0) cs'))) ->
    (forall cs, (length cs < d)%nat -> Npos (sub (sub 1 bs0) cs) < N.of_nat (length L)) ->
    forall w L', init_winner ltb dkey v fuel (2 ^ N.of_nat h) (Npos (sub 1 bs0)) L = (w, L') ->
    exists bs, length bs = d /\ w = Npos (sub (sub 1 bs0) bs) /\ UT cur L' (sub 1 bs0) bs /\
      length L' = length L /\
      (forall m, (forall cs, (length cs < d)%nat -> m <> Npos (sub (sub 1 bs0) cs)) -> aget L' m = aget L m).
  Proof.
    induction d as [|d IH]; intros fuel bs0 L cur h Hh Hfuel Hleaf Hsrc Hbound w L' Hrun.
    - pose proof (sub_range 1 bs0) as Hr. replace (length bs0) with h in Hr by lia.
      assert (Et : (2 ^ N.of_nat h <=? Npos (sub 1 bs0)) = true) by (apply N.leb_le; lia).
      destruct fuel; cbn [init_winner] in Hrun; rewrite Et in Hrun; inversion Hrun; subst w L';
        (exists []; split; [reflexivity|]; split; [reflexivity|]; split; [constructor|];
         split; [reflexivity|intros; reflexivity]).
    - set (root := sub 1 bs0) in *.
      pose proof (sub_range 1 bs0) as Hr. fold root in Hr.
      assert (Hpow : 2 * 2 ^ N.of_nat (length bs0) <= 2 ^ N.of_nat h).
      { rewrite <- N.pow_succ_r', <- Nat2N.inj_succ. apply N.pow_le_mono_r; lia. }
      assert (Et : (2 ^ N.of_nat h <=? Npos root) = false) by (apply N.leb_gt; lia).
      destruct fuel as [|f]; [lia|].
      cbn [init_winner] in Hrun. rewrite Et in Hrun.
      change (2 * N.pos root) with (N.pos (child root false)) in Hrun.
      change (N.pos (child root false) + 1) with (N.pos (child root true)) in Hrun.
      destruct (init_winner ltb dkey v f (2 ^ N.of_nat h) (N.pos (child root false)) L) as [wl L1] eqn:EL.
      destruct (init_winner ltb dkey v f (2 ^ N.of_nat h) (N.pos (child root true)) L1) as [wr L2] eqn:ER.
      assert (Hc : forall b, child root b = sub 1 (bs0 ++ [b])) by (intros b; unfold root; now rewrite sub_app).
      destruct (IH f (bs0 ++ [false]) L cur h) with (w := wl) (L' := L1)
        as (bsl & Hll & Hwl & HTl & Hlenl & Hfrl);
        try (rewrite <- Hc).
      { rewrite app_length. cbn. lia. } { lia. }
      { intros cs Hcs. apply (Hleaf (false :: cs)). cbn [length]. lia. }
      { intros cs cs' H1 H2. apply (Hsrc (false :: cs) (false :: cs')); cbn [length]; lia. }
      { intros cs Hcs. apply (Hbound (false :: cs)). cbn [length]. lia. }
      { exact EL. }
      rewrite <- Hc in Hwl, HTl, Hfrl.
      destruct (IH f (bs0 ++ [true]) L1 cur h) with (w := wr) (L' := L2)
        as (bsr & Hlr & Hwr & HTr & Hlenr & Hfrr);
        try (rewrite <- Hc).
      { rewrite app_length. cbn. lia. } { lia. }
      { intros cs Hcs. rewrite Hfrl.
        - apply (Hleaf (true :: cs)). cbn [length]. lia.
        - intros ds _ E. inversion E as [E']. symmetry in E'. exact (sub_neq_child root false ds cs E'). }
      { intros cs cs' H1 H2. apply (Hsrc (true :: cs) (true :: cs')); cbn [length]; lia. }
      { intros cs Hcs. rewrite Hlenl. apply (Hbound (true :: cs)). cbn [length]. lia. }
      { exact ER. }
      rewrite <- Hc in Hwr, HTr, Hfrr.
      assert (Hgl : aget L2 wl = cur (sub (child root false) bsl)).
      { subst wl. rewrite Hfrr, Hfrl.
        - apply (Hleaf (false :: bsl)). cbn [length]. lia.
        - intros cs Hcs E. inversion E as [E']. apply sub_inj in E'. subst cs. lia.
        - intros cs _ E. inversion E as [E']. exact (sub_neq_child root false bsl cs E'). }
      assert (Hgr : aget L2 wr = cur (sub (child root true) bsr)).
      { subst wr. rewrite Hfrr, Hfrl.
        - apply (Hleaf (true :: bsr)). cbn [length]. lia.
        - intros cs _ E. inversion E as [E']. symmetry in E'. exact (sub_neq_child root false cs bsr E').
        - intros cs Hcs E. inversion E as [E']. apply sub_inj in E'. subst cs. lia. }
      rewrite Hgl, Hgr in Hrun.
      set (el := cur (sub (child root false) bsl)) in *. set (er := cur (sub (child root true) bsr)) in *.
      assert (Hord : if left_wins ltb v el er then ule el er = true else ule er el = true).
      { apply uinit_le.
        apply (Hsrc (false :: bsl) (true :: bsr)); [cbn [length]; lia|cbn [length]; lia|].
        cbn [sub]. apply sub_lt_children. lia. }
      assert (Hnb : Npos root < N.of_nat (length L2)).
      { rewrite Hlenr, Hlenl. apply (Hbound []). cbn [length]. lia. }
      assert (HTl2 : UT cur L2 (child root false) bsl).
      { eapply UT_frame; [| |exact HTl]; [|reflexivity]. intros cs _. apply Hfrr.
        intros ds _ E. inversion E as [E']. exact (sub_neq_child root false cs ds E'). }
      assert (Hfr_n : forall x b0 cs, aget (aset L2 (Npos root) x) (Npos (sub (child root b0) cs)) = aget L2 (Npos (sub (child root b0) cs))).
      { intros x b0 cs. apply aget_aset_other. intros E. inversion E as [E']. exact (sub_neq_self _ _ _ E'). }
      assert (Hframe : forall x m, (forall cs, (length cs < S d)%nat -> m <> Npos (sub root cs)) ->
                                   aget (aset L2 (Npos root) x) m = aget L m).
      { intros x m Hm. rewrite aget_aset_other.
        - rewrite Hfrr, Hfrl; [reflexivity| |].
          + intros cs Hcs E. apply (Hm (false :: cs)); [cbn [length]; lia|exact E].
          + intros cs Hcs E. apply (Hm (true :: cs)); [cbn [length]; lia|exact E].
        - intros E. apply (Hm []); [cbn [length]; lia|]. cbn [sub]. congruence. }
      destruct (left_wins ltb v el er); inversion Hrun; subst w L'.
      + exists (false :: bsl). split; [cbn [length]; lia|]. split; [exact Hwl|]. split.
        * apply UT_node with (bs' := bsr); [lia| | | |].
          -- eapply UT_frame; [| |exact HTl2]; [intros cs _; apply Hfr_n|reflexivity].
          -- eapply UT_frame; [| |exact HTr]; [intros cs _; apply Hfr_n|reflexivity].
          -- apply aget_aset_same. exact Hnb.
          -- exact Hord.
        * split; [rewrite length_aset; lia|apply Hframe].
      + exists (true :: bsr). split; [cbn [length]; lia|]. split; [exact Hwr|]. split.
        * apply UT_node with (bs' := bsl); [lia| | | |].
          -- eapply UT_frame; [| |exact HTr]; [intros cs _; apply Hfr_n|reflexivity].
          -- eapply UT_frame; [| |exact HTl2]; [intros cs _; apply Hfr_n|reflexivity].
          -- apply aget_aset_same. exact Hnb.
          -- exact Hord.
        * split; [rewrite length_aset; lia|apply Hframe].
  Qed.

  (** * whole trees *)
  (** "no player runs out of keys" (the half of the documented precondition that the COMBINED merge keeps) *)
  Definition all_some (pl : list (option A)) : Prop :=
    forall i x, nthN pl i = Some x -> exists k, x = Some k.

  Record UInv (t : tree) (pl : list (option A)) : Prop := {
    ui_k : t_k t = 2 ^ N.of_nat (depth t);
    ui_ik : t_ik t = N.of_nat (length pl);
    ui_ik1 : 1 <= t_ik t <= 2 ^ 30;
    ui_le : t_ik t <= t_k t;
    ui_len : N.of_nat (length (t_losers t)) = 2 * t_k t;
    ui_pl : all_some pl;
    ui_T : exists cur bs, length bs = depth t /\ UT cur (t_losers t) 1 bs /\
             aget (t_losers t) 0 = cur (sub 1 bs) /\
             forall i p, i < t_k t -> Npos p = t_k t + i -> leaf_ok pl i (cur p)
  }.

  (** constructor + insert_start + init(), for ARBITRARY keys *)
  Theorem ubuild_UInv heads :
    1 <= N.of_nat (length heads) <= 2 ^ 30 -> all_some heads ->
    UInv (lt_build ltb dkey v sentinel heads) heads.
  Proof.
    intros [Hik1 Hik30] Hpl. unfold lt_build.
    set (IK := N.of_nat (length heads)) in *. set (K := 2 ^ N.log2_up IK).
    assert (HIKK : IK <= K) by (apply N.log2_log2_up_spec; lia).
    assert (HK0 : K <> 0) by (apply N.pow_nonzero; lia).
    assert (HP0 : PreI dkey sentinel v K [] (lt_new dkey v IK sentinel)).
    { unfold PreI, lt_new, round_up_pow2. cbn [t_k t_losers t_first]. fold K. split; [reflexivity|].
      split; [rewrite repeat_length, N2Nat.id; reflexivity|]. split; [reflexivity|].
      intros i Hi. rewrite aget_repeat by (rewrite N2Nat.id; lia).
      unfold Winner.leaf_ok. cbn [nthN]. unfold Winner.padlike, pad. rewrite Hv. cbn.
      split; [reflexivity|]. split; [reflexivity|]. reflexivity. }
    destruct (insert_all_PreI dkey sentinel v K heads [] _ HP0) as [HP1 Hik']; [cbn [length]; fold IK; lia|].
    cbn [length app] in HP1, Hik'. change (N.of_nat 0) with 0 in HP1, Hik'.
    set (t1 := insert_all dkey v (lt_new dkey v IK sentinel) 0 heads) in *.
    change (t_ik (lt_new dkey v IK sentinel)) with IK in Hik'.
    destruct HP1 as (Hk1 & Hlen1 & _ & Hleaf1).
    unfold lt_init. rewrite Hk1. destruct (K =? 0) eqn:EK; [apply N.eqb_eq in EK; contradiction|].
    assert (Hd : depth t1 = N.to_nat (N.log2_up IK)) by (unfold depth; now rewrite Hik').
    assert (HKd : K = 2 ^ N.of_nat (depth t1)) by (rewrite Hd, N2Nat.id; reflexivity).
    set (h := depth t1) in *. set (L := t_losers t1) in *.
    destruct (init_winner ltb dkey v h K 1 L) as [w L'] eqn:EI.
    set (cur := fun p : positive => aget L (Npos p)).
    assert (Hleaves : forall i p, i < K -> Npos p = K + i -> leaf_ok heads i (cur p)).
    { intros i p Hi Hp. unfold cur. rewrite Hp. apply Hleaf1. exact Hi. }
    assert (Hlk : forall cs, length cs = h -> exists i, i < K /\ Npos (sub 1 cs) = K + i).
    { intros cs Hcs. destruct (leaf_index h cs Hcs) as (i & Hi & Hp). exists i. rewrite HKd. auto. }
    rewrite HKd in EI.
    destruct (uinit_T h h [] L cur h) with (w := w) (L' := L')
      as (bs & Hbs & Hw & HT & HlenL' & Hfr); try exact EI; try reflexivity; try lia.
    { intros cs cs' Hcs Hcs' Hlt. cbn [sub] in *.
      destruct (Hlk cs Hcs) as (i & Hi & Hp). destruct (Hlk cs' Hcs') as (i' & Hi' & Hp').
      pose proof (leaf_src dkey sentinel v heads i _ ltac:(fold IK; lia) (Hleaves i _ Hi Hp)) as S1.
      pose proof (leaf_src dkey sentinel v heads i' _ ltac:(fold IK; lia) (Hleaves i' _ Hi' Hp')) as S2.
      fold IK in S1, S2. pose proof invalid_big. lia. }
    { intros cs Hcs. cbn [sub]. pose proof (sub_range 1 cs) as Hr. pose proof (pow_lt_depth cs h Hcs). lia. }
    cbn [sub] in Hw, HT, Hfr.
    assert (Hdep : depth (mkT (t_ik t1) K (aset L' 0 (aget L' w)) (t_first t1)) = h) by reflexivity.
    constructor; cbn [t_k t_ik t_losers]; rewrite ?Hdep.
    - exact HKd.
    - exact Hik'.
    - rewrite Hik'. lia.
    - rewrite Hik'. exact HIKK.
    - rewrite length_aset, HlenL'. exact Hlen1.
    - exact Hpl.
    - exists cur, bs. split; [exact Hbs|]. split.
      + eapply UT_frame; [| |exact HT]; [|reflexivity]. intros cs _. apply aget_aset_other. discriminate.
      + split; [|exact Hleaves].
        rewrite aget_aset_same by lia. rewrite Hw. rewrite Hfr; [reflexivity|].
        intros cs Hcs E. inversion E as [E']. apply sub_inj in E'. subst cs. lia.
  Qed.

  (** for the unguarded classes min_source() is the source field of the top entry *)
  Lemma umin_source t : lt_min_source dkey v t = e_src (aget (t_losers t) 0).
  Proof. unfold lt_min_source. now rewrite Hv. Qed.

  (** a top entry whose source is not invalid_ is the entry of a real player, sitting at that player's leaf *)
  Lemma utop_real (t : tree) pl cur bs :
    t_k t = 2 ^ N.of_nat (depth t) -> all_some pl -> length bs = depth t ->
    (forall i p, i < t_k t -> Npos p = t_k t + i -> leaf_ok pl i (cur p)) ->
    e_src (cur (sub 1 bs)) <> invalid_ ->
    exists i key, Npos (sub 1 bs) = t_k t + i /\ live pl i key /\ cur (sub 1 bs) = mkE false i key.
  Proof.
    intros Hk Hpl Hbs Hleaves Hsrc.
    destruct (leaf_index (depth t) bs Hbs) as (i & Hi & Hq). rewrite <- Hk in Hi, Hq.
    pose proof (Hleaves i (sub 1 bs) Hi Hq) as Hlo. unfold Winner.leaf_ok in Hlo.
    destruct (nthN pl i) as [x|] eqn:Ex.
    - destruct (Hpl i x Ex) as [key ->]. exists i, key. split; [exact Hq|]. split; [exact Ex|]. exact Hlo.
    - destruct Hlo as (_ & Hs & _). contradiction.
  Qed.

  (** delete_min_insert with an ARBITRARY new key preserves the invariant whenever min_source() is a real source *)
  Theorem udmi_UInv t pl (x : A) : UInv t pl -> lt_min_source dkey v t <> invalid_ ->
    UInv (lt_delete_min_insert ltb dkey v t (Some x)) (setN pl (lt_min_source dkey v t) (Some x)).
  Proof.
    intros [Hk Hik [Hik1 Hik30] Hle Hlen Hpl (cur & bs & Hbs & HT & H0 & Hleaves)] Hne.
    rewrite umin_source, H0 in Hne.
    destruct (utop_real t pl cur bs Hk Hpl Hbs Hleaves Hne) as (i & key & Hq & Hli & Hcur).
    pose proof (nthN_Some_lt _ _ _ Hli) as Hi.
    assert (Hms : lt_min_source dkey v t = i) by (rewrite umin_source, H0, Hcur; reflexivity).
    rewrite Hms. unfold lt_delete_min_insert. rewrite H0, Hcur. cbn [e_src].
    rewrite <- Hq, walk_div2, up_sub. cbn [up]. rewrite app_nil_r.
    set (e := mk_entry i (Some x)).
    destruct (fold_left (step ltb dkey v) (apath 1 bs) (e, t_losers t)) as [c' L'] eqn:EF.
    set (pl' := setN pl i (Some x)).
    assert (Hpl' : all_some pl').
    { intros j y Hj. unfold pl' in Hj. destruct (N.eq_dec i j) as [<-|Hnej].
      - rewrite nthN_setN_same in Hj by exact Hi. inversion Hj; subst y. eauto.
      - rewrite nthN_setN_other in Hj by exact Hnej. apply (Hpl j y Hj). }
    assert (Hlen' : length pl' = length pl) by apply length_setN.
    assert (Hle_e : leaf_ok pl' i e).
    { unfold Winner.leaf_ok, pl'. rewrite nthN_setN_same by exact Hi. reflexivity. }
    destruct (ureplay_T bs 1 cur (t_losers t) e HT) with (c' := c') (L' := L')
      as (bs' & Hbs' & HT' & Hc' & HlenL' & _); try exact EF.
    { intros cs Hcs. pose proof (sub_range 1 cs) as Hr. pose proof (pow_lt_depth cs (depth t) ltac:(lia)). lia. }
    set (cur' := cur_upd cur (sub 1 bs) e) in *.
    assert (Hdep : depth (mkT (t_ik t) (t_k t) (aset L' 0 c') (t_first t)) = depth t) by reflexivity.
    constructor; cbn [t_k t_ik t_losers]; rewrite ?Hdep.
    - exact Hk.
    - fold pl'. rewrite Hlen'. exact Hik.
    - lia.
    - exact Hle.
    - rewrite length_aset, HlenL'. exact Hlen.
    - exact Hpl'.
    - exists cur', bs'. split; [lia|]. split.
      + eapply UT_frame; [| |exact HT']; [|reflexivity]. intros cs _. apply aget_aset_other. discriminate.
      + split; [rewrite aget_aset_same by lia; exact Hc'|].
        intros j p Hj Hp. unfold cur', cur_upd. fold pl'.
        destruct (Pos.eqb_spec p (sub 1 bs)) as [->|Hnep].
        * assert (j = i) as -> by lia. exact Hle_e.
        * assert (j <> i) by (intros ->; apply Hnep; assert (E : Npos p = Npos (sub 1 bs)) by lia; now inversion E).
          unfold Winner.leaf_ok, pl'. rewrite nthN_setN_other by auto. apply Hleaves; assumption.
  Qed.

  (** some real player still beats the padding key: not greater than it (stable) / strictly less (unstable) *)
  Definition beats_sentinel (k : A) : Prop :=
    if v_stable v then ltb sentinel k = false else ltb k sentinel = true.

  (** then min_source() is right (and in particular not invalid_) *)
  Theorem uwinner_ok t pl : UInv t pl ->
    (exists j kj, live pl j kj /\ beats_sentinel kj) ->
    winner_ok ltb (v_stable v) pl (lt_min_source dkey v t) /\ lt_min_source dkey v t <> invalid_.
  Proof.
    intros [Hk Hik [Hik1 Hik30] Hle Hlen Hpl (cur & bs & Hbs & HT & H0 & Hleaves)] (j0 & k0 & Hl0 & Hb0).
    pose proof invalid_big as Hbig.
    (* the top entry may win against every real player's entry *)
    assert (Hmin : forall j kj, live pl j kj -> ule (cur (sub 1 bs)) (mkE false j kj) = true).
    { intros j kj Hl. pose proof (nthN_Some_lt _ _ _ Hl) as Hj.
      destruct (leaf_exists (depth t) j) as (bsj & Hlj & Hpj); [rewrite <- Hk; lia|]. rewrite <- Hk in Hpj.
      pose proof (Hleaves j (sub 1 bsj) ltac:(lia) Hpj) as Hlo. unfold Winner.leaf_ok in Hlo. unfold live in Hl.
      rewrite Hl in Hlo. cbn in Hlo. rewrite <- Hlo. apply (UT_min cur _ 1 bs HT). lia. }
    (* it is not a padding entry *)
    assert (Hsrc : e_src (cur (sub 1 bs)) <> invalid_).
    { intros Hpad.
      destruct (leaf_index (depth t) bs Hbs) as (i & Hi & Hq). rewrite <- Hk in Hi, Hq.
      pose proof (Hleaves i (sub 1 bs) Hi Hq) as Hlo. unfold Winner.leaf_ok in Hlo.
      destruct (nthN pl i) as [y|] eqn:Ey.
      - destruct (Hpl i y Ey) as [key ->]. rewrite Hlo in Hpad. cbn in Hpad.
        apply nthN_Some_lt in Ey. lia.
      - destruct Hlo as (_ & _ & Hkey). specialize (Hkey Hv).
        pose proof (Hmin j0 k0 Hl0) as Hu. unfold ule in Hu. rewrite Hkey, Hpad in Hu. cbn [e_key e_src] in Hu.
        pose proof (nthN_Some_lt _ _ _ Hl0) as Hj0.
        unfold beats_sentinel in Hb0. destruct (v_stable v); cbn in Hu.
        + rewrite Hb0 in Hu. cbn in Hu. apply andb_true_iff in Hu. destruct Hu as [_ Hu].
          apply N.leb_le in Hu. lia.
        + rewrite (swo_asym _ HS _ _ Hb0), Hb0 in Hu. discriminate. }
    destruct (utop_real t pl cur bs Hk Hpl Hbs Hleaves Hsrc) as (i & key & Hq & Hli & Hcur).
    rewrite umin_source, H0, Hcur. cbn [e_src].
    pose proof (nthN_Some_lt _ _ _ Hli) as Hi.
    split; [|lia].
    exists key. split; [exact Hli|]. intros j kj Hl.
    pose proof (Hmin j kj Hl) as Hu. rewrite Hcur in Hu. unfold ule in Hu. cbn [e_key e_src] in Hu.
    apply orb_true_iff in Hu. destruct Hu as [Hu|Hu].
    - split; [apply (swo_asym _ HS); exact Hu|]. intros _ C. congruence.
    - apply andb_true_iff in Hu. destruct Hu as [H1 H2]. apply negb_true_iff in H1. split; [exact H1|].
      intros St _. rewrite St in H2. cbn in H2. apply N.leb_le. exact H2.
  Qed.

  (** * the model driven by the COMBINED-style caller ([Spec.drive_g]) passes the trace checker, for all keys *)
  Lemma some_beats_spec (seqs : list (list A)) : some_beats ltb v sentinel seqs = true ->
    exists j kj, live (heads seqs) j kj /\ beats_sentinel kj.
  Proof.
    unfold some_beats, live, heads. induction seqs as [|sq r IH]; cbn [existsb map nthN]; [discriminate|].
    intros H. apply orb_true_iff in H. destruct H as [H|H].
    - destruct sq as [|k sq']; [discriminate|]. exists 0, k. split; [reflexivity|].
      unfold beatsb in H. unfold beats_sentinel. destruct (v_stable v); [apply negb_true_iff; exact H|exact H].
    - destruct (IH H) as (j & kj & Hl & Hb). exists (N.succ j), kj. split; [|exact Hb].
      destruct (N.succ j =? 0) eqn:E; [apply N.eqb_eq in E; lia|]. now rewrite N.pred_succ.
  Qed.

  Lemma drive_g_checks : forall fuel t seqs,
    UInv t (heads seqs) -> (forall j sq, nthN seqs j = Some sq -> sq <> []) ->
    (length (concat seqs) < fuel)%nat ->
    check_trace_g ltb v sentinel seqs (drive_g ltb dkey v sentinel fuel t seqs) = true.
  Proof.
    induction fuel as [|f IH]; intros t seqs HT Hne Hfuel; [lia|].
    cbn [drive_g]. destruct (some_beats ltb v sentinel seqs) eqn:Eb; [|cbn [check_trace_g]; now rewrite Eb].
    cbn [check_trace_g]. rewrite Eb. cbn [andb].
    destruct (uwinner_ok t (heads seqs) HT (some_beats_spec seqs Eb)) as [Hw Hninv].
    set (s := lt_min_source dkey v t) in *.
    assert (Hcm : check_min ltb (v_stable v) (heads seqs) s = true).
    { apply check_min_iff. intros _. exact Hw. }
    rewrite Hcm. cbn [andb].
    destruct (nthN seqs s) as [[|x rest]|] eqn:Es; try reflexivity.
    destruct rest as [|y rest']; [reflexivity|].
    apply IH.
    - unfold heads. rewrite map_setN. cbn [hd_error]. apply udmi_UInv; assumption.
    - intros j sq Hj. destruct (N.eq_dec s j) as [<-|Hnej].
      + rewrite nthN_setN_same in Hj by (eapply nthN_Some_lt; eauto). inversion Hj; subst sq. discriminate.
      + rewrite nthN_setN_other in Hj by exact Hnej. apply (Hne j sq Hj).
    - pose proof (concat_setN_length seqs s x _ Es). lia.
  Qed.

  Theorem run_g_checks seqs :
    1 <= N.of_nat (length seqs) <= 2 ^ 30 -> (forall j sq, nthN seqs j = Some sq -> sq <> []) ->
    check_trace_g ltb v sentinel seqs (lt_run_g ltb dkey v sentinel seqs) = true.
  Proof.
    intros Hk Hne. unfold lt_run_g. apply drive_g_checks; [|exact Hne|lia].
    apply ubuild_UInv; [unfold heads; rewrite map_length; exact Hk|].
    intros i x Hi. unfold heads in Hi. rewrite nthN_map in Hi. destruct (nthN seqs i) as [sq|] eqn:E; [|discriminate].
    cbn in Hi. inversion Hi; subst x. destruct sq as [|k r]; [exfalso; exact (Hne i [] E eq_refl)|exists k; reflexivity].
  Qed.
End UG.
