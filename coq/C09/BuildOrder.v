(** C09 — start-up with the players registered in ANY order (model extension, definitions only).

    [insert_start(keyp, source, sup)] takes the player index as an argument, so a caller may register the players
    in any order (descending, shuffled), not only 0, 1, 2, ... as [LoserTree.lt_build] does.  The order matters to
    the code in one place: the guarded copy class floods every node's key copy on the FIRST call ([first_insert_]),
    whichever player that call registers. *)
From Coq Require Import List NArith.
From TLXV Require Import C09.LoserTree C09.Spec C09.Instances.
Import ListNotations.
Local Open Scope N_scope.

Section BuildOrder.
  Context {A : Type}.
  Variable ltb : A -> A -> bool.
  Variable dkey : A.

  (** the (keyp, sup) pair the caller passes for player [i]: its first key, or nullptr / sup = true *)
  Definition keyp_of (heads : list (option A)) (i : N) : option A :=
    match nthN heads i with Some x => x | None => None end.

  (** insert_start for the players listed in [order], in that order *)
  Definition insert_order (v : variant) (t : tree) (heads : list (option A)) (order : list N) : tree :=
    fold_left (fun t i => lt_insert_start dkey v t (keyp_of heads i) i) order t.

  Definition lt_build_order (v : variant) (sentinel : A) (heads : list (option A)) (order : list N) : tree :=
    lt_init ltb dkey v (insert_order v (lt_new dkey v (N.of_nat (length heads)) sentinel) heads order).

  (** the callers of LoserTree.v / Spec.v with a registration order *)
  Definition lt_run_order (v : variant) (sentinel : A) (order : list N) (seqs : list (list A)) : list N :=
    drive ltb dkey v (S (length (concat seqs))) (lt_build_order v sentinel (map (@hd_error A) seqs) order) seqs.

  Definition lt_run_g_order (v : variant) (sentinel : A) (order : list N) (seqs : list (list A)) : list N :=
    drive_g ltb dkey v sentinel (S (length (concat seqs))) (lt_build_order v sentinel (map (@hd_error A) seqs) order) seqs.
End BuildOrder.

(** instances for the correspondence driver *)
Definition run_oN (rev : bool) (v : variant) (sentinel : N) (order : list N) (seqs : list (list N)) : list N :=
  lt_run_order (if rev then gtb else N.ltb) 0%N v sentinel order seqs.
Definition run_goN (rev : bool) (v : variant) (sentinel : N) (order : list N) (seqs : list (list N)) : list N :=
  lt_run_g_order (if rev then gtb else N.ltb) 0%N v sentinel order seqs.
