(** C09 — all replace histories ([Reach]), the checker is sound and complete for the property, and the
    model's own report sequence passes the checker for every input. *)
From Coq Require Import List Bool NArith PArith Lia.
From TLXV Require Import Common.Order C09.LoserTree C09.Tournament C09.VOrder C09.Invariant C09.Spec C09.Winner.
Import ListNotations.
Local Open Scope N_scope.

Section Final.
  Context {A : Type}.
  Variable ltb : A -> A -> bool.
  Variable dkey : A.
  Variable sentinel : A.
  Hypothesis HS : SWO ltb.
  Variable v : variant.
  Notation tree := (@tree A).
  Notation TInv := (TInv ltb dkey sentinel v).
  Notation pl_ok := (pl_ok ltb sentinel v).
  Notation op_ok := (op_ok ltb sentinel v).

  (** every state a caller can reach: start-up, then any number of replace-the-winner operations, each made
      while a live player remains (the reported winner then has a key to be replaced), feeding the winner's next
      key or marking it exhausted; unguarded classes only with keys the sentinel is not less than. *)
  Inductive Reach : tree -> list (option A) -> Prop :=
  | R_init heads :
      1 <= N.of_nat (length heads) <= 2 ^ 30 -> pl_ok heads ->
      Reach (lt_build ltb dkey v sentinel heads) heads
  | R_step t pl op :
      Reach t pl -> some_live pl -> op_ok op ->
      Reach (lt_delete_min_insert ltb dkey v t op) (setN pl (lt_min_source dkey v t) op).

  Theorem reach_TInv t pl : Reach t pl -> TInv t pl.
  Proof.
    induction 1 as [heads H1 H2|t pl op HR IH Hl Hop].
    - apply build_TInv; assumption.
    - apply dmi_TInv; assumption.
  Qed.

  Theorem reach_winner_ok t pl : Reach t pl -> some_live pl ->
    winner_ok ltb (v_stable v) pl (lt_min_source dkey v t).
  Proof. intros HR Hl. apply (TInv_winner_ok ltb dkey sentinel HS v); [apply reach_TInv; exact HR|exact Hl]. Qed.

  (** * the boolean checker *)
  Lemma all_from_spec (f : N -> option A -> bool) pl : forall i0,
    all_from f i0 pl = true <-> forall j x, nthN pl j = Some x -> f (i0 + j) x = true.
  Proof.
    induction pl as [|y r IH]; intros i0; cbn [all_from nthN].
    - split; [discriminate|reflexivity].
    - rewrite andb_true_iff, IH. split.
      + intros [H1 H2] j x Hj. destruct (j =? 0) eqn:E.
        * apply N.eqb_eq in E. subst j. inversion Hj; subst x. now rewrite N.add_0_r.
        * apply N.eqb_neq in E. specialize (H2 _ _ Hj). replace (i0 + j) with (i0 + 1 + N.pred j) by lia. exact H2.
      + intros H. split.
        * specialize (H 0 y). cbn in H. rewrite N.add_0_r in H. apply H. reflexivity.
        * intros j x Hj. specialize (H (N.succ j) x).
          destruct (N.succ j =? 0) eqn:E; [apply N.eqb_eq in E; lia|].
          rewrite N.pred_succ in H. replace (i0 + 1 + j) with (i0 + N.succ j) by lia. apply H. exact Hj.
  Qed.

  Lemma has_live_spec (pl : list (option A)) : has_live pl = true <-> some_live pl.
  Proof.
    unfold has_live, some_live, live. induction pl as [|y r IH]; cbn [existsb nthN].
    - split; [discriminate|]. intros (j & k & H). discriminate.
    - rewrite orb_true_iff, IH. split.
      + intros [H|(j & k & H)].
        * destruct y as [k|]; [|discriminate]. exists 0, k. reflexivity.
        * exists (N.succ j), k. destruct (N.succ j =? 0) eqn:E; [apply N.eqb_eq in E; lia|].
          now rewrite N.pred_succ.
      + intros (j & k & H). destruct (j =? 0) eqn:E.
        * inversion H; subst y. left. reflexivity.
        * right. eauto.
  Qed.

  Theorem check_min_iff st pl s :
    check_min ltb st pl s = true <-> (some_live pl -> winner_ok ltb st pl s).
  Proof.
    unfold check_min. destruct (nthN pl s) as [[key|]|] eqn:Es.
    - rewrite all_from_spec. split.
      + intros H _. exists key. split; [exact Es|]. intros j kj Hj. specialize (H j (Some kj) Hj).
        cbn [N.add] in H. apply andb_true_iff in H. destruct H as [H1 H2]. apply negb_true_iff in H1.
        split; [exact H1|]. intros -> Hk. rewrite Hk in H2. cbn in H2. apply N.leb_le. exact H2.
      + intros H j x Hj. destruct x as [kj|]; [|reflexivity].
        destruct H as (key' & Hl & Hall); [exists s, key; exact Es|].
        unfold live in Hl. rewrite Es in Hl. inversion Hl; subst key'.
        destruct (Hall j kj Hj) as [H1 H2]. cbn [N.add]. rewrite H1. cbn.
        destruct st; [|reflexivity]. cbn. destruct (ltb key kj) eqn:E; [reflexivity|]. cbn.
        apply N.leb_le. apply H2; reflexivity.
    - split.
      + intros H Hl. apply negb_true_iff in H. apply has_live_spec in Hl. congruence.
      + intros H. apply negb_true_iff. destruct (has_live pl) eqn:E; [|reflexivity].
        apply has_live_spec in E. destruct (H E) as (key & Hl & _). unfold live in Hl. congruence.
    - split.
      + intros H Hl. apply negb_true_iff in H. apply has_live_spec in Hl. congruence.
      + intros H. apply negb_true_iff. destruct (has_live pl) eqn:E; [|reflexivity].
        apply has_live_spec in E. destruct (H E) as (key & Hl & _). unfold live in Hl. congruence.
  Qed.

  (** * the model driven by a caller passes the trace checker, for every input *)
  Definition seqs_ok (seqs : list (list A)) : Prop :=
    v_guarded v = false ->
    forall j sq, nthN seqs j = Some sq -> sq <> [] /\ forall k, In k sq -> ltb sentinel k = false.

  Lemma nthN_map {B C} (f : B -> C) (l : list B) i : nthN (map f l) i = option_map f (nthN l i).
  Proof.
    revert i; induction l as [|y r IH]; intros i; cbn [map nthN]; [reflexivity|].
    destruct (i =? 0); [reflexivity|apply IH].
  Qed.

  Lemma map_setN {B C} (f : B -> C) (l : list B) i x : map f (setN l i x) = setN (map f l) i (f x).
  Proof.
    revert i; induction l as [|y r IH]; intros i; cbn [map setN]; [reflexivity|].
    destruct (i =? 0); cbn [map]; [reflexivity|now rewrite IH].
  Qed.

  Lemma concat_setN_length (l : list (list A)) i x rest :
    nthN l i = Some (x :: rest) -> S (length (concat (setN l i rest))) = length (concat l).
  Proof.
    revert i; induction l as [|y r IH]; intros i H; cbn [nthN] in H; [discriminate|].
    cbn [setN]. destruct (i =? 0).
    - inversion H; subst y. cbn [concat]. rewrite !app_length. cbn [length]. lia.
    - cbn [concat]. rewrite !app_length. rewrite <- (IH _ H). lia.
  Qed.

  Lemma seqs_ok_heads seqs : seqs_ok seqs -> pl_ok (heads seqs).
  Proof.
    intros H G i x Hi. unfold heads in Hi. rewrite nthN_map in Hi.
    destruct (nthN seqs i) as [sq|] eqn:E; [|discriminate]. cbn in Hi. inversion Hi; subst x.
    destruct (H G i sq E) as [Hne Hk]. destruct sq as [|k r]; [contradiction|].
    exists k. split; [reflexivity|]. apply Hk. left. reflexivity.
  Qed.

  Lemma drive_checks : forall fuel t seqs,
    TInv t (heads seqs) -> seqs_ok seqs -> (length (concat seqs) < fuel)%nat ->
    check_trace ltb v seqs (drive ltb dkey v fuel t seqs) = true.
  Proof.
    induction fuel as [|f IH]; intros t seqs HT Hok Hfuel; [lia|].
    cbn [drive check_trace]. set (s := lt_min_source dkey v t).
    assert (Hcm : check_min ltb (v_stable v) (heads seqs) s = true).
    { apply check_min_iff. intros Hl. apply (TInv_winner_ok ltb dkey sentinel HS v); assumption. }
    rewrite Hcm. cbn [andb].
    destruct (nthN seqs s) as [[|x rest]|] eqn:Es; try reflexivity.
    assert (Hlive : some_live (heads seqs)).
    { exists s, x. unfold live, heads. rewrite nthN_map, Es. reflexivity. }
    assert (Hstep : check_trace ltb v (setN seqs s rest)
              (drive ltb dkey v f (lt_delete_min_insert ltb dkey v t (hd_error rest)) (setN seqs s rest)) = true
            \/ (rest = [] /\ v_guarded v = false)).
    { destruct (v_guarded v) eqn:G, rest as [|y rest'] eqn:Er; try (right; split; reflexivity); left.
      all: apply IH;
        [ unfold heads; rewrite map_setN; apply (dmi_TInv ltb dkey sentinel HS v);
          [exact HT|exact Hlive|intros G'; try congruence]
        | intros G' j sq Hj; try congruence
        | pose proof (concat_setN_length seqs s x _ Es); lia ].
      - exists y. split; [reflexivity|]. destruct (Hok G' s _ Es) as [_ Hk]. apply Hk. right. left. reflexivity.
      - destruct (N.eq_dec s j) as [<-|Hne].
        + rewrite nthN_setN_same in Hj by (eapply nthN_Some_lt; eauto). inversion Hj; subst sq.
          split; [discriminate|]. intros k Hk. destruct (Hok G' s _ Es) as [_ Hk']. apply Hk'. right. exact Hk.
        + rewrite nthN_setN_other in Hj by exact Hne. apply (Hok G' j sq Hj). }
    destruct rest as [|y rest']; destruct (v_guarded v) eqn:G.
    - destruct Hstep as [H|[_ C]]; [exact H|discriminate].
    - reflexivity.
    - destruct Hstep as [H|[C _]]; [exact H|discriminate].
    - destruct Hstep as [H|[C _]]; [exact H|discriminate].
  Qed.

  Theorem run_checks seqs :
    1 <= N.of_nat (length seqs) <= 2 ^ 30 -> seqs_ok seqs ->
    check_trace ltb v seqs (lt_run ltb dkey v sentinel seqs) = true.
  Proof.
    intros Hk Hok. unfold lt_run. apply drive_checks; [|exact Hok|lia].
    apply build_TInv; [exact HS|unfold heads; rewrite map_length; exact Hk|apply seqs_ok_heads; exact Hok].
  Qed.
End Final.
