(** C09 — the tournament invariant [T], that it makes the top entry a [gle]-minimum of the leaves, and its
    preservation by the replay loop of delete_min_insert and establishment by init_winner. *)
From Coq Require Import List Bool NArith PArith Lia.
From TLXV Require Import Common.Order C09.LoserTree C09.Tournament C09.VOrder.
Import ListNotations.
Local Open Scope N_scope.

Section Inv.
  Context {A : Type}.
  Variable ltb : A -> A -> bool.
  Variable dkey : A.
  Variable sentinel : A.
  Hypothesis HS : SWO ltb.
  Variable v : variant.
  Notation entry := (@entry A).
  Notation aget := (aget dkey).
  Notation gle := (gle ltb v).
  Notation good := (good ltb sentinel v).
  Notation candok := (candok v).

  (** [T cur L n bs]: in the subtree below node [n] the leaf reached by the path [bs] is the winner; every inner
      node on that path stores the winner of the sibling subtree, which itself satisfies [T], and the path's
      leaf may win against it.  [cur p] = the current entry of the player at leaf position [p] (ghost). *)
  Inductive T (cur : positive -> entry) (L : list entry) : positive -> list bool -> Prop :=
  | T_leaf n : T cur L n []
  | T_node n b bs bs' :
      length bs' = length bs ->
      T cur L (child n b) bs ->
      T cur L (child n (negb b)) bs' ->
      aget L (Npos n) = cur (sub (child n (negb b)) bs') ->
      gle (cur (sub (child n b) bs)) (cur (sub (child n (negb b)) bs')) = true ->
      T cur L n (b :: bs).

  Lemma T_frame cur cur' L L' n bs :
    (forall cs, (length cs < length bs)%nat -> aget L' (Npos (sub n cs)) = aget L (Npos (sub n cs))) ->
    (forall cs, length cs = length bs -> cur' (sub n cs) = cur (sub n cs)) ->
    T cur L n bs -> T cur' L' n bs.
  Proof.
    intros HL Hc HT. revert HL Hc. induction HT as [n|n b bs bs' Hl HT1 IH1 HT2 IH2 Hg Hle]; intros HL Hc.
    - constructor.
    - apply T_node with (bs' := bs'); [exact Hl| | | |].
      + apply IH1.
        * intros cs Hcs. apply (HL (b :: cs)). cbn [length]. lia.
        * intros cs Hcs. apply (Hc (b :: cs)). cbn [length]. lia.
      + apply IH2.
        * intros cs Hcs. apply (HL (negb b :: cs)). cbn [length]. lia.
        * intros cs Hcs. apply (Hc (negb b :: cs)). cbn [length]. lia.
      + pose proof (HL []) as E0. cbn [sub length] in E0. rewrite E0 by lia.
        pose proof (Hc (negb b :: bs')) as E1. cbn [sub length] in E1. rewrite E1 by lia. exact Hg.
      + pose proof (Hc (negb b :: bs')) as E1. cbn [sub length] in E1. rewrite E1 by lia.
        pose proof (Hc (b :: bs)) as E2. cbn [sub length] in E2. rewrite E2 by lia. exact Hle.
  Qed.

  (** the path's leaf may win against every leaf of the subtree *)
  Lemma T_min cur L n bs : T cur L n bs ->
    forall cs, length cs = length bs -> gle (cur (sub n bs)) (cur (sub n cs)) = true.
  Proof.
    induction 1 as [n|n b bs bs' Hl HT1 IH1 HT2 IH2 Hg Hle]; intros cs Hcs.
    - destruct cs; [|discriminate]. apply gle_refl; exact HS.
    - destruct cs as [|c cs]; [discriminate|]. cbn [length] in Hcs. cbn [sub].
      destruct (Bool.bool_dec c b) as [->|Hcb].
      + apply IH1. lia.
      + assert (c = negb b) as -> by (destruct c, b; cbn; try reflexivity; exfalso; apply Hcb; reflexivity).
        eapply gle_trans; [exact HS|exact Hle|]. apply IH2. lia.
  Qed.

  (** * delete_min_insert: replaying the path of the old winner *)
  Definition cur_upd (cur : positive -> entry) (q : positive) (e : entry) : positive -> entry :=
    fun p => if Pos.eqb p q then e else cur p.

  Lemma replay_T : forall bs n cur L e,
    T cur L n bs ->
    (forall cs, length cs = length bs -> good (cur (sub n cs))) ->
    good e -> candok e ->
    (forall cs, (length cs < length bs)%nat -> Npos (sub n cs) < N.of_nat (length L)) ->
    let cur' := cur_upd cur (sub n bs) e in
    forall c' L', fold_left (step ltb dkey v) (apath n bs) (e, L) = (c', L') ->
    exists bs', length bs' = length bs /\ T cur' L' n bs' /\ c' = cur' (sub n bs') /\ candok c' /\
      length L' = length L /\
      (forall m, (forall cs, (length cs < length bs)%nat -> m <> Npos (sub n cs)) -> aget L' m = aget L m).
  Proof.
    induction bs as [|b bs IH]; intros n cur L e HT Hgood He Hce Hbound cur' c' L' Hfold.
    - cbn in Hfold. inversion Hfold; subst c' L'. exists []. split; [reflexivity|]. split; [constructor|].
      split; [|split; [exact Hce|split; [reflexivity|intros; reflexivity]]].
      unfold cur', cur_upd. cbn [sub]. now rewrite Pos.eqb_refl.
    - cbn [apath] in Hfold. rewrite fold_left_app in Hfold.
      destruct (fold_left (step ltb dkey v) (apath (child n b) bs) (e, L)) as [c1 L1] eqn:E1.
      inversion HT as [|n0 b0 bs0 bss Hl HT1 HT2 Hg Hle]; subst n0 b0 bs0.
      cbn [sub] in cur'.
      destruct (IH (child n b) cur L e HT1) with (c' := c1) (L' := L1)
        as (bs1 & Hl1 & HT1' & Hc1 & Hcc1 & Hlen1 & Hfr1); try assumption.
      { intros cs Hcs. apply (Hgood (b :: cs)). cbn [length]. lia. }
      { intros cs Hcs. apply (Hbound (b :: cs)). cbn [length]. lia. }
      fold cur' in HT1', Hc1.
      (* the sibling subtree is untouched *)
      assert (Hsib_cur : forall cs, cur' (sub (child n (negb b)) cs) = cur (sub (child n (negb b)) cs)).
      { intros cs. unfold cur', cur_upd.
        destruct (Pos.eqb_spec (sub (child n (negb b)) cs) (sub (child n b) bs)) as [E|E]; [|reflexivity].
        symmetry in E. exfalso. exact (sub_neq_child _ _ _ _ E). }
      assert (Hsib_L : forall cs, aget L1 (Npos (sub (child n (negb b)) cs)) = aget L (Npos (sub (child n (negb b)) cs))).
      { intros cs. apply Hfr1. intros ds _ E. inversion E as [E']. symmetry in E'. exact (sub_neq_child _ _ _ _ E'). }
      assert (HT2' : T cur' L1 (child n (negb b)) bss).
      { eapply T_frame; [| |exact HT2]; intros cs _; [apply Hsib_L|apply Hsib_cur]. }
      assert (Hn1 : aget L1 (Npos n) = cur' (sub (child n (negb b)) bss)).
      { rewrite Hsib_cur, <- Hg. apply Hfr1. intros ds _ E. inversion E as [E']. exact (sub_neq_self _ _ _ E'). }
      assert (Hnb : Npos n < N.of_nat (length L1)).
      { rewrite Hlen1. apply (Hbound []). cbn [length]. lia. }
      (* the match at node n *)
      cbn [fold_left step] in Hfold. rewrite Hn1 in Hfold.
      set (s := cur' (sub (child n (negb b)) bss)) in *.
      assert (Gs : good s).
      { unfold s. rewrite Hsib_cur. apply (Hgood (negb b :: bss)). cbn [length]. lia. }
      assert (Gc1 : good c1).
      { rewrite Hc1. unfold cur', cur_upd.
        destruct (Pos.eqb (sub (child n b) bs1) (sub (child n b) bs)); [exact He|].
        apply (Hgood (b :: bs1)). cbn [length]. lia. }
      destruct (step_gle ltb sentinel v s c1 Gs Gc1 Hcc1) as [Hsw Hnsw].
      (* frame facts for an update at n *)
      assert (Hfr_n : forall x b0 cs, aget (aset L1 (Npos n) x) (Npos (sub (child n b0) cs)) = aget L1 (Npos (sub (child n b0) cs))).
      { intros x b0 cs. apply aget_aset_other. intros E. inversion E as [E']. exact (sub_neq_self _ _ _ E'). }
      destruct (swap ltb v s c1) eqn:Esw.
      + (* the stored loser wins and moves up *)
        destruct (Hsw eq_refl) as [Hgle Hcs]. inversion Hfold; subst c' L'.
        exists (negb b :: bss). split; [cbn [length]; lia|]. split.
        * apply T_node with (bs' := bs1); [lia| | | |].
          -- eapply T_frame; [| |exact HT2']; [intros cs _; apply Hfr_n|reflexivity].
          -- rewrite negb_involutive. eapply T_frame; [| |exact HT1']; [intros cs _; apply Hfr_n|reflexivity].
          -- rewrite negb_involutive, <- Hc1. apply aget_aset_same. exact Hnb.
          -- rewrite negb_involutive, <- Hc1. exact Hgle.
        * split; [reflexivity|]. split; [exact Hcs|]. split; [rewrite length_aset; exact Hlen1|].
          intros m Hm. rewrite aget_aset_other.
          -- apply Hfr1. intros cs Hcs' E. apply (Hm (b :: cs)); [cbn [length]; lia|exact E].
          -- intros E. apply (Hm []); [cbn [length]; lia|]. cbn [sub]. congruence.
      + (* the candidate wins *)
        specialize (Hnsw eq_refl). inversion Hfold; subst c' L'.
        exists (b :: bs1). split; [cbn [length]; lia|]. split.
        * apply T_node with (bs' := bss); [lia|exact HT1'|exact HT2'|exact Hn1|].
          rewrite <- Hc1. exact Hnsw.
        * split; [exact Hc1|]. split; [exact Hcc1|]. split; [exact Hlen1|].
          intros m Hm. apply Hfr1. intros cs Hcs' E. apply (Hm (b :: cs)); [cbn [length]; lia|exact E].
  Qed.
End Inv.

(** * init_winner establishes the invariant *)
Section Init.
  Context {A : Type}.
  Variable ltb : A -> A -> bool.
  Variable dkey : A.
  Variable sentinel : A.
  Hypothesis HS : SWO ltb.
  Variable v : variant.
  Notation entry := (@entry A).
  Notation aget := (aget dkey).
  Notation gle := (gle ltb v).
  Notation good := (good ltb sentinel v).
  Notation T := (T ltb dkey v).

  Lemma init_T : forall d fuel bs0 (L : list entry) cur h,
    (length bs0 + d = h)%nat -> (d <= fuel)%nat ->
    (forall cs, length cs = d -> aget L (Npos (sub (sub 1 bs0) cs)) = cur (sub (sub 1 bs0) cs)) ->
    (forall cs, length cs = d -> good (cur (sub (sub 1 bs0) cs))) ->
    (forall cs cs', length cs = d -> length cs' = d ->
       Npos (sub (sub 1 bs0) cs) < Npos (sub (sub 1 bs0) cs') ->
       e_src (cur (sub (sub 1 bs0) cs)) <= e_src (cur (sub (sub 1 bs0) cs'))) ->
    (forall cs, (length cs < d)%nat -> Npos (sub (sub 1 bs0) cs) < N.of_nat (length L)) ->
    forall w L', init_winner ltb dkey v fuel (2 ^ N.of_nat h) (Npos (sub 1 bs0)) L = (w, L') ->
    exists bs, length bs = d /\ w = Npos (sub (sub 1 bs0) bs) /\ T cur L' (sub 1 bs0) bs /\
      length L' = length L /\
      (forall m, (forall cs, (length cs < d)%nat -> m <> Npos (sub (sub 1 bs0) cs)) -> aget L' m = aget L m).
  Proof.
    induction d as [|d IH]; intros fuel bs0 L cur h Hh Hfuel Hleaf Hgood Hsrc Hbound w L' Hrun.
    - (* root >= k_ *)
      pose proof (sub_range 1 bs0) as Hr. replace (length bs0) with h in Hr by lia.
      assert (Et : (2 ^ N.of_nat h <=? Npos (sub 1 bs0)) = true) by (apply N.leb_le; lia).
      destruct fuel; cbn [init_winner] in Hrun; rewrite Et in Hrun; inversion Hrun; subst w L';
        (exists []; split; [reflexivity|]; split; [reflexivity|]; split; [constructor|];
         split; [reflexivity|intros; reflexivity]).
    - set (root := sub 1 bs0) in *.
      pose proof (sub_range 1 bs0) as Hr. fold root in Hr.
      assert (Hpow : 2 * 2 ^ N.of_nat (length bs0) <= 2 ^ N.of_nat h).
      { rewrite <- N.pow_succ_r', <- Nat2N.inj_succ. apply N.pow_le_mono_r; lia. }
      assert (Et : (2 ^ N.of_nat h <=? Npos root) = false) by (apply N.leb_gt; lia).
      destruct fuel as [|f]; [lia|].
      cbn [init_winner] in Hrun. rewrite Et in Hrun.
      change (2 * N.pos root) with (N.pos (child root false)) in Hrun.
      change (N.pos (child root false) + 1) with (N.pos (child root true)) in Hrun.
      destruct (init_winner ltb dkey v f (2 ^ N.of_nat h) (N.pos (child root false)) L) as [wl L1] eqn:EL.
      destruct (init_winner ltb dkey v f (2 ^ N.of_nat h) (N.pos (child root true)) L1) as [wr L2] eqn:ER.
      assert (Hc : forall b, child root b = sub 1 (bs0 ++ [b])) by (intros b; unfold root; now rewrite sub_app).
      (* left subtree *)
      destruct (IH f (bs0 ++ [false]) L cur h) with (w := wl) (L' := L1)
        as (bsl & Hll & Hwl & HTl & Hlenl & Hfrl);
        try (rewrite <- Hc).
      { rewrite app_length. cbn. lia. } { lia. }
      { intros cs Hcs. apply (Hleaf (false :: cs)). cbn [length]. lia. }
      { intros cs Hcs. apply (Hgood (false :: cs)). cbn [length]. lia. }
      { intros cs cs' H1 H2. apply (Hsrc (false :: cs) (false :: cs')); cbn [length]; lia. }
      { intros cs Hcs. apply (Hbound (false :: cs)). cbn [length]. lia. }
      { exact EL. }
      rewrite <- Hc in Hwl, HTl, Hfrl.
      (* right subtree, on L1 *)
      destruct (IH f (bs0 ++ [true]) L1 cur h) with (w := wr) (L' := L2)
        as (bsr & Hlr & Hwr & HTr & Hlenr & Hfrr);
        try (rewrite <- Hc).
      { rewrite app_length. cbn. lia. } { lia. }
      { intros cs Hcs. rewrite Hfrl.
        - apply (Hleaf (true :: cs)). cbn [length]. lia.
        - intros ds _ E. inversion E as [E']. symmetry in E'. exact (sub_neq_child root false ds cs E'). }
      { intros cs Hcs. apply (Hgood (true :: cs)). cbn [length]. lia. }
      { intros cs cs' H1 H2. apply (Hsrc (true :: cs) (true :: cs')); cbn [length]; lia. }
      { intros cs Hcs. rewrite Hlenl. apply (Hbound (true :: cs)). cbn [length]. lia. }
      { exact ER. }
      rewrite <- Hc in Hwr, HTr, Hfrr.
      (* contents of the two winners' leaves *)
      assert (Hgl : aget L2 wl = cur (sub (child root false) bsl)).
      { subst wl. rewrite Hfrr, Hfrl.
        - apply (Hleaf (false :: bsl)). cbn [length]. lia.
        - intros cs Hcs E. inversion E as [E']. apply sub_inj in E'. subst cs. lia.
        - intros cs _ E. inversion E as [E']. exact (sub_neq_child root false bsl cs E'). }
      assert (Hgr : aget L2 wr = cur (sub (child root true) bsr)).
      { subst wr. rewrite Hfrr, Hfrl.
        - apply (Hleaf (true :: bsr)). cbn [length]. lia.
        - intros cs _ E. inversion E as [E']. symmetry in E'. exact (sub_neq_child root false cs bsr E').
        - intros cs Hcs E. inversion E as [E']. apply sub_inj in E'. subst cs. lia. }
      rewrite Hgl, Hgr in Hrun.
      set (el := cur (sub (child root false) bsl)) in *. set (er := cur (sub (child root true) bsr)) in *.
      assert (Hord : if left_wins ltb v el er then gle el er = true else gle er el = true).
      { apply (init_gle ltb sentinel HS).
        - apply (Hgood (false :: bsl)). cbn [length]. lia.
        - apply (Hgood (true :: bsr)). cbn [length]. lia.
        - apply (Hsrc (false :: bsl) (true :: bsr)); [cbn [length]; lia|cbn [length]; lia|].
          cbn [sub]. apply sub_lt_children. lia. }
      assert (Hnb : Npos root < N.of_nat (length L2)).
      { rewrite Hlenr, Hlenl. apply (Hbound []). cbn [length]. lia. }
      assert (HTl2 : T cur L2 (child root false) bsl).
      { eapply T_frame; [| |exact HTl]; [|reflexivity]. intros cs _. apply Hfrr.
        intros ds _ E. inversion E as [E']. exact (sub_neq_child root false cs ds E'). }
      assert (Hfr_n : forall x b0 cs, aget (aset L2 (Npos root) x) (Npos (sub (child root b0) cs)) = aget L2 (Npos (sub (child root b0) cs))).
      { intros x b0 cs. apply aget_aset_other. intros E. inversion E as [E']. exact (sub_neq_self _ _ _ E'). }
      assert (Hframe : forall x m, (forall cs, (length cs < S d)%nat -> m <> Npos (sub root cs)) ->
                                   aget (aset L2 (Npos root) x) m = aget L m).
      { intros x m Hm. rewrite aget_aset_other.
        - rewrite Hfrr, Hfrl; [reflexivity| |].
          + intros cs Hcs E. apply (Hm (false :: cs)); [cbn [length]; lia|exact E].
          + intros cs Hcs E. apply (Hm (true :: cs)); [cbn [length]; lia|exact E].
        - intros E. apply (Hm []); [cbn [length]; lia|]. cbn [sub]. congruence. }
      destruct (left_wins ltb v el er); inversion Hrun; subst w L'.
      + exists (false :: bsl). split; [cbn [length]; lia|]. split; [exact Hwl|]. split.
        * apply T_node with (bs' := bsr); [lia| | | |].
          -- eapply T_frame; [| |exact HTl2]; [intros cs _; apply Hfr_n|reflexivity].
          -- eapply T_frame; [| |exact HTr]; [intros cs _; apply Hfr_n|reflexivity].
          -- apply aget_aset_same. exact Hnb.
          -- exact Hord.
        * split; [rewrite length_aset; lia|apply Hframe].
      + exists (true :: bsr). split; [cbn [length]; lia|]. split; [exact Hwr|]. split.
        * apply T_node with (bs' := bsl); [lia| | | |].
          -- eapply T_frame; [| |exact HTr]; [intros cs _; apply Hfr_n|reflexivity].
          -- eapply T_frame; [| |exact HTl2]; [intros cs _; apply Hfr_n|reflexivity].
          -- apply aget_aset_same. exact Hnb.
          -- exact Hord.
        * split; [rewrite length_aset; lia|apply Hframe].
  Qed.
End Init.
