(** C09 — executable model of tlx/container/loser_tree.hpp.

    One model for the eight classes LoserTree{Copy,Pointer}{,Unguarded}<Stable>:
    a [variant] is (pointer?, guarded?, stable?).  The copy and pointer classes differ only in
    storage ("key == ValueType() + sup flag" versus "keyp == nullptr"), in the [first_insert_]
    key flooding of the guarded copy class, and in [min_source()] of the guarded pointer class
    (which answers [invalid_] for an exhausted winner).

    Interface for other properties (C05 imports this file):
      [lt_new] constructor, [lt_insert_start], [lt_init], [lt_min_source],
      [lt_delete_min_insert], [lt_build] (= constructor + insert_start for sources 0..ik-1 + init).
    The main lemmas are in C09/Tournament.v (invariant) and C09/Winner.v (what the winner is).

    Array indices and sources are [N]; [Source = uint32_t] in the code, the theorems assume
    [ik <= 2^30] so that [2 * k_] and [k_ + source] do not wrap. *)
From Coq Require Import List Bool NArith PArith Lia.
Import ListNotations.
Local Open Scope N_scope.

Record variant := mkV { v_ptr : bool; v_guarded : bool; v_stable : bool }.

Section Model.
  Context {A : Type}.
  Variable ltb : A -> A -> bool.   (* cmp_ *)
  Variable dkey : A.               (* ValueType() *)

  (** struct Loser { bool sup; Source source; ValueType key; }  (pointer classes: sup <-> keyp == nullptr;
      unguarded classes: no sup field, modelled as sup = false) *)
  Record entry := mkE { e_sup : bool; e_src : N; e_key : A }.

  Definition invalid_ : N := 4294967295.   (* Source(-1) *)

  (** losers_ : SimpleVector<Loser>, as a list with total get / set. *)
  Definition dflt : entry := mkE true invalid_ dkey.
  Fixpoint aget (l : list entry) (i : N) : entry :=
    match l with
    | [] => dflt
    | x :: r => if i =? 0 then x else aget r (N.pred i)
    end.
  Fixpoint aset (l : list entry) (i : N) (v : entry) : list entry :=
    match l with
    | [] => []
    | x :: r => if i =? 0 then v :: r else x :: aset r (N.pred i) v
    end.

  Record tree := mkT { t_ik : N; t_k : N; t_losers : list entry; t_first : bool }.

  (** round_up_to_power_of_two(ik) for ik >= 1 (its word-level definition is property C20's business). *)
  Definition round_up_pow2 (n : N) : N := 2 ^ N.log2_up n.

  (** Padding player written by the constructors: guarded {sup = true / keyp = nullptr, source = invalid_},
      unguarded {source = invalid_, key = sentinel}.  Slots the constructor leaves indeterminate are
      modelled with the same value; each of them is written before it is read. *)
  Definition pad (v : variant) (sentinel : A) : entry :=
    if v_guarded v then mkE true invalid_ dkey else mkE false invalid_ sentinel.

  Definition lt_new (v : variant) (ik : N) (sentinel : A) : tree :=
    let k := round_up_pow2 ik in
    mkT ik k (repeat (pad v sentinel) (N.to_nat (2 * k))) true.

  (** the entry a caller hands in: (keyp, sup) with sup == (keyp == nullptr) *)
  Definition mk_entry (v : variant) (source : N) (keyp : option A) : entry :=
    match keyp with
    | Some k => mkE false source k
    | None => mkE (v_guarded v) source dkey
    end.

  (** insert_start, including the first_insert_ flooding of LoserTreeCopyBase *)
  Definition lt_insert_start (v : variant) (t : tree) (keyp : option A) (source : N) : tree :=
    let pos := t_k t + source in
    let e := mk_entry v source keyp in
    let L := if v_guarded v && negb (v_ptr v) && t_first t
             then map (fun x => mkE (e_sup x) (e_src x) (e_key e)) (t_losers t)
             else t_losers t in
    mkT (t_ik t) (t_k t) (aset L pos e) false.

  (** init_winner: "left one is less or equal" test *)
  Definition left_wins (v : variant) (l r : entry) : bool :=
    if v_guarded v
    then e_sup r || (negb (e_sup l) && negb (ltb (e_key r) (e_key l)))
    else negb (ltb (e_key r) (e_key l)).

  (** Source init_winner(root): recursion on root -> 2 root, 2 root + 1 until root >= k_.
      [fuel] bounds the recursion depth (log2 k_ suffices; running out returns [root], excluded in the proofs). *)
  Fixpoint init_winner (v : variant) (fuel : nat) (k : N) (root : N) (L : list entry) : N * list entry :=
    if k <=? root then (root, L) else
    match fuel with
    | O => (root, L)
    | S f =>
      let '(wl, L1) := init_winner v f k (2 * root) L in
      let '(wr, L2) := init_winner v f k (2 * root + 1) L1 in
      if left_wins v (aget L2 wl) (aget L2 wr)
      then (wl, aset L2 root (aget L2 wr))
      else (wr, aset L2 root (aget L2 wl))
    end.

  Definition depth (t : tree) : nat := N.to_nat (N.log2_up (t_ik t)).

  Definition lt_init (v : variant) (t : tree) : tree :=
    if t_k t =? 0 then t else
    let '(w, L) := init_winner v (depth t) (t_k t) 1 (t_losers t) in
    mkT (t_ik t) (t_k t) (aset L 0 (aget L w)) (t_first t).

  Definition lt_min_source (v : variant) (t : tree) : N :=
    let w := aget (t_losers t) 0 in
    if v_guarded v && v_ptr v && e_sup w then invalid_ else e_src w.

  (** delete_min_insert: does the stored loser [s] at [pos] beat the travelling candidate [c]
      ("the other one is smaller" -> swap)?  One clause per class pair, as in the code. *)
  Definition swap (v : variant) (s c : entry) : bool :=
    match v_guarded v, v_stable v with
    | true, false =>
        if e_sup c then true
        else if e_sup s then false
        else ltb (e_key s) (e_key c)
    | true, true =>
        (e_sup c && (negb (e_sup s) || (e_src s <? e_src c))) ||
        (negb (e_sup c) && negb (e_sup s) &&
         (ltb (e_key s) (e_key c) || (negb (ltb (e_key c) (e_key s)) && (e_src s <? e_src c))))
    | false, false => ltb (e_key s) (e_key c)
    | false, true =>
        ltb (e_key s) (e_key c) || (negb (ltb (e_key c) (e_key s)) && (e_src s <? e_src c))
    end.

  Definition step (v : variant) (st : entry * list entry) (pos : N) : entry * list entry :=
    let '(c, L) := st in
    let s := aget L pos in
    if swap v s c then (s, aset L pos c) else (c, L).

  (** positions visited by [for (pos = n; pos > 0; pos /= 2)] *)
  Fixpoint up (p : positive) : list N :=
    match p with
    | xH => []
    | xO q => Npos q :: up q
    | xI q => Npos q :: up q
    end.
  Definition walk (n : N) : list N :=
    match n with N0 => [] | Npos p => Npos p :: up p end.

  Definition lt_delete_min_insert (v : variant) (t : tree) (keyp : option A) : tree :=
    let L := t_losers t in
    let source := e_src (aget L 0) in
    let c := mk_entry v source keyp in
    let '(c', L') := fold_left (step v) (walk (N.div2 (t_k t + source))) (c, L) in
    mkT (t_ik t) (t_k t) (aset L' 0 c') (t_first t).

  (** the caller's start-up: insert_start for sources 0, 1, ..., then init() *)
  Fixpoint insert_all (v : variant) (t : tree) (i : N) (heads : list (option A)) : tree :=
    match heads with
    | [] => t
    | h :: r => insert_all v (lt_insert_start v t h i) (i + 1) r
    end.

  Definition lt_build (v : variant) (sentinel : A) (heads : list (option A)) : tree :=
    lt_init v (insert_all v (lt_new v (N.of_nat (length heads)) sentinel) 0 heads).

  (** * A caller: k sequences merged through the tree (used by the correspondence driver).
      [seqs] holds for each player the keys it has not yet handed in, head = current key.
      Reports min_source() after init() and after every delete_min_insert().  The run stops when the
      reported source has no current key (all exhausted), or - unguarded classes - when the winner's
      sequence would run empty (the documented precondition of those classes). *)
  Fixpoint nthN {B} (l : list B) (i : N) : option B :=
    match l with
    | [] => None
    | x :: r => if i =? 0 then Some x else nthN r (N.pred i)
    end.
  Fixpoint setN {B} (l : list B) (i : N) (x : B) : list B :=
    match l with
    | [] => []
    | y :: r => if i =? 0 then x :: r else y :: setN r (N.pred i) x
    end.

  Fixpoint drive (v : variant) (fuel : nat) (t : tree) (seqs : list (list A)) : list N :=
    let s := lt_min_source v t in
    s :: match fuel with
         | O => []
         | S f =>
           match nthN seqs s with
           | Some (_ :: rest) =>
             match rest, v_guarded v with
             | [], false => []
             | _, _ => drive v f (lt_delete_min_insert v t (hd_error rest)) (setN seqs s rest)
             end
           | _ => []
           end
         end.

  Definition lt_run (v : variant) (sentinel : A) (seqs : list (list A)) : list N :=
    drive v (S (length (concat seqs))) (lt_build v sentinel (map (@hd_error A) seqs)) seqs.

End Model.

Arguments mkE {A} _ _ _.
Arguments mkT {A} _ _ _ _.
