(** C14 — digests and SipHash equal their standards for every message and every chunking.
    Statements only; proofs live in C14/MDProofs.v, C14/HashProofs.v, C14/SipProofs.v; the specifications are
    validated against the published test vectors in C14/Vectors.v (compiled here as a dependency). *)
From Coq Require Import NArith List Arith.
From TLXV Require Import C14.Words C14.MD C14.MDProofs C14.Hashes C14.HashProofs C14.Sip C14.SipProofs C14.Vectors.
Import ListNotations.

(** The buffering machine shared by the four classes, for EVERY block geometry (B = sizeof(buf_), the "> P" test,
    length stored at offset L = B - 8), compression function, length encoding and output function: for every
    content [junk] of the uninitialised buf_ and every list of process() arguments whose total bit length lies in the
    domain [ok] on which the standard's length field is the 64-bit length_ (= bit length mod 2^64) behind L - P zero
    bytes, the run never exhausts its loop fuel and finalize returns the standard's digest
    H_spec = out (fold compress (blocks (msg ++ 0x80 ++ 0.. ++ length field)) iv) of the concatenation. *)
Theorem C14_chunking_independent_generic :
  forall (H : Type) (B P L : nat) (compress : H -> list N -> H) (enc_len : N -> list N) (iv : H)
         (out : H -> list N) (spec_field : N -> list N) (ok : N -> Prop),
  B = L + 8 -> P <= L -> 0 < P ->
  (forall n, length (enc_len n) = 8) ->
  (forall n, ok n -> spec_field n = repeat 0%N (L - P) ++ enc_len (wrap 64 n)) ->
  forall junk chunks,
  length junk = B ->
  ok (8 * N.of_nat (length (concat chunks)))%N ->
  exists st, run H B compress iv junk chunks = Some st /\
             finalize H B P L compress enc_len out st = H_spec H B P compress iv out spec_field (concat chunks).
Proof. exact chunking_independent_generic. Qed.
Print Assumptions C14_chunking_independent_generic.

(** Shape of the standard's padding for the same generic geometry: a whole number of blocks; one extra block when
    |msg| mod B < P (up to 55 resp. 111 bytes in the last block), two when P <= |msg| mod B (56..63 resp. 112..127). *)
Theorem C14_pad_shape :
  forall (B P L : nat) (enc_len : N -> list N) (spec_field : N -> list N) (ok : N -> Prop),
  B = L + 8 -> P <= L -> 0 < P ->
  (forall n, length (enc_len n) = 8) ->
  (forall n, ok n -> spec_field n = repeat 0%N (L - P) ++ enc_len (wrap 64 n)) ->
  forall msg, ok (8 * N.of_nat (length msg))%N ->
  length (pad B P spec_field msg) mod B = 0 /\
  (length msg mod B < P -> length (pad B P spec_field msg) = B * (length msg / B) + B) /\
  (P <= length msg mod B -> length (pad B P spec_field msg) = B * (length msg / B) + 2 * B).
Proof. exact pad_shape. Qed.
Print Assumptions C14_pad_shape.

(** MD5, SHA-1, SHA-256, SHA-512 as modelled from tlx/digest/*.cpp (constant tables regenerated from the
    sources; control structure and block geometry hand-modelled and tied by the correspondence run): digest(), digest_hex(), digest_hex_uc() after any sequence of process() calls return the
    standard's digest of the concatenated message in raw, lower-case and upper-case hexadecimal form.
    The only hypothesis on the message is the algorithm's own domain: none for MD5 (RFC 1321 uses the bit length
    modulo 2^64, and so does the code), fewer than 2^64 bits for SHA-1 / SHA-256 (the limit of FIPS 180-4) and for
    SHA-512 (FIPS allows 2^128; SHA512::finalize documents that tlx supports fewer than 2^64 bits). *)
Theorem C14_digests_equal_standard_for_every_chunking : forall a junk chunks,
  length junk = algo_B a ->
  match a with AMD5 => True | _ => (8 * N.of_nat (length (concat chunks)) < 2 ^ 64)%N end ->
  let d := spec a (concat chunks) in
  digest a junk chunks = Some d /\
  digest_hex a junk chunks = Some (hex_spec lc_digit d) /\
  digest_hex_uc a junk chunks = Some (hex_spec uc_digit d).
Proof. exact api_forms. Qed.
Print Assumptions C14_digests_equal_standard_for_every_chunking.

(** MD5 alone, with no hypothesis on the message at all *)
Theorem C14_md5_every_message : forall junk chunks,
  length junk = Tables_C14_gen.md5_B -> md5_digest_of junk chunks = Some (md5_spec (concat chunks)).
Proof. exact md5_chunking_independent. Qed.
Print Assumptions C14_md5_every_message.

(** xxx_hex(data) / xxx_hex_uc(data) *)
Theorem C14_helpers_equal_standard : forall a junk msg,
  length junk = algo_B a ->
  match a with AMD5 => True | _ => (8 * N.of_nat (length (msg)) < 2 ^ 64)%N end ->
  helper_hex a junk msg = Some (hex_spec lc_digit (spec a msg)) /\
  helper_hex_uc a junk msg = Some (hex_spec uc_digit (spec a msg)).
Proof. exact helper_forms. Qed.
Print Assumptions C14_helpers_equal_standard.

(** two histories with the same concatenation give the same digest, whatever buf_ contained before *)
Theorem C14_chunking_irrelevant : forall a junk1 junk2 chunks1 chunks2,
  length junk1 = algo_B a -> length junk2 = algo_B a ->
  concat chunks1 = concat chunks2 ->
  match a with AMD5 => True | _ => (8 * N.of_nat (length (concat chunks1)) < 2 ^ 64)%N end ->
  digest a junk1 chunks1 = digest a junk2 chunks2.
Proof. exact chunking_irrelevant. Qed.
Print Assumptions C14_chunking_irrelevant.

(** tlx::hexdump / hexdump_lc (tables regenerated from tlx/string/hexdump.cpp) are the usual notation *)
Theorem C14_hex_correct : forall bs, Forall (fun b => (b < 256)%N) bs ->
  hexdump Tables_C14_gen.hex_lc bs = hex_spec lc_digit bs /\ hexdump Tables_C14_gen.hex_uc bs = hex_spec uc_digit bs.
Proof. exact hex_correct. Qed.
Print Assumptions C14_hex_correct.

(** SipHash: the SSE2 implementation (lanes, shuffles, shift pairs from the source) computes the same function
    as the portable one, for every key and every message (any length, any content)... *)
Theorem C14_sip_sse2_eq_plain : forall key m,
  Forall (fun b => (b < 256)%N) key -> Forall (fun b => (b < 256)%N) m ->
  siphash_sse2 key m = siphash_plain key m.
Proof. exact sip_sse2_eq_plain. Qed.
Print Assumptions C14_sip_sse2_eq_plain.

(** ... and the portable one is SipHash-2-4 as defined in the paper. *)
Theorem C14_sip_plain_eq_spec : forall key m, siphash_plain key m = sip_spec key m.
Proof. exact sip_plain_eq_spec. Qed.
Print Assumptions C14_sip_plain_eq_spec.
