(** C10 -- ThreadPool runs each job exactly once; loop_until_empty means quiescence; no lost wake-up.
    Statements only; the model is C10/Pool.v (a labelled transition system whose events are exactly the
    tokens logged when the REAL tlx/thread_pool.cpp runs under the deterministic scheduler), the proofs
    are in C10/PoolSafety.v, PoolWait.v, PoolCands.v, PoolLive.v, PoolLive2.v, PoolLive3.v, PoolLive4.v;
    C10/PoolExamples.v shows that the hypotheses are satisfiable (complete run, return of loop_until_empty, rest state).

    [reachable_gen cfg fx sp s]: s is reachable from the initial state by ANY accepted event sequence,
    i.e. under any interleaving, for any scenario cfg (number of workers, job bodies that enqueue further
    jobs or terminate the pool, any number of client threads with arbitrary programs).
    fx = true: the repaired code (cv_finished_.notify_all(), fixes/C10/01), fx = false: the shipped code.
    sp = true: with spurious condition-variable wake-ups.
    Reachability also closes under EXTRA notifications (Pool.xstep): any thread that is alive and not blocked may at any time
    issue an additional notify_one / notify_all on either condition variable (destructor also notifying cv_finished_, a worker
    passing a wake-up on, ...); all theorems below hold for that larger set of behaviours. *)
From Coq Require Import List Arith.
From TLXV Require Import C10.Pool C10.PoolLemmas C10.PoolSafety C10.PoolWait C10.PoolCands C10.PoolLive C10.PoolLive2 C10.PoolLive3
  C10.PoolLive4 C10.PoolQueue C10.PoolTerm C10.PoolExamples.
Import ListNotations.

(** Safety (holds for both code variants, with spurious wake-ups): no enqueue instance ("ticket") is
    ever popped twice; only enqueued tickets are popped; a job body ends at most once and only after
    it was started. *)
Theorem C10_at_most_once : forall cfg fx sp s,
  reachable_gen cfg fx sp s ->
  NoDup (started (shr s)) /\ (forall tk, In tk (started (shr s)) -> tk < npushed (shr s)) /\
  (forall tk, In tk (ended (shr s)) -> In tk (started (shr s))) /\ NoDup (ended (shr s)).
Proof. exact at_most_once. Qed.
Print Assumptions C10_at_most_once.

(** What terminate() / the destructor promise about QUEUED jobs ("return once the RUNNING jobs finish"): once terminate_ is
    set, no further job is started -- the step that pops a job (the only step that changes [started]) happens only in states
    with terminate_ = false.  The backlog is dropped, never drained.  Both code variants, with spurious wake-ups. *)
Theorem C10_no_job_started_after_terminate : forall cfg fx sp s te s',
  reachable_gen cfg fx sp s -> lstep_gen cfg fx sp s te = Some s' -> started (shr s') <> started (shr s) -> term (shr s) = false.
Proof. exact no_job_started_after_terminate. Qed.
Print Assumptions C10_no_job_started_after_terminate.

(** Whenever loop_until_empty returns in some thread t (event [EUnlockR n]: unlock + return, the caller
    sees n finished job bodies): no job is queued or running (busy_ = 0, no thread inside a job body),
    every enqueue so far -- from outside or from within a job -- has been started exactly once and has
    ended, and n = done_ = number of enqueues.  Terminated or not. *)
Theorem C10_empty_means_quiescent : forall cfg fx sp s t n s',
  reachable_gen cfg fx sp s -> lstep_gen cfg fx sp s (t, EUnlockR n) = Some s' ->
  queue (shr s) = [] /\ busy (shr s) = 0 /\ (forall u, runl (get (thr s) u) = []) /\
  n = npushed (shr s) /\ done (shr s) = n /\ length (ended (shr s)) = n /\
  (forall tk, tk < npushed (shr s) -> In tk (ended (shr s)) /\ In tk (started (shr s))) /\
  NoDup (started (shr s)) /\ NoDup (ended (shr s)).
Proof. exact empty_means_quiescent. Qed.
Print Assumptions C10_empty_means_quiescent.

(** No lost wake-up, repaired code, semantics without spurious wake-ups: in a quiescent state (no thread
    has an enabled event) ... *)
(** ... no thread is blocked in loop_until_empty while jobs_.empty() && busy_ == 0; *)
Theorem C10_no_lost_wakeup_loop_until_empty : forall cfg s u,
  reachable cfg false s -> quiescent cfg true false s -> waits_le (get (thr s) u) = true -> le_pred (shr s) = false.
Proof. exact no_lost_wakeup_le. Qed.
Print Assumptions C10_no_lost_wakeup_loop_until_empty.

(** ... no thread is blocked in loop_until_terminate while terminate_ && busy_ == 0 (pool sizes >= 1); *)
Theorem C10_no_lost_wakeup_loop_until_terminate : forall cfg s u,
  1 <= nworkers cfg -> reachable cfg false s -> quiescent cfg true false s ->
  waits_lt (get (thr s) u) = true -> lt_pred (shr s) = false.
Proof. exact no_lost_wakeup_lt. Qed.
Print Assumptions C10_no_lost_wakeup_loop_until_terminate.

(** ... if no job body is blocked in a rendezvous ([JWait]: a job may block until another job's body has ended;
    [no_blocked_job] = "the running jobs finish"): no job is running, and as long as the pool is not terminated the
    queue is empty and NO thread is left in loop_until_empty: every waiter for emptiness returns (no deadlock); *)
Theorem C10_quiescent_unterminated : forall cfg s,
  1 <= nworkers cfg -> reachable cfg false s -> quiescent cfg true false s -> no_blocked_job s -> term (shr s) = false ->
  queue (shr s) = [] /\ busy (shr s) = 0 /\ forall u, waits_le (get (thr s) u) = false.
Proof. exact quiescent_unterminated. Qed.
Print Assumptions C10_quiescent_unterminated.

(** ... no worker is idle (blocked in cv_jobs_.wait) while the pool is terminated or a job is queued -- whatever the
    job bodies do, including bodies that block until another job has ended.  The queue part is the counting
    invariant of C10/PoolQueue.v: while a worker sleeps, #queued + #sleeping <= #workers in the loop + #threads
    between push and notify_one; it needs the notify_one on EVERY enqueue. *)
Theorem C10_no_queued_job_with_idle_worker : forall cfg s u,
  reachable cfg false s -> quiescent cfg true false s -> waits_job (get (thr s) u) = true -> term (shr s) = false ->
  queue (shr s) = [].
Proof. exact no_queued_job_with_idle_worker. Qed.
Print Assumptions C10_no_queued_job_with_idle_worker.

Theorem C10_no_stranded_idle_worker : forall cfg s u,
  reachable cfg false s -> quiescent cfg true false s -> waits_job (get (thr s) u) = true ->
  term (shr s) = false /\ queue (shr s) = [].
Proof. exact no_stranded_idle_worker. Qed.
Print Assumptions C10_no_stranded_idle_worker.

(** ... and the destructor is not blocked in a join once the running jobs finish (pool sizes >= 1). *)
Theorem C10_destructor_not_stuck : forall cfg s u,
  1 <= nworkers cfg -> reachable cfg false s -> quiescent cfg true false s -> no_blocked_job s -> in_dtor_join (get (thr s) u) = false.
Proof. exact destructor_not_stuck. Qed.
Print Assumptions C10_destructor_not_stuck.

(** The computable quiescence test the check evaluates on the rest states of the real code is sound. *)
Theorem C10_quiescentb_sound : forall cfg fx sp s, quiescentb cfg fx sp s = true -> quiescent cfg fx sp s.
Proof. exact quiescentb_sound. Qed.
Print Assumptions C10_quiescentb_sound.

(** The SHIPPED code (704fd0b: cv_finished_.notify_one()) violates the no-lost-wake-up statement: the
    trace [wit_trace], recorded from the real shipped code, is accepted by the model of the shipped code
    and ends in a quiescent state in which thread 2 sleeps in loop_until_empty although
    jobs_.empty() && busy_ == 0 and the pool is not terminated. *)
Theorem C10_notify_one_shipped_refuted :
  run_gen wit_cfg false false (init wit_cfg) wit_trace = Some wit_state /\
  quiescent wit_cfg false false wit_state /\
  waits_le (get (thr wit_state) 2) = true /\ le_pred (shr wit_state) = true /\
  In 2 (wsF (shr wit_state)) /\ done (shr wit_state) = 2 /\ term (shr wit_state) = false /\
  run_gen wit_cfg true false (init wit_cfg) wit_trace = None.
Proof. exact shipped_refuted. Qed.
Print Assumptions C10_notify_one_shipped_refuted.
