(** C15 — comparator networks: model of tlx/sort/networks/cswap.hpp (CS_IfSwap) applied along a
    comparator list, the zero-one principle for strict weak orders, and the executable 0/1 sweep. *)
From Coq Require Import List Bool Arith Lia Sorting.Sorted Sorting.Permutation.
From TLXV Require Import Common.Order.
Import ListNotations.

Definition network := list (nat * nat).

Fixpoint upd {A} (l : list A) (i : nat) (x : A) : list A :=
  match l with
  | [] => []
  | y :: r => match i with 0 => x :: r | S i' => y :: upd r i' x end
  end.

Section Apply.
  Context {A : Type}.
  Variable ltb : A -> A -> bool.

  (** CS_IfSwap::operator()(left, right): if (cmp(right, left)) swap(left, right).
      A comparator naming a position outside the array is undefined behaviour in C++; the model leaves
      the list unchanged and [wf] below rejects such networks, so no theorem relies on that totalisation. *)
  Definition cswap (l : list A) (c : nat * nat) : list A :=
    match nth_error l (fst c), nth_error l (snd c) with
    | Some a, Some b => if ltb b a then upd (upd l (fst c) b) (snd c) a else l
    | _, _ => l
    end.

  Definition apply (net : network) (l : list A) : list A := fold_left cswap net l.
End Apply.

Definition wf (n : nat) (net : network) : bool :=
  forallb (fun c => (fst c <? n) && (snd c <? n) && negb (fst c =? snd c)) net.

(** * Basic list facts *)
Lemma upd_length {A} (l : list A) i x : length (upd l i x) = length l.
Proof. revert i; induction l as [|y r IH]; intros [|i]; simpl; auto. Qed.

Lemma upd_map {A B} (f : A -> B) l i x : map f (upd l i x) = upd (map f l) i (f x).
Proof. revert i; induction l as [|y r IH]; intros [|i]; simpl; auto. now rewrite IH. Qed.

Lemma upd_same {A} (l : list A) i x : nth_error l i = Some x -> upd l i x = l.
Proof.
  revert i; induction l as [|y r IH]; intros [|i]; simpl; try discriminate.
  - now intros [= ->].
  - intros E. now rewrite IH.
Qed.

Lemma nth_error_upd_eq {A} (l : list A) i x : i < length l -> nth_error (upd l i x) i = Some x.
Proof. revert i; induction l as [|y r IH]; intros [|i]; simpl; intros; try lia; auto. apply IH; lia. Qed.

Lemma nth_error_upd_neq {A} (l : list A) i j x : i <> j -> nth_error (upd l i x) j = nth_error l j.
Proof.
  revert i j; induction l as [|y r IH]; intros [|i] [|j]; simpl; intros; auto; try congruence.
Qed.

Lemma upd_perm1 {A} (l : list A) j a b :
  nth_error l j = Some b -> Permutation (a :: l) (b :: upd l j a).
Proof.
  revert j; induction l as [|y r IH]; intros [|j]; simpl; try discriminate.
  - intros [= ->]. apply perm_swap.
  - intros E. eapply perm_trans; [apply perm_swap|].
    eapply perm_trans; [apply perm_skip, (IH _ E)|]. apply perm_swap.
Qed.

Lemma swap_perm {A} (l : list A) i j a b :
  i <> j -> nth_error l i = Some a -> nth_error l j = Some b ->
  Permutation l (upd (upd l i b) j a).
Proof.
  revert i j; induction l as [|x r IH]; intros [|i] [|j] Hne Hi Hj; simpl in *; try discriminate; try congruence.
  - injection Hi as ->. now apply upd_perm1.
  - injection Hj as ->. now apply upd_perm1.
  - apply perm_skip. apply IH; auto.
Qed.

(** * Every well-formed network permutes its input and keeps the length *)
Section Perm.
  Context {A : Type} (ltb : A -> A -> bool).

  Lemma cswap_length l c : length (cswap ltb l c) = length l.
  Proof.
    unfold cswap. destruct (nth_error l (fst c)), (nth_error l (snd c)); auto.
    destruct (ltb _ _); auto. now rewrite !upd_length.
  Qed.

  Lemma apply_length net l : length (apply ltb net l) = length l.
  Proof.
    revert l; induction net as [|c net IH]; intros l; simpl; auto.
    unfold apply in *. simpl. now rewrite IH, cswap_length.
  Qed.

  Lemma cswap_perm l c : fst c <> snd c -> Permutation l (cswap ltb l c).
  Proof.
    intros Hne. unfold cswap.
    destruct (nth_error l (fst c)) eqn:Ea, (nth_error l (snd c)) eqn:Eb; auto.
    destruct (ltb _ _); auto. now apply swap_perm.
  Qed.

  Lemma apply_perm n net l : wf n net = true -> Permutation l (apply ltb net l).
  Proof.
    revert l; induction net as [|c net IH]; intros l W; simpl; auto.
    simpl in W. apply andb_true_iff in W as [Wc W].
    apply andb_true_iff in Wc as [_ Wc]. apply negb_true_iff, Nat.eqb_neq in Wc.
    eapply perm_trans; [apply cswap_perm; exact Wc|]. now apply IH.
  Qed.
End Perm.

(** * Monotone maps commute with networks *)
Section Mono.
  Context {A : Type} (ltb : A -> A -> bool) (HS : SWO ltb).
  Variable f : A -> bool.
  (** a <= b  ->  f a <= f b *)
  Hypothesis mono : forall a b, ltb b a = false -> f a = true -> f b = true.

  Lemma cswap_map l c : map f (cswap ltb l c) = cswap bool_ltb (map f l) c.
  Proof.
    unfold cswap. rewrite !nth_error_map.
    destruct (nth_error l (fst c)) as [a|] eqn:Ea, (nth_error l (snd c)) as [b|] eqn:Eb; simpl; auto.
    destruct (Nat.eq_dec (fst c) (snd c)) as [E|NE].
    { (* a comparator of a position with itself never swaps *)
      rewrite E in Ea. rewrite Ea in Eb. injection Eb as <-.
      rewrite (swo_irrefl _ HS). unfold bool_ltb. now destruct (f a). }
    assert (Sa : nth_error (map f l) (fst c) = Some (f a)) by (now rewrite nth_error_map, Ea).
    assert (Sb : nth_error (map f l) (snd c) = Some (f b)) by (now rewrite nth_error_map, Eb).
    destruct (ltb b a) eqn:Hba.
    - rewrite !upd_map. unfold bool_ltb.
      destruct (f b) eqn:Fb, (f a) eqn:Fa; simpl; auto.
      + rewrite (upd_same (map f l)) by exact Sa. now rewrite upd_same.
      + (* f b = true, f a = false contradicts monotonicity: b < a *)
        pose proof (swo_asym _ HS _ _ Hba) as Hab. pose proof (mono b a Hab Fb). congruence.
      + rewrite (upd_same (map f l)) by exact Sa. now rewrite upd_same.
    - unfold bool_ltb. destruct (f b) eqn:Fb, (f a) eqn:Fa; simpl; auto.
      pose proof (mono a b Hba Fa). congruence.
  Qed.

  Lemma apply_map net l : map f (apply ltb net l) = apply bool_ltb net (map f l).
  Proof.
    revert l; induction net as [|c net IH]; intros l; simpl; auto.
    unfold apply in *; simpl. now rewrite IH, cswap_map.
  Qed.
End Mono.

(** * Zero-one principle *)
Lemma sortedb_false_split {A} (ltb : A -> A -> bool) l :
  sortedb ltb l = false -> exists l1 x y l2, l = l1 ++ x :: y :: l2 /\ ltb y x = true.
Proof.
  induction l as [|x r IH]; [discriminate|].
  destruct r as [|y r']; [discriminate|].
  change (sortedb ltb (x :: y :: r')) with (negb (ltb y x) && sortedb ltb (y :: r')).
  destruct (ltb y x) eqn:E; simpl.
  - intros _. exists [], x, y, r'. auto.
  - intros F. destruct (IH F) as (l1 & a & b & l2 & -> & Hab).
    exists (x :: l1), a, b, l2. auto.
Qed.

Lemma sortedb_app_mid {A} (ltb : A -> A -> bool) l1 x y l2 :
  sortedb ltb (l1 ++ x :: y :: l2) = true -> ltb y x = false.
Proof.
  induction l1 as [|z l1 IH].
  - simpl. destruct (ltb y x); simpl; auto; discriminate.
  - intros S. apply IH. simpl app in S.
    destruct (l1 ++ x :: y :: l2) eqn:E; [destruct l1; discriminate|].
    change (negb (ltb a z) && sortedb ltb (a :: l) = true) in S.
    now apply andb_true_iff in S as [_ S].
Qed.

Theorem zero_one_principle n net :
  wf n net = true ->
  (forall bl : list bool, length bl = n -> sortedb bool_ltb (apply bool_ltb net bl) = true) ->
  forall (A : Type) (ltb : A -> A -> bool), SWO ltb ->
  forall l : list A, length l = n ->
    Sorted (sorted_rel ltb) (apply ltb net l) /\ Permutation l (apply ltb net l).
Proof.
  intros W H01 A ltb HS l Hl. split; [|eapply apply_perm; eauto].
  apply sortedb_Sorted. destruct (sortedb ltb (apply ltb net l)) eqn:E; [reflexivity|exfalso].
  destruct (sortedb_false_split _ _ E) as (l1 & x & y & l2 & Eo & Hyx).
  set (f := fun z => negb (ltb z x)).
  assert (mono : forall a b, ltb b a = false -> f a = true -> f b = true).
  { unfold f. intros a b Hba Fa. apply negb_true_iff in Fa. apply negb_true_iff.
    destruct (ltb b x) eqn:Hbx; [|reflexivity].
    destruct (swo_negtrans _ HS _ _ a Hbx); congruence. }
  pose proof (apply_map ltb HS f mono net l) as M.
  specialize (H01 (map f l)). rewrite map_length in H01. specialize (H01 Hl).
  rewrite <- M, Eo, map_app in H01. simpl in H01.
  apply sortedb_app_mid in H01. unfold f, bool_ltb in H01.
  rewrite Hyx, (swo_irrefl _ HS) in H01. simpl in H01. discriminate.
Qed.

(** * The finite sweep *)
Fixpoint all_inputs (n : nat) : list (list bool) :=
  match n with
  | 0 => [[]]
  | S n' => map (cons false) (all_inputs n') ++ map (cons true) (all_inputs n')
  end.

Lemma all_inputs_complete n : forall bl : list bool, length bl = n -> In bl (all_inputs n).
Proof.
  induction n as [|n IH]; intros [|b bl] Hl; simpl in *; try discriminate; auto.
  injection Hl as Hl. apply in_or_app. destruct b; [right|left]; apply in_map; auto.
Qed.

Definition sweep01 (n : nat) (net : network) : bool :=
  forallb (fun bl => sortedb bool_ltb (apply bool_ltb net bl)) (all_inputs n).

Definition check01 (n : nat) (net : network) : bool := wf n net && sweep01 n net.

(** What C15 asserts of one network of size [n]. *)
Definition sorts_all (n : nat) (net : network) : Prop :=
  forall (A : Type) (ltb : A -> A -> bool), SWO ltb ->
  forall l : list A, length l = n ->
    Sorted (sorted_rel ltb) (apply ltb net l) /\ Permutation l (apply ltb net l).

Theorem check01_sound n net : check01 n net = true -> sorts_all n net.
Proof.
  unfold check01, sweep01. intros C. apply andb_true_iff in C as [W S].
  unfold sorts_all. apply (zero_one_principle n net W).
  intros bl Hl. rewrite forallb_forall in S. apply S, all_inputs_complete, Hl.
Qed.

(** Conversely a failing sweep is a genuine counterexample (the 0/1 order is a strict weak order). *)
Theorem sweep01_complete n net : sorts_all n net -> sweep01 n net = true.
Proof.
  intros H. unfold sweep01. apply forallb_forall. intros bl Hin.
  assert (length bl = n) as Hl.
  { clear -Hin. revert bl Hin. induction n as [|n IH]; simpl; intros bl Hin.
    - destruct Hin as [<-|[]]; reflexivity.
    - apply in_app_or in Hin as [Hin|Hin]; apply in_map_iff in Hin as (x & <- & Hx); simpl; f_equal; auto. }
  apply sortedb_Sorted. apply (H bool bool_ltb SWO_bool bl Hl).
Qed.

(** Tables: (n, network) entries, all must pass. *)
Definition table_ok (t : list (nat * network)) : bool :=
  forallb (fun e => check01 (fst e) (snd e)) t.

Lemma table_ok_sound t : table_ok t = true -> forall n net, In (n, net) t -> sorts_all n net.
Proof.
  unfold table_ok. rewrite forallb_forall. intros H n net Hin.
  apply check01_sound. apply (H _ Hin).
Qed.

Definition sizes (t : list (nat * network)) : list nat := map fst t.

Fixpoint net_eqb (a b : network) : bool :=
  match a, b with
  | [], [] => true
  | (i, j) :: a', (k, l) :: b' => (i =? k) && (j =? l) && net_eqb a' b'
  | _, _ => false
  end.

Lemma net_eqb_eq a b : net_eqb a b = true -> a = b.
Proof.
  revert b; induction a as [|[i j] a IH]; intros [|[k l] b]; simpl; try discriminate; auto.
  rewrite !andb_true_iff, !Nat.eqb_eq. intros [[-> ->] E]. f_equal. auto.
Qed.
