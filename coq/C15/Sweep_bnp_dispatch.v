(** C15: exhaustive zero-one sweep of the generated table [bnp_dispatch] (every n, all 2^n inputs). *)
From TLXV Require Import C15.Network gen.Networks_gen.
Lemma bnp_dispatch_ok : table_ok bnp_dispatch = true.
Proof. vm_compute. reflexivity. Qed.
