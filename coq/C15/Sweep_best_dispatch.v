(** C15: exhaustive zero-one sweep of the generated table [best_dispatch] (every n, all 2^n inputs). *)
From TLXV Require Import C15.Network gen.Networks_gen.
Lemma best_dispatch_ok : table_ok best_dispatch = true.
Proof. vm_compute. reflexivity. Qed.
