(** C15: assembling the per-table sweeps into the statements of Properties_C15.v. *)
From Coq Require Import List Sorting.Sorted Sorting.Permutation.
From TLXV Require Import Common.Order C15.Network gen.Networks_gen.
From TLXV Require C15.Sweep_best_direct C15.Sweep_best_dispatch C15.Sweep_bn_direct C15.Sweep_bn_dispatch
  C15.Sweep_bnp_direct C15.Sweep_bnp_dispatch.
Import ListNotations.

Lemma tables_cover_all_sizes :
  sizes best_direct = seq 2 15 /\ sizes bn_direct = seq 2 15 /\ sizes bnp_direct = seq 2 15 /\
  sizes best_dispatch = seq 0 17 /\ sizes bn_dispatch = seq 0 17 /\ sizes bnp_dispatch = seq 0 17.
Proof. repeat split; vm_compute; reflexivity. Qed.

Lemma networks_sort :
  forall t, In t [best_direct; bn_direct; bnp_direct; best_dispatch; bn_dispatch; bnp_dispatch] ->
  forall n net, In (n, net) t ->
  forall (A : Type) (ltb : A -> A -> bool), SWO ltb ->
  forall l : list A, length l = n ->
    Sorted (sorted_rel ltb) (apply ltb net l) /\ Permutation l (apply ltb net l).
Proof.
  intros t Ht n net Hin.
  assert (table_ok t = true) as Hok.
  { simpl in Ht. destruct Ht as [<-|[<-|[<-|[<-|[<-|[<-|[]]]]]]].
    - exact Sweep_best_direct.best_direct_ok.
    - exact Sweep_bn_direct.bn_direct_ok.
    - exact Sweep_bnp_direct.bnp_direct_ok.
    - exact Sweep_best_dispatch.best_dispatch_ok.
    - exact Sweep_bn_dispatch.bn_dispatch_ok.
    - exact Sweep_bnp_dispatch.bnp_dispatch_ok. }
  exact (table_ok_sound t Hok n net Hin).
Qed.
