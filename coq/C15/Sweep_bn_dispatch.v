(** C15: exhaustive zero-one sweep of the generated table [bn_dispatch] (every n, all 2^n inputs). *)
From TLXV Require Import C15.Network gen.Networks_gen.
Lemma bn_dispatch_ok : table_ok bn_dispatch = true.
Proof. vm_compute. reflexivity. Qed.
