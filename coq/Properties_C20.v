(** C20 -- integer math helpers equal their mathematical definition; combining Aggregates equals feeding all values.
    Statements only; proofs live in C20/MathProofs*.v, C20/MathSweeps*.v, C20/AggProofs.v, C20/Final.v.
    Model: C20/Math.v (values in Z, a type = (width, signedness), explicit wrap / promotion), C20/Agg.v (exact Q). *)
From Coq Require Import ZArith QArith List.
From TLXV Require Import C20.Math C20.MathSpec C20.MathProofs C20.MathProofs4 C20.MathProofs5 C20.Agg C20.AggProofs C20.Final C20.MathProofs6.
Import ListNotations.
Open Scope Z_scope.

(** clz / ctz / ffs: for every value of u8, i8, ..., u64, i64 the generic loop templates terminate and return the
    number of leading / trailing zero bits (resp. 1 + index of the lowest set bit) of the w-bit pattern, and so do the
    intrinsic-backed overloads (intrinsics modelled by their specification). *)
Theorem C20_clz_ctz_ffs : forall t x, supported t -> inrange t x = true ->
  let w := width t in let p := pattern t x in
  clz_template t x = Some (clz_spec w p) /\ clz_intrinsic t x = clz_spec w p /\
  ctz_template t x = Some (ctz_spec w p) /\ ctz_intrinsic t x = ctz_spec w p /\
  ffs_template t x = Some (ffs_spec p) /\ ffs_intrinsic t x = ffs_spec p.
Proof. exact clz_ctz_ffs_final. Qed.
Print Assumptions C20_clz_ctz_ffs.

(** ... where clz_spec / ctz_spec / ffs_spec are the mathematical definitions: *)
Theorem C20_clz_ctz_spec_meaning : forall w p, 0 < w -> 0 <= p < 2 ^ w ->
  (let c := clz_spec w p in 0 <= c <= w /\ p < 2 ^ (w - c) /\ (c < w -> 2 ^ (w - c - 1) <= p)) /\
  (p = 0 -> ctz_spec w p = w /\ ffs_spec p = 0) /\
  (0 < p -> let c := ctz_spec w p in
            0 <= c /\ (2 ^ c | p) /\ ~ (2 ^ (c + 1) | p) /\ ffs_spec p = c + 1).
Proof. exact clz_ctz_spec_meaning_final. Qed.
Print Assumptions C20_clz_ctz_spec_meaning.

(** integer_log2_floor (template and intrinsic overload) and integer_log2_ceil, for every non-negative value. *)
Theorem C20_integer_log2 : forall t x, supported t -> inrange t x = true -> 0 <= x ->
  integer_log2_floor_template t x = Some (Z.log2 x) /\
  integer_log2_floor_intrinsic t x = Z.log2 x /\
  integer_log2_ceil t x = Z.log2_up x /\
  integer_log2_ceil_fallback t x = Some (Z.log2_up x) /\
  (0 < x -> 2 ^ Z.log2 x <= x < 2 ^ (Z.log2 x + 1)) /\
  (1 < x -> 2 ^ (Z.log2_up x - 1) < x <= 2 ^ Z.log2_up x).
Proof. exact integer_log2_final. Qed.
Print Assumptions C20_integer_log2.

Theorem C20_is_power_of_two : forall t x, supported t -> inrange t x = true ->
  (is_power_of_two_template t x = true <-> exists k, 0 <= k /\ x = 2 ^ k).
Proof. exact is_power_of_two_final. Qed.
Print Assumptions C20_is_power_of_two.

(** round_up_to_power_of_two whenever the next power of two is representable; round_down_to_power_of_two (repaired
    code, fixes/C20/01) on the whole non-negative range -- in particular on its upper half. *)
Theorem C20_round_to_power_of_two : forall t x, supported t -> inrange t x = true ->
  (1 <= x -> 2 ^ Z.log2_up x <= tmax t ->
     round_up_to_power_of_two_template t x = Some (2 ^ Z.log2_up x)) /\
  (0 <= x -> round_down_to_power_of_two_template t x = Some (if x =? 0 then 0 else 2 ^ Z.log2 x)).
Proof. exact round_to_power_of_two_final. Qed.
Print Assumptions C20_round_to_power_of_two.

(** rol / ror 32 and 64: the portable expression equals the rotate instruction's specification for every word and
    every int count (negative and >= w included), and that specification moves bit j to (j +- s) mod w. *)
Theorem C20_rol_ror : forall t x i, t = u32 \/ t = u64 -> 0 <= x < 2 ^ width t ->
  let w := width t in let s := i mod w in
  rol_generic t x i = rol_spec w x s /\ rol_intrinsic t x i = rol_spec w x s /\
  ror_generic t x i = ror_spec w x s /\ ror_intrinsic t x i = ror_spec w x s /\
  (forall j, 0 <= j < w -> Z.testbit (rol_spec w x s) ((j + s) mod w) = Z.testbit x j) /\
  (forall j, 0 <= j < w -> Z.testbit (ror_spec w x s) ((j - s) mod w) = Z.testbit x j).
Proof. exact rol_ror_final. Qed.
Print Assumptions C20_rol_ror.

(** div_ceil and round_up (repaired code, fixes/C20/02, 03): ceiling quotient for every n of the type -- negative n of
    the signed instantiations included, although the header documents positive operands only -- and every k > 0
    (k = 0 divides by zero, k < 0 is excluded by the documented precondition); no overflow near the top of the range;
    round_up whenever the rounded value is representable in the result type.  ceil_quot n k = n quot k + [n rem k > 0]. *)
Theorem C20_div_ceil_round_up : forall t n k, supported t ->
  inrange t n = true -> inrange t k = true -> 0 < k ->
  n <= div_ceil t n k * k < n + k /\
  (inrange (prom t) (ceil_quot n k * k) = true ->
     n <= round_up t n k < n + k /\ (k | round_up t n k)).
Proof. exact div_ceil_round_up_any_sign_final. Qed.
Print Assumptions C20_div_ceil_round_up.

Theorem C20_abs_diff_sgn : forall t a b, supported t ->
  (inrange t (Z.abs (a - b)) = true -> abs_diff t a b = Z.abs (a - b)) /\ sgn a = Z.sgn a.
Proof. exact abs_diff_sgn_final. Qed.
Print Assumptions C20_abs_diff_sgn.

(** bswap16/32/64_generic and the byte-list definition that specifies the intrinsics reverse the bytes of every word
    (16 bit: exhaustive sweep; 32/64 bit: OR-linearity of the expression + a sweep of each byte position). *)
Theorem C20_bswap :
  (forall x, inrange u16 x = true -> bswap16_generic x = bswap_spec 2 x) /\
  (forall b0 b1 b2 b3, byte b0 -> byte b1 -> byte b2 -> byte b3 ->
     let x := b0 + b1 * 2 ^ 8 + b2 * 2 ^ 16 + b3 * 2 ^ 24 in
     let r := b3 + b2 * 2 ^ 8 + b1 * 2 ^ 16 + b0 * 2 ^ 24 in
     bswap32_generic x = r /\ bswap_spec 4 x = r) /\
  (forall x, 0 <= x < 2 ^ 32 ->
     exists b0 b1 b2 b3, byte b0 /\ byte b1 /\ byte b2 /\ byte b3 /\ x = b0 + b1 * 2 ^ 8 + b2 * 2 ^ 16 + b3 * 2 ^ 24) /\
  (forall b0 b1 b2 b3 b4 b5 b6 b7,
     byte b0 -> byte b1 -> byte b2 -> byte b3 -> byte b4 -> byte b5 -> byte b6 -> byte b7 ->
     let x := b0 + b1 * 2 ^ 8 + b2 * 2 ^ 16 + b3 * 2 ^ 24 + b4 * 2 ^ 32 + b5 * 2 ^ 40 + b6 * 2 ^ 48 + b7 * 2 ^ 56 in
     let r := b7 + b6 * 2 ^ 8 + b5 * 2 ^ 16 + b4 * 2 ^ 24 + b3 * 2 ^ 32 + b2 * 2 ^ 40 + b1 * 2 ^ 48 + b0 * 2 ^ 56 in
     bswap64_generic x = r /\ bswap_spec 8 x = r).
Proof. exact bswap_final. Qed.
Print Assumptions C20_bswap.

(** popcount: the SWAR fall-backs popcount_generic8/16/32/64 return the number of one bits of every value of their
    width (8/16 bit: exhaustive sweep; 32/64 bit: every stage acts byte-wise on the base-256 digits -- shift-and-mask
    never mixes bytes, the additions never carry across a byte -- a sweep over the 256 values of one byte shows that
    after three stages each byte holds its own popcount, and the final multiplication adds the bytes in the top byte);
    the intrinsic overloads are specified by the same count, which is the number of set bits. *)
Theorem C20_popcount :
  (forall x, inrange u8 x = true -> popcount_generic8 x = popcount_spec x) /\
  (forall x, inrange u16 x = true -> popcount_generic16 x = popcount_spec x) /\
  (forall x, 0 <= x < 2 ^ 32 -> popcount_generic32 x = popcount_spec x) /\
  (forall x, 0 <= x < 2 ^ 64 -> popcount_generic64 x = popcount_spec x) /\
  (forall t x, popcount_intrinsic t x = popcount_spec (pattern t x)) /\
  (forall p n, (Pos.size_nat p <= n)%nat -> popcount_spec (Zpos p) = count_bits n (Zpos p)).
Proof. exact popcount_final. Qed.
Print Assumptions C20_popcount.

(** div_ceil / round_up called with operands of two different integer types (result type decltype(n + k): usual
    arithmetic conversions, e.g. signed n with unsigned k): same statements, for all n >= 0, k > 0 of their types. *)
Theorem C20_div_ceil_round_up_mixed : forall tn tk n k, supported tn -> supported tk ->
  inrange tn n = true -> inrange tk k = true -> 0 <= n -> 0 < k ->
  let R := common_type tn tk in
  n <= div_ceil_mixed tn tk n k * k < n + k /\
  (inrange R (ceil_div n k * k) = true ->
     n <= round_up_mixed tn tk n k < n + k /\ (k | round_up_mixed tn tk n k)).
Proof. exact div_ceil_round_up_mixed_correct. Qed.
Print Assumptions C20_div_ceil_round_up_mixed.

(** popcount(const void* data, size_t size) (8-byte words, at most one 4-byte word, single bytes; repaired loads,
    fixes/C20/06) returns the number of one bits of the byte range, for every length. *)
Theorem C20_popcount_range : forall l, Forall byte l ->
  popcount_range l = Some (bitsum l) /\ bitsum l = popcount_spec (of_bytes l).
Proof. exact popcount_range_correct. Qed.
Print Assumptions C20_popcount_range.

(** Aggregate (exact arithmetic): after ANY history of add / operator+ / operator+= / reset / construction from
    serialised fields over any number of Aggregate variables, every variable has the same count, mean, nvar (hence
    variance), min and max as one Aggregate fed with all the values it stands for -- empty operands included, counts of
    any size (the product of the counts is taken in Q, as the repaired code multiplies them as doubles; the sum of the
    counts is assumed not to wrap, i.e. fewer than 2^64 values).  [op_ok]: an Aggregate built by the initializing
    constructor [OConst i c v] stands for c >= 1 copies of a value v within the limits [lo, hi] of the element type. *)
Theorem C20_aggregate_combine_eq_feed_all : forall (hi lo : Q) n ops i, Forall (op_ok hi lo) ops ->
  agg_eq (nth i (run hi lo n ops) (empty hi lo)) (feed (nth i (ghost n ops) []) (empty hi lo)).
Proof. exact combine_eq_feed_all. Qed.
Print Assumptions C20_aggregate_combine_eq_feed_all.

Theorem C20_aggregate_plus : forall (hi lo : Q) xs ys,
  agg_eq (plus (feed xs (empty hi lo)) (feed ys (empty hi lo))) (feed (xs ++ ys) (empty hi lo)) /\
  agg_eq (plus_assign (feed xs (empty hi lo)) (feed ys (empty hi lo))) (feed (xs ++ ys) (empty hi lo)).
Proof. intros hi lo xs ys. exact (conj (plus_eq_concat hi lo xs ys) (plus_assign_eq_concat hi lo xs ys)). Qed.
Print Assumptions C20_aggregate_plus.

(** ... and a fed Aggregate holds the textbook quantities *)
Theorem C20_aggregate_feed_meaning : forall (hi lo : Q) l, l <> [] ->
  let a := feed l (empty hi lo) in
  count a = len l /\ (mean a == sumQ l / qn (len l))%Q /\ (nvar a == sqdev (mean a) l)%Q.
Proof. exact feed_meaning. Qed.
Print Assumptions C20_aggregate_feed_meaning.

(** The shipped (704fd0b) code violates the same statements: concrete witnesses. *)
Theorem C20_round_down_shipped_refuted :
  round_down_to_power_of_two_shipped u32 2147483649 = Some 0 /\
  round_down_to_power_of_two_template u32 2147483649 = Some 2147483648 /\
  round_down_to_power_of_two_shipped u64 (2 ^ 63) = Some 0 /\
  round_down_to_power_of_two_template u64 (2 ^ 63) = Some (2 ^ 63).
Proof. exact round_down_shipped_refuted. Qed.
Print Assumptions C20_round_down_shipped_refuted.

Theorem C20_div_ceil_round_up_shipped_refuted :
  (div_ceil_shipped u32 4294967295 2 = 0 /\ div_ceil u32 4294967295 2 = 2147483648) /\
  (round_up_shipped u32 4294967294 3 = 0 /\ round_up u32 4294967294 3 = 4294967295).
Proof. exact (conj div_ceil_shipped_refuted round_up_shipped_refuted). Qed.
Print Assumptions C20_div_ceil_round_up_shipped_refuted.

Local Open Scope Q_scope.
Theorem C20_aggregate_shipped_refuted :
  (let e := empty 1000 (-1000) in
   let a := feed [1; 2; 3] e in let b := feed [10; 20] e in
   ~ nvar (plus_assign_shipped a b) == nvar (feed [1; 2; 3; 10; 20] e) /\
   nvar (plus_assign a b) == nvar (feed [1; 2; 3; 10; 20] e)) /\
  (let e := empty 1000 (-1000) in
   combine_variance_shipped e e = None /\ combine_variance e e == 0) /\
  (let a := mkAgg (2 ^ 32) 0 0 0 0 in let b := mkAgg (2 ^ 32) 1 0 1 1 in
   combine_variance_wrapping a b == 0 /\ combine_variance a b == (2 ^ 31)%Z # 1).
Proof. exact (conj plus_assign_shipped_refuted (conj combine_variance_shipped_refuted combine_variance_wrapping_refuted)). Qed.
Print Assumptions C20_aggregate_shipped_refuted.
