(** C03 — sort_strings yields a sorted permutation and exact LCP values.
    Statements only; proofs live in C03/{SpecProofs,Sorters,Radix8,Dispatch}.v.  The model (C03/Model.v) is tied to
    /repo on every run by translate/sizes_c03.py (sizeof / threshold constants) and by the correspondence run of
    checks/C03.py (extracted model vs. the real sorters; extracted checker on the real output).

    FULL STATEMENT aimed at (not yet closed as a whole):
      forall sz wl fuel mem l lcp out lcp', all_nulfree l -> length lcp = length l ->
        sort_strings sz wl fuel mem l lcp = Some (out, lcp') ->
        SortedPerm l out /\ (wl = true -> LcpExact out lcp')
    and the same for radixsort_CE0/CE2/CE3/CI2/CI3, multikey_quicksort and insertion_sort at every depth with a common
    prefix.  What is proved: the specification side completely (uniqueness, checker),
    the 8-bit radix steps and loops with their LCP-at-bucket-boundary pass for every depth / stack level / memory
    value, both insertion sorts (with the lcp array threaded through the LCP variant), and the whole dispatch chain
    over every memory value -- relative to three named statements about single loops of the model that are still
    open (C03_sort_strings_partial lists them as premises):
      MkqsOK             multikey quicksort (Bentley-Sedgewick partition loop + LCP writes)
      InPlaceOK          the cycle-leader permutation of RadixStep_CI2 groups the array by character
      Radix16OK          the 16-bit steps RadixStep_CE3 / CI3 (same argument as Radix8 with two levels of buckets)
    Each of these is exercised by the correspondence run on every check (model = implementation on object order). *)
From Coq Require Import List NArith Sorting.Permutation Sorting.Sorted.
From TLXV Require Import C03.Model C03.Spec C03.SpecProofs C03.Lemmas C03.Sorters C03.LcpInsertion C03.Radix8 C03.Dispatch.
Import ListNotations.

(** Any two outputs satisfying SortedPermLcp for the same input have the same contents at every position and the
    same lcp[i] for every i >= 1. *)
Theorem C03_spec_unique : forall inp out1 lcp1 out2 lcp2,
  SortedPermLcp inp out1 lcp1 -> SortedPermLcp inp out2 lcp2 ->
  map snd out1 = map snd out2 /\ length lcp1 = length lcp2 /\ forall i, 1 <= i -> nth i lcp1 0 = nth i lcp2 0.
Proof. exact spec_unique. Qed.
Print Assumptions C03_spec_unique.

(** The extracted checker that judges the implementation's output decides the property exactly. *)
Theorem C03_checker_sound_complete : forall inp out lcp,
  (check_spl inp out lcp = true <-> SortedPermLcp inp out lcp) /\ (check_sp inp out = true <-> SortedPerm inp out).
Proof. exact (fun inp out lcp => conj (check_spl_iff inp out lcp) (check_sp_iff inp out)). Qed.
Print Assumptions C03_checker_sound_complete.

(** insertion_sort (no LCP) at every depth: strings sharing their first [length p] bytes come out as a sorted
    permutation. *)
Theorem C03_insertion_sort : forall p l, Pre p l ->
  Permutation l (insertion_sort (length p) l) /\ StronglySorted item_le (insertion_sort (length p) l).
Proof. exact insertion_sort_ok. Qed.
Print Assumptions C03_insertion_sort.

(** One 8-bit radix step (out of place CE0/CE2, in place CI2) and the loop processing its buckets, for every fuel,
    depth, stack level, step size and memory value: sorted permutation, lcp[0] untouched, lcp[i] exact (i >= 1) --
    given that the sorters it hands small / memory-starved buckets to are correct. *)
Theorem C03_radix8_partial : forall sz wl,
  MkqsOK sz wl -> InPlaceOK ->
  forall fuel ip szstep mem s, SorterOK wl (fun d => r8_step sz wl fuel ip szstep mem s d).
Proof. exact (fun sz wl => r8_step_ok sz wl (insertion_ok wl)). Qed.
Print Assumptions C03_radix8_partial.

(** The dispatch chain for every memory limit (the limit only selects the algorithm). *)
Theorem C03_sort_strings_partial : forall sz wl,
  MkqsOK sz wl -> InPlaceOK -> Radix16OK sz wl ->
  forall fuel mem l lcp out lcp',
    all_nulfree l -> length lcp = length l ->
    sort_strings sz wl fuel mem l lcp = Some (out, lcp') ->
    SortedPerm l out /\ (wl = true -> LcpExact out lcp') /\ (wl = false -> lcp' = lcp).
Proof. exact sort_strings_ok. Qed.
Print Assumptions C03_sort_strings_partial.

(** ... and for each selectable detail sorter of the chain, at every depth. *)
Theorem C03_detail_sorters_partial : forall sz wl,
  MkqsOK sz wl -> InPlaceOK -> Radix16OK sz wl ->
  forall fuel mem,
    SorterOK wl (fun d => radixsort_CE0 sz wl fuel mem d) /\ SorterOK wl (fun d => radixsort_CE2 sz wl fuel mem d) /\
    SorterOK wl (fun d => radixsort_CE3 sz wl fuel mem d) /\ SorterOK wl (fun d => radixsort_CI2 sz wl fuel mem d) /\
    SorterOK wl (fun d => radixsort_CI3 sz wl fuel mem d).
Proof.
  exact (fun sz wl b c d fuel mem =>
    conj (radixsort_CE0_ok sz wl b c fuel mem) (conj (radixsort_CE2_ok sz wl b c d fuel mem)
    (conj (radixsort_CE3_ok sz wl b c d fuel mem) (conj (radixsort_CI2_ok sz wl b c fuel mem)
          (radixsort_CI3_ok sz wl b c d fuel mem))))).
Qed.
Print Assumptions C03_detail_sorters_partial.

(** insertion_sort, both variants (without LCP; with the lcp array read and written as the code does), at every
    depth: sorted permutation, lcp[0] untouched, lcp[i] exact for i >= 1. *)
Theorem C03_insertion_sorts : forall wl p l lcp out lcp',
  Pre p l -> all_nulfree l -> length lcp = length l ->
  insertion wl (length p) l lcp = (out, lcp') -> OutOK wl l lcp out lcp'.
Proof. exact (fun wl p l lcp out lcp' HP HN HL H => insertion_ok wl p l lcp out lcp' HP HN HL (f_equal Some H)). Qed.
Print Assumptions C03_insertion_sorts.

(** The LCP boundary loop as shipped (704fd0b) reads bkt_size[256] when every string ends at the current depth
    (40 empty strings); the repaired loop (fixes/C03/01) yields exactly their LCPs. *)
Theorem C03_boundary_loop_shipped_refuted :
  exists (bs : list nat) (lcp : list nat),
    length bs = 256 /\ length lcp = list_sum bs /\
    (forall g, fst (lcp_step8_shipped 0 bs g lcp) = true) /\
    lcp_step8 0 bs lcp = 777 :: repeat 0 39.
Proof. exact bnd_loop_shipped_refuted. Qed.
Print Assumptions C03_boundary_loop_shipped_refuted.
