(** C03 — sort_strings yields a sorted permutation and exact LCP values.
    Statements only; proofs live in C03/{SpecProofs,Sorters,LcpInsertion,Radix8,Mkqs,Radix16,Dispatch}.v.  The model
    (C03/Model.v) is tied to /repo on every run by translate/sizes_c03.py (sizeof / threshold constants) and by the
    correspondence run of checks/C03.py (extracted model vs. the real sorters; extracted checker on the real output).

    Proved without any assumption: the specification side (uniqueness, checker); both insertion sorts; multikey
    quicksort (Bentley-Sedgewick partition, block swaps, recursion, LCP writes); the out-of-place 8-bit and 16-bit
    radix steps with their LCP-at-bucket-boundary passes and bucket loops for every depth / stack level / memory
    value; radixsort_CE0; and tlx::sort_strings / sort_strings_lcp with the default memory argument 0 ("no limit").

    FULL STATEMENT still aimed at: C03_sort_strings_partial / C03_detail_sorters_partial / C03_radix_in_place_partial
    without their two premises
      InPlaceOK     the cycle-leader permutation of RadixStep_CI2 groups the array by character
      InPlace16OK   the same loop in RadixStep_CI3 groups the array by character pair
    (one loop of the model, [ci_permute]; it is only reachable with a non-zero memory limit that rules out the
    out-of-place variants).  The correspondence run exercises it on every check (model = implementation on object
    order). *)
From Coq Require Import List NArith Sorting.Permutation Sorting.Sorted.
From TLXV Require Import C03.Model C03.Spec C03.SpecProofs C03.Lemmas C03.Sorters C03.LcpInsertion C03.Radix8 C03.Mkqs C03.Radix16 C03.Dispatch.
Import ListNotations.

(** Any two outputs satisfying SortedPermLcp for the same input have the same contents at every position and the
    same lcp[i] for every i >= 1. *)
Theorem C03_spec_unique : forall inp out1 lcp1 out2 lcp2,
  SortedPermLcp inp out1 lcp1 -> SortedPermLcp inp out2 lcp2 ->
  map snd out1 = map snd out2 /\ length lcp1 = length lcp2 /\ forall i, 1 <= i -> nth i lcp1 0 = nth i lcp2 0.
Proof. exact spec_unique. Qed.
Print Assumptions C03_spec_unique.

(** The extracted checker that judges the implementation's output decides the property exactly. *)
Theorem C03_checker_sound_complete : forall inp out lcp,
  (check_spl inp out lcp = true <-> SortedPermLcp inp out lcp) /\ (check_sp inp out = true <-> SortedPerm inp out).
Proof. exact (fun inp out lcp => conj (check_spl_iff inp out lcp) (check_sp_iff inp out)). Qed.
Print Assumptions C03_checker_sound_complete.

(** insertion_sort (no LCP) at every depth: strings sharing their first [length p] bytes come out as a sorted
    permutation. *)
Theorem C03_insertion_sort : forall p l, Pre p l ->
  Permutation l (insertion_sort (length p) l) /\ StronglySorted item_le (insertion_sort (length p) l).
Proof. exact insertion_sort_ok. Qed.
Print Assumptions C03_insertion_sort.

(** insertion_sort, both variants (without LCP; with the lcp array read and written as the code does), at every
    depth: sorted permutation, lcp[0] untouched, lcp[i] exact for i >= 1. *)
Theorem C03_insertion_sorts : forall wl p l lcp out lcp',
  Pre p l -> all_nulfree l -> length lcp = length l ->
  insertion wl (length p) l lcp = (out, lcp') -> OutOK wl l lcp out lcp'.
Proof. exact (fun wl p l lcp out lcp' HP HN HL H => insertion_ok wl p l lcp out lcp' HP HN HL (f_equal Some H)). Qed.
Print Assumptions C03_insertion_sorts.

(** The partition loop of multikey quicksort (all of for(;;){...}): a permutation of the five segments, split three
    ways by the pivot character. *)
Theorem C03_mkqs_partition : forall pv d fuel EQL LT U GT EQR EQL' LT' GT' EQR',
  part_loop fuel pv d EQL LT U GT EQR = Some (EQL', LT', GT', EQR') ->
  isEQ pv d EQL -> isLT pv d LT -> isGT pv d GT -> isEQ pv d EQR ->
  Permutation (EQL ++ LT ++ U ++ GT ++ EQR) (EQL' ++ LT' ++ GT' ++ EQR') /\
  isEQ pv d EQL' /\ isLT pv d LT' /\ isGT pv d GT' /\ isEQ pv d EQR'.
Proof. exact part_loop_ok. Qed.
Print Assumptions C03_mkqs_partition.

(** multikey_quicksort at every depth, fuel and memory value (pivot selection, partition, vec_swap, the three
    recursive calls, LCP writes at the borders and inside the pivot-0 block, insertion-sort fall-back). *)
Theorem C03_multikey_quicksort : forall sz wl fuel mem, SorterOK wl (fun d => mkqs sz wl fuel d mem).
Proof. exact mkqs_ok. Qed.
Print Assumptions C03_multikey_quicksort.

(** One out-of-place radix step (8-bit: RadixStep_CE0/CE2, 16-bit: RadixStep_CE3) and the loop processing its buckets,
    for every fuel, depth, stack level, step size and memory value: sorted permutation, lcp[0] untouched, lcp[i]
    exact (i >= 1). *)
Theorem C03_radix_out_of_place : forall sz wl fuel,
  (forall szstep mem s, SorterOK wl (fun d => r8_step sz wl fuel false szstep mem s d)) /\
  (forall mem s, SorterOK wl (fun d => r16_step sz wl fuel false mem s d)).
Proof. exact (fun sz wl fuel => conj (r8_ce_ok sz wl fuel) (r16_ce_ok sz wl fuel)). Qed.
Print Assumptions C03_radix_out_of_place.

(** The in-place steps (RadixStep_CI2 / CI3): the same, given that the cycle-leader permutation groups the array. *)
Theorem C03_radix_in_place_partial : forall sz wl, InPlaceOK -> InPlace16OK -> forall fuel,
  (forall szstep mem s, SorterOK wl (fun d => r8_step sz wl fuel true szstep mem s d)) /\
  (forall mem s, SorterOK wl (fun d => r16_step sz wl fuel true mem s d)).
Proof.
  exact (fun sz wl a b fuel =>
    conj (r8_step_ok sz wl (insertion_ok wl) (mkqs_ok sz wl) true (fun _ => a) fuel)
         (r16_step_ok sz wl (mkqs_ok sz wl) true (fun _ => a) (fun _ => b) fuel)).
Qed.
Print Assumptions C03_radix_in_place_partial.

(** tlx::sort_strings / sort_strings_lcp with the default memory argument (0 = no limit): no assumption. *)
Theorem C03_sort_strings_unlimited : forall sz wl fuel l lcp out lcp',
  all_nulfree l -> length lcp = length l ->
  sort_strings sz wl fuel 0 l lcp = Some (out, lcp') ->
  SortedPerm l out /\ (wl = true -> LcpExact out lcp') /\ (wl = false -> lcp' = lcp).
Proof. exact sort_strings_unlimited_ok. Qed.
Print Assumptions C03_sort_strings_unlimited.

(** The dispatch chain for every memory limit (the limit only selects the algorithm). *)
Theorem C03_sort_strings_partial : forall sz wl,
  InPlaceOK -> InPlace16OK ->
  forall fuel mem l lcp out lcp',
    all_nulfree l -> length lcp = length l ->
    sort_strings sz wl fuel mem l lcp = Some (out, lcp') ->
    SortedPerm l out /\ (wl = true -> LcpExact out lcp') /\ (wl = false -> lcp' = lcp).
Proof. exact sort_strings_ok. Qed.
Print Assumptions C03_sort_strings_partial.

(** ... and for each selectable detail sorter of the chain, at every depth and memory value
    (radixsort_CE0 without assumption). *)
Theorem C03_radixsort_CE0 : forall sz wl fuel mem, SorterOK wl (fun d => radixsort_CE0 sz wl fuel mem d).
Proof. exact radixsort_CE0_ok. Qed.
Print Assumptions C03_radixsort_CE0.

Theorem C03_detail_sorters_partial : forall sz wl,
  InPlaceOK -> InPlace16OK ->
  forall fuel mem,
    SorterOK wl (fun d => radixsort_CE2 sz wl fuel mem d) /\ SorterOK wl (fun d => radixsort_CE3 sz wl fuel mem d) /\
    SorterOK wl (fun d => radixsort_CI2 sz wl fuel mem d) /\ SorterOK wl (fun d => radixsort_CI3 sz wl fuel mem d).
Proof.
  exact (fun sz wl c d fuel mem =>
    conj (radixsort_CE2_ok sz wl c d fuel mem) (conj (radixsort_CE3_ok sz wl c d fuel mem)
    (conj (radixsort_CI2_ok sz wl c fuel mem) (radixsort_CI3_ok sz wl c d fuel mem)))).
Qed.
Print Assumptions C03_detail_sorters_partial.

(** The LCP boundary loop as shipped (704fd0b) reads bkt_size[256] when every string ends at the current depth
    (40 empty strings); the repaired loop (fixes/C03/01) yields exactly their LCPs. *)
Theorem C03_boundary_loop_shipped_refuted :
  exists (bs : list nat) (lcp : list nat),
    length bs = 256 /\ length lcp = list_sum bs /\
    (forall g, fst (lcp_step8_shipped 0 bs g lcp) = true) /\
    lcp_step8 0 bs lcp = 777 :: repeat 0 39.
Proof. exact bnd_loop_shipped_refuted. Qed.
Print Assumptions C03_boundary_loop_shipped_refuted.
