(** C03 — sort_strings yields a sorted permutation and exact LCP values.
    Statements only; proofs live in C03/{SpecProofs,Sorters,LcpInsertion,Radix8,Mkqs,PartTotal,MkqsTotal,Radix16,InPlace,InPlace16,Dispatch}.v.
    The model (C03/Model.v) is tied to /repo on every run by translate/sizes_c03.py (sizeof / threshold constants) and
    by the correspondence run of checks/C03.py (extracted model vs. the real sorters; extracted checker on the real
    output).

    Every theorem below is proved without assumption (Print Assumptions: closed under the global context).  The full
    statement of the property for the model is C03_sort_strings (tlx::sort_strings / sort_strings_lcp, every memory
    limit, every collection of NUL-free byte strings, with and without LCP output) together with C03_detail_sorters
    (each selectable sequential sorter at every depth with a common prefix).  The only hypothesis is that the
    fuelled functions return a result ([= Some _]; fuel exhaustion is the error value). *)
From Coq Require Import List NArith Sorting.Permutation Sorting.Sorted.
From TLXV Require Import C03.Model C03.Spec C03.SpecProofs C03.Lemmas C03.Sorters C03.LcpInsertion C03.Radix8 C03.Mkqs C03.PartTotal C03.MkqsTotal C03.Radix16 C03.InPlace C03.InPlace16 C03.Dispatch C03.Radix8Total C03.Radix16Total C03.ClosedCE0.
Import ListNotations.

(** Any two outputs satisfying SortedPermLcp for the same input have the same contents at every position and the
    same lcp[i] for every i >= 1. *)
Theorem C03_spec_unique : forall inp out1 lcp1 out2 lcp2,
  SortedPermLcp inp out1 lcp1 -> SortedPermLcp inp out2 lcp2 ->
  map snd out1 = map snd out2 /\ length lcp1 = length lcp2 /\ forall i, 1 <= i -> nth i lcp1 0 = nth i lcp2 0.
Proof. exact spec_unique. Qed.
Print Assumptions C03_spec_unique.

(** The extracted checker that judges the implementation's output decides the property exactly. *)
Theorem C03_checker_sound_complete : forall inp out lcp,
  (check_spl inp out lcp = true <-> SortedPermLcp inp out lcp) /\ (check_sp inp out = true <-> SortedPerm inp out).
Proof. exact (fun inp out lcp => conj (check_spl_iff inp out lcp) (check_sp_iff inp out)). Qed.
Print Assumptions C03_checker_sound_complete.

(** insertion_sort (no LCP) at every depth: strings sharing their first [length p] bytes come out as a sorted
    permutation. *)
Theorem C03_insertion_sort : forall p l, Pre p l ->
  Permutation l (insertion_sort (length p) l) /\ StronglySorted item_le (insertion_sort (length p) l).
Proof. exact insertion_sort_ok. Qed.
Print Assumptions C03_insertion_sort.

(** insertion_sort, both variants (without LCP; with the lcp array read and written as the code does), at every
    depth: sorted permutation, lcp[0] untouched, lcp[i] exact for i >= 1. *)
Theorem C03_insertion_sorts : forall wl p l lcp out lcp',
  Pre p l -> all_nulfree l -> length lcp = length l ->
  insertion wl (length p) l lcp = (out, lcp') -> OutOK wl l lcp out lcp'.
Proof. exact (fun wl p l lcp out lcp' HP HN HL H => insertion_ok wl p l lcp out lcp' HP HN HL (f_equal Some H)). Qed.
Print Assumptions C03_insertion_sorts.

(** The partition loop of multikey quicksort (all of for(;;){...}): a permutation of the five segments, split three
    ways by the pivot character. *)
Theorem C03_mkqs_partition : forall pv d fuel EQL LT U GT EQR EQL' LT' GT' EQR',
  part_loop fuel pv d EQL LT U GT EQR = Some (EQL', LT', GT', EQR') ->
  isEQ pv d EQL -> isLT pv d LT -> isGT pv d GT -> isEQ pv d EQR ->
  Permutation (EQL ++ LT ++ U ++ GT ++ EQR) (EQL' ++ LT' ++ GT' ++ EQR') /\
  isEQ pv d EQL' /\ isLT pv d LT' /\ isGT pv d GT' /\ isEQ pv d EQR'.
Proof. exact part_loop_ok. Qed.
Print Assumptions C03_mkqs_partition.

(** multikey_quicksort at every depth, fuel and memory value (pivot selection, partition, vec_swap, the three
    recursive calls, LCP writes at the borders and inside the pivot-0 block, insertion-sort fall-back). *)
Theorem C03_multikey_quicksort : forall sz wl fuel mem, SorterOK wl (fun d => mkqs sz wl fuel d mem).
Proof. exact mkqs_ok. Qed.
Print Assumptions C03_multikey_quicksort.

(** One out-of-place radix step (8-bit: RadixStep_CE0/CE2, 16-bit: RadixStep_CE3) and the loop processing its buckets,
    for every fuel, depth, stack level, step size and memory value: sorted permutation, lcp[0] untouched, lcp[i]
    exact (i >= 1). *)
Theorem C03_radix_out_of_place : forall sz wl fuel,
  (forall szstep mem s, SorterOK wl (fun d => r8_step sz wl fuel false szstep mem s d)) /\
  (forall mem s, SorterOK wl (fun d => r16_step sz wl fuel false mem s d)).
Proof. exact (fun sz wl fuel => conj (r8_ce_ok sz wl fuel) (r16_ce_ok sz wl fuel)). Qed.
Print Assumptions C03_radix_out_of_place.

(** The cycle-leader permutation of RadixStep_CI2 / CI3, for any key function and key list: the result is a
    permutation of the input, and the elements with key k are exactly the region [start k, start k + size k). *)
Theorem C03_in_place_permutation : forall key ks l p,
  NoDup ks -> (forall x, In x l -> In (key x) ks) -> ci_permute key ks l = Some p ->
  Permutation p l /\
  forall k, In k ks ->
    filter (fun x => N.eqb (key x) k) p = firstn (N.to_nat (size key l k)) (skipn (N.to_nat (start_in key l ks k)) p).
Proof. exact ci_permute_ok. Qed.
Print Assumptions C03_in_place_permutation.

(** The in-place 8-bit step (RadixStep_CI2) and its loop: no assumption. *)
Theorem C03_radix8_in_place : forall sz wl fuel szstep mem s, SorterOK wl (fun d => r8_step sz wl fuel true szstep mem s d).
Proof. exact (fun sz wl => r8_step_ok sz wl (insertion_ok wl) (mkqs_ok sz wl) true (fun _ => in_place_ok)). Qed.
Print Assumptions C03_radix8_in_place.

(** The in-place 16-bit step (RadixStep_CI3) and its loop. *)
Theorem C03_radix16_in_place : forall sz wl fuel mem s, SorterOK wl (fun d => r16_step sz wl fuel true mem s d).
Proof. exact (fun sz wl => r16_step_ok sz wl (mkqs_ok sz wl) true (fun _ => in_place_ok) (fun _ => in_place16_ok)). Qed.
Print Assumptions C03_radix16_in_place.

(** tlx::sort_strings / sort_strings_lcp on fewer than 65536 strings, every memory limit: no assumption. *)
Theorem C03_sort_strings_small : forall sz wl fuel mem l lcp out lcp',
  N.ltb (N.of_nat (length l)) Sizes_C03_gen.radix16 = true -> all_nulfree l -> length lcp = length l ->
  sort_strings sz wl fuel mem l lcp = Some (out, lcp') ->
  SortedPerm l out /\ (wl = true -> LcpExact out lcp') /\ (wl = false -> lcp' = lcp).
Proof. exact sort_strings_small_ok. Qed.
Print Assumptions C03_sort_strings_small.

(** tlx::sort_strings / sort_strings_lcp with the default memory argument (0 = no limit): no assumption. *)
Theorem C03_sort_strings_unlimited : forall sz wl fuel l lcp out lcp',
  all_nulfree l -> length lcp = length l ->
  sort_strings sz wl fuel 0 l lcp = Some (out, lcp') ->
  SortedPerm l out /\ (wl = true -> LcpExact out lcp') /\ (wl = false -> lcp' = lcp).
Proof. exact sort_strings_unlimited_ok. Qed.
Print Assumptions C03_sort_strings_unlimited.

(** The dispatch chain for every memory limit (the limit only selects the algorithm). *)
Theorem C03_sort_strings : forall sz wl fuel mem l lcp out lcp',
    all_nulfree l -> length lcp = length l ->
    sort_strings sz wl fuel mem l lcp = Some (out, lcp') ->
    SortedPerm l out /\ (wl = true -> LcpExact out lcp') /\ (wl = false -> lcp' = lcp).
Proof. exact sort_strings_ok. Qed.
Print Assumptions C03_sort_strings.

(** ... and for each selectable detail sorter of the chain, at every depth and memory value
    (radixsort_CE0 and radixsort_CI2 without assumption). *)
Theorem C03_radixsort_CE0_CI2 : forall sz wl fuel mem,
  SorterOK wl (fun d => radixsort_CE0 sz wl fuel mem d) /\ SorterOK wl (fun d => radixsort_CI2 sz wl fuel mem d).
Proof. exact (fun sz wl fuel mem => conj (radixsort_CE0_ok sz wl fuel mem) (radixsort_CI2_ok sz wl fuel mem)). Qed.
Print Assumptions C03_radixsort_CE0_CI2.

Theorem C03_detail_sorters : forall sz wl fuel mem,
    SorterOK wl (fun d => radixsort_CE2 sz wl fuel mem d) /\ SorterOK wl (fun d => radixsort_CE3 sz wl fuel mem d) /\
    SorterOK wl (fun d => radixsort_CI3 sz wl fuel mem d).
Proof.
  exact (fun sz wl fuel mem =>
    conj (radixsort_CE2_ok sz wl fuel mem) (conj (radixsort_CE3_ok sz wl fuel mem) (radixsort_CI3_ok sz wl fuel mem))).
Qed.
Print Assumptions C03_detail_sorters.

(** Termination of the Bentley-Sedgewick partition loop of multikey quicksort, for every input: with fuel above the
    number of unexamined elements (mkqs passes [S n] for the n - 1 elements behind the pivot) [part_loop] never
    returns the error value -- neither by running out of fuel nor through its "one element stopped both scans"
    branch.  This removes one of the sources of [None] that the sorter theorems above exclude by hypothesis; the
    others (recursion fuel of mkqs / the radix steps, the in-place permutation's bucket pointers) remain tied by
    the per-case "model returned a result" check of the correspondence run. *)
Theorem C03_mkqs_partition_total : forall pv d,
  (forall fuel EQL LT U GT EQR, length U < fuel -> part_loop fuel pv d EQL LT U GT EQR <> None) /\
  (forall (l : list item) j, part_loop (S (length l)) pv d [] [] (tl (swap_idx l 0 j)) [] [] <> None).
Proof. exact (fun pv d => conj (part_loop_total pv d) (mkqs_partition_total pv d)). Qed.
Print Assumptions C03_mkqs_partition_total.

(** Multikey quicksort always returns, and what it returns is right -- with NO "the model returned a result"
    hypothesis: for every collection, depth, memory value and LCP array, the fuel the correspondence driver passes
    (n + longest string + 8; any fuel above n + (longest - depth) will do) suffices, and the result is the sorted
    permutation with exact LCPs.  (Measure: the less / greater blocks lose at least the pivot; the equal block is
    sorted one character deeper only when its strings still have a character at the current depth.) *)
Theorem C03_mkqs_total : forall sz wl fuel d mem l lcp,
  length l + (mlen l - d) < fuel -> mkqs sz wl fuel d mem l lcp <> None.
Proof. exact mkqs_total. Qed.
Print Assumptions C03_mkqs_total.

Theorem C03_multikey_quicksort_closed : forall sz wl mem p l lcp,
  Pre p l -> all_nulfree l -> length lcp = length l ->
  exists out lcp', mkqs sz wl (length l + mlen l + 8) (length p) mem l lcp = Some (out, lcp') /\
                   OutOK wl l lcp out lcp'.
Proof. exact mkqs_closed. Qed.
Print Assumptions C03_multikey_quicksort_closed.

(** The out-of-place 8-bit radix step (RadixStep_CE0 / CE2 with the loop over its buckets, which recurses, falls back
    to multikey quicksort under memory pressure and to insertion sort for small buckets) returns for every input
    once the fuel exceeds n + (longest string - depth): a bucket other than bucket 0 only holds strings longer than
    the depth.  Hence radixsort_CE0 in closed form.  (The in-place steps, [ip = true], additionally depend on
    ci_permute and are still covered by the per-case check only.) *)
Theorem C03_radix8_out_of_place_total : forall sz wl fuel szstep mem s dep l lcp,
  length l + (mlen l - dep) < fuel -> r8_step sz wl fuel false szstep mem s dep l lcp <> None.
Proof. exact r8_step_total. Qed.
Print Assumptions C03_radix8_out_of_place_total.

Theorem C03_radixsort_CE0_closed : forall sz wl mem p l lcp,
  Pre p l -> all_nulfree l -> length lcp = length l ->
  exists out lcp', radixsort_CE0 sz wl (length l + mlen l + 8) mem (length p) l lcp = Some (out, lcp') /\
                   OutOK wl l lcp out lcp'.
Proof. exact radixsort_CE0_closed. Qed.
Print Assumptions C03_radixsort_CE0_closed.

(** ... and the out-of-place 16-bit radix step (RadixStep_CE3 with the loop over its 65536 buckets, which hands
    buckets to the 8-bit step, to multikey quicksort, to insertion sort or to another 16-bit step, two characters
    deeper) returns for every input under the same fuel bound. *)
Theorem C03_radix16_out_of_place_total : forall sz wl fuel mem s dep l lcp,
  length l + (mlen l - dep) < fuel -> r16_step sz wl fuel false mem s dep l lcp <> None.
Proof. exact r16_step_total. Qed.
Print Assumptions C03_radix16_out_of_place_total.

(** The LCP boundary loop as shipped (704fd0b) reads bkt_size[256] when every string ends at the current depth
    (40 empty strings); the repaired loop (fixes/C03/01) yields exactly their LCPs. *)
Theorem C03_boundary_loop_shipped_refuted :
  exists (bs : list nat) (lcp : list nat),
    length bs = 256 /\ length lcp = list_sum bs /\
    (forall g, fst (lcp_step8_shipped 0 bs g lcp) = true) /\
    lcp_step8 0 bs lcp = 777 :: repeat 0 39.
Proof. exact bnd_loop_shipped_refuted. Qed.
Print Assumptions C03_boundary_loop_shipped_refuted.
