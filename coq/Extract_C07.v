From TLXV Require Import C07.PMWM.
Require Extraction. Require ExtrOcamlBasic.
Extraction Language OCaml.
Extraction "../ocaml/gen/C07_model.ml" PMWM.run_model.
