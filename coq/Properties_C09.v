(** C09 — loser trees report a minimum-holding source; stable ones break ties by index.
    Statements only; the model is C09/LoserTree.v, the proofs are in C09/{Tournament,VOrder,Invariant,Winner,Final}.v.

    Reading guide.  [v : variant] ranges over the eight classes (pointer?, guarded?, stable?).  [pl : list (option A)]
    is the ghost "current key of every player" ([None] = exhausted).  [winner_ok ltb stable pl s]: player [s] is
    live, no live player's key is less than its key, and - if [stable] - it has the smallest index among the live
    players with an equivalent key.  [pl_ok] / [op_ok] / [seqs_ok] are the documented precondition of the
    unguarded classes (no player ever exhausted, the sentinel is not less than any key handed in); they are
    vacuous for the guarded classes.  [ik <= 2^30]: Source = uint32_t arithmetic does not wrap.
    This bound is NOT in the property text ("every number of players") and the real code does misbehave beyond it: the
    constructors compute 2 * k_ and round_up_to_power_of_two(k) in 32 bits, so for 2^30 < k <= 2^31 they allocate no node
    and write out of bounds, and for k > 2^31 they build a tree without nodes.  Recorded as known finding
    [players-above-2^30] (known_findings.txt, docs/audit/C09.md); checks/C09.py re-runs the zero-memory witnesses
    (harness/C09/big_k.cpp) on every run. *)
From Coq Require Import List NArith.
From TLXV Require Import Common.Order C09.LoserTree C09.Spec C09.Winner C09.Final C09.UnguardedGeneral C09.BuildOrder C09.RegOrder.
Import ListNotations.
Local Open Scope N_scope.

(** Constructor + insert_start for every player + init() establish the tournament invariant, for every
    number of players k >= 1 (power of two or not) and all initial keys, including exhausted players. *)
Theorem C09_init_establishes_invariant :
  forall (A : Type) (ltb : A -> A -> bool) (dkey sentinel : A), SWO ltb ->
  forall (v : variant) (heads : list (option A)),
    1 <= N.of_nat (length heads) <= 2 ^ 30 -> pl_ok ltb sentinel v heads ->
    TInv ltb dkey sentinel v (lt_build ltb dkey v sentinel heads) heads.
Proof. exact (@build_TInv). Qed.
Print Assumptions C09_init_establishes_invariant.

(** Every delete_min_insert (feed the winner's next key, or mark it exhausted) preserves the invariant. *)
Theorem C09_replay_preserves_invariant :
  forall (A : Type) (ltb : A -> A -> bool) (dkey sentinel : A), SWO ltb ->
  forall (v : variant) (t : tree) (pl : list (option A)) (op : option A),
    TInv ltb dkey sentinel v t pl -> some_live pl -> op_ok ltb sentinel v op ->
    TInv ltb dkey sentinel v (lt_delete_min_insert ltb dkey v t op) (setN pl (lt_min_source dkey v t) op).
Proof. exact (@dmi_TInv). Qed.
Print Assumptions C09_replay_preserves_invariant.

(** Under the invariant min_source() is right: while a live player remains it names a live player whose key no
    live player's key is less than (so never an exhausted one), the smallest such index for the stable classes. *)
Theorem C09_invariant_gives_minimum :
  forall (A : Type) (ltb : A -> A -> bool) (dkey sentinel : A), SWO ltb ->
  forall (v : variant) (t : tree) (pl : list (option A)),
    TInv ltb dkey sentinel v t pl -> some_live pl ->
    winner_ok ltb (v_stable v) pl (lt_min_source dkey v t).
Proof. exact (@TInv_winner_ok). Qed.
Print Assumptions C09_invariant_gives_minimum.

(** Hence for every replace history (any k, any keys, any length), all eight classes. *)
Theorem C09_winner_after_every_history :
  forall (A : Type) (ltb : A -> A -> bool) (dkey sentinel : A), SWO ltb ->
  forall (v : variant) (t : tree) (pl : list (option A)),
    Reach ltb dkey sentinel v t pl -> some_live pl ->
    winner_ok ltb (v_stable v) pl (lt_min_source dkey v t).
Proof. exact (@reach_winner_ok). Qed.
Print Assumptions C09_winner_after_every_history.

(** The boolean checker run on the implementation's reports decides exactly the property. *)
Theorem C09_checker_sound_and_complete :
  forall (A : Type) (ltb : A -> A -> bool) (stable : bool) (pl : list (option A)) (s : N),
    check_min ltb stable pl s = true <-> (some_live pl -> winner_ok ltb stable pl s).
Proof. exact (@check_min_iff). Qed.
Print Assumptions C09_checker_sound_and_complete.

(** The model driven by a caller over arbitrary key sequences reports a sequence the trace checker accepts. *)
Theorem C09_model_run_passes_checker :
  forall (A : Type) (ltb : A -> A -> bool) (dkey sentinel : A), SWO ltb ->
  forall (v : variant) (seqs : list (list A)),
    1 <= N.of_nat (length seqs) <= 2 ^ 30 -> seqs_ok ltb sentinel v seqs ->
    check_trace ltb v seqs (lt_run ltb dkey v sentinel seqs) = true.
Proof. exact (@run_checks). Qed.
Print Assumptions C09_model_run_passes_checker.

(** * The unguarded classes without the sentinel bound on the keys (what multiway_merge_loser_tree_combined uses).
    [UInv] is the tournament invariant under the order the unguarded code really plays under on ALL leaves,
    padding included (key order; stable: (key, source) with padding source = invalid_); [all_some]: no player
    exhausted.  Keys may be greater than the sentinel. *)
Theorem C09_unguarded_any_keys_init :
  forall (A : Type) (ltb : A -> A -> bool) (dkey sentinel : A) (v : variant), v_guarded v = false ->
  forall (heads : list (option A)),
    1 <= N.of_nat (length heads) <= 2 ^ 30 -> all_some heads ->
    UInv ltb dkey sentinel v (lt_build ltb dkey v sentinel heads) heads.
Proof. exact (@ubuild_UInv). Qed.
Print Assumptions C09_unguarded_any_keys_init.

(** preserved by delete_min_insert with an arbitrary new key, whenever min_source() names a real source *)
Theorem C09_unguarded_any_keys_replay :
  forall (A : Type) (ltb : A -> A -> bool) (dkey sentinel : A) (v : variant), v_guarded v = false ->
  forall (t : tree) (pl : list (option A)) (x : A),
    UInv ltb dkey sentinel v t pl -> lt_min_source dkey v t <> invalid_ ->
    UInv ltb dkey sentinel v (lt_delete_min_insert ltb dkey v t (Some x)) (setN pl (lt_min_source dkey v t) (Some x)).
Proof. exact (@udmi_UInv). Qed.
Print Assumptions C09_unguarded_any_keys_replay.

(** while some player's key still beats the sentinel (stable: is not greater than it; unstable: is strictly less),
    min_source() is a real player, a minimum, and - stable - the smallest index among equivalent keys *)
Theorem C09_unguarded_any_keys_winner :
  forall (A : Type) (ltb : A -> A -> bool) (dkey sentinel : A), SWO ltb ->
  forall (v : variant), v_guarded v = false ->
  forall (t : tree) (pl : list (option A)),
    UInv ltb dkey sentinel v t pl ->
    (exists j kj, live pl j kj /\ beats_sentinel ltb sentinel v kj) ->
    winner_ok ltb (v_stable v) pl (lt_min_source dkey v t) /\ lt_min_source dkey v t <> invalid_.
Proof. exact (@uwinner_ok). Qed.
Print Assumptions C09_unguarded_any_keys_winner.

(** the model driven the COMBINED way (consult the tree only while some current key beats the sentinel) reports a
    sequence the corresponding trace checker accepts, for arbitrary keys *)
Theorem C09_unguarded_any_keys_run_passes_checker :
  forall (A : Type) (ltb : A -> A -> bool) (dkey sentinel : A), SWO ltb ->
  forall (v : variant), v_guarded v = false ->
  forall (seqs : list (list A)),
    1 <= N.of_nat (length seqs) <= 2 ^ 30 -> (forall j sq, nthN seqs j = Some sq -> sq <> []) ->
    check_trace_g ltb v sentinel seqs (lt_run_g ltb dkey v sentinel seqs) = true.
Proof. exact (@run_g_checks). Qed.
Print Assumptions C09_unguarded_any_keys_run_passes_checker.

(** * The players may be registered in any order.  insert_start takes the player index as an argument;
    [lt_build_order heads order] calls it for the indices listed in [order], in that order ([order_ok]: every player
    occurs, nothing else does - descending, shuffled, repeated registrations).  init() then establishes the same
    invariants as for the ascending order, so the theorems above about delete_min_insert and min_source() apply
    unchanged.  (The order is observable in the code: the guarded copy class floods all key copies on the FIRST
    insert_start call, whichever player it registers.) *)
Theorem C09_init_any_registration_order :
  forall (A : Type) (ltb : A -> A -> bool) (dkey sentinel : A), SWO ltb ->
  forall (v : variant) (heads : list (option A)) (order : list N),
    1 <= N.of_nat (length heads) <= 2 ^ 30 -> pl_ok ltb sentinel v heads -> order_ok heads order ->
    TInv ltb dkey sentinel v (lt_build_order ltb dkey v sentinel heads order) heads.
Proof. exact (@build_order_TInv). Qed.
Print Assumptions C09_init_any_registration_order.

Theorem C09_unguarded_any_keys_init_any_registration_order :
  forall (A : Type) (ltb : A -> A -> bool) (dkey sentinel : A) (v : variant) (heads : list (option A)) (order : list N),
    v_guarded v = false ->
    1 <= N.of_nat (length heads) <= 2 ^ 30 -> all_some heads -> order_ok heads order ->
    UInv ltb dkey sentinel v (lt_build_order ltb dkey v sentinel heads order) heads.
Proof. exact (@ubuild_order_UInv). Qed.
Print Assumptions C09_unguarded_any_keys_init_any_registration_order.

(** the model's runs pass the checkers for every registration order *)
Theorem C09_model_run_any_registration_order_passes_checker :
  forall (A : Type) (ltb : A -> A -> bool) (dkey sentinel : A), SWO ltb ->
  forall (v : variant) (seqs : list (list A)) (order : list N),
    1 <= N.of_nat (length seqs) <= 2 ^ 30 -> seqs_ok ltb sentinel v seqs -> order_ok (heads seqs) order ->
    check_trace ltb v seqs (lt_run_order ltb dkey v sentinel order seqs) = true.
Proof. exact (@run_order_checks). Qed.
Print Assumptions C09_model_run_any_registration_order_passes_checker.

Theorem C09_unguarded_any_keys_run_any_registration_order_passes_checker :
  forall (A : Type) (ltb : A -> A -> bool) (dkey sentinel : A), SWO ltb ->
  forall (v : variant) (seqs : list (list A)) (order : list N), v_guarded v = false ->
    1 <= N.of_nat (length seqs) <= 2 ^ 30 -> (forall j sq, nthN seqs j = Some sq -> sq <> []) ->
    order_ok (heads seqs) order ->
    check_trace_g ltb v sentinel seqs (lt_run_g_order ltb dkey v sentinel order seqs) = true.
Proof. exact (@run_g_order_checks). Qed.
Print Assumptions C09_unguarded_any_keys_run_any_registration_order_passes_checker.
