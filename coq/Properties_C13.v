(** C13 — the heaps always surface a minimum element and track membership correctly.
    Statements only; proofs live in C13/DAryProofs.v, C13/AddrProofs.v, C13/RadixProofs.v.
    Everywhere: [ltb] is the heap's comparator (any strict weak order, e.g. the order of an external priority
    table), [d >= 1] the arity, [HeapInv] = no stored element is smaller than its parent. *)
From Coq Require Import List Arith NArith Sorting.Permutation Sorting.Sorted.
From TLXV Require Import Common.Order C13.DAry C13.DAryProofs C13.Addr C13.AddrProofs C13.Radix C13.RadixProofs.
Import ListNotations.

(** ---------------------------------------------------------------- DAryHeap *)

(** Every history of push / pop / update_all / build_heap / clear that pops only from a non-empty heap keeps the
    heap order, from any ordered start (in particular from the empty heap), for every arity and comparator. *)
Theorem C13_dary_history_inv : forall (K : Type) (ltb : K -> K -> bool) (d : nat) (dflt : K),
  SWO ltb -> 1 <= d -> forall ops h, HeapInv ltb d dflt h -> dvalid ltb d dflt h ops = true ->
  HeapInv ltb d dflt (fold_left (dstep ltb d dflt) ops h).
Proof. exact @history_inv. Qed.
Print Assumptions C13_dary_history_inv.

(** In an ordered heap the top is not greater than any stored element. *)
Theorem C13_dary_top_min : forall (K : Type) (ltb : K -> K -> bool) (d : nat) (dflt : K),
  SWO ltb -> 1 <= d -> forall h x, HeapInv ltb d dflt h -> DAry.top h = Some x ->
  forall y, In y h -> leb ltb x y = true.
Proof. exact @top_min. Qed.
Print Assumptions C13_dary_top_min.

(** push adds exactly the new element; pop removes exactly the top. *)
Theorem C13_dary_push : forall (K : Type) (ltb : K -> K -> bool) (d : nat) (dflt : K),
  SWO ltb -> 1 <= d -> forall h x, HeapInv ltb d dflt h ->
  HeapInv ltb d dflt (DAry.push ltb d dflt h x) /\ Permutation (DAry.push ltb d dflt h x) (x :: h).
Proof. exact @DAryProofs.push_ok. Qed.
Print Assumptions C13_dary_push.

Theorem C13_dary_pop : forall (K : Type) (ltb : K -> K -> bool) (d : nat) (dflt : K),
  SWO ltb -> 1 <= d -> forall h x, HeapInv ltb d dflt h -> DAry.top h = Some x ->
  HeapInv ltb d dflt (DAry.pop ltb d dflt h) /\ Permutation (x :: DAry.pop ltb d dflt h) h.
Proof. exact @pop_ok. Qed.
Print Assumptions C13_dary_pop.

(** update_all / build_heap order ANY array (so they repair the heap after arbitrary priority changes) and keep
    exactly its elements. *)
Theorem C13_dary_heapify : forall (K : Type) (ltb : K -> K -> bool) (d : nat) (dflt : K),
  SWO ltb -> 1 <= d -> forall h,
  HeapInv ltb d dflt (DAry.heapify ltb d dflt h) /\ Permutation (DAry.heapify ltb d dflt h) h.
Proof. exact @heapify_ok. Qed.
Print Assumptions C13_dary_heapify.

(** Draining an ordered heap yields its elements as a sorted permutation. *)
Theorem C13_dary_drain_sorted : forall (K : Type) (ltb : K -> K -> bool) (d : nat) (dflt : K),
  SWO ltb -> 1 <= d -> forall n h, length h = n -> HeapInv ltb d dflt h ->
  Sorted (sorted_rel ltb) (DAry.drain ltb d dflt n h) /\ Permutation (DAry.drain ltb d dflt n h) h.
Proof. exact @drain_sorted. Qed.
Print Assumptions C13_dary_drain_sorted.

(** ---------------------------------------------------------------- DAryAddressableIntHeap
    AInv a = heap order /\ keys distinct and < not_present /\ handles_[heap_[i]] = i for every position /\
             handles_[key] <> not_present only for stored keys. *)

(** contains(key) is true exactly for the stored keys. *)
Theorem C13_addr_contains : forall ltb d np, 1 <= d -> forall a key, AInv ltb d np a -> (Addr.contains np a key = true <-> In key (fst a)).
Proof. exact contains_iff. Qed.
Print Assumptions C13_addr_contains.

(** push of a key that is not stored keeps the invariant and adds exactly that key. *)
Theorem C13_addr_push : forall ltb d np, SWO ltb -> 1 <= d -> forall a key,
  AInv ltb d np a -> ~ In key (fst a) -> key < np ->
  AInv ltb d np (Addr.push ltb d np a key) /\ Permutation (fst (Addr.push ltb d np a key)) (key :: fst a).
Proof. exact AddrProofs.push_ok. Qed.
Print Assumptions C13_addr_push.

Theorem C13_addr_clear : forall ltb d np, 1 <= d -> forall a, AInv ltb d np (Addr.clear np a).
Proof. exact clear_ok. Qed.
Print Assumptions C13_addr_clear.

(** The class's own sift loops and heapify act on heap_ exactly as DAryHeap's (so order, contents and minimality of
    top are inherited); the handle writes of both sift loops re-establish the handle invariant. *)
Theorem C13_addr_sift_up_handles : forall ltb d np, 1 <= d -> forall h hd k,
  k < length h -> NoDup h -> DAry.get 0 h k < length hd -> HFx h hd k -> HB np h hd ->
  fst (Addr.asift_up ltb d (h, hd) k) = sift_up ltb d 0 h k /\
  HF (fst (Addr.asift_up ltb d (h, hd) k)) (snd (Addr.asift_up ltb d (h, hd) k)) /\
  HB np (fst (Addr.asift_up ltb d (h, hd) k)) (snd (Addr.asift_up ltb d (h, hd) k)).
Proof.
  intros ltb d np Hd h hd k H1 H2 H3 H4 H5. split; [exact (asift_up_heap ltb d (h, hd) k)|].
  destruct (asift_up_handles ltb d np Hd h hd k H1 H2 H3 H4 H5) as (A & B & _). auto.
Qed.
Print Assumptions C13_addr_sift_up_handles.

Theorem C13_addr_sift_down_handles : forall ltb d np, SWO ltb -> 1 <= d -> forall h hd k,
  k < length h -> NoDup h -> DAry.get 0 h k < length hd -> HFx h hd k -> HB np h hd ->
  fst (Addr.asift_down ltb d (h, hd) k) = sift_down ltb d 0 h k /\
  HF (fst (Addr.asift_down ltb d (h, hd) k)) (snd (Addr.asift_down ltb d (h, hd) k)) /\
  HB np (fst (Addr.asift_down ltb d (h, hd) k)) (snd (Addr.asift_down ltb d (h, hd) k)).
Proof.
  intros ltb d np HS Hd h hd k H1 H2 H3 H4 H5. split; [exact (asift_down_heap ltb d (h, hd) k)|].
  destruct (asift_down_handles ltb d np HS Hd h hd k H1 H2 H3 H4 H5) as (A & B & _). auto.
Qed.
Print Assumptions C13_addr_sift_down_handles.

(** update(key) of a stored key after its priority changed in either direction (the heap is ordered except at the key's
    position -- see C13_heap_except_of_change) restores the full invariant and keeps the contents; update of a key that
    is not stored is push. *)
Theorem C13_addr_update_present : forall ltb d np, SWO ltb -> 1 <= d -> forall a key,
  NoDup (fst a) -> (forall x, In x (fst a) -> x < np) -> HF (fst a) (snd a) -> HB np (fst a) (snd a) ->
  In key (fst a) -> HeapExcept ltb d 0 (fst a) (DAry.get 0 (snd a) key) ->
  AInv ltb d np (Addr.update ltb d np a key) /\ Permutation (fst (Addr.update ltb d np a key)) (fst a).
Proof. exact update_present_ok. Qed.
Print Assumptions C13_addr_update_present.

Theorem C13_addr_update_absent : forall ltb d np, 1 <= d -> forall a key,
  AInv ltb d np a -> ~ In key (fst a) -> Addr.update ltb d np a key = Addr.push ltb d np a key.
Proof. exact update_absent. Qed.
Print Assumptions C13_addr_update_absent.

(** If only the priority of the element at position k changed (the new comparator agrees with the old one on all other
    pairs), a heap ordered for the old comparator is ordered except at k for the new one; and fix_pos (the direction
    choice of update() and remove()) repairs such a heap. *)
Theorem C13_heap_except_of_change : forall (K : Type) (ltb ltb0 : K -> K -> bool) d dflt (h : list K) k,
  SWO ltb0 -> 1 <= d -> HeapInv ltb0 d dflt h ->
  (forall i j, i < length h -> j < length h -> i <> k -> j <> k ->
     ltb (DAry.get dflt h i) (DAry.get dflt h j) = ltb0 (DAry.get dflt h i) (DAry.get dflt h j)) ->
  HeapExcept ltb d dflt h k.
Proof. exact @HeapExcept_of_change. Qed.
Print Assumptions C13_heap_except_of_change.

Theorem C13_fix_pos : forall (K : Type) (ltb : K -> K -> bool) d dflt, SWO ltb -> 1 <= d -> forall h k,
  k < length h -> HeapExcept ltb d dflt h k ->
  HeapInv ltb d dflt (fix_pos ltb d dflt h k) /\ Permutation (fix_pos ltb d dflt h k) h.
Proof. exact @fix_pos_ok. Qed.
Print Assumptions C13_fix_pos.

(** build_heap (repaired heapify) over ANY previous contents: the new heap is ordered, holds exactly the new keys,
    and the handles describe exactly the new contents (this includes: heapify()'s max_key dominates every key, so
    handles_ is large enough).  update_all restores the full invariant after arbitrary priority changes. *)
Theorem C13_addr_build_heap : forall ltb d np, SWO ltb -> 1 <= d -> forall a keys,
  NoDup keys -> (forall x, In x keys -> x < np) ->
  AInv ltb d np (Addr.build_heap ltb d np a keys) /\ Permutation (fst (Addr.build_heap ltb d np a keys)) keys.
Proof. exact build_heap_ok. Qed.
Print Assumptions C13_addr_build_heap.

Theorem C13_addr_update_all : forall ltb d np, SWO ltb -> 1 <= d -> forall a,
  NoDup (fst a) -> (forall x, In x (fst a) -> x < np) ->
  AInv ltb d np (Addr.update_all ltb d np a) /\ Permutation (fst (Addr.update_all ltb d np a)) (fst a).
Proof. exact update_all_ok. Qed.
Print Assumptions C13_addr_update_all.

(** The shipped heapify (tlx 704fd0b) keeps the handles of the previous heap: after build_heap({5,6}) over {1,2},
    contains(1) is still true and sanity_check() is false; the repaired one answers correctly. *)
Theorem C13_addr_build_heap_shipped_refuted :
  let a0 := Addr.push Nat.ltb 2 255 (Addr.push Nat.ltb 2 255 ([], []) 1) 2 in
  let bad := Addr.build_heap_shipped Nat.ltb 2 255 a0 [5; 6] in
  let good := Addr.build_heap Nat.ltb 2 255 a0 [5; 6] in
  fst bad = [5; 6] /\ Addr.contains 255 bad 1 = true /\ Addr.sanity_check Nat.ltb 2 255 bad = false /\
  fst good = [5; 6] /\ Addr.contains 255 good 1 = false /\ Addr.contains 255 good 5 = true /\
  Addr.sanity_check Nat.ltb 2 255 good = true.
Proof. exact build_heap_shipped_refuted. Qed.
Print Assumptions C13_addr_build_heap_shipped_refuted.

(** ---------------------------------------------------------------- RadixHeap *)

(** For every key width w, every radix 2^rb (rb >= 1) and every pair of w-bit ranks, the (repaired) bucket index
    lies inside the bucket arrays. *)
Theorem C13_radix_bucket_in_range : forall w rb x limit : N,
  (0 < rb)%N -> (x < 2 ^ w)%N -> (limit < 2 ^ w)%N -> (Radix.bucket rb x limit < num_buckets w rb)%N.
Proof. exact bucket_in_range. Qed.
Print Assumptions C13_radix_bucket_in_range.

(** The shipped computation (tlx 704fd0b) for 8-bit keys, Radix 4, key 5 against insertion limit 0: the row is beyond
    every bucket and the shift exponent is >= 64; the repaired index is in range. *)
Theorem C13_radix_bucket_shipped_refuted :
  exists x limit : N, (x < 2 ^ 8 /\ limit < 2 ^ 8 /\
    num_buckets 8 2 <= shipped_row 8 2 x limit /\ 64 <= (2 * shipped_row 8 2 x limit) mod 2 ^ 64 /\
    Radix.bucket 2 x limit < num_buckets 8 2)%N.
Proof. exact bucket_shipped_refuted. Qed.
Print Assumptions C13_radix_bucket_shipped_refuted.

(** For 32- and 64-bit keys the shipped row computation is the repaired one (no behaviour change there). *)
Theorem C13_radix_shipped_row_wide : forall w rb x limit : N,
  (32 <= w)%N -> (w <= 64)%N -> (x < 2 ^ w)%N -> (limit < 2 ^ w)%N -> N.lxor x limit <> 0%N ->
  shipped_row w rb x limit = (N.log2 (N.lxor x limit) / rb)%N.
Proof. exact shipped_row_wide. Qed.
Print Assumptions C13_radix_shipped_row_wide.

(* Not proved in Coq (kept as the goal):
   - DAryAddressableIntHeap::remove(key) at the operation level: AInv a -> In key (fst a) ->
       AInv (remove a key) /\ (forall x, In x (fst (remove a key)) <-> In x (fst a) /\ x <> key).
     Proved parts: the direction choice + sift (C13_fix_pos) and the handle writes of both sift loops
     (C13_addr_sift_up_handles / C13_addr_sift_down_handles); the swap-with-last bookkeeping is tied by correspondence.
   - RadixInv -- every stored key has rank >= insertion_limit_ and lies in
   bucket (bucket rank limit), mins_ and filled_ are exact -- is preserved by push/top/pop/swap_top_bucket/clear on
   monotone histories, hence top() = minimum.  The radix heap model is tied to the code by the correspondence run
   and checked there against a reference multiset on every case. *)
