(** C13 — the heaps always surface a minimum element and track membership correctly.
    Statements only; proofs live in C13/DAryProofs.v, C13/AddrProofs.v, C13/RadixProofs.v.
    Everywhere: [ltb] is the heap's comparator (any strict weak order, e.g. the order of an external priority
    table), [d >= 1] the arity, [HeapInv] = no stored element is smaller than its parent. *)
From Coq Require Import List Arith NArith Sorting.Permutation Sorting.Sorted.
From TLXV Require Import Common.Order C13.DAry C13.DAryProofs C13.Addr C13.AddrProofs C13.AddrRemove C13.AddrHistory
  C13.Radix C13.RadixProofs C13.RadixArith C13.RadixInv.
Import ListNotations.

(** ---------------------------------------------------------------- DAryHeap *)

(** Every history of push / pop / update_all / build_heap / clear that pops only from a non-empty heap keeps the
    heap order, from any ordered start (in particular from the empty heap), for every arity and comparator. *)
Theorem C13_dary_history_inv : forall (K : Type) (ltb : K -> K -> bool) (d : nat) (dflt : K),
  SWO ltb -> 1 <= d -> forall ops h, HeapInv ltb d dflt h -> dvalid ltb d dflt h ops = true ->
  HeapInv ltb d dflt (fold_left (dstep ltb d dflt) ops h).
Proof. exact @history_inv. Qed.
Print Assumptions C13_dary_history_inv.

(** In an ordered heap the top is not greater than any stored element. *)
Theorem C13_dary_top_min : forall (K : Type) (ltb : K -> K -> bool) (d : nat) (dflt : K),
  SWO ltb -> 1 <= d -> forall h x, HeapInv ltb d dflt h -> DAry.top h = Some x ->
  forall y, In y h -> leb ltb x y = true.
Proof. exact @DAryProofs.top_min. Qed.
Print Assumptions C13_dary_top_min.

(** push adds exactly the new element; pop removes exactly the top. *)
Theorem C13_dary_push : forall (K : Type) (ltb : K -> K -> bool) (d : nat) (dflt : K),
  SWO ltb -> 1 <= d -> forall h x, HeapInv ltb d dflt h ->
  HeapInv ltb d dflt (DAry.push ltb d dflt h x) /\ Permutation (DAry.push ltb d dflt h x) (x :: h).
Proof. exact @DAryProofs.push_ok. Qed.
Print Assumptions C13_dary_push.

Theorem C13_dary_pop : forall (K : Type) (ltb : K -> K -> bool) (d : nat) (dflt : K),
  SWO ltb -> 1 <= d -> forall h x, HeapInv ltb d dflt h -> DAry.top h = Some x ->
  HeapInv ltb d dflt (DAry.pop ltb d dflt h) /\ Permutation (x :: DAry.pop ltb d dflt h) h.
Proof. exact @DAryProofs.pop_ok. Qed.
Print Assumptions C13_dary_pop.

(** update_all / build_heap order ANY array (so they repair the heap after arbitrary priority changes) and keep
    exactly its elements. *)
Theorem C13_dary_heapify : forall (K : Type) (ltb : K -> K -> bool) (d : nat) (dflt : K),
  SWO ltb -> 1 <= d -> forall h,
  HeapInv ltb d dflt (DAry.heapify ltb d dflt h) /\ Permutation (DAry.heapify ltb d dflt h) h.
Proof. exact @heapify_ok. Qed.
Print Assumptions C13_dary_heapify.

(** Draining an ordered heap yields its elements as a sorted permutation. *)
Theorem C13_dary_drain_sorted : forall (K : Type) (ltb : K -> K -> bool) (d : nat) (dflt : K),
  SWO ltb -> 1 <= d -> forall n h, length h = n -> HeapInv ltb d dflt h ->
  Sorted (sorted_rel ltb) (DAry.drain ltb d dflt n h) /\ Permutation (DAry.drain ltb d dflt n h) h.
Proof. exact @drain_sorted. Qed.
Print Assumptions C13_dary_drain_sorted.

(** ---------------------------------------------------------------- DAryAddressableIntHeap
    AInv a = heap order /\ keys distinct and < not_present /\ handles_[heap_[i]] = i for every position /\
             handles_[key] <> not_present only for stored keys. *)

(** contains(key) is true exactly for the stored keys. *)
Theorem C13_addr_contains : forall ltb d np, 1 <= d -> forall a key, AInv ltb d np a -> (Addr.contains np a key = true <-> In key (fst a)).
Proof. exact contains_iff. Qed.
Print Assumptions C13_addr_contains.

(** push of a key that is not stored keeps the invariant and adds exactly that key. *)
Theorem C13_addr_push : forall ltb d np, SWO ltb -> 1 <= d -> forall a key,
  AInv ltb d np a -> ~ In key (fst a) -> key < np ->
  AInv ltb d np (Addr.push ltb d np a key) /\ Permutation (fst (Addr.push ltb d np a key)) (key :: fst a).
Proof. exact AddrProofs.push_ok. Qed.
Print Assumptions C13_addr_push.

Theorem C13_addr_clear : forall ltb d np, 1 <= d -> forall a, AInv ltb d np (Addr.clear np a).
Proof. exact AddrProofs.clear_ok. Qed.
Print Assumptions C13_addr_clear.

(** The class's own sift loops and heapify act on heap_ exactly as DAryHeap's (so order, contents and minimality of
    top are inherited); the handle writes of both sift loops re-establish the handle invariant. *)
Theorem C13_addr_sift_up_handles : forall ltb d np, 1 <= d -> forall h hd k,
  k < length h -> NoDup h -> DAry.get 0 h k < length hd -> HFx h hd k -> HB np h hd ->
  fst (Addr.asift_up ltb d (h, hd) k) = sift_up ltb d 0 h k /\
  HF (fst (Addr.asift_up ltb d (h, hd) k)) (snd (Addr.asift_up ltb d (h, hd) k)) /\
  HB np (fst (Addr.asift_up ltb d (h, hd) k)) (snd (Addr.asift_up ltb d (h, hd) k)).
Proof.
  intros ltb d np Hd h hd k H1 H2 H3 H4 H5. split; [exact (asift_up_heap ltb d (h, hd) k)|].
  destruct (asift_up_handles ltb d np Hd h hd k H1 H2 H3 H4 H5) as (A & B & _). auto.
Qed.
Print Assumptions C13_addr_sift_up_handles.

Theorem C13_addr_sift_down_handles : forall ltb d np, SWO ltb -> 1 <= d -> forall h hd k,
  k < length h -> NoDup h -> DAry.get 0 h k < length hd -> HFx h hd k -> HB np h hd ->
  fst (Addr.asift_down ltb d (h, hd) k) = sift_down ltb d 0 h k /\
  HF (fst (Addr.asift_down ltb d (h, hd) k)) (snd (Addr.asift_down ltb d (h, hd) k)) /\
  HB np (fst (Addr.asift_down ltb d (h, hd) k)) (snd (Addr.asift_down ltb d (h, hd) k)).
Proof.
  intros ltb d np HS Hd h hd k H1 H2 H3 H4 H5. split; [exact (asift_down_heap ltb d (h, hd) k)|].
  destruct (asift_down_handles ltb d np HS Hd h hd k H1 H2 H3 H4 H5) as (A & B & _). auto.
Qed.
Print Assumptions C13_addr_sift_down_handles.

(** update(key) of a stored key after its priority changed in either direction (the heap is ordered except at the key's
    position -- see C13_heap_except_of_change) restores the full invariant and keeps the contents; update of a key that
    is not stored is push. *)
Theorem C13_addr_update_present : forall ltb d np, SWO ltb -> 1 <= d -> forall a key,
  NoDup (fst a) -> (forall x, In x (fst a) -> x < np) -> HF (fst a) (snd a) -> HB np (fst a) (snd a) ->
  In key (fst a) -> HeapExcept ltb d 0 (fst a) (DAry.get 0 (snd a) key) ->
  AInv ltb d np (Addr.update ltb d np a key) /\ Permutation (fst (Addr.update ltb d np a key)) (fst a).
Proof. exact update_present_ok. Qed.
Print Assumptions C13_addr_update_present.

Theorem C13_addr_update_absent : forall ltb d np, 1 <= d -> forall a key,
  AInv ltb d np a -> ~ In key (fst a) -> Addr.update ltb d np a key = Addr.push ltb d np a key.
Proof. exact update_absent. Qed.
Print Assumptions C13_addr_update_absent.

(** If only the priority of the element at position k changed (the new comparator agrees with the old one on all other
    pairs), a heap ordered for the old comparator is ordered except at k for the new one; and fix_pos (the direction
    choice of update() and remove()) repairs such a heap. *)
Theorem C13_heap_except_of_change : forall (K : Type) (ltb ltb0 : K -> K -> bool) d dflt (h : list K) k,
  SWO ltb0 -> 1 <= d -> HeapInv ltb0 d dflt h ->
  (forall i j, i < length h -> j < length h -> i <> k -> j <> k ->
     ltb (DAry.get dflt h i) (DAry.get dflt h j) = ltb0 (DAry.get dflt h i) (DAry.get dflt h j)) ->
  HeapExcept ltb d dflt h k.
Proof. exact @HeapExcept_of_change. Qed.
Print Assumptions C13_heap_except_of_change.

Theorem C13_fix_pos : forall (K : Type) (ltb : K -> K -> bool) d dflt, SWO ltb -> 1 <= d -> forall h k,
  k < length h -> HeapExcept ltb d dflt h k ->
  HeapInv ltb d dflt (fix_pos ltb d dflt h k) /\ Permutation (fix_pos ltb d dflt h k) h.
Proof. exact @fix_pos_ok. Qed.
Print Assumptions C13_fix_pos.

(** remove(key) of a stored key: the full invariant is preserved and the contents are the old contents minus the key
    (so contains() stays exact); pop()/extract_top() removes the top, which is a minimum. *)
Theorem C13_addr_remove : forall ltb d np, SWO ltb -> 1 <= d -> forall a key,
  AInv ltb d np a -> In key (fst a) ->
  AInv ltb d np (Addr.remove ltb d np a key) /\
  (forall x, In x (fst (Addr.remove ltb d np a key)) <-> In x (fst a) /\ x <> key) /\
  Permutation (key :: fst (Addr.remove ltb d np a key)) (fst a).
Proof. exact remove_ok. Qed.
Print Assumptions C13_addr_remove.

Theorem C13_addr_pop : forall ltb d np, SWO ltb -> 1 <= d -> forall a x,
  AInv ltb d np a -> Addr.top a = Some x ->
  AInv ltb d np (Addr.pop ltb d np a) /\ Permutation (x :: fst (Addr.pop ltb d np a)) (fst a) /\
  (forall y, In y (fst a) -> leb ltb x y = true).
Proof. exact AddrRemove.pop_ok. Qed.
Print Assumptions C13_addr_pop.

(** All histories.  [astep] interprets push / remove / pop / update (priority of one key changes, then update(key)) /
    silent priority changes (ASet) / update_all / build_heap / clear over an external priority table (comparator =
    order of the CURRENT table, optionally reversed); [avalid] is the executable form of the documented preconditions
    (push: key not stored and <> not_present; remove: stored; pop: non-empty; build_heap: distinct keys; after an ASet
    only ASet / update_all / build_heap / clear).  SInv st false = full invariant for the current table;
    SInv st true = its handle part (between a silent change and the next update_all). *)
Theorem C13_addr_history_inv : forall d np rv, 1 <= d -> forall ops st dirty,
  SInv d np rv st dirty -> avalid d np rv st dirty ops = true ->
  SInv d np rv (fold_left (astep d np rv) ops st) (final_dirty dirty ops).
Proof. exact addr_history_inv. Qed.
Print Assumptions C13_addr_history_inv.

Theorem C13_addr_history_init : forall d np rv, 1 <= d -> SInv d np rv ainit false.
Proof. exact SInv_init. Qed.
Print Assumptions C13_addr_history_init.

(** ... hence after every such history (all priority changes announced) contains() is exact and top() is a minimum. *)
Theorem C13_addr_history_observations : forall d np rv, 1 <= d -> forall ops st dirty,
  SInv d np rv st dirty -> avalid d np rv st dirty ops = true -> final_dirty dirty ops = false ->
  let st' := fold_left (astep d np rv) ops st in
  (forall key, Addr.contains np (snd st') key = true <-> In key (fst (snd st'))) /\
  (forall x, Addr.top (snd st') = Some x ->
     forall y, In y (fst (snd st')) -> leb (tab_ltb (fst st') rv) x y = true).
Proof. exact addr_history_observations. Qed.
Print Assumptions C13_addr_history_observations.

(** build_heap (repaired heapify) over ANY previous contents: the new heap is ordered, holds exactly the new keys,
    and the handles describe exactly the new contents (this includes: heapify()'s max_key dominates every key, so
    handles_ is large enough).  update_all restores the full invariant after arbitrary priority changes. *)
Theorem C13_addr_build_heap : forall ltb d np, SWO ltb -> 1 <= d -> forall a keys,
  NoDup keys -> (forall x, In x keys -> x < np) ->
  AInv ltb d np (Addr.build_heap ltb d np a keys) /\ Permutation (fst (Addr.build_heap ltb d np a keys)) keys.
Proof. exact build_heap_ok. Qed.
Print Assumptions C13_addr_build_heap.

Theorem C13_addr_update_all : forall ltb d np, SWO ltb -> 1 <= d -> forall a,
  NoDup (fst a) -> (forall x, In x (fst a) -> x < np) ->
  AInv ltb d np (Addr.update_all ltb d np a) /\ Permutation (fst (Addr.update_all ltb d np a)) (fst a).
Proof. exact update_all_ok. Qed.
Print Assumptions C13_addr_update_all.

(** The shipped heapify (tlx 704fd0b) keeps the handles of the previous heap: after build_heap({5,6}) over {1,2},
    contains(1) is still true and sanity_check() is false; the repaired one answers correctly. *)
Theorem C13_addr_build_heap_shipped_refuted :
  let a0 := Addr.push Nat.ltb 2 255 (Addr.push Nat.ltb 2 255 ([], []) 1) 2 in
  let bad := Addr.build_heap_shipped Nat.ltb 2 255 a0 [5; 6] in
  let good := Addr.build_heap Nat.ltb 2 255 a0 [5; 6] in
  fst bad = [5; 6] /\ Addr.contains 255 bad 1 = true /\ Addr.sanity_check Nat.ltb 2 255 bad = false /\
  fst good = [5; 6] /\ Addr.contains 255 good 1 = false /\ Addr.contains 255 good 5 = true /\
  Addr.sanity_check Nat.ltb 2 255 good = true.
Proof. exact build_heap_shipped_refuted. Qed.
Print Assumptions C13_addr_build_heap_shipped_refuted.

(** ---------------------------------------------------------------- RadixHeap *)

(** For every key width w, every radix 2^rb (rb >= 1) and every pair of w-bit ranks, the (repaired) bucket index
    lies inside the bucket arrays. *)
Theorem C13_radix_bucket_in_range : forall w rb x limit : N,
  (0 < rb)%N -> (x < 2 ^ w)%N -> (limit < 2 ^ w)%N -> (Radix.bucket rb x limit < num_buckets w rb)%N.
Proof. exact bucket_in_range. Qed.
Print Assumptions C13_radix_bucket_in_range.

(** The shipped computation (tlx 704fd0b) for 8-bit keys, Radix 4, key 5 against insertion limit 0: the row is beyond
    every bucket and the shift exponent is >= 64; the repaired index is in range. *)
Theorem C13_radix_bucket_shipped_refuted :
  exists x limit : N, (x < 2 ^ 8 /\ limit < 2 ^ 8 /\
    num_buckets 8 2 <= shipped_row 8 2 x limit /\ 64 <= (2 * shipped_row 8 2 x limit) mod 2 ^ 64 /\
    Radix.bucket 2 x limit < num_buckets 8 2)%N.
Proof. exact bucket_shipped_refuted. Qed.
Print Assumptions C13_radix_bucket_shipped_refuted.

(** For 32- and 64-bit keys the shipped row computation is the repaired one (no behaviour change there). *)
Theorem C13_radix_shipped_row_wide : forall w rb x limit : N,
  (32 <= w)%N -> (w <= 64)%N -> (x < 2 ^ w)%N -> (limit < 2 ^ w)%N -> N.lxor x limit <> 0%N ->
  shipped_row w rb x limit = (N.log2 (N.lxor x limit) / rb)%N.
Proof. exact shipped_row_wide. Qed.
Print Assumptions C13_radix_shipped_row_wide.

Theorem C13_radix_bucket_shipped_refuted_16 :
  exists x limit : N, (x < 2 ^ 16 /\ limit < 2 ^ 16 /\ num_buckets 16 3 <= shipped_row 16 3 x limit)%N.
Proof. exact bucket_shipped_refuted_16. Qed.
Print Assumptions C13_radix_bucket_shipped_refuted_16.

(** Arithmetic of the (repaired) bucket map, for every radix 2^rb and unbounded keys; B rb = 2^rb.
    Monotone in the key; a first-row bucket holds one key value; redistributing a bucket of a higher row against its
    minimum m sends every element to a strictly smaller bucket; raising the limit to a key of a smaller bucket leaves
    the keys of larger buckets where they are. *)
Theorem C13_radix_bucket_mono : forall rb : N, (0 < rb)%N -> forall l x y : N, (l <= x -> x <= y ->
  Radix.bucket rb x l <= Radix.bucket rb y l)%N.
Proof. exact bucket_mono. Qed.
Print Assumptions C13_radix_bucket_mono.

Theorem C13_radix_bucket_row0_inj : forall rb : N, (0 < rb)%N -> forall l x y : N, (l <= x)%N -> (l <= y)%N ->
  Radix.bucket rb x l = Radix.bucket rb y l -> (Radix.bucket rb x l < B rb)%N -> x = y.
Proof. exact bucket_row0_inj. Qed.
Print Assumptions C13_radix_bucket_row0_inj.

Theorem C13_radix_bucket_redistribute : forall rb : N, (0 < rb)%N -> forall l m x : N, (l <= m)%N -> (m <= x)%N ->
  Radix.bucket rb m l = Radix.bucket rb x l -> (B rb <= Radix.bucket rb x l)%N ->
  (Radix.bucket rb x m < Radix.bucket rb x l)%N.
Proof. exact bucket_redistribute. Qed.
Print Assumptions C13_radix_bucket_redistribute.

Theorem C13_radix_bucket_stable : forall rb : N, (0 < rb)%N -> forall l m y : N, (l <= m)%N -> (l <= y)%N ->
  (Radix.bucket rb m l < Radix.bucket rb y l)%N -> (m < y)%N /\ Radix.bucket rb y m = Radix.bucket rb y l.
Proof. exact bucket_stable. Qed.
Print Assumptions C13_radix_bucket_stable.

(** RadixInv.  RInv w sgn rb s fr: the three arrays have num_buckets entries; every value stored in bucket b has
    insertion_limit <= rank < 2^w and bucket(rank, limit) = b; mins_[b] is a lower bound of bucket b and attained if it
    is non-empty (an empty bucket has mins_ = max, except the current bucket, whose stale minimum is the one key of that
    first-row bucket); filled_[b] <-> bucket b non-empty; current_bucket_ < Radix and all buckets below it are empty;
    fr (ghost) = rank of the most recently extracted minimum, limit <= fr and current_bucket_ <= bucket(fr, limit).
    Stored s u = u is in some bucket; contents s = all buckets concatenated; rk v = rank_of_int(key of v). *)
Theorem C13_radix_init : forall w sgn rb, (0 < rb)%N -> (0 < w)%N -> RInv w sgn rb (rinit w rb) 0%N.
Proof. exact rinit_inv. Qed.
Print Assumptions C13_radix_init.

(** push / emplace of a w-bit key whose rank is not below the frontier: invariant kept, the returned index is the
    bucket of the key, exactly that value is added. *)
Theorem C13_radix_push : forall w sgn rb, (0 < rb)%N -> (0 < w)%N -> forall s fr (v : N * nat),
  RInv w sgn rb s fr -> (fst v < 2 ^ w)%N -> (fr <= rk w sgn v)%N ->
  RInv w sgn rb (fst (Radix.push w sgn rb s v)) fr /\
  snd (Radix.push w sgn rb s v) = bidx rb (rk w sgn v) (limit s) /\
  Permutation (contents (fst (Radix.push w sgn rb s v))) (v :: contents s).
Proof.
  intros w sgn rb H1 H2 s fr v I Hv Hf. destruct (push_inv w sgn rb H1 H2 s fr v I Hv Hf) as (A & B & _).
  split; [exact A|]. split; [exact B|]. exact (push_contents w sgn rb H1 H2 s fr v I Hv Hf).
Qed.
Print Assumptions C13_radix_push.

(** reorganize_() on a non-empty heap (incl. the redistribution of the first non-empty bucket and the raised
    insertion limit): invariant kept with the new frontier K, the current bucket is non-empty and holds exactly the
    values of rank K, nothing is lost or duplicated. *)
Theorem C13_radix_reorganize : forall w sgn rb, (0 < rb)%N -> (0 < w)%N -> forall s fr,
  RInv w sgn rb s fr -> NonEmpty w rb s ->
  exists K, RInv w sgn rb (reorganize w sgn rb s) K /\ Ready (reorganize w sgn rb s) /\
    (forall v, In v (nth (cur (reorganize w sgn rb s)) (buckets (reorganize w sgn rb s)) []) -> rk w sgn v = K) /\
    Permutation (concat (buckets (reorganize w sgn rb s))) (concat (buckets s)).
Proof. exact reorganize_inv. Qed.
Print Assumptions C13_radix_reorganize.

(** top() returns a stored value whose rank is minimal among everything stored; contents unchanged. *)
Theorem C13_radix_top_min : forall w sgn rb, (0 < rb)%N -> (0 < w)%N -> forall s fr,
  RInv w sgn rb s fr -> NonEmpty w rb s ->
  (exists v, snd (Radix.top w sgn rb s) = Some v /\ Stored w rb (fst (Radix.top w sgn rb s)) v /\
     RInv w sgn rb (fst (Radix.top w sgn rb s)) (rk w sgn v) /\
     (forall u, Stored w rb (fst (Radix.top w sgn rb s)) u -> (rk w sgn v <= rk w sgn u)%N)) /\
  Permutation (contents (fst (Radix.top w sgn rb s))) (contents s).
Proof.
  intros w sgn rb H1 H2 s fr I NE. split; [exact (top_ok w sgn rb H1 H2 s fr I NE)|exact (top_contents w sgn rb H1 H2 s fr I NE)].
Qed.
Print Assumptions C13_radix_top_min.

(** pop() removes exactly the value top() would return. *)
Theorem C13_radix_pop : forall w sgn rb, (0 < rb)%N -> (0 < w)%N -> forall s fr,
  RInv w sgn rb s fr -> NonEmpty w rb s ->
  exists v, snd (Radix.top w sgn rb s) = Some v /\ RInv w sgn rb (Radix.pop w sgn rb s) (rk w sgn v) /\
    Permutation (v :: contents (Radix.pop w sgn rb s)) (contents s).
Proof.
  intros w sgn rb H1 H2 s fr I NE. destruct (RadixInv.pop_ok w sgn rb H1 H2 s fr I NE) as (v & E & A & _).
  destruct (pop_contents w sgn rb H1 H2 s fr I NE) as (v' & E' & P). exists v. split; [exact E|]. split; [exact A|].
  rewrite E in E'. injection E' as <-. exact P.
Qed.
Print Assumptions C13_radix_pop.

(** swap_top_bucket() hands out exactly the values of minimal rank K; everything that stays has rank > K. *)
Theorem C13_radix_swap_top_bucket : forall w sgn rb, (0 < rb)%N -> (0 < w)%N -> forall s fr,
  RInv w sgn rb s fr -> NonEmpty w rb s ->
  exists K, RInv w sgn rb (fst (swap_top_bucket w sgn rb s)) K /\
    snd (swap_top_bucket w sgn rb s) <> [] /\
    (forall v, In v (snd (swap_top_bucket w sgn rb s)) -> rk w sgn v = K) /\
    (forall u, Stored w rb (fst (swap_top_bucket w sgn rb s)) u -> (K < rk w sgn u)%N) /\
    Permutation (snd (swap_top_bucket w sgn rb s) ++ contents (fst (swap_top_bucket w sgn rb s))) (contents s).
Proof.
  intros w sgn rb H1 H2 s fr I NE. destruct (swap_ok w sgn rb H1 H2 s fr I NE) as (K & A & _ & B & C & _ & D & _).
  exists K. split; [exact A|]. split; [exact B|]. split; [exact C|]. split; [exact D|].
  exact (swap_contents w sgn rb H1 H2 s fr I NE).
Qed.
Print Assumptions C13_radix_swap_top_bucket.

(** peak_top_key() is the key of minimal rank. *)
Theorem C13_radix_peak_top_key : forall w sgn rb, (0 < rb)%N -> (0 < w)%N -> forall s fr,
  RInv w sgn rb s fr -> NonEmpty w rb s ->
  (exists v, Stored w rb s v /\ rk w sgn v = rank_of_int w sgn (peak_top_key w sgn s)) /\
  (forall u, Stored w rb s u -> (rank_of_int w sgn (peak_top_key w sgn s) <= rk w sgn u)%N).
Proof. exact peak_ok. Qed.
Print Assumptions C13_radix_peak_top_key.

(** All monotone histories: [rvalid] = every pushed key is a w-bit pattern whose rank is not below the rank of the most
    recently extracted minimum (0 after clear), and top / pop / swap_top_bucket / peak_top_key are called on a
    non-empty heap only.  RadixInv holds after every such history (hence the per-state theorems above apply in every
    reachable state: top is a minimum, pop / swap_top_bucket remove exactly the minimal values), and size() is the
    number of stored values after every step. *)
Theorem C13_radix_history_inv : forall w sgn rb, (0 < rb)%N -> (0 < w)%N -> forall ops s fr,
  RInv w sgn rb s fr -> rvalid w sgn rb s fr ops = true ->
  RInv w sgn rb (fst (rfinal w sgn rb s fr ops)) (snd (rfinal w sgn rb s fr ops)).
Proof. exact radix_history_inv. Qed.
Print Assumptions C13_radix_history_inv.

Theorem C13_radix_size : forall w sgn rb, (0 < rb)%N -> (0 < w)%N -> forall s fr o,
  RInv w sgn rb s fr -> SizeOK s ->
  match o with
  | RPush k _ => (k < 2 ^ w)%N /\ (fr <= rank_of_int w sgn k)%N
  | RClear => True
  | _ => NonEmpty w rb s
  end -> SizeOK (fst (rstep w sgn rb s o)).
Proof. exact rstep_size. Qed.
Print Assumptions C13_radix_size.

(* Outside the Coq model (tied by the correspondence run only): the BitArray tree behind filled_ (modelled by its
   specification), std::vector, and the identification of rank order with the signed order of key_type
   (IntegerRank's static_asserts; int_at_rank (rank_of_int k) = k is RadixProofs.int_at_rank_of_int). *)
