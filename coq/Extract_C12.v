From TLXV Require Import C12.CPtr C12.Conc C12.Nested.
Require Extraction. Require ExtrOcamlBasic.
Extraction Language OCaml.
Extraction "../ocaml/gen/C12_model.ml" CPtr.run_case Conc.validate Nested.nrun_case.
