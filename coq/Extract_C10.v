From TLXV Require Import C10.Pool.
Require Extraction. Require ExtrOcamlBasic.
Extraction Language OCaml.
Extraction "../ocaml/gen/C10_model.ml" Pool.lstep_gen Pool.init Pool.quiescentb Pool.stranded Pool.some_stranded
  Pool.le_pred Pool.lt_pred Pool.get Pool.cands Pool.xstep.
