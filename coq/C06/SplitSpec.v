(** C06 — the reference partition [split_spec] (per-sequence counts among the first r elements of the
    stable merge, ties to the earlier sequence) satisfies [is_split]; with [Cuts.split_unique] it is
    the only function that does.  This discharges the partition hypothesis of the main theorems for
    the extracted reference instance. *)
From Coq Require Import List Bool Arith Lia PeanoNat Sorting.Sorted Sorting.Permutation.
From TLXV Require Import Common.Order C06.PMS C06.MergeLemmas C06.Layout C06.Cuts.
Import ListNotations.

Section SplitSpecProof.
  Context {A : Type}.
  Variable ltb : A -> A -> bool.
  Hypothesis H : SWO ltb.

  Notation ltb' := (ltb_tag ltb).
  Notation tagged := (fun s : nat => map (fun x : A => (x, s))).

  Lemma ltb_tag_true x y :
    ltb' x y = true <->
    ltb (fst x) (fst y) = true \/ (ltb (fst x) (fst y) = false /\ ltb (fst y) (fst x) = false /\ snd x < snd y).
  Proof.
    unfold ltb_tag. destruct (ltb (fst x) (fst y)) eqn:E1; simpl.
    - split; auto.
    - destruct (ltb (fst y) (fst x)) eqn:E2; simpl.
      + split; [discriminate|]. intros [C|(_ & C & _)]; discriminate.
      + rewrite Nat.ltb_lt. split; [auto|]. intros [C|(_ & _ & C)]; [discriminate|exact C].
  Qed.

  Lemma SWO_ltb_tag : SWO ltb'.
  Proof.
    constructor.
    - intros x. unfold ltb_tag. rewrite (swo_irrefl _ H), Nat.ltb_irrefl. reflexivity.
    - intros x y z Hxy Hyz. apply ltb_tag_true in Hxy. apply ltb_tag_true in Hyz. apply ltb_tag_true.
      destruct Hxy as [Hxy|(Hxy1 & Hxy2 & Hxy3)]; destruct Hyz as [Hyz|(Hyz1 & Hyz2 & Hyz3)].
      + left. eapply (swo_trans _ H); eassumption.
      + left. destruct (swo_negtrans _ H _ _ (fst z) Hxy) as [C|C]; [exact C|congruence].
      + left. destruct (swo_negtrans _ H _ _ (fst x) Hyz) as [C|C]; [congruence|exact C].
      + right. split; [|split; [|lia]].
        * destruct (ltb (fst x) (fst z)) eqn:E; [|reflexivity].
          destruct (swo_negtrans _ H _ _ (fst y) E); congruence.
        * destruct (ltb (fst z) (fst x)) eqn:E; [|reflexivity].
          destruct (swo_negtrans _ H _ _ (fst y) E); congruence.
    - intros x y z Hxy. apply ltb_tag_true in Hxy. rewrite !ltb_tag_true.
      destruct Hxy as [Hxy|(Hxy1 & Hxy2 & Hxy3)].
      + destruct (swo_negtrans _ H _ _ (fst z) Hxy) as [C|C]; [left; left; exact C|right; left; exact C].
      + destruct (ltb (fst x) (fst z)) eqn:Exz; [left; left; reflexivity|].
        destruct (ltb (fst z) (fst x)) eqn:Ezx.
        * right. left. destruct (swo_negtrans _ H _ _ (fst y) Ezx) as [C|C]; [exact C|congruence].
        * (* z equivalent to x (and y): decided by the tags *)
          assert (Ezy : ltb (fst z) (fst y) = false).
          { destruct (ltb (fst z) (fst y)) eqn:E; [|reflexivity].
            destruct (swo_negtrans _ H _ _ (fst x) E); congruence. }
          assert (Eyz : ltb (fst y) (fst z) = false).
          { destruct (ltb (fst y) (fst z)) eqn:E; [|reflexivity].
            destruct (swo_negtrans _ H _ _ (fst x) E); congruence. }
          destruct (Nat.lt_ge_cases (snd x) (snd z)) as [L|G].
          -- left. right. auto.
          -- right. right. split; [exact Ezy|]. split; [exact Eyz|lia].
  Qed.

  Lemma tagged_sorted s l : SS ltb l -> SS ltb' (tagged s l).
  Proof.
    induction 1 as [|x l S IH F]; simpl; constructor; [exact IH|].
    apply Forall_forall. intros y Hy. apply in_map_iff in Hy. destruct Hy as (z & <- & Hz).
    rewrite Forall_forall in F. specialize (F z Hz). unfold sorted_rel in *.
    unfold ltb_tag. simpl. rewrite F, Nat.ltb_irrefl. now rewrite andb_false_r.
  Qed.

  Lemma tag_from_sorted seqs : forall b, Forall (SS ltb) seqs -> Forall (SS ltb') (tag_from b seqs).
  Proof.
    induction seqs as [|l r IH]; intros b F; simpl; [constructor|].
    inversion F; subst. constructor; [now apply tagged_sorted|now apply IH].
  Qed.

  Lemma tag_from_length (seqs : list (list A)) : forall b, length (tag_from b seqs) = length seqs.
  Proof. induction seqs as [|l r IH]; intros b; simpl; [reflexivity|]. now rewrite IH. Qed.

  Lemma in_tag_from (x : A * nat) (seqs : list (list A)) : forall b, In x (concat (tag_from b seqs)) -> b <= snd x < b + length seqs.
  Proof.
    induction seqs as [|l r IH]; intros b Hx; simpl in Hx; [destruct Hx|].
    apply in_app_or in Hx. destruct Hx as [Hx|Hx].
    - apply in_map_iff in Hx. destruct Hx as (y & <- & _). simpl. lia.
    - apply IH in Hx. simpl. lia.
  Qed.

  Lemma concat_tag_from_length (seqs : list (list A)) : forall b, length (concat (tag_from b seqs)) = length (concat seqs).
  Proof.
    induction seqs as [|l r IH]; intros b; simpl; [reflexivity|]. now rewrite !app_length, map_length, IH.
  Qed.

  (** filtering a merge when one side has no matching element *)
  Lemma filter_merge2_l {B} (lt : B -> B -> bool) (P : B -> bool) l1 : forall l2,
    (forall x, In x l2 -> P x = false) -> filter P (merge2 lt l1 l2) = filter P l1.
  Proof.
    induction l1 as [|a1 l1 IH1]; intros l2 N.
    - rewrite merge2_nil_l. induction l2 as [|a2 l2 IH2]; [reflexivity|]. simpl.
      rewrite (N a2) by now left. apply IH2. intros x Hx. apply N. now right.
    - induction l2 as [|a2 l2 IH2]; [now rewrite merge2_nil_r|].
      rewrite merge2_cons. destruct (lt a2 a1).
      + cbn [filter]. rewrite (N a2) by now left. apply IH2. intros x Hx. apply N. now right.
      + cbn [filter]. rewrite IH1 by exact N. reflexivity.
  Qed.

  Lemma filter_merge2_r {B} (lt : B -> B -> bool) (P : B -> bool) l1 : forall l2,
    (forall x, In x l1 -> P x = false) -> filter P (merge2 lt l1 l2) = filter P l2.
  Proof.
    induction l1 as [|a1 l1 IH1]; intros l2 N; [now rewrite merge2_nil_l|].
    induction l2 as [|a2 l2 IH2].
    - rewrite merge2_nil_r. simpl. rewrite (N a1) by now left.
      clear -N. induction l1 as [|x l1 IH]; [reflexivity|]. simpl. rewrite (N x) by (right; now left).
      apply IH. intros y [<-|Hy]; apply N; [now left|right; now right].
    - rewrite merge2_cons. destruct (lt a2 a1).
      + cbn [filter]. now rewrite IH2.
      + cbn [filter]. rewrite (N a1) by now left. rewrite IH1; [reflexivity|]. intros x Hx. apply N. now right.
  Qed.

  Lemma filter_tag_same s (l : list A) : filter (fun x : A * nat => snd x =? s) (tagged s l) = tagged s l.
  Proof. induction l as [|x l IH]; simpl; [reflexivity|]. now rewrite Nat.eqb_refl, IH. Qed.

  Lemma filter_tag_other s b (l : list A) : b <> s -> filter (fun x : A * nat => snd x =? s) (tagged b l) = [].
  Proof.
    intros Hne. induction l as [|x l IH]; simpl; [reflexivity|].
    replace (b =? s) with false by (symmetry; apply Nat.eqb_neq; exact Hne). exact IH.
  Qed.

  (** the elements of sequence s appear in the tagged merge in their original order *)
  Lemma filter_tagged_merge (seqs : list (list A)) : forall b s,
    filter (fun x => snd x =? s) (smerge ltb' (tag_from b seqs)) =
    if b <=? s then tagged s (nth (s - b) seqs []) else [].
  Proof.
    induction seqs as [|l r IH]; intros b s.
    - simpl. destruct (b <=? s); [|reflexivity]. now destruct (s - b).
    - simpl tag_from. simpl smerge.
      destruct (Nat.eq_dec b s) as [->|Hne].
      + rewrite filter_merge2_l.
        * rewrite filter_tag_same, Nat.leb_refl, Nat.sub_diag. reflexivity.
        * intros x Hx. apply (Permutation_in _ (smerge_perm _ _)) in Hx. apply in_tag_from in Hx.
          apply Nat.eqb_neq. lia.
      + rewrite filter_merge2_r.
        * fold (smerge ltb' (tag_from (S b) r)). rewrite IH.
          destruct (Nat.leb_spec b s) as [L|G].
          -- replace (S b <=? s) with true by (symmetry; apply Nat.leb_le; lia).
             replace (s - b) with (S (s - S b)) by lia. reflexivity.
          -- replace (S b <=? s) with false by (symmetry; apply Nat.leb_gt; lia). reflexivity.
        * intros x Hx. apply in_map_iff in Hx. destruct Hx as (y & <- & _). simpl. apply Nat.eqb_neq. exact Hne.
  Qed.

  Lemma sum_indicator k m : k < m -> PMS.sum (map (fun s => if k =? s then 1 else 0) (seq 0 m)) = 1.
  Proof.
    assert (G : forall len b, PMS.sum (map (fun s => if k =? s then 1 else 0) (seq b len)) =
                              if (b <=? k) && (k <? b + len) then 1 else 0).
    { induction len as [|len IH]; intros b; simpl.
      - destruct (Nat.leb_spec b k), (Nat.ltb_spec k (b + 0)); simpl; lia.
      - rewrite IH. destruct (Nat.eqb_spec k b), (Nat.leb_spec b k), (Nat.ltb_spec k (b + S len)),
          (Nat.leb_spec (S b) k), (Nat.ltb_spec k (S b + len)); simpl; lia. }
    intros Hk. rewrite G. simpl. destruct (Nat.ltb_spec k m); [reflexivity|lia].
  Qed.

  Lemma sum_map_add {B} (f g : B -> nat) l :
    PMS.sum (map (fun s => f s + g s) l) = PMS.sum (map f l) + PMS.sum (map g l).
  Proof. induction l as [|x l IH]; simpl; [reflexivity|]. rewrite IH. lia. Qed.

  Lemma count_total (F : list (A * nat)) m : (forall x, In x F -> snd x < m) ->
    PMS.sum (map (fun s => count_tag s F) (seq 0 m)) = length F.
  Proof.
    induction F as [|x F IH]; intros B.
    - simpl. unfold count_tag. simpl. apply sum_map_const0.
    - rewrite (map_ext _ (fun s => (if snd x =? s then 1 else 0) + count_tag s F)).
      + rewrite sum_map_add, sum_indicator by (apply B; now left). rewrite IH; [reflexivity|].
        intros y Hy. apply B. now right.
      + intros s. unfold count_tag. simpl. destruct (snd x =? s); reflexivity.
  Qed.

  Lemma app_eq_firstn_skipn {B} (l1 l2 l : list B) : l1 ++ l2 = l ->
    firstn (length l1) l = l1 /\ skipn (length l1) l = l2.
  Proof.
    intros <-. split.
    - rewrite firstn_app, Nat.sub_diag, firstn_all. simpl. now rewrite app_nil_r.
    - rewrite skipn_app, Nat.sub_diag, skipn_all. reflexivity.
  Qed.

  Theorem split_spec_is_split seqs r :
    Forall (SS ltb) seqs -> r <= length (concat seqs) -> is_split ltb seqs r (split_spec ltb seqs r).
  Proof.
    intros Hs Hr.
    set (M := tagged_merge ltb seqs).
    assert (HM : SS ltb' M) by (apply (smerge_sorted _ SWO_ltb_tag), tag_from_sorted, Hs).
    assert (PM : Permutation M (concat (tag_from 0 seqs))) by apply smerge_perm.
    assert (LM : length M = length (concat seqs)) by (rewrite (Permutation_length PM); apply concat_tag_from_length).
    set (F := firstn r M). set (G := skipn r M).
    assert (FG : F ++ G = M) by apply firstn_skipn.
    assert (Tag : forall s, filter (fun x => snd x =? s) F ++ filter (fun x => snd x =? s) G = tagged s (nth s seqs [])).
    { intros s. rewrite <- filter_app, FG. unfold M, tagged_merge. rewrite filter_tagged_merge. simpl.
      now rewrite Nat.sub_0_r. }
    assert (Nth : forall s, nth s (split_spec ltb seqs r) 0 = count_tag s F).
    { intros s. unfold split_spec. fold M. fold F. destruct (Nat.lt_ge_cases s (length seqs)) as [L|L].
      - now rewrite (nth_map_seq (length seqs)) by exact L.
      - rewrite (nth_map_seq_over (length seqs)) by exact L.
        unfold count_tag. specialize (Tag s). rewrite (nth_overflow seqs) in Tag by exact L. simpl in Tag.
        apply app_eq_nil in Tag. now rewrite (proj1 Tag). }
    assert (Parts : forall s, firstn (count_tag s F) (tagged s (nth s seqs [])) = filter (fun x => snd x =? s) F /\
                              skipn (count_tag s F) (tagged s (nth s seqs [])) = filter (fun x => snd x =? s) G).
    { intros s. apply app_eq_firstn_skipn. apply Tag. }
    split; [|split; [|split]].
    - unfold split_spec. now rewrite map_length, seq_length.
    - intros s. rewrite Nth. unfold count_tag.
      pose proof (f_equal (@length _) (Tag s)) as E. rewrite app_length, map_length in E. lia.
    - unfold split_spec. fold M. fold F. rewrite count_total.
      + unfold F. rewrite firstn_length. lia.
      + intros x Hx. apply in_firstn in Hx. apply (Permutation_in _ PM) in Hx. apply in_tag_from in Hx. lia.
    - intros i j a b Ha Hb. rewrite Nth in Ha, Hb.
      assert (HaF : In (a, i) F).
      { destruct (Parts i) as [P1 _]. apply (in_map (fun x => (x, i))) in Ha. rewrite <- firstn_map in Ha.
        rewrite P1 in Ha. apply filter_In in Ha. apply Ha. }
      assert (HbG : In (b, j) G).
      { destruct (Parts j) as [_ P2]. apply (in_map (fun x => (x, j))) in Hb. rewrite <- skipn_map in Hb.
        rewrite P2 in Hb. apply filter_In in Hb. apply Hb. }
      rewrite <- FG in HM. apply SS_app_inv in HM. destruct HM as (_ & _ & C).
      specialize (C _ _ HaF HbG). unfold sorted_rel, ltb_tag in C. simpl in C.
      apply orb_false_iff in C. destruct C as [C1 C2]. split; [intros _; exact C1|].
      intros Hji. replace (j <? i) with true in C2 by (symmetry; apply Nat.ltb_lt; exact Hji).
      rewrite andb_true_r in C2. now apply negb_false_iff in C2.
  Qed.
End SplitSpecProof.
