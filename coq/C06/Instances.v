(** C06 — the general theorems with their partition / merge hypotheses discharged by the proved models
    of the other properties:
      - [partition]  := the model of multisequence_partition (C08, [MSP.partition], repaired tie rule),
                        offsets converted from Z to nat; hypothesis [partitions] by [MSPCorrect.partition_correct];
      - [mmerge]     := the model of multiway_merge_base (C05, [Model.mwm_base]: the k = 0/1/2/3/4/many
                        switch, merge_advance, the generated 3/4-way automata, loser-tree merges over the
                        reference tournament), algorithm MWMA_ALGORITHM_DEFAULT = MWMA_LOSER_TREE_COMBINED,
                        no sentinels, full length; hypotheses [merges] / "= stable merge" by [Final.ref_mwm_run];
      - the local sorts stay std::sort / std::stable_sort by specification.
    Adapters: C05's [gmerge] (step-wise leftmost-minimal-head merge) is C06's [PMS.smerge] (fold of binary
    stable merges) on every input; C08's [is_split] ([nth_error] form) implies C06's [Cuts.is_split]. *)
From Coq Require Import List Bool Arith Lia PeanoNat ZArith Sorting.Sorted Sorting.Permutation.
From TLXV Require Import Common.Order.
From TLXV Require C05.StableMerge C05.Model C05.MergeFacts C05.StableMergeFacts C05.BaseProofs C05.RefTreeProofs C05.Final.
From TLXV Require C05.C09Model C05.C09Instance.
From TLXV Require C08.MSP C08.MSPSpec C08.MSPCorrect.
From TLXV Require Import C06.PMS C06.MergeLemmas C06.Layout C06.Cuts C06.PMSProofs C06.Top.
Import ListNotations.

Section Instances.
  Context {A : Type}.
  Variable ltb : A -> A -> bool.
  Hypothesis H : SWO ltb.

  (** * C05: the step-wise stable merge is the fold of binary stable merges *)
  Lemma spick_none_smerge (st : list (list A)) : StableMerge.spick ltb st = None -> PMS.smerge ltb st = [].
  Proof.
    induction st as [|l st IH]; [reflexivity|]. cbn [StableMerge.spick].
    destruct l as [|x l]; destruct (StableMerge.spick ltb st) as [[j y]|]; try discriminate.
    - intros _. cbn [PMS.smerge fold_right]. rewrite merge2_nil_l. now apply IH.
    - destruct (ltb y x); discriminate.
  Qed.

  Lemma smerge_step (st : list (list A)) : forall s x,
    StableMerge.spick ltb st = Some (s, x) -> PMS.smerge ltb st = x :: PMS.smerge ltb (StableMerge.adv s st).
  Proof.
    induction st as [|l st IH]; intros s x E; [discriminate|]. cbn [StableMerge.spick] in E.
    change (PMS.smerge ltb (l :: st)) with (PMS.merge2 ltb l (PMS.smerge ltb st)).
    destruct l as [|x0 l0]; destruct (StableMerge.spick ltb st) as [[j y]|] eqn:E'.
    - inversion E; subst. rewrite merge2_nil_l, (IH _ _ eq_refl).
      unfold StableMerge.adv. cbn [nth StableMerge.upd]. fold (StableMerge.adv j st).
      change (PMS.smerge ltb ([] :: StableMerge.adv j st)) with (PMS.merge2 ltb [] (PMS.smerge ltb (StableMerge.adv j st))).
      now rewrite merge2_nil_l.
    - discriminate.
    - rewrite (IH _ _ eq_refl), merge2_cons.
      destruct (ltb y x0); inversion E; subst.
      + unfold StableMerge.adv. cbn [nth StableMerge.upd]. fold (StableMerge.adv j st).
        change (PMS.smerge ltb ((x0 :: l0) :: StableMerge.adv j st))
          with (PMS.merge2 ltb (x0 :: l0) (PMS.smerge ltb (StableMerge.adv j st))). reflexivity.
      + unfold StableMerge.adv. cbn [nth StableMerge.upd tl].
        change (PMS.smerge ltb (l0 :: st)) with (PMS.merge2 ltb l0 (PMS.smerge ltb st)).
        now rewrite (IH _ _ eq_refl).
    - inversion E; subst. rewrite (spick_none_smerge _ E'), merge2_nil_r.
      unfold StableMerge.adv. cbn [nth StableMerge.upd tl].
      change (PMS.smerge ltb (l0 :: st)) with (PMS.merge2 ltb l0 (PMS.smerge ltb st)).
      now rewrite (spick_none_smerge _ E'), merge2_nil_r.
  Qed.

  Lemma msteps_smerge n : forall st, StableMerge.total st = n -> fst (StableMerge.msteps ltb n st) = PMS.smerge ltb st.
  Proof.
    induction n as [|n IH]; intros st T.
    - simpl. symmetry. destruct (StableMerge.spick ltb st) as [[s x]|] eqn:E; [|now apply spick_none_smerge].
      destruct (MergeFacts.spick_spec ltb H _ _ _ E) as (r & Hr & _).
      pose proof (MergeFacts.total_upd _ _ _ _ Hr). lia.
    - cbn [StableMerge.msteps]. destruct (StableMerge.spick ltb st) as [[s x]|] eqn:E.
      + rewrite (smerge_step _ _ _ E).
        assert (T' : StableMerge.total (StableMerge.adv s st) = n).
        { destruct (MergeFacts.spick_spec ltb H _ _ _ E) as (r & Hr & _). unfold StableMerge.adv.
          rewrite (MergeFacts.nth_error_nth_default _ _ _ [] Hr). cbn [tl].
          pose proof (MergeFacts.total_upd _ _ _ _ Hr). lia. }
        specialize (IH _ T'). destruct (StableMerge.msteps ltb n (StableMerge.adv s st)) as [o st'].
        simpl in *. now rewrite IH.
      + pose proof (MergeFacts.spick_none ltb _ E). lia.
  Qed.

  (** C05's specification merge = C06's, on every input *)
  Theorem gmerge_is_smerge (st : list (list A)) : StableMerge.gmerge ltb st = PMS.smerge ltb st.
  Proof. unfold StableMerge.gmerge. now apply msteps_smerge. Qed.

  (** * The C05 model of multiway_merge_base<Stable, false>(seqs, target, total length, comp) *)
  Definition mmerge_c05 (stable : bool) (seqs : list (list A)) : list A :=
    match Model.mwm_base ltb (@Model.RGT A) (@Model.rgt_init A) (Model.rgt_min ltb) (Model.rgt_dmi ltb)
                         (@Model.RUT A) (@Model.rut_init A) (Model.rut_min ltb) (Model.rut_dmi ltb)
                         stable false Model.MWMA_LOSER_TREE_COMBINED seqs [] (StableMerge.total seqs) with
    | Some (out, _) => out
    | None => []                       (* a read at/after an end: excluded by [mmerge_c05_run] *)
    end.

  Lemma SS_inputs_ok (seqs : list (list A)) : Forall (SS ltb) seqs -> Final.inputs_ok ltb seqs.
  Proof.
    unfold Final.inputs_ok. apply Forall_impl. intros l Hl. apply sortedb_Sorted.
    now apply StronglySorted_Sorted.
  Qed.

  Lemma mmerge_c05_run stable (seqs : list (list A)) : Forall (SS ltb) seqs ->
    exists st', StableMerge.mrun ltb stable seqs (mmerge_c05 stable seqs) st' /\
                length (mmerge_c05 stable seqs) = StableMerge.total seqs.
  Proof.
    intros Hs. unfold mmerge_c05.
    destruct (Final.ref_mwm_run ltb H stable false Model.MWMA_LOSER_TREE_COMBINED seqs [] (StableMerge.total seqs)
                (SS_inputs_ok _ Hs) (le_n _) ltac:(discriminate)) as (out & st' & E & R & L).
    rewrite E. exists st'. split; assumption.
  Qed.

  Lemma total_concat (seqs : list (list A)) : StableMerge.total seqs = length (concat seqs).
  Proof. unfold StableMerge.total. induction seqs as [|l r IH]; simpl; [reflexivity|]. now rewrite app_length, IH. Qed.

  (** both the stable and the unstable instantiation return a sorted permutation ... *)
  Theorem mmerge_c05_merges stable : merges ltb (mmerge_c05 stable).
  Proof.
    intros seqs Hs. destruct (mmerge_c05_run stable seqs Hs) as (st' & R & L).
    pose proof (StableMergeFacts.mrun_perm ltb _ _ _ _ R) as P.
    assert (E : concat st' = []).
    { pose proof (Permutation_length P) as PL. rewrite app_length, L, total_concat in PL.
      destruct (concat st'); [reflexivity|simpl in PL; lia]. }
    rewrite E, app_nil_r in P. split; [exact P|].
    assert (Hss : MergeFacts.sorted_state ltb seqs) by exact Hs.
    exact (proj1 (MergeFacts.mrun_sorted ltb H _ _ _ _ Hss R)).
  Qed.

  (** ... and the stable one returns the stable merge *)
  Theorem mmerge_c05_stable (seqs : list (list A)) : Forall (SS ltb) seqs -> mmerge_c05 true seqs = PMS.smerge ltb seqs.
  Proof.
    intros Hs. destruct (mmerge_c05_run true seqs Hs) as (st' & R & L).
    destruct (StableMergeFacts.mrun_true_gmerge ltb H _ _ _ R) as [E _].
    rewrite E, L, <- (StableMergeFacts.gmerge_length ltb H seqs), firstn_all. apply gmerge_is_smerge.
  Qed.

  (** * The same over C09's loser-tree model instead of the reference tournament
      [C09Model.c9_mwm] = [mwm_base] over C09's [lt_build / lt_min_source / lt_delete_min_insert] ([ptr]: the
      pointer-based or the copy-based tree classes; [dk]: the key stored in never-filled slots).  C09's model
      covers up to 2^30 players ([Source = uint32_t]); with more sequences than that - outside anything the sort
      can be asked to do with one thread per sequence - the wrapper falls back to [mmerge_c05]. *)
  Variable dk : A.
  Definition mmerge_c09 (ptr stable : bool) (seqs : list (list A)) : list A :=
    if (N.of_nat (length seqs) <=? 2 ^ 30)%N then
      match C09Model.c9_mwm ltb dk ptr stable false Model.MWMA_LOSER_TREE_COMBINED seqs [] (StableMerge.total seqs) with
      | Some (out, _) => out
      | None => []
      end
    else mmerge_c05 stable seqs.

  Lemma mmerge_c09_run ptr stable (seqs : list (list A)) : Forall (SS ltb) seqs ->
    exists st', StableMerge.mrun ltb stable seqs (mmerge_c09 ptr stable seqs) st' /\
                length (mmerge_c09 ptr stable seqs) = StableMerge.total seqs.
  Proof.
    intros Hs. unfold mmerge_c09. destruct (N.leb_spec (N.of_nat (length seqs)) (2 ^ 30)) as [Hk|Hk].
    - destruct (C09Instance.c9_mwm_run ltb H dk ptr stable false Model.MWMA_LOSER_TREE_COMBINED seqs [] (StableMerge.total seqs)
                  (SS_inputs_ok _ Hs) (le_n _) ltac:(discriminate) Hk) as (out & st' & E & R & L).
      rewrite E. exists st'. split; assumption.
    - now apply mmerge_c05_run.
  Qed.

  Theorem mmerge_c09_merges ptr stable : merges ltb (mmerge_c09 ptr stable).
  Proof.
    intros seqs Hs. destruct (mmerge_c09_run ptr stable seqs Hs) as (st' & R & L).
    pose proof (StableMergeFacts.mrun_perm ltb _ _ _ _ R) as P.
    assert (E : concat st' = []).
    { pose proof (Permutation_length P) as PL. rewrite app_length, L, total_concat in PL.
      destruct (concat st'); [reflexivity|simpl in PL; lia]. }
    rewrite E, app_nil_r in P. split; [exact P|].
    assert (Hss : MergeFacts.sorted_state ltb seqs) by exact Hs.
    exact (proj1 (MergeFacts.mrun_sorted ltb H _ _ _ _ Hss R)).
  Qed.

  Theorem mmerge_c09_stable ptr (seqs : list (list A)) : Forall (SS ltb) seqs -> mmerge_c09 ptr true seqs = PMS.smerge ltb seqs.
  Proof.
    intros Hs. destruct (mmerge_c09_run ptr true seqs Hs) as (st' & R & L).
    destruct (StableMergeFacts.mrun_true_gmerge ltb H _ _ _ R) as [E _].
    rewrite E, L, <- (StableMergeFacts.gmerge_length ltb H seqs), firstn_all. apply gmerge_is_smerge.
  Qed.

  (** * The C08 model of multisequence_partition, offsets as nat *)
  Definition partition_c08 (seqs : list (list A)) (r : nat) : list nat :=
    match MSP.partition ltb seqs (Z.of_nat r) with
    | Some offs => map Z.to_nat offs
    | None => []                       (* violated precondition / assertion: excluded by [partition_c08_spec] *)
    end.

  Lemma SS_all_sorted (seqs : list (list A)) : Forall (SS ltb) seqs -> MSPSpec.all_sorted ltb seqs.
  Proof. exact (SS_inputs_ok seqs). Qed.

  Lemma msp_total (seqs : list (list A)) : MSP.total seqs = length (concat seqs).
  Proof. unfold MSP.total. induction seqs as [|l r IH]; simpl; [reflexivity|]. now rewrite app_length, IH. Qed.

  Lemma list_sum_sum (l : list nat) : list_sum l = PMS.sum l.
  Proof. reflexivity. Qed.

  Lemma in_firstn_nth_error (l : list A) c a : In a (firstn c l) -> exists q, q < c /\ nth_error l q = Some a.
  Proof.
    revert c. induction l as [|x l IH]; intros [|c] Ha; simpl in Ha; try contradiction.
    destruct Ha as [<-|Ha]; [exists 0; split; [lia|reflexivity]|].
    destruct (IH _ Ha) as (q & Hq & E). exists (S q). split; [lia|exact E].
  Qed.

  Lemma in_skipn_nth_error (l : list A) c b : In b (skipn c l) -> exists q, c <= q /\ nth_error l q = Some b.
  Proof.
    revert c. induction l as [|x l IH]; intros [|c] Hb; cbn [skipn] in Hb; try contradiction.
    - destruct (In_nth_error _ _ Hb) as (q & E). exists q. split; [lia|exact E].
    - destruct (IH _ Hb) as (q & Hq & E). exists (S q). split; [lia|exact E].
  Qed.

  Lemma nth_nth_error {B} (l : list B) i d : i < length l -> nth_error l i = Some (nth i l d).
  Proof. revert i. induction l as [|x l IH]; intros [|i] Hi; simpl in *; try lia; [reflexivity|apply IH; lia]. Qed.

  (** C08's form of the specification implies the form used by the C06 theorems *)
  Lemma msp_is_split (seqs : list (list A)) r cs : MSP.is_split ltb seqs r cs -> Cuts.is_split ltb seqs r cs.
  Proof.
    intros (L & B & S & C). split; [exact L|]. split; [|split; [exact S|]].
    - intros s. destruct (Nat.lt_ge_cases s (length cs)) as [Hs|Hs].
      + apply (B s); apply nth_nth_error; lia.
      + rewrite (nth_overflow cs) by exact Hs. lia.
    - intros i j a b Ha Hb.
      destruct (Nat.lt_ge_cases i (length cs)) as [Hi|Hi].
      2: { rewrite (nth_overflow cs) in Ha by exact Hi. destruct Ha. }
      destruct (Nat.lt_ge_cases j (length cs)) as [Hj|Hj].
      2: { rewrite (nth_overflow seqs) in Hb by lia. rewrite skipn_nil in Hb. destruct Hb. }
      destruct (in_firstn_nth_error _ _ _ Ha) as (q1 & Hq1 & E1).
      destruct (in_skipn_nth_error _ _ _ Hb) as (q2 & Hq2 & E2).
      pose proof (C i j _ _ _ _ q1 q2 a b (nth_nth_error cs i 0 Hi) (nth_nth_error seqs i [] ltac:(lia))
                    (nth_nth_error cs j 0 Hj) (nth_nth_error seqs j [] ltac:(lia)) Hq1 Hq2 E1 E2) as Lx.
      unfold MSP.lexle, MSP.lexlt in Lx. simpl in Lx. apply negb_true_iff in Lx.
      destruct (ltb b a) eqn:Eba; [discriminate|]. split; [reflexivity|].
      intros Hji. destruct (ltb a b) eqn:Eab; [reflexivity|].
      apply Nat.ltb_ge in Lx. lia.
  Qed.

  Lemma map_to_nat_of_nat (l : list nat) : map Z.to_nat (map Z.of_nat l) = l.
  Proof. induction l as [|x l IH]; simpl; [reflexivity|]. now rewrite Nat2Z.id, IH. Qed.

  Theorem partition_c08_spec : partitions ltb partition_c08.
  Proof.
    intros seqs r Hne Hall Hs Hr.
    assert (Hd : MSP.dflt seqs <> None).
    { destruct seqs as [|[|x l] rest]; [congruence| |simpl; discriminate].
      inversion Hall as [|? ? Hl _]; subst. congruence. }
    assert (He : MSP.any_empty seqs = false).
    { unfold MSP.any_empty. clear -Hall. induction Hall as [|l rest Hl _ IH]; [reflexivity|].
      simpl. destruct l; [congruence|exact IH]. }
    assert (Hr' : r <= MSP.total seqs) by (rewrite msp_total; exact Hr).
    unfold partition_c08.
    rewrite (MSPCorrect.partition_correct ltb H seqs r Hd He (SS_all_sorted _ Hs) Hr'), map_to_nat_of_nat.
    apply msp_is_split. exact (MSPSpec.split_spec_is_split ltb H seqs r (SS_all_sorted _ Hs) Hr').
  Qed.

  (** * The closed theorems *)
  Variables lsort ssort : list A -> list A.
  Variable d : A.
  Hypothesis Hlsort : sorts ltb lsort.
  Hypothesis Hssort : sorts ltb ssort.

  (** parallel_mergesort over the C08 partition and the C05 merge (stable or not) *)
  Theorem pms_c08_c05_sorted_permutation stable sampling os p input : (sampling = true -> 1 <= os) -> 1 <= p ->
    let r := pms ltb lsort ssort partition_c08 (mmerge_c05 stable) d sampling os p input in
    Permutation (res_array r) input /\ SS ltb (res_array r) /\ res_ok r = true.
  Proof.
    apply (pms_sorted_permutation ltb H lsort ssort partition_c08 (mmerge_c05 stable) d Hlsort Hssort
             partition_c08_spec (mmerge_c05_merges stable)).
  Qed.

  (** stable_parallel_mergesort over the C08 partition and the stable C05 merge *)
  Theorem pms_c08_c05_stable sampling os p input : (sampling = true -> 1 <= os) -> 1 <= p ->
    (forall l, lsort l = stable_sort ltb l) ->
    res_array (pms ltb lsort ssort partition_c08 (mmerge_c05 true) d sampling os p input) = stable_sort ltb input.
  Proof.
    intros Hos Hp Hst.
    apply (pms_stable ltb H lsort ssort partition_c08 (mmerge_c05 true) d Hlsort Hssort
             partition_c08_spec (mmerge_c05_merges true) Hst mmerge_c05_stable); assumption.
  Qed.

  (** ... and over the C09 trees *)
  Theorem pms_c08_c09_sorted_permutation ptr stable sampling os p input : (sampling = true -> 1 <= os) -> 1 <= p ->
    let r := pms ltb lsort ssort partition_c08 (mmerge_c09 ptr stable) d sampling os p input in
    Permutation (res_array r) input /\ SS ltb (res_array r) /\ res_ok r = true.
  Proof.
    apply (pms_sorted_permutation ltb H lsort ssort partition_c08 (mmerge_c09 ptr stable) d Hlsort Hssort
             partition_c08_spec (mmerge_c09_merges ptr stable)).
  Qed.

  Theorem pms_c08_c09_stable ptr sampling os p input : (sampling = true -> 1 <= os) -> 1 <= p ->
    (forall l, lsort l = stable_sort ltb l) ->
    res_array (pms ltb lsort ssort partition_c08 (mmerge_c09 ptr true) d sampling os p input) = stable_sort ltb input.
  Proof.
    intros Hos Hp Hst.
    apply (pms_stable ltb H lsort ssort partition_c08 (mmerge_c09 ptr true) d Hlsort Hssort
             partition_c08_spec (mmerge_c09_merges ptr true) Hst (mmerge_c09_stable ptr)); assumption.
  Qed.
End Instances.
