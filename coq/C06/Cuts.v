(** C06 — cuts of a family of sorted sequences, and the generic "chain of cuts" theorems:
    if the p sorted runs are cut at p-1 monotone cuts that respect the (value, run) order, then
    merging the pieces between consecutive cuts and concatenating the results gives the merge of
    the whole runs (stable case: literally the stable merge; general case: a sorted permutation). *)
From Coq Require Import List Bool Arith Lia PeanoNat Sorting.Sorted Sorting.Permutation.
From TLXV Require Import Common.Order C06.PMS C06.MergeLemmas C06.Layout.
Import ListNotations.

Lemma combine_map_same {X B C} (f : X -> B) (g : X -> C) (l : list X) :
  combine (map f l) (map g l) = map (fun x => (f x, g x)) l.
Proof. induction l as [|x l IH]; simpl; [reflexivity|]. now rewrite IH. Qed.

Section Cuts.
  Context {A : Type}.
  Variable ltb : A -> A -> bool.
  Hypothesis H : SWO ltb.

  Notation smerge := (smerge ltb).
  Notation SS := (SS ltb).
  Notation le := (sorted_rel ltb).

  (** [c] cuts every sequence into a left and a right part such that every left element is before
      every right element in the (value, sequence index) order — the tie rule of
      multisequence_partition ("favour the earlier sequence"). *)
  Definition is_cut (seqs : list (list A)) (c : list nat) : Prop :=
    forall i j a b,
      In a (firstn (nth i c 0) (nth i seqs [])) -> In b (skipn (nth j c 0) (nth j seqs [])) ->
      (i <= j -> ltb b a = false) /\ (j < i -> ltb a b = true).

  (** The specification of multisequence_partition at global rank [r] (C08: [split_spec] is the
      unique such split, see [split_unique]). *)
  Definition is_split (seqs : list (list A)) (r : nat) (c : list nat) : Prop :=
    length c = length seqs /\
    (forall s, nth s c 0 <= length (nth s seqs [])) /\
    PMS.sum c = r /\
    is_cut seqs c.

  Lemma elem_between (l : list A) c c' : c < c' -> c' <= length l ->
    exists x, In x (firstn c' l) /\ In x (skipn c l).
  Proof.
    intros Hc Hl. destruct (skipn c l) as [|x r] eqn:E.
    - pose proof (skipn_length c l) as L. rewrite E in L. simpl in L. lia.
    - exists x. split; [|now left].
      replace c' with (c + S (c' - c - 1)) by lia. rewrite firstn_add, E. apply in_or_app. right. now left.
  Qed.

  (** splits at increasing ranks are monotone in every sequence *)
  Lemma split_mono seqs r1 r2 c1 c2 :
    is_split seqs r1 c1 -> is_split seqs r2 c2 -> r1 <= r2 -> forall s, nth s c1 0 <= nth s c2 0.
  Proof.
    intros (L1 & B1 & S1 & C1) (L2 & B2 & S2 & C2) Hr i.
    destruct (Nat.le_gt_cases (nth i c1 0) (nth i c2 0)) as [Hle|Hgt]; [exact Hle|exfalso].
    destruct (sum_le_witness c1 c2 ltac:(lia) ltac:(lia) (ex_intro _ i Hgt)) as (j & Hj).
    destruct (elem_between (nth i seqs []) _ _ Hgt (B1 i)) as (a & Ha1 & Ha2).
    destruct (elem_between (nth j seqs []) _ _ Hj (B2 j)) as (b & Hb2 & Hb1).
    destruct (C1 i j a b Ha1 Hb1) as [P1 P2].
    destruct (C2 j i b a Hb2 Ha2) as [Q1 Q2].
    destruct (Nat.lt_trichotomy i j) as [Hij|[Hij|Hij]].
    - rewrite P1 in Q2 by lia. specialize (Q2 Hij). discriminate.
    - subst. lia.
    - rewrite Q1 in P2 by lia. specialize (P2 Hij). discriminate.
  Qed.

  (** ... hence the split at a rank is unique: the tie rule pins the answer *)
  Lemma split_unique seqs r c1 c2 : is_split seqs r c1 -> is_split seqs r c2 -> c1 = c2.
  Proof.
    intros S1 S2. apply (nth_ext _ _ 0 0).
    - destruct S1 as (L1 & _), S2 as (L2 & _). lia.
    - intros s _. apply Nat.le_antisymm; eapply split_mono; eauto.
  Qed.

  Lemma concat_zip_app_perm (As : list (list A)) : forall Bs, length As = length Bs ->
    Permutation (concat (zip_app As Bs)) (concat As ++ concat Bs).
  Proof.
    induction As as [|a As IH]; intros [|b Bs] L; try discriminate; [constructor|].
    unfold zip_app. simpl. fold (zip_app As Bs).
    rewrite <- !app_assoc. apply Permutation_app_head.
    eapply perm_trans; [apply Permutation_app_head, IH; simpl in L; lia|].
    rewrite !app_assoc. apply Permutation_app_tail. apply Permutation_app_comm.
  Qed.

  Lemma SS_concat (ls : list (list A)) :
    (forall t, SS (nth t ls [])) ->
    (forall t t' a b, t < t' -> In a (nth t ls []) -> In b (nth t' ls []) -> le a b) ->
    SS (concat ls).
  Proof.
    induction ls as [|l r IH]; intros Hs Hc; [constructor|]. simpl. apply SS_app.
    - apply (Hs 0).
    - apply IH; [intros t; apply (Hs (S t))|]. intros t t' a b Htt Ha Hb. apply (Hc (S t) (S t') a b); [lia|exact Ha|exact Hb].
    - intros a b Ha Hb. apply in_concat in Hb. destruct Hb as (l' & Hl' & Hb).
      destruct (In_nth _ _ [] Hl') as (j & _ & Hj). apply (Hc 0 (S j) a b); [lia|exact Ha|]. simpl. now rewrite Hj.
  Qed.

  (** * a chain of p+1 cuts of p runs *)
  Section Chain.
    Variable temps : list (list A).
    Variable p : nat.
    Variable cuts : nat -> list nat.
    Hypothesis Hlen : length temps = p.
    Hypothesis K0 : cuts 0 = map (fun _ => 0) (seq 0 p).
    Hypothesis Kp : cuts p = map (fun s => length (nth s temps [])) (seq 0 p).
    Hypothesis Klen : forall t, t <= p -> length (cuts t) = p.
    Hypothesis Kmono : forall t s, t < p -> s < p -> nth s (cuts t) 0 <= nth s (cuts (S t)) 0.
    Hypothesis Kcut : forall t, 0 < t < p -> is_cut temps (cuts t).

    Definition piece (t s : nat) : list A :=
      slice (nth s temps []) (nth s (cuts t) 0) (nth s (cuts (S t)) 0).
    Definition pieces_of (t : nat) : list (list A) := map (piece t) (seq 0 p).
    Definition prefixes (k : nat) : list (list A) :=
      map (fun s => firstn (nth s (cuts k) 0) (nth s temps [])) (seq 0 p).

    Lemma Kmono_le t t' s : t <= t' -> t' <= p -> s < p -> nth s (cuts t) 0 <= nth s (cuts t') 0.
    Proof.
      intros Htt Hp Hs. induction t' as [|t' IH]; [replace t with 0 by lia; lia|].
      destruct (Nat.eq_dec t (S t')) as [->|Hne]; [lia|].
      etransitivity; [apply IH; lia|]. apply Kmono; lia.
    Qed.

    Lemma cut_bound t s : t <= p -> s < p -> nth s (cuts t) 0 <= length (nth s temps []).
    Proof.
      intros Ht Hs. etransitivity; [apply (Kmono_le t p s); lia|].
      rewrite Kp. rewrite (nth_indep _ 0 (length (nth 0 temps []))) by (rewrite map_length, seq_length; exact Hs).
      rewrite (map_nth (fun s => length (nth s temps []))). rewrite seq_nth by exact Hs. simpl. lia.
    Qed.

    Lemma nth_map_seq {B} (f : nat -> B) d s : s < p -> nth s (map f (seq 0 p)) d = f s.
    Proof.
      intros Hs. rewrite (nth_indep _ d (f 0)) by (rewrite map_length, seq_length; exact Hs).
      rewrite (map_nth f). now rewrite seq_nth by exact Hs.
    Qed.

    Lemma nth_map_seq_over {B} (f : nat -> B) d s : p <= s -> nth s (map f (seq 0 p)) d = d.
    Proof. intros Hs. apply nth_overflow. now rewrite map_length, seq_length. Qed.

    Lemma prefixes_0 : prefixes 0 = map (fun _ => []) (seq 0 p).
    Proof.
      unfold prefixes. apply map_ext_in. intros s Hs. apply in_seq in Hs.
      rewrite K0, nth_map_seq by lia. reflexivity.
    Qed.

    Lemma prefixes_p : prefixes p = temps.
    Proof.
      unfold prefixes. apply (nth_ext _ _ [] []).
      - now rewrite map_length, seq_length.
      - intros s Hs. rewrite map_length, seq_length in Hs. rewrite nth_map_seq by exact Hs.
        rewrite Kp, nth_map_seq by exact Hs. apply firstn_all.
    Qed.

    Lemma prefixes_step k : k < p -> zip_app (prefixes k) (pieces_of k) = prefixes (S k).
    Proof.
      intros Hk. unfold zip_app, prefixes, pieces_of.
      rewrite combine_map_same. rewrite map_map. apply map_ext_in. intros s Hs. apply in_seq in Hs.
      simpl. unfold piece. apply firstn_slice. apply Kmono; lia.
    Qed.

    Lemma piece_right t s b : In b (piece t s) -> In b (skipn (nth s (cuts t) 0) (nth s temps [])).
    Proof. apply in_slice_skipn. Qed.

    Lemma piece_left t s a : t < p -> s < p -> In a (piece t s) -> In a (firstn (nth s (cuts (S t)) 0) (nth s temps [])).
    Proof. intros Ht Hs. apply in_slice_firstn. apply Kmono; lia. Qed.

    Lemma prefixes_cross k : k < p -> cross ltb (prefixes k) (pieces_of k).
    Proof.
      intros Hk i j a b Ha Hb.
      destruct (Nat.lt_ge_cases i p) as [Hi|Hi].
      2: { unfold prefixes in Ha. rewrite nth_map_seq_over in Ha by exact Hi. destruct Ha. }
      destruct (Nat.lt_ge_cases j p) as [Hj|Hj].
      2: { unfold pieces_of in Hb. rewrite nth_map_seq_over in Hb by exact Hj. destruct Hb. }
      unfold prefixes in Ha. rewrite nth_map_seq in Ha by exact Hi.
      unfold pieces_of in Hb. rewrite nth_map_seq in Hb by exact Hj.
      apply piece_right in Hb.
      destruct k as [|k].
      - rewrite K0, nth_map_seq in Ha by exact Hi. destruct Ha.
      - apply (Kcut (S k) ltac:(lia) i j a b Ha Hb).
    Qed.

    (** stable case: merging the pieces thread by thread = merging the runs *)
    Lemma chain_smerge k : k <= p ->
      concat (map (fun t => smerge (pieces_of t)) (seq 0 k)) = smerge (prefixes k).
    Proof.
      induction k as [|k IH]; intros Hk.
      - rewrite prefixes_0. simpl. clear. induction (seq 0 p); simpl; auto.
        now rewrite <- IHl.
      - rewrite seq_S, map_app, concat_app, IH by lia. simpl. rewrite app_nil_r.
        rewrite <- prefixes_step by lia. symmetry. apply smerge_split.
        + unfold prefixes, pieces_of. now rewrite !map_length.
        + apply prefixes_cross. lia.
    Qed.

    Theorem chain_stable : concat (map (fun t => smerge (pieces_of t)) (seq 0 p)) = smerge temps.
    Proof. rewrite chain_smerge by lia. now rewrite prefixes_p. Qed.

    (** general case *)
    Lemma chain_perm k : k <= p ->
      Permutation (concat (map (fun t => concat (pieces_of t)) (seq 0 k))) (concat (prefixes k)).
    Proof.
      induction k as [|k IH]; intros Hk.
      - rewrite prefixes_0. simpl. clear. induction (seq 0 p); simpl; auto.
      - rewrite seq_S, map_app, concat_app. simpl. rewrite app_nil_r.
        rewrite <- prefixes_step by lia.
        eapply perm_trans; [apply Permutation_app_tail, IH; lia|].
        apply Permutation_sym, concat_zip_app_perm. unfold prefixes, pieces_of. now rewrite !map_length.
    Qed.

    Lemma prefixes_total k : k <= p -> length (concat (prefixes k)) = PMS.sum (cuts k).
    Proof.
      intros Hk. rewrite length_concat. f_equal. unfold prefixes. rewrite map_map.
      apply (nth_ext _ _ 0 0).
      - rewrite map_length, seq_length. now rewrite Klen.
      - intros s Hs. rewrite map_length, seq_length in Hs. rewrite nth_map_seq by exact Hs.
        rewrite firstn_length. apply Nat.min_l. apply cut_bound; lia.
    Qed.

    Variable out : nat -> list A.
    Hypothesis Hout_perm : forall t, t < p -> Permutation (out t) (concat (pieces_of t)).
    Hypothesis Hout_sorted : forall t, t < p -> SS (out t).

    Lemma outs_prefix_perm k : k <= p ->
      Permutation (concat (map out (seq 0 k))) (concat (prefixes k)).
    Proof.
      intros Hk. eapply perm_trans; [|apply chain_perm; exact Hk].
      clear -Hout_perm Hk. induction k as [|k IH]; [constructor|].
      rewrite !seq_S, !map_app, !concat_app. simpl. rewrite !app_nil_r.
      apply Permutation_app; [apply IH; lia|apply Hout_perm; lia].
    Qed.

    Theorem chain_permutation : Permutation (concat (map out (seq 0 p))) (concat temps).
    Proof. pose proof (outs_prefix_perm p ltac:(lia)) as P. now rewrite prefixes_p in P. Qed.

    (** offsets: thread t writes right after the output of the threads before it *)
    Theorem chain_offsets t : t <= p -> PMS.sum (cuts t) = length (concat (map out (seq 0 t))).
    Proof.
      intros Ht. rewrite (Permutation_length (outs_prefix_perm t Ht)). symmetry. now apply prefixes_total.
    Qed.

    Lemma in_out_piece t a : t < p -> In a (out t) -> exists s, s < p /\ In a (piece t s).
    Proof.
      intros Ht Ha. apply (Permutation_in _ (Hout_perm t Ht)) in Ha.
      apply in_concat in Ha. destruct Ha as (l & Hl & Ha). unfold pieces_of in Hl.
      apply in_map_iff in Hl. destruct Hl as (s & <- & Hs). apply in_seq in Hs. exists s. split; [lia|exact Ha].
    Qed.

    Theorem chain_sorted : SS (concat (map out (seq 0 p))).
    Proof.
      apply SS_concat.
      - intros t. destruct (Nat.lt_ge_cases t p) as [Ht|Ht].
        + rewrite nth_map_seq by exact Ht. now apply Hout_sorted.
        + rewrite nth_map_seq_over by exact Ht. constructor.
      - intros t t' a b Htt Ha Hb.
        destruct (Nat.lt_ge_cases t' p) as [Ht'|Ht'].
        2: { rewrite nth_map_seq_over in Hb by exact Ht'. destruct Hb. }
        rewrite nth_map_seq in Ha by lia. rewrite nth_map_seq in Hb by lia.
        destruct (in_out_piece t a ltac:(lia) Ha) as (i & Hi & Hai).
        destruct (in_out_piece t' b Ht' Hb) as (j & Hj & Hbj).
        apply piece_left in Hai; [|lia|exact Hi]. apply piece_right in Hbj.
        apply (in_skipn_le _ (nth j (cuts (S t)) 0)) in Hbj; [|apply Kmono_le; lia].
        destruct (Kcut (S t) ltac:(lia) i j a b Hai Hbj) as [C1 C2].
        unfold sorted_rel. destruct (Nat.le_gt_cases i j) as [Hij|Hij]; [now apply C1|].
        apply (swo_asym _ H). now apply C2.
    Qed.
  End Chain.
End Cuts.

Arguments is_cut {A} ltb seqs c.
Arguments is_split {A} ltb seqs r c.
